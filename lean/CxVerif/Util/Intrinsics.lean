/-
  Util.Intrinsics — the MEANING given to the `core::arch::x86_64` intrinsics used by /repo/src (chacha/sse2.rs,
  hashing/sha2/impl256/{sse41,avx}.rs, hashing/blake2/{avx,avx2}.rs) by the SIMD glue translator tools/ktx_glue_simd.py.
  Every intrinsic is defined ONCE here, with the semantics of the "Operation" pseudo-code of Intel's Intrinsics Guide
  (quoted in the doc comments), and unit-tested at the end of the file against hand-computed values and against
  vectors produced by the real instructions (tools/ktx_simd_hwtest.py, run on an AVX2 machine).
  The generated file `Extracted/GlueSimd.lean` uses nothing else besides core `List`/`Nat`/`UIntN` operations.
  Core Lean only (linked into `cxdrv` through Extracted/).

  Representation.  A `__m128i` (also `__m128`: the casts `_mm_castsi128_ps`/`_mm_castps_si128` are bit-identities) is its
  four 32-bit elements `d0 … d3`, element 0 = bits 31:0 = lowest address in memory (x86 is little-endian).  Every other
  element size is a VIEW of these: byte `i` (bits 8i+7:8i) = byte `i % 4` of dword `i / 4`; 16-bit word `j` = half `j % 2` of
  dword `j / 2`; qword `k` (bits 64k+63:64k) = dword `2k` (low half) and dword `2k + 1` (high half).  A `__m256i` is its two
  128-bit lanes `lo` (bits 127:0) and `hi` (bits 255:128) — most AVX2 integer instructions work lane-wise, exactly as the
  pseudo-code says.  Immediates are `Nat`s; the translator passes the literal of the source (rustc rejects an immediate
  that does not fit the bit count of the intrinsic, and so does the translator).  `i32`/`i64` arguments are passed as their
  two's-complement bit patterns (`UInt32`/`UInt64`).

  Memory.  A load/store takes the buffer the pointer was derived from and a BYTE offset into it.  Three kinds of buffers:
  `Bytes` (`&[u8]`), `List UInt32` (`[u32; n]`), `List UInt64` (`[u64; n]`); an array of words is seen through a vector
  pointer as its little-endian byte image, and only element-aligned offsets are supported (anything else `.error "UB"`).
  An access that leaves the buffer is undefined behaviour in Rust (raw pointers): `.error "UB"`.  The ALIGNED forms
  (`_mm_load_si128`, `_mm_store_si128`, `_mm256_load_si256`) fault when the ADDRESS is not a multiple of 16 / 32; the
  base address of the buffer is not known here: they check the OFFSET (`.error "FAULT"`), the alignment of the base
  object (`#[repr(align(16))]` on `Align128`, `#[repr(align(32))]` on `EngineB`/`EngineS`) is checked on the source text
  by the translator where the declaration is in a translated file and is otherwise an assumption stated with the tie.
  `core::ptr::read(p as *const i32)` (`read_i32`) is the little-endian value of four bytes at ANY offset (the source reads
  through a possibly unaligned `*const i32`, which is outside `ptr::read`'s contract — see DESIGN 14.2).

  -- API: Cx.Intrinsics.M128i, M256i, the `_mm_*` / `_mm256_*` functions below, read_i32, the load/store families
-/
import CxVerif.Util.DebugAssert
namespace Cx.Intrinsics

/-! ## vector registers and their element views -/

/-- `__m128i` / `__m128` : four 32-bit elements, `d0` = bits 31:0 -/
structure M128i where
  d0 : UInt32
  d1 : UInt32
  d2 : UInt32
  d3 : UInt32
deriving DecidableEq, Repr, Inhabited

/-- `__m256i` : two 128-bit lanes, `lo` = bits 127:0 -/
structure M256i where
  lo : M128i
  hi : M128i
deriving DecidableEq, Repr, Inhabited

/-- bits `2k+1 : 2k` of an 8-bit immediate (`(imm >> 2k) & 3`) -/
def sel2 (imm k : Nat) : Nat := imm / 4 ^ k % 4

/-- byte `k` (0..3) of a dword -/
def byte32 (x : UInt32) (k : Nat) : UInt8 := (x >>> UInt32.ofNat (8 * k)).toUInt8
def bytes32 (x : UInt32) : List UInt8 := [byte32 x 0, byte32 x 1, byte32 x 2, byte32 x 3]
/-- the dword with the given little-endian bytes -/
def ofBytes32 (bs : List UInt8) : UInt32 := bs.foldr (fun b acc => b.toUInt32 ||| (acc <<< 8)) 0
/-- the qword with low half `lo` and high half `hi` -/
def join64 (lo hi : UInt32) : UInt64 := lo.toUInt64 ||| (hi.toUInt64 <<< 32)
def lo32 (q : UInt64) : UInt32 := q.toUInt32
def hi32 (q : UInt64) : UInt32 := (q >>> 32).toUInt32

namespace M128i

/-- 32-bit element `i` (0..3) -/
def dword (v : M128i) (i : Nat) : UInt32 :=
  match i with
  | 0 => v.d0
  | 1 => v.d1
  | 2 => v.d2
  | _ => v.d3
def ofDwordFn (f : Nat → UInt32) : M128i := ⟨f 0, f 1, f 2, f 3⟩

/-- byte `i` (0..15) -/
def byte (v : M128i) (i : Nat) : UInt8 := byte32 (v.dword (i / 4)) (i % 4)
def bytes (v : M128i) : List UInt8 := bytes32 v.d0 ++ bytes32 v.d1 ++ bytes32 v.d2 ++ bytes32 v.d3
def ofByteFn (f : Nat → UInt8) : M128i :=
  ⟨ofBytes32 [f 0, f 1, f 2, f 3], ofBytes32 [f 4, f 5, f 6, f 7], ofBytes32 [f 8, f 9, f 10, f 11],
   ofBytes32 [f 12, f 13, f 14, f 15]⟩

/-- 16-bit element `j` (0..7), zero-extended -/
def word (v : M128i) (j : Nat) : UInt32 := (v.dword (j / 2) >>> UInt32.ofNat (16 * (j % 2))) &&& 0xFFFF
def ofWordFn (f : Nat → UInt32) : M128i :=
  ⟨f 0 ||| (f 1 <<< 16), f 2 ||| (f 3 <<< 16), f 4 ||| (f 5 <<< 16), f 6 ||| (f 7 <<< 16)⟩

/-- 64-bit element `k` (0..1) -/
def qword (v : M128i) (k : Nat) : UInt64 :=
  match k with
  | 0 => join64 v.d0 v.d1
  | _ => join64 v.d2 v.d3
def ofQwords (q0 q1 : UInt64) : M128i := ⟨lo32 q0, hi32 q0, lo32 q1, hi32 q1⟩

def map (f : UInt32 → UInt32) (a : M128i) : M128i := ⟨f a.d0, f a.d1, f a.d2, f a.d3⟩
def zipWith (f : UInt32 → UInt32 → UInt32) (a b : M128i) : M128i := ⟨f a.d0 b.d0, f a.d1 b.d1, f a.d2 b.d2, f a.d3 b.d3⟩
def map64 (f : UInt64 → UInt64) (a : M128i) : M128i := ofQwords (f (a.qword 0)) (f (a.qword 1))
def zipWith64 (f : UInt64 → UInt64 → UInt64) (a b : M128i) : M128i :=
  ofQwords (f (a.qword 0) (b.qword 0)) (f (a.qword 1) (b.qword 1))

end M128i

namespace M256i
/-- 32-bit element `i` (0..7) -/
def dword (v : M256i) (i : Nat) : UInt32 := if i < 4 then v.lo.dword i else v.hi.dword (i - 4)
def ofDwordFn (f : Nat → UInt32) : M256i := ⟨⟨f 0, f 1, f 2, f 3⟩, ⟨f 4, f 5, f 6, f 7⟩⟩
def lanewise (f : M128i → M128i) (a : M256i) : M256i := ⟨f a.lo, f a.hi⟩
def lanewise2 (f : M128i → M128i → M128i) (a b : M256i) : M256i := ⟨f a.lo b.lo, f a.hi b.hi⟩
end M256i

/-! ## SSE2 / SSSE3 / SSE4.1 : 128 bits -/

/-- `paddd`: `FOR j := 0 to 3: i := j*32; dst[i+31:i] := a[i+31:i] + b[i+31:i]` -/
def _mm_add_epi32 (a b : M128i) : M128i := M128i.zipWith (· + ·) a b
/-- `paddq`: `FOR j := 0 to 1: i := j*64; dst[i+63:i] := a[i+63:i] + b[i+63:i]` -/
def _mm_add_epi64 (a b : M128i) : M128i := M128i.zipWith64 (· + ·) a b
/-- `pxor`: `dst[127:0] := (a[127:0] XOR b[127:0])` -/
def _mm_xor_si128 (a b : M128i) : M128i := M128i.zipWith (· ^^^ ·) a b
/-- `por`: `dst[127:0] := (a[127:0] OR b[127:0])` -/
def _mm_or_si128 (a b : M128i) : M128i := M128i.zipWith (· ||| ·) a b

/-- `pslld imm8`: `IF imm8[7:0] > 31 dst[i+31:i] := 0 ELSE dst[i+31:i] := ZeroExtend32(a[i+31:i] << imm8[7:0])` -/
def _mm_slli_epi32 (a : M128i) (imm : Nat) : M128i := a.map fun x => if imm > 31 then 0 else x <<< UInt32.ofNat imm
/-- `psrld imm8`: `IF imm8[7:0] > 31 dst[i+31:i] := 0 ELSE dst[i+31:i] := ZeroExtend32(a[i+31:i] >> imm8[7:0])` -/
def _mm_srli_epi32 (a : M128i) (imm : Nat) : M128i := a.map fun x => if imm > 31 then 0 else x >>> UInt32.ofNat imm
/-- `psllq imm8`: `IF imm8[7:0] > 63 dst[i+63:i] := 0 ELSE dst[i+63:i] := ZeroExtend64(a[i+63:i] << imm8[7:0])` -/
def _mm_slli_epi64 (a : M128i) (imm : Nat) : M128i := a.map64 fun x => if imm > 63 then 0 else x <<< UInt64.ofNat imm
/-- `psrlq imm8`: `IF imm8[7:0] > 63 dst[i+63:i] := 0 ELSE dst[i+63:i] := ZeroExtend64(a[i+63:i] >> imm8[7:0])` -/
def _mm_srli_epi64 (a : M128i) (imm : Nat) : M128i := a.map64 fun x => if imm > 63 then 0 else x >>> UInt64.ofNat imm

/-- `pshufd imm8`: `dst[31:0] := SELECT4(a, imm8[1:0]); dst[63:32] := SELECT4(a, imm8[3:2]); dst[95:64] := SELECT4(a, imm8[5:4]);
    dst[127:96] := SELECT4(a, imm8[7:6])` where `SELECT4(src, c)` is the 32-bit element `c` of `src` -/
def _mm_shuffle_epi32 (a : M128i) (imm : Nat) : M128i :=
  ⟨a.dword (sel2 imm 0), a.dword (sel2 imm 1), a.dword (sel2 imm 2), a.dword (sel2 imm 3)⟩
/-- `shufps imm8` (on the bit patterns): `dst[31:0] := SELECT4(a, imm8[1:0]); dst[63:32] := SELECT4(a, imm8[3:2]);
    dst[95:64] := SELECT4(b, imm8[5:4]); dst[127:96] := SELECT4(b, imm8[7:6])` -/
def _mm_shuffle_ps (a b : M128i) (imm : Nat) : M128i :=
  ⟨a.dword (sel2 imm 0), a.dword (sel2 imm 1), b.dword (sel2 imm 2), b.dword (sel2 imm 3)⟩
/-- bit-identity casts between `__m128i` and `__m128` -/
def _mm_castsi128_ps (a : M128i) : M128i := a
def _mm_castps_si128 (a : M128i) : M128i := a

/-- `pshufb`: `FOR j := 0 to 15: i := j*8; IF b[i+7] == 1 dst[i+7:i] := 0 ELSE index[3:0] := b[i+3:i];
    dst[i+7:i] := a[index*8+7:index*8]` -/
def _mm_shuffle_epi8 (a b : M128i) : M128i :=
  M128i.ofByteFn fun j => let s := b.byte j; if s &&& 0x80 ≠ 0 then 0 else a.byte (s &&& 0x0F).toNat

/-- `pshufhw imm8`: `dst[63:0] := a[63:0]; dst[79:64] := (a >> (imm8[1:0] * 16))[79:64]; dst[95:80] := (a >> (imm8[3:2] * 16))[79:64];
    dst[111:96] := (a >> (imm8[5:4] * 16))[79:64]; dst[127:112] := (a >> (imm8[7:6] * 16))[79:64]`
    (i.e. high word `k` := high word `imm8[2k+1:2k]`) -/
def _mm_shufflehi_epi16 (a : M128i) (imm : Nat) : M128i :=
  M128i.ofWordFn fun j => if j < 4 then a.word j else a.word (4 + sel2 imm (j - 4))

/-- `pblendw imm8`: `FOR j := 0 to 7: i := j*16; IF imm8[j] dst[i+15:i] := b[i+15:i] ELSE dst[i+15:i] := a[i+15:i]` -/
def _mm_blend_epi16 (a b : M128i) (imm : Nat) : M128i :=
  M128i.ofWordFn fun j => if imm.testBit j then b.word j else a.word j

/-- `palignr imm8`: `tmp[255:0] := ((a[127:0] << 128)[255:0] OR b[127:0]) >> (imm8*8); dst[127:0] := tmp[127:0]` -/
def _mm_alignr_epi8 (a b : M128i) (imm : Nat) : M128i :=
  M128i.ofByteFn fun i => let k := i + imm; if k < 16 then b.byte k else if k < 32 then a.byte (k - 16) else 0

/-- `pslldq imm8`: `tmp := imm8[7:0]; IF tmp > 15 tmp := 16; dst[127:0] := a[127:0] << (tmp*8)` -/
def _mm_slli_si128 (a : M128i) (imm : Nat) : M128i :=
  let t := if imm > 15 then 16 else imm
  M128i.ofByteFn fun i => if i < t then 0 else a.byte (i - t)
/-- `psrldq imm8`: `tmp := imm8[7:0]; IF tmp > 15 tmp := 16; dst[127:0] := a[127:0] >> (tmp*8)` -/
def _mm_srli_si128 (a : M128i) (imm : Nat) : M128i :=
  let t := if imm > 15 then 16 else imm
  M128i.ofByteFn fun i => if i + t < 16 then a.byte (i + t) else 0

/-- `punpcklqdq`: `dst[63:0] := a[63:0]; dst[127:64] := b[63:0]` -/
def _mm_unpacklo_epi64 (a b : M128i) : M128i := ⟨a.d0, a.d1, b.d0, b.d1⟩
/-- `punpckhqdq`: `dst[63:0] := a[127:64]; dst[127:64] := b[127:64]` -/
def _mm_unpackhi_epi64 (a b : M128i) : M128i := ⟨a.d2, a.d3, b.d2, b.d3⟩
/-- `punpckldq`: `dst[31:0] := a[31:0]; dst[63:32] := b[31:0]; dst[95:64] := a[63:32]; dst[127:96] := b[63:32]` -/
def _mm_unpacklo_epi32 (a b : M128i) : M128i := ⟨a.d0, b.d0, a.d1, b.d1⟩
/-- `punpckhdq`: `dst[31:0] := a[95:64]; dst[63:32] := b[95:64]; dst[95:64] := a[127:96]; dst[127:96] := b[127:96]` -/
def _mm_unpackhi_epi32 (a b : M128i) : M128i := ⟨a.d2, b.d2, a.d3, b.d3⟩

/-- `pinsrd imm8`: `dst[127:0] := a[127:0]; sel := imm8[1:0]*32; dst[sel+31:sel] := i[31:0]` -/
def _mm_insert_epi32 (a : M128i) (i : UInt32) (imm : Nat) : M128i :=
  M128i.ofDwordFn fun k => if k = imm % 4 then i else a.dword k
/-- `pextrd imm8`: `dst[31:0] := (a[127:0] >> (imm8[1:0] * 32))[31:0]` -/
def _mm_extract_epi32 (a : M128i) (imm : Nat) : UInt32 := a.dword (imm % 4)
/-- `movd`: `dst[31:0] := a[31:0]; dst[127:32] := 0` -/
def _mm_cvtsi32_si128 (a : UInt32) : M128i := ⟨a, 0, 0, 0⟩

/-- `dst[31:0] := e0; dst[63:32] := e1; dst[95:64] := e2; dst[127:96] := e3` (arguments highest element first) -/
def _mm_set_epi32 (e3 e2 e1 e0 : UInt32) : M128i := ⟨e0, e1, e2, e3⟩
/-- broadcast `a` to all four 32-bit elements -/
def _mm_set1_epi32 (a : UInt32) : M128i := ⟨a, a, a, a⟩
/-- `dst[63:0] := e0; dst[127:64] := e1` -/
def _mm_set_epi64x (e1 e0 : UInt64) : M128i := M128i.ofQwords e0 e1
/-- broadcast `a` to both 64-bit elements -/
def _mm_set1_epi64x (a : UInt64) : M128i := M128i.ofQwords a a
/-- `dst[7:0] := e0; …; dst[127:120] := e15` (arguments highest byte first) -/
def _mm_set_epi8 (e15 e14 e13 e12 e11 e10 e9 e8 e7 e6 e5 e4 e3 e2 e1 e0 : UInt8) : M128i :=
  ⟨ofBytes32 [e0, e1, e2, e3], ofBytes32 [e4, e5, e6, e7], ofBytes32 [e8, e9, e10, e11], ofBytes32 [e12, e13, e14, e15]⟩
/-- the same with the arguments in memory order (lowest byte first) -/
def _mm_setr_epi8 (e0 e1 e2 e3 e4 e5 e6 e7 e8 e9 e10 e11 e12 e13 e14 e15 : UInt8) : M128i :=
  ⟨ofBytes32 [e0, e1, e2, e3], ofBytes32 [e4, e5, e6, e7], ofBytes32 [e8, e9, e10, e11], ofBytes32 [e12, e13, e14, e15]⟩

/-! ## AVX / AVX2 : 256 bits -/

/-- `vpaddd ymm`: eight 32-bit additions -/
def _mm256_add_epi32 (a b : M256i) : M256i := M256i.lanewise2 _mm_add_epi32 a b
/-- `vpaddq ymm`: four 64-bit additions -/
def _mm256_add_epi64 (a b : M256i) : M256i := M256i.lanewise2 _mm_add_epi64 a b
/-- `vpxor ymm`: `dst[255:0] := (a[255:0] XOR b[255:0])` -/
def _mm256_xor_si256 (a b : M256i) : M256i := M256i.lanewise2 _mm_xor_si128 a b
/-- `vpor ymm`: `dst[255:0] := (a[255:0] OR b[255:0])` -/
def _mm256_or_si256 (a b : M256i) : M256i := M256i.lanewise2 _mm_or_si128 a b
/-- `vpslld ymm, imm8`: every 32-bit element, counts above 31 give 0 -/
def _mm256_slli_epi32 (a : M256i) (imm : Nat) : M256i := a.lanewise (_mm_slli_epi32 · imm)
/-- `vpsrld ymm, imm8` -/
def _mm256_srli_epi32 (a : M256i) (imm : Nat) : M256i := a.lanewise (_mm_srli_epi32 · imm)
/-- `vpsllq ymm, imm8`: every 64-bit element, counts above 63 give 0 -/
def _mm256_slli_epi64 (a : M256i) (imm : Nat) : M256i := a.lanewise (_mm_slli_epi64 · imm)
/-- `vpsrlq ymm, imm8` -/
def _mm256_srli_epi64 (a : M256i) (imm : Nat) : M256i := a.lanewise (_mm_srli_epi64 · imm)
/-- `vpshufb ymm`: the 128-bit `pshufb` in each lane separately (`dst[128+i+7:128+i] := a[128+index*8+7:128+index*8]`) -/
def _mm256_shuffle_epi8 (a b : M256i) : M256i := M256i.lanewise2 _mm_shuffle_epi8 a b
/-- `vpshufd ymm, imm8`: the 128-bit `pshufd` in each lane with the same control -/
def _mm256_shuffle_epi32 (a : M256i) (imm : Nat) : M256i := a.lanewise (_mm_shuffle_epi32 · imm)
/-- `vpunpcklqdq ymm`: `INTERLEAVE_QWORDS(a[127:0], b[127:0])` and the same on bits 255:128 -/
def _mm256_unpacklo_epi64 (a b : M256i) : M256i := M256i.lanewise2 _mm_unpacklo_epi64 a b
/-- `vpunpckhqdq ymm`: `INTERLEAVE_HIGH_QWORDS` per lane -/
def _mm256_unpackhi_epi64 (a b : M256i) : M256i := M256i.lanewise2 _mm_unpackhi_epi64 a b
/-- `vpalignr ymm, imm8`: `FOR j := 0 to 1: i := j*128; tmp[255:0] := ((a[i+127:i] << 128)[255:0] OR b[i+127:i]) >> (imm8*8);
    dst[i+127:i] := tmp[127:0]` -/
def _mm256_alignr_epi8 (a b : M256i) (imm : Nat) : M256i := M256i.lanewise2 (_mm_alignr_epi8 · · imm) a b
/-- `vpblendd imm8`: `FOR j := 0 to 7: i := j*32; IF imm8[j] dst[i+31:i] := b[i+31:i] ELSE dst[i+31:i] := a[i+31:i]` -/
def _mm256_blend_epi32 (a b : M256i) (imm : Nat) : M256i :=
  M256i.ofDwordFn fun j => if imm.testBit j then b.dword j else a.dword j
/-- `vpermq imm8`: `dst[63:0] := SELECT4(a[255:0], imm8[1:0]); dst[127:64] := SELECT4(a[255:0], imm8[3:2]);
    dst[191:128] := SELECT4(a[255:0], imm8[5:4]); dst[255:192] := SELECT4(a[255:0], imm8[7:6])`, `SELECT4(src, c)` = the 64-bit
    element `c` of `src` (crosses the lanes).  Written on the dword pairs: dwords `2k, 2k+1` := dwords `2c, 2c+1`. -/
def _mm256_permute4x64_epi64 (a : M256i) (imm : Nat) : M256i :=
  M256i.ofDwordFn fun i => a.dword (2 * sel2 imm (i / 2) + i % 2)
/-- `vbroadcasti128`: `dst[127:0] := a[127:0]; dst[255:128] := a[127:0]` -/
def _mm256_broadcastsi128_si256 (a : M128i) : M256i := ⟨a, a⟩
/-- `dst[127:0] := a; dst[255:128] := undefined`: the upper lane is a fixed but UNKNOWN value (`undefined128` is opaque: no
    theorem can depend on it) -/
opaque undefined128 : M128i
def _mm256_castsi128_si256 (a : M128i) : M256i := ⟨a, undefined128⟩
/-- `dst[255:0] := a[255:0]; sel := index[2:0]*32; dst[sel+31:sel] := i[31:0]` -/
def _mm256_insert_epi32 (a : M256i) (i : UInt32) (index : Nat) : M256i :=
  M256i.ofDwordFn fun k => if k = index % 8 then i else a.dword k
/-- `dst[31:0] := (a[255:0] >> (index[2:0] * 32))[31:0]` -/
def _mm256_extract_epi32 (a : M256i) (index : Nat) : UInt32 := a.dword (index % 8)
/-- broadcast `a` to all eight 32-bit elements -/
def _mm256_set1_epi32 (a : UInt32) : M256i := ⟨_mm_set1_epi32 a, _mm_set1_epi32 a⟩
/-- `dst[63:0] := e0; dst[127:64] := e1; dst[191:128] := e2; dst[255:192] := e3` -/
def _mm256_set_epi64x (e3 e2 e1 e0 : UInt64) : M256i := ⟨M128i.ofQwords e0 e1, M128i.ofQwords e2 e3⟩
/-- `dst[7:0] := e0; …; dst[255:248] := e31` (arguments highest byte first) -/
def _mm256_set_epi8 (e31 e30 e29 e28 e27 e26 e25 e24 e23 e22 e21 e20 e19 e18 e17 e16
    e15 e14 e13 e12 e11 e10 e9 e8 e7 e6 e5 e4 e3 e2 e1 e0 : UInt8) : M256i :=
  ⟨_mm_set_epi8 e15 e14 e13 e12 e11 e10 e9 e8 e7 e6 e5 e4 e3 e2 e1 e0,
   _mm_set_epi8 e31 e30 e29 e28 e27 e26 e25 e24 e23 e22 e21 e20 e19 e18 e17 e16⟩
/-- the same with the arguments in memory order -/
def _mm256_setr_epi8 (e0 e1 e2 e3 e4 e5 e6 e7 e8 e9 e10 e11 e12 e13 e14 e15
    e16 e17 e18 e19 e20 e21 e22 e23 e24 e25 e26 e27 e28 e29 e30 e31 : UInt8) : M256i :=
  ⟨_mm_setr_epi8 e0 e1 e2 e3 e4 e5 e6 e7 e8 e9 e10 e11 e12 e13 e14 e15,
   _mm_setr_epi8 e16 e17 e18 e19 e20 e21 e22 e23 e24 e25 e26 e27 e28 e29 e30 e31⟩

/-! ## memory -/

/-- the dword at byte offset `off` of a byte buffer (little-endian; the caller has checked the range) -/
def ld32 (mem : List UInt8) (off : Nat) : UInt32 := ofBytes32 ((mem.drop off).take 4)

/-- `core::ptr::read(p as *const i32)`, `p` = `mem + off` bytes -/
def read_i32 (mem : List UInt8) (off : Nat) : Except String UInt32 :=
  if off + 4 ≤ mem.length then .ok (ld32 mem off) else .error "UB"

/-- `movdqu` load: `dst[127:0] := MEM[mem_addr+127:mem_addr]` from a byte buffer -/
def _mm_loadu_si128 (mem : List UInt8) (off : Nat) : Except String M128i :=
  if off + 16 ≤ mem.length then .ok ⟨ld32 mem off, ld32 mem (off + 4), ld32 mem (off + 8), ld32 mem (off + 12)⟩
  else .error "UB"
/-- `movdqu` store into a byte buffer -/
def _mm_storeu_si128 (mem : List UInt8) (off : Nat) (v : M128i) : Except String (List UInt8) :=
  if off + 16 ≤ mem.length then .ok (mem.take off ++ v.bytes ++ mem.drop (off + 16)) else .error "UB"

/-- unaligned 16-byte load from the byte image of a `[u32; n]` -/
def _mm_loadu_si128_u32 (arr : List UInt32) (off : Nat) : Except String M128i :=
  if off % 4 = 0 then
    match arr.drop (off / 4) with
    | a :: b :: c :: d :: _ => .ok ⟨a, b, c, d⟩
    | _ => .error "UB"
  else .error "UB"
/-- unaligned 16-byte store into the byte image of a `[u32; n]` -/
def _mm_storeu_si128_u32 (arr : List UInt32) (off : Nat) (v : M128i) : Except String (List UInt32) :=
  if off % 4 = 0 ∧ off / 4 + 4 ≤ arr.length then .ok (arr.take (off / 4) ++ [v.d0, v.d1, v.d2, v.d3] ++ arr.drop (off / 4 + 4))
  else .error "UB"
/-- unaligned 16-byte load from the byte image of a `[u64; n]` -/
def _mm_loadu_si128_u64 (arr : List UInt64) (off : Nat) : Except String M128i :=
  if off % 8 = 0 then
    match arr.drop (off / 8) with
    | q0 :: q1 :: _ => .ok (M128i.ofQwords q0 q1)
    | _ => .error "UB"
  else .error "UB"
/-- unaligned 16-byte store into the byte image of a `[u64; n]` -/
def _mm_storeu_si128_u64 (arr : List UInt64) (off : Nat) (v : M128i) : Except String (List UInt64) :=
  if off % 8 = 0 ∧ off / 8 + 2 ≤ arr.length then .ok (arr.take (off / 8) ++ [v.qword 0, v.qword 1] ++ arr.drop (off / 8 + 2))
  else .error "UB"

/-- `movdqa` (aligned) forms: a general-protection fault unless the address is a multiple of 16; the base object is
    16-byte aligned (see the header), so the OFFSET is checked -/
def _mm_load_si128 (mem : List UInt8) (off : Nat) : Except String M128i :=
  if off % 16 = 0 then _mm_loadu_si128 mem off else .error "FAULT"
def _mm_load_si128_u32 (arr : List UInt32) (off : Nat) : Except String M128i :=
  if off % 16 = 0 then _mm_loadu_si128_u32 arr off else .error "FAULT"
def _mm_load_si128_u64 (arr : List UInt64) (off : Nat) : Except String M128i :=
  if off % 16 = 0 then _mm_loadu_si128_u64 arr off else .error "FAULT"
def _mm_store_si128 (mem : List UInt8) (off : Nat) (v : M128i) : Except String (List UInt8) :=
  if off % 16 = 0 then _mm_storeu_si128 mem off v else .error "FAULT"
def _mm_store_si128_u32 (arr : List UInt32) (off : Nat) (v : M128i) : Except String (List UInt32) :=
  if off % 16 = 0 then _mm_storeu_si128_u32 arr off v else .error "FAULT"
def _mm_store_si128_u64 (arr : List UInt64) (off : Nat) (v : M128i) : Except String (List UInt64) :=
  if off % 16 = 0 then _mm_storeu_si128_u64 arr off v else .error "FAULT"

/-- `vmovdqu ymm` load / store on the byte image of a `[u64; n]`: lane `lo` at the lower address -/
def _mm256_loadu_si256_u64 (arr : List UInt64) (off : Nat) : Except String M256i :=
  match _mm_loadu_si128_u64 arr off, _mm_loadu_si128_u64 arr (off + 16) with
  | .ok lo, .ok hi => .ok ⟨lo, hi⟩
  | _, _ => .error "UB"
def _mm256_storeu_si256_u64 (arr : List UInt64) (off : Nat) (v : M256i) : Except String (List UInt64) :=
  match _mm_storeu_si128_u64 arr off v.lo with
  | .ok arr' => _mm_storeu_si128_u64 arr' (off + 16) v.hi
  | .error e => .error e
/-- `vmovdqa ymm`: faults unless the address is a multiple of 32 -/
def _mm256_load_si256_u64 (arr : List UInt64) (off : Nat) : Except String M256i :=
  if off % 32 = 0 then _mm256_loadu_si256_u64 arr off else .error "FAULT"
def _mm256_loadu_si256 (mem : List UInt8) (off : Nat) : Except String M256i :=
  match _mm_loadu_si128 mem off, _mm_loadu_si128 mem (off + 16) with
  | .ok lo, .ok hi => .ok ⟨lo, hi⟩
  | _, _ => .error "UB"
def _mm256_storeu_si256 (mem : List UInt8) (off : Nat) (v : M256i) : Except String (List UInt8) :=
  match _mm_storeu_si128 mem off v.lo with
  | .ok mem' => _mm_storeu_si128 mem' (off + 16) v.hi
  | .error e => .error e

/-! ## scalar helpers of the translation -/

/-- `x as i64` for `x : i32` (sign extension), on bit patterns -/
def sext32to64 (x : UInt32) : UInt64 := if x &&& 0x80000000 ≠ 0 then x.toUInt64 ||| 0xFFFFFFFF00000000 else x.toUInt64
/-- `x as i32`/`as i16` … for `x : i8` -/
def sext8to32 (x : UInt8) : UInt32 := if x &&& 0x80 ≠ 0 then x.toUInt32 ||| 0xFFFFFF00 else x.toUInt32

/-! ## unit tests (hand-computed from the pseudo-code; vectors from the real instructions: Util/IntrinsicsHwTest.lean) -/
section tests
private def A : M128i := ⟨0x03020100, 0x07060504, 0x0B0A0908, 0x0F0E0D0C⟩   -- bytes 00 01 02 … 0F in memory order
private def B : M128i := ⟨0x13121110, 0x17161514, 0x1B1A1918, 0x1F1E1D1C⟩   -- bytes 10 11 … 1F

example : _mm_add_epi32 ⟨0xFFFFFFFF, 1, 2, 0x80000000⟩ ⟨1, 1, 1, 0x80000000⟩ = ⟨0, 2, 3, 0⟩ := by decide          -- no carry between lanes
example : _mm_add_epi64 ⟨0xFFFFFFFF, 1, 2, 0x80000000⟩ ⟨1, 1, 1, 0x80000000⟩ = ⟨0, 3, 3, 0⟩ := by decide          -- carry INTO dword 1, none out of bit 63
example : _mm_xor_si128 ⟨0xF0F0F0F0, 0, 1, 3⟩ ⟨0xFF00FF00, 5, 1, 5⟩ = ⟨0x0FF00FF0, 5, 0, 6⟩ := by decide
example : _mm_or_si128 ⟨0xF0F0F0F0, 0, 1, 3⟩ ⟨0xFF00FF00, 5, 1, 5⟩ = ⟨0xFFF0FFF0, 5, 1, 7⟩ := by decide
example : _mm_slli_epi32 ⟨0x80000001, 1, 0xFFFFFFFF, 0⟩ 4 = ⟨0x00000010, 0x10, 0xFFFFFFF0, 0⟩ := by decide
example : _mm_slli_epi32 ⟨0x80000001, 1, 0xFFFFFFFF, 0⟩ 32 = ⟨0, 0, 0, 0⟩ := by decide
example : _mm_srli_epi32 ⟨0x80000001, 0x10, 0xFFFFFFFF, 0⟩ 4 = ⟨0x08000000, 1, 0x0FFFFFFF, 0⟩ := by decide
example : _mm_slli_epi64 ⟨0x80000001, 1, 0xFFFFFFFF, 0⟩ 4 = ⟨0x00000010, 0x18, 0xFFFFFFF0, 0xF⟩ := by decide       -- bits cross the dword boundary
example : _mm_srli_epi64 ⟨0x80000001, 1, 0xFFFFFFFF, 0x10⟩ 4 = ⟨0x18000000, 0, 0x0FFFFFFF, 1⟩ := by decide
example : _mm_srli_epi64 A 64 = ⟨0, 0, 0, 0⟩ := by decide
example : _mm_shuffle_epi32 ⟨10, 11, 12, 13⟩ 0x39 = ⟨11, 12, 13, 10⟩ := by decide      -- 0b00_11_10_01: dst0 := src1, dst1 := src2, dst2 := src3, dst3 := src0
example : _mm_shuffle_epi32 ⟨10, 11, 12, 13⟩ 0x93 = ⟨13, 10, 11, 12⟩ := by decide      -- 0b10_01_00_11
example : _mm_shuffle_epi32 ⟨10, 11, 12, 13⟩ 0x4E = ⟨12, 13, 10, 11⟩ := by decide
example : _mm_shuffle_ps ⟨10, 11, 12, 13⟩ ⟨20, 21, 22, 23⟩ 0x88 = ⟨10, 12, 20, 22⟩ := by decide      -- _MM_SHUFFLE(2,0,2,0)
example : _mm_shuffle_epi8 A (_mm_set_epi8 12 13 14 15 8 9 10 11 4 5 6 7 0 1 2 3) = ⟨0x00010203, 0x04050607, 0x08090A0B, 0x0C0D0E0F⟩ := by decide   -- byte swap of every dword
example : _mm_shuffle_epi8 A (_mm_setr_epi8 0x80 0 0 0 0xFF 1 1 1 0x0F 0x1F 0x7F 2 3 3 3 3) = ⟨0x00000000, 0x01010100, 0x020F0F0F, 0x03030303⟩ := by decide   -- bit 7 zeroes, only bits 3:0 select
example : _mm_shufflehi_epi16 A 0x1B = ⟨0x03020100, 0x07060504, 0x0D0C0F0E, 0x09080B0A⟩ := by decide      -- high words reversed, low qword copied
example : _mm_blend_epi16 A B 0xF0 = ⟨0x03020100, 0x07060504, 0x1B1A1918, 0x1F1E1D1C⟩ := by decide
example : _mm_blend_epi16 A B 0x05 = ⟨0x03021110, 0x07061514, 0x0B0A0908, 0x0F0E0D0C⟩ := by decide        -- words 0 and 2 from b
example : _mm_alignr_epi8 A B 8 = ⟨0x1B1A1918, 0x1F1E1D1C, 0x03020100, 0x07060504⟩ := by decide           -- high qword of b, low qword of a
example : _mm_alignr_epi8 A B 1 = ⟨0x14131211, 0x18171615, 0x1C1B1A19, 0x001F1E1D⟩ := by decide
example : _mm_alignr_epi8 A B 20 = ⟨0x07060504, 0x0B0A0908, 0x0F0E0D0C, 0⟩ := by decide
example : _mm_alignr_epi8 A B 32 = ⟨0, 0, 0, 0⟩ := by decide
example : _mm_slli_si128 A 4 = ⟨0, 0x03020100, 0x07060504, 0x0B0A0908⟩ := by decide
example : _mm_slli_si128 A 1 = ⟨0x02010000, 0x06050403, 0x0A090807, 0x0E0D0C0B⟩ := by decide
example : _mm_slli_si128 A 16 = ⟨0, 0, 0, 0⟩ := by decide
example : _mm_srli_si128 A 12 = ⟨0x0F0E0D0C, 0, 0, 0⟩ := by decide
example : _mm_srli_si128 A 3 = ⟨0x06050403, 0x0A090807, 0x0E0D0C0B, 0x0000000F⟩ := by decide
example : _mm_unpacklo_epi64 ⟨10, 11, 12, 13⟩ ⟨20, 21, 22, 23⟩ = ⟨10, 11, 20, 21⟩ := by decide
example : _mm_unpackhi_epi64 ⟨10, 11, 12, 13⟩ ⟨20, 21, 22, 23⟩ = ⟨12, 13, 22, 23⟩ := by decide
example : _mm_unpacklo_epi32 ⟨10, 11, 12, 13⟩ ⟨20, 21, 22, 23⟩ = ⟨10, 20, 11, 21⟩ := by decide
example : _mm_unpackhi_epi32 ⟨10, 11, 12, 13⟩ ⟨20, 21, 22, 23⟩ = ⟨12, 22, 13, 23⟩ := by decide
example : _mm_insert_epi32 ⟨10, 11, 12, 13⟩ 99 2 = ⟨10, 11, 99, 13⟩ := by decide
example : _mm_extract_epi32 ⟨10, 11, 12, 13⟩ 3 = 13 := by decide
example : _mm_cvtsi32_si128 7 = ⟨7, 0, 0, 0⟩ := by decide
example : _mm_set_epi32 3 2 1 0 = ⟨0, 1, 2, 3⟩ := by decide
example : _mm_set1_epi32 5 = ⟨5, 5, 5, 5⟩ := by decide
example : _mm_set_epi64x 0 0xFFFFFFFFFFFFFFFF = ⟨0xFFFFFFFF, 0xFFFFFFFF, 0, 0⟩ := by decide                      -- `_mm_set_epi64x(0, -1i64)`: LOW qword all ones
example : _mm_set1_epi64x 0x0000000100000002 = ⟨2, 1, 2, 1⟩ := by decide
example : _mm_set_epi8 15 14 13 12 11 10 9 8 7 6 5 4 3 2 1 0 = A := by decide
example : _mm_setr_epi8 0 1 2 3 4 5 6 7 8 9 10 11 12 13 14 15 = A := by decide
example : A.bytes = [0, 1, 2, 3, 4, 5, 6, 7, 8, 9, 10, 11, 12, 13, 14, 15] := by decide
example : A.qword 1 = 0x0F0E0D0C0B0A0908 ∧ A.word 3 = 0x0706 ∧ A.byte 9 = 9 := by decide
-- 256 bits
example : _mm256_add_epi64 ⟨⟨0xFFFFFFFF, 0, 1, 1⟩, ⟨0xFFFFFFFF, 0xFFFFFFFF, 0, 0⟩⟩ ⟨⟨1, 0, 1, 1⟩, ⟨1, 0, 0, 0⟩⟩ = ⟨⟨0, 1, 2, 2⟩, ⟨0, 0, 0, 0⟩⟩ := by decide
example : _mm256_shuffle_epi32 ⟨⟨10, 11, 12, 13⟩, ⟨20, 21, 22, 23⟩⟩ 0xB1 = ⟨⟨11, 10, 13, 12⟩, ⟨21, 20, 23, 22⟩⟩ := by decide     -- per lane
example : _mm256_permute4x64_epi64 ⟨⟨10, 11, 12, 13⟩, ⟨20, 21, 22, 23⟩⟩ 0x93 = ⟨⟨22, 23, 10, 11⟩, ⟨12, 13, 20, 21⟩⟩ := by decide    -- _MM_SHUFFLE(2,1,0,3): crosses lanes
example : _mm256_permute4x64_epi64 ⟨⟨10, 11, 12, 13⟩, ⟨20, 21, 22, 23⟩⟩ 0x39 = ⟨⟨12, 13, 20, 21⟩, ⟨22, 23, 10, 11⟩⟩ := by decide
example : _mm256_blend_epi32 ⟨⟨10, 11, 12, 13⟩, ⟨14, 15, 16, 17⟩⟩ ⟨⟨20, 21, 22, 23⟩, ⟨24, 25, 26, 27⟩⟩ 0xF0 = ⟨⟨10, 11, 12, 13⟩, ⟨24, 25, 26, 27⟩⟩ := by decide
example : _mm256_blend_epi32 ⟨⟨10, 11, 12, 13⟩, ⟨14, 15, 16, 17⟩⟩ ⟨⟨20, 21, 22, 23⟩, ⟨24, 25, 26, 27⟩⟩ 0x33 = ⟨⟨20, 21, 12, 13⟩, ⟨24, 25, 16, 17⟩⟩ := by decide
example : _mm256_unpacklo_epi64 ⟨⟨10, 11, 12, 13⟩, ⟨14, 15, 16, 17⟩⟩ ⟨⟨20, 21, 22, 23⟩, ⟨24, 25, 26, 27⟩⟩ = ⟨⟨10, 11, 20, 21⟩, ⟨14, 15, 24, 25⟩⟩ := by decide
example : _mm256_alignr_epi8 ⟨A, B⟩ ⟨B, A⟩ 8 = ⟨_mm_alignr_epi8 A B 8, _mm_alignr_epi8 B A 8⟩ := by decide
example : _mm256_broadcastsi128_si256 A = ⟨A, A⟩ := by decide
example : _mm256_insert_epi32 ⟨⟨10, 11, 12, 13⟩, ⟨14, 15, 16, 17⟩⟩ 99 5 = ⟨⟨10, 11, 12, 13⟩, ⟨14, 99, 16, 17⟩⟩ := by decide
example : _mm256_extract_epi32 ⟨⟨10, 11, 12, 13⟩, ⟨14, 15, 16, 17⟩⟩ 6 = 16 := by decide
example (x : UInt32) : _mm256_insert_epi32 (_mm256_insert_epi32 (_mm256_insert_epi32 (_mm256_insert_epi32 (_mm256_castsi128_si256 ⟨1, 2, 3, 4⟩) x 4) x 5) x 6) x 7
    = ⟨⟨1, 2, 3, 4⟩, ⟨x, x, x, x⟩⟩ := rfl                                                                   -- the undefined upper lane is gone once overwritten
example : _mm256_set_epi64x 0 0xFFFFFFFFFFFFFFFF 2 1 = ⟨⟨1, 0, 2, 0⟩, ⟨0xFFFFFFFF, 0xFFFFFFFF, 0, 0⟩⟩ := by decide
-- memory
example : _mm_loadu_si128 [0, 1, 2, 3, 4, 5, 6, 7, 8, 9, 10, 11, 12, 13, 14, 15, 16] 1 = .ok ⟨0x04030201, 0x08070605, 0x0C0B0A09, 0x100F0E0D⟩ := by rfl
example : _mm_loadu_si128 [0, 1, 2, 3, 4, 5, 6, 7, 8, 9, 10, 11, 12, 13, 14, 15, 16] 2 = .error "UB" := by rfl
example : _mm_load_si128 (List.replicate 40 7) 8 = .error "FAULT" := by rfl
example : read_i32 [1, 2, 3, 4, 5] 1 = .ok 0x05040302 ∧ read_i32 [1, 2, 3, 4, 5] 2 = .error "UB" := ⟨rfl, rfl⟩
example : _mm_storeu_si128 (List.replicate 18 0xEE) 1 A = .ok ([0xEE] ++ A.bytes ++ [0xEE]) := by rfl
example : _mm_loadu_si128_u64 [1, 2, 0x0000000400000003, 0x0000000600000005] 16 = .ok ⟨3, 4, 5, 6⟩ := by rfl
example : _mm_loadu_si128_u64 [1, 2, 3, 4] 24 = .error "UB" ∧ _mm_loadu_si128_u64 [1, 2, 3, 4] 4 = .error "UB" := ⟨rfl, rfl⟩
example : _mm_storeu_si128_u64 [1, 2, 3, 4] 16 ⟨3, 4, 5, 6⟩ = .ok [1, 2, 0x0000000400000003, 0x0000000600000005] := by rfl
example : _mm_load_si128_u32 [1, 2, 3, 4] 0 = .ok ⟨1, 2, 3, 4⟩ ∧ _mm_store_si128_u32 [0, 0, 0, 0] 0 ⟨1, 2, 3, 4⟩ = .ok [1, 2, 3, 4] := ⟨rfl, rfl⟩
example : _mm256_loadu_si256_u64 [1, 2, 3, 4, 5] 8 = .ok ⟨⟨2, 0, 3, 0⟩, ⟨4, 0, 5, 0⟩⟩ := by rfl
example : sext32to64 0x80000000 = 0xFFFFFFFF80000000 ∧ sext32to64 0x7FFFFFFF = 0x7FFFFFFF ∧ sext8to32 0xFF = 0xFFFFFFFF := by decide
end tests

end Cx.Intrinsics
