/-
  Util.GlueRt — the run-time library of the glue translator tools/ktx_glue.py: the MEANING it gives to the Rust
  slice primitives.  The generated files `Extracted/Glue*.lean` use nothing else besides core `List`/`Nat`/`UIntN`
  operations, the byte codecs of Util/Bytes.lean and the state structures of the hand models.
  Core Lean only (linked into `cxdrv` through Extracted/).

  Every function returns `none` exactly where the Rust operation panics:

    slice b lo hi            `&b[lo..hi]`  /  `&mut b[lo..hi]`     panics unless lo ≤ hi ≤ b.len()
    copy_from_slice d lo hi s  `d[lo..hi].copy_from_slice(s)` and the write-back of a `&mut d[lo..hi]` borrow that a
                             callee has overwritten with `s`: panics unless the range is inside `d` and
                             `s.len() == hi - lo`
    index b i                `b[i]`                                panics unless i < b.len()
    set_index b i v          `b[i] = v`                            panics unless i < b.len()
    fill n c                 `[c; n]`
    try_array n b            `<&[T; n]>::try_from(b).unwrap()` / `<&mut [T; n]>::try_from(b).unwrap()`:
                             panics unless b.len() == n

  -- API: Cx.Glue.slice, copy_from_slice, index, set_index, fill, try_array
-/
namespace Cx.Glue

def slice {α : Type} (b : List α) (lo hi : Nat) : Option (List α) :=
  if lo ≤ hi ∧ hi ≤ b.length then some ((b.drop lo).take (hi - lo)) else none

def copy_from_slice {α : Type} (dst : List α) (lo hi : Nat) (src : List α) : Option (List α) :=
  if lo ≤ hi ∧ hi ≤ dst.length ∧ src.length = hi - lo then some (dst.take lo ++ src ++ dst.drop hi) else none

def index {α : Type} (b : List α) (i : Nat) : Option α := b[i]?

def set_index {α : Type} (b : List α) (i : Nat) (v : α) : Option (List α) :=
  if i < b.length then some (b.set i v) else none

def fill {α : Type} (n : Nat) (c : α) : List α := List.replicate n c

def try_array {α : Type} (n : Nat) (b : List α) : Option (List α) :=
  if b.length = n then some b else none

end Cx.Glue
