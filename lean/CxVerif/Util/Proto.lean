/-
  Util.Proto — the line protocol shared by the Lean driver and the Rust harness.
  A case is one line `op arg arg …`; the answer is one line. `?` = this executor has no
  separate definition for that op in that mode (the runner skips the comparison).
-/
import CxVerif.Util.Bytes
namespace Cx

/-- handler: arguments → answer (`none` = malformed request) -/
abbrev Handler := List String → Option String

structure OpEntry where
  name : String
  impl : Handler
  spec : Handler

def h1 (f : String → Option String) : Handler
  | [a] => f a
  | _ => none
def h2 (f : String → String → Option String) : Handler
  | [a, b] => f a b
  | _ => none
def h3 (f : String → String → String → Option String) : Handler
  | [a, b, c] => f a b c
  | _ => none
def h4 (f : String → String → String → String → Option String) : Handler
  | [a, b, c, d] => f a b c d
  | _ => none
def h5 (f : String → String → String → String → String → Option String) : Handler
  | [a, b, c, d, e] => f a b c d e
  | _ => none
def h6 (f : String → String → String → String → String → String → Option String) : Handler
  | [a, b, c, d, e, g] => f a b c d e g
  | _ => none

def noSpec : Handler := fun _ => some "?"

def boolStr (b : Bool) : String := if b then "true" else "false"

def parseBool (s : String) : Option Bool :=
  if s == "true" || s == "1" then some true
  else if s == "false" || s == "0" then some false else none

def hexArg (s : String) : Option Bytes := Hex.decode s
def natArg (s : String) : Option Nat := s.toNat?

/-- comma separated list of naturals; `-` is the empty list -/
def natListArg (s : String) : Option (List Nat) :=
  if s == "-" then some [] else (s.splitOn ",").mapM (·.toNat?)

/-- comma separated list of hex strings; `_` is the empty list, `-` the empty byte string -/
def hexListArg (s : String) : Option (List Bytes) :=
  if s == "_" then some [] else (s.splitOn ",").mapM Hex.decode

/-- split `bs` at the given piece lengths (each clipped to what is left); what remains after the last length is a
    further piece only when it is non-empty or when no length was given (so a list that covers `bs` exactly ends with
    its own last piece; a trailing empty piece is written as a final `0`) -/
def splitAtLensAux : List Nat → Bytes → List Bytes
  | [], bs => if bs.isEmpty then [] else [bs]
  | n :: ns, bs => bs.take n :: splitAtLensAux ns (bs.drop n)

def splitAtLens (lens : List Nat) (bs : Bytes) : List Bytes :=
  match lens with
  | [] => [bs]
  | _ => splitAtLensAux lens bs

end Cx
