/-!
  `debug_assert!` / `debug_assert_eq!` of the Rust source, as the translators render it.

  A `debug_assert!(c)` is checked only in builds with `debug_assertions` on.  The generated definitions (Extracted/*.lean) model
  the DEBUG build: the guard is the same proposition as for `assert!(c)`, but it is written through the marker below, so that
  turning an `assert!` of the source into a `debug_assert!` (or back) changes the generated text — the marker is what the tie
  theorems and the hand models state.  It says nothing about release builds, where the check is absent.
-/
namespace Cx

/-- the condition of a `debug_assert!` (meaning under `debug_assertions`: the condition itself) -/
@[reducible] def debugAssert (p : Prop) : Prop := p

instance (p : Prop) [h : Decidable p] : Decidable (debugAssert p) := h

/-- Boolean form, for translators whose conditions are `Bool` terms -/
@[reducible] def debugAssertB (b : Bool) : Bool := b

theorem debugAssert_iff (p : Prop) : debugAssert p ↔ p := Iff.rfl
theorem debugAssertB_eq (b : Bool) : debugAssertB b = b := rfl

end Cx
