/-
  Driver.Blake2 — line-protocol ops of the `blake2` unit (AGENT_GUIDE section 6).
    hash.blake2{b,s} <outlen> <key> <msg>      Context<8·outlen>::new_keyed(key).update(msg).finalize_at  ","  ContextDyn same
    hashdyn.blake2{b,s} <outlen> <key> <msg>   ContextDyn only (any outlen, for the refused-parameter matrix)
    finat.blake2{b,s} <outlen> <buflen> <key> <msg>   ContextDyn … finalize_at(&mut [0; buflen]) (refused unless buflen = outlen)
    hashbits.blake2{b,s} <BITS> <key> <msg>    Context<BITS> for BITS not a multiple of 8 / out of range
    hash.blake2b_{224,256,384,512}, hash.blake2s_{224,256} <msg>
                                               hashing::blake2x_nnn(msg) "," Context::<nnn>::new().update(msg).finalize()
    hctx.blake2{b,s} <outlen> <key> <prog>     history on Context<8·outlen> (…_at functions)
    hctxdyn.blake2{b,s} <outlen> <key> <prog>  history on ContextDyn
    hctxstd.blake2{b,s} <outlen> <key> <prog>  history on Context<224|256|384|512> with finalize()/finalize_reset()/…_with_key()
  prog tokens (`;` separated): u<hex> update, m<hex> update_mut, c push clone, x swap with top of stack, r reset,
  k<hex> reset_with_key, F finalize_reset (emit), G<hex> finalize_reset_with_key (emit), d finalize of a clone (emit),
  T<t0>:<t1> hook verif_set_counter (decimal words; for the Spec only directly after creation / reset: start counter).
  A refusal of the crate (assert) is `PANIC` for the whole line.
  `impl` = Impl.Blake2 (`.wrapping` = the current code: `increment_counter` uses `wrapping_add`), `spec` = Spec.Blake2 on the abstract state
  (key, bytes since last reset).
-/
import CxVerif.Util.Proto
import CxVerif.Spec.Blake2
import CxVerif.Impl.Blake2
namespace Cx.Driver.Blake2
open Cx
open Cx.Spec.Blake2 (Word Params)

/-- the code as it is now (`wrapping_add` in `increment_counter`, /repo commit ca094bf) -/
def pr : Impl.Blake2.Profile := .wrapping

def orPanic : Option String → String
  | some s => s
  | none => "PANIC"

section generic
variable {W : Type} [Word W]

/-! one-shot ops -/

def implHash (P : Params W) (outlen : Nat) (key msg : Bytes) : String :=
  orPanic do
    let a ← Impl.Blake2.blake2_ctx P pr (8 * outlen) key msg
    let b ← Impl.Blake2.blake2_dyn P pr outlen key msg
    pure s!"{Hex.encode a},{Hex.encode b}"

def specHash (P : Params W) (outlen : Nat) (key msg : Bytes) : String :=
  if Spec.Blake2.validParams P outlen key then
    let d := Hex.encode (Spec.Blake2.blake2 P outlen key msg)
    s!"{d},{d}"
  else "PANIC"

def implHashDyn (P : Params W) (outlen : Nat) (key msg : Bytes) : String :=
  orPanic ((Impl.Blake2.blake2_dyn P pr outlen key msg).map Hex.encode)

def specHashDyn (P : Params W) (outlen : Nat) (key msg : Bytes) : String :=
  if Spec.Blake2.validParams P outlen key then Hex.encode (Spec.Blake2.blake2 P outlen key msg) else "PANIC"

def implHashBits (P : Params W) (bits : Nat) (key msg : Bytes) : String :=
  orPanic ((Impl.Blake2.blake2_ctx P pr bits key msg).map Hex.encode)

/-- the documented domain of `Context<BITS>`: `BITS > 0`, output bytes `⌈BITS/8⌉ ≤ max` -/
def specHashBits (P : Params W) (bits : Nat) (key msg : Bytes) : String :=
  if bits > 0 ∧ Spec.Blake2.validParams P ((bits + 7) / 8) key then
    Hex.encode (Spec.Blake2.blake2 P ((bits + 7) / 8) key msg)
  else "PANIC"

/-- `ContextDyn::new_keyed(outlen, key).update(msg).finalize_at(&mut [0; buflen])` -/
def implFinAt (P : Params W) (outlen buflen : Nat) (key msg : Bytes) : String :=
  orPanic do
    let c ← if key.isEmpty then Impl.Blake2.ContextDyn.new P outlen else Impl.Blake2.ContextDyn.new_keyed P outlen key
    let c ← c.update P pr msg
    let a ← c.finalize_at P pr buflen
    pure (Hex.encode a)

def specFinAt (P : Params W) (outlen buflen : Nat) (key msg : Bytes) : String :=
  if Spec.Blake2.validParams P outlen key ∧ buflen = outlen then Hex.encode (Spec.Blake2.blake2 P outlen key msg)
  else "PANIC"

/-- `hashing::blake2x_nnn(input)` = `Blake2x::<nnn>::new().update(input).finalize()` -/
def implFixed (P : Params W) (bits : Nat) (msg : Bytes) : String :=
  orPanic do
    let a ← Impl.Blake2.hashing_blake2 P pr bits msg
    pure s!"{Hex.encode a},{Hex.encode a}"

def specFixed (P : Params W) (bits : Nat) (msg : Bytes) : String :=
  let d := Hex.encode (Spec.Blake2.blake2 P (bits / 8) [] msg)
  s!"{d},{d}"

/-! context histories -/

/-- which of the three APIs the history runs on -/
inductive Api
  | ctx (bits : Nat)     -- Context<BITS>, `_at` functions
  | dyn (outlen : Nat)   -- ContextDyn
  | std (bits : Nat)     -- Context<BITS>, array-returning functions

structure St (W : Type) where
  cur : Impl.Blake2.Ctx W
  stack : List (Impl.Blake2.Ctx W)
  outs : List String

def apiOutlen : Api → Nat
  | .ctx bits => (bits + 7) / 8
  | .dyn n => n
  | .std bits => (bits + 7) / 8

/-- the `out` length the harness passes -/
def apiOutArg : Api → Nat
  | .ctx bits => (bits + 7) / 8
  | .dyn n => n
  | .std bits => bits / 8

def implNew (P : Params W) (api : Api) (key : Bytes) : Option (Impl.Blake2.Ctx W) :=
  match api with
  | .ctx bits | .std bits => if key.isEmpty then Impl.Blake2.Context.new P bits else Impl.Blake2.Context.new_keyed P bits key
  | .dyn n =>
    if key.isEmpty then (Impl.Blake2.ContextDyn.new P n).map (·.ctx)
    else (Impl.Blake2.ContextDyn.new_keyed P n key).map (·.ctx)

def implStep (P : Params W) (api : Api) (st : St W) (tok : String) : Option (St W) :=
  let n := apiOutlen api
  let o := apiOutArg api
  match tok.toList with
  | 'u' :: rest | 'm' :: rest => do
    let data ← Hex.decode (String.ofList (if rest.isEmpty then ['-'] else rest))
    let c ← Impl.Blake2.Ctx.update_mut P pr st.cur data
    pure { st with cur := c }
  | ['c'] => some { st with stack := st.cur :: st.stack }
  | ['x'] =>
    match st.stack with
    | [] => some st
    | t :: rest => some { st with cur := t, stack := st.cur :: rest }
  | ['r'] => some { st with cur := Impl.Blake2.Ctx.reset P st.cur n }
  | 'k' :: rest => do
    let key ← Hex.decode (String.ofList (if rest.isEmpty then ['-'] else rest))
    let c ← Impl.Blake2.Ctx.reset_with_key P st.cur n key
    pure { st with cur := c }
  | ['F'] => do
    let (c, out) ← Impl.Blake2.Ctx.finalize_reset_at P pr st.cur n o
    pure { st with cur := c, outs := Hex.encode out :: st.outs }
  | 'G' :: rest => do
    let key ← Hex.decode (String.ofList (if rest.isEmpty then ['-'] else rest))
    let (c, out) ← Impl.Blake2.Ctx.finalize_reset_with_key_at P pr st.cur n key o
    pure { st with cur := c, outs := Hex.encode out :: st.outs }
  | ['d'] => do
    let out ← Impl.Blake2.Ctx.finalize_at P pr st.cur n o
    pure { st with outs := Hex.encode out :: st.outs }
  | 'T' :: rest =>
    match (String.ofList rest).splitOn ":" with
    | [a, b] => do
      let t0 ← a.toNat?; let t1 ← b.toNat?
      if t0 < 2 ^ Word.bits W ∧ t1 < 2 ^ Word.bits W then
        pure { st with cur := Impl.Blake2.Ctx.verif_set_counter st.cur t0 t1 }
      else none
    | _ => none
  | _ => none

def joinOuts (outs : List String) : String :=
  if outs.isEmpty then "-" else ",".intercalate outs.reverse

def implProg (P : Params W) (api : Api) (key : Bytes) (prog : String) : String :=
  orPanic do
    let c ← implNew P api key
    let st ← (prog.splitOn ";").foldlM (implStep P api) { cur := c, stack := [], outs := [] }
    pure (joinOuts st.outs)

/-- abstract state of the Spec run: (key, bytes since last reset, start value of the offset counter) -/
structure ASt where
  cur : Bytes × Bytes × Nat
  stack : List (Bytes × Bytes × Nat)
  outs : List String

def specStep (P : Params W) (n : Nat) (st : ASt) (tok : String) : Option ASt :=
  let emit (st : ASt) : ASt :=
    { st with outs := Hex.encode (if st.cur.2.2 = 0 then Spec.Blake2.blake2 P n st.cur.1 st.cur.2.1
                                  else Spec.Blake2.blake2At P st.cur.2.2 n st.cur.1 st.cur.2.1) :: st.outs }
  match tok.toList with
  | 'u' :: rest | 'm' :: rest => do
    let data ← Hex.decode (String.ofList (if rest.isEmpty then ['-'] else rest))
    pure { st with cur := (st.cur.1, st.cur.2.1 ++ data, st.cur.2.2) }
  | ['c'] => some { st with stack := st.cur :: st.stack }
  | ['x'] =>
    match st.stack with
    | [] => some st
    | t :: rest => some { st with cur := t, stack := st.cur :: rest }
  | ['r'] => some { st with cur := ([], [], 0) }
  | 'k' :: rest => do
    let key ← Hex.decode (String.ofList (if rest.isEmpty then ['-'] else rest))
    if key.length ≤ P.maxKey then pure { st with cur := (key, [], 0) } else none
  | ['F'] => some { emit st with cur := ([], [], 0) }
  | 'G' :: rest => do
    let key ← Hex.decode (String.ofList (if rest.isEmpty then ['-'] else rest))
    if key.length ≤ P.maxKey then pure { emit st with cur := (key, [], 0) } else none
  | ['d'] => some (emit st)
  | 'T' :: rest =>
    -- the preset is meaningful for the Spec only before any message byte (then: BLAKE2 with start counter t)
    match (String.ofList rest).splitOn ":" with
    | [a, b] => do
      let t0 ← a.toNat?; let t1 ← b.toNat?
      if st.cur.2.1.isEmpty ∧ t0 < 2 ^ Word.bits W ∧ t1 < 2 ^ Word.bits W then
        pure { st with cur := (st.cur.1, [], t0 + 2 ^ Word.bits W * t1) }
      else none
    | _ => none
  | _ => none

def specProg (P : Params W) (api : Api) (key : Bytes) (prog : String) : String :=
  let n := apiOutlen api
  let ok : Bool := match api with
    | .ctx bits | .std bits => decide (bits > 0) && Spec.Blake2.validParams P n key
    | .dyn _ => Spec.Blake2.validParams P n key
  if !ok then "PANIC" else
  orPanic do
    let st ← (prog.splitOn ";").foldlM (specStep P n) { cur := (key, [], 0), stack := [], outs := [] }
    pure (joinOuts st.outs)

def okm (f : Nat → Bytes → Bytes → String) : Handler :=
  h3 fun a k m => do
    let n ← natArg a; let key ← hexArg k; let msg ← hexArg m
    pure (f n key msg)

def okp (f : Nat → Bytes → String → String) : Handler :=
  h3 fun a k p => do
    let n ← natArg a; let key ← hexArg k
    pure (f n key p)

def onkm (f : Nat → Nat → Bytes → Bytes → String) : Handler :=
  h4 fun a b k m => do
    let n ← natArg a; let n2 ← natArg b; let key ← hexArg k; let msg ← hexArg m
    pure (f n n2 key msg)

def om (f : Bytes → String) : Handler := h1 fun m => (hexArg m).map f

def isStd (P : Params W) (n : Nat) : Bool := n == 28 || n == 32 || (P.maxOut == 64 && (n == 48 || n == 64))

def opsFor (P S : Params W) (alg : String) : List OpEntry := [
  ⟨s!"hash.{alg}", okm (implHash P), okm (specHash S)⟩,
  ⟨s!"hashdyn.{alg}", okm (implHashDyn P), okm (specHashDyn S)⟩,
  ⟨s!"finat.{alg}", onkm (implFinAt P), onkm (specFinAt S)⟩,
  ⟨s!"hashbits.{alg}", okm (implHashBits P), okm (specHashBits S)⟩,
  ⟨s!"hctx.{alg}", okp (fun n k p => implProg P (.ctx (8 * n)) k p), okp (fun n k p => specProg S (.ctx (8 * n)) k p)⟩,
  ⟨s!"hctxdyn.{alg}", okp (fun n k p => implProg P (.dyn n) k p), okp (fun n k p => specProg S (.dyn n) k p)⟩,
  ⟨s!"hctxstd.{alg}", okp (fun n k p => if isStd P n then implProg P (.std (8 * n)) k p else "bad-op"),
                      okp (fun n k p => if isStd S n then specProg S (.std (8 * n)) k p else "bad-op")⟩
]

end generic

def ops : List OpEntry :=
  opsFor Impl.Blake2.b Spec.Blake2.b "blake2b" ++ opsFor Impl.Blake2.s Spec.Blake2.s "blake2s" ++ [
  ⟨"hash.blake2b_224", om (implFixed Impl.Blake2.b 224), om (specFixed Spec.Blake2.b 224)⟩,
  ⟨"hash.blake2b_256", om (implFixed Impl.Blake2.b 256), om (specFixed Spec.Blake2.b 256)⟩,
  ⟨"hash.blake2b_384", om (implFixed Impl.Blake2.b 384), om (specFixed Spec.Blake2.b 384)⟩,
  ⟨"hash.blake2b_512", om (implFixed Impl.Blake2.b 512), om (specFixed Spec.Blake2.b 512)⟩,
  ⟨"hash.blake2s_224", om (implFixed Impl.Blake2.s 224), om (specFixed Spec.Blake2.s 224)⟩,
  ⟨"hash.blake2s_256", om (implFixed Impl.Blake2.s 256), om (specFixed Spec.Blake2.s 256)⟩
]

end Cx.Driver.Blake2
