/-
  Driver.Aead — line-protocol ops of the aead unit (prefix `aead.`), src/chacha20poly1305.rs.

    aead.seal <R> <key> <nonce12> <aad> <pt>             one-shot `ChaChaPoly1305::<R>::new(key,nonce,aad).encrypt(pt, out, tag)`
                                                         answer `<ct>,<tag>`
    aead.open <R> <key> <nonce12> <aad> <ct> <tag>       one-shot `…decrypt(ct, out, tag)`; answer `<pt>,true` or `false`
                                                         (the API does not define the output buffer on failure: not compared)
    aead.openbuf <R> <key> <nonce12> <aad> <ct> <tag>    the same call, answer `<output buffer>,<verdict>` whatever the
                                                         verdict (code vs Impl only; Spec `?`)
    aead.inc <R> <key> <nonce12> <prog>                  `Context::<R>::new(key, nonce)` then a history in one token, ops
                                                         separated by `;`:
                                                           a<hex> add_data     E to_encryption     D to_decryption
                                                           e<hex>[:<outlen>] encrypt (buffer to buffer; output buffer of
                                                                   <outlen> bytes, default = input length)
                                                           m<hex> encrypt_mut  d<hex>[:<outlen>] decrypt   n<hex> decrypt_mut
                                                           F finalize (emits the tag)    V<tag16> finalize(&Tag) (emits verdict)
                                                         answer: emitted byte strings / verdicts joined by `,` (`_` if none)
    aead.one <R> <key> <nonce12> <aad> <prog>            ONE one-shot object, then a history of calls on it:
                                                           e<hex>[:<outlen>[:<taglen>]]   encrypt   (emits ct, tag)
                                                           d<hex>:<tag>[:<outlen>]        decrypt   (emits pt,true or false)
    A panic anywhere answers `PANIC`; a history the Rust type checker rejects answers `bad-prog`.
    R: 8, 12, 20 (10 is accepted by the harness as an example of a refused round count).

  `impl` runs Impl.Aead on the SSE2 engine (the engine of x86-64 builds); `spec` runs Spec.Aead (RFC 8439 §2.8) on
  the whole message and cuts the result at the call boundaries (abstract state: aad so far, data so far, phase).
-/
import CxVerif.Util.Proto
import CxVerif.Spec.Aead
import CxVerif.Impl.Aead
namespace Cx.Driver.Aead
open Cx Cx.Impl

def E := ChaCha.sse2Engine

def outStr : Aead.Out → String
  | .bytes b => Hex.encode b
  | .verdict v => boolStr v

def joinStr (os : List String) : String := if os.isEmpty then "_" else ",".intercalate os

def progToks (s : String) : List String := if s == "_" then [] else s.splitOn ";"

/-- `<hex>[:n[:m]]` -/
def colon (s : String) : List String := s.splitOn ":"

def parseOp (t : String) : Option Aead.Op :=
  match t.toList with
  | ['E'] => some .toEnc
  | ['D'] => some .toDec
  | ['F'] => some .finalizeEnc
  | 'V' :: r => (hexArg (String.ofList r)).map .finalizeDec
  | 'a' :: r => (hexArg (String.ofList r)).map .addData
  | 'm' :: r => (hexArg (String.ofList r)).map .encryptMut
  | 'n' :: r => (hexArg (String.ofList r)).map .decryptMut
  | 'e' :: r =>
    match colon (String.ofList r) with
    | [h] => (hexArg h).map fun d => .encrypt d d.length
    | [h, n] => do let d ← hexArg h; let k ← n.toNat?; pure (.encrypt d k)
    | _ => none
  | 'd' :: r =>
    match colon (String.ofList r) with
    | [h] => (hexArg h).map fun d => .decrypt d d.length
    | [h, n] => do let d ← hexArg h; let k ← n.toNat?; pure (.decrypt d k)
    | _ => none
  | _ => none

def parseOneOp (t : String) : Option Aead.OneOp :=
  match t.toList with
  | 'e' :: r =>
    match colon (String.ofList r) with
    | [h] => (hexArg h).map fun d => .encrypt d d.length 16
    | [h, n] => do let d ← hexArg h; let k ← n.toNat?; pure (.encrypt d k 16)
    | [h, n, m] => do let d ← hexArg h; let k ← n.toNat?; let l ← m.toNat?; pure (.encrypt d k l)
    | _ => none
  | 'd' :: r =>
    match colon (String.ofList r) with
    | [h, t] => do let d ← hexArg h; let tg ← hexArg t; pure (.decrypt d d.length tg)
    | [h, t, n] => do let d ← hexArg h; let tg ← hexArg t; let k ← n.toNat?; pure (.decrypt d k tg)
    | _ => none
  | _ => none

/-! ### Impl side -/

def implSeal (R : Nat) (key nonce aad pt : Bytes) : String :=
  match Aead.ChaChaPoly1305.new E R key nonce aad with
  | .error e => e
  | .ok o =>
    match Aead.ChaChaPoly1305.encrypt E R o pt pt.length 16 with
    | .error e => e
    | .ok (_, ct, tag) => s!"{Hex.encode ct},{Hex.encode tag}"

def implOpen (buf : Bool) (R : Nat) (key nonce aad ct tag : Bytes) : String :=
  match Aead.ChaChaPoly1305.new E R key nonce aad with
  | .error e => e
  | .ok o =>
    match Aead.ChaChaPoly1305.decrypt E R o ct ct.length tag with
    | .error e => e
    | .ok (_, out, v) =>
      if buf then s!"{Hex.encode out},{boolStr v}"
      else if v then s!"{Hex.encode out},true" else "false"

/-- one-shot histories hide the output buffer of a failed decrypt, like `aead.open` -/
def hideFailed : List Aead.Out → List String
  | .bytes _ :: .verdict false :: rest => "false" :: hideFailed rest
  | o :: rest => outStr o :: hideFailed rest
  | [] => []

/-! ### Spec side: abstract state (phase, aad so far, data pieces so far) -/

structure Abs where
  phase : Aead.Phase
  aad : Bytes
  pieces : List Bytes        -- inputs of the encrypt/decrypt calls so far, in order
  emits : List (Option Bytes) -- per emitted item: `none` = a data piece (next one), `some t` = finalize(&Tag t) / `some []` = finalize

/-- the typing and the refusals of the API, call by call; the outputs are produced afterwards from the whole message -/
def absStep (a : Abs) : Aead.Op → Except String Abs
  | .addData d => if a.phase = .aad then .ok { a with aad := a.aad ++ d } else .error "bad-prog"
  | .toEnc => if a.phase = .aad then .ok { a with phase := .enc } else .error "bad-prog"
  | .toDec => if a.phase = .aad then .ok { a with phase := .dec } else .error "bad-prog"
  | .encrypt d n =>
    if a.phase ≠ .enc then .error "bad-prog" else if d.length ≠ n then .error "PANIC"
    else .ok { a with pieces := a.pieces ++ [d], emits := a.emits ++ [none] }
  | .encryptMut d =>
    if a.phase ≠ .enc then .error "bad-prog" else .ok { a with pieces := a.pieces ++ [d], emits := a.emits ++ [none] }
  | .decrypt d n =>
    if a.phase ≠ .dec then .error "bad-prog" else if d.length ≠ n then .error "PANIC"
    else .ok { a with pieces := a.pieces ++ [d], emits := a.emits ++ [none] }
  | .decryptMut d =>
    if a.phase ≠ .dec then .error "bad-prog" else .ok { a with pieces := a.pieces ++ [d], emits := a.emits ++ [none] }
  | .finalizeEnc =>
    if a.phase ≠ .enc then .error "bad-prog" else .ok { a with phase := .done, emits := a.emits ++ [some []] }
  | .finalizeDec t =>
    if a.phase ≠ .dec then .error "bad-prog" else if t.length ≠ 16 then .error "bad-args"
    else .ok { a with phase := .done, emits := a.emits ++ [some t] }

def absRun : Abs → List Aead.Op → Except String Abs
  | a, [] => .ok a
  | a, op :: ops => match absStep a op with
    | .error e => .error e
    | .ok a' => absRun a' ops

/-- cut `whole` at the piece lengths -/
def cutLike : List Bytes → Bytes → List Bytes
  | [], _ => []
  | p :: ps, w => w.take p.length :: cutLike ps (w.drop p.length)

def specInc (R : Nat) (key nonce : Bytes) (ops : List Aead.Op) (wasDec : Bool) : String :=
  match absRun ⟨.aad, [], [], []⟩ ops with
  | .error e => e
  | .ok a =>
    let input := a.pieces.flatten
    let output := Spec.Aead.cipherFast R key nonce input
    let ct := if wasDec then input else output
    let tag := Spec.Aead.tag R key nonce a.aad ct
    let rec go : List (Option Bytes) → List Bytes → List String
      | [], _ => []
      | none :: es, p :: ps => Hex.encode p :: go es ps
      | none :: es, [] => "?" :: go es []
      | some t :: es, ps => (if wasDec then boolStr (decide (t = tag)) else Hex.encode tag) :: go es ps
    joinStr (go a.emits (cutLike a.pieces output))

def hasDec (ops : List Aead.Op) : Bool := ops.any fun | .toDec => true | _ => false

def validR (R : Nat) : Bool := R == 8 || R == 12 || R == 20
def validK (k : Bytes) : Bool := k.length == 16 || k.length == 32

/-- the one-shot object on the Spec side: `finished` and the refusals named in the API documentation -/
def specOne (R : Nat) (key nonce aad : Bytes) : Bool → List Aead.OneOp → List String → String
  | _, [], acc => joinStr acc.reverse
  | fin, .encrypt pt n l :: ops, acc =>
    if pt.length ≠ n || fin || l ≠ 16 then "PANIC"
    else let (ct, tag) := Spec.Aead.encryptFast R key nonce aad pt
      specOne R key nonce aad true ops (Hex.encode tag :: Hex.encode ct :: acc)
  | fin, .decrypt ct n t :: ops, acc =>
    if t.length ≠ 16 || ct.length ≠ n || fin then "PANIC"
    else match Spec.Aead.decryptFast R key nonce aad ct t with
      | some pt => specOne R key nonce aad true ops ("true" :: Hex.encode pt :: acc)
      | none => specOne R key nonce aad true ops ("false" :: acc)

def guard (R : Nat) (key nonce : Bytes) (k : Unit → String) : String :=
  if nonce.length ≠ 12 then "bad-args" else if !(validK key) || !(validR R) then "PANIC" else k ()

def ops : List OpEntry := [
  ⟨"aead.seal",
   h5 (fun r k n a p => do
     let R ← r.toNat?; let key ← hexArg k; let nonce ← hexArg n; let aad ← hexArg a; let pt ← hexArg p
     pure (implSeal R key nonce aad pt)),
   h5 (fun r k n a p => do
     let R ← r.toNat?; let key ← hexArg k; let nonce ← hexArg n; let aad ← hexArg a; let pt ← hexArg p
     pure (guard R key nonce fun _ =>
       let (ct, tag) := Spec.Aead.encryptFast R key nonce aad pt
       s!"{Hex.encode ct},{Hex.encode tag}"))⟩,
  ⟨"aead.open",
   h6 (fun r k n a c t => do
     let R ← r.toNat?; let key ← hexArg k; let nonce ← hexArg n; let aad ← hexArg a; let ct ← hexArg c; let tag ← hexArg t
     pure (implOpen false R key nonce aad ct tag)),
   h6 (fun r k n a c t => do
     let R ← r.toNat?; let key ← hexArg k; let nonce ← hexArg n; let aad ← hexArg a; let ct ← hexArg c; let tag ← hexArg t
     pure (guard R key nonce fun _ =>
       if tag.length ≠ 16 then "PANIC"
       else match Spec.Aead.decryptFast R key nonce aad ct tag with
         | some pt => s!"{Hex.encode pt},true"
         | none => "false"))⟩,
  ⟨"aead.openbuf",
   h6 (fun r k n a c t => do
     let R ← r.toNat?; let key ← hexArg k; let nonce ← hexArg n; let aad ← hexArg a; let ct ← hexArg c; let tag ← hexArg t
     pure (implOpen true R key nonce aad ct tag)),
   noSpec⟩,
  ⟨"aead.inc",
   h4 (fun r k n p => do
     let R ← r.toNat?; let key ← hexArg k; let nonce ← hexArg n; let ops ← (progToks p).mapM parseOp
     pure (match Aead.runNew E R key nonce ops with
       | .error e => e
       | .ok outs => joinStr (outs.map outStr))),
   h4 (fun r k n p => do
     let R ← r.toNat?; let key ← hexArg k; let nonce ← hexArg n; let ops ← (progToks p).mapM parseOp
     pure (guard R key nonce fun _ => specInc R key nonce ops (hasDec ops)))⟩,
  ⟨"aead.one",
   h5 (fun r k n a p => do
     let R ← r.toNat?; let key ← hexArg k; let nonce ← hexArg n; let aad ← hexArg a
     let ops ← (progToks p).mapM parseOneOp
     pure (match Aead.ChaChaPoly1305.new E R key nonce aad with
       | .error e => e
       | .ok o => match Aead.oneRun E R o ops with
         | .error e => e
         | .ok outs => joinStr (hideFailed outs))),
   h5 (fun r k n a p => do
     let R ← r.toNat?; let key ← hexArg k; let nonce ← hexArg n; let aad ← hexArg a
     let ops ← (progToks p).mapM parseOneOp
     pure (guard R key nonce fun _ => specOne R key nonce aad false ops []))⟩
]

end Cx.Driver.Aead
