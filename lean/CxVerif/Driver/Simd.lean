/-
  Driver.Simd — line-protocol ops of unit `simd` (C16: vectorised = portable).  The crate has no public per-block
  API; the ops drive the public hash API so that the number of blocks handed to one internal `digest_block` /
  `compress` call, the chaining state, the slice alignment and the BLAKE2 counter words are controlled.

    simd.sha256 <off> <lens> <data>      `Sha256::new()`, one `update_mut(piece)` per piece, `finalize()`; the pieces are
    simd.sha224 <off> <lens> <data>      consecutive sub-slices of ONE buffer holding `data` at address ≡ off (mod 32):
                                         piece i has length lens[i], the remainder is the last piece
                                         (a piece of 64·k + r bytes on an empty buffer = one digest_block call with k blocks)
    simd.blake2b <outlen> <key> <off> <counter> <lens> <data>
    simd.blake2s <outlen> <key> <off> <counter> <lens> <data>
                                         `ContextDyn::new_keyed(outlen, key)` (`new` if the key is empty), then the hook
                                         `verif_set_counter(t0, t1)` if counter = `t0:t1` (`-` = none), one `update_mut` per
                                         piece (same buffer discipline), `finalize_at(&mut [0; outlen])`
  `<off>` matters only to the real code (unaligned loads); the models ignore it.

  impl: the lane models (Impl.SimdSha256 / Impl.SimdBlake2) under ALL FOUR feature sets of the correspondence
        {none, +sse4.1, +avx, +avx2}: the answer is the digest when the four agree and `MODEL-DISAGREE …` otherwise — so
        every harness build is compared with the model of its own code path.
  spec: Spec.Sha2 / Spec.Blake2 on the concatenated data (`blake2At` with the preset start counter).
-/
import CxVerif.Util.Proto
import CxVerif.Impl.SimdSha256
import CxVerif.Impl.SimdBlake2
namespace Cx.Driver.Simd
open Cx Cx.Impl.Simd
open Cx.Spec.Blake2 (Word Params)

def showOpt : Option Bytes → String
  | some d => Hex.encode d
  | none => "PANIC"

/-- the four builds must agree -/
def allBuilds (f : Features → Option Bytes) : String :=
  let rs := Features.builds.map fun ft => showOpt (f ft)
  match rs with
  | r :: rest => if rest.all (· == r) then r else "MODEL-DISAGREE " ++ ",".intercalate rs
  | [] => "MODEL-DISAGREE"

/-- `t0:t1` (decimal words) or `-` -/
def counterArg (s : String) : Option (Option (Nat × Nat)) :=
  if s == "-" then some none else
  match s.splitOn ":" with
  | [a, b] => match a.toNat?, b.toNat? with
    | some x, some y => some (some (x, y))
    | _, _ => none
  | _ => none

def shaImpl (f : Features → List Bytes → Option Bytes) : Handler :=
  h3 fun _off lens data =>
    match natListArg lens, hexArg data with
    | some ls, some d => some (allBuilds fun ft => f ft (splitAtLens ls d))
    | _, _ => none

def shaSpec (f : Bytes → Bytes) : Handler :=
  h3 fun _off lens data =>
    match natListArg lens, hexArg data with
    | some _, some d => some (Hex.encode (f d))
    | _, _ => none

def b2Impl (f : Features → Nat → Bytes → Option (Nat × Nat) → List Bytes → Option Bytes) : Handler :=
  h6 fun outlen key _off counter lens data =>
    match natArg outlen, hexArg key, counterArg counter, natListArg lens, hexArg data with
    | some n, some k, some c, some ls, some d => some (allBuilds fun ft => f ft n k c (splitAtLens ls d))
    | _, _, _, _, _ => none

def b2Spec {W : Type} [Word W] (P : Params W) : Handler :=
  h6 fun outlen key _off counter lens data =>
    match natArg outlen, hexArg key, counterArg counter, natListArg lens, hexArg data with
    | some n, some k, some c, some _, some d =>
      if Spec.Blake2.validParams P n k then
        let w := Word.bits W
        let t := match c with
          | none => 0
          | some (t0, t1) => t0 % 2 ^ w + 2 ^ w * (t1 % 2 ^ w)
        some (Hex.encode (Spec.Blake2.blake2At P t n k d))
      else some "PANIC"
    | _, _, _, _, _ => none

def ops : List OpEntry := [
  ⟨"simd.sha256", shaImpl Impl.SimdSha256.sha256_with, shaSpec Spec.Sha2.sha256⟩,
  ⟨"simd.sha224", shaImpl Impl.SimdSha256.sha224_with, shaSpec Spec.Sha2.sha224⟩,
  ⟨"simd.blake2b", b2Impl Impl.SimdBlake2.blake2b_with, b2Spec Spec.Blake2.b⟩,
  ⟨"simd.blake2s", b2Impl Impl.SimdBlake2.blake2s_with, b2Spec Spec.Blake2.s⟩
]

end Cx.Driver.Simd
