/-
  Driver.B32Group — line-protocol ops of unit b32g, prefix `b32g.`: the group- and protocol-level ops of units fe64 / ed25519
  (`x25519.*`, `ge.*`, `ed25519.*`) under a second name, so that the 32-bit MODELS answer them too:
  `impl` runs Impl/Ge32.lean, Impl/X25519_32.lean, Impl/Ed25519_32.lean (ge.rs / mod.rs / ed25519.rs over the fe32 / scalar32
  limb models — the models that Props/C17/GlueTieCurve32.lean ties to the source and Props/C17/Group32.lean proves equal to the
  Spec), `spec` is the SAME Spec handler as the 64-bit op (looked up in Driver.Fe64.ops / Driver.Ed25519.ops, not copied).
  The harness forwards `b32g.<op>` to the crate calls of `<op>` (nothing is cfg-gated): the force-32bits build runs them on the
  32-bit backend, the default build on the 64-bit one; C17 requires every executor to answer what the Spec answers.

    b32g.x25519.dh / base / iter / sym                      syntax of Driver/Fe64.lean
    b32g.ge.decode / roundtrip / base_mul / double_mul / add / sub / double / negate / prog
    b32g.ed25519.keypair / sign / sign_kp / sign_ext / ext_public / verify / exchange / sign_via_ext / check
                                                            syntax of Driver/Ed25519.lean
  The impl handlers are the text of the 64-bit handlers with the 32-bit model names.
-/
import CxVerif.Util.Proto
import CxVerif.Driver.Fe64
import CxVerif.Driver.Ed25519
import CxVerif.Impl.Ge32
import CxVerif.Impl.X25519_32
import CxVerif.Impl.Ed25519_32
namespace Cx.Driver.B32Group
open Cx Cx.Impl.Ge32
open Cx.Driver.Ed25519 (outB argN)
open Cx.Driver.Fe64 (hexOr arg32)

/-- the Spec handler of the 64-bit op `name` (one table for both backends) -/
def specOf (name : String) : Handler :=
  match (Cx.Driver.Fe64.ops ++ Cx.Driver.Ed25519.ops).find? (·.name == name) with
  | some e => e.spec
  | none => fun _ => none

/-! ### X25519 on fe32 -/

def dhImpl : Handler := h2 fun n u =>
  match arg32 n, arg32 u with
  | some ⟨n, hn⟩, some ⟨u, hu⟩ =>
    some s!"{hexOr (Impl.X25519_32.curve25519 n u hn hu)},{hexOr (Impl.X25519_32.dh n u hn hu)}"
  | _, _ => none

def baseImpl : Handler := h1 fun n =>
  match arg32 n with
  | some ⟨n, hn⟩ => some s!"{hexOr (Impl.X25519_32.curve25519_base n hn)},{hexOr (Impl.X25519_32.base n hn)}"
  | none => none

def iterImplAux : Nat → {b : Bytes // b.length = 32} → {b : Bytes // b.length = 32} → Option Bytes
  | 0, k, _ => some k.1
  | c + 1, k, u =>
    match Impl.X25519_32.curve25519 k.1 u.1 k.2 u.2 with
    | some r => if h : r.length = 32 then iterImplAux c ⟨r, h⟩ k else none
    | none => none

def iterImpl : Handler := h3 fun c k u =>
  match natArg c, arg32 k, arg32 u with
  | some c, some k, some u => some (hexOr (iterImplAux c k u))
  | _, _, _ => none

def symImplOne (a b : {b : Bytes // b.length = 32}) : Option Bytes :=
  match Impl.X25519_32.curve25519_base b.1 b.2 with
  | some pb => if h : pb.length = 32 then Impl.X25519_32.curve25519 a.1 pb a.2 h else none
  | none => none

def symImpl : Handler := h2 fun a b =>
  match arg32 a, arg32 b with
  | some a, some b => some s!"{hexOr (symImplOne a b)},{hexOr (symImplOne b a)}"
  | _, _ => none

/-! ### ge.rs on fe32 / scalar32 -/

/-- run `f` on the decoded point; `none` answer when the string is no point -/
def withPoint (s : String) (f : Ge → Option String) : Option String :=
  (argN 32 s).map fun b => match Ge.from_bytes b with
    | none => "PANIC"
    | some none => "none"
    | some (some g) => (f g).getD "PANIC"

def withPoint2 (s t : String) (f : Ge → Ge → Option String) : Option String :=
  (argN 32 s).bind fun b => (argN 32 t).map fun c => match Ge.from_bytes b, Ge.from_bytes c with
    | some (some g), some (some h) => (f g h).getD "PANIC"
    | none, _ => "PANIC"
    | _, none => "PANIC"
    | _, _ => "none"

/-- one token of `ge.prog` on the 32-bit model's `Ge` stack; `none` = malformed, `some none` = refused decoding / panic -/
def geProgStepImpl (st : List Ge) (tok : String) : Option (Option (List Ge)) :=
  let c := tok.take 1
  let rest := tok.drop 1
  match c.toString, st with
  | "b", _ => (argN 32 rest.toString).map fun b => match Ge.from_bytes b with
      | some (some g) => some (g :: st)
      | _ => none
  | "m", _ => (argN 32 rest.toString).map fun b => do
      let s ← Impl.Scalar32.fromBytes b
      let g ← Ge.scalarmult_base s
      pure (g :: st)
  | "+", q :: p :: r => some (do let x ← p.add_cached (← q.to_cached); pure ((← x.to_full) :: r))
  | "-", q :: p :: r => some (do let x ← p.sub_cached (← q.to_cached); pure ((← x.to_full) :: r))
  | "d", p :: r => some (do pure ((← p.double) :: r))
  | "D", p :: r => some (do pure ((← p.to_partial.double_full) :: r))
  | "e", p :: r => some (do pure ((← (← p.double_partial).double_full) :: r))
  | "n", p :: r => some (do pure ((← p.negate) :: r))
  | "c", p :: r => some (some (p :: p :: r))
  | "x", q :: p :: r => some (some (p :: q :: r))
  | _, _ => none

def geProgImpl : Handler := h1 fun prog =>
  let rec go (toks : List String) (st : List Ge) : Option String :=
    match toks with
    | [] => match st with
      | g :: _ => some ((g.to_bytes.map Hex.encode).getD "PANIC")
      | [] => some "bad-args"
    | t :: ts => match geProgStepImpl st t with
      | none => some "bad-args"
      | some none => some (if t.take 1 == "b" then "none" else "PANIC")
      | some (some st') => go ts st'
  go (prog.splitOn ";") []

/-- `(op of the 64-bit units, impl handler on the 32-bit models)` -/
def impls : List (String × Handler) := [
  ("x25519.dh", dhImpl), ("x25519.base", baseImpl), ("x25519.iter", iterImpl), ("x25519.sym", symImpl),
  ("ge.prog", geProgImpl),
  ("ge.decode", h1 (fun a => withPoint a fun g => (g.to_bytes).map fun b => "some:" ++ Hex.encode b)),
  ("ge.roundtrip", h1 (fun a => withPoint a fun g => do
      let e1 ← g.to_bytes
      match ← Ge.from_bytes e1 with
      | none => pure (Hex.encode e1 ++ ",none")
      | some g2 => pure (Hex.encode e1 ++ "," ++ Hex.encode (← g2.to_bytes)))),
  ("ge.base_mul", h1 (fun a => (argN 32 a).map fun b => outB (do
      let s ← Impl.Scalar32.fromBytes b
      let g ← Ge.scalarmult_base s
      g.to_bytes))),
  ("ge.double_mul", h3 (fun a pt b => do
      let a ← argN 32 a; let b ← argN 32 b
      withPoint pt fun g => do
        let sa ← Impl.Scalar32.fromBytes a
        let sb ← Impl.Scalar32.fromBytes b
        let r ← GePartial.double_scalarmult_vartime sa g sb
        (r.to_bytes).map Hex.encode)),
  ("ge.add", h2 (fun a b => withPoint2 a b fun g h => do
      let r ← g.add_cached (← h.to_cached)
      (← r.to_full).to_bytes |>.map Hex.encode)),
  ("ge.sub", h2 (fun a b => withPoint2 a b fun g h => do
      let r ← g.sub_cached (← h.to_cached)
      (← r.to_full).to_bytes |>.map Hex.encode)),
  ("ge.double", h1 (fun a => withPoint a fun g => do
      let e1 ← (← g.double).to_bytes
      let e2 ← (← g.to_partial.double).to_bytes
      pure (Hex.encode e1 ++ "," ++ Hex.encode e2))),
  ("ge.negate", h1 (fun a => withPoint a fun g => do (← g.negate).to_bytes |>.map Hex.encode)),
  ("ed25519.keypair", h1 (fun a => (argN 32 a).map fun seed => match Impl.Ed25519_32.keypair seed with
      | none => "PANIC"
      | some (kp, pk) => Hex.encode kp ++ "," ++ Hex.encode pk)),
  ("ed25519.sign", h2 (fun s m => do
      let seed ← argN 32 s; let msg ← hexArg m
      pure (outB (do
        let (kp, _) ← Impl.Ed25519_32.keypair seed
        Impl.Ed25519_32.signature msg kp)))),
  ("ed25519.sign_kp", h2 (fun k m => do
      let kp ← argN 64 k; let msg ← hexArg m
      pure (outB (Impl.Ed25519_32.signature msg kp)))),
  ("ed25519.sign_ext", h2 (fun e m => do
      let ext ← argN 64 e; let msg ← hexArg m
      pure (outB (Impl.Ed25519_32.signature_extended msg ext)))),
  ("ed25519.ext_public", h1 (fun e => (argN 64 e).map fun ext => outB (Impl.Ed25519_32.extended_to_public ext))),
  ("ed25519.verify", h3 (fun m k s => do
      let msg ← hexArg m; let pk ← argN 32 k; let sig ← argN 64 s
      pure (match Impl.Ed25519_32.verify msg pk sig with
        | none => "PANIC"
        | some b => boolStr b))),
  ("ed25519.exchange", h2 (fun k s => do
      let pk ← argN 32 k; let seed ← argN 32 s
      pure (outB (Impl.Ed25519_32.exchange pk seed)))),
  ("ed25519.sign_via_ext", h2 (fun s m => do
      let seed ← argN 32 s; let msg ← hexArg m
      pure (outB (do
        let ext ← Impl.Ed25519.extended_secret seed
        Impl.Ed25519_32.signature_extended msg ext)))),
  ("ed25519.check", h4 (fun s m k g => do
      let seed ← argN 32 s; let msg ← hexArg m; let pk ← argN 32 k; let sig ← argN 64 g
      pure (match (do
          let (kp, pub) ← Impl.Ed25519_32.keypair seed
          let sg ← Impl.Ed25519_32.signature msg kp
          let ok ← Impl.Ed25519_32.verify msg pub sg
          pure (pub == pk && sg == sig && ok && kp == seed ++ pk)) with
        | none => "PANIC"
        | some b => boolStr b)))
]

def ops : List OpEntry := impls.map fun (name, impl) => ⟨"b32g." ++ name, impl, specOf name⟩

end Cx.Driver.B32Group
