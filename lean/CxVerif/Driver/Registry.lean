/- Driver.Registry — all op tables of the driver. -/
import CxVerif.Driver.C18
namespace Cx.Driver
def allOps : List OpEntry := List.flatten [
  C18.ops
]
end Cx.Driver
