/-
  Driver.HashLen — line-protocol ops of unit `hashlen` (length counters of the Merkle–Damgård hashes).

    hlen.<alg> <N decimal> <msg hex>      <alg> ∈ sha1 sha224 sha256 sha384 sha512 sha512_224 sha512_256 ripemd160
        code:  `let mut c = Context::new(); c.verif_set_processed_bytes(N); c.update(msg).finalize()`
        impl:  the same sequence on the Impl context model with its `processed_bytes` field preset (Impl/HashLen.lean)
        spec:  `Spec.HashLen.tailDigest alg N msg` — the compression chain from the IV over the padding of `msg` for
               the TOTAL length N + |msg| (FIPS 180-4 §5.1 / RIPEMD-160 padding rule)
        answer: the digest (hex); `PANIC` if the model refuses.
    N must be a multiple of the block size (64 / 128) and fit the hook's argument type (u64 for sha1 / ripemd160,
    u128 for SHA-2); anything else is `bad-args` in all three executors.
-/
import CxVerif.Util.Proto
import CxVerif.Spec.HashLen
import CxVerif.Impl.HashLen
namespace Cx.Driver.HashLen
open Cx Cx.Spec.HashLen

def showOpt (o : Option Bytes) : String := match o with | some d => Hex.encode d | none => "PANIC"

/-- bound of the hook's argument type -/
def argBound : Alg → Nat
  | .sha1 | .ripemd160 => 2 ^ 64
  | _ => 2 ^ 128

def handler (alg : Alg) (f : Nat → Bytes → Option Bytes) : Handler :=
  h2 fun n m =>
    match natArg n, hexArg m with
    | some N, some msg => if N % alg.block = 0 ∧ N < argBound alg then some (showOpt (f N msg)) else none
    | _, _ => none

def entry (name : String) (alg : Alg) : OpEntry :=
  ⟨"hlen." ++ name, handler alg (Impl.HashLen.hlen alg), handler alg (fun N m => some (tailDigest alg N m))⟩

def ops : List OpEntry := [
  entry "sha1" .sha1, entry "sha224" .sha224, entry "sha256" .sha256, entry "sha384" .sha384,
  entry "sha512" .sha512, entry "sha512_224" .sha512_224, entry "sha512_256" .sha512_256,
  entry "ripemd160" .ripemd160
]

end Cx.Driver.HashLen
