/-
  Driver.Stream — line-protocol ops of the stream-cipher unit.

    stream.chacha     <R> <key> <nonce12> <prog>      ChaCha<R>          (IETF)
    stream.chachaorig <R> <key> <nonce8>  <prog>      ChaChaOriginal<R>
    stream.xchacha    <R> <key32> <nonce24> <prog>    XChaCha<R>
    stream.salsa      <R> <key> <nonce8>  <prog>      Salsa<R>
    stream.xsalsa     <R> <key32> <nonce24> <prog>    XSalsa<R>
        prog = ops separated by `;` (`-` = none):  p<hex> process (buffer to buffer)   m<hex> process_mut
               P<n>:<hex> process into an output buffer of n bytes   s<n> seek(n)   S<n> verif_set_counter64(n)
               c push a clone of the current context   x swap current context and top of stack
               i<hex> involution probe: out1 = process(hex) on the current context, then a clone taken BEFORE that
                      call processes out1; emits the clone's output (must be <hex> again)
        answer = the bytes written by every p/m/P call joined by `,` (`_` if there was none)
    stream.eng <portable|native> <R> <key> <nonce> <prog>    chacha::verif::{Portable,Native}<R>::init(key, nonce)
        prog ops: c<n> set_counter  C<n> set_counter64  i increment  I increment64
                  s emit state_bytes  b emit block  h emit hblock
    stream.eng2 <R> <key> <nonce> <prog>     the same program on Portable and on Native: `<portable>|<native>`
    stream.drg <R> <seed32> <prog>      drg::chacha::Drg<R>
        prog ops: b<N> bytes::<N>   f<hex> fill_bytes over a buffer holding <hex>   l<hex> fill_slice   w u32   q u64
        answer = hex / decimal values joined by `,`

  `impl` runs the code-shaped models (contexts on the SSE2 engine = the engine of the x86-64 harness),
  `spec` the position-indexed keystream of Spec.ChaCha / Spec.Salsa.
-/
import CxVerif.Util.Proto
import CxVerif.Spec.ChaCha
import CxVerif.Spec.Salsa
import CxVerif.Impl.ChaCha
import CxVerif.Impl.Salsa
import CxVerif.Impl.Drg
namespace Cx.Driver.Stream
open Cx Cx.Impl Cx.Impl.StreamCtx

def natLt (bound : Nat) (s : String) : Option Nat := (s.toNat?).bind fun n => if n < bound then some n else none

def progToks (s : String) : List String := if s == "-" then [] else s.splitOn ";"

/-- driver-level program step: a history op of Impl.StreamCtx, or the involution probe -/
inductive DOp where
  | op (o : Op)
  | invol (data : Bytes)

def parseOp (t : String) : Option DOp :=
  match t.toList with
  | ['c'] => some (.op .clone)
  | ['x'] => some (.op .swap)
  | 'p' :: r => (hexArg (String.ofList r)).map fun d => .op (.process d)
  | 'm' :: r => (hexArg (String.ofList r)).map fun d => .op (.processMut d)
  | 'i' :: r => (hexArg (String.ofList r)).map .invol
  | 's' :: r => (natLt (2^32) (String.ofList r)).map fun n => .op (.seek (UInt32.ofNat n))
  | 'S' :: r => (natLt (2^64) (String.ofList r)).map fun n => .op (.setCounter64 (UInt64.ofNat n))
  | 'P' :: r =>
    match (String.ofList r).splitOn ":" with
    | [n, h] => do let n ← n.toNat?; let d ← hexArg h; pure (.op (.processBad d n))
    | _ => none
  | _ => none

def joinOut (os : List Bytes) : String := if os.isEmpty then "_" else ",".intercalate (os.map Hex.encode)

def runImplAux {σ : Type} (m : Methods σ) : Ctx σ × List (Ctx σ) → List DOp → List Bytes → String
  | _, [], acc => joinOut acc.reverse
  | st, .op o :: ops, acc =>
    match step m st o with
    | .ok (st', os) => runImplAux m st' ops (os.reverse ++ acc)
    | .error e => e
  | st, .invol d :: ops, acc =>
    match process m.gen st.1 d d.length with
    | .error e => e
    | .ok (c1, out1) =>
      match process_mut m.gen st.1 out1 with       -- the clone taken before the call
      | .error e => e
      | .ok (_, out2) => runImplAux m (c1, st.2) ops (out2 :: acc)

def runImpl {σ : Type} (m : Methods σ) (c : Except String (Ctx σ)) (ops : List DOp) : String :=
  match c with
  | .error e => e
  | .ok c => runImplAux m (c, []) ops []

/-- the abstract machine of C04: absolute position (+ stack of positions) -/
def runSpec (blk : Nat → Bytes) (hasSeek hasSet64 : Bool) : Nat × List Nat → List DOp → List Bytes → String
  | _, [], acc => joinOut acc.reverse
  | (pos, stk), .invol d :: ops, acc =>
    runSpec blk hasSeek hasSet64 (pos + d.length, stk) ops
      (Spec.Stream.encrypt blk pos (Spec.Stream.encrypt blk pos d) :: acc)
  | (pos, stk), .op op :: ops, acc =>
    match op with
    | .process d | .processMut d => runSpec blk hasSeek hasSet64 (pos + d.length, stk) ops (Spec.Stream.encrypt blk pos d :: acc)
    | .processBad d n =>
      if d.length = n then runSpec blk hasSeek hasSet64 (pos + d.length, stk) ops (Spec.Stream.encrypt blk pos d :: acc)
      else "PANIC"
    | .seek n => if hasSeek then runSpec blk hasSeek hasSet64 (64 * n.toNat, stk) ops acc else "bad-args"
    | .setCounter64 n => if hasSet64 then runSpec blk hasSeek hasSet64 (64 * n.toNat, stk) ops acc else "bad-args"
    | .clone => runSpec blk hasSeek hasSet64 (pos, pos :: stk) ops acc
    | .swap =>
      match stk with
      | t :: rest => runSpec blk hasSeek hasSet64 (t, pos :: rest) ops acc
      | [] => "bad-args"

def validR (R : Nat) : Bool := R == 8 || R == 12 || R == 20
def validK (k : Bytes) : Bool := k.length == 16 || k.length == 32

/-- context op: `mkImpl R key nonce` the model's `new`, `blk R key nonce` the Spec block function;
    `klens`/`nlen` = lengths the Rust signature admits at the type level (others: `bad-args`) -/
def ctxOp {σ : Type} (name : String) (m : Nat → Methods σ) (mkImpl : Nat → Bytes → Bytes → Except String (Ctx σ))
    (blk : Nat → Bytes → Bytes → Nat → Bytes) (fixedKey : Bool) (nlen : Nat) (hasSeek hasSet64 : Bool) : OpEntry :=
  ⟨name,
   h4 (fun r k n p => do
     let R ← r.toNat?; let key ← hexArg k; let nonce ← hexArg n; let ops ← (progToks p).mapM parseOp
     pure (runImpl (m R) (mkImpl R key nonce) ops)),
   h4 (fun r k n p => do
     let R ← r.toNat?; let key ← hexArg k; let nonce ← hexArg n; let ops ← (progToks p).mapM parseOp
     if nonce.length ≠ nlen || (fixedKey && key.length ≠ 32) then pure "bad-args"
     else if !(validK key) || !(validR R) then pure "PANIC"
     else pure (runSpec (blk R key nonce) hasSeek hasSet64 (0, []) ops []))⟩

/-! ### engines -/
inductive EOp where
  | setC (n : UInt32) | setC64 (n : UInt64) | inc | inc64 | state | block | hblock

def parseEOp (t : String) : Option EOp :=
  match t.toList with
  | ['i'] => some .inc
  | ['I'] => some .inc64
  | ['s'] => some .state
  | ['b'] => some .block
  | ['h'] => some .hblock
  | 'c' :: r => (natLt (2^32) (String.ofList r)).map fun n => .setC (UInt32.ofNat n)
  | 'C' :: r => (natLt (2^64) (String.ofList r)).map fun n => .setC64 (UInt64.ofNat n)
  | _ => none

def runEng {σ : Type} (E : ChaCha.Engine σ) (R : Nat) : σ → List EOp → List Bytes → String
  | _, [], acc => joinOut acc.reverse
  | s, op :: ops, acc =>
    match op with
    | .setC n => runEng E R (E.set_counter s n) ops acc
    | .setC64 n => runEng E R (E.verif_set_counter64 s n) ops acc
    | .inc => runEng E R (E.increment s) ops acc
    | .inc64 => runEng E R (E.increment64 s) ops acc
    | .state => runEng E R s ops (E.output_bytes s :: acc)
    | .block => runEng E R s ops (E.block R s :: acc)
    | .hblock => runEng E R s ops (E.hblock R s :: acc)

def runEngSpec (R : Nat) : Spec.ChaCha.State → List EOp → List Bytes → String
  | _, [], acc => joinOut acc.reverse
  | s, op :: ops, acc =>
    match op with
    | .setC n => runEngSpec R (Spec.ChaCha.setCounter32 s n) ops acc
    | .setC64 n => runEngSpec R (Spec.ChaCha.setCounter64 s n) ops acc
    | .inc => runEngSpec R (Spec.ChaCha.incCounter32 s) ops acc
    | .inc64 => runEngSpec R (Spec.ChaCha.incCounter64 s) ops acc
    | .state => runEngSpec R s ops (Spec.ChaCha.serialize s :: acc)
    | .block => runEngSpec R s ops (Spec.ChaCha.blockOfState R s :: acc)
    | .hblock => runEngSpec R s ops (Spec.ChaCha.hOfState R s :: acc)

def engImpl (which : String) (R : Nat) (key nonce : Bytes) (ops : List EOp) : Option String :=
  if which == "native" then
    some (match ChaCha.Sse2.init key nonce with
      | .ok s => runEng ChaCha.sse2Engine R s ops []
      | .error e => e)
  else if which == "portable" then
    some (match ChaCha.Reference.init key nonce with
      | .ok s => runEng ChaCha.referenceEngine R s ops []
      | .error e => e)
  else none

/-! ### DRG -/
def parseReq (t : String) : Option Drg.Req :=
  match t.toList with
  | ['w'] => some .u32
  | ['q'] => some .u64
  | 'b' :: r => (String.ofList r).toNat?.map .bytes
  | 'f' :: r => (hexArg (String.ofList r)).map .fillBytes
  | 'l' :: r => (hexArg (String.ofList r)).map .fillSlice
  | _ => none

def outStr : Drg.Out → String
  | .buf b => Hex.encode b
  | .w32 v => toString v.toNat
  | .w64 v => toString v.toNat

def joinStr (os : List String) : String := if os.isEmpty then "_" else ",".intercalate os

def runDrgSpec (blk : Nat → Bytes) : Nat → List Drg.Req → List String → String
  | _, [], acc => joinStr acc.reverse
  | pos, r :: rs, acc =>
    match r with
    | .bytes n => runDrgSpec blk (pos + n) rs (Hex.encode (Spec.Stream.keystream blk pos n) :: acc)
    | .fillBytes p | .fillSlice p =>
      runDrgSpec blk (pos + p.length) rs (Hex.encode (Spec.Stream.keystream blk pos p.length) :: acc)
    | .u32 => runDrgSpec blk (pos + 4) rs (toString (beNat (Spec.Stream.keystream blk pos 4)) :: acc)
    | .u64 => runDrgSpec blk (pos + 8) rs (toString (beNat (Spec.Stream.keystream blk pos 8)) :: acc)

def ops : List OpEntry := [
  ctxOp "stream.chacha" (ChaCha.ChaCha.methods ChaCha.sse2Engine) (ChaCha.ChaCha.new ChaCha.sse2Engine)
    Spec.ChaCha.blockAt false 12 true false,
  ctxOp "stream.chachaorig" (ChaCha.ChaChaOriginal.methods ChaCha.sse2Engine) (ChaCha.ChaChaOriginal.new ChaCha.sse2Engine)
    Spec.ChaCha.blockAtOrig false 8 false true,
  ctxOp "stream.xchacha" (ChaCha.XChaCha.methods ChaCha.sse2Engine) (ChaCha.XChaCha.new ChaCha.sse2Engine)
    Spec.ChaCha.blockAtX true 24 true false,
  ctxOp "stream.salsa" Salsa.methods Salsa.Salsa.new Spec.Salsa.blockAt false 8 false true,
  ctxOp "stream.xsalsa" Salsa.methods Salsa.XSalsa.new Spec.Salsa.blockAtX true 24 false true,
  ⟨"stream.eng",
   h5 (fun w r k n p => do
     let R ← r.toNat?; let key ← hexArg k; let nonce ← hexArg n; let ops ← (progToks p).mapM parseEOp
     engImpl w R key nonce ops),
   h5 (fun w r k n p => do
     let R ← r.toNat?; let key ← hexArg k; let nonce ← hexArg n; let ops ← (progToks p).mapM parseEOp
     if w != "native" && w != "portable" then none
     else if !(validK key) || !(nonce.length == 8 || nonce.length == 12 || nonce.length == 16) then pure "?"
     else pure (runEngSpec R (Spec.ChaCha.layoutState key nonce) ops []))⟩,
  ⟨"stream.eng2",
   h4 (fun r k n p => do
     let R ← r.toNat?; let key ← hexArg k; let nonce ← hexArg n; let ops ← (progToks p).mapM parseEOp
     let a ← engImpl "portable" R key nonce ops; let b ← engImpl "native" R key nonce ops
     pure s!"{a}|{b}"),
   h4 (fun r k n p => do
     let R ← r.toNat?; let key ← hexArg k; let nonce ← hexArg n; let ops ← (progToks p).mapM parseEOp
     if !(validK key) || !(nonce.length == 8 || nonce.length == 12 || nonce.length == 16) then pure "?"
     else let a := runEngSpec R (Spec.ChaCha.layoutState key nonce) ops []; pure s!"{a}|{a}")⟩,
  ⟨"stream.drg",
   h3 (fun r s p => do
     let R ← r.toNat?; let seed ← hexArg s; let reqs ← (progToks p).mapM parseReq
     pure (match Drg.new ChaCha.sse2Engine R seed with
       | .error e => e
       | .ok c => match Drg.run ChaCha.sse2Engine R false c reqs with
         | .ok (_, os) => joinStr (os.map outStr)
         | .error e => e)),
   h3 (fun r s p => do
     let R ← r.toNat?; let seed ← hexArg s; let reqs ← (progToks p).mapM parseReq
     if seed.length ≠ 32 then pure "bad-args"
     else if !(validR R) then pure "PANIC"
     else pure (runDrgSpec (Spec.ChaCha.blockAt R seed (zeros 12)) 0 reqs []))⟩
]

end Cx.Driver.Stream
