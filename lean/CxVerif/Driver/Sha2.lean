/-
  Driver.Sha2 — line-protocol ops of unit `sha2` (AGENT_GUIDE §6).

    hash.<alg> <msg>     answer `<one-shot fn>,<Context::new().update(msg).finalize()>` for sha224 sha256 sha384 sha512;
                         sha512_224 / sha512_256 have no one-shot function in hashing/mod.rs: one field (the context).
    hctx.<alg> <prog>    context history, ops separated by `;` (`-` = empty program):
                         u<hex> update (consuming)   m<hex> update_mut   c push a clone   x swap with top of stack
                         (no-op on an empty stack)   r reset   F finalize_reset (emit)   d finalize of a clone (emit)
                         answer: emitted digests joined by `,` (`-` if none); `PANIC` if any step panics.
  `impl` runs Impl.Sha2 (contexts, FixedBuffer, engines), `spec` runs Spec.Sha2 on the abstract state
  "bytes since the last reset".
-/
import CxVerif.Util.Proto
import CxVerif.Spec.Sha2
import CxVerif.Impl.Sha2
import CxVerif.Impl.HashProg
namespace Cx.Driver.Sha2
open Cx Cx.HashProg

def parseOp (s : String) : Option Op :=
  match s.toList with
  | 'u' :: rest => (Hex.decode (String.ofList rest)).map Op.update
  | 'm' :: rest => (Hex.decode (String.ofList rest)).map Op.update_mut
  | ['c'] => some Op.clone
  | ['x'] => some Op.swap
  | ['r'] => some Op.reset
  | ['F'] => some Op.finalize_reset
  | ['d'] => some Op.finalize
  | _ => none

def parseProg (s : String) : Option (List Op) :=
  if s == "-" then some [] else (s.splitOn ";").mapM parseOp

def showDigests (o : Option (List Bytes)) : String :=
  match o with
  | none => "PANIC"
  | some [] => "-"
  | some ds => ",".intercalate (ds.map Hex.encode)

def hctx {γ : Type} (F : Family γ) : Handler :=
  h1 fun p => (parseProg p).map fun ops => showDigests (runProg F ops F.new [] [])

def showOpt (o : Option Bytes) : String := match o with | some d => Hex.encode d | none => "PANIC"

/-- two answer fields: the one-shot function and the context path (the same model function twice: the one-shot
    fns of hashing/mod.rs ARE `ShaNNN::new().update(input).finalize()`) -/
def hash2 (f : Bytes → Option Bytes) : Handler :=
  h1 fun m => (hexArg m).map fun b => let r := showOpt (f b); if r == "PANIC" then r else s!"{r},{r}"
def hash1 (f : Bytes → Option Bytes) : Handler :=
  h1 fun m => (hexArg m).map fun b => showOpt (f b)

open Impl.Sha2 in
def ops : List OpEntry := [
  ⟨"hash.sha224", hash2 sha224?, hash2 (fun m => some (Spec.Sha2.sha224 m))⟩,
  ⟨"hash.sha256", hash2 sha256?, hash2 (fun m => some (Spec.Sha2.sha256 m))⟩,
  ⟨"hash.sha384", hash2 sha384?, hash2 (fun m => some (Spec.Sha2.sha384 m))⟩,
  ⟨"hash.sha512", hash2 sha512?, hash2 (fun m => some (Spec.Sha2.sha512 m))⟩,
  ⟨"hash.sha512_224", hash1 sha512_224?, hash1 (fun m => some (Spec.Sha2.sha512_224 m))⟩,
  ⟨"hash.sha512_256", hash1 sha512_256?, hash1 (fun m => some (Spec.Sha2.sha512_256 m))⟩,
  ⟨"hctx.sha224", hctx (fam256 Sha224), hctx (famSpec Spec.Sha2.sha224)⟩,
  ⟨"hctx.sha256", hctx (fam256 Sha256), hctx (famSpec Spec.Sha2.sha256)⟩,
  ⟨"hctx.sha384", hctx (fam512 Sha384), hctx (famSpec Spec.Sha2.sha384)⟩,
  ⟨"hctx.sha512", hctx (fam512 Sha512), hctx (famSpec Spec.Sha2.sha512)⟩,
  ⟨"hctx.sha512_224", hctx (fam512 Sha512Trunc224), hctx (famSpec Spec.Sha2.sha512_224)⟩,
  ⟨"hctx.sha512_256", hctx (fam512 Sha512Trunc256), hctx (famSpec Spec.Sha2.sha512_256)⟩
]

end Cx.Driver.Sha2
