/-
  Driver.C18 — line-protocol ops for constant_time.rs. `impl` runs the code-shaped model,
  `spec` the plain comparison the property names.
-/
import CxVerif.Util.Proto
import CxVerif.Impl.ConstantTime
namespace Cx.Driver.C18
open Cx Cx.Impl.CT

def ch (c : Choice) : String := (if c.isTrue then "1" else "0") ++ (if c.isFalse then "1" else "0")
def chB (b : Bool) : String := if b then "10" else "01"

def u64Arg (s : String) : Option UInt64 := (s.toNat?).bind fun n => if n < 2^64 then some (UInt64.ofNat n) else none
def u8Arg (s : String) : Option UInt8 := (s.toNat?).map fun n => UInt8.ofNat (n % 256)

def wordsOf (bs : Bytes) : Option (List UInt64) :=
  if bs.length % 8 == 0 then some (wordsLE64 bs) else none
def words32Of (bs : Bytes) : Option (List UInt32) :=
  if bs.length % 4 == 0 then some (wordsLE32 bs) else none
def unwords (w : List UInt64) : String := Hex.encode (w.flatMap u64le)
def unwords32 (w : List UInt32) : String := Hex.encode (w.flatMap u32le)

def mk (s : String) : Option Choice := (s.toNat?).map fun n => u64_ct_nonzero (if n != 0 then 1 else 0)
def mkB (s : String) : Option Bool := (s.toNat?).map fun n => n != 0

def un1 (f : UInt64 → String) : Handler
  | [a] => (u64Arg a).map f
  | _ => none
def bin1 (f : UInt64 → UInt64 → String) : Handler
  | [a, b] => do let x ← u64Arg a; let y ← u64Arg b; pure (f x y)
  | _ => none
def un8 (f : UInt8 → String) : Handler
  | [a] => (u8Arg a).map f
  | _ => none
def bin8 (f : UInt8 → UInt8 → String) : Handler
  | [a, b] => do let x ← u8Arg a; let y ← u8Arg b; pure (f x y)
  | _ => none
def unB (f : Bytes → Option String) : Handler
  | [a] => (hexArg a).bind f
  | _ => none
def binB (f : Bytes → Bytes → Option String) : Handler
  | [a, b] => do let x ← hexArg a; let y ← hexArg b; f x y
  | _ => none
/-- array ops: the harness instantiates `[T; N]` with N = length of the first operand and panics
    when the second has a different length (test-harness artefact, mirrored here) -/
def binArr (f : Bytes → Bytes → String) : Bytes → Bytes → Option String :=
  fun x y => if x.length = y.length then some (f x y) else some "PANIC"
def binW (f : List UInt64 → List UInt64 → Option String) : Handler
  | [a, b] => do let x ← (hexArg a).bind wordsOf; let y ← (hexArg b).bind wordsOf; f x y
  | _ => none
def unW (f : List UInt64 → String) : Handler
  | [a] => do let x ← (hexArg a).bind wordsOf; pure (f x)
  | _ => none
def binArrW (f : List UInt64 → List UInt64 → String) : List UInt64 → List UInt64 → Option String :=
  fun x y => if x.length = y.length then some (f x y) else some "PANIC"

def ops : List OpEntry := [
  ⟨"ct.u64.zero", un1 (fun x => ch (u64_ct_zero x)), un1 (fun x => chB (x == 0))⟩,
  ⟨"ct.u64.nonzero", un1 (fun x => ch (u64_ct_nonzero x)), un1 (fun x => chB (x != 0))⟩,
  ⟨"ct.u64.eq", bin1 (fun a b => ch (u64_ct_eq a b)), bin1 (fun a b => chB (a == b))⟩,
  ⟨"ct.u64.ne", bin1 (fun a b => ch (u64_ct_ne a b)), bin1 (fun a b => chB (a != b))⟩,
  ⟨"ct.u64.lt", bin1 (fun a b => ch (u64_ct_lt a b)), bin1 (fun a b => chB (decide (a < b)))⟩,
  ⟨"ct.u64.gt", bin1 (fun a b => ch (u64_ct_gt a b)), bin1 (fun a b => chB (decide (a > b)))⟩,
  ⟨"ct.u64.le", bin1 (fun a b => ch (u64_ct_le a b)), bin1 (fun a b => chB (decide (a ≤ b)))⟩,
  ⟨"ct.u64.ge", bin1 (fun a b => ch (u64_ct_ge a b)), bin1 (fun a b => chB (decide (a ≥ b)))⟩,
  ⟨"ct.u8.zero", un8 (fun x => ch (u8_ct_zero x)), un8 (fun x => chB (x == 0))⟩,
  ⟨"ct.u8.nonzero", un8 (fun x => ch (u8_ct_nonzero x)), un8 (fun x => chB (x != 0))⟩,
  ⟨"ct.u8.eq", bin8 (fun a b => ch (u8_ct_eq a b)), bin8 (fun a b => chB (a == b))⟩,
  ⟨"ct.u8.ne", bin8 (fun a b => ch (u8_ct_ne a b)), bin8 (fun a b => chB (a != b))⟩,
  ⟨"ct.arr8.zero", unB (fun x => some (ch (bytes_ct_zero x))), unB (fun x => some (chB (x.all (· == 0))))⟩,
  ⟨"ct.arr8.nonzero", unB (fun x => some (ch (bytes_ct_nonzero x))), unB (fun x => some (chB (x.any (· != 0))))⟩,
  ⟨"ct.arr8.eq", binB (binArr fun a b => ch (array_u8_ct_eq a b)), binB (binArr fun a b => chB (a == b))⟩,
  ⟨"ct.arr8.ne", binB (binArr fun a b => ch (array_u8_ct_ne a b)), binB (binArr fun a b => chB (a != b))⟩,
  ⟨"ct.arr8.lt", binB (binArr fun a b => ch (array_u8_ct_lt a b)), binB (binArr fun a b => chB (decide (beNat a < beNat b)))⟩,
  ⟨"ct.arr8.ge", binB (binArr fun a b => ch (array_u8_ct_lt a b).negate), binB (binArr fun a b => chB (decide (beNat a ≥ beNat b)))⟩,
  ⟨"ct.slice8.eq", binB (fun a b => some (match slice_u8_ct_eq a b with | some c => ch c | none => "PANIC")),
                   binB (fun a b => some (if a.length = b.length then chB (a == b) else "PANIC"))⟩,
  ⟨"ct.slice8.ne", binB (fun a b => some (match slice_u8_ct_eq a b with | some c => ch c.negate | none => "PANIC")),
                   binB (fun a b => some (if a.length = b.length then chB (a != b) else "PANIC"))⟩,
  ⟨"ct.arr64.zero", unW (fun x => ch (words_ct_zero x)), unW (fun x => chB (x.all (· == 0)))⟩,
  ⟨"ct.arr64.nonzero", unW (fun x => ch (words_ct_nonzero x)), unW (fun x => chB (x.any (· != 0)))⟩,
  ⟨"ct.arr64.eq", binW (binArrW fun a b => ch (array_u64_ct_eq a b)), binW (binArrW fun a b => chB (a == b))⟩,
  ⟨"ct.arr64.ne", binW (binArrW fun a b => ch (array_u64_ct_ne a b)), binW (binArrW fun a b => chB (a != b))⟩,
  ⟨"ct.slice64.zero", unW (fun x => ch (words_ct_zero x)), unW (fun x => chB (x.all (· == 0)))⟩,
  ⟨"ct.slice64.nonzero", unW (fun x => ch (words_ct_nonzero x)), unW (fun x => chB (x.any (· != 0)))⟩,
  ⟨"ct.slice64.eq", binW (fun a b => some (match slice_u64_ct_eq a b with | some c => ch c | none => "PANIC")),
                    binW (fun a b => some (if a.length = b.length then chB (a == b) else "PANIC"))⟩,
  ⟨"ct.slice64.ne", binW (fun a b => some (match slice_u64_ct_eq a b with | some c => ch c.negate | none => "PANIC")),
                    binW (fun a b => some (if a.length = b.length then chB (a != b) else "PANIC"))⟩,
  ⟨"ct.choice.not", h1 (fun a => (mk a).map (fun c => ch c.negate)), h1 (fun a => (mkB a).map (fun c => chB (!c)))⟩,
  ⟨"ct.choice.and", h2 (fun a b => do let x ← mk a; let y ← mk b; pure (ch (x.and y))),
                    h2 (fun a b => do let x ← mkB a; let y ← mkB b; pure (chB (x && y)))⟩,
  ⟨"ct.choice.or", h2 (fun a b => do let x ← mk a; let y ← mk b; pure (ch (x.or y))),
                   h2 (fun a b => do let x ← mkB a; let y ← mkB b; pure (chB (x || y)))⟩,
  ⟨"ct.choice.xor", h2 (fun a b => do let x ← mk a; let y ← mk b; pure (ch (x.xor y))),
                    h2 (fun a b => do let x ← mkB a; let y ← mkB b; pure (chB (x ^^ y)))⟩,
  ⟨"ct.choice.bool", h1 (fun a => (mk a).map (fun c => boolStr c.isTrue)), h1 (fun a => (mkB a).map boolStr)⟩,
  ⟨"ct.option", h2 (fun a v => do
                  let c ← mk a; let n ← v.toNat?
                  pure (match ctOptionInto c n with | some x => s!"some:{x}" | none => "none")),
                h2 (fun a v => do
                  let c ← mkB a; let n ← v.toNat?
                  pure (if c then s!"some:{n}" else "none"))⟩,
  ⟨"ct.swap64", h3 (fun c a b => do
                  let c ← mk c; let x ← (hexArg a).bind wordsOf; let y ← (hexArg b).bind wordsOf
                  if x.length ≠ y.length then pure "PANIC" else
                  let r := ct_array64_maybe_swap_with x y c; pure s!"{unwords r.1},{unwords r.2}"),
                h3 (fun c a b => do
                  let c ← mkB c; let x ← (hexArg a).bind wordsOf; let y ← (hexArg b).bind wordsOf
                  if x.length ≠ y.length then pure "PANIC" else
                  pure (if c then s!"{unwords y},{unwords x}" else s!"{unwords x},{unwords y}"))⟩,
  ⟨"ct.set64", h3 (fun c a b => do
                  let c ← mk c; let x ← (hexArg a).bind wordsOf; let y ← (hexArg b).bind wordsOf
                  if x.length ≠ y.length then pure "PANIC" else
                  pure (unwords (ct_array64_maybe_set x y c))),
               h3 (fun c a b => do
                  let c ← mkB c; let x ← (hexArg a).bind wordsOf; let y ← (hexArg b).bind wordsOf
                  if x.length ≠ y.length then pure "PANIC" else
                  pure (if c then unwords y else unwords x))⟩,
  ⟨"ct.swap32", h3 (fun c a b => do
                  let c ← mk c; let x ← (hexArg a).bind words32Of; let y ← (hexArg b).bind words32Of
                  if x.length ≠ y.length then pure "PANIC" else
                  let r := ct_array32_maybe_swap_with x y c; pure s!"{unwords32 r.1},{unwords32 r.2}"),
                h3 (fun c a b => do
                  let c ← mkB c; let x ← (hexArg a).bind words32Of; let y ← (hexArg b).bind words32Of
                  if x.length ≠ y.length then pure "PANIC" else
                  pure (if c then s!"{unwords32 y},{unwords32 x}" else s!"{unwords32 x},{unwords32 y}"))⟩,
  ⟨"ct.set32", h3 (fun c a b => do
                  let c ← mk c; let x ← (hexArg a).bind words32Of; let y ← (hexArg b).bind words32Of
                  if x.length ≠ y.length then pure "PANIC" else
                  pure (unwords32 (ct_array32_maybe_set x y c))),
               h3 (fun c a b => do
                  let c ← mkB c; let x ← (hexArg a).bind words32Of; let y ← (hexArg b).bind words32Of
                  if x.length ≠ y.length then pure "PANIC" else
                  pure (if c then unwords32 y else unwords32 x))⟩,
  ⟨"ct.macresult.eq", binB (fun a b => some (boolStr (macResultEq a b))), binB (fun a b => some (boolStr (a == b)))⟩,
  ⟨"ct.tag.eq", binB (fun a b => some (if a.length = 16 ∧ b.length = 16 then boolStr (macResultEq a b) else "PANIC")),
                binB (fun a b => some (if a.length = 16 ∧ b.length = 16 then boolStr (a == b) else "PANIC"))⟩,
  -- `<&Tag as CtEqual>::ct_ne` = negate of the array equality
  ⟨"ct.tag.ne", binB (fun a b => some (if a.length = 16 ∧ b.length = 16 then boolStr (!macResultEq a b) else "PANIC")),
                binB (fun a b => some (if a.length = 16 ∧ b.length = 16 then boolStr (a != b) else "PANIC"))⟩
]

end Cx.Driver.C18
