/-
  Driver.Sha1Ripemd — line-protocol ops `hash.sha1`, `hash.ripemd160`, `hctx.sha1`, `hctx.ripemd160`
  (AGENT_GUIDE §6).  `impl` runs the code-shaped contexts through `Cx.HashProg.runProg` (the machine the C02
  theorems are about), `spec` runs the abstract family `famSpec` (state = bytes since the last reset).
-/
import CxVerif.Util.Proto
import CxVerif.Impl.HashProg
import CxVerif.Spec.Sha1
import CxVerif.Spec.Ripemd160
import CxVerif.Impl.Sha1
import CxVerif.Impl.Ripemd160
namespace Cx.Driver.Sha1Ripemd
open Cx Cx.HashProg

/-- one op token: `u<hex>` update, `m<hex>` update_mut, `c` clone, `x` swap, `r` reset, `F` finalize_reset,
    `d` finalize of a clone -/
def parseOp (t : String) : Option Op :=
  match t.toList with
  | 'u' :: hx => (Hex.decode (String.ofList hx)).map Op.update
  | 'm' :: hx => (Hex.decode (String.ofList hx)).map Op.update_mut
  | ['c'] => some Op.clone
  | ['x'] => some Op.swap
  | ['r'] => some Op.reset
  | ['F'] => some Op.finalize_reset
  | ['d'] => some Op.finalize
  | _ => none

def parseProg (s : String) : Option (List Op) := (s.splitOn ";").mapM parseOp

def showOuts : Option (List Bytes) → String
  | none => "PANIC"
  | some [] => "-"
  | some outs => ",".intercalate (outs.map Hex.encode)

def hctx {γ : Type} (F : Family γ) : Handler :=
  h1 fun prog => (parseProg prog).map fun ops => showOuts (runProg F ops F.new [] [])

/-- `hash.<alg> msg` = one-shot function, then `Context::new().update(msg).finalize()` -/
def hashOp {γ : Type} (oneShot : Bytes → Option Bytes) (F : Family γ) : Handler :=
  h1 fun a => (hexArg a).map fun msg =>
    match oneShot msg, (F.update F.new msg).bind F.finalize with
    | some d1, some d2 => Hex.encode d1 ++ "," ++ Hex.encode d2
    | _, _ => "PANIC"

def hashSpec (h : Bytes → Bytes) : Handler :=
  h1 fun a => (hexArg a).map fun msg => Hex.encode (h msg) ++ "," ++ Hex.encode (h msg)

def ops : List OpEntry := [
  ⟨"hash.sha1", hashOp Cx.Impl.Sha1.sha1 Cx.Impl.Sha1.fam, hashSpec Cx.Spec.Sha1.sha1⟩,
  ⟨"hash.ripemd160", hashOp Cx.Impl.Ripemd160.ripemd160 Cx.Impl.Ripemd160.fam, hashSpec Cx.Spec.Ripemd160.ripemd160⟩,
  ⟨"hctx.sha1", hctx Cx.Impl.Sha1.fam, hctx (famSpec Cx.Spec.Sha1.sha1)⟩,
  ⟨"hctx.ripemd160", hctx Cx.Impl.Ripemd160.fam, hctx (famSpec Cx.Spec.Ripemd160.ripemd160)⟩
]

end Cx.Driver.Sha1Ripemd
