/-
  Driver.Sha1Ripemd — line-protocol ops `hash.sha1`, `hash.ripemd160`, `hctx.sha1`, `hctx.ripemd160`
  (AGENT_GUIDE §6).  `impl` runs the code-shaped contexts, `spec` the standard function on the bytes fed since the
  last reset (the abstract state of property C02).
-/
import CxVerif.Util.Proto
import CxVerif.Spec.Sha1
import CxVerif.Spec.Ripemd160
import CxVerif.Impl.Sha1
import CxVerif.Impl.Ripemd160
namespace Cx.Driver.Sha1Ripemd
open Cx

/-- the public API of one context type -/
structure CtxApi (C : Type) where
  new : C
  update : C → Bytes → Option C
  update_mut : C → Bytes → Option C
  reset : C → C
  finalize : C → Option Bytes
  finalize_reset : C → Option (C × Bytes)

def sha1Api : CtxApi Cx.Impl.Sha1.Context :=
  open Cx.Impl.Sha1.Context in ⟨new, update, update_mut, reset, finalize, finalize_reset⟩
def ripemdApi : CtxApi Cx.Impl.Ripemd160.Context :=
  open Cx.Impl.Ripemd160.Context in ⟨new, update, update_mut, reset, finalize, finalize_reset⟩

/-- the abstract context: the bytes since the last reset -/
def absApi (h : Bytes → Bytes) : CtxApi Bytes :=
  ⟨[], fun s b => some (s ++ b), fun s b => some (s ++ b), fun _ => [], fun s => some (h s),
   fun s => some ([], h s)⟩

inductive Res where
  | ok (outs : List Bytes)
  | panic
  | bad

/-- run a history: ops separated by `;`, see AGENT_GUIDE §6 -/
def runProg {C : Type} (api : CtxApi C) : List String → C → List C → List Bytes → Res
  | [], _, _, outs => .ok outs.reverse
  | op :: rest, cur, stack, outs =>
    match op.toList with
    | 'u' :: hx => match Hex.decode (String.ofList hx) with
      | none => .bad
      | some b => match api.update cur b with
        | none => .panic
        | some c => runProg api rest c stack outs
    | 'm' :: hx => match Hex.decode (String.ofList hx) with
      | none => .bad
      | some b => match api.update_mut cur b with
        | none => .panic
        | some c => runProg api rest c stack outs
    | ['c'] => runProg api rest cur (cur :: stack) outs
    | ['x'] => match stack with
      | [] => runProg api rest cur stack outs
      | t :: st => runProg api rest t (cur :: st) outs
    | ['r'] => runProg api rest (api.reset cur) stack outs
    | ['F'] => match api.finalize_reset cur with
      | none => .panic
      | some (c, d) => runProg api rest c stack (d :: outs)
    | ['d'] => match api.finalize cur with
      | none => .panic
      | some d => runProg api rest cur stack (d :: outs)
    | _ => .bad

def showRes : Res → Option String
  | .ok [] => some "-"
  | .ok outs => some (",".intercalate (outs.map Hex.encode))
  | .panic => some "PANIC"
  | .bad => none

def hctx {C : Type} (api : CtxApi C) : Handler :=
  h1 fun prog => showRes (runProg api (prog.splitOn ";") api.new [] [])

/-- `hash.<alg> msg` = one-shot function, then `Context::new().update(msg).finalize()` -/
def hashOp {C : Type} (oneShot : Bytes → Option Bytes) (api : CtxApi C) : Handler :=
  h1 fun a => (hexArg a).map fun msg =>
    match oneShot msg, (api.update api.new msg).bind api.finalize with
    | some d1, some d2 => Hex.encode d1 ++ "," ++ Hex.encode d2
    | _, _ => "PANIC"

def hashSpec (h : Bytes → Bytes) : Handler :=
  h1 fun a => (hexArg a).map fun msg => Hex.encode (h msg) ++ "," ++ Hex.encode (h msg)

def ops : List OpEntry := [
  ⟨"hash.sha1", hashOp Cx.Impl.Sha1.sha1 sha1Api, hashSpec Cx.Spec.Sha1.sha1⟩,
  ⟨"hash.ripemd160", hashOp Cx.Impl.Ripemd160.ripemd160 ripemdApi, hashSpec Cx.Spec.Ripemd160.ripemd160⟩,
  ⟨"hctx.sha1", hctx sha1Api, hctx (absApi Cx.Spec.Sha1.sha1)⟩,
  ⟨"hctx.ripemd160", hctx ripemdApi, hctx (absApi Cx.Spec.Ripemd160.ripemd160)⟩
]

end Cx.Driver.Sha1Ripemd
