/-
  Driver.B32 — line-protocol ops of unit b32 (the 32-bit curve backends fe32 / scalar32), prefix `b32.`.
  The ops are the SAME public-API calls as `fe.prog` / `scalar.*` (the harness forwards them, nothing is
  cfg-gated), but `impl` answers with the 32-bit limb models Impl/Fe32.lean and Impl/Scalar32.lean and `spec`
  with Spec/Field25519.lean / Spec/ScalarL.lean.  C17 runs them through the default (64-bit) and the
  force-32bits harness builds: both must answer what the Spec answers, and the 32-bit model must too.

    b32.fe.prog <program>          syntax of `fe.prog` (Driver/Fe64.lean)
    b32.scalar.const zero|one      Scalar::ZERO / ONE  .to_bytes()
    b32.scalar.roundtrip <32B>     to_bytes(from_bytes b)
    b32.scalar.canonical <32B>     from_bytes_canonical → `none` | `some:<to_bytes>`
    b32.scalar.reduce_wide <64B>   reduce_from_wide_bytes(b).to_bytes()
    b32.scalar.reduce_then_canonical <64B>
    b32.scalar.muladd <a> <b> <c>  muladd(a, b, c).to_bytes(); Spec: (a·b + c) mod L for reduced c (`?` otherwise:
                                   there the 64-bit backend subtracts L at most once; unreachable through the public API)
    b32.scalar.nibbles <32B>, b32.scalar.bits <32B>
-/
import CxVerif.Util.Proto
import CxVerif.Driver.Fe64
import CxVerif.Impl.Fe32
import CxVerif.Impl.Scalar32
import CxVerif.Spec.ScalarL
namespace Cx.Driver.B32
open Cx

open Cx.Impl.Fe32 in
def implAlg : Cx.Driver.Fe64.Alg Fe where
  fromBytes := fromBytes
  const := fun s =>
    if s == "0" then some Fe.ZERO else if s == "1" then some Fe.ONE else if s == "s" then some Fe.SQRTM1
    else if s == "d" then some Fe.D else if s == "2" then some Fe.D2 else none
  add := add
  sub := sub
  mul := mul
  neg := neg
  square := square
  squareRep := square_repeatdly
  squareDouble := square_and_double
  invert := invert
  pow25523 := pow25523
  toBytes := to_bytes
  isNonzero := is_nonzero
  isNegative := is_negative
  eq := eq

/-- `Fe32.fromBytes` is `none` for a literal of the wrong length (malformed request); its checked carries never
    overflow (`Proofs.Fe32.from_bytes_spec`), so no panic is hidden behind that `none` -/
def progImpl : Handler := Cx.Driver.Fe64.prog implAlg

open Cx.Impl.Scalar32 in
def outS : Option Scalar → String
  | some s => Hex.encode (to_bytes s)
  | none => "PANIC"

def ints (l : List Int) : String := ",".intercalate (l.map fun i => toString i)
def nats (l : List Nat) : String := ",".intercalate (l.map fun i => toString i)
def arg32 (s : String) : Option (Vector UInt8 32) := (hexArg s).bind (Impl.Scalar32.toArr 32)
def arg64 (s : String) : Option (Vector UInt8 64) := (hexArg s).bind (Impl.Scalar32.toArr 64)
def nat32 (s : String) : Option Nat := (hexArg s).bind fun b => if b.length = 32 then some (Spec.ScalarL.decode b) else none
def enc (n : Nat) : String := Hex.encode (Spec.ScalarL.encode n)

open Spec.ScalarL Cx.Impl.Scalar32 in
def ops : List OpEntry := [
  ⟨"b32.fe.prog", progImpl, Cx.Driver.Fe64.prog Cx.Driver.Fe64.specAlg⟩,
  ⟨"b32.scalar.const", h1 (fun a => if a == "zero" then some (Hex.encode (to_bytes ZERO)) else if a == "one" then some (Hex.encode (to_bytes ONE)) else none),
                       h1 (fun a => if a == "zero" then some (enc 0) else if a == "one" then some (enc 1) else none)⟩,
  ⟨"b32.scalar.roundtrip", h1 (fun a => (arg32 a).map fun b => Hex.encode (to_bytes (from_bytes b))),
                           h1 (fun a => (nat32 a).map enc)⟩,
  ⟨"b32.scalar.canonical", h1 (fun a => (arg32 a).map fun b => match from_bytes_canonical b with
                              | none => "none"
                              | some s => "some:" ++ Hex.encode (to_bytes s)),
                           h1 (fun a => (hexArg a).bind fun b => if b.length = 32 then
                              some (match decodeCanonical b with | some n => "some:" ++ enc n | none => "none") else none)⟩,
  ⟨"b32.scalar.reduce_wide", h1 (fun a => (arg64 a).map fun b => outS (reduce_from_wide_bytes b)),
                             h1 (fun a => (hexArg a).bind fun b => if b.length = 64 then some (Hex.encode (reduceWide b)) else none)⟩,
  ⟨"b32.scalar.reduce_then_canonical", h1 (fun a => (arg64 a).map fun b => match reduce_from_wide_bytes b with
                              | none => "PANIC"
                              | some r => match from_bytes_canonical r with
                                | some s => "some:" ++ Hex.encode (to_bytes s)
                                | none => "none"),
                             h1 (fun a => (hexArg a).bind fun b => if b.length = 64 then some ("some:" ++ Hex.encode (reduceWide b)) else none)⟩,
  ⟨"b32.scalar.muladd", h3 (fun a b c => do let x ← arg32 a; let y ← arg32 b; let z ← arg32 c
                                            pure (outS (Impl.Scalar32.muladd (from_bytes x) (from_bytes y) (from_bytes z)))),
                        h3 (fun a b c => do let x ← nat32 a; let y ← nat32 b; let z ← nat32 c
                                            pure (if z < Spec.ScalarL.L then enc (Spec.ScalarL.muladd x y z) else "?"))⟩,
  ⟨"b32.scalar.nibbles", h1 (fun a => (arg32 a).map fun b => ints (nibbles (from_bytes b))),
                         h1 (fun a => (nat32 a).map fun n => nats (radix16 n))⟩,
  ⟨"b32.scalar.bits", h1 (fun a => (arg32 a).map fun b => ints (bits (from_bytes b))),
                      h1 (fun a => (nat32 a).map fun n => nats (bitsLE n))⟩
]

end Cx.Driver.B32
