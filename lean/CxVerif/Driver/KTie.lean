/-
  Driver.KTie — kernel-level ops: the limb kernels driven on explicit (possibly rare) limb states through the
  `verif_from_state` hooks.  `impl` = the hand models the theorems are about.
-/
import CxVerif.Util.Proto
import CxVerif.Impl.Poly1305
namespace Cx.Driver.KTie
open Cx

def csv (l : List Nat) : String := ",".intercalate (l.map toString)

def l5 (s : String) : Option Impl.Poly1305.L5 := do
  match ← natListArg s with
  | [a, b, c, d, e] => if a < 2^32 ∧ b < 2^32 ∧ c < 2^32 ∧ d < 2^32 ∧ e < 2^32 then some ⟨a, b, c, d, e⟩ else none
  | _ => none
def l4 (s : String) : Option Impl.Poly1305.L4 := do
  match ← natListArg s with
  | [a, b, c, d] => if a < 2^32 ∧ b < 2^32 ∧ c < 2^32 ∧ d < 2^32 then some ⟨a, b, c, d⟩ else none
  | _ => none

def polyState (r h : Impl.Poly1305.L5) (pad : Impl.Poly1305.L4) : Impl.Poly1305.State :=
  { r := r, h := h, pad := pad, leftover := 0, buffer := zeros 16, finalized := false }

def ops : List OpEntry := [
  -- ktie.poly.block <r0,..,r4> <h0,..,h4> <16-byte block>  -> h limbs after `input(block)`
  ⟨"ktie.poly.block", h3 (fun r h m => do
      let r ← l5 r; let h ← l5 h; let m ← hexArg m
      if m.length ≠ 16 then none else
      match Impl.Poly1305.input (polyState r h ⟨0, 0, 0, 0⟩) m with
      | .ok st => pure (csv [st.h.l0, st.h.l1, st.h.l2, st.h.l3, st.h.l4])
      | .error _ => pure "PANIC"), noSpec⟩,
  -- ktie.poly.finish <r> <h> <pad0,..,pad3> -> tag of `raw_result` on that state
  ⟨"ktie.poly.finish", h3 (fun r h p => do
      let r ← l5 r; let h ← l5 h; let p ← l4 p
      match Impl.Poly1305.raw_result Impl.Poly1305.codeVariant (polyState r h p) 16 with
      | .ok (_, tag) => pure (Hex.encode tag)
      | .error _ => pure "PANIC"), noSpec⟩
]
end Cx.Driver.KTie
