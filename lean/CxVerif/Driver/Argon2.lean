/-
  Driver.Argon2 — line-protocol ops of unit argon2 (kdf/argon2.rs).

  argon2.hash <type d|i|id> <version> <t> <m> <p> <taglen> <pwd> <salt> <key> <aad>
      the harness builds `Params::argon2<type>().memory_kb(m).iterations(t).parallelism(p).version(version)`
      (every setter argument is a u32); an `Err(e)` of a setter is answered `ERR:<e>`; otherwise the tag written by
      `argon2_at` into a `taglen`-byte slice and — when `taglen` is one of the const sizes the harness instantiates
      (`constSizes`) — as a second field the array returned by `argon2::<taglen>`; a panic is `PANIC`.
      impl: the code-shaped model.  spec: RFC 9106 on its input domain (`Spec.Argon2.valid`); the refusals of
      p = 0, p ≥ 2^24, t = 0 and of a version other than 0x10/0x13 are the documented `InvalidParam` errors;
      outside the RFC's domain in any other way (m < 8p, taglen < 4) the Spec has no answer (`?`).
-/
import CxVerif.Util.Proto
import CxVerif.Impl.Argon2
namespace Cx.Driver.Argon2
open Cx

/-- the `T` for which the harness instantiates `argon2::<T>` -/
def constSizes : List Nat := [1, 4, 5, 16, 31, 32, 33, 63, 64, 65, 96, 128, 300]

def u32Arg (s : String) : Option Nat := (s.toNat?).bind fun n => if n < 2 ^ 32 then some n else none

def errName : Impl.Argon2.InvalidParam → String
  | .ParallelismZero => "ParallelismZero"
  | .ParallelismTooHigh => "ParallelismTooHigh"
  | .IterationsZero => "IterationsZero"
  | .UnknownVersion => "UnknownVersion"
  | .MemoryTooHigh => "MemoryTooHigh"

def implType (s : String) : Option Impl.Argon2.Params :=
  if s == "d" then some Impl.Argon2.Params.argon2d
  else if s == "i" then some Impl.Argon2.Params.argon2i
  else if s == "id" then some Impl.Argon2.Params.argon2id
  else none

def hashImpl (ty v t m p tl pwd salt key aad : String) : Option String := do
  let base ← implType ty
  let v ← u32Arg v; let t ← u32Arg t; let m ← u32Arg m; let p ← u32Arg p
  let tl ← natArg tl
  let pwd ← hexArg pwd; let salt ← hexArg salt; let key ← hexArg key; let aad ← hexArg aad
  match base.build v t m p with
  | none => pure "PANIC"
  | some (.error e) => pure s!"ERR:{errName e}"
  | some (.ok params) =>
    match Impl.Argon2.argon2_at params pwd salt key aad tl with
    | none => pure "PANIC"
    | some tag =>
      if constSizes.contains tl then
        match Impl.Argon2.argon2 tl params pwd salt key aad with
        | none => pure "PANIC"
        | some tag2 => pure s!"{Hex.encode tag},{Hex.encode tag2}"
      else pure (Hex.encode tag)

def specType (s : String) : Option Spec.Argon2.Ty :=
  if s == "d" then some .d else if s == "i" then some .i else if s == "id" then some .id else none

def hashSpec (ty v t m p tl pwd salt key aad : String) : Option String := do
  let y ← specType ty
  let v ← u32Arg v; let t ← u32Arg t; let m ← u32Arg m; let p ← u32Arg p
  let tl ← natArg tl
  let pwd ← hexArg pwd; let salt ← hexArg salt; let key ← hexArg key; let aad ← hexArg aad
  -- documented refusals, in the order in which the harness calls the setters (iterations, parallelism, version)
  if t = 0 then pure "ERR:IterationsZero"
  else if p ≥ 2 ^ 24 then pure "ERR:ParallelismTooHigh"
  else if p = 0 then pure "ERR:ParallelismZero"
  else if ¬ (v = 0x13 ∨ v = 0x10) then pure "ERR:UnknownVersion"
  else
    let c : Spec.Argon2.Params := { y := y, v := v, t := t, m := m, p := p, T := tl }
    if Spec.Argon2.valid c pwd salt key aad then
      let tag := Hex.encode (Spec.Argon2.argon2 c pwd salt key aad)
      pure (if constSizes.contains tl then s!"{tag},{tag}" else tag)
    else pure "?"

def h10 (f : String → String → String → String → String → String → String → String → String → String → Option String) : Handler
  | [a, b, c, d, e, g, h, i, j, k] => f a b c d e g h i j k
  | _ => none

def ops : List OpEntry := [
  ⟨"argon2.hash", h10 hashImpl, h10 hashSpec⟩
]

end Cx.Driver.Argon2
