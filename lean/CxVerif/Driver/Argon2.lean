/-
  Driver.Argon2 — line-protocol ops of unit argon2 (kdf/argon2.rs).

  argon2.hash <type d|i|id> <version> <t> <m> <p> <taglen> <pwd> <salt> <key> <aad>
      the harness builds `Params::argon2<type>().memory_kb(m).iterations(t).parallelism(p).version(version)`
      (every setter argument is a u32); an `Err(e)` of a setter is answered `ERR:<e>`; otherwise the tag written by
      `argon2_at` into a `taglen`-byte slice and — when `taglen` is one of the const sizes the harness instantiates
      (`constSizes`) — as a second field the array returned by `argon2::<taglen>`; a panic is `PANIC`.
      impl: the code-shaped model.  spec: RFC 9106 on its input domain (`Spec.Argon2.valid`); the refusals of
      p = 0, p ≥ 2^24, t = 0 and of a version other than 0x10/0x13 are the documented `InvalidParam` errors;
      outside the RFC's domain in any other way (m < 8p, taglen < 4) the Spec has no answer (`?`).

  argon2.build <type> <prog> <taglen> <pwd> <salt> <key> <aad>
      `prog` is `-` or a comma-separated list of builder calls applied in order to `Params::argon2<type>()`:
      `m<n>` memory_kb(n), `p<n>` parallelism(n), `t<n>` iterations(n), `v<n>` version(n) (n a u32); the first `Err`
      ends the chain (`ERR:<e>`); then as `argon2.hash`.
      impl: the setters of the code-shaped model applied in the same order.  spec: RFC 9106 for the LAST value given
      to each setter (the crate's defaults t=1, m=32, p=1, v=0x13 where a setter was not called) — the derived
      parameters must not depend on the order or repetition of the calls; when some call left m < 8p (the crate then
      raises m silently, outside the RFC's domain) the Spec has no answer (`?`).
-/
import CxVerif.Util.Proto
import CxVerif.Impl.Argon2
namespace Cx.Driver.Argon2
open Cx

/-- the `T` for which the harness instantiates `argon2::<T>` -/
def constSizes : List Nat := [1, 4, 5, 16, 31, 32, 33, 63, 64, 65, 96, 128, 300]

def u32Arg (s : String) : Option Nat := (s.toNat?).bind fun n => if n < 2 ^ 32 then some n else none

def errName : Impl.Argon2.InvalidParam → String
  | .ParallelismZero => "ParallelismZero"
  | .ParallelismTooHigh => "ParallelismTooHigh"
  | .IterationsZero => "IterationsZero"
  | .UnknownVersion => "UnknownVersion"
  | .MemoryTooHigh => "MemoryTooHigh"

def implType (s : String) : Option Impl.Argon2.Params :=
  if s == "d" then some Impl.Argon2.Params.argon2d
  else if s == "i" then some Impl.Argon2.Params.argon2i
  else if s == "id" then some Impl.Argon2.Params.argon2id
  else none

def hashImpl (ty v t m p tl pwd salt key aad : String) : Option String := do
  let base ← implType ty
  let v ← u32Arg v; let t ← u32Arg t; let m ← u32Arg m; let p ← u32Arg p
  let tl ← natArg tl
  let pwd ← hexArg pwd; let salt ← hexArg salt; let key ← hexArg key; let aad ← hexArg aad
  match base.build v t m p with
  | none => pure "PANIC"
  | some (.error e) => pure s!"ERR:{errName e}"
  | some (.ok params) =>
    match Impl.Argon2.argon2_at params pwd salt key aad tl with
    | none => pure "PANIC"
    | some tag =>
      if constSizes.contains tl then
        match Impl.Argon2.argon2 tl params pwd salt key aad with
        | none => pure "PANIC"
        | some tag2 => pure s!"{Hex.encode tag},{Hex.encode tag2}"
      else pure (Hex.encode tag)

def specType (s : String) : Option Spec.Argon2.Ty :=
  if s == "d" then some .d else if s == "i" then some .i else if s == "id" then some .id else none

def hashSpec (ty v t m p tl pwd salt key aad : String) : Option String := do
  let y ← specType ty
  let v ← u32Arg v; let t ← u32Arg t; let m ← u32Arg m; let p ← u32Arg p
  let tl ← natArg tl
  let pwd ← hexArg pwd; let salt ← hexArg salt; let key ← hexArg key; let aad ← hexArg aad
  -- documented refusals, in the order in which the harness calls the setters (iterations, parallelism, version)
  if t = 0 then pure "ERR:IterationsZero"
  else if p ≥ 2 ^ 24 then pure "ERR:ParallelismTooHigh"
  else if p = 0 then pure "ERR:ParallelismZero"
  else if ¬ (v = 0x13 ∨ v = 0x10) then pure "ERR:UnknownVersion"
  else
    let c : Spec.Argon2.Params := { y := y, v := v, t := t, m := m, p := p, T := tl }
    if Spec.Argon2.valid c pwd salt key aad then
      let tag := Hex.encode (Spec.Argon2.argon2 c pwd salt key aad)
      pure (if constSizes.contains tl then s!"{tag},{tag}" else tag)
    else pure "?"

/-- one builder call `m47` / `p3` / `t2` / `v19` -/
def parseCall (s : String) : Option (Char × Nat) :=
  match s.toList with
  | c :: rest => (u32Arg (String.ofList rest)).map fun n => (c, n)
  | [] => none

def parseProg (s : String) : Option (List (Char × Nat)) :=
  if s == "-" then some [] else (s.splitOn ",").mapM parseCall

/-- outer `none` = malformed program; inner `none` = panic -/
def runProgImpl : Impl.Argon2.Params → List (Char × Nat) → Option (Option (Except Impl.Argon2.InvalidParam Impl.Argon2.Params))
  | s, [] => some (some (.ok s))
  | s, (c, n) :: rest =>
    let r : Option (Option (Except Impl.Argon2.InvalidParam Impl.Argon2.Params)) :=
      if c == 'm' then some (s.memory_kb' n) else if c == 'p' then some (s.parallelism' n)
      else if c == 't' then some (s.iterations' n) else if c == 'v' then some (s.version' n) else none
    match r with
    | none => none
    | some none => some none
    | some (some (.error e)) => some (some (.error e))
    | some (some (.ok s')) => runProgImpl s' rest

def buildImpl (ty prog tl pwd salt key aad : String) : Option String := do
  let base ← implType ty
  let prog ← parseProg prog
  let tl ← natArg tl
  let pwd ← hexArg pwd; let salt ← hexArg salt; let key ← hexArg key; let aad ← hexArg aad
  match ← runProgImpl base prog with
  | none => pure "PANIC"
  | some (.error e) => pure s!"ERR:{errName e}"
  | some (.ok params) =>
    match Impl.Argon2.argon2_at params pwd salt key aad tl with
    | none => pure "PANIC"
    | some tag =>
      if constSizes.contains tl then
        match Impl.Argon2.argon2 tl params pwd salt key aad with
        | none => pure "PANIC"
        | some tag2 => pure s!"{Hex.encode tag},{Hex.encode tag2}"
      else pure (Hex.encode tag)

/-- (m, p, t, v, some call left m < 8p) after the calls; `.error` = the first documented refusal; `none` = malformed -/
def runProgSpec : (Nat × Nat × Nat × Nat × Bool) → List (Char × Nat) → Option (Except String (Nat × Nat × Nat × Nat × Bool))
  | st, [] => some (.ok st)
  | (m, p, t, v, cl), (c, n) :: rest =>
    if c == 'm' then runProgSpec (n, p, t, v, cl || decide (n < 8 * p)) rest
    else if c == 'p' then
      if n ≥ 2 ^ 24 then some (.error "ParallelismTooHigh")
      else if n = 0 then some (.error "ParallelismZero")
      else runProgSpec (m, n, t, v, cl || decide (m < 8 * n)) rest
    else if c == 't' then
      if n = 0 then some (.error "IterationsZero") else runProgSpec (m, p, n, v, cl) rest
    else if c == 'v' then
      if ¬ (n = 0x13 ∨ n = 0x10) then some (.error "UnknownVersion") else runProgSpec (m, p, t, n, cl) rest
    else none

def buildSpec (ty prog tl pwd salt key aad : String) : Option String := do
  let y ← specType ty
  let prog ← parseProg prog
  let tl ← natArg tl
  let pwd ← hexArg pwd; let salt ← hexArg salt; let key ← hexArg key; let aad ← hexArg aad
  -- the crate's documented defaults: 32 KiB, 1 lane, 1 pass, version 0x13
  match ← runProgSpec (32, 1, 1, 0x13, false) prog with
  | .error e => pure s!"ERR:{e}"
  | .ok (m, p, t, v, clamped) =>
    if clamped then pure "?"
    else
      let c : Spec.Argon2.Params := { y := y, v := v, t := t, m := m, p := p, T := tl }
      if Spec.Argon2.valid c pwd salt key aad then
        let tag := Hex.encode (Spec.Argon2.argon2 c pwd salt key aad)
        pure (if constSizes.contains tl then s!"{tag},{tag}" else tag)
      else pure "?"

def h7 (f : String → String → String → String → String → String → String → Option String) : Handler
  | [a, b, c, d, e, g, h] => f a b c d e g h
  | _ => none

def h10 (f : String → String → String → String → String → String → String → String → String → String → Option String) : Handler
  | [a, b, c, d, e, g, h, i, j, k] => f a b c d e g h i j k
  | _ => none

def ops : List OpEntry := [
  ⟨"argon2.hash", h10 hashImpl, h10 hashSpec⟩,
  ⟨"argon2.build", h7 buildImpl, h7 buildSpec⟩
]

end Cx.Driver.Argon2
