/-
  Driver.Sha3 — line-protocol ops of the sha3 unit (SHA3-224/256/384/512, Keccak-224/256/384/512).
    hash.<alg> <msg>   : one-shot function, then `,` and `Context::new().update(msg).finalize()`
    hctx.<alg> <prog>  : context history (AGENT_GUIDE section 6): ops separated by `;`
        u<hex> update (consuming)   m<hex> update_mut   c push a clone   x swap with top of stack (no-op on an
        empty stack)   r reset   F finalize_reset (emit)   d finalize of a clone (emit)
  `impl` runs Impl.Sha3 (answers PANIC where the model panics), `spec` runs Spec.Keccak on the bytes fed since
  the last reset.
-/
import CxVerif.Util.Proto
import CxVerif.Impl.Sha3
import CxVerif.Spec.Keccak
namespace Cx.Driver.Sha3
open Cx

structure Alg where
  name : String
  dl : Nat
  ds : Nat
  spec : Bytes → Bytes

def algs : List Alg := [
  ⟨"sha3_224", 28, 2, Spec.Keccak.sha3_224⟩, ⟨"sha3_256", 32, 2, Spec.Keccak.sha3_256⟩,
  ⟨"sha3_384", 48, 2, Spec.Keccak.sha3_384⟩, ⟨"sha3_512", 64, 2, Spec.Keccak.sha3_512⟩,
  ⟨"keccak224", 28, 0, Spec.Keccak.keccak224⟩, ⟨"keccak256", 32, 0, Spec.Keccak.keccak256⟩,
  ⟨"keccak384", 48, 0, Spec.Keccak.keccak384⟩, ⟨"keccak512", 64, 0, Spec.Keccak.keccak512⟩]

/-- one op of a context program -/
inductive Op where
  | upd (consuming : Bool) (data : Bytes)
  | clone | swap | reset | finReset | finClone

def parseOp (s : String) : Option Op :=
  match s.toList with
  | 'u' :: rest => (Hex.decode (String.ofList rest)).map (Op.upd true)
  | 'm' :: rest => (Hex.decode (String.ofList rest)).map (Op.upd false)
  | ['c'] => some .clone
  | ['x'] => some .swap
  | ['r'] => some .reset
  | ['F'] => some .finReset
  | ['d'] => some .finClone
  | _ => none

def parseProg (s : String) : Option (List Op) :=
  if s == "-" then some [] else (s.splitOn ";").mapM parseOp

def joinDigests (ds : List Bytes) : String :=
  if ds.isEmpty then "-" else ",".intercalate (ds.map Hex.encode)

/-- run a program on the Impl model: (current, stack, emitted digests in reverse); `none` = PANIC -/
def runImpl (a : Alg) : List Op → Impl.Sha3.Context → List Impl.Sha3.Context → List Bytes → Option (List Bytes)
  | [], _, _, out => some out.reverse
  | .upd true d :: ops, cur, st, out =>
    match Impl.Sha3.Context.update a.dl cur d with
    | none => none
    | some cur => runImpl a ops cur st out
  | .upd false d :: ops, cur, st, out =>
    match Impl.Sha3.Context.update_mut a.dl cur d with
    | none => none
    | some cur => runImpl a ops cur st out
  | .clone :: ops, cur, st, out => runImpl a ops cur (cur :: st) out
  | .swap :: ops, cur, [], out => runImpl a ops cur [] out
  | .swap :: ops, cur, top :: st, out => runImpl a ops top (cur :: st) out
  | .reset :: ops, cur, st, out => runImpl a ops (Impl.Sha3.Context.reset cur) st out
  | .finReset :: ops, cur, st, out =>
    match Impl.Sha3.Context.finalize_reset a.dl a.ds cur with
    | none => none
    | some (cur, d) => runImpl a ops cur st (d :: out)
  | .finClone :: ops, cur, st, out =>
    match Impl.Sha3.Context.finalize a.dl a.ds cur with
    | none => none
    | some d => runImpl a ops cur st (d :: out)

/-- the same program on the abstract state "bytes since the last reset" -/
def runSpec (a : Alg) : List Op → Bytes → List Bytes → List Bytes → List Bytes
  | [], _, _, out => out.reverse
  | .upd _ d :: ops, cur, st, out => runSpec a ops (cur ++ d) st out
  | .clone :: ops, cur, st, out => runSpec a ops cur (cur :: st) out
  | .swap :: ops, cur, [], out => runSpec a ops cur [] out
  | .swap :: ops, cur, top :: st, out => runSpec a ops top (cur :: st) out
  | .reset :: ops, _, st, out => runSpec a ops [] st out
  | .finReset :: ops, cur, st, out => runSpec a ops [] st (a.spec cur :: out)
  | .finClone :: ops, cur, st, out => runSpec a ops cur st (a.spec cur :: out)

def hashImpl (a : Alg) : Handler := h1 fun m =>
  (hexArg m).map fun msg =>
    match Impl.Sha3.hash a.dl a.ds msg,
          (Impl.Sha3.Context.update a.dl Impl.Sha3.Context.new msg).bind (Impl.Sha3.Context.finalize a.dl a.ds) with
    | some x, some y => s!"{Hex.encode x},{Hex.encode y}"
    | _, _ => "PANIC"

def hashSpec (a : Alg) : Handler := h1 fun m =>
  (hexArg m).map fun msg => let d := Hex.encode (a.spec msg); s!"{d},{d}"

def hctxImpl (a : Alg) : Handler := h1 fun p =>
  (parseProg p).map fun ops =>
    match runImpl a ops Impl.Sha3.Context.new [] [] with
    | some ds => joinDigests ds
    | none => "PANIC"

def hctxSpec (a : Alg) : Handler := h1 fun p =>
  (parseProg p).map fun ops => joinDigests (runSpec a ops [] [] [])

def ops : List OpEntry :=
  algs.flatMap fun a => [
    ⟨"hash." ++ a.name, hashImpl a, hashSpec a⟩,
    ⟨"hctx." ++ a.name, hctxImpl a, hctxSpec a⟩]

end Cx.Driver.Sha3
