/-
  Driver.MacKdf — line-protocol ops of unit `mackdf` (legacy Digest / Mac objects, HMAC, HKDF, PBKDF2, scrypt).

  <digest> tokens: sha1 sha224 sha256 sha384 sha512 sha512_224 sha512_256 sha3_224 sha3_256 sha3_384 sha3_512
                   keccak224 keccak256 keccak384 keccak512 ripemd160 blake2b_<outlen> blake2s_<outlen>
  Histories (<prog>, one token, ops separated by `;`, `-` = empty):
      i<hex>  input                         R   Mac::result() / Digest::result(&mut [0; output_bytes()])
      W       raw_result / Digest::result into a buffer of output_bytes() bytes;   W<n>  into a buffer of n bytes
      r       the trait's reset             k<hex>  reset_with_key (BLAKE2 objects only)
      c       push a clone (not for Hmac: it is not Clone)     x   swap with the top of the stack
      o       emit the sizes: Digest `output_bytes/output_bits/block_size`, Mac `output_bytes`
    answer: the emitted values joined by `,` (`-` if none); if an op panics the answer ends with `PANIC`
    (values emitted before it are kept, ops after it are not run).

    dig.obj <digest> <prog>                 legacy digest object `X::new()` / `Blake2b::new(outlen)` through `Digest`
    dig.blake2b|dig.blake2s <outlen> <key> <msg>     the static one-shot `Blake2b::blake2b(out, input, key)`
    mac.hmac <digest> <key> <prog>          `Hmac::new(X::new(), key)` through `Mac`
    mac.blake2b|mac.blake2s <outlen> <key> <prog>    `Blake2b::new_keyed(outlen, key)` through `Mac`
    kdf.hkdf_extract <digest> <salt> <ikm> <prklen>
    kdf.hkdf_expand <digest> <prk> <info> <L>      `PANIC` for a PRK shorter than HashLen and for L > 255·HashLen
    kdf.hkdf_extract_used / kdf.hkdf_expand_used <digest> <pre>[!] <salt|prk> <ikm|info> <len>
                                            as above, but the digest object handed over is NOT fresh: `pre` was fed into it
                                            first (`!`: and `result` was called); the RFC value must not depend on that
    kdf.pbkdf2 <prf> <pwd> <salt> <c> <dkLen>      <prf> = <digest> (HMAC) | blake2bmac_<n> | blake2smac_<n> (keyed BLAKE2 as Mac)
    kdf.scrypt <pwd> <salt> <logN> <r> <p> <dkLen>
    kdf.scrypt_params <logN> <r> <p>        `ScryptParams::new`: `ok` / `PANIC`

  `impl` runs the code-shaped models (Impl.Digest / Hmac / Kdf over the hash units' context models), `spec` runs
  Spec.Hmac / Spec.Kdf over the hash units' Spec functions and the abstract object `Spec.MacObj`.
-/
import CxVerif.Util.Proto
import CxVerif.Spec.Sha1
import CxVerif.Spec.Sha2
import CxVerif.Spec.Keccak
import CxVerif.Spec.Ripemd160
import CxVerif.Spec.Blake2
import CxVerif.Spec.Hmac
import CxVerif.Spec.Kdf
import CxVerif.Impl.Digest
import CxVerif.Impl.Hmac
import CxVerif.Impl.Kdf
namespace Cx.Driver.MacKdf
open Cx Cx.Impl.Digest

/-! ### digests -/

/-- a legacy digest type: its model, the freshly constructed object (`none` = the constructor panics) -/
structure ImplDigest where
  δ : Type
  D : DigestModel δ
  fresh : Option δ
  /-- `reset_with_key` (BLAKE2 wrappers only) -/
  rekey : Option (δ → Bytes → Option δ)

/-- the standard's view of a digest: function, digest bytes, digest bits, block bytes;
    `valid = false`: no such function (BLAKE2 output length out of range) -/
structure SpecDigest where
  H : Bytes → Bytes
  outBytes : Nat
  outBits : Nat
  block : Nat
  valid : Bool := true
  /-- keyed variant (BLAKE2): `none` = key not admissible -/
  keyed : Option (Bytes → Option (Bytes → Bytes)) := none

def legacyEntry {γ : Type} (M : CtxModel γ) : ImplDigest :=
  { δ := Legacy γ, D := legacyDigest M, fresh := some (Legacy.new M), rekey := none }

def parseBlakeTok (pfx : String) (s : String) : Option Nat :=
  if s.startsWith pfx then (s.drop pfx.length).toString.toNat? else none

def implDigest (name : String) : Option ImplDigest :=
  match name with
  | "sha1" => some (legacyEntry sha1Ctx)
  | "sha224" => some (legacyEntry sha224Ctx)
  | "sha256" => some (legacyEntry sha256Ctx)
  | "sha384" => some (legacyEntry sha384Ctx)
  | "sha512" => some (legacyEntry sha512Ctx)
  | "sha512_224" => some (legacyEntry sha512_224Ctx)
  | "sha512_256" => some (legacyEntry sha512_256Ctx)
  | "sha3_224" => some (legacyEntry sha3_224Ctx)
  | "sha3_256" => some (legacyEntry sha3_256Ctx)
  | "sha3_384" => some (legacyEntry sha3_384Ctx)
  | "sha3_512" => some (legacyEntry sha3_512Ctx)
  | "keccak224" => some (legacyEntry keccak224Ctx)
  | "keccak256" => some (legacyEntry keccak256Ctx)
  | "keccak384" => some (legacyEntry keccak384Ctx)
  | "keccak512" => some (legacyEntry keccak512Ctx)
  | "ripemd160" => some (legacyEntry ripemd160Ctx)
  | _ =>
    match parseBlakeTok "blake2b_" name, parseBlakeTok "blake2s_" name with
    | some n, _ => some { δ := Blake2 UInt64, D := blake2bDigest codeVariant, fresh := Blake2.new Impl.Blake2.b n,
                          rekey := some (Blake2.reset_with_key Impl.Blake2.b) }
    | _, some n => some { δ := Blake2 UInt32, D := blake2sDigest codeVariant, fresh := Blake2.new Impl.Blake2.s n,
                          rekey := some (Blake2.reset_with_key Impl.Blake2.s) }
    | _, _ => none

def specBlake (b : Bool) (n : Nat) : SpecDigest :=
  let maxv := if b then 64 else 32
  let f := if b then Spec.Blake2.blake2b else Spec.Blake2.blake2s
  { H := f n [], outBytes := n, outBits := 8 * n, block := if b then 128 else 64,
    valid := decide (1 ≤ n ∧ n ≤ maxv),
    keyed := some fun key => if key.length ≤ maxv then some (f n key) else none }

def specDigest (name : String) : Option SpecDigest :=
  match name with
  | "sha1" => some ⟨Spec.Sha1.sha1, 20, 160, 64, true, none⟩
  | "sha224" => some ⟨Spec.Sha2.sha224, 28, 224, 64, true, none⟩
  | "sha256" => some ⟨Spec.Sha2.sha256, 32, 256, 64, true, none⟩
  | "sha384" => some ⟨Spec.Sha2.sha384, 48, 384, 128, true, none⟩
  | "sha512" => some ⟨Spec.Sha2.sha512, 64, 512, 128, true, none⟩
  | "sha512_224" => some ⟨Spec.Sha2.sha512_224, 28, 224, 128, true, none⟩
  | "sha512_256" => some ⟨Spec.Sha2.sha512_256, 32, 256, 128, true, none⟩
  | "sha3_224" => some ⟨Spec.Keccak.sha3_224, 28, 224, 144, true, none⟩
  | "sha3_256" => some ⟨Spec.Keccak.sha3_256, 32, 256, 136, true, none⟩
  | "sha3_384" => some ⟨Spec.Keccak.sha3_384, 48, 384, 104, true, none⟩
  | "sha3_512" => some ⟨Spec.Keccak.sha3_512, 64, 512, 72, true, none⟩
  | "keccak224" => some ⟨Spec.Keccak.keccak224, 28, 224, 144, true, none⟩
  | "keccak256" => some ⟨Spec.Keccak.keccak256, 32, 256, 136, true, none⟩
  | "keccak384" => some ⟨Spec.Keccak.keccak384, 48, 384, 104, true, none⟩
  | "keccak512" => some ⟨Spec.Keccak.keccak512, 64, 512, 72, true, none⟩
  | "ripemd160" => some ⟨Spec.Ripemd160.ripemd160, 20, 160, 64, true, none⟩
  | _ =>
    match parseBlakeTok "blake2b_" name, parseBlakeTok "blake2s_" name with
    | some n, _ => some (specBlake true n)
    | _, some n => some (specBlake false n)
    | _, _ => none

/-! ### histories -/

/-- `allowClone`: the type is `Clone`; `allowKey`: it has `reset_with_key` -/
def parseOp (allowClone allowKey : Bool) (s : String) : Option Op :=
  match s.toList with
  | 'i' :: rest => (Hex.decode (String.ofList rest)).map Op.input
  | ['R'] => some Op.result
  | ['W'] => some (Op.rawResult none)
  | 'W' :: rest => (String.ofList rest).toNat?.map fun n => Op.rawResult (some n)
  | ['r'] => some Op.reset
  | 'k' :: rest => if allowKey then (Hex.decode (String.ofList rest)).map Op.resetWithKey else none
  | ['c'] => if allowClone then some Op.clone else none
  | ['x'] => if allowClone then some Op.swap else none
  | ['o'] => some Op.sizes
  | _ => none

def parseProg (allowClone allowKey : Bool) (s : String) : Option (List Op) :=
  if s == "-" then some [] else (s.splitOn ";").mapM (parseOp allowClone allowKey)

def showOut : Out → String
  | .bytes b => Hex.encode b
  | .nums l => "/".intercalate (l.map toString)

def showHist (r : List Out × Bool) : String :=
  let vals := r.1.map showOut ++ (if r.2 then ["PANIC"] else [])
  if vals.isEmpty then "-" else ",".intercalate vals

/-! ### dig.obj -/

def digObjImpl : Handler := h2 fun dn prog =>
  match implDigest dn with
  | none => none
  | some e =>
    (parseProg true e.rekey.isSome prog).map fun ops =>
      match e.fresh with
      | none => "PANIC"
      | some d =>
        let fam := digestFam e.D
        let fam := match e.rekey with | some rk => { fam with reset_with_key := rk } | none => fam
        showHist (runHist fam ops d [] [])

def digObjSpec : Handler := h2 fun dn prog =>
  match specDigest dn with
  | none => none
  | some s =>
    (parseProg true s.keyed.isSome prog).map fun ops =>
      if !s.valid then "PANIC" else
      let rekey := match s.keyed with | some f => f | none => fun _ => none
      showHist (runHist (absFam [s.outBytes, s.outBits, s.block] rekey) ops (Spec.MacObj.fresh s.H s.outBytes) [] [])

/-! ### dig.blake2b / dig.blake2s — the static one-shot of the legacy wrappers -/

def showOpt (o : Option Bytes) : String := match o with | some d => Hex.encode d | none => "PANIC"

def digBlakeImpl (b : Bool) : Handler := h3 fun ol k m =>
  match natArg ol, hexArg k, hexArg m with
  | some n, some key, some msg =>
    some (showOpt (if b then Blake2.oneShot Impl.Blake2.b bKeyAssert n msg key
                   else Blake2.oneShot Impl.Blake2.s sKeyAssert n msg key))
  | _, _, _ => none

def digBlakeSpec (b : Bool) : Handler := h3 fun ol k m =>
  match natArg ol, hexArg k, hexArg m with
  | some n, some key, some msg =>
    let s := specBlake b n
    match s.valid, s.keyed.bind (· key) with
    | true, some f => some (Hex.encode (f msg))
    | _, _ => some "PANIC"
  | _, _, _ => none

/-! ### mac.hmac -/

def macHmacImpl : Handler := h3 fun dn k prog =>
  match implDigest dn, hexArg k with
  | some e, some key =>
    (parseProg false false prog).map fun ops =>
      match e.fresh.bind (fun d => Impl.Hmac.Hmac.new e.D d key) with
      | none => "PANIC"
      | some h => showHist (runHist (macFam (Impl.Hmac.hmacMac e.D)) ops h [] [])
  | _, _ => none

def macHmacSpec : Handler := h3 fun dn k prog =>
  match specDigest dn, hexArg k with
  | some s, some key =>
    (parseProg false false prog).map fun ops =>
      if !s.valid then "PANIC" else
      showHist (runHist (absFam [s.outBytes] (fun _ => none)) ops
        (Spec.MacObj.fresh (Spec.Hmac.hmac s.H s.block key) s.outBytes) [] [])
  | _, _ => none

/-! ### mac.blake2b / mac.blake2s -/

def macBlakeImpl (b : Bool) : Handler := h3 fun ol k prog =>
  match natArg ol, hexArg k with
  | some n, some key =>
    (parseProg true true prog).map fun ops =>
      if b then
        match Blake2.new_keyed Impl.Blake2.b bKeyAssert n key with
        | none => "PANIC"
        | some o => showHist (runHist { macFam (blake2bMac codeVariant) with
                                          reset_with_key := Blake2.reset_with_key Impl.Blake2.b } ops o [] [])
      else
        match Blake2.new_keyed Impl.Blake2.s sKeyAssert n key with
        | none => "PANIC"
        | some o => showHist (runHist { macFam (blake2sMac codeVariant) with
                                          reset_with_key := Blake2.reset_with_key Impl.Blake2.s } ops o [] [])
  | _, _ => none

def macBlakeSpec (b : Bool) : Handler := h3 fun ol k prog =>
  match natArg ol, hexArg k with
  | some n, some key =>
    (parseProg true true prog).map fun ops =>
      let s := specBlake b n
      let rekey := match s.keyed with | some f => f | none => fun _ => none
      match s.valid, rekey key with
      | true, some f => showHist (runHist (absFam [n] rekey) ops (Spec.MacObj.fresh f n) [] [])
      | _, _ => "PANIC"
  | _, _ => none

/-! ### KDFs -/

def hkdfExtractImpl : Handler := h4 fun dn s i l =>
  match implDigest dn, hexArg s, hexArg i, natArg l with
  | some e, some salt, some ikm, some prkLen =>
    some (showOpt (e.fresh.bind fun d => Impl.Kdf.hkdf_extract e.D d salt ikm prkLen))
  | _, _, _, _ => none

def hkdfExtractSpec : Handler := h4 fun dn s i l =>
  match specDigest dn, hexArg s, hexArg i, natArg l with
  | some sd, some salt, some ikm, some prkLen =>
    some (if sd.valid && prkLen == sd.outBytes then Hex.encode (Spec.Kdf.hkdfExtract sd.H sd.block salt ikm) else "PANIC")
  | _, _, _, _ => none

/-- the digest object after `input(pre)` (and `result` into an `output_bytes()` buffer when `pre` ends in `!`) -/
def usedDigest (e : ImplDigest) (pre : String) : Option (Option e.δ) :=
  let fin := pre.endsWith "!"
  let hexs := if fin then (pre.dropEnd 1).toString else pre
  (hexArg hexs).map fun bytes =>
    e.fresh.bind fun d => (e.D.input d bytes).bind fun d =>
      if fin then (e.D.result d (e.D.output_bytes d)).map (·.1) else some d

def hkdfExtractUsedImpl : Handler := h5 fun dn pre s i l =>
  match implDigest dn, hexArg s, hexArg i, natArg l with
  | some e, some salt, some ikm, some prkLen =>
    (usedDigest e pre).map fun od => showOpt (od.bind fun d => Impl.Kdf.hkdf_extract e.D d salt ikm prkLen)
  | _, _, _, _ => none

def hkdfExpandUsedImpl : Handler := h5 fun dn pre p i l =>
  match implDigest dn, hexArg p, hexArg i, natArg l with
  | some e, some prk, some info, some L =>
    (usedDigest e pre).map fun od => showOpt (od.bind fun d => Impl.Kdf.hkdf_expand e.D d prk info L)
  | _, _, _, _ => none

/-- `hkdf_expand(X::new(), prk, info, &mut [0; L])`; `PANIC` where the model refuses: `assert!(prk.len() >=
    digest.output_bytes())` (a PRK shorter than HashLen) and the `checked_add` of the block counter (L > 255·HashLen) -/
def hkdfExpandImpl : Handler := h4 fun dn p i l =>
  match implDigest dn, hexArg p, hexArg i, natArg l with
  | some e, some prk, some info, some L =>
    some (showOpt (e.fresh.bind fun d => Impl.Kdf.hkdf_expand e.D d prk info L))
  | _, _, _, _ => none

/-- RFC 5869 §2.3; `PANIC` outside its input constraints (|PRK| < HashLen, L > 255·HashLen: `Spec.Kdf.hkdfExpand = none`) -/
def hkdfExpandSpec : Handler := h4 fun dn p i l =>
  match specDigest dn, hexArg p, hexArg i, natArg l with
  | some sd, some prk, some info, some L =>
    some (if sd.valid then showOpt (Spec.Kdf.hkdfExpand sd.H sd.block sd.outBytes prk info L) else "PANIC")
  | _, _, _, _ => none

def pbkdf2Impl : Handler := h5 fun pn pw s cs l =>
  match hexArg pw, hexArg s, natArg cs, natArg l with
  | some pwd, some salt, some c, some dkLen =>
    if c ≥ 2 ^ 32 then none else
    match parseBlakeTok "blake2bmac_" pn, parseBlakeTok "blake2smac_" pn with
    | some n, _ =>
      some (showOpt ((Blake2.new_keyed Impl.Blake2.b bKeyAssert n pwd).bind fun m =>
        (Impl.Kdf.pbkdf2 (blake2bMac codeVariant) m salt c dkLen).map (·.2)))
    | _, some n =>
      some (showOpt ((Blake2.new_keyed Impl.Blake2.s sKeyAssert n pwd).bind fun m =>
        (Impl.Kdf.pbkdf2 (blake2sMac codeVariant) m salt c dkLen).map (·.2)))
    | _, _ =>
      match implDigest pn with
      | none => none
      | some e =>
        some (showOpt ((e.fresh.bind fun d => Impl.Hmac.Hmac.new e.D d pwd).bind fun m =>
          (Impl.Kdf.pbkdf2 (Impl.Hmac.hmacMac e.D) m salt c dkLen).map (·.2)))
  | _, _, _, _ => none

def pbkdf2Spec : Handler := h5 fun pn pw s cs l =>
  match hexArg pw, hexArg s, natArg cs, natArg l with
  | some pwd, some salt, some c, some dkLen =>
    if c ≥ 2 ^ 32 then none else
    match parseBlakeTok "blake2bmac_" pn, parseBlakeTok "blake2smac_" pn with
    | some n, _ =>
      let sd := specBlake true n
      some (if sd.valid && pwd.length ≤ 64 then showOpt (Spec.Kdf.pbkdf2 (Spec.Blake2.blake2b n) n pwd salt c dkLen) else "PANIC")
    | _, some n =>
      let sd := specBlake false n
      some (if sd.valid && pwd.length ≤ 32 then showOpt (Spec.Kdf.pbkdf2 (Spec.Blake2.blake2s n) n pwd salt c dkLen) else "PANIC")
    | _, _ =>
      match specDigest pn with
      | none => none
      | some sd =>
        some (if sd.valid then showOpt (Spec.Kdf.pbkdf2Hmac sd.H sd.block sd.outBytes pwd salt c dkLen) else "PANIC")
  | _, _, _, _ => none

def scryptImpl : Handler := h6 fun pw s ln rs ps l =>
  match hexArg pw, hexArg s, natArg ln, natArg rs, natArg ps, natArg l with
  | some pwd, some salt, some logN, some r, some p, some dkLen =>
    if logN ≥ 256 ∨ r ≥ 2 ^ 32 ∨ p ≥ 2 ^ 32 then none else
    some (showOpt ((Impl.Kdf.ScryptParams.new logN r p).bind fun prm => Impl.Kdf.scrypt pwd salt prm dkLen))
  | _, _, _, _, _, _ => none

/-- "within usize": the working set `128·r·N` bytes and `128·r·p` must be addressable on the 64-bit target -/
def withinUsize (logN r p : Nat) : Bool := decide (128 * r * 2 ^ logN < 2 ^ 64 ∧ 128 * r * p < 2 ^ 64 ∧ logN < 64)

def scryptSpec : Handler := h6 fun pw s ln rs ps l =>
  match hexArg pw, hexArg s, natArg ln, natArg rs, natArg ps, natArg l with
  | some pwd, some salt, some logN, some r, some p, some dkLen =>
    if logN ≥ 256 ∨ r ≥ 2 ^ 32 ∨ p ≥ 2 ^ 32 then none else
    some (if withinUsize logN r p then showOpt (Spec.Kdf.scrypt pwd salt (2 ^ logN) r p dkLen) else "PANIC")
  | _, _, _, _, _, _ => none

def scryptParamsImpl : Handler := h3 fun ln rs ps =>
  match natArg ln, natArg rs, natArg ps with
  | some logN, some r, some p =>
    if logN ≥ 256 ∨ r ≥ 2 ^ 32 ∨ p ≥ 2 ^ 32 then none else
    some (if (Impl.Kdf.ScryptParams.new logN r p).isSome then "ok" else "PANIC")
  | _, _, _ => none

def scryptParamsSpec : Handler := h3 fun ln rs ps =>
  match natArg ln, natArg rs, natArg ps with
  | some logN, some r, some p =>
    if logN ≥ 256 ∨ r ≥ 2 ^ 32 ∨ p ≥ 2 ^ 32 then none else
    some (if withinUsize logN r p && Spec.Kdf.scryptValid (2 ^ logN) r p 1 then "ok" else "PANIC")
  | _, _, _ => none

/-! ### dig.str — `Digest::input_str` then `Digest::result_str`: the lowercase hex of the digest of the string's bytes
     (the history `i<bytes>;R` of the object model; the answer of `R` is already printed as lowercase hex) -/
def digStrImpl : Handler := h2 fun dn m => digObjImpl [dn, (if m == "-" then "i-" else "i" ++ m) ++ ";R"]
def digStrSpec : Handler := h2 fun dn m => digObjSpec [dn, (if m == "-" then "i-" else "i" ++ m) ++ ";R"]

def ops : List OpEntry := [
  ⟨"dig.obj", digObjImpl, digObjSpec⟩,
  ⟨"dig.str", digStrImpl, digStrSpec⟩,
  ⟨"dig.blake2b", digBlakeImpl true, digBlakeSpec true⟩,
  ⟨"dig.blake2s", digBlakeImpl false, digBlakeSpec false⟩,
  ⟨"mac.hmac", macHmacImpl, macHmacSpec⟩,
  ⟨"mac.blake2b", macBlakeImpl true, macBlakeSpec true⟩,
  ⟨"mac.blake2s", macBlakeImpl false, macBlakeSpec false⟩,
  ⟨"kdf.hkdf_extract", hkdfExtractImpl, hkdfExtractSpec⟩,
  ⟨"kdf.hkdf_expand", hkdfExpandImpl, hkdfExpandSpec⟩,
  ⟨"kdf.hkdf_extract_used", hkdfExtractUsedImpl, fun a => match a with | [dn, _, s, i, l] => hkdfExtractSpec [dn, s, i, l] | _ => none⟩,
  ⟨"kdf.hkdf_expand_used", hkdfExpandUsedImpl, fun a => match a with | [dn, _, p, i, l] => hkdfExpandSpec [dn, p, i, l] | _ => none⟩,
  ⟨"kdf.pbkdf2", pbkdf2Impl, pbkdf2Spec⟩,
  ⟨"kdf.scrypt", scryptImpl, scryptSpec⟩,
  ⟨"kdf.scrypt_params", scryptParamsImpl, scryptParamsSpec⟩
]

end Cx.Driver.MacKdf
