/-
  Driver.Scalar64 — line-protocol ops (prefix `scalar.`) for curve25519/scalar (64-bit backend).
  `impl` runs the limb model Impl/Scalar64.lean, `spec` runs Spec/ScalarL.lean (integers mod L).
  Operands are 32-byte (64-byte for reduce_wide) little-endian strings; every scalar operand is built with
  `Scalar::from_bytes` and every result is observed with `Scalar::to_bytes`.
-/
import CxVerif.Util.Proto
import CxVerif.Impl.Scalar64
import CxVerif.Spec.ScalarL
namespace Cx.Driver.Scalar64
open Cx Cx.Impl.Scalar64

def outS : Option Scalar → String
  | some s => Hex.encode (to_bytes s)
  | none => "PANIC"

def ints (l : List Int) : String := ",".intercalate (l.map fun i => toString i)
def nats (l : List Nat) : String := ",".intercalate (l.map fun i => toString i)

def arg32 (s : String) : Option (Vector UInt8 32) := (hexArg s).bind (toArr 32)
def arg64 (s : String) : Option (Vector UInt8 64) := (hexArg s).bind (toArr 64)
/-- spec-side operand: a 32-byte string read as a little-endian integer -/
def nat32 (s : String) : Option Nat := (hexArg s).bind fun b => if b.length = 32 then some (Spec.ScalarL.decode b) else none
def enc (n : Nat) : String := Hex.encode (Spec.ScalarL.encode n)

open Spec.ScalarL in
def ops : List OpEntry := [
  ⟨"scalar.const", h1 (fun a => if a == "zero" then some (Hex.encode (to_bytes ZERO)) else if a == "one" then some (Hex.encode (to_bytes ONE)) else none),
                   h1 (fun a => if a == "zero" then some (enc 0) else if a == "one" then some (enc 1) else none)⟩,
  -- to_bytes (from_bytes b)
  ⟨"scalar.roundtrip", h1 (fun a => (arg32 a).map fun b => Hex.encode (to_bytes (from_bytes b))),
                       h1 (fun a => (nat32 a).map enc)⟩,
  -- from_bytes_canonical: `none` or `some:<to_bytes>`
  ⟨"scalar.canonical", h1 (fun a => (arg32 a).map fun b => match from_bytes_canonical b with
                              | none => "PANIC"
                              | some none => "none"
                              | some (some s) => "some:" ++ Hex.encode (to_bytes s)),
                       h1 (fun a => (hexArg a).bind fun b => if b.length = 32 then
                              some (match decodeCanonical b with | some n => "some:" ++ enc n | none => "none") else none)⟩,
  ⟨"scalar.reduce_wide", h1 (fun a => (arg64 a).map fun b => outS (reduce_from_wide_bytes b)),
                         h1 (fun a => (hexArg a).bind fun b => if b.length = 64 then some (Hex.encode (reduceWide b)) else none)⟩,
  -- add: the Spec speaks for reduced operands (a, b < L); outside only code = Impl is compared
  ⟨"scalar.add", h2 (fun a b => do let x ← arg32 a; let y ← arg32 b; pure (outS (Impl.Scalar64.add (from_bytes x) (from_bytes y)))),
                 h2 (fun a b => do let x ← nat32 a; let y ← nat32 b
                                   pure (if x < L ∧ y < L then enc (Spec.ScalarL.add x y) else "?"))⟩,
  -- mul: all 256-bit operands
  ⟨"scalar.mul", h2 (fun a b => do let x ← arg32 a; let y ← arg32 b; pure (outS (Impl.Scalar64.mul (from_bytes x) (from_bytes y)))),
                 h2 (fun a b => do let x ← nat32 a; let y ← nat32 b; pure (enc (Spec.ScalarL.mul x y)))⟩,
  -- muladd a b c = a*b + c: all 256-bit a, b; reduced c
  ⟨"scalar.muladd", h3 (fun a b c => do let x ← arg32 a; let y ← arg32 b; let z ← arg32 c
                                        pure (outS (Impl.Scalar64.muladd (from_bytes x) (from_bytes y) (from_bytes z)))),
                    h3 (fun a b c => do let x ← nat32 a; let y ← nat32 b; let z ← nat32 c
                                        pure (if z < L then enc (Spec.ScalarL.muladd x y z) else "?"))⟩,
  -- reduce_wide followed by canonical decoding of the result (always accepted)
  ⟨"scalar.reduce_then_canonical", h1 (fun a => (arg64 a).map fun b => match reduce_from_wide_bytes b with
                              | none => "PANIC"
                              | some r => match fromBytesCanonical (to_bytes r) with
                                | some (some s) => "some:" ++ Hex.encode (to_bytes s)
                                | some none => "none"
                                | none => "PANIC"),
                         h1 (fun a => (hexArg a).bind fun b => if b.length = 64 then some ("some:" ++ Hex.encode (reduceWide b)) else none)⟩,
  ⟨"scalar.nibbles", h1 (fun a => (arg32 a).map fun b => ints (nibbles (from_bytes b)).toList),
                     h1 (fun a => (nat32 a).map fun n => nats (radix16 n))⟩,
  ⟨"scalar.bits", h1 (fun a => (arg32 a).map fun b => ints (bits (from_bytes b)).toList),
                  h1 (fun a => (nat32 a).map fun n => nats (bitsLE n))⟩,
  -- slide: ref10's sliding-window recoding has no functional standard; the Spec is the relation
  -- `isSlideOf` (theorem Props.C15.Scalar64.slide_correct for a < 2^255); here code = Impl is compared.
  ⟨"scalar.slide", h1 (fun a => (arg32 a).map fun b => match slide (from_bytes b) with
                              | none => "PANIC"
                              | some r => ints r.toList),
                   noSpec⟩,
  -- the contract of slide evaluated on the real output (harness) / the model's output (impl); the Spec answers
  -- `true` on the documented range a < 2^255 and `?` above it (there the carry can run off the array)
  ⟨"scalar.slide_contract", h1 (fun a => (arg32 a).map fun b => match slide (from_bytes b) with
                              | none => "PANIC"
                              | some r => boolStr (isSlideOf (decode b.toList) r.toList)),
                   h1 (fun a => (nat32 a).map fun n => if n < 2^255 then "true" else "?")⟩
]

end Cx.Driver.Scalar64
