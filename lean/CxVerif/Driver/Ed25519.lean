/-
  Driver.Ed25519 — line-protocol ops of the unit `ed25519` (prefixes `ge.` and `ed25519.`).
  `impl` runs Impl/Ge.lean + Impl/Ed25519.lean (limb models), `spec` runs Spec/Edwards.lean + Spec/Ed25519.lean.
  Points travel as their 32-byte encodings; scalars as 32 little-endian bytes (`Scalar::from_bytes`, unreduced).

    ge.decode <32B>            Ge::from_bytes → `none` | `some:<to_bytes>`
    ge.roundtrip <32B>         from_bytes, to_bytes, from_bytes, to_bytes → `none` | `<enc1>,<enc2>`
    ge.base_mul <scalar32>     Ge::scalarmult_base(a).to_bytes()                      (Spec: a < 2^255, else `?`)
    ge.double_mul <a32> <A32> <b32>   double_scalarmult_vartime(a, from_bytes(A), b).to_bytes(), `none` if A is no point
    ge.add <P32> <Q32>         (&P + &Q.to_cached()).to_full().to_bytes()
    ge.sub <P32> <Q32>         (&P - &Q.to_cached()).to_full().to_bytes()
    ge.double <P32>            P.double().to_bytes() and P.to_partial().double().to_bytes()
    ge.negate <P32>            P.negate().to_bytes()
    ed25519.keypair <seed32>   `<keypair64>,<public32>`
    ed25519.sign <seed32> <msg>        signature(msg, keypair(seed).0)
    ed25519.sign_kp <keypair64> <msg>  signature(msg, keypair) for arbitrary keypair bytes
    ed25519.sign_ext <ext64> <msg>     signature_extended(msg, ext)                    (Spec: bit 255 of ext clear)
    ed25519.ext_public <ext64>         extended_to_public(ext)
    ed25519.verify <msg> <pk32> <sig64>
    ed25519.exchange <pk32> <seed32>
    ed25519.check <seed32> <msg> <pk32> <sig64>   `true` iff keypair(seed) = (seed‖pk, pk), signature = sig and it verifies
    ed25519.sign_via_ext <seed32> <msg>  signature_extended(msg, clamp(sha512(seed)))  — Spec answer: sign(seed, msg)
-/
import CxVerif.Util.Proto
import CxVerif.Impl.Ed25519
import CxVerif.Spec.Ed25519
namespace Cx.Driver.Ed25519
open Cx Cx.Impl.Ge

def outB : Option Bytes → String
  | some b => Hex.encode b
  | none => "PANIC"

def argN (n : Nat) (s : String) : Option Bytes := (hexArg s).bind fun b => if b.length = n then some b else none

/-- run `f` on the decoded point; `none` answer when the string is no point -/
def withPoint (s : String) (f : Ge → Option String) : Option String :=
  (argN 32 s).map fun b => match Ge.from_bytes b with
    | none => "PANIC"
    | some none => "none"
    | some (some g) => (f g).getD "PANIC"

def withPoint2 (s t : String) (f : Ge → Ge → Option String) : Option String :=
  (argN 32 s).bind fun b => (argN 32 t).map fun c => match Ge.from_bytes b, Ge.from_bytes c with
    | some (some g), some (some h) => (f g h).getD "PANIC"
    | none, _ => "PANIC"
    | _, none => "PANIC"
    | _, _ => "none"

open Spec.Edwards in
def specPoint (s : String) (f : Point → String) : Option String :=
  (argN 32 s).map fun b => match decode b with
    | none => "none"
    | some P => f P

open Spec.Edwards in
def specPoint2 (s t : String) (f : Point → Point → String) : Option String :=
  (argN 32 s).bind fun b => (argN 32 t).map fun c => match decode b, decode c with
    | some P, some Q => f P Q
    | _, _ => "none"

def encS (P : Spec.Edwards.Point) : String := Hex.encode (Spec.Edwards.encode P)

/-! ### ge.prog — a stack machine over extended points (results reused as operands, z ≠ 1) -/

/-- one token of the program on the model's `Ge` stack; `none` = malformed, `some none` = refused decoding / panic -/
def geProgStepImpl (st : List Ge) (tok : String) : Option (Option (List Ge)) :=
  let c := tok.take 1
  let rest := tok.drop 1
  match c.toString, st with
  | "b", _ => (argN 32 rest.toString).map fun b => match Ge.from_bytes b with
      | some (some g) => some (g :: st)
      | _ => none
  | "m", _ => (argN 32 rest.toString).map fun b => do
      let s ← Impl.Scalar64.fromBytes b
      let g ← Ge.scalarmult_base s
      pure (g :: st)
  | "+", q :: p :: r => some (do let x ← p.add_cached (← q.to_cached); pure ((← x.to_full) :: r))
  | "-", q :: p :: r => some (do let x ← p.sub_cached (← q.to_cached); pure ((← x.to_full) :: r))
  | "d", p :: r => some (do pure ((← p.double) :: r))
  | "D", p :: r => some (do pure ((← p.to_partial.double_full) :: r))
  | "e", p :: r => some (do pure ((← (← p.double_partial).double_full) :: r))
  | "n", p :: r => some (do pure ((← p.negate) :: r))
  | "c", p :: r => some (some (p :: p :: r))
  | "x", q :: p :: r => some (some (p :: q :: r))
  | _, _ => none

def geProgImpl : Handler := h1 fun prog =>
  let rec go (toks : List String) (st : List Ge) : Option String :=
    match toks with
    | [] => match st with
      | g :: _ => some ((g.to_bytes.map Hex.encode).getD "PANIC")
      | [] => some "bad-args"
    | t :: ts => match geProgStepImpl st t with
      | none => some "bad-args"
      | some none => some (if t.take 1 == "b" then "none" else "PANIC")
      | some (some st') => go ts st'
  go (prog.splitOn ";") []

open Spec.Edwards in
def geProgSpec : Handler := h1 fun prog =>
  let step (st : List Point) (tok : String) : Option (Option (List Point)) :=
    let c := tok.take 1
    let rest := tok.drop 1
    match c.toString, st with
    | "b", _ => (argN 32 rest.toString).map fun b => (decode b).map (· :: st)
    | "m", _ => (argN 32 rest.toString).map fun b => if leNat b < 2 ^ 255 then some (smul (leNat b) B :: st) else none
    | "+", q :: p :: r => some (some (add p q :: r))
    | "-", q :: p :: r => some (some (sub p q :: r))
    | "d", p :: r => some (some (double p :: r))
    | "D", p :: r => some (some (double p :: r))
    | "e", p :: r => some (some (double (double p) :: r))
    | "n", p :: r => some (some (neg p :: r))
    | "c", p :: r => some (some (p :: p :: r))
    | "x", q :: p :: r => some (some (p :: q :: r))
    | _, _ => none
  let rec go (toks : List String) (st : List Point) : Option String :=
    match toks with
    | [] => match st with
      | P :: _ => some (encS P)
      | [] => some "bad-args"
    | t :: ts => match step st t with
      | none => some "bad-args"
      | some none => some (if t.take 1 == "b" then "none" else "?")
      | some (some st') => go ts st'
  go (prog.splitOn ";") []

open Spec.Edwards in
def ops : List OpEntry := [
  ⟨"ge.prog", geProgImpl, geProgSpec⟩,
  ⟨"ge.decode", h1 (fun a => withPoint a fun g => (g.to_bytes).map fun b => "some:" ++ Hex.encode b),
                h1 (fun a => specPoint a fun P => "some:" ++ encS P)⟩,
  ⟨"ge.roundtrip", h1 (fun a => withPoint a fun g => do
                      let e1 ← g.to_bytes
                      match ← Ge.from_bytes e1 with
                      | none => pure (Hex.encode e1 ++ ",none")
                      | some g2 => pure (Hex.encode e1 ++ "," ++ Hex.encode (← g2.to_bytes))),
                   h1 (fun a => specPoint a fun P => encS P ++ "," ++ (match decode (encode P) with
                      | none => "none"
                      | some Q => encS Q))⟩,
  ⟨"ge.base_mul", h1 (fun a => (argN 32 a).map fun b => outB (do
                      let s ← Impl.Scalar64.fromBytes b
                      let g ← Ge.scalarmult_base s
                      g.to_bytes)),
                  h1 (fun a => (argN 32 a).map fun b =>
                      if leNat b < 2 ^ 255 then encS (smul (leNat b) B) else "?")⟩,
  ⟨"ge.double_mul", h3 (fun a pt b => do
                      let a ← argN 32 a; let b ← argN 32 b
                      withPoint pt fun g => do
                        let sa ← Impl.Scalar64.fromBytes a
                        let sb ← Impl.Scalar64.fromBytes b
                        let r ← GePartial.double_scalarmult_vartime sa g sb
                        (r.to_bytes).map Hex.encode),
                    h3 (fun a pt b => do
                      let a ← argN 32 a; let b ← argN 32 b
                      specPoint pt fun P =>
                        if leNat a < 2 ^ 255 ∧ leNat b < 2 ^ 255 then
                          encS (add (smul (leNat a) P) (smul (leNat b) B)) else "?")⟩,
  ⟨"ge.add", h2 (fun a b => withPoint2 a b fun g h => do
                      let r ← g.add_cached (← h.to_cached)
                      (← r.to_full).to_bytes |>.map Hex.encode),
             h2 (fun a b => specPoint2 a b fun P Q => encS (add P Q))⟩,
  ⟨"ge.sub", h2 (fun a b => withPoint2 a b fun g h => do
                      let r ← g.sub_cached (← h.to_cached)
                      (← r.to_full).to_bytes |>.map Hex.encode),
             h2 (fun a b => specPoint2 a b fun P Q => encS (sub P Q))⟩,
  ⟨"ge.double", h1 (fun a => withPoint a fun g => do
                      let e1 ← (← g.double).to_bytes
                      let e2 ← (← g.to_partial.double).to_bytes
                      pure (Hex.encode e1 ++ "," ++ Hex.encode e2)),
                h1 (fun a => specPoint a fun P => encS (double P) ++ "," ++ encS (double P))⟩,
  ⟨"ge.negate", h1 (fun a => withPoint a fun g => do (← g.negate).to_bytes |>.map Hex.encode),
                h1 (fun a => specPoint a fun P => encS (neg P))⟩,
  ⟨"ed25519.keypair", h1 (fun a => (argN 32 a).map fun seed => match Impl.Ed25519.keypair seed with
                      | none => "PANIC"
                      | some (kp, pk) => Hex.encode kp ++ "," ++ Hex.encode pk),
                      h1 (fun a => (argN 32 a).map fun seed =>
                        let (kp, pk) := Spec.Ed25519.keypair seed
                        Hex.encode kp ++ "," ++ Hex.encode pk)⟩,
  ⟨"ed25519.sign", h2 (fun s m => do
                      let seed ← argN 32 s; let msg ← hexArg m
                      pure (outB (do
                        let (kp, _) ← Impl.Ed25519.keypair seed
                        Impl.Ed25519.signature msg kp))),
                   h2 (fun s m => do
                      let seed ← argN 32 s; let msg ← hexArg m
                      pure (Hex.encode (Spec.Ed25519.sign seed msg)))⟩,
  ⟨"ed25519.sign_kp", h2 (fun k m => do
                      let kp ← argN 64 k; let msg ← hexArg m
                      pure (outB (Impl.Ed25519.signature msg kp))),
                      h2 (fun k m => do
                      let kp ← argN 64 k; let msg ← hexArg m
                      let seed := kp.take 32
                      pure (Hex.encode (Spec.Ed25519.signWith (Spec.Ed25519.secretScalar seed)
                        (Spec.Ed25519.noncePrefix seed) (kp.drop 32) msg)))⟩,
  ⟨"ed25519.sign_ext", h2 (fun e m => do
                      let ext ← argN 64 e; let msg ← hexArg m
                      pure (outB (Impl.Ed25519.signature_extended msg ext))),
                       h2 (fun e m => do
                      let ext ← argN 64 e; let msg ← hexArg m
                      pure (if leNat (ext.take 32) < 2 ^ 255 then Hex.encode (Spec.Ed25519.signExtended ext msg) else "?"))⟩,
  ⟨"ed25519.ext_public", h1 (fun e => (argN 64 e).map fun ext => outB (Impl.Ed25519.extended_to_public ext)),
                         h1 (fun e => (argN 64 e).map fun ext =>
                           if leNat (ext.take 32) < 2 ^ 255 then Hex.encode (Spec.Ed25519.extendedToPublic ext) else "?")⟩,
  ⟨"ed25519.verify", h3 (fun m k s => do
                      let msg ← hexArg m; let pk ← argN 32 k; let sig ← argN 64 s
                      pure (match Impl.Ed25519.verify msg pk sig with
                        | none => "PANIC"
                        | some b => boolStr b)),
                     h3 (fun m k s => do
                      let msg ← hexArg m; let pk ← argN 32 k; let sig ← argN 64 s
                      pure (boolStr (Spec.Ed25519.verify msg pk sig)))⟩,
  ⟨"ed25519.exchange", h2 (fun k s => do
                      let pk ← argN 32 k; let seed ← argN 32 s
                      pure (outB (Impl.Ed25519.exchange pk seed))),
                       h2 (fun k s => do
                      let pk ← argN 32 k; let seed ← argN 32 s
                      pure (Hex.encode (Spec.Ed25519.exchange pk seed)))⟩,
  ⟨"ed25519.sign_via_ext", h2 (fun s m => do
                      let seed ← argN 32 s; let msg ← hexArg m
                      pure (outB (do
                        let ext ← Impl.Ed25519.extended_secret seed
                        Impl.Ed25519.signature_extended msg ext))),
                     h2 (fun s m => do
                      let seed ← argN 32 s; let msg ← hexArg m
                      pure (Hex.encode (Spec.Ed25519.sign seed msg)))⟩
,
  -- expected values (RFC 8032 §7.1 vectors, independent reference): every executor must answer `true`
  ⟨"ed25519.check", h4 (fun s m k g => do
                      let seed ← argN 32 s; let msg ← hexArg m; let pk ← argN 32 k; let sig ← argN 64 g
                      pure (match (do
                          let (kp, pub) ← Impl.Ed25519.keypair seed
                          let sg ← Impl.Ed25519.signature msg kp
                          let ok ← Impl.Ed25519.verify msg pub sg
                          pure (pub == pk && sg == sig && ok && kp == seed ++ pk)) with
                        | none => "PANIC"
                        | some b => boolStr b)),
                    h4 (fun s m k g => do
                      let seed ← argN 32 s; let msg ← hexArg m; let pk ← argN 32 k; let sig ← argN 64 g
                      pure (boolStr (Spec.Ed25519.publicKey seed == pk && Spec.Ed25519.sign seed msg == sig
                        && Spec.Ed25519.verify msg pk sig && (Spec.Ed25519.keypair seed).1 == seed ++ pk)))⟩
]

end Cx.Driver.Ed25519
