/-
  Driver.Poly1305 — line-protocol ops of the poly1305 unit (prefix `poly.`).

    poly.mac <key32> <chunklens> <msg>    new; one `input` per piece of `msg` split at the lengths; raw_result(16 bytes)
    poly.hist <key32> <prog>              a history in one token, ops separated by `;`:
                                            i<hex> input   R result   W raw_result into 16 bytes   W<n> raw_result into n bytes
                                            r reset        c push a clone of the object          x swap object with top of stack
                                          answer: the emitted tags joined by `,` (`-` if none); the first panic ends the
                                          history and is reported as a last element `PANIC`
    poly.output_bytes <key32>             16

  `impl` runs Impl.Poly1305 with `codeVariant`; `spec` runs the abstract object
  (key, bytes since last reset, finished?) with Spec.Poly1305.mac.
-/
import CxVerif.Util.Proto
import CxVerif.Spec.Poly1305
import CxVerif.Impl.Poly1305
namespace Cx.Driver.Poly1305
open Cx

inductive POp where
  | input (d : Bytes)
  | result
  | raw (n : Nat)
  | reset
  | clone
  | swap

def parseOp (s : String) : Option POp :=
  match s.toList with
  | 'i' :: rest => (Hex.decode (String.ofList rest)).map POp.input
  | ['R'] => some .result
  | ['W'] => some (.raw 16)
  | 'W' :: rest => ((String.ofList rest).toNat?).map POp.raw
  | ['r'] => some .reset
  | ['c'] => some .clone
  | ['x'] => some .swap
  | _ => none

def parseProg (s : String) : Option (List POp) :=
  if s == "-" then some [] else (s.splitOn ";").mapM parseOp

def render (outs : List Bytes) (panicked : Bool) : String :=
  let toks := outs.map Hex.encode ++ (if panicked then ["PANIC"] else [])
  if toks.isEmpty then "-" else String.intercalate "," toks

/-- generic history runner over an object type `σ` with a stack of clones -/
def runHist {σ : Type} (step : σ → POp → Option (σ × Option Bytes)) :
    σ → List σ → List POp → List Bytes → List Bytes × Bool
  | _, _, [], acc => (acc.reverse, false)
  | cur, stk, .clone :: ops, acc => runHist step cur (cur :: stk) ops acc
  | cur, stk, .swap :: ops, acc =>
    match stk with
    | [] => runHist step cur stk ops acc
    | t :: rest => runHist step t (cur :: rest) ops acc
  | cur, stk, op :: ops, acc =>
    match step cur op with
    | none => (acc.reverse, true)
    | some (cur', out) => runHist step cur' stk ops (match out with | some t => t :: acc | none => acc)

def implStep (st : Impl.Poly1305.State) : POp → Option (Impl.Poly1305.State × Option Bytes)
  | .input d => match Impl.Poly1305.input st d with | .ok s => some (s, none) | .error _ => none
  | .result => match Impl.Poly1305.result Impl.Poly1305.codeVariant st with | .ok (s, t) => some (s, some t) | .error _ => none
  | .raw n => match Impl.Poly1305.raw_result Impl.Poly1305.codeVariant st n with | .ok (s, t) => some (s, some t) | .error _ => none
  | .reset => some (Impl.Poly1305.reset st, none)
  | _ => some (st, none)

/-- the abstract object: key, bytes since the last reset, finished? -/
structure Abs where
  key : Bytes
  msg : Bytes
  finished : Bool

def specStep (a : Abs) : POp → Option (Abs × Option Bytes)
  | .input d => if a.finished then none else some ({ a with msg := a.msg ++ d }, none)
  | .result => some ({ a with finished := true }, some (Spec.Poly1305.mac a.key a.msg))
  | .raw n => if n < 16 then none else some ({ a with finished := true }, some (Spec.Poly1305.mac a.key a.msg))
  | .reset => some ({ a with msg := [], finished := false }, none)
  | _ => some (a, none)

def key32 (s : String) : Option Bytes := (hexArg s).bind fun k => if k.length = 32 then some k else none

def ops : List OpEntry := [
  ⟨"poly.mac",
    h3 (fun k l m => do
      let key ← key32 k; let lens ← natListArg l; let msg ← hexArg m
      pure (match Impl.Poly1305.mac Impl.Poly1305.codeVariant key (splitAtLens lens msg) with
            | .ok t => Hex.encode t | .error _ => "PANIC")),
    h3 (fun k l m => do
      let key ← key32 k; let _ ← natListArg l; let msg ← hexArg m
      pure (Hex.encode (Spec.Poly1305.mac key msg)))⟩,
  ⟨"poly.hist",
    h2 (fun k p => do
      let key ← key32 k; let prog ← parseProg p
      let (outs, pk) := runHist implStep (Impl.Poly1305.new key) [] prog []
      pure (render outs pk)),
    h2 (fun k p => do
      let key ← key32 k; let prog ← parseProg p
      let (outs, pk) := runHist specStep ⟨key, [], false⟩ [] prog []
      pure (render outs pk))⟩,
  ⟨"poly.output_bytes",
    h1 (fun k => do let key ← key32 k; pure (toString (Impl.Poly1305.output_bytes (Impl.Poly1305.new key)))),
    h1 (fun k => do let _ ← key32 k; pure "16")⟩
]

end Cx.Driver.Poly1305
