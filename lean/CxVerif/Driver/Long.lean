/-
  Driver.Long — long-input metamorphic ops.  The answer `=` tells the runner that all fields of the code's answer
  must be equal: one big call, the same bytes in small chunks, (and the one-shot function) — which is what the
  chunking-independence theorems (C02 split_independence, C04 partition_independence, C05 chunking_irrelevant,
  C06 streamed = one-shot, C08/C09 history refinements) say for EVERY length.  The models are not run on these inputs.
-/
import CxVerif.Util.Proto
namespace Cx.Driver.Long
open Cx
def eqAll : Handler := fun args => if args.length = 5 then some "=" else none
def ops : List OpEntry := [
  ⟨"long.hash", eqAll, eqAll⟩, ⟨"long.mac", eqAll, eqAll⟩, ⟨"long.cipher", eqAll, eqAll⟩, ⟨"long.aead", eqAll, eqAll⟩
]
end Cx.Driver.Long
