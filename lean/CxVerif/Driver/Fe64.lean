/-
  Driver.Fe64 — line-protocol ops of unit fe64 (64-bit field backend, X25519).

  fe.prog <program>      field-expression program through the public API of `cryptoxide::curve25519::Fe`.
                         One token, instructions separated by `;`, working on a stack of field elements:
                           b<64 hex>  push Fe::from_bytes          c0 c1 cs cd c2  push ZERO ONE SQRTM1 D D2
                           + - *      binary operators (second-from-top OP top)   ~  negate
                           s  square   r<n>  square_repeatdly(n)   q  square_and_double
                           i  invert   w  pow25523
                           d  dup   x  exchange top two   p  pop   o<k>  push a copy of the k-th entry (0 = top)
                           t  emit to_bytes(top)   z  emit is_nonzero(top)   n  emit is_negative(top)
                           =  emit (second == top)
                         answer: the emitted values joined by `,` (`-` if none); `PANIC` if the code panics.
  x25519.dh <n> <u>      `curve25519(n,u)`,`x25519::dh(n,u)`
  x25519.base <n>        `curve25519_base(n)`,`x25519::base(n)`
  x25519.iter <cnt> <k> <u>   RFC 7748 §5.2: cnt times (k,u) := (curve25519(k,u), k); answers k
  x25519.sym <a> <b>     both sides of an exchange: `curve25519(a, curve25519_base(b))`,`curve25519(b, curve25519_base(a))`
                         (the Spec answers X25519(a, X25519(b, 9)) for both fields: the value the property demands)
  x25519.tryfrom <hex>   TryFrom<&[u8]> of SecretKey, PublicKey, SharedSecret: `ok`/`err` each
-/
import CxVerif.Util.Proto
import CxVerif.Impl.X25519
import CxVerif.Spec.X25519
namespace Cx.Driver.Fe64
open Cx

/-! ### generic stack machine over an element type `α` -/

structure Alg (α : Type) where
  fromBytes : Bytes → Option α          -- none: not 32 bytes (malformed request)
  const : String → Option α
  add : α → α → Option α                -- none: panic
  sub : α → α → Option α
  mul : α → α → Option α
  neg : α → Option α
  square : α → Option α
  squareRep : α → Nat → Option α
  squareDouble : α → Option α
  invert : α → Option α
  pow25523 : α → Option α
  toBytes : α → Option Bytes
  isNonzero : α → Option Bool
  isNegative : α → Option Bool
  eq : α → α → Option Bool

inductive Res (α : Type) where
  | ok (stack : List α) (outs : List String)
  | panic
  | bad

def un {α} (f : α → Option α) (st : List α) (outs : List String) : Res α :=
  match st with
  | a :: rest => match f a with
    | some r => .ok (r :: rest) outs
    | none => .panic
  | _ => .bad

def bin {α} (f : α → α → Option α) (st : List α) (outs : List String) : Res α :=
  match st with
  | b :: a :: rest => match f a b with
    | some r => .ok (r :: rest) outs
    | none => .panic
  | _ => .bad

def emit {α} (f : α → Option String) (st : List α) (outs : List String) : Res α :=
  match st with
  | a :: _ => match f a with
    | some r => .ok st (r :: outs)
    | none => .panic
  | _ => .bad

def instr {α} (A : Alg α) (st : List α) (outs : List String) (tok : String) : Res α :=
  match tok.toList with
  | 'b' :: rest =>
    match (Hex.decode (String.ofList rest)).bind A.fromBytes with
    | some v => .ok (v :: st) outs
    | none => .bad
  | 'c' :: rest =>
    match A.const (String.ofList rest) with
    | some v => .ok (v :: st) outs
    | none => .bad
  | ['+'] => bin A.add st outs
  | ['-'] => bin A.sub st outs
  | ['*'] => bin A.mul st outs
  | ['~'] => un A.neg st outs
  | ['s'] => un A.square st outs
  | 'r' :: rest =>
    match (String.ofList rest).toNat? with
    | some n => un (fun a => A.squareRep a n) st outs
    | none => .bad
  | ['q'] => un A.squareDouble st outs
  | ['i'] => un A.invert st outs
  | ['w'] => un A.pow25523 st outs
  | ['d'] => match st with
    | a :: rest => .ok (a :: a :: rest) outs
    | _ => .bad
  | ['x'] => match st with
    | b :: a :: rest => .ok (a :: b :: rest) outs
    | _ => .bad
  | ['p'] => match st with
    | _ :: rest => .ok rest outs
    | _ => .bad
  | 'o' :: rest =>
    match (String.ofList rest).toNat? with
    | some k => match st[k]? with
      | some v => .ok (v :: st) outs
      | none => .bad
    | none => .bad
  | ['t'] => emit (fun a => (A.toBytes a).map Hex.encode) st outs
  | ['z'] => emit (fun a => (A.isNonzero a).map boolStr) st outs
  | ['n'] => emit (fun a => (A.isNegative a).map boolStr) st outs
  | ['='] => match st with
    | b :: a :: _ => match A.eq a b with
      | some r => .ok st (boolStr r :: outs)
      | none => .panic
    | _ => .bad
  | _ => .bad

def runProg {α} (A : Alg α) : List String → List α → List String → Option String
  | [], _, outs => some (if outs.isEmpty then "-" else ",".intercalate outs.reverse)
  | tok :: toks, st, outs =>
    match instr A st outs tok with
    | .ok st' outs' => runProg A toks st' outs'
    | .panic => some "PANIC"
    | .bad => none

def prog {α} (A : Alg α) : Handler :=
  h1 fun s => runProg A (s.splitOn ";") [] []

/-! ### the two algebras -/

open Cx.Impl.Fe64 in
def implAlg : Alg Fe where
  fromBytes := fromBytes
  const := fun s =>
    if s == "0" then some Fe.ZERO else if s == "1" then some Fe.ONE else if s == "s" then some Fe.SQRTM1
    else if s == "d" then some Fe.D else if s == "2" then some Fe.D2 else none
  add := add
  sub := sub
  mul := mul
  neg := neg
  square := square
  squareRep := square_repeatdly
  squareDouble := square_and_double
  invert := invert
  pow25523 := pow25523
  toBytes := to_bytes
  isNonzero := is_nonzero
  isNegative := is_negative
  eq := eq

open Cx.Spec.Field25519 in
def specAlg : Alg Nat where
  fromBytes := fun b => if b.length = 32 then some (decode b) else none
  const := fun s =>
    if s == "0" then some 0 else if s == "1" then some 1 else if s == "s" then some sqrtM1
    else if s == "d" then some edwardsD else if s == "2" then some edwardsD2 else none
  add := fun a b => some (add a b)
  sub := fun a b => some (sub a b)
  mul := fun a b => some (mul a b)
  neg := fun a => some (neg a)
  square := fun a => some (sq a)
  squareRep := fun a n => some (pow a (2^n))
  squareDouble := fun a => some (mul 2 (sq a))
  invert := fun a => some (inv a)
  pow25523 := fun a => some (pow25523 a)
  toBytes := fun a => some (encode a)
  isNonzero := fun a => some (isNonzero a)
  isNegative := fun a => some (isNegative a)
  eq := fun a b => some (a % p == b % p)

/-! ### X25519 -/

def hexOr (o : Option Bytes) : String := match o with
  | some b => Hex.encode b
  | none => "PANIC"

def arg32 (s : String) : Option {b : Bytes // b.length = 32} :=
  match hexArg s with
  | some b => if h : b.length = 32 then some ⟨b, h⟩ else none
  | none => none

def dhImpl : Handler := h2 fun n u =>
  match arg32 n, arg32 u with
  | some ⟨n, hn⟩, some ⟨u, hu⟩ =>
    some s!"{hexOr (Impl.X25519.curve25519 n u hn hu)},{hexOr (Impl.X25519.dh n u hn hu)}"
  | _, _ => none

def dhSpec : Handler := h2 fun n u =>
  match arg32 n, arg32 u with
  | some ⟨n, _⟩, some ⟨u, _⟩ =>
    let r := Hex.encode (Spec.X25519.x25519 n u); some s!"{r},{r}"
  | _, _ => none

def baseImpl : Handler := h1 fun n =>
  match arg32 n with
  | some ⟨n, hn⟩ => some s!"{hexOr (Impl.X25519.curve25519_base n hn)},{hexOr (Impl.X25519.base n hn)}"
  | none => none

def baseSpec : Handler := h1 fun n =>
  match arg32 n with
  | some ⟨n, _⟩ => let r := Hex.encode (Spec.X25519.x25519Base n); some s!"{r},{r}"
  | none => none

def iterImplAux : Nat → {b : Bytes // b.length = 32} → {b : Bytes // b.length = 32} → Option Bytes
  | 0, k, _ => some k.1
  | c + 1, k, u =>
    match Impl.X25519.curve25519 k.1 u.1 k.2 u.2 with
    | some r => if h : r.length = 32 then iterImplAux c ⟨r, h⟩ k else none
    | none => none

def iterImpl : Handler := h3 fun c k u =>
  match natArg c, arg32 k, arg32 u with
  | some c, some k, some u => some (hexOr (iterImplAux c k u))
  | _, _, _ => none

def iterSpec : Handler := h3 fun c k u =>
  match natArg c, arg32 k, arg32 u with
  | some c, some k, some u => some (Hex.encode (Spec.X25519.iterate c k.1 u.1))
  | _, _, _ => none

def symImplOne (a b : {b : Bytes // b.length = 32}) : Option Bytes :=
  match Impl.X25519.curve25519_base b.1 b.2 with
  | some pb => if h : pb.length = 32 then Impl.X25519.curve25519 a.1 pb a.2 h else none
  | none => none

def symImpl : Handler := h2 fun a b =>
  match arg32 a, arg32 b with
  | some a, some b => some s!"{hexOr (symImplOne a b)},{hexOr (symImplOne b a)}"
  | _, _ => none

def symSpec : Handler := h2 fun a b =>
  match arg32 a, arg32 b with
  | some a, some b =>
    let r := Hex.encode (Spec.X25519.x25519 a.1 (Spec.X25519.x25519Base b.1)); some s!"{r},{r}"
  | _, _ => none

def tryFromImpl : Handler := h1 fun v =>
  match hexArg v with
  | some v =>
    let r := match Impl.X25519.tryFrom v with
      | some _ => "ok"
      | none => "err"
    some s!"{r},{r},{r}"
  | none => none

def tryFromSpec : Handler := h1 fun v =>
  match hexArg v with
  | some v => let r := if v.length = 32 then "ok" else "err"; some s!"{r},{r},{r}"
  | none => none

def ops : List OpEntry := [
  ⟨"fe.prog", prog implAlg, prog specAlg⟩,
  ⟨"x25519.dh", dhImpl, dhSpec⟩,
  ⟨"x25519.base", baseImpl, baseSpec⟩,
  ⟨"x25519.iter", iterImpl, iterSpec⟩,
  ⟨"x25519.sym", symImpl, symSpec⟩,
  ⟨"x25519.tryfrom", tryFromImpl, tryFromSpec⟩
]

end Cx.Driver.Fe64
