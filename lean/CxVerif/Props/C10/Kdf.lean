/-
  Props.C10 (unit mackdf) — HKDF, PBKDF2 and scrypt derive exactly the keys their RFCs define.

  PROVED (all inputs; generic in the digest / PRF object, then instantiated):
  * `hkdf_extract_generic`, `hkdf_expand_generic`: for ANY digest type `D` whose object model satisfies the
    digest-object contract (Proofs.MacObj.Contract for `digestFam D`), `hkdf_extract` = RFC 5869 §2.2 (and refuses a
    PRK buffer whose length is not HashLen), `hkdf_expand` = RFC 5869 §2.3 for EVERY PRK of at least HashLen octets and
    EVERY L ≤ 255·HashLen, and refuses EVERY PRK shorter than HashLen (`none` = `assert!(prk.len() >=
    digest.output_bytes())`; RFC 5869 §2.3 "PRK  a pseudorandom key of at least HashLen octets") and EVERY L > 255·HashLen
    (`none` = the `checked_add` panic of the one-byte counter) — equality of `Option`s, so "never truncates or wraps" is
    part of the statement (`hkdf_expand_limit`: the Spec has no value iff |PRK| < HashLen ∨ L > 255·HashLen).
    `HkdfCorrect M H B L ok` is the statement for one legacy wrapper; it is proved for the 16 macro-generated wrappers
    (here spelled out for SHA-256, SHA-1, SHA-512; `hkdf_legacy` gives the others from the same `…_ctx` facts used in
    Props/C08).
    WITNESS of the repaired defect (m) (`hkdf_expand` did not check the documented PRK length): `hkdf_expand_old_generic`
    (the function before the assert computed T(1) ‖ T(2) ‖ … for EVERY PRK length) and the concrete
    `hkdf_expand_old_accepts_short_prk` (the correspondence line `kdf.hkdf_expand sha256 0b 696e666f 33`).
  * `pbkdf2_generic`: for ANY MAC type `M` satisfying the object contract with PRF(P, ·), `pbkdf2` = RFC 8018 §5.2 for
    every salt, c, dkLen: `calculate_block` = U_1 ⊕ … ⊕ U_c by induction on c (Proofs.KdfPbkdf2.calculate_block_spec,
    the code's c = 1 / c = 2 / `for _ in 2..c` structure), partial last block, refusal exactly for c = 0 and
    dkLen > (2^32 − 1)·hLen.  `F_is_xor_of_U`: the Spec's iterated F is the textbook U_1 ⊕ … ⊕ U_c.
    `pbkdf2_hmac_legacy`: PBKDF2 with HMAC over a legacy wrapper (HMAC-SHA1/256/512 spelled out).
  * `scrypt_params_accepts_iff`: `ScryptParams::new(log_n, r, p)` accepts exactly the RFC 7914 constraints
    (N = 2^log_n > 1, N < 2^(128·r/8), p ≤ ((2^32−1)·32)/(128·r), r, p > 0) within `usize`
    (log_n < 64, 128·r·N < 2^64, 128·r·p < 2^64), for every (log_n, r, p).

  scrypt (`salsa20_8` = Salsa20/8 via the re-extracted row table, `scrypt_block_mix` = BlockMix, `scrypt_ro_mix` = ROMix with
  `integerify` mod N for N = 2^k, k <= 32, `scrypt` = MFcrypt as an equality of `Option`s incl. every refusal) is PROVED in
  Props/C10/Scrypt.lean.  Domain limit of the code recorded there: `integerify` reads a u32, so for 33 <= log_n (>= 3 TiB of
  scratch memory) the code is not RFC 7914; `scrypt_spec` therefore carries `log_n <= 32`.
  The PBKDF2 layer of scrypt IS covered by `pbkdf2_hmac_sha256` below (c = 1, any dkLen).
-/
import CxVerif.Proofs.KdfHkdf
import CxVerif.Proofs.KdfPbkdf2
import CxVerif.Proofs.KdfScrypt
import CxVerif.Proofs.MacInst
import CxVerif.Proofs.MacInstSha3
namespace Cx.Props.C10
open Cx Cx.Impl.Digest Cx.Impl.Hmac Cx.Impl.Kdf Cx.Proofs.MacObj Cx.Proofs.MacHmac Cx.Proofs.MacLegacy

/-! ## HKDF -/

/-- **RFC 5869 §2.2**, generic in the digest object (which may be in any state: used before or not) -/
theorem hkdf_extract_generic {δ : Type} (D : DigestModel δ) (H : Fn) (B L bits : Nat) (okD : Fn → Bytes → Prop)
    (RelD : δ → Fn → Bytes → Prop) (FinD : δ → Fn → Prop)
    (hD : Contract (digestFam D) L [L, bits, B] (fun _ => none) okD RelD FinD) (hLB : L ≤ B)
    (d : δ) (m0 : Bytes) (hd : RelD d H m0 ∨ FinD d H) (salt ikm : Bytes) (prkLen : Nat)
    (hk : salt.length ≤ B ∨ okD H salt)
    (h1 : okD H (ikey H B salt ++ ikm)) (h2 : okD H (okey H B salt ++ H (ikey H B salt ++ ikm))) :
    hkdf_extract D d salt ikm prkLen = if prkLen = L then some (Spec.Kdf.hkdfExtract H B salt ikm) else none :=
  Cx.Proofs.KdfHkdf.hkdf_extract_spec D H B RelD FinD hD hLB d m0 hd salt ikm prkLen hk ⟨h1, h2⟩

/-- **RFC 5869 §2.3**, generic in the digest object: the value for every PRK of at least HashLen octets and every
    L ≤ 255·HashLen, the refusal of every shorter PRK and every larger L
    (both sides are `Option`s: `Spec.Kdf.hkdfExpand … = none ↔ |PRK| < HashLen ∨ L > 255·HashLen`, `hkdf_expand_limit`) -/
theorem hkdf_expand_generic {δ : Type} (D : DigestModel δ) (H : Fn) (B L bits : Nat) (okD : Fn → Bytes → Prop)
    (RelD : δ → Fn → Bytes → Prop) (FinD : δ → Fn → Prop)
    (hD : Contract (digestFam D) L [L, bits, B] (fun _ => none) okD RelD FinD) (hLB : L ≤ B) (hL : 0 < L)
    (d : δ) (m0 : Bytes) (hd : RelD d H m0 ∨ FinD d H) (prk info : Bytes) (okmLen : Nat)
    (hk : prk.length ≤ B ∨ okD H prk)
    (hok : ∀ x : Bytes, x.length ≤ L + info.length + 1 →
      okD H (ikey H B prk ++ x) ∧ okD H (okey H B prk ++ H (ikey H B prk ++ x))) :
    hkdf_expand D d prk info okmLen = Spec.Kdf.hkdfExpand H B L prk info okmLen :=
  Cx.Proofs.KdfHkdf.hkdf_expand_spec D H B RelD FinD hD hLB hL d m0 hd prk info okmLen hk hok

/-- the refusal clause, spelled out: for a PRK shorter than HashLen and beyond 255·HashLen — and only there — the Spec
    (hence the model) has no value -/
theorem hkdf_expand_limit (H : Fn) (B L : Nat) (prk info : Bytes) (okmLen : Nat) :
    Spec.Kdf.hkdfExpand H B L prk info okmLen = none ↔ (prk.length < L ∨ 255 * L < okmLen) := by
  simp only [Spec.Kdf.hkdfExpand, Spec.Kdf.hkdfExpandPrf]
  split
  · simp [*]
  · split <;> simp <;> omega

/-- the value clause, spelled out: inside the documented domain OKM = the first L octets of T(1) ‖ T(2) ‖ … -/
theorem hkdf_expand_value (H : Fn) (B L : Nat) (prk info : Bytes) (okmLen : Nat) (hp : L ≤ prk.length)
    (hl : okmLen ≤ 255 * L) :
    Spec.Kdf.hkdfExpand H B L prk info okmLen = some (Spec.Kdf.hkdfOkm (Spec.Hmac.hmac H B) L prk info okmLen) := by
  simp only [Spec.Kdf.hkdfExpand, Spec.Kdf.hkdfExpandPrf, Nat.not_lt.mpr hp, hl, if_false, if_true]

/-- WITNESS of the repaired defect (m), generic: `hkdf_expand` as it was before `assert!(prk.len() >=
    digest.output_bytes())` returned T(1) ‖ T(2) ‖ … (cut to L ≤ 255·HashLen octets) for EVERY PRK — also for the PRKs
    shorter than HashLen that its documentation ("prk - The pseudorandom key of at least `digest.output_bytes()` octets")
    and RFC 5869 §2.3 exclude -/
theorem hkdf_expand_old_generic {δ : Type} (D : DigestModel δ) (H : Fn) (B L bits : Nat) (okD : Fn → Bytes → Prop)
    (RelD : δ → Fn → Bytes → Prop) (FinD : δ → Fn → Prop)
    (hD : Contract (digestFam D) L [L, bits, B] (fun _ => none) okD RelD FinD) (hLB : L ≤ B) (hL : 0 < L)
    (d : δ) (m0 : Bytes) (hd : RelD d H m0 ∨ FinD d H) (prk info : Bytes) (okmLen : Nat)
    (hk : prk.length ≤ B ∨ okD H prk)
    (hok : ∀ x : Bytes, x.length ≤ L + info.length + 1 →
      okD H (ikey H B prk ++ x) ∧ okD H (okey H B prk ++ H (ikey H B prk ++ x))) :
    hkdf_expand_old D d prk info okmLen
      = if okmLen ≤ 255 * L then some (Spec.Kdf.hkdfOkm (Spec.Hmac.hmac H B) L prk info okmLen) else none :=
  Cx.Proofs.KdfHkdf.hkdf_expand_old_spec D H B RelD FinD hD hLB hL d m0 hd prk info okmLen hk hok

/-- HKDF for one legacy wrapper `X` (calls `hkdf_extract(X::new(), …)` / `hkdf_expand(X::new(), …)`) -/
def HkdfCorrect {γ : Type} (M : CtxModel γ) (H : Fn) (B L : Nat) (ok : Bytes → Prop) : Prop :=
  (∀ (salt ikm : Bytes) (prkLen : Nat),
    (salt.length ≤ B ∨ ok salt) → ok (ikey H B salt ++ ikm) → ok (okey H B salt ++ H (ikey H B salt ++ ikm)) →
    hkdf_extract (legacyDigest M) (Legacy.new M) salt ikm prkLen
      = if prkLen = L then some (Spec.Kdf.hkdfExtract H B salt ikm) else none) ∧
  (∀ (prk info : Bytes) (okmLen : Nat),
    (prk.length ≤ B ∨ ok prk) →
    (∀ x : Bytes, x.length ≤ L + info.length + 1 →
      ok (ikey H B prk ++ x) ∧ ok (okey H B prk ++ H (ikey H B prk ++ x))) →
    hkdf_expand (legacyDigest M) (Legacy.new M) prk info okmLen = Spec.Kdf.hkdfExpand H B L prk info okmLen)

theorem hkdf_legacy {γ : Type} (M : CtxModel γ) (H : Fn) (R : γ → Bytes → Prop) (ok : Bytes → Prop)
    (hc : CtxContract M H R ok) (B L : Nat) (hB : M.BLOCK_BYTES = B) (hL : (M.OUTPUT_BITS + 7) / 8 = L) (hLB : L ≤ B)
    (hL0 : 0 < L) : HkdfCorrect M H B L ok := by
  have hD := legacy_contract M H R hc
  rw [show sizesOf M = [L, M.OUTPUT_BITS, B] by simp [sizesOf, outBytes, hB, hL], show outBytes M = L from hL] at hD
  constructor
  · intro salt ikm prkLen hk h1 h2
    exact hkdf_extract_generic (legacyDigest M) H B L M.OUTPUT_BITS (fun _ m => ok m) (RelL H R) (FinL H R) hD hLB
      (Legacy.new M) [] (Or.inl (legacy_new M H R hc)) salt ikm prkLen hk h1 h2
  · intro prk info okmLen hk hok
    exact hkdf_expand_generic (legacyDigest M) H B L M.OUTPUT_BITS (fun _ m => ok m) (RelL H R) (FinL H R) hD hLB hL0
      (Legacy.new M) [] (Or.inl (legacy_new M H R hc)) prk info okmLen hk hok

open Cx.Proofs.MacInst Cx.Proofs.MacInstSha3 Cx.Props.C02.Sha2

theorem hkdf_sha256 : HkdfCorrect sha256Ctx Spec.Sha2.sha256 64 32 ok256 :=
  hkdf_legacy _ _ _ _ sha256_ctx 64 32 (by decide) (by decide) (by decide) (by decide)
theorem hkdf_sha1 : HkdfCorrect sha1Ctx Spec.Sha1.sha1 64 20 Cx.Props.C02.Sha1Ripemd.ok :=
  hkdf_legacy _ _ _ _ sha1_ctx 64 20 (by decide) (by decide) (by decide) (by decide)
theorem hkdf_sha512 : HkdfCorrect sha512Ctx Spec.Sha2.sha512 128 64 ok512 :=
  hkdf_legacy _ _ _ _ sha512_ctx 128 64 (by decide) (by decide) (by decide) (by decide)
theorem hkdf_sha384 : HkdfCorrect sha384Ctx Spec.Sha2.sha384 128 48 ok512 :=
  hkdf_legacy _ _ _ _ sha384_ctx 128 48 (by decide) (by decide) (by decide) (by decide)
theorem hkdf_sha3_256 : HkdfCorrect sha3_256Ctx Spec.Keccak.sha3_256 136 32 (fun _ => True) :=
  hkdf_legacy _ _ _ _ sha3_256_ctx 136 32 (by decide) (by decide) (by decide) (by decide)
theorem hkdf_ripemd160 : HkdfCorrect ripemd160Ctx Spec.Ripemd160.ripemd160 64 20 Cx.Props.C02.Sha1Ripemd.ok :=
  hkdf_legacy _ _ _ _ ripemd160_ctx 64 20 (by decide) (by decide) (by decide) (by decide)

/-- WITNESS of the repaired defect (m), concrete (the line `kdf.hkdf_expand sha256 0b 696e666f 33` of the correspondence):
    for the ONE-byte PRK `0b` — the documentation demands at least 32 — the function before the repair returned 33 bytes
    of output keying material (T(1) ‖ T(2) cut to 33 octets, keyed with the short PRK); the repaired function and the Spec
    refuse it. -/
theorem hkdf_expand_old_accepts_short_prk :
    ([0x0b] : Bytes).length < 32 ∧
    hkdf_expand_old (legacyDigest sha256Ctx) (Legacy.new sha256Ctx) [0x0b] [0x69, 0x6e, 0x66, 0x6f] 33
      = some (Spec.Kdf.hkdfOkm (Spec.Hmac.hmac Spec.Sha2.sha256 64) 32 [0x0b] [0x69, 0x6e, 0x66, 0x6f] 33) ∧
    (Spec.Kdf.hkdfOkm (Spec.Hmac.hmac Spec.Sha2.sha256 64) 32 [0x0b] [0x69, 0x6e, 0x66, 0x6f] 33).length = 33 ∧
    hkdf_expand (legacyDigest sha256Ctx) (Legacy.new sha256Ctx) [0x0b] [0x69, 0x6e, 0x66, 0x6f] 33 = none ∧
    Spec.Kdf.hkdfExpand Spec.Sha2.sha256 64 32 [0x0b] [0x69, 0x6e, 0x66, 0x6f] 33 = none := by
  have hD := legacy_contract sha256Ctx Spec.Sha2.sha256 _ sha256_ctx
  rw [show sizesOf sha256Ctx = [32, sha256Ctx.OUTPUT_BITS, 64] by decide, show outBytes sha256Ctx = 32 by decide] at hD
  have hok : ∀ x : Bytes, x.length ≤ 32 + ([0x69, 0x6e, 0x66, 0x6f] : Bytes).length + 1 →
      ok256 (ikey Spec.Sha2.sha256 64 [0x0b] ++ x) ∧
        ok256 (okey Spec.Sha2.sha256 64 [0x0b] ++ Spec.Sha2.sha256 (ikey Spec.Sha2.sha256 64 [0x0b] ++ x)) := by
    intro x hx
    simp only [List.length_cons, List.length_nil] at hx
    constructor
    · show (ikey Spec.Sha2.sha256 64 [0x0b] ++ x).length < 2 ^ 61
      simp [ikey, Spec.Hmac.xorPad, Spec.Hmac.keyBlock, zeros]; omega
    · show (okey Spec.Sha2.sha256 64 [0x0b] ++ Spec.Sha2.sha256 _).length < 2 ^ 61
      rw [List.length_append, sha256_length]
      simp [okey, Spec.Hmac.xorPad, Spec.Hmac.keyBlock, zeros]
  have hold := hkdf_expand_old_generic (legacyDigest sha256Ctx) Spec.Sha2.sha256 64 32 sha256Ctx.OUTPUT_BITS
    (fun _ m => ok256 m) (RelL Spec.Sha2.sha256 _) (FinL Spec.Sha2.sha256 _) hD (by decide) (by decide)
    (Legacy.new sha256Ctx) [] (Or.inl (legacy_new sha256Ctx Spec.Sha2.sha256 _ sha256_ctx)) [0x0b] [0x69, 0x6e, 0x66, 0x6f] 33
    (Or.inl (by decide)) hok
  refine ⟨by decide, ?_, ?_, ?_, ?_⟩
  · rw [hold]; rfl
  · have hT : ∀ x ∈ Spec.Kdf.hkdfTs (Spec.Hmac.hmac Spec.Sha2.sha256 64 [0x0b]) [0x69, 0x6e, 0x66, 0x6f]
        (Spec.Kdf.ceilDiv 33 32) 1 [], x.length = 32 := by
      rw [show Spec.Kdf.ceilDiv 33 32 = 2 by decide]
      intro x hx
      simp only [Spec.Kdf.hkdfTs, List.mem_cons, List.not_mem_nil, or_false] at hx
      rcases hx with rfl | rfl <;> exact sha256_length _
    simp only [Spec.Kdf.hkdfOkm, List.length_take, List.length_flatten]
    rw [List.map_congr_left hT]
    rw [show Spec.Kdf.ceilDiv 33 32 = 2 by decide]
    simp [Spec.Kdf.hkdfTs]
  · rw [hkdf_sha256.2 [0x0b] [0x69, 0x6e, 0x66, 0x6f] 33 (Or.inl (by decide)) hok, hkdf_expand_limit]
    exact Or.inl (by decide)
  · rw [hkdf_expand_limit]; exact Or.inl (by decide)

/-! ## PBKDF2 -/

/-- **RFC 8018 §5.2**, generic in the PRF object `mac` (fresh, computing `prf P`): value and refusal for every
    salt, iteration count and output length.  Guards: the PRF's domain holds for `salt ‖ INT(i)` and for PRF outputs. -/
theorem pbkdf2_generic {μ : Type} (M : MacModel μ) (L : Nat) (sizes : List Nat) (fk : Bytes → Option Fn)
    (ok : Fn → Bytes → Prop) (Rel : μ → Fn → Bytes → Prop) (Fin : μ → Fn → Prop)
    (hM : Contract (macFam M) L sizes fk ok Rel Fin) (hL : 0 < L) (prf : Bytes → Bytes → Bytes) (P salt : Bytes)
    (hS : ∀ i, ok (prf P) (salt ++ natToBE 4 i)) (hU : ∀ u : Bytes, u.length = L → ok (prf P) u)
    (mac : μ) (hr : Rel mac (prf P) []) (c dkLen : Nat) :
    (pbkdf2 M mac salt c dkLen).map (·.2) = Spec.Kdf.pbkdf2 prf L P salt c dkLen :=
  Cx.Proofs.KdfPbkdf2.pbkdf2_spec M hM hL prf P salt hS hU mac hr c dkLen

/-- the refusal clause, spelled out -/
theorem pbkdf2_limit (prf : Bytes → Bytes → Bytes) (L : Nat) (P S : Bytes) (c dkLen : Nat) :
    Spec.Kdf.pbkdf2 prf L P S c dkLen = none ↔ (c = 0 ∨ (2 ^ 32 - 1) * L < dkLen) := by
  simp only [Spec.Kdf.pbkdf2]
  split
  · simp [*]
  · split <;> simp [*]

/-- the Spec's `F` (one pass over the chain) is the RFC's U_1 ⊕ U_2 ⊕ … ⊕ U_c -/
theorem F_is_xor_of_U (prf : Fn) (S : Bytes) (c i : Nat) : Spec.Kdf.F prf S c i = Spec.Kdf.Fxor prf S c i :=
  Cx.Proofs.KdfPbkdf2.F_eq_Fxor prf S c i

/-- PBKDF2 with PRF = HMAC over one legacy wrapper: `pbkdf2(&mut Hmac::new(X::new(), pwd), salt, c, out[dkLen])` -/
def Pbkdf2HmacCorrect {γ : Type} (M : CtxModel γ) (H : Fn) (B L : Nat) (ok : Bytes → Prop) : Prop :=
  ∀ (pwd salt : Bytes) (c dkLen : Nat),
    (pwd.length ≤ B ∨ ok pwd) →
    (∀ x : Bytes, (x.length = L ∨ ∃ i, x = salt ++ natToBE 4 i) →
      ok (ikey H B pwd ++ x) ∧ ok (okey H B pwd ++ H (ikey H B pwd ++ x))) →
    ∃ mac, Hmac.new (legacyDigest M) (Legacy.new M) pwd = some mac ∧
      (pbkdf2 (hmacMac (legacyDigest M)) mac salt c dkLen).map (·.2) = Spec.Kdf.pbkdf2Hmac H B L pwd salt c dkLen

theorem pbkdf2_hmac_legacy {γ : Type} (M : CtxModel γ) (H : Fn) (R : γ → Bytes → Prop) (ok : Bytes → Prop)
    (hc : CtxContract M H R ok) (B L : Nat) (hB : M.BLOCK_BYTES = B) (hL : (M.OUTPUT_BITS + 7) / 8 = L) (hLB : L ≤ B)
    (hL0 : 0 < L) : Pbkdf2HmacCorrect M H B L ok := by
  intro pwd salt c dkLen hk hok
  have hD := legacy_contract M H R hc
  rw [show sizesOf M = [L, M.OUTPUT_BITS, B] by simp [sizesOf, outBytes, hB, hL], show outBytes M = L from hL] at hD
  obtain ⟨mac, e, hr⟩ := hmac_new (legacyDigest M) H B pwd (RelL H R) (FinL H R) hD hLB (Legacy.new M)
    (legacy_new M H R hc) hk
  refine ⟨mac, e, ?_⟩
  exact pbkdf2_generic (hmacMac (legacyDigest M)) L [L] (fun _ => none) _ _ _
    (hmac_contract (legacyDigest M) H B pwd (RelL H R) (FinL H R) hD) hL0 (Spec.Hmac.hmac H B) pwd salt
    (fun i => hok _ (Or.inr ⟨i, rfl⟩)) (fun u hu => hok u (Or.inl hu)) mac hr c dkLen

open Cx.Proofs.MacInst in
theorem pbkdf2_hmac_sha1 : Pbkdf2HmacCorrect sha1Ctx Spec.Sha1.sha1 64 20 Cx.Props.C02.Sha1Ripemd.ok :=
  pbkdf2_hmac_legacy _ _ _ _ sha1_ctx 64 20 (by decide) (by decide) (by decide) (by decide)
theorem pbkdf2_hmac_sha256 : Pbkdf2HmacCorrect sha256Ctx Spec.Sha2.sha256 64 32 ok256 :=
  pbkdf2_hmac_legacy _ _ _ _ sha256_ctx 64 32 (by decide) (by decide) (by decide) (by decide)
theorem pbkdf2_hmac_sha512 : Pbkdf2HmacCorrect sha512Ctx Spec.Sha2.sha512 128 64 ok512 :=
  pbkdf2_hmac_legacy _ _ _ _ sha512_ctx 128 64 (by decide) (by decide) (by decide) (by decide)

/-- the guards of `pbkdf2_hmac_sha256` are met by a concrete non-trivial call (13-byte password, 8-byte salt):
    every hashed string is shorter than 2^61 bytes -/
example (x : Bytes) (hx : x.length = 32 ∨ ∃ i, x = [1, 2, 3, 4, 5, 6, 7, 8] ++ natToBE 4 i) :
    ok256 (ikey Spec.Sha2.sha256 64 (List.replicate 13 7) ++ x) := by
  show (ikey Spec.Sha2.sha256 64 (List.replicate 13 7) ++ x).length < 2 ^ 61
  have : x.length ≤ 32 := by
    rcases hx with h | ⟨i, rfl⟩
    · omega
    · simp [Cx.Proofs.MacInst.natToBE_length]
  simp [ikey, Spec.Hmac.xorPad, Spec.Hmac.keyBlock, zeros]
  omega

/-! ## scrypt parameters -/

/-- **`ScryptParams::new` accepts exactly the RFC 7914 constraints, within `usize`**: for every (log_n, r, p) the
    constructor returns a value iff N = 2^log_n, r, p satisfy RFC 7914 §2/§6 (checked with dkLen = 1, dkLen is checked
    by `scrypt` itself) and the buffers are addressable (log_n < 64, 128·r·N < 2^64, 128·r·p < 2^64). -/
theorem scrypt_params_accepts_iff (log_n r p : Nat) :
    (ScryptParams.new log_n r p).isSome ↔
      (Spec.Kdf.scryptValid (2 ^ log_n) r p 1 = true ∧
        log_n < 64 ∧ 128 * r * 2 ^ log_n < 2 ^ 64 ∧ 128 * r * p < 2 ^ 64) := by
  rw [Cx.Proofs.KdfScrypt.new_iff, Cx.Proofs.KdfScrypt.valid_iff]
  have e1 : 128 * r * 2 ^ log_n = r * 128 * 2 ^ log_n := by rw [Nat.mul_comm 128 r]
  have e2 : 128 * r * p = r * 128 * p := by rw [Nat.mul_comm 128 r]
  rw [e1, e2]
  have key : 0 < p → r ≤ r * p := fun hp => Nat.le_mul_of_pos_right r hp
  generalize r * 128 * 2 ^ log_n = a
  generalize r * 128 * p = b
  generalize r * p = c at key ⊢
  constructor
  · rintro ⟨h1, h2, h3, h4, h5, h6, h7, h8, h9⟩
    exact ⟨⟨by omega, h1, by omega, h2, h9, by decide, by decide⟩, h4, h6, h7⟩
  · rintro ⟨⟨h1, h2, h3, h4, h5, _, _⟩, h6, h7, h8⟩
    have : r * 128 < 2 ^ 64 := by
      have := key h4
      omega
    exact ⟨h2, h4, by omega, h6, this, h7, h8, by omega, h5⟩

/-- accepted and refused parameter triples (tests of the theorem's two directions) -/
example : (ScryptParams.new 10 8 16).isSome = true ∧ (ScryptParams.new 16 1 1).isSome = false ∧
    (ScryptParams.new 1 (2 ^ 15) (2 ^ 15)).isSome = false ∧ (ScryptParams.new 0 1 1).isSome = false := by decide

end Cx.Props.C10
