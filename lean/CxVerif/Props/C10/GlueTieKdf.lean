/-
  Props.C10.GlueTieKdf — the translator tie for the STATEFUL GLUE of the key-derivation functions.

  `Extracted/GlueKdf.lean` is regenerated from /repo/src/hkdf.rs, /repo/src/pbkdf2.rs and /repo/src/scrypt.rs on every run by
  tools/ktx_glue_kdf.py (specs: tools/kernels/glue_kdf.py): a statement-by-statement translation of
      hkdf_extract, hkdf_expand (the `chunks_mut(os)` loop, the one-byte counter with `checked_add`, `if n != 1`, the copy of a
      partial last block),
      calculate_block (first iteration, `if c > 1`, `for _ in 2..c`, the xor zips), pbkdf2 (`assert!(c > 0)`, the scratch vector
      allocated once, the `chunks_mut(os)` loop with the u32 block index, full / partial blocks).
  The theorems below, re-checked by the kernel on every build, say that the hand models of Impl/Kdf.lean — about which C10 is
  proved (Props/C10/Kdf.lean, Props/C10/Scrypt.lean) — compute exactly what the source says NOW, for ALL inputs of every length
  and every digest / MAC object.  A semantic change of the glue (a counter check, a loop bound, a buffer that is not
  re-initialised, a copy length, an index) changes the generated definition and breaks one of these proofs even when no sampled
  input reaches it.

  Abstractions (each explicit in the statement):
    * out-parameters: the models take the LENGTH of `prk` / `okm` / `block` / `output` and answer the final contents; the
      source-level functions take the buffer itself and return it — the theorems say that the result depends on the buffer's
      length only (every byte is overwritten, or the function panics);
    * `for chunk in buf.chunks_mut(os)`: the source-level loop runs over `chunks os buf` and rebuilds the buffer from the
      chunks as the body leaves them; the models run over the chunk LENGTHS `chunkLens os buf.len()` (`chunks_lengths`);
    * `Hmac<D>` / `M: Mac` are used through the model's `Hmac.*` functions / the dictionary `MacModel μ`, which
      Props/C05/GlueTieMac.lean ties to src/hmac.rs.
-/
import CxVerif.Proofs.GlueKdf
namespace Cx.Props.C10.GlueTieKdf
open Cx Cx.Impl.Digest Cx.Impl.Hmac Cx.Impl.Kdf Cx.Extracted.GlueKdf Cx.Proofs.GlueKdf

/-! ## src/hkdf.rs -/

/-- `hkdf_extract`: `assert!(prk.len() == digest.output_bytes())`, reset, `Hmac::new(digest, salt)`, input, raw_result, reset -/
theorem hkdf_extract_src_eq_model {δ : Type} (D : DigestModel δ) (digest : δ) (salt ikm prk : Bytes) :
    hkdf_extract_src D digest salt ikm prk = hkdf_extract D digest salt ikm prk.length := rfl

/-- the body of `for chunk in okm.chunks_mut(os)`: `n.checked_add(1)`, `if n != 1 { mac.input(&t) }`, info, the counter byte,
    `raw_result(&mut t)`, reset, `chunk[0..chunk_len].copy_from_slice(&t[..chunk_len])` — for every chunk list and loop state -/
theorem hkdf_expand_loop_src_eq_model {δ : Type} (D : DigestModel δ) (info : Bytes) (cs : List Bytes) (mac : Hmac δ) (t : Bytes)
    (n : Nat) (acc : Bytes) :
    (hkdf_expand_loop1_src D info cs mac t n acc).map (·.2.2.2) = hkdf_expand_loop D info (cs.map List.length) mac t n acc :=
  hkdf_expand_loop1_eq D info cs mac t n acc

/-- `hkdf_expand` for every `okm` buffer (any length, any contents) -/
theorem hkdf_expand_src_eq_model {δ : Type} (D : DigestModel δ) (digest : δ) (prk info okm : Bytes) :
    hkdf_expand_src D digest prk info okm = hkdf_expand D digest prk info okm.length := hkdf_expand_src_eq D digest prk info okm

/-! ## src/pbkdf2.rs -/

/-- `for _ in 2..c { mac.input(scratch); mac.raw_result(scratch); mac.reset(); block ^= scratch }` for every count -/
theorem calculate_block_loop_src_eq_model {μ : Type} (M : MacModel μ) (k : Nat) (mac : μ) (scratch block : Bytes) :
    calculate_block_loop1_src M k mac scratch block = calculate_block_loop M k mac scratch block :=
  calculate_block_loop1_eq M k mac scratch block

/-- `calculate_block`: U_1 into `block`, `if c > 1` the second iteration through `scratch`, then `c - 2` more -/
theorem calculate_block_src_eq_model {μ : Type} (M : MacModel μ) (mac : μ) (salt : Bytes) (c idx : Nat) (scratch block : Bytes) :
    calculate_block_src M mac salt c idx scratch block = calculate_block M mac salt c idx scratch block.length :=
  calculate_block_src_eq M mac salt c idx scratch block

/-- the body of `for chunk in output.chunks_mut(os)`: `idx.checked_add(1)`, full block in place / partial block through `tmp` -/
theorem pbkdf2_loop_src_eq_model {μ : Type} (M : MacModel μ) (salt : Bytes) (c os : Nat) (cs : List Bytes) (mac : μ)
    (scratch : Bytes) (idx : Nat) (acc : Bytes) :
    (pbkdf2_loop1_src M salt c os cs mac scratch idx acc).map (fun r => (r.1, r.2.2.2))
      = pbkdf2_loop M salt c os (cs.map List.length) mac scratch idx acc :=
  pbkdf2_loop1_eq M salt c os cs mac scratch idx acc

/-- `pbkdf2` for every `output` buffer (any length, any contents), every `c` (incl. the refusal of `c = 0`) -/
theorem pbkdf2_src_eq_model {μ : Type} (M : MacModel μ) (mac : μ) (salt : Bytes) (c : Nat) (output : Bytes) :
    pbkdf2_src M mac salt c output = pbkdf2 M mac salt c output.length := pbkdf2_src_eq M mac salt c output

/-- the chunk lists agree: `buf.chunks_mut(os)` has the lengths `chunkLens os buf.len()` -/
theorem chunks_lengths_eq_model (os : Nat) (h : 0 < os) (buf : Bytes) : (chunks os buf).map List.length = chunkLens os buf.length :=
  chunks_lengths os h buf

end Cx.Props.C10.GlueTieKdf
