/-
  Props.C10.GlueTieKdf — the translator tie for the STATEFUL GLUE of the key-derivation functions.

  `Extracted/GlueKdf.lean` is regenerated from /repo/src/hkdf.rs, /repo/src/pbkdf2.rs and /repo/src/scrypt.rs on every run by
  tools/ktx_glue_kdf.py (specs: tools/kernels/glue_kdf.py): a statement-by-statement translation of
      hkdf_extract, hkdf_expand (`assert!(prk.len() >= digest.output_bytes())`, the `chunks_mut(os)` loop, the one-byte counter
      with `checked_add`, `if n != 1`, the copy of a partial last block),
      calculate_block (first iteration, `if c > 1`, `for _ in 2..c`, the xor zips), pbkdf2 (`assert!(c > 0)`, the scratch vector
      allocated once, the `chunks_mut(os)` loop with the u32 block index, full / partial blocks),
      xor (three-way zip), scrypt_block_mix (`left_over`, the `chunks(64).enumerate()` loop, the even/odd output position),
      integerify, scrypt_ro_mix (fill loop over `v.chunks_mut(len)`, walk loop with the `v[j*len..(j+1)*len]` slice),
      ScryptParams::new (every assert and checked_mul), scrypt (the buffers, the per-chunk loop, the two PBKDF2 calls);
      `salsa20_8` is used through the model's function over the re-extracted row table (Props/C10/Scrypt.lean).
  The theorems below, re-checked by the kernel on every build, say that the hand models of Impl/Kdf.lean — about which C10 is
  proved (Props/C10/Kdf.lean, Props/C10/Scrypt.lean) — compute exactly what the source says NOW, for ALL inputs of every length
  and every digest / MAC object.  A semantic change of the glue (a counter check, a loop bound, a buffer that is not
  re-initialised, a copy length, an index) changes the generated definition and breaks one of these proofs even when no sampled
  input reaches it.

  Abstractions (each explicit in the statement):
    * out-parameters: the models take the LENGTH of `prk` / `okm` / `block` / `output` and answer the final contents; the
      source-level functions take the buffer itself and return it — the theorems say that the result depends on the buffer's
      length only (every byte is overwritten, or the function panics);
    * `for chunk in buf.chunks_mut(os)`: the source-level loop runs over `chunks os buf` and rebuilds the buffer from the
      chunks as the body leaves them; the models run over the chunk LENGTHS `chunkLens os buf.len()` (`chunks_lengths`);
    * `scrypt_ro_mix`: the model keeps the scratch vector `v` as the list of its `len`-byte chunks, the source as one byte
      vector: `v = vs.flatten` (`scrypt_ro_mix_src_eq_model` for EVERY `v` via `chunks`; the chunk structure is preserved);
    * `scrypt`: `params.log_n < 64` (the shift `1 << log_n` of an overflow-checked build; established by `ScryptParams::new`:
      `new_establishes_log_n`, the fields are private);
    * usize `+`/`*` of lengths and indices are the mathematical operations (as in the hand model); `-` is checked;
    * `Hmac<D>` / `M: Mac` are used through the model's `Hmac.*` functions / the dictionary `MacModel μ`, which
      Props/C05/GlueTieMac.lean ties to src/hmac.rs.
-/
import CxVerif.Proofs.GlueKdf
import CxVerif.Proofs.GlueKdfScrypt
namespace Cx.Props.C10.GlueTieKdf
open Cx Cx.Impl.Digest Cx.Impl.Hmac Cx.Impl.Kdf Cx.Extracted.GlueKdf Cx.Proofs.GlueKdf Cx.Proofs.GlueKdfScrypt

/-! ## src/hkdf.rs -/

/-- `hkdf_extract`: `assert!(prk.len() == digest.output_bytes())`, reset, `Hmac::new(digest, salt)`, input, raw_result, reset -/
theorem hkdf_extract_src_eq_model {δ : Type} (D : DigestModel δ) (digest : δ) (salt ikm prk : Bytes) :
    hkdf_extract_src D digest salt ikm prk = hkdf_extract D digest salt ikm prk.length := rfl

/-- the body of `for chunk in okm.chunks_mut(os)`: `n.checked_add(1)`, `if n != 1 { mac.input(&t) }`, info, the counter byte,
    `raw_result(&mut t)`, reset, `chunk[0..chunk_len].copy_from_slice(&t[..chunk_len])` — for every chunk list and loop state -/
theorem hkdf_expand_loop_src_eq_model {δ : Type} (D : DigestModel δ) (info : Bytes) (cs : List Bytes) (mac : Hmac δ) (t : Bytes)
    (n : Nat) (acc : Bytes) :
    (hkdf_expand_loop1_src D info cs mac t n acc).map (·.2.2.2) = hkdf_expand_loop D info (cs.map List.length) mac t n acc :=
  hkdf_expand_loop1_eq D info cs mac t n acc

/-- `hkdf_expand` for every PRK (incl. the refusal `assert!(prk.len() >= digest.output_bytes())` of a short one, read after
    `digest.reset()`) and every `okm` buffer (any length, any contents) -/
theorem hkdf_expand_src_eq_model {δ : Type} (D : DigestModel δ) (digest : δ) (prk info okm : Bytes) :
    hkdf_expand_src D digest prk info okm = hkdf_expand D digest prk info okm.length := hkdf_expand_src_eq D digest prk info okm

/-! ## src/pbkdf2.rs -/

/-- `for _ in 2..c { mac.input(scratch); mac.raw_result(scratch); mac.reset(); block ^= scratch }` for every count -/
theorem calculate_block_loop_src_eq_model {μ : Type} (M : MacModel μ) (k : Nat) (mac : μ) (scratch block : Bytes) :
    calculate_block_loop1_src M k mac scratch block = calculate_block_loop M k mac scratch block :=
  calculate_block_loop1_eq M k mac scratch block

/-- `calculate_block`: U_1 into `block`, `if c > 1` the second iteration through `scratch`, then `c - 2` more -/
theorem calculate_block_src_eq_model {μ : Type} (M : MacModel μ) (mac : μ) (salt : Bytes) (c idx : Nat) (scratch block : Bytes) :
    calculate_block_src M mac salt c idx scratch block = calculate_block M mac salt c idx scratch block.length :=
  calculate_block_src_eq M mac salt c idx scratch block

/-- the body of `for chunk in output.chunks_mut(os)`: `idx.checked_add(1)`, full block in place / partial block through `tmp` -/
theorem pbkdf2_loop_src_eq_model {μ : Type} (M : MacModel μ) (salt : Bytes) (c os : Nat) (cs : List Bytes) (mac : μ)
    (scratch : Bytes) (idx : Nat) (acc : Bytes) :
    (pbkdf2_loop1_src M salt c os cs mac scratch idx acc).map (fun r => (r.1, r.2.2.2))
      = pbkdf2_loop M salt c os (cs.map List.length) mac scratch idx acc :=
  pbkdf2_loop1_eq M salt c os cs mac scratch idx acc

/-- `pbkdf2` for every `output` buffer (any length, any contents), every `c` (incl. the refusal of `c = 0`) -/
theorem pbkdf2_src_eq_model {μ : Type} (M : MacModel μ) (mac : μ) (salt : Bytes) (c : Nat) (output : Bytes) :
    pbkdf2_src M mac salt c output = pbkdf2 M mac salt c output.length := pbkdf2_src_eq M mac salt c output

/-- the chunk lists agree: `buf.chunks_mut(os)` has the lengths `chunkLens os buf.len()` -/
theorem chunks_lengths_eq_model (os : Nat) (h : 0 < os) (buf : Bytes) : (chunks os buf).map List.length = chunkLens os buf.length :=
  chunks_lengths os h buf

/-! ## src/scrypt.rs -/

/-- `xor(x, y, output)`: the three-way zip stops at the shortest; the rest of `output` is untouched -/
theorem xor_src_eq_model (x y output : Bytes) : xor_src x y output = Impl.Kdf.xor x y output := xor_src_eq output x y

/-- the body of `for (i, chunk) in input.chunks(64).enumerate()`: xor, `salsa20_8`, the output position
    `(i / 2) * 64 [+ input.len() / 2]`, the bounds-checked copy — for every chunk list and loop state -/
theorem scrypt_block_mix_loop_src_eq_model (input : Bytes) (cs : List Bytes) (i : Nat) (output x t : Bytes) :
    (scrypt_block_mix_loop1_src input cs i output x t).map (·.2.1) = scrypt_block_mix_loop input.length cs i x t output :=
  block_mix_loop1_eq input cs i output x t

/-- `scrypt_block_mix` for EVERY input and output buffer (incl. the refusals: fewer than 64 bytes, not a multiple of 64, an
    output that is too short) -/
theorem scrypt_block_mix_src_eq_model (input output : Bytes) : scrypt_block_mix_src input output = scrypt_block_mix input output :=
  scrypt_block_mix_src_eq input output

/-- `integerify`: `n - 1` (checked), the 4 bytes at `len - 64`, the mask -/
theorem integerify_src_eq_model (x : Bytes) (n : Nat) : integerify_src x n = integerify x n := integerify_src_eq x n

/-- the fill loop `for chunk in v.chunks_mut(len) { chunk[0..b.len()].copy_from_slice(b); scrypt_block_mix(chunk, b) }` -/
theorem scrypt_ro_mix_fill_src_eq_model (cs : List Bytes) (b acc : Bytes) :
    scrypt_ro_mix_loop1_src cs b acc = (ro_mix_fill cs b []).map (fun r => (r.1, acc ++ r.2.reverse.flatten)) :=
  ro_mix_loop1_eq cs b acc

/-- the walk loop `for _ in 0..n { j = integerify(b, n); xor(b, &v[j*len..(j+1)*len], t); scrypt_block_mix(t, b) }` on a
    scratch vector made of `len`-byte chunks -/
theorem scrypt_ro_mix_walk_src_eq_model (len : Nat) (hl : 0 < len) (vs : List Bytes) (hvs : ∀ c ∈ vs, c.length = len) (n cnt : Nat)
    (b t : Bytes) : scrypt_ro_mix_loop2_src vs.flatten n len cnt b t = ro_mix_walk vs n cnt b t :=
  ro_mix_loop2_eq len hl vs hvs n cnt b t

/-- `scrypt_ro_mix` for EVERY `b ≠ []`, `v`, `t`, `n`: the source on the byte vector `v` = the model on its chunks -/
theorem scrypt_ro_mix_src_eq_model (b v t : Bytes) (n : Nat) (hb : b.length ≠ 0) :
    scrypt_ro_mix_src b v t n = (scrypt_ro_mix b (chunks b.length v) t n).map (fun r => (r.1, r.2.1.flatten, r.2.2)) :=
  scrypt_ro_mix_src_eq_chunks b v t n hb

/-- `b = []`: `v.chunks_mut(0)` panics -/
theorem scrypt_ro_mix_src_empty_refuses (v t : Bytes) (n : Nat) : scrypt_ro_mix_src [] v t n = none := scrypt_ro_mix_src_empty v t n

/-- the invariant form, and its preservation: `v` given as the list of its `b.len()`-byte chunks -/
theorem scrypt_ro_mix_src_eq_model_chunks (b : Bytes) (vs : List Bytes) (t : Bytes) (n : Nat) (hb : b.length ≠ 0)
    (hvs : ∀ c ∈ vs, c.length = b.length) :
    scrypt_ro_mix_src b vs.flatten t n = (scrypt_ro_mix b vs t n).map (fun r => (r.1, r.2.1.flatten, r.2.2)) :=
  scrypt_ro_mix_src_eq b vs t n hb hvs

theorem scrypt_ro_mix_preserves_chunks (b : Bytes) (vs : List Bytes) (t : Bytes) (n : Nat) (b' : Bytes) (vs' : List Bytes) (t' : Bytes)
    (hvs : ∀ c ∈ vs, c.length = b.length) (h : scrypt_ro_mix b vs t n = some (b', vs', t')) : ∀ c ∈ vs', c.length = b.length :=
  scrypt_ro_mix_facts b vs t n b' vs' t' hvs h

example : (∀ c ∈ [[1, 2], [3, 4]], c.length = ([7, 8] : Bytes).length) ∧ ([7, 8] : Bytes).length ≠ 0 := by decide

/-- `ScryptParams::new`: every assert, the three `checked_mul`, the struct — for ALL `log_n`, `r`, `p` -/
theorem ScryptParams_new_src_eq_model (log_n r p : Nat) : ScryptParams.new_src log_n r p = ScryptParams.new log_n r p :=
  ScryptParams_new_src_eq log_n r p

/-- the invariant `scrypt` needs is established by the only constructor -/
theorem new_establishes_log_n (log_n r p : Nat) (x : ScryptParams) (h : ScryptParams.new log_n r p = some x) : x.log_n < 64 :=
  new_log_n log_n r p x h

/-- the body of `for chunk in &mut b.chunks_mut(r128) { scrypt_ro_mix(chunk, &mut v, &mut t, n) }` -/
theorem scrypt_loop_src_eq_model (n L : Nat) (hL : L ≠ 0) (cs vs : List Bytes) (t acc : Bytes) (hcs : ∀ c ∈ cs, c.length = L)
    (hvs : ∀ x ∈ vs, x.length = L) : (scrypt_loop1_src n cs vs.flatten t acc).map (·.2.2) = scrypt_chunks n cs vs t acc :=
  scrypt_loop1_eq n L hL cs vs t acc hcs hvs

/-- `scrypt` for EVERY password, salt, output buffer (any length, incl. the refusals) and every parameter set with
    `log_n < 64` (every value `ScryptParams::new` can return) -/
theorem scrypt_src_eq_model (password salt : Bytes) (params : ScryptParams) (output : Bytes) (hlog : params.log_n < 64) :
    scrypt_src password salt params output = scrypt password salt params output.length :=
  scrypt_src_eq password salt params output hlog

example : ({ log_n := 4, r := 8, p := 1 } : ScryptParams).log_n < 64 := by decide

end Cx.Props.C10.GlueTieKdf
