/-
  Props.C10 (unit mackdf), scrypt part — the functions of src/scrypt.rs (Impl.Kdf) against RFC 7914 (Spec.Kdf).

  PROVED (all inputs in the stated domain):
  * `scrypt_salsa20_8`: `salsa20_8` (the 32 extracted `run_round!` rows × rounds/2, feed-forward) = Salsa20/8 Core
    (RFC 7914 §3 = Bernstein's x + doubleround^4(x)) for EVERY 64-byte input; any other length is refused
    (`read_u32v_le` assertion).  Proof: the extracted row table equals the table generated from the
    columnround/rowround index pattern (closed `decide`), and interpreting a generated table = folding quarterrounds
    (Proofs.KdfScryptSalsa, by induction over the table; no evaluation on symbolic words).
  * `scrypt_block_mix_spec`: `scrypt_block_mix(input, output)` = scryptBlockMix (RFC 7914 §4) for EVERY r > 0 and every
    input/output of 128·r bytes (the output interleaving: even blocks to the first half, odd blocks to the second).
  * `scrypt_integerify_spec`: the code's `integerify` (4 bytes little-endian, `& (n − 1)`) = Integerify(X) mod N for
    N = 2^k with k ≤ 32.  `scrypt_integerify_above_32` (a test, by evaluation): for N = 2^33 it is not.
  * `scrypt_ro_mix_spec`: `scrypt_ro_mix(b, v, t, N)` = scryptROMix (RFC 7914 §5) for N = 2^k, k ≤ 32, every r > 0,
    every 128·r-byte `b`, every scratch `v` of N chunks of 128·r bytes and `t` of 128·r bytes (contents arbitrary).
  * `scrypt_spec`: `ScryptParams::new(log_n, r, p)` followed by `scrypt(P, S, params, output[dkLen])` = scrypt of
    RFC 7914 §6 with N = 2^log_n — equality of `Option`s (the derived key for valid (N, r, p, dkLen), the panic for
    every invalid one) for EVERY P, S, r, p, dkLen and every log_n ≤ 32 with 128·r·N < 2^64 (the scratch vector is
    addressable) and P, S inside SHA-256's domain (< 2^61 bytes).

  DOMAIN REMARK (not a theorem gap, a limit of the code): for 33 ≤ log_n ≤ 56 `ScryptParams::new` still accepts
  (r ≥ 3, 128·r·N < 2^64) but `integerify` reads only 32 bits, so the code would NOT compute RFC 7914 there
  (`scrypt_integerify_above_32`); such a call needs a scratch vector of ≥ 3 TiB, so no correspondence case exists.
-/
import CxVerif.Proofs.KdfScryptSalsa
import CxVerif.Proofs.KdfScryptMix
import CxVerif.Proofs.KdfScryptMF
namespace Cx.Props.C10
open Cx Cx.Impl.Kdf

/-! ## Salsa20/8 Core -/

/-- **RFC 7914 §3**: for every 64-byte string the code's `salsa20_8` is the Salsa20/8 Core; every other input length
    panics (`none`). -/
theorem scrypt_salsa20_8 (input : Bytes) :
    salsa20_8 input = if input.length = 64 then some (Spec.Kdf.salsa20_8 input) else none := by
  split
  · exact Cx.Proofs.KdfScryptSalsa.salsa20_8_eq input ‹_›
  · exact Cx.Proofs.KdfScryptSalsa.salsa20_8_refuses input ‹_›

/-- the row table of `run_round!` is the quarterround pattern of columnround followed by rowround -/
theorem scrypt_salsa_table :
    Extracted.MacKdf.SCRYPT_SALSA
      = (Cx.Proofs.KdfScryptSalsa.colIdx ++ Cx.Proofs.KdfScryptSalsa.rowIdx).flatMap Cx.Proofs.KdfScryptSalsa.qrows :=
  Cx.Proofs.KdfScryptSalsa.table_eq

/-- one `run_round!( … )` invocation is one doubleround, on every state -/
theorem scrypt_run_round (x : Vector UInt32 16) : run_round x = some (Spec.Salsa.doubleRound x) :=
  Cx.Proofs.KdfScryptSalsa.run_round_eq x

/-! ## scryptBlockMix -/

/-- **RFC 7914 §4**: for every block-size parameter r > 0, every input of 2r 64-byte blocks and every output buffer
    of the same length, `scrypt_block_mix` leaves B' = (Y_0, Y_2, …, Y_{2r−2}, Y_1, Y_3, …, Y_{2r−1}) in `output`. -/
theorem scrypt_block_mix_spec (r : Nat) (input output : Bytes) (hr : 0 < r) (hi : input.length = 128 * r)
    (ho : output.length = 128 * r) : scrypt_block_mix input output = some (Spec.Kdf.blockMix r input) :=
  Cx.Proofs.KdfScryptMix.scrypt_block_mix_eq r hr input output hi ho

example : ∃ (r : Nat) (input output : Bytes), 0 < r ∧ input.length = 128 * r ∧ output.length = 128 * r :=
  ⟨8, List.replicate 1024 0x5a, zeros 1024, by decide, by rw [List.length_replicate], by rw [zeros, List.length_replicate]⟩

/-- an input that is not a positive multiple of 64 bytes panics (slice / `copy_from_slice` length checks) -/
theorem scrypt_block_mix_refuses (input output : Bytes) (h : input.length < 64 ∨ input.length % 64 ≠ 0) :
    scrypt_block_mix input output = none :=
  Cx.Proofs.KdfScryptMix.scrypt_block_mix_refuses input output h

/-! ## Integerify and scryptROMix -/

/-- **Integerify mod N** (RFC 7914 §5 step 3): the code's `integerify(x, n)` — the first four bytes of the last 64-byte
    block, little-endian, `& (n − 1)` — is the little-endian integer of the WHOLE last block mod N, whenever
    N = 2^k with k ≤ 32. -/
theorem scrypt_integerify_spec (r k : Nat) (x : Bytes) (hr : 0 < r) (hx : x.length = 128 * r) (hk : k ≤ 32) :
    integerify x (2 ^ k) = some (Spec.Kdf.integerify r x % 2 ^ k) :=
  Cx.Proofs.KdfScryptMix.integerify_eq r hr x hx (2 ^ k) k rfl hk

/-- TEST (evaluation of one input): the bound k ≤ 32 is sharp — for N = 2^33 and a last block of value 2^32 the code
    answers 0 where RFC 7914 says 2^32 (the code never addresses V[j] for j ≥ 2^32). -/
example : integerify (zeros 64 ++ ([0, 0, 0, 0, 1] ++ zeros 59)) (2 ^ 33) = some 0 ∧
    Spec.Kdf.integerify 1 (zeros 64 ++ ([0, 0, 0, 0, 1] ++ zeros 59)) % 2 ^ 33 = 2 ^ 32 :=
  Cx.Proofs.KdfScryptMix.integerify_differs_above_32

/-- **RFC 7914 §5**: for N = 2^k (k ≤ 32), r > 0, a 128·r-byte `b`, a scratch vector `v` of N chunks of 128·r bytes and
    a scratch `t` of 128·r bytes (whatever they contain), `scrypt_ro_mix` returns b = scryptROMix_r(b, N), leaves
    V = [B, BlockMix(B), …, BlockMix^{N−1}(B)] in `v` and some 128·r bytes in `t`. -/
theorem scrypt_ro_mix_spec (r k : Nat) (b : Bytes) (v : List Bytes) (t : Bytes) (hr : 0 < r) (hk : k ≤ 32)
    (hb : b.length = 128 * r) (hv : v.length = 2 ^ k) (hvl : ∀ c ∈ v, c.length = 128 * r) (ht : t.length = 128 * r) :
    ∃ t', scrypt_ro_mix b v t (2 ^ k)
        = some (Spec.Kdf.roMix r (2 ^ k) b, Spec.Kdf.iterates (Spec.Kdf.blockMix r) (2 ^ k) b, t') ∧
      t'.length = 128 * r :=
  Cx.Proofs.KdfScryptMix.scrypt_ro_mix_eq r hr k hk b v t hb hv hvl ht

example : ∃ (r k : Nat) (b : Bytes) (v : List Bytes) (t : Bytes), 0 < r ∧ k ≤ 32 ∧ b.length = 128 * r ∧
    v.length = 2 ^ k ∧ (∀ c ∈ v, c.length = 128 * r) ∧ t.length = 128 * r :=
  ⟨2, 4, List.replicate 256 7, List.replicate 16 (zeros 256), zeros 256, by decide, by decide,
    by rw [List.length_replicate], by rw [List.length_replicate],
    fun c hc => by rw [List.eq_of_mem_replicate hc, zeros, List.length_replicate], by rw [zeros, List.length_replicate]⟩

/-! ## scrypt (MFcrypt) -/

/-- **RFC 7914 §6**: constructing the parameters and deriving a key is exactly `Spec.Kdf.scrypt` with N = 2^log_n:
    B = PBKDF2-HMAC-SHA256(P, S, 1, p·128·r); B_i = scryptROMix(r, B_i, N); DK = PBKDF2-HMAC-SHA256(P, B, 1, dkLen) —
    and a panic (`none`) exactly where RFC 7914 §2/§6 has no value (`Spec.Kdf.scryptValid` false).
    Guards: log_n ≤ 32 (the 32-bit Integerify of the code), the scratch vector fits `usize` (128·r·N < 2^64),
    password and salt within SHA-256's input domain. -/
theorem scrypt_spec (P S : Bytes) (log_n r p dkLen : Nat) (hlog : log_n ≤ 32) (hmem : 128 * r * 2 ^ log_n < 2 ^ 64)
    (hP : P.length < 2 ^ 61) (hS : S.length + 68 < 2 ^ 61) :
    (ScryptParams.new log_n r p).bind (fun params => scrypt P S params dkLen)
      = Spec.Kdf.scrypt P S (2 ^ log_n) r p dkLen :=
  Cx.Proofs.KdfScryptMF.scrypt_eq P S log_n r p dkLen hlog hmem hP hS

/-- the guards hold for the second test vector of RFC 7914 §12 (P = "password", S = "NaCl", N = 1024, r = 8, p = 16,
    dkLen = 64), whose parameters are valid (so both sides of `scrypt_spec` are a derived key, not a refusal) -/
example : (10 ≤ 32) ∧ 128 * 8 * 2 ^ 10 < 2 ^ 64 ∧ ([112, 97, 115, 115, 119, 111, 114, 100] : Bytes).length < 2 ^ 61 ∧
    ([78, 97, 67, 108] : Bytes).length + 68 < 2 ^ 61 ∧ Spec.Kdf.scryptValid (2 ^ 10) 8 16 64 = true := by decide

/-- the refusal clause, spelled out: the Spec (hence, by `scrypt_spec`, the code) has no value outside RFC 7914's
    parameter constraints -/
theorem scrypt_refuses (P S : Bytes) (N r p dkLen : Nat) (h : Spec.Kdf.scryptValid N r p dkLen = false) :
    Spec.Kdf.scrypt P S N r p dkLen = none := by
  simp [Spec.Kdf.scrypt, h]

end Cx.Props.C10
