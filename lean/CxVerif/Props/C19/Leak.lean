/-
  Props.C19.Leak — the event trace of the constant-time building blocks is a function of public data only,
  and erasing the trace gives back the plain models.  (The optimising compiler may re-introduce branches, so
  these theorems cannot speak for the binary: that part of C19 is observed by the instruction tracer.)
-/
import CxVerif.Impl.Leak
namespace Cx.Props.C19
open Cx.Impl.CT Cx.Impl.Leak

/-! ## generic facts about event-free loop bodies -/

theorem iter_pure {σ α : Type} (f : σ → α → σ) (xs : List α) (s : σ) :
    (iter (fun s x => (pure (f s x) : L σ)) xs s).tr = [] ∧
    (iter (fun s x => (pure (f s x) : L σ)) xs s).val = xs.foldl f s := by
  induction xs generalizing s with
  | nil => exact ⟨rfl, rfl⟩
  | cons x xs ih =>
    have := ih (f s x)
    simp only [iter, bind_tr, bind_val, pure_tr, pure_val, List.nil_append, List.foldl_cons]
    exact this

theorem forEach_pure {σ α : Type} (f : σ → α → σ) (xs : List α) (s : σ) :
    (forEach xs s (fun s x => (pure (f s x) : L σ))).tr = [Ev.bound xs.length] ∧
    (forEach xs s (fun s x => (pure (f s x) : L σ))).val = xs.foldl f s := by
  have h := iter_pure f xs s
  simp only [forEach, bind_tr, bind_val, emit_tr, h.1, h.2, List.append_nil, and_self]

/-! ## array equality / ordering: trace depends on the length only -/

theorem array_u8_ct_eq_trace (a b : List UInt8) :
    (array_u8_ct_eqL a b).tr = [Ev.bound (min a.length b.length)] := by
  have h := forEach_pure (fun (acc : UInt64) (p : UInt8 × UInt8) => acc ||| (p.1.toUInt64 ^^^ p.2.toUInt64)) (a.zip b) 0
  simp only [array_u8_ct_eqL, bind_tr, pure_tr, h.1, List.append_nil, List.length_zip]

/-- erasure: the instrumented comparison computes the plain model's value -/
theorem array_u8_ct_eq_val (a b : List UInt8) :
    (array_u8_ct_eqL a b).val = array_u8_ct_eq a b := by
  have h := forEach_pure (fun (acc : UInt64) (p : UInt8 × UInt8) => acc ||| (p.1.toUInt64 ^^^ p.2.toUInt64)) (a.zip b) 0
  simp only [array_u8_ct_eqL, bind_val, pure_val, h.2]; rfl

/-- C19 for `MacResult ==` / `Tag ==`: for equal lengths, the trace is the same for EVERY pair of contents —
    in particular for every position of the first mismatching byte -/
theorem array_u8_ct_eq_secret_independent (a b a' b' : List UInt8)
    (ha : a.length = a'.length) (hb : b.length = b'.length) :
    (array_u8_ct_eqL a b).tr = (array_u8_ct_eqL a' b').tr := by
  rw [array_u8_ct_eq_trace, array_u8_ct_eq_trace, ha, hb]

theorem array_u8_ct_lt_trace (a b : List UInt8) :
    (array_u8_ct_ltL a b).tr = [Ev.bound (min a.length b.length)] := by
  have h := forEach_pure (fun (bo : UInt8) (p : UInt8 × UInt8) => borrowStep bo p.1 p.2) (a.reverse.zip b.reverse) 0
  simp only [array_u8_ct_ltL, bind_tr, pure_tr, h.1, List.append_nil, List.length_zip, List.length_reverse]

theorem array_u8_ct_lt_val (a b : List UInt8) :
    (array_u8_ct_ltL a b).val = array_u8_ct_lt a b := by
  have h := forEach_pure (fun (bo : UInt8) (p : UInt8 × UInt8) => borrowStep bo p.1 p.2) (a.reverse.zip b.reverse) 0
  simp only [array_u8_ct_ltL, bind_val, pure_val, h.2]; rfl

/-- the instrumentation can see leaks: an early-exit comparison has different traces for different
    mismatch positions (sanity / negative control) -/
theorem earlyExit_leaks :
    (earlyExitEq [1, 2, 3] [9, 2, 3]).tr ≠ (earlyExitEq [1, 2, 3] [1, 2, 9]).tr := by decide

/-! ## masked swap: trace depends on the limb count only, never on the choice -/

theorem swap_tmp_len (m : UInt64) (l : List (UInt64 × UInt64)) (init : List UInt64) :
    (l.foldl (fun t p => t ++ [(p.1 ^^^ p.2) &&& m]) init).length = init.length + l.length := by
  induction l generalizing init with
  | nil => simp
  | cons p ps ih => simp only [List.foldl_cons, ih, List.length_append, List.length_cons, List.length_nil]; omega

theorem maybe_swap_trace (a b : List UInt64) (c c' : Choice) :
    (ct_array64_maybe_swap_withL a b c).tr = (ct_array64_maybe_swap_withL a b c').tr := by
  have t := fun (m : UInt64) => forEach_pure (fun (t : List UInt64) (p : UInt64 × UInt64) => t ++ [(p.1 ^^^ p.2) &&& m]) (a.zip b) []
  have x := fun (tmp : List UInt64) (l : List UInt64) =>
    forEach_pure (fun (t : List UInt64) (p : UInt64 × UInt64) => t ++ [p.1 ^^^ p.2]) (l.zip tmp) []
  simp only [ct_array64_maybe_swap_withL, bind_tr, bind_val, pure_tr, (t _).1, (t _).2, (x _ _).1, (x _ _).2,
    List.length_zip, swap_tmp_len, List.length_nil, Nat.zero_add]

/-! ## table selection: all rows are read, at public indices -/

theorem selectCt_iter_trace {α : Type} (set : α → α → Choice → α) (table : List α) (d d' : UInt64)
    (l : List Nat) (s s' : α) :
    (iter (selectBody set table d) l s).tr = (iter (selectBody set table d') l s').tr := by
  induction l generalizing s s' with
  | nil => rfl
  | cons k ks ih =>
    simp only [iter, selectBody, bind_tr, bind_val, emit_tr]
    cases hk : table[k]? with
    | none => simp only [pure_tr, pure_val, List.append_nil]; rw [ih]
    | some row => simp only [pure_tr, pure_val, List.append_nil]; rw [ih]

/-- the sequence of table rows touched by the constant-time selection does not depend on the secret digit -/
theorem selectCt_trace {α : Type} (set : α → α → Choice → α) (table : List α) (zero : α) (d d' : UInt64) :
    (selectCt set table zero d).tr = (selectCt set table zero d').tr := by
  simp only [selectCt, forEach, bind_tr, emit_tr]
  rw [selectCt_iter_trace set table d d' _ zero zero]

/-- negative control: direct indexing leaks the digit -/
theorem selectDirect_leaks : (selectDirect [10, 20, 30] 0 1).tr ≠ (selectDirect [10, 20, 30] 0 3).tr := by decide

/-! ## scalar loops: the trace is independent of the scalar -/

theorem ladder_trace {σ : Type} (bit bit' : Nat → Bool) (step : σ → Bool → σ) (n : Nat) (s s' : σ) :
    (ladder bit step n s).tr = (ladder bit' step n s').tr := by
  induction n generalizing s s' with
  | zero => rfl
  | succ k ih =>
    simp only [ladder, bind_tr, emit_tr]
    rw [ih]

/-- erasure: the instrumented ladder computes the plain fold over the bit positions n-1 … 0 -/
theorem ladder_val {σ : Type} (bit : Nat → Bool) (step : σ → Bool → σ) (n : Nat) (s : σ) :
    (ladder bit step n s).val = ((List.range n).reverse.foldl (fun s k => step s (bit k)) s) := by
  induction n generalizing s with
  | zero => rfl
  | succ k ih =>
    simp only [ladder, bind_val]
    rw [ih, List.range_succ, List.reverse_append]
    rfl

/-- negative control: branching on the scalar bit is visible in the trace -/
theorem doubleAndAdd_leaks :
    (doubleAndAdd (fun _ => true) (· * 2) (· + 1) 2 (1 : Nat)).tr ≠
    (doubleAndAdd (fun _ => false) (· * 2) (· + 1) 2 (1 : Nat)).tr := by decide

end Cx.Props.C19
