/-
  Props.C19.LeakReal — C19 on the REAL code-shaped models (supersedes the generic skeletons of Props/C19/Leak.lean).

  For every operation of the property there is an instrumented function `…L` in Impl/LeakModel.lean, written by
  following the Rust source and the plain model side by side (an event at every data-dependent branch, computed
  index, loop bound and run-time length; nothing for arithmetic, masks and `Choice`-based selects), and two theorems:

    erasure            `(fL args).val = f args`   — `fL` computes exactly the plain model `f` the functional theorems
                       (C05, C12, C13, C18) and the translator ties are about: the leakage model is a model OF that code;
    non-interference   `(fL pub secret).tr = (fL pub secret').tr` for all secrets, where `pub` fixes every public
                       input and every length.  It is obtained from a stronger statement: the trace EQUALS an explicit
                       function `fT pub` of the public data.

  A panic (overflow check of a checked build, failed assert, index out of range) cuts the trace; the theorems below
  are unconditional because C05 / C12 / C13 prove that these computations never panic.

  The optimising compiler may re-introduce branches (DESIGN 14.6, side observation of C19-5): these theorems speak for
  the source, the instruction tracer of the dynamic part speaks for the binary.
-/
import CxVerif.Proofs.LeakModelPoly
import CxVerif.Proofs.Poly1305Stream
namespace Cx.Props.C19
open Cx Cx.Impl.CT Cx.Impl.LeakModel Cx.Proofs.LeakModel

/-! ## (f) MAC-result / AEAD-tag comparison

  public: the two LENGTHS.  secret: both byte strings (the expected tag and the attacker's guess) — hence also the
  position of the first mismatching byte. -/

/-- erasure: the instrumented `MacResult ==` computes `Impl.CT.macResultEq` (C18: ⇔ same length and same bytes) -/
theorem macResultEq_erasure (a b : List UInt8) : (macResultEqL a b).val = macResultEq a b := macResultEqL_val a b

/-- the trace of `MacResult ==` is a function of the two lengths -/
theorem macResultEq_trace (a b : List UInt8) :
    (macResultEqL a b).tr = Event.branch (decide (a.length = b.length)) ::
      (if a.length = b.length then [Event.loopBound (min a.length b.length)] else []) := macResultEqL_tr a b

/-- **C19 (MAC-result comparison)**: same lengths ⇒ same trace, whatever the contents -/
theorem macResultEq_noninterference (a b a' b' : List UInt8) (ha : a.length = a'.length) (hb : b.length = b'.length) :
    (macResultEqL a b).tr = (macResultEqL a' b').tr := by
  rw [macResultEq_trace, macResultEq_trace, ha, hb]

/-- in particular for every position of the first mismatching byte: comparing a tag with ANY two guesses of the
    same length (e.g. differing from it first at byte `i` resp. byte `j`) gives the same trace -/
theorem macResultEq_mismatch_position_independent (tag guess guess' : List UInt8) (h : guess.length = guess'.length) :
    (macResultEqL tag guess).tr = (macResultEqL tag guess').tr :=
  macResultEq_noninterference tag guess tag guess' rfl h

/-- erasure / trace / non-interference for `Tag ==` of the AEAD (`[u8; 16]`, `ct_eq(..).is_true()`) -/
theorem tagEq_erasure (a b : List UInt8) : (tagEqL a b).val = (array_u8_ct_eq a b).isTrue := tagEqL_val a b

theorem tagEq_noninterference (a b a' b' : List UInt8) (ha : a.length = a'.length) (hb : b.length = b'.length) :
    (tagEqL a b).tr = (tagEqL a' b').tr := by
  rw [tagEqL_tr, tagEqL_tr, ha, hb]

/-- `impl CtEqual for &[u8]` (used by `verify` and by `MacResult ==`) -/
theorem slice_ct_eq_erasure (a b : List UInt8) : (slice_u8_ct_eqL a b).val = slice_u8_ct_eq a b := slice_u8_ct_eqL_val a b

theorem slice_ct_eq_noninterference (a b a' b' : List UInt8) (ha : a.length = a'.length) (hb : b.length = b'.length) :
    (slice_u8_ct_eqL a b).tr = (slice_u8_ct_eqL a' b').tr := by
  rw [slice_u8_ct_eqL_tr, slice_u8_ct_eqL_tr, ha, hb]

/-- the masked swap / set of `[u64; N]` (field elements in the ladder and in `select`): erasure, and the trace is
    the three (two) loop bounds — never the `Choice` -/
theorem maybe_swap_erasure (a b : List UInt64) (c : Choice) :
    (ct_array64_maybe_swap_withL a b c).val = ct_array64_maybe_swap_with a b c := ct_array64_maybe_swap_withL_val a b c

theorem maybe_swap_noninterference (a b a' b' : List UInt64) (c c' : Choice) (ha : a.length = a'.length)
    (hb : b.length = b'.length) :
    (ct_array64_maybe_swap_withL a b c).tr = (ct_array64_maybe_swap_withL a' b' c').tr := by
  rw [ct_array64_maybe_swap_withL_tr, ct_array64_maybe_swap_withL_tr, ha, hb]

theorem maybe_set_erasure (a b : List UInt64) (c : Choice) :
    (ct_array64_maybe_setL a b c).val = ct_array64_maybe_set a b c := ct_array64_maybe_setL_val a b c

theorem maybe_set_noninterference (a b a' b' : List UInt64) (c c' : Choice) (ha : a.length = a'.length)
    (hb : b.length = b'.length) :
    (ct_array64_maybe_setL a b c).tr = (ct_array64_maybe_setL a' b' c').tr := by
  rw [ct_array64_maybe_setL_tr, ct_array64_maybe_setL_tr, ha, hb]

/-- NEGATIVE CONTROL (test by evaluation): an early-exit comparison is NOT non-interferent — the same tag compared
    with two guesses of the same length that first differ from it at byte 0 resp. byte 2 gives different traces -/
theorem earlyExit_comparison_leaks :
    ¬ (∀ tag guess guess' : List UInt8, guess.length = guess'.length →
        (earlyExitEqL tag guess).tr = (earlyExitEqL tag guess').tr) := by
  intro h
  exact absurd (h [1, 2, 3] [9, 2, 3] [1, 2, 9] rfl) (by decide)

/-! ## (c) Poly1305 tag computation

  public: the LENGTHS of the `input` calls (hence `leftover`, `finalized`).  secret: the 32-byte key (r and pad)
  and — although the property only asks for the key — every message byte. -/

section Poly1305
open Cx.Impl.Poly1305

/-- erasure: `macL` computes `Impl.Poly1305.mac` (C05: = the RFC 8439 tag, never a panic) -/
theorem poly1305_mac_erasure (v : Variant) (key : Bytes) (chunks : List Bytes) :
    (macL v key chunks).val = mac v key chunks := macL_val v key chunks

/-- the trace of `new; input…; raw_result` is the explicit function `macT` of the chunk lengths, for EVERY key and
    every message (unconditional: the computation never panics, `Proofs.Poly1305.mac_eq`) -/
theorem poly1305_mac_trace (v : Variant) (key : Bytes) (chunks : List Bytes) :
    (macL v key chunks).tr = macT (chunks.map List.length) :=
  macL_tr v key chunks _ (Cx.Proofs.Poly1305.mac_eq v key chunks)

/-- **C19 (Poly1305)**: for fixed chunk lengths the trace is the same for every key and every message -/
theorem poly1305_mac_noninterference (v : Variant) (key key' : Bytes) (chunks chunks' : List Bytes)
    (h : chunks.map List.length = chunks'.map List.length) :
    (macL v key chunks).tr = (macL v key' chunks').tr := by
  rw [poly1305_mac_trace, poly1305_mac_trace, h]

/-- the same per call, on the object: two objects that have absorbed messages of the same length (under any two
    keys) and receive data of the same length produce the same trace -/
theorem poly1305_input_erasure (st : State) (data : Bytes) : (inputL st data).val = input st data := inputL_val st data

theorem poly1305_input_noninterference (key key' : Bytes) (st st' : State) (msg msg' data data' : Bytes)
    (h : Cx.Proofs.Poly1305.Absorbing key st msg) (h' : Cx.Proofs.Poly1305.Absorbing key' st' msg')
    (hl : st.leftover = st'.leftover) (hd : data.length = data'.length) :
    (inputL st data).tr = (inputL st' data').tr := by
  obtain ⟨s1, e1, _⟩ := Cx.Proofs.Poly1305.input_spec key st msg data h
  obtain ⟨s2, e2, _⟩ := Cx.Proofs.Poly1305.input_spec key' st' msg' data' h'
  rw [(inputL_tr _ _ _ e1).1, (inputL_tr _ _ _ e2).1, hl, hd]

theorem poly1305_finish_erasure (v : Variant) (st : State) : (finishL v st).val = finish v st := finishL_val v st

/-- `finish` (last block with the 0x01 marker, full carry, the MASKED final subtraction of p, adding the pad) -/
theorem poly1305_finish_noninterference (v : Variant) (key key' : Bytes) (st st' : State) (msg msg' : Bytes)
    (h : Cx.Proofs.Poly1305.Absorbing key st msg) (h' : Cx.Proofs.Poly1305.Absorbing key' st' msg')
    (hl : st.leftover = st'.leftover) :
    (finishL v st).tr = (finishL v st').tr := by
  obtain ⟨s1, e1, _⟩ := Cx.Proofs.Poly1305.finish_spec v key st msg h
  obtain ⟨s2, e2, _⟩ := Cx.Proofs.Poly1305.finish_spec v key' st' msg' h'
  rw [finishL_tr v _ _ e1, finishL_tr v _ _ e2, hl]

/-- non-vacuity of the hypotheses: a fresh object is absorbing, for every key -/
example (key : Bytes) : Cx.Proofs.Poly1305.Absorbing key (new key) [] := Cx.Proofs.Poly1305.new_absorbing key

/-- test (evaluation): the trace of a 20-byte one-chunk MAC -/
example : macT [20] = [.branch false, .branch false, .branch true, .branch false, .branch false, .branch false,
    .length 4, .length 16, .branch true, .branch true, .index 4, .loopBound 11, .branch false, .branch true] := by
  decide

/-- NEGATIVE CONTROL (test by evaluation): the final reduction written with a branch `if h >= p` instead of the
    mask is NOT non-interferent: two accumulators (h = 0 and h = p) give different traces -/
theorem branching_final_reduction_leaks :
    ¬ (∀ st st' : State, st.leftover = st'.leftover → st.finalized = st'.finalized →
        (finishTailBranchL st).tr = (finishTailBranchL st').tr) := by
  intro h
  exact absurd (h ⟨⟨0, 0, 0, 0, 0⟩, ⟨0, 0, 0, 0, 0⟩, ⟨0, 0, 0, 0⟩, 0, [], false⟩
    ⟨⟨0, 0, 0, 0, 0⟩, ⟨0x3fffffb, 0x3ffffff, 0x3ffffff, 0x3ffffff, 0x3ffffff⟩, ⟨0, 0, 0, 0⟩, 0, [], false⟩ rfl rfl)
    (by decide)

end Poly1305

end Cx.Props.C19
