/-
  Props.C19.LeakReal — C19 on the REAL code-shaped models (supersedes the generic skeletons of Props/C19/Leak.lean).

  For every operation of the property there is an instrumented function `…L` in Impl/LeakModel.lean, written by
  following the Rust source and the plain model side by side (an event at every data-dependent branch, computed
  index, loop bound and run-time length; nothing for arithmetic, masks and `Choice`-based selects), and two theorems:

    erasure            `(fL args).val = f args`   — `fL` computes exactly the plain model `f` the functional theorems
                       (C05, C12, C13, C18) and the translator ties are about: the leakage model is a model OF that code;
    non-interference   `(fL pub secret).tr = (fL pub secret').tr` for all secrets, where `pub` fixes every public
                       input and every length.  It is obtained from a stronger statement: the trace EQUALS an explicit
                       function `fT pub` of the public data.

  A panic (overflow check of a checked build, failed assert, index out of range) cuts the trace; the theorems below
  are unconditional because C05 / C12 / C13 prove that these computations never panic.

  Sections: (f) MAC-result / tag comparison, (c) Poly1305, (a) X25519, (b) Ed25519 keygen / signing, (e) ChaCha / Salsa,
  (d) HMAC + hash-engine buffering.  Every section ends with a labelled NEGATIVE CONTROL: a deliberately leaky variant
  for which the non-interference statement is refuted by a concrete pair of inputs (the instrumentation sees leaks),
  and (b) shows the variable-time `verify` loops to have input-dependent traces (on public data).

  The optimising compiler may re-introduce branches (DESIGN 14.6, side observation of C19-5): these theorems speak for
  the source, the instruction tracer of the dynamic part speaks for the binary.
-/
import CxVerif.Proofs.LeakModelPoly
import CxVerif.Proofs.LeakModelX25519
import CxVerif.Proofs.Poly1305Stream
import CxVerif.Props.C12.X25519
import CxVerif.Proofs.LeakModelEd25519
import CxVerif.Props.C13.Final
import CxVerif.Proofs.LeakModelSym
import CxVerif.Proofs.LeakModelHmac
namespace Cx.Props.C19
open Cx Cx.Impl.CT Cx.Impl.LeakModel Cx.Proofs.LeakModel

/-! ## (f) MAC-result / AEAD-tag comparison

  public: the two LENGTHS.  secret: both byte strings (the expected tag and the attacker's guess) — hence also the
  position of the first mismatching byte. -/

/-- erasure: the instrumented `MacResult ==` computes `Impl.CT.macResultEq` (C18: ⇔ same length and same bytes) -/
theorem macResultEq_erasure (a b : List UInt8) : (macResultEqL a b).val = macResultEq a b := macResultEqL_val a b

/-- the trace of `MacResult ==` is a function of the two lengths -/
theorem macResultEq_trace (a b : List UInt8) :
    (macResultEqL a b).tr = Event.branch (decide (a.length = b.length)) ::
      (if a.length = b.length then [Event.loopBound (min a.length b.length)] else []) := macResultEqL_tr a b

/-- **C19 (MAC-result comparison)**: same lengths ⇒ same trace, whatever the contents -/
theorem macResultEq_noninterference (a b a' b' : List UInt8) (ha : a.length = a'.length) (hb : b.length = b'.length) :
    (macResultEqL a b).tr = (macResultEqL a' b').tr := by
  rw [macResultEq_trace, macResultEq_trace, ha, hb]

/-- in particular for every position of the first mismatching byte: comparing a tag with ANY two guesses of the
    same length (e.g. differing from it first at byte `i` resp. byte `j`) gives the same trace -/
theorem macResultEq_mismatch_position_independent (tag guess guess' : List UInt8) (h : guess.length = guess'.length) :
    (macResultEqL tag guess).tr = (macResultEqL tag guess').tr :=
  macResultEq_noninterference tag guess tag guess' rfl h

/-- erasure / trace / non-interference for `Tag ==` of the AEAD (`[u8; 16]`, `ct_eq(..).is_true()`) -/
theorem tagEq_erasure (a b : List UInt8) : (tagEqL a b).val = (array_u8_ct_eq a b).isTrue := tagEqL_val a b

theorem tagEq_noninterference (a b a' b' : List UInt8) (ha : a.length = a'.length) (hb : b.length = b'.length) :
    (tagEqL a b).tr = (tagEqL a' b').tr := by
  rw [tagEqL_tr, tagEqL_tr, ha, hb]

/-- `impl CtEqual for &[u8]` (used by `verify` and by `MacResult ==`) -/
theorem slice_ct_eq_erasure (a b : List UInt8) : (slice_u8_ct_eqL a b).val = slice_u8_ct_eq a b := slice_u8_ct_eqL_val a b

theorem slice_ct_eq_noninterference (a b a' b' : List UInt8) (ha : a.length = a'.length) (hb : b.length = b'.length) :
    (slice_u8_ct_eqL a b).tr = (slice_u8_ct_eqL a' b').tr := by
  rw [slice_u8_ct_eqL_tr, slice_u8_ct_eqL_tr, ha, hb]

/-- the masked swap / set of `[u64; N]` (field elements in the ladder and in `select`): erasure, and the trace is
    the three (two) loop bounds — never the `Choice` -/
theorem maybe_swap_erasure (a b : List UInt64) (c : Choice) :
    (ct_array64_maybe_swap_withL a b c).val = ct_array64_maybe_swap_with a b c := ct_array64_maybe_swap_withL_val a b c

theorem maybe_swap_noninterference (a b a' b' : List UInt64) (c c' : Choice) (ha : a.length = a'.length)
    (hb : b.length = b'.length) :
    (ct_array64_maybe_swap_withL a b c).tr = (ct_array64_maybe_swap_withL a' b' c').tr := by
  rw [ct_array64_maybe_swap_withL_tr, ct_array64_maybe_swap_withL_tr, ha, hb]

theorem maybe_set_erasure (a b : List UInt64) (c : Choice) :
    (ct_array64_maybe_setL a b c).val = ct_array64_maybe_set a b c := ct_array64_maybe_setL_val a b c

theorem maybe_set_noninterference (a b a' b' : List UInt64) (c c' : Choice) (ha : a.length = a'.length)
    (hb : b.length = b'.length) :
    (ct_array64_maybe_setL a b c).tr = (ct_array64_maybe_setL a' b' c').tr := by
  rw [ct_array64_maybe_setL_tr, ct_array64_maybe_setL_tr, ha, hb]

/-- NEGATIVE CONTROL (test by evaluation): an early-exit comparison is NOT non-interferent — the same tag compared
    with two guesses of the same length that first differ from it at byte 0 resp. byte 2 gives different traces -/
theorem earlyExit_comparison_leaks :
    ¬ (∀ tag guess guess' : List UInt8, guess.length = guess'.length →
        (earlyExitEqL tag guess).tr = (earlyExitEqL tag guess').tr) := by
  intro h
  exact absurd (h [1, 2, 3] [9, 2, 3] [1, 2, 9] rfl) (by decide)

/-! ## (c) Poly1305 tag computation

  public: the LENGTHS of the `input` calls (hence `leftover`, `finalized`).  secret: the 32-byte key (r and pad)
  and — although the property only asks for the key — every message byte. -/

section Poly1305
open Cx.Impl.Poly1305

/-- erasure: `macL` computes `Impl.Poly1305.mac` (C05: = the RFC 8439 tag, never a panic) -/
theorem poly1305_mac_erasure (v : Variant) (key : Bytes) (chunks : List Bytes) :
    (macL v key chunks).val = mac v key chunks := macL_val v key chunks

/-- the trace of `new; input…; raw_result` is the explicit function `macT` of the chunk lengths, for EVERY key and
    every message (unconditional: the computation never panics, `Proofs.Poly1305.mac_eq`) -/
theorem poly1305_mac_trace (v : Variant) (key : Bytes) (chunks : List Bytes) :
    (macL v key chunks).tr = macT (chunks.map List.length) :=
  macL_tr v key chunks _ (Cx.Proofs.Poly1305.mac_eq v key chunks)

/-- **C19 (Poly1305)**: for fixed chunk lengths the trace is the same for every key and every message -/
theorem poly1305_mac_noninterference (v : Variant) (key key' : Bytes) (chunks chunks' : List Bytes)
    (h : chunks.map List.length = chunks'.map List.length) :
    (macL v key chunks).tr = (macL v key' chunks').tr := by
  rw [poly1305_mac_trace, poly1305_mac_trace, h]

/-- the same per call, on the object: two objects that have absorbed messages of the same length (under any two
    keys) and receive data of the same length produce the same trace -/
theorem poly1305_input_erasure (st : State) (data : Bytes) : (inputL st data).val = input st data := inputL_val st data

theorem poly1305_input_noninterference (key key' : Bytes) (st st' : State) (msg msg' data data' : Bytes)
    (h : Cx.Proofs.Poly1305.Absorbing key st msg) (h' : Cx.Proofs.Poly1305.Absorbing key' st' msg')
    (hl : st.leftover = st'.leftover) (hd : data.length = data'.length) :
    (inputL st data).tr = (inputL st' data').tr := by
  obtain ⟨s1, e1, _⟩ := Cx.Proofs.Poly1305.input_spec key st msg data h
  obtain ⟨s2, e2, _⟩ := Cx.Proofs.Poly1305.input_spec key' st' msg' data' h'
  rw [(inputL_tr _ _ _ e1).1, (inputL_tr _ _ _ e2).1, hl, hd]

theorem poly1305_finish_erasure (v : Variant) (st : State) : (finishL v st).val = finish v st := finishL_val v st

/-- `finish` (last block with the 0x01 marker, full carry, the MASKED final subtraction of p, adding the pad) -/
theorem poly1305_finish_noninterference (v : Variant) (key key' : Bytes) (st st' : State) (msg msg' : Bytes)
    (h : Cx.Proofs.Poly1305.Absorbing key st msg) (h' : Cx.Proofs.Poly1305.Absorbing key' st' msg')
    (hl : st.leftover = st'.leftover) :
    (finishL v st).tr = (finishL v st').tr := by
  obtain ⟨s1, e1, _⟩ := Cx.Proofs.Poly1305.finish_spec v key st msg h
  obtain ⟨s2, e2, _⟩ := Cx.Proofs.Poly1305.finish_spec v key' st' msg' h'
  rw [finishL_tr v _ _ e1, finishL_tr v _ _ e2, hl]

/-- non-vacuity of the hypotheses: a fresh object is absorbing, for every key -/
example (key : Bytes) : Cx.Proofs.Poly1305.Absorbing key (new key) [] := Cx.Proofs.Poly1305.new_absorbing key

/-- test (evaluation): the trace of a 20-byte one-chunk MAC -/
example : macT [20] = [.branch false, .branch false, .branch true, .branch false, .branch false, .branch false,
    .length 4, .length 16, .branch true, .branch true, .index 4, .loopBound 11, .branch false, .branch true] := by
  decide

/-- NEGATIVE CONTROL (test by evaluation): the final reduction written with a branch `if h >= p` instead of the
    mask is NOT non-interferent: two accumulators (h = 0 and h = p) give different traces -/
theorem branching_final_reduction_leaks :
    ¬ (∀ st st' : State, st.leftover = st'.leftover → st.finalized = st'.finalized →
        (finishTailBranchL st).tr = (finishTailBranchL st').tr) := by
  intro h
  exact absurd (h ⟨⟨0, 0, 0, 0, 0⟩, ⟨0, 0, 0, 0, 0⟩, ⟨0, 0, 0, 0⟩, 0, [], false⟩
    ⟨⟨0, 0, 0, 0, 0⟩, ⟨0x3fffffb, 0x3ffffff, 0x3ffffff, 0x3ffffff, 0x3ffffff⟩, ⟨0, 0, 0, 0⟩, 0, [], false⟩ rfl rfl)
    (by decide)

end Poly1305

/-! ## (a) X25519, general and fixed-base (`curve25519`, `curve25519_base`; `x25519::dh` / `x25519::base` are these)

  public: the peer's point `p` (in fact the trace does not depend on it either).  secret: the 32-byte scalar `n`.
  Instrumented: the clamping, the 255-iteration loop with the byte index `pos / 8` of every bit extraction, the two
  masked swaps per iteration, the 18 field operations, the final swaps, the inversion chain (loop bounds of the
  `square_repeatdly` calls), the multiplication and `to_bytes`. -/

section X25519
open Cx.Impl.X25519

/-- erasure: `curve25519L` computes `Impl.X25519.curve25519` (C12: = X25519 of RFC 7748, never a panic) -/
theorem curve25519_erasure (n p : Bytes) (hn : n.length = 32) (hp : p.length = 32) :
    (curve25519L n p hn hp).val = curve25519 n p hn hp := curve25519L_val n p hn hp

theorem curve25519_base_erasure (n : Bytes) (hn : n.length = 32) :
    (curve25519_baseL n hn).val = curve25519_base n hn := curve25519_baseL_val n hn

/-- the trace of `curve25519` is the closed constant `x25519T`, for EVERY scalar and every point (unconditional:
    the computation never overflows, `Props.C12.curve25519_no_overflow`) -/
theorem curve25519_trace (n p : Bytes) (hn : n.length = 32) (hp : p.length = 32) :
    (curve25519L n p hn hp).tr = x25519T :=
  (curve25519L_const n p hn hp).out (by rw [curve25519_erasure]; exact (Cx.Props.C12.curve25519_no_overflow n p hn hp).1)

theorem curve25519_base_trace (n : Bytes) (hn : n.length = 32) : (curve25519_baseL n hn).tr = x25519T :=
  (curve25519_baseL_const n hn).out
    (by rw [curve25519_base_erasure]; exact (Cx.Props.C12.curve25519_no_overflow n n hn hn).2)

/-- **C19 (X25519, general)**: the trace is the same for every secret scalar (and every public point) -/
theorem curve25519_noninterference (n n' p : Bytes) (hn : n.length = 32) (hn' : n'.length = 32) (hp : p.length = 32) :
    (curve25519L n p hn hp).tr = (curve25519L n' p hn' hp).tr := by
  rw [curve25519_trace, curve25519_trace]

/-- **C19 (X25519, fixed base)** -/
theorem curve25519_base_noninterference (n n' : Bytes) (hn : n.length = 32) (hn' : n'.length = 32) :
    (curve25519_baseL n hn).tr = (curve25519_baseL n' hn').tr := by
  rw [curve25519_base_trace, curve25519_base_trace]

/-- test (evaluation): the constant trace has 1 + 255 + 9 events and begins with the loop bound and byte 31 -/
example : x25519T.length = 265 ∧ x25519T.take 3 = [.loopBound 255, .index 31, .index 31] := by decide +kernel

/-- NEGATIVE CONTROL (test by evaluation): a ladder step that branches on `swap ^ bit` instead of the masked swap is
    NOT non-interferent — two scalars that differ in bit 254 give different traces for the first iteration -/
theorem branching_ladder_step_leaks :
    ¬ (∀ (e e' : Bytes) (he : e.length = 32) (he' : e'.length = 32) (s : Ladder),
        (ladderStepBranchL e he A24P1 (.small NINE) s 254 (by omega)).tr =
        (ladderStepBranchL e' he' A24P1 (.small NINE) s 254 (by omega)).tr) := by
  intro h
  exact absurd (h (List.replicate 32 0x00) (List.replicate 32 0xff) (by decide) (by decide)
    ⟨Impl.Fe64.Fe.ONE, Impl.Fe64.Fe.ZERO, Impl.Fe64.Fe.ONE, Impl.Fe64.Fe.ONE, u64_ct_zero 1⟩) (by decide +kernel)

end X25519

/-! ## (b) Ed25519 key generation and signing (`keypair`, `signature`, `signature_extended`)

  public: the message (its LENGTH is all the trace depends on) and the public-key half of the keypair.
  secret: the 32-byte seed, hence the secret scalar `a`, the prefix, and the nonce scalar `r = H(prefix ‖ M)`.
  Instrumented: the hash calls (lengths), the clamp, `Scalar::nibbles` (index of every word and digit), the signed
  recoding loop, both comb loops with `GePrecomp::select` (debug assertion, row index, the eight masked `maybe_set`s
  and the masked negation), the four doublings, `Ge::to_bytes` (inversion chain, `is_negative`), the Barrett
  reductions and `muladd` (straight-line, masks).

  FINDING of the source-level model: `GeAffine::to_bytes` contains `if self.x.is_negative() { 1 } else { 0 }`, a
  branch on a value computed from the secret.  It is the ONLY such event; its condition is bit 255 of the encoding
  that the function returns — of the PUBLIC KEY for `keypair`, of R (first half of the SIGNATURE) for `signature` —
  i.e. it is declassified by the output (`keypairSign_is_public_key_bit`, `signatureSign_is_signature_bit`).  The
  traces are therefore the same for all secrets that lead to the same value of that public bit; compilers turn this
  `if` into a flag-to-integer move (the dynamic part of C19 sees identical instruction traces), but a source-level
  statement must count it. -/

section Ed25519
open Cx.Impl.Ed25519 Cx.Impl.Ge

/-- erasure: `keypairL` computes `Impl.Ed25519.keypair` (C13: = RFC 8032 key generation, never a panic) -/
theorem keypair_erasure (seed : Bytes) : (keypairL seed).val = keypair seed := keypairL_val seed

/-- erasure of the fixed-base multiplication and of the point encoding -/
theorem scalarmult_base_erasure (a : Impl.Scalar64.Scalar) : (scalarmult_baseL a).val = Ge.scalarmult_base a :=
  scalarmult_baseL_val a
theorem ge_to_bytes_erasure (g : Ge) : (ge_to_bytesL g).val = g.to_bytes := ge_to_bytesL_val g
theorem select_erasure (pos : Nat) (b : Int) : (selectL pos b).val = GePrecomp.select pos b := selectL_val pos b

/-- the comb (nibbles, recoding, 64 masked table selections, additions, doublings) has a CONSTANT trace whenever it
    does not panic: in particular the secret digit never reaches an index or a branch -/
theorem scalarmult_base_trace (a : Impl.Scalar64.Scalar) (h : (Ge.scalarmult_base a).isSome) :
    (scalarmult_baseL a).tr = scalarmultT :=
  (scalarmult_baseL_const a).out (by rw [scalarmult_baseL_val]; exact h)

/-- `select(pos, b)` reads row `pos` and all eight entries, whatever the secret digit `b ∈ [-8, 8]` -/
theorem select_noninterference (pos : Nat) (b b' : Int) (h : (GePrecomp.select pos b).isSome)
    (h' : (GePrecomp.select pos b').isSome) : (selectL pos b).tr = (selectL pos b').tr :=
  (selectL_const pos b).eq_of (selectL_const pos b') (by rw [selectL_val]; exact h) (by rw [selectL_val]; exact h')

/-- the trace of `keypair` is `keypairT` of ONE bit, the sign of x of the public point, for every 32-byte seed
    (unconditional: `Props.C13.keypair_is_rfc8032`) -/
theorem keypair_trace (seed : Bytes) (hs : seed.length = 32) :
    (keypairL seed).tr = keypairT (keypairSign seed) :=
  (keypairL_const seed).out (by rw [keypairL_val, Cx.Props.C13.keypair_is_rfc8032 seed hs]; rfl)

/-- that bit is bit 255 of the public key which `keypair` returns -/
theorem keypairSign_is_public_key_bit (seed kp pk : Bytes) (h : keypair seed = some (kp, pk)) :
    keypairSign seed = topBit pk := keypairSign_eq_topBit seed kp pk h

/-- **C19 (Ed25519 key generation)**: two seeds whose PUBLIC keys agree in bit 255 have the same trace -/
theorem keypair_noninterference (seed seed' kp kp' pk pk' : Bytes) (hs : seed.length = 32) (hs' : seed'.length = 32)
    (h : keypair seed = some (kp, pk)) (h' : keypair seed' = some (kp', pk')) (hb : topBit pk = topBit pk') :
    (keypairL seed).tr = (keypairL seed').tr := by
  rw [keypair_trace seed hs, keypair_trace seed' hs', keypairSign_eq_topBit seed kp pk h,
    keypairSign_eq_topBit seed' kp' pk' h', hb]

/-- all events before the last one are the same for EVERY seed -/
theorem keypair_trace_prefix_constant (seed seed' : Bytes) (hs : seed.length = 32) (hs' : seed'.length = 32) :
    (keypairL seed).tr.dropLast = (keypairL seed').tr.dropLast := by
  rw [keypair_trace seed hs, keypair_trace seed' hs']
  simp only [keypairT, publicT, toBytesT, ← List.append_assoc, List.dropLast_concat]

/-- erasure: `signatureL` computes `Impl.Ed25519.signature` (C13: = RFC 8032 signing) -/
theorem signature_erasure (msg kp : Bytes) : (signatureL msg kp).val = signature msg kp := signatureL_val msg kp

/-- the trace of `signature` is `signatureT` of the message LENGTH and of ONE bit, the sign of x of R -/
theorem signature_trace (seed pk msg : Bytes) (hs : seed.length = 32) (hpk : pk.length = 32)
    (hm : msg.length < 2 ^ 124) :
    (signatureL msg (seed ++ pk)).tr = signatureT msg.length (signatureSign msg (seed ++ pk)) :=
  (signatureL_const msg (seed ++ pk)).out
    (by rw [signatureL_val, Cx.Props.C13.signature_with_any_public_half seed pk msg hs hpk hm]; rfl)

/-- that bit is bit 255 of the signature's first half R -/
theorem signatureSign_is_signature_bit (msg kp sig : Bytes) (h : signature msg kp = some sig) :
    signatureSign msg kp = topBit sig := signatureSign_eq_topBit msg kp sig h

/-- **C19 (Ed25519 signing)**: for messages of the same length, two signing runs (any seeds, any messages, any
    public-key halves) whose SIGNATURES agree in bit 255 of R have the same trace — the secret scalar, the prefix and
    the nonce scalar r = H(prefix ‖ M) do not influence it otherwise -/
theorem signature_noninterference (seed seed' pk pk' msg msg' sig sig' : Bytes)
    (hs : seed.length = 32) (hs' : seed'.length = 32) (hpk : pk.length = 32) (hpk' : pk'.length = 32)
    (hm : msg.length < 2 ^ 124) (hl : msg.length = msg'.length)
    (h : signature msg (seed ++ pk) = some sig) (h' : signature msg' (seed' ++ pk') = some sig')
    (hb : topBit sig = topBit sig') :
    (signatureL msg (seed ++ pk)).tr = (signatureL msg' (seed' ++ pk')).tr := by
  rw [signature_trace seed pk msg hs hpk hm, signature_trace seed' pk' msg' hs' hpk' (hl ▸ hm),
    signatureSign_eq_topBit _ _ _ h, signatureSign_eq_topBit _ _ _ h', hb, hl]

/-- all events before the sign branch, and all after it, are the same for every seed and every message of that length -/
theorem signature_trace_shape (seed pk msg : Bytes) (hs : seed.length = 32) (hpk : pk.length = 32)
    (hm : msg.length < 2 ^ 124) :
    ∃ b : Bool, (signatureL msg (seed ++ pk)).tr =
      extendedSecretT ++ [.length 32, .length msg.length] ++ scalarmultT ++ invertT ++ [.branch b] ++
        [.length 64, .length msg.length] :=
  ⟨signatureSign msg (seed ++ pk), by
    rw [signature_trace seed pk msg hs hpk hm]
    simp only [signatureT, signTailT, toBytesT, List.append_assoc]⟩

/-- `signature_extended` (secret: the 64-byte extended key): erasure, and the trace as a function of the message
    length and the two public sign bits (of A and of R) -/
theorem signature_extended_erasure (msg ext : Bytes) :
    (signature_extendedL msg ext).val = signature_extended msg ext := signature_extendedL_val msg ext

theorem signature_extended_trace (msg ext : Bytes) (hl : ext.length = 64) (hlt : leNat (ext.take 32) < 2 ^ 255)
    (hm : msg.length < 2 ^ 124) :
    (signature_extendedL msg ext).tr = signatureExtendedT msg.length (pkSign ext) (extendedSign msg ext) :=
  (signature_extendedL_const msg ext hl).out
    (by rw [signature_extendedL_val, Cx.Props.C13.signature_extended_is_spec msg ext hl hlt hm]; rfl)

/-- non-vacuity of the hypotheses of `select_noninterference`: two secret digits for which the model does not panic -/
example : (GePrecomp.select 3 (-5)).isSome ∧ (GePrecomp.select 3 7).isSome := by decide +kernel

/-- non-vacuity of the hypotheses -/
example : (List.replicate 32 (7 : UInt8)).length = 32 ∧ (List.replicate 300 (1 : UInt8)).length < 2 ^ 124 :=
  ⟨List.length_replicate, by rw [List.length_replicate]; decide⟩

/-- test (evaluation): size of the constant part -/
example : scalarmultT.length = 69 + 2 + 32 * 3 + 1 + 32 * 3 := by decide +kernel

/-- NEGATIVE CONTROL (test by evaluation): a table selection with an early-exit search is NOT non-interferent —
    the digits 1 and 3 give different traces -/
theorem earlyExit_select_leaks :
    ¬ (∀ (row : List GePrecomp) (d d' : Nat),
        (selectEarlyExitL row d 8 0).tr = (selectEarlyExitL row d' 8 0).tr) := by
  intro h
  exact absurd (h [GePrecomp.ZERO, GePrecomp.ZERO, GePrecomp.ZERO] 1 3) (by decide +kernel)

/-- the variable-time loops of `double_scalarmult_vartime` (`verify`; PUBLIC digits): erasure … -/
theorem dsm_erasure (ai : List GeCached) (aslide bslide : List Int) :
    (dsmMainL ai aslide bslide).val =
      (match topIndex aslide bslide 256 with
       | none => pure GePartial.ZERO
       | some i => dsmLoop ai aslide bslide (i + 1) GePartial.ZERO) := dsmMainL_val ai aslide bslide

/-- … and SENSITIVITY of the instrumentation (test by evaluation): the first loop alone already has different
    traces for different public digit strings (`verify` is variable-time, on public data) -/
theorem vartime_loop_trace_depends_on_public_digits :
    (topIndexL [0, 0, 1] [0, 0, 0] 3).tr ≠ (topIndexL [0, 1, 0] [0, 0, 0] 3).tr := by decide +kernel

end Ed25519

/-! ## (e) ChaCha / Salsa encryption (`process`, `process_mut` of `ChaCha<R>`, `XChaCha<R>`, `ChaChaOriginal<R>`,
       `Salsa<R>`, `XSalsa<R>`; portable and SSE2 ChaCha engines)

  public: the LENGTH of the data, the position in the stream (`offset`, block counter), the nonce.
  secret: the key (state words 4..11 resp. the Salsa key words) and the plaintext.
  Instrumented: the `while i < len` test, `if self.offset == 64`, `update` (`rounds` = a `ROUNDS/2`-iteration loop of
  additions, xors and constant rotations; `add_back`; `output_bytes`; the counter increment with its carry BRANCH in
  `increment64` / Salsa `increment`), `min`, the slice lengths handed to `xor_keystream_mut`.  The theorems are
  unconditional (no "does not panic" premise): every refusal (`offset > 64`, length mismatch) is decided by public data. -/

section Stream
open Cx.Impl Cx.Impl.StreamCtx Cx.Impl.ChaCha

/-- erasure, generic: for every instrumented generator that satisfies `BlockGenLeak` -/
theorem process_erasure {σ : Type} {g : BlockGen σ} {G : BlockGenL σ} (L : BlockGenLeak g G) (c : Ctx σ)
    (input : Bytes) (outputLen : Nat) : (processL G c input outputLen).val = process g c input outputLen :=
  processL_val L c input outputLen

theorem process_mut_erasure {σ : Type} {g : BlockGen σ} {G : BlockGenL σ} (L : BlockGenLeak g G) (c : Ctx σ)
    (data : Bytes) : (process_mutL G c data).val = process_mut g c data :=
  process_mutL_val L _ c data (Nat.le_refl _)

/-- erasure for the concrete context types (`ChaCha.process … = StreamCtx.process (gen …)` by definition) -/
theorem chacha20_process_erasure (R : Nat) (c : Ctx W16) (input : Bytes) (n : Nat) :
    (processL (ChaChaL.refGenL R) c input n).val = ChaCha.process referenceEngine R c input n :=
  processL_val (refLeak R) c input n

theorem chacha20_sse2_process_erasure (R : Nat) (c : Ctx Sse2.State) (input : Bytes) (n : Nat) :
    (processL (ChaChaL.sse2GenL R) c input n).val = ChaCha.process sse2Engine R c input n :=
  processL_val (sse2Leak R) c input n

theorem xchacha20_process_erasure (R : Nat) (c : Ctx W16) (input : Bytes) (n : Nat) :
    (processL (ChaChaL.refGenL R) c input n).val = XChaCha.process referenceEngine R c input n :=
  processL_val (refLeak R) c input n

theorem chachaOriginal_process_erasure (R : Nat) (c : Ctx W16) (input : Bytes) (n : Nat) :
    (processL (ChaChaL.refGen64L R) c input n).val = ChaChaOriginal.process referenceEngine R c input n :=
  processL_val (refLeak64 R) c input n

theorem chachaOriginal_sse2_process_erasure (R : Nat) (c : Ctx Sse2.State) (input : Bytes) (n : Nat) :
    (processL (ChaChaL.sse2Gen64L R) c input n).val = ChaChaOriginal.process sse2Engine R c input n :=
  processL_val (sse2Leak64 R) c input n

theorem salsa20_process_erasure (R : Nat) (c : Ctx W16) (input : Bytes) (n : Nat) :
    (processL (SalsaL.genL R) c input n).val = Salsa.Salsa.process R c input n :=
  processL_val (salsaLeak R) c input n

/-- **C19 (ChaCha20 / XChaCha20, portable engine)**: two contexts at the same stream position (whatever their keys,
    nonces and counters) and inputs of the same length give the same trace -/
theorem chacha20_process_noninterference (R : Nat) (c c' : Ctx W16) (input input' : Bytes) (n : Nat)
    (hl : input.length = input'.length) (ho : c.offset = c'.offset) (hb : c.output.length = c'.output.length) :
    (processL (ChaChaL.refGenL R) c input n).tr = (processL (ChaChaL.refGenL R) c' input' n).tr :=
  processL_ni (refLeak R) c c' input input' n hl ⟨ho, hb, rfl⟩

/-- the same on the SSE2 engine -/
theorem chacha20_sse2_process_noninterference (R : Nat) (c c' : Ctx Sse2.State) (input input' : Bytes) (n : Nat)
    (hl : input.length = input'.length) (ho : c.offset = c'.offset) (hb : c.output.length = c'.output.length) :
    (processL (ChaChaL.sse2GenL R) c input n).tr = (processL (ChaChaL.sse2GenL R) c' input' n).tr :=
  processL_ni (sse2Leak R) c c' input input' n hl ⟨ho, hb, rfl⟩

/-- in particular for freshly created contexts: every key (and nonce) gives the same trace -/
theorem chacha20_encrypt_noninterference (R : Nat) (key key' nonce nonce' : Bytes) (c c' : Ctx W16)
    (input input' : Bytes) (n : Nat) (h : ChaCha.new referenceEngine R key nonce = .ok c)
    (h' : ChaCha.new referenceEngine R key' nonce' = .ok c') (hl : input.length = input'.length) :
    (processL (ChaChaL.refGenL R) c input n).tr = (processL (ChaChaL.refGenL R) c' input' n).tr := by
  obtain ⟨s, rfl⟩ := chacha_new_ok _ _ _ _ _ h
  obtain ⟨s', rfl⟩ := chacha_new_ok _ _ _ _ _ h'
  exact processL_ni (refLeak R) _ _ input input' n hl (mk_lowEq_unit (refLeak R) s s' rfl)

theorem chacha20_sse2_encrypt_noninterference (R : Nat) (key key' nonce nonce' : Bytes) (c c' : Ctx Sse2.State)
    (input input' : Bytes) (n : Nat) (h : ChaCha.new sse2Engine R key nonce = .ok c)
    (h' : ChaCha.new sse2Engine R key' nonce' = .ok c') (hl : input.length = input'.length) :
    (processL (ChaChaL.sse2GenL R) c input n).tr = (processL (ChaChaL.sse2GenL R) c' input' n).tr := by
  obtain ⟨s, rfl⟩ := chacha_new_ok _ _ _ _ _ h
  obtain ⟨s', rfl⟩ := chacha_new_ok _ _ _ _ _ h'
  exact processL_ni (sse2Leak R) _ _ input input' n hl (mk_lowEq_unit (sse2Leak R) s s' rfl)

theorem xchacha20_encrypt_noninterference (R : Nat) (key key' nonce nonce' : Bytes) (c c' : Ctx W16)
    (input input' : Bytes) (n : Nat) (h : XChaCha.new referenceEngine R key nonce = .ok c)
    (h' : XChaCha.new referenceEngine R key' nonce' = .ok c') (hl : input.length = input'.length) :
    (processL (ChaChaL.refGenL R) c input n).tr = (processL (ChaChaL.refGenL R) c' input' n).tr := by
  obtain ⟨s, rfl⟩ := xchacha_new_ok _ _ _ _ _ h
  obtain ⟨s', rfl⟩ := xchacha_new_ok _ _ _ _ _ h'
  exact processL_ni (refLeak R) _ _ input input' n hl (mk_lowEq_unit (refLeak R) s s' rfl)

/-- **C19 (original ChaCha with the 64-bit counter)**: additionally the low counter word must agree — it is the
    public stream position; the carry into `state[13]` is a branch on it -/
theorem chachaOriginal_process_noninterference (R : Nat) (c c' : Ctx W16) (input input' : Bytes) (n : Nat)
    (hl : input.length = input'.length) (ho : c.offset = c'.offset) (hb : c.output.length = c'.output.length)
    (hc : c.state.x12 = c'.state.x12) :
    (processL (ChaChaL.refGen64L R) c input n).tr = (processL (ChaChaL.refGen64L R) c' input' n).tr :=
  processL_ni (refLeak64 R) c c' input input' n hl ⟨ho, hb, hc⟩

theorem chachaOriginal_sse2_process_noninterference (R : Nat) (c c' : Ctx Sse2.State) (input input' : Bytes) (n : Nat)
    (hl : input.length = input'.length) (ho : c.offset = c'.offset) (hb : c.output.length = c'.output.length)
    (hc : c.state.d.l0 = c'.state.d.l0) :
    (processL (ChaChaL.sse2Gen64L R) c input n).tr = (processL (ChaChaL.sse2Gen64L R) c' input' n).tr :=
  processL_ni (sse2Leak64 R) c c' input input' n hl ⟨ho, hb, hc⟩

theorem chachaOriginal_encrypt_noninterference (R : Nat) (key key' nonce nonce' : Bytes) (c c' : Ctx W16)
    (input input' : Bytes) (n : Nat) (h : ChaChaOriginal.new referenceEngine R key nonce = .ok c)
    (h' : ChaChaOriginal.new referenceEngine R key' nonce' = .ok c') (hl : input.length = input'.length) :
    (processL (ChaChaL.refGen64L R) c input n).tr = (processL (ChaChaL.refGen64L R) c' input' n).tr := by
  obtain ⟨s, rfl, hs⟩ := chachaOriginal_new_ok _ _ _ _ h
  obtain ⟨s', rfl, hs'⟩ := chachaOriginal_new_ok _ _ _ _ h'
  exact processL_ni (refLeak64 R) _ _ input input' n hl
    (mk_lowEq_unit (refLeak64 R) s s' (show s.x12 = s'.x12 by rw [hs, hs']))

/-- **C19 (Salsa20 / XSalsa20)** -/
theorem salsa20_process_noninterference (R : Nat) (c c' : Ctx W16) (input input' : Bytes) (n : Nat)
    (hl : input.length = input'.length) (ho : c.offset = c'.offset) (hb : c.output.length = c'.output.length)
    (hc : c.state.x8 = c'.state.x8) :
    (processL (SalsaL.genL R) c input n).tr = (processL (SalsaL.genL R) c' input' n).tr :=
  processL_ni (salsaLeak R) c c' input input' n hl ⟨ho, hb, hc⟩

theorem salsa20_encrypt_noninterference (R : Nat) (key key' nonce nonce' : Bytes) (c c' : Ctx W16)
    (input input' : Bytes) (n : Nat) (h : Salsa.Salsa.new R key nonce = .ok c)
    (h' : Salsa.Salsa.new R key' nonce' = .ok c') (hl : input.length = input'.length) :
    (processL (SalsaL.genL R) c input n).tr = (processL (SalsaL.genL R) c' input' n).tr := by
  obtain ⟨s, rfl, hs⟩ := salsa_new_ok _ _ _ _ h
  obtain ⟨s', rfl, hs'⟩ := salsa_new_ok _ _ _ _ h'
  exact processL_ni (salsaLeak R) _ _ input input' n hl
    (mk_lowEq_unit (salsaLeak R) s s' (show s.x8 = s'.x8 by rw [hs, hs']))

/-- non-vacuity: a concrete key / nonce gives a context -/
example : ∃ c, ChaCha.new referenceEngine 20 (List.replicate 32 7) (List.replicate 12 1) = .ok c := ⟨_, rfl⟩

/-- NEGATIVE CONTROL (test by evaluation): a generator that looks a key byte up in a table is NOT non-interferent -/
theorem sbox_block_leaks : ¬ (∀ s s' : W16, (sboxBlockL s).tr = (sboxBlockL s').tr) := by
  intro h
  exact absurd (h W16.zero { W16.zero with x4 := 1 }) (by decide)

end Stream

/-! ## (d) HMAC tag computation (`Hmac::new`, `input`, `result` / `raw_result`), generic in the digest; the buffering
       of the Merkle–Damgård engines

  public: the LENGTH of the key, the lengths of the `input` calls, the output length, the digest TYPE (block size,
  output size) and the public shadow of its state.  secret: the key bytes (hence `i_key`, `o_key`) and the message.
  Instrumented: `expand_key` (the test `key.len() <= bs`, the hash of a long key), `derive_key` (a loop over the block,
  xor with the pad), `create_keys`, `new`, `input` (`assert!(!self.finished)`), `raw_result` (`if !self.finished`),
  `result`.  The key only ever flows into `derive_key`'s xor and into `digest.input`.

  The digest is a type parameter: what is needed of it is the explicit hypothesis record `DigestLeak` (it computes the
  digest model; its events, its panics and its public shadow depend on the public shadow and on argument LENGTHS only).
  For the MD engines the central piece of that hypothesis — `FixedBuffer::input`, the three buffering regimes — is
  proved below (`fixedbuffer_input_*`); the assembly of a `DigestLeak` instance for a concrete engine (padding, length
  field, the compression loop, the legacy wrapper) is NOT done: `hmac_*` are theorems about `hmac.rs` for every digest
  that satisfies the record. -/

section Hmac
open Cx.Impl Cx.Impl.Digest Cx.Impl.Hmac
variable {δ : Type} {D : DigestModel δ} {DL : DigestL δ}

/-- erasure: the instrumented one-shot HMAC computes `Impl.Hmac.oneShot` (C08: = RFC 2104) -/
theorem hmac_erasure (L : DigestLeak D DL) (d : δ) (key msg : Bytes) :
    (hmacOneShotL D DL d key msg).val = oneShot D d key msg := hmacOneShotL_val L d key msg

theorem hmac_new_erasure (L : DigestLeak D DL) (d : δ) (key : Bytes) :
    (Hmac.newL D DL d key).val = Hmac.new D d key := Hmac.newL_val L d key
theorem hmac_input_erasure (L : DigestLeak D DL) (h : Hmac δ) (data : Bytes) :
    (Hmac.inputL DL h data).val = Hmac.input D h data := Hmac.inputL_val L h data
theorem hmac_raw_result_erasure (L : DigestLeak D DL) (h : Hmac δ) (n : Nat) :
    (Hmac.raw_resultL DL h n).val = Hmac.raw_result D h n := Hmac.raw_resultL_val L h n

/-- **C19 (HMAC)**, `_partial`: with the same digest object, keys of the same length and messages of the same length
    give the same trace — whatever the key bytes (short keys are padded, long keys hashed: the branch is on the LENGTH).
    FULL statement (not proved): the same with `D := legacyDigest sha256Ctx` (… every digest of the crate) and NO
    hypothesis `L`; missing: a `DigestLeak` instance for the concrete engines (see the section header). -/
theorem hmac_noninterference_partial (L : DigestLeak D DL) (d : δ) (key key' msg msg' : Bytes)
    (hk : key.length = key'.length) (hm : msg.length = msg'.length) :
    (hmacOneShotL D DL d key msg).tr = (hmacOneShotL D DL d key' msg').tr :=
  (hmacOneShotL_ni L d d key key' msg msg' rfl hk hm).tr

/-- … and the two computations panic together (a refusal is decided by public data) -/
theorem hmac_panics_are_public_partial (L : DigestLeak D DL) (d : δ) (key key' msg msg' : Bytes)
    (hk : key.length = key'.length) (hm : msg.length = msg'.length) :
    (oneShot D d key msg).isSome = (oneShot D d key' msg').isSome := by
  rw [← hmac_erasure L, ← hmac_erasure L]
  exact (hmacOneShotL_ni L d d key key' msg msg' rfl hk hm).both

/-- the key schedule alone -/
theorem hmac_new_noninterference_partial (L : DigestLeak D DL) (d : δ) (key key' : Bytes) (hk : key.length = key'.length) :
    (Hmac.newL D DL d key).tr = (Hmac.newL D DL d key').tr := (Hmac.newL_ni L d d key key' rfl hk).tr

/-- non-vacuity of `DigestLeak`: a (toy) digest object satisfies the record -/
example : ∃ (D : DigestModel Bytes) (DL : DigestL Bytes), Nonempty (DigestLeak D DL) :=
  ⟨{ input := fun d b => some (d ++ b), result := fun d n => some (d, zeros n), reset := fun _ => some [],
     output_bits := fun _ => 256, block_size := fun _ => 64 },
   { inputL := fun d b => LO.lift (some (d ++ b)), resultL := fun d n => LO.lift (some (d, zeros n)),
     resetL := fun _ => LO.lift (some []) },
   ⟨{ π := Nat, pub := fun d => d.length,
      input_val := fun _ _ => LO.lift_val _, result_val := fun _ _ => LO.lift_val _, reset_val := fun _ => LO.lift_val _,
      input_ni := fun d d' b b' h hb => NI.lift _ _ rfl (fun a a' ha ha' => by
        cases ha; cases ha'; simp only [List.length_append]; rw [show d.length = d'.length from h, hb]),
      result_ni := fun d d' n h => NI.lift _ _ rfl (fun a a' ha ha' => by cases ha; cases ha'; exact ⟨h, rfl⟩),
      reset_ni := fun _ _ _ => NI.lift _ _ rfl (fun a a' ha ha' => by cases ha; cases ha'; rfl),
      block_size_pub := fun _ _ _ => rfl, output_bits_pub := fun _ _ _ => rfl }⟩⟩

/-- the MD engines' buffer: erasure of the instrumented `FixedBuffer::input` … -/
theorem fixedbuffer_input_erasure {σ : Type} (N : Nat) (self : FixedBuffer) (inp : Bytes)
    (funcL : σ → Bytes → LO σ) (func : σ → Bytes → Option σ) (hf : ∀ s b, (funcL s b).val = func s b) (st : σ) :
    (FixedBuffer.inputL N self inp funcL st).val = FixedBuffer.input N self inp func st :=
  FixedBuffer.inputL_val N self inp funcL func hf st

/-- … and its non-interference: which of the three regimes runs, every slice bound and every refusal depend on the
    fill `buffer_idx` and on `input.len()` only -/
theorem fixedbuffer_input_noninterference {σ : Type} {R : σ → σ → Prop} (N : Nat) (b b' : FixedBuffer)
    (inp inp' : Bytes) (funcL : σ → Bytes → LO σ)
    (hf : ∀ s s' x x', R s s' → x.length = x'.length → NI (funcL s x) (funcL s' x') R) (st st' : σ)
    (hb : b.buffer.length = b'.buffer.length) (hi : b.buffer_idx = b'.buffer_idx) (hl : inp.length = inp'.length)
    (hst : R st st') :
    (FixedBuffer.inputL N b inp funcL st).tr = (FixedBuffer.inputL N b' inp' funcL st').tr :=
  (FixedBuffer.inputL_ni N b b' inp inp' funcL hf st st' ⟨hb, hi⟩ hl hst).tr

end Hmac

end Cx.Props.C19
