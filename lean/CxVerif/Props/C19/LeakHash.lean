/-
  Props.C19.LeakHash — C19 "Poly1305 and HMAC tag computation", the HMAC half made UNCONDITIONAL: the hypothesis
  `DigestLeak D DL` of Props/C19/LeakReal.lean §(d) ("the digest's events, panics and public shadow depend on lengths
  only") is PROVED for the digest objects of the crate, on instrumented models written by following the Rust source
  statement by statement (Impl/LeakModelHash.lean; same event conventions as Impl/LeakModel.lean):

    (g) `cryptoutil::FixedBuffer<N>`: `next`, `zero_until`, `full_buffer`, `standard_padding` (`input`: LeakReal §(d)),
    (h) SHA-2: `eng256/eng512::Engine::blocks` (length assertion + the block loop; the compression function is
        straight-line word arithmetic and emits nothing), `Engine256/512::{input, finish}`, the six `digest!` contexts,
    (i) SHA-1 and RIPEMD-160: `digest_block(s)` / `process_msg_block(s)`, the two contexts,
    (j) the macro-generated legacy `Digest` wrappers (`input`, `result`, `reset`; `assert!(!self.computed)`,
        `copy_from_slice`), generic in the wrapped context: `legacy_digest_leak`,
    (l) the SHA-3 / Keccak sponge: `process`, `finalize` (`pad_len`, `set_domain_sep`, `set_pad`), `output`, the contexts,
    (m) BLAKE2b / BLAKE2s: `update_mut`, `internal_final`, `increment_counter`, the legacy wrappers of src/blake2b.rs,
        src/blake2s.rs,
    (k) HMAC: `Hmac::new(D, key)`, one `input` per chunk, `raw_result` / `result`,
    (n) the ChaCha20-Poly1305 AEAD: `Context::{new, add_data, to_encryption, to_decryption}`,
        `ContextEncryption::{encrypt, encrypt_mut, finalize}`, `ContextDecryption::{decrypt, decrypt_mut, finalize}`, the
        one-shot `ChaChaPoly1305::{new, encrypt, decrypt}` (on the instrumented ChaCha and Poly1305 of LeakReal).

  For every instrumented function there is an ERASURE theorem (`(fL args).val = f args`, `f` the plain model of the
  functional theorems C01 / C02 / C08) and a NON-INTERFERENCE theorem in the relational form `NI m m' R` of
  Proofs/LeakModelHmac.lean: the two runs have the same trace, panic together, and end in `R`-related states, where the
  relations only mention the PUBLIC SHADOW of a state: buffer size and fill, flags, (BLAKE2: the byte counter), sizes.
  Chaining values, buffered bytes and the SHA-2 byte counters are not in it.  No "does not panic" premise is needed:
  every refusal (assertions, slice bounds, `copy_from_slice`) is decided by public data.

  `hmac_noninterference (L : DigestLeak D DL)` is the generic statement (any number of `input` calls);
  `hmac_sha256_noninterference` … are its instances WITHOUT hypothesis: for a fixed key LENGTH and fixed chunk LENGTHS
  the trace of `new`, `input` per chunk, `raw_result` is the same for every key content and every message content.
  `hmac_instrumented_value` ties the instrumented run to RFC 2104 through C08.

  Not covered: see the end of this file.
-/
import CxVerif.Proofs.LeakModelHashSha2
import CxVerif.Proofs.LeakModelHashMd
import CxVerif.Proofs.LeakModelHashSponge
import CxVerif.Proofs.LeakModelHashBlake2
import CxVerif.Proofs.LeakModelHashAead
import CxVerif.Props.C08.Hmac
namespace Cx.Props.C19
open Cx Cx.Impl Cx.Impl.LeakModel Cx.Proofs.LeakModel Cx.Impl.Digest Cx.Impl.Hmac

/-! ## (k) HMAC, generic in the digest, any number of `input` calls -/

section Generic
variable {δ : Type} {D : DigestModel δ} {DL : DigestL δ}

/-- erasure: `new; input per chunk; raw_result` computes the plain sequence of `Impl.Hmac` calls -/
theorem hmac_chunks_erasure (L : DigestLeak D DL) (d : δ) (key : Bytes) (chunks : List Bytes) (n : Nat) :
    (hmacChunksL D DL d key chunks n).val = hmacChunks D d key chunks n := hmacChunksL_val L d key chunks n

theorem hmac_chunks_result_erasure (L : DigestLeak D DL) (d : δ) (key : Bytes) (chunks : List Bytes) :
    (hmacChunksResultL D DL d key chunks).val = hmacChunksResult D d key chunks := hmacChunksResultL_val L d key chunks

/-- the plain sequence is the one of `Props.C08.hmac_generic` (`chunks.foldlM (Hmac.input D)`) -/
theorem hmac_inputs_is_foldlM (h : Hmac δ) (chunks : List Bytes) :
    Hmac.inputs D h chunks = chunks.foldlM (Hmac.input D) h := Hmac.inputs_eq_foldlM D chunks h

/-- **C19 (HMAC), generic**: for a digest type that satisfies `DigestLeak`, a fixed key LENGTH and fixed chunk LENGTHS
    give the same trace for every key content and every message content -/
theorem hmac_noninterference (L : DigestLeak D DL) (d : δ) (key key' : Bytes) (chunks chunks' : List Bytes) (n : Nat)
    (hk : key.length = key'.length) (hc : chunks.map List.length = chunks'.map List.length) :
    (hmacChunksL D DL d key chunks n).tr = (hmacChunksL D DL d key' chunks' n).tr :=
  (hmacChunksL_ni L d d key key' chunks chunks' n rfl hk hc).tr

theorem hmac_result_noninterference (L : DigestLeak D DL) (d : δ) (key key' : Bytes) (chunks chunks' : List Bytes)
    (hk : key.length = key'.length) (hc : chunks.map List.length = chunks'.map List.length) :
    (hmacChunksResultL D DL d key chunks).tr = (hmacChunksResultL D DL d key' chunks').tr :=
  (hmacChunksResultL_ni L d d key key' chunks chunks' rfl hk hc).tr

/-- … and the two computations panic together -/
theorem hmac_panics_are_public (L : DigestLeak D DL) (d : δ) (key key' : Bytes) (chunks chunks' : List Bytes) (n : Nat)
    (hk : key.length = key'.length) (hc : chunks.map List.length = chunks'.map List.length) :
    (hmacChunks D d key chunks n).isSome = (hmacChunks D d key' chunks' n).isSome := by
  rw [← hmac_chunks_erasure L, ← hmac_chunks_erasure L]
  exact (hmacChunksL_ni L d d key key' chunks chunks' n rfl hk hc).both

end Generic

/-! ## (g) the rest of `FixedBuffer` -/

theorem standard_padding_erasure {σ : Type} (N : Nat) (self : FixedBuffer) (rem : Nat)
    (funcL : σ → Bytes → LO σ) (func : σ → Bytes → Option σ) (hf : ∀ s b, (funcL s b).val = func s b) (st : σ) :
    (FixedBuffer.standard_paddingL N self rem funcL st).val = self.standard_padding N rem func st :=
  FixedBuffer.standard_paddingL_val N self rem funcL func hf st

/-- whether the extra block is compressed, every slice bound and every refusal depend on the fill only -/
theorem standard_padding_noninterference {σ : Type} {R : σ → σ → Prop} (N : Nat) (b b' : FixedBuffer) (rem : Nat)
    (funcL : σ → Bytes → LO σ)
    (hf : ∀ s s' x x', R s s' → x.length = x'.length → NI (funcL s x) (funcL s' x') R) (st st' : σ)
    (hb : b.buffer.length = b'.buffer.length) (hi : b.buffer_idx = b'.buffer_idx) (hst : R st st') :
    (FixedBuffer.standard_paddingL N b rem funcL st).tr = (FixedBuffer.standard_paddingL N b' rem funcL st').tr :=
  (FixedBuffer.standard_paddingL_ni N b b' rem funcL hf st st' ⟨hb, hi⟩ hst).tr

/-! ## (j) the legacy `Digest` wrappers, generic in the wrapped context type -/

section Legacy
variable {γ : Type} {M : CtxModel γ} {ML : CtxL γ}

/-- **a legacy wrapper satisfies `DigestLeak` as soon as its context type satisfies `CtxLeak`** -/
def legacy_digest_leak (L : CtxLeak M ML) : DigestLeak (legacyDigest M) (legacyDigestL ML) := legacyLeak L

theorem legacy_input_erasure (L : CtxLeak M ML) (d : Legacy γ) (b : Bytes) :
    (Legacy.inputL ML d b).val = Legacy.input M d b := Legacy.inputL_val L d b
theorem legacy_result_erasure (L : CtxLeak M ML) (d : Legacy γ) (n : Nat) :
    (Legacy.resultL ML d n).val = Legacy.result M d n := Legacy.resultL_val L d n
theorem legacy_reset_erasure (L : CtxLeak M ML) (d : Legacy γ) :
    (Legacy.resetL ML d).val = some (Legacy.reset M d) := Legacy.resetL_val L d

/-- `Hmac::new(X::new(), key)`, `input` per chunk, `raw_result(&mut [0; n])` for the legacy wrapper `X` of the context
    model `M`: instrumented and plain -/
abbrev hmacLegacyL (M : CtxModel γ) (ML : CtxL γ) (key : Bytes) (chunks : List Bytes) (n : Nat) : LO Bytes :=
  hmacChunksL (legacyDigest M) (legacyDigestL ML) (Legacy.new M) key chunks n
abbrev hmacLegacy (M : CtxModel γ) (key : Bytes) (chunks : List Bytes) (n : Nat) : Option Bytes :=
  hmacChunks (legacyDigest M) (Legacy.new M) key chunks n
/-- … with `result()` -/
abbrev hmacLegacyResultL (M : CtxModel γ) (ML : CtxL γ) (key : Bytes) (chunks : List Bytes) : LO Bytes :=
  hmacChunksResultL (legacyDigest M) (legacyDigestL ML) (Legacy.new M) key chunks

/-- the instrumented run returns the RFC 2104 tag (through C08; the guards are those of `Props.C08.HmacCorrect`) -/
theorem hmac_instrumented_value (L : CtxLeak M ML) {H : Bytes → Bytes} {B Lw : Nat} {ok : Bytes → Prop}
    (hC : Cx.Props.C08.HmacCorrect M H B Lw ok) (key : Bytes) (chunks : List Bytes)
    (hk : key.length ≤ B ∨ ok key)
    (h1 : ok (Cx.Proofs.MacHmac.ikey H B key ++ chunks.flatten))
    (h2 : ok (Cx.Proofs.MacHmac.okey H B key ++ H (Cx.Proofs.MacHmac.ikey H B key ++ chunks.flatten))) :
    (hmacLegacyResultL M ML key chunks).val = some (Spec.Hmac.hmac H B key chunks.flatten) := by
  obtain ⟨h, h', h'', e1, e2, e3, _, _⟩ := hC key chunks hk h1 h2
  rw [hmacLegacyResultL, hmac_chunks_result_erasure (legacyLeak L)]
  unfold hmacChunksResult
  rw [e1]
  simp only [Hmac.inputs_eq_foldlM, e2, e3, Option.map_some]

end Legacy

/-! ## (h) SHA-2: block functions, engines, contexts -/

section Sha2
open Cx.Impl.Sha2 Cx.Impl.LeakModel.Sha2L

theorem sha2_blocks256_erasure (s : Eng256.Engine) (d : Bytes) : (blocks256L s d).val = s.blocks d := blocks256L_val s d
theorem sha2_blocks512_erasure (s : Eng512.Engine) (d : Bytes) : (blocks512L s d).val = s.blocks d := blocks512L_val s d

/-- the block functions: trace and refusal depend on the LENGTH of the argument; nothing of the chaining value is public -/
theorem sha2_blocks256_noninterference (s s' : Eng256.Engine) (x x' : Bytes) (hx : x.length = x'.length) :
    (blocks256L s x).tr = (blocks256L s' x').tr := (blocks256L_ni s s' x x' hx).tr
theorem sha2_blocks512_noninterference (s s' : Eng512.Engine) (x x' : Bytes) (hx : x.length = x'.length) :
    (blocks512L s x).tr = (blocks512L s' x').tr := (blocks512L_ni s s' x x' hx).tr

theorem sha2_engine256_input_erasure (e : Engine256) (inp : Bytes) : (Engine256.inputL e inp).val = e.input inp :=
  Engine256.inputL_val e inp
theorem sha2_engine256_finish_erasure (e : Engine256) : (Engine256.finishL e).val = e.finish := Engine256.finishL_val e
theorem sha2_engine512_input_erasure (e : Engine512) (inp : Bytes) : (Engine512.inputL e inp).val = e.input inp :=
  Engine512.inputL_val e inp
theorem sha2_engine512_finish_erasure (e : Engine512) : (Engine512.finishL e).val = e.finish := Engine512.finishL_val e

/-- `Engine256::input`: same buffer size / fill / `finished` flag and inputs of the same length ⇒ same trace -/
theorem sha2_engine256_input_noninterference (e e' : Engine256) (b b' : Bytes)
    (hl : e.buffer.buffer.length = e'.buffer.buffer.length) (hi : e.buffer.buffer_idx = e'.buffer.buffer_idx)
    (hf : e.finished = e'.finished) (hb : b.length = b'.length) :
    (Engine256.inputL e b).tr = (Engine256.inputL e' b').tr := (Engine256.inputL_ni e e' b b' ⟨⟨hl, hi⟩, hf⟩ hb).tr

/-- `Engine256::finish` (padding, one or two compressions, the length field): the trace depends on the fill only —
    not on the buffered bytes, the chaining value or the byte counter -/
theorem sha2_engine256_finish_noninterference (e e' : Engine256)
    (hl : e.buffer.buffer.length = e'.buffer.buffer.length) (hi : e.buffer.buffer_idx = e'.buffer.buffer_idx)
    (hf : e.finished = e'.finished) :
    (Engine256.finishL e).tr = (Engine256.finishL e').tr := (Engine256.finishL_ni e e' ⟨⟨hl, hi⟩, hf⟩).tr

theorem sha2_engine512_input_noninterference (e e' : Engine512) (b b' : Bytes)
    (hl : e.buffer.buffer.length = e'.buffer.buffer.length) (hi : e.buffer.buffer_idx = e'.buffer.buffer_idx)
    (hb : b.length = b'.length) :
    (Engine512.inputL e b).tr = (Engine512.inputL e' b').tr := (Engine512.inputL_ni e e' b b' ⟨hl, hi⟩ hb).tr

theorem sha2_engine512_finish_noninterference (e e' : Engine512)
    (hl : e.buffer.buffer.length = e'.buffer.buffer.length) (hi : e.buffer.buffer_idx = e'.buffer.buffer_idx) :
    (Engine512.finishL e).tr = (Engine512.finishL e').tr := (Engine512.finishL_ni e e' ⟨hl, hi⟩).tr

theorem sha2_ctx256_update_erasure (c : Ctx256) (b : Bytes) : (Ctx256.update_mutL c b).val = c.update_mut b :=
  Ctx256.update_mutL_val c b
theorem sha2_ctx256_finalize_reset_erasure (A : Alg256) (c : Ctx256) :
    (Ctx256.finalize_resetL A c).val = c.finalize_reset A := Ctx256.finalize_resetL_val A c
theorem sha2_ctx512_update_erasure (c : Ctx512) (b : Bytes) : (Ctx512.update_mutL c b).val = c.update_mut b :=
  Ctx512.update_mutL_val c b
theorem sha2_ctx512_finalize_reset_erasure (A : Alg512) (c : Ctx512) :
    (Ctx512.finalize_resetL A c).val = c.finalize_reset A := Ctx512.finalize_resetL_val A c

/-- the six `DigestLeak` instances (no hypothesis): `Sha224`, `Sha256`, `Sha384`, `Sha512`, `Sha512Trunc224`,
    `Sha512Trunc256` of src/sha2.rs -/
def sha224_digest_leak : DigestLeak (legacyDigest sha224Ctx) (legacyDigestL sha224CtxL) := sha224Leak
def sha256_digest_leak : DigestLeak (legacyDigest sha256Ctx) (legacyDigestL sha256CtxL) := sha256Leak
def sha384_digest_leak : DigestLeak (legacyDigest sha384Ctx) (legacyDigestL sha384CtxL) := sha384Leak
def sha512_digest_leak : DigestLeak (legacyDigest sha512Ctx) (legacyDigestL sha512CtxL) := sha512Leak
def sha512_224_digest_leak : DigestLeak (legacyDigest sha512_224Ctx) (legacyDigestL sha512_224CtxL) := sha512_224Leak
def sha512_256_digest_leak : DigestLeak (legacyDigest sha512_256Ctx) (legacyDigestL sha512_256CtxL) := sha512_256Leak

end Sha2

/-! ## (i) SHA-1, RIPEMD-160 -/

section Sha1Ripemd

theorem sha1_update_erasure (c : Sha1.Context) (b : Bytes) : (Sha1L.Context.update_mutL c b).val = c.update_mut b :=
  Sha1L.update_mutL_val c b
theorem sha1_finalize_reset_erasure (c : Sha1.Context) : (Sha1L.Context.finalize_resetL c).val = c.finalize_reset :=
  Sha1L.finalize_resetL_val c
theorem ripemd160_update_erasure (c : Ripemd160.Context) (b : Bytes) :
    (Ripemd160L.Context.update_mutL c b).val = c.update_mut b := Ripemd160L.update_mutL_val c b
theorem ripemd160_finalize_reset_erasure (c : Ripemd160.Context) :
    (Ripemd160L.Context.finalize_resetL c).val = c.finalize_reset := Ripemd160L.finalize_resetL_val c

/-- SHA-1 `update_mut` / `finalize_reset`: the trace depends on buffer size, fill and the input LENGTH only -/
theorem sha1_update_noninterference (c c' : Sha1.Context) (b b' : Bytes)
    (hl : c.buffer.buffer.length = c'.buffer.buffer.length) (hi : c.buffer.buffer_idx = c'.buffer.buffer_idx)
    (hb : b.length = b'.length) :
    (Sha1L.Context.update_mutL c b).tr = (Sha1L.Context.update_mutL c' b').tr :=
  (Sha1L.update_mutL_ni c c' b b' ((pubSha1_iff c c').mpr ⟨hl, hi⟩) hb).tr

theorem sha1_finalize_reset_noninterference (c c' : Sha1.Context)
    (hl : c.buffer.buffer.length = c'.buffer.buffer.length) (hi : c.buffer.buffer_idx = c'.buffer.buffer_idx) :
    (Sha1L.Context.finalize_resetL c).tr = (Sha1L.Context.finalize_resetL c').tr :=
  (Sha1L.finalize_resetL_ni c c' ((pubSha1_iff c c').mpr ⟨hl, hi⟩)).tr

theorem ripemd160_update_noninterference (c c' : Ripemd160.Context) (b b' : Bytes)
    (hl : c.buffer.buffer.length = c'.buffer.buffer.length) (hi : c.buffer.buffer_idx = c'.buffer.buffer_idx)
    (hb : b.length = b'.length) :
    (Ripemd160L.Context.update_mutL c b).tr = (Ripemd160L.Context.update_mutL c' b').tr :=
  (Ripemd160L.update_mutL_ni c c' b b' ((pubRipemd_iff c c').mpr ⟨hl, hi⟩) hb).tr

theorem ripemd160_finalize_reset_noninterference (c c' : Ripemd160.Context)
    (hl : c.buffer.buffer.length = c'.buffer.buffer.length) (hi : c.buffer.buffer_idx = c'.buffer.buffer_idx) :
    (Ripemd160L.Context.finalize_resetL c).tr = (Ripemd160L.Context.finalize_resetL c').tr :=
  (Ripemd160L.finalize_resetL_ni c c' ((pubRipemd_iff c c').mpr ⟨hl, hi⟩)).tr

def sha1_digest_leak : DigestLeak (legacyDigest sha1Ctx) (legacyDigestL sha1CtxL) := sha1Leak
def ripemd160_digest_leak : DigestLeak (legacyDigest ripemd160Ctx) (legacyDigestL ripemd160CtxL) := ripemd160Leak

end Sha1Ripemd

/-! ## (l) SHA-3 / Keccak: the sponge engine and the contexts

  public: the position `offset` in the rate block, the two phase flags, the array size (always 200), the LENGTHS of the
  arguments; `DIGESTLEN`, `DSLEN` (const generics).  secret: the 200 state bytes and every input byte.  The padding
  (`pad_len`, the domain-separation bits, `set_pad`) is a function of the position; `keccak_f` is called once per
  completed block. -/

section Sponge
open Cx.Impl.Sha3 Cx.Impl.LeakModel.Sha3L

theorem sha3_process_erasure (dl : Nat) (e : Engine) (data : Bytes) : (Engine.processL dl e data).val = e.process dl data :=
  Engine.processL_val dl e data
theorem sha3_finalize_erasure (dl ds : Nat) (e : Engine) : (Engine.finalizeL dl ds e).val = e.finalize dl ds :=
  Engine.finalizeL_val dl ds e
theorem sha3_set_pad_erasure (ds : Nat) (b : Bytes) : (set_padL ds b).val = set_pad ds b := set_padL_val ds b
theorem sha3_output_erasure (dl ds : Nat) (e : Engine) (n : Nat) : (Engine.outputL dl ds e n).val = e.output dl ds n :=
  Engine.outputL_val dl ds e n
theorem sha3_finalize_reset_erasure (dl ds : Nat) (c : Context) :
    (Context.finalize_resetL dl ds c).val = Context.finalize_reset dl ds c := Sha3L.finalize_resetL_val dl ds c

/-- `process` (absorb): same position / flags / array size and data of the same LENGTH ⇒ same trace, for every state
    content and every data content; no well-formedness premise (every refusal is public) -/
theorem sha3_process_noninterference (dl : Nat) (e e' : Engine) (d d' : Bytes)
    (hs : e.state.length = e'.state.length) (ha : e.can_absorb = e'.can_absorb) (hq : e.can_squeeze = e'.can_squeeze)
    (ho : e.offset = e'.offset) (hd : d.length = d'.length) :
    (Engine.processL dl e d).tr = (Engine.processL dl e' d').tr :=
  (Engine.processL_ni dl e e' d d' ⟨hs, ha, hq, ho⟩ hd).tr

/-- `finalize` (padding + last absorb) -/
theorem sha3_finalize_noninterference (dl ds : Nat) (e e' : Engine)
    (hs : e.state.length = e'.state.length) (ha : e.can_absorb = e'.can_absorb) (hq : e.can_squeeze = e'.can_squeeze)
    (ho : e.offset = e'.offset) :
    (Engine.finalizeL dl ds e).tr = (Engine.finalizeL dl ds e').tr := (Engine.finalizeL_ni dl ds e e' ⟨hs, ha, hq, ho⟩).tr

/-- `set_pad` touches positions that depend on the buffer LENGTH only -/
theorem sha3_set_pad_noninterference (ds : Nat) (b b' : Bytes) (h : b.length = b'.length) :
    (set_padL ds b).tr = (set_padL ds b').tr := (set_padL_ni ds b b' h).tr

/-- `output` (finalize if needed, squeeze) -/
theorem sha3_output_noninterference (dl ds : Nat) (e e' : Engine) (n : Nat)
    (hs : e.state.length = e'.state.length) (ha : e.can_absorb = e'.can_absorb) (hq : e.can_squeeze = e'.can_squeeze)
    (ho : e.offset = e'.offset) :
    (Engine.outputL dl ds e n).tr = (Engine.outputL dl ds e' n).tr := (Engine.outputL_ni dl ds e e' n ⟨hs, ha, hq, ho⟩).tr

/-- `CtxLeak` for every `sha3::Context<bits>` / `keccak::Context<bits>` and the eight `DigestLeak` instances of the
    legacy wrappers of src/sha3.rs -/
def sha3_ctx_leak (dl ds id : Nat) : CtxLeak (sha3Ctx dl ds id) (sha3CtxL dl ds) := sha3CtxLeak dl ds id
def sha3_224_digest_leak : DigestLeak (legacyDigest sha3_224Ctx) (legacyDigestL sha3_224CtxL) := sha3_224Leak
def sha3_256_digest_leak : DigestLeak (legacyDigest sha3_256Ctx) (legacyDigestL sha3_256CtxL) := sha3_256Leak
def sha3_384_digest_leak : DigestLeak (legacyDigest sha3_384Ctx) (legacyDigestL sha3_384CtxL) := sha3_384Leak
def sha3_512_digest_leak : DigestLeak (legacyDigest sha3_512Ctx) (legacyDigestL sha3_512CtxL) := sha3_512Leak
def keccak224_digest_leak : DigestLeak (legacyDigest keccak224Ctx) (legacyDigestL keccak224CtxL) := keccak224Leak
def keccak256_digest_leak : DigestLeak (legacyDigest keccak256Ctx) (legacyDigestL keccak256CtxL) := keccak256Leak
def keccak384_digest_leak : DigestLeak (legacyDigest keccak384Ctx) (legacyDigestL keccak384CtxL) := keccak384Leak
def keccak512_digest_leak : DigestLeak (legacyDigest keccak512Ctx) (legacyDigestL keccak512CtxL) := keccak512Leak

end Sponge

/-! ## (m) BLAKE2b / BLAKE2s: engine, contexts, legacy wrappers

  public: the byte counter `t` (bytes hashed so far — `increment_counter` branches on it), size and fill of the block
  buffer, the output length, the `computed` flag, the LENGTH of the key.  secret: the chaining value `h`, the buffered
  bytes, the key bytes, every input byte.  Generic in the word type (`W = UInt64`: BLAKE2b, `UInt32`: BLAKE2s) and in
  the counter profile. -/

section Blake2
open Cx.Impl.Blake2 Cx.Impl.LeakModel.Blake2L
variable {W : Type} [Spec.Blake2.Word W]

theorem blake2_increment_counter_erasure (pr : Profile) (e : Engine W) (inc : Nat) :
    (increment_counterL pr e inc).val = e.increment_counter pr inc := Blake2L.increment_counterL_val pr e inc
theorem blake2_update_mut_erasure (P : Spec.Blake2.Params W) (pr : Profile) (c : Ctx W) (input : Bytes) :
    (Ctx.update_mutL P pr c input).val = c.update_mut P pr input := Blake2L.update_mutL_val P pr c input
theorem blake2_internal_final_erasure (P : Spec.Blake2.Params W) (pr : Profile) (c : Ctx W) :
    (Ctx.internal_finalL P pr c).val = c.internal_final P pr := Blake2L.internal_finalL_val P pr c
theorem blake2_finalize_reset_at_erasure (P : Spec.Blake2.Params W) (pr : Profile) (c : Ctx W) (outlen outLen : Nat) :
    (Ctx.finalize_reset_atL P pr c outlen outLen).val = c.finalize_reset_at P pr outlen outLen :=
  Blake2L.finalize_reset_atL_val P pr c outlen outLen
theorem blake2_reset_with_key_erasure (P : Spec.Blake2.Params W) (c : Ctx W) (outlen : Nat) (key : Bytes) :
    (Ctx.reset_with_keyL P c outlen key).val = c.reset_with_key P outlen key := Blake2L.reset_with_keyL_val P c outlen key
theorem blake2_legacy_update_erasure (P : Spec.Blake2.Params W) (o : Digest.Blake2 W) (input : Bytes) :
    (Blake2L.updateL P o input).val = Digest.Blake2.update P o input := Blake2L.updateL_val P o input
theorem blake2_legacy_finalize_erasure (P : Spec.Blake2.Params W) (o : Digest.Blake2 W) (n : Nat) :
    (finalizeL P o n).val = Digest.Blake2.finalize P o n := Blake2L.finalizeL_val P o n
theorem blake2_legacy_reset_erasure (v : CodeVariant) (P : Spec.Blake2.Params W) (o : Digest.Blake2 W) :
    (resetL v P o).val = Digest.Blake2.reset v P o := Blake2L.resetL'_val v P o

/-- `update_mut`: same counter, same buffer size and fill, inputs of the same LENGTH ⇒ same trace -/
theorem blake2_update_mut_noninterference (P : Spec.Blake2.Params W) (pr : Profile) (c c' : Ctx W) (i i' : Bytes)
    (ht0 : c.eng.t0 = c'.eng.t0) (ht1 : c.eng.t1 = c'.eng.t1) (hb : c.buf.length = c'.buf.length)
    (hl : c.buflen = c'.buflen) (hi : i.length = i'.length) :
    (Ctx.update_mutL P pr c i).tr = (Ctx.update_mutL P pr c' i').tr :=
  (Blake2L.update_mutL_ni P pr c c' i i' ⟨⟨ht0, ht1⟩, hb, hl⟩ hi).tr

/-- `internal_final` (last counter increment, zero padding, last compression, serialisation of `h`) -/
theorem blake2_internal_final_noninterference (P : Spec.Blake2.Params W) (pr : Profile) (c c' : Ctx W)
    (ht0 : c.eng.t0 = c'.eng.t0) (ht1 : c.eng.t1 = c'.eng.t1) (hb : c.buf.length = c'.buf.length)
    (hl : c.buflen = c'.buflen) :
    (Ctx.internal_finalL P pr c).tr = (Ctx.internal_finalL P pr c').tr :=
  (Blake2L.internal_finalL_ni P pr c c' ⟨⟨ht0, ht1⟩, hb, hl⟩).tr

/-- `reset_with_key`: the key enters a `copy_from_slice` only; its LENGTH decides the branch -/
theorem blake2_reset_with_key_noninterference (P : Spec.Blake2.Params W) (c c' : Ctx W) (outlen : Nat) (key key' : Bytes)
    (ht0 : c.eng.t0 = c'.eng.t0) (ht1 : c.eng.t1 = c'.eng.t1) (hb : c.buf.length = c'.buf.length)
    (hl : c.buflen = c'.buflen) (hk : key.length = key'.length) :
    (Ctx.reset_with_keyL P c outlen key).tr = (Ctx.reset_with_keyL P c' outlen key').tr :=
  (Blake2L.reset_with_keyL_ni P c c' outlen key key' ⟨⟨ht0, ht1⟩, hb, hl⟩ hk).tr

/-- `impl Digest for Blake2b` / `Blake2s` satisfy `DigestLeak` (the tree as it is: `codeVariant`) -/
def blake2b_digest_leak : DigestLeak (blake2bDigest codeVariant) (blake2bDigestL codeVariant) := blake2bLeak codeVariant
def blake2s_digest_leak : DigestLeak (blake2sDigest codeVariant) (blake2sDigestL codeVariant) := blake2sLeak codeVariant

end Blake2

/-! ## (k) HMAC over the digests of the crate — no hypothesis left -/

/-- erasure, HMAC-SHA-224: `Hmac::new(Sha224::new(), key)`, `input` per chunk, `raw_result(&mut [0; n])`, instrumented, computes
    the plain model (the call sequence of `Props.C08.hmac_sha224`) -/
theorem hmac_sha224_erasure (key : Bytes) (chunks : List Bytes) (n : Nat) :
    (hmacLegacyL sha224Ctx sha224CtxL key chunks n).val = hmacLegacy sha224Ctx key chunks n :=
  hmacChunksL_val sha224Leak _ key chunks n

/-- **C19, HMAC-SHA-224, unconditional**: for a fixed key LENGTH and fixed chunk LENGTHS the trace of `new`, `input` per
    chunk, `raw_result` is the same for every key and every message -/
theorem hmac_sha224_noninterference (key key' : Bytes) (chunks chunks' : List Bytes) (n : Nat)
    (hk : key.length = key'.length) (hc : chunks.map List.length = chunks'.map List.length) :
    (hmacLegacyL sha224Ctx sha224CtxL key chunks n).tr = (hmacLegacyL sha224Ctx sha224CtxL key' chunks' n).tr :=
  hmac_noninterference sha224Leak _ key key' chunks chunks' n hk hc

/-- … with `result()` instead of `raw_result` -/
theorem hmac_sha224_result_noninterference (key key' : Bytes) (chunks chunks' : List Bytes)
    (hk : key.length = key'.length) (hc : chunks.map List.length = chunks'.map List.length) :
    (hmacLegacyResultL sha224Ctx sha224CtxL key chunks).tr = (hmacLegacyResultL sha224Ctx sha224CtxL key' chunks').tr :=
  hmac_result_noninterference sha224Leak _ key key' chunks chunks' hk hc

/-- … and whether the computation is refused is decided by the lengths -/
theorem hmac_sha224_panics_are_public (key key' : Bytes) (chunks chunks' : List Bytes) (n : Nat)
    (hk : key.length = key'.length) (hc : chunks.map List.length = chunks'.map List.length) :
    (hmacLegacy sha224Ctx key chunks n).isSome = (hmacLegacy sha224Ctx key' chunks' n).isSome :=
  hmac_panics_are_public sha224Leak _ key key' chunks chunks' n hk hc

/-- erasure, HMAC-SHA-256: `Hmac::new(Sha256::new(), key)`, `input` per chunk, `raw_result(&mut [0; n])`, instrumented, computes
    the plain model (the call sequence of `Props.C08.hmac_sha256`) -/
theorem hmac_sha256_erasure (key : Bytes) (chunks : List Bytes) (n : Nat) :
    (hmacLegacyL sha256Ctx sha256CtxL key chunks n).val = hmacLegacy sha256Ctx key chunks n :=
  hmacChunksL_val sha256Leak _ key chunks n

/-- **C19, HMAC-SHA-256, unconditional**: for a fixed key LENGTH and fixed chunk LENGTHS the trace of `new`, `input` per
    chunk, `raw_result` is the same for every key and every message -/
theorem hmac_sha256_noninterference (key key' : Bytes) (chunks chunks' : List Bytes) (n : Nat)
    (hk : key.length = key'.length) (hc : chunks.map List.length = chunks'.map List.length) :
    (hmacLegacyL sha256Ctx sha256CtxL key chunks n).tr = (hmacLegacyL sha256Ctx sha256CtxL key' chunks' n).tr :=
  hmac_noninterference sha256Leak _ key key' chunks chunks' n hk hc

/-- … with `result()` instead of `raw_result` -/
theorem hmac_sha256_result_noninterference (key key' : Bytes) (chunks chunks' : List Bytes)
    (hk : key.length = key'.length) (hc : chunks.map List.length = chunks'.map List.length) :
    (hmacLegacyResultL sha256Ctx sha256CtxL key chunks).tr = (hmacLegacyResultL sha256Ctx sha256CtxL key' chunks').tr :=
  hmac_result_noninterference sha256Leak _ key key' chunks chunks' hk hc

/-- … and whether the computation is refused is decided by the lengths -/
theorem hmac_sha256_panics_are_public (key key' : Bytes) (chunks chunks' : List Bytes) (n : Nat)
    (hk : key.length = key'.length) (hc : chunks.map List.length = chunks'.map List.length) :
    (hmacLegacy sha256Ctx key chunks n).isSome = (hmacLegacy sha256Ctx key' chunks' n).isSome :=
  hmac_panics_are_public sha256Leak _ key key' chunks chunks' n hk hc

/-- erasure, HMAC-SHA-384: `Hmac::new(Sha384::new(), key)`, `input` per chunk, `raw_result(&mut [0; n])`, instrumented, computes
    the plain model (the call sequence of `Props.C08.hmac_sha384`) -/
theorem hmac_sha384_erasure (key : Bytes) (chunks : List Bytes) (n : Nat) :
    (hmacLegacyL sha384Ctx sha384CtxL key chunks n).val = hmacLegacy sha384Ctx key chunks n :=
  hmacChunksL_val sha384Leak _ key chunks n

/-- **C19, HMAC-SHA-384, unconditional**: for a fixed key LENGTH and fixed chunk LENGTHS the trace of `new`, `input` per
    chunk, `raw_result` is the same for every key and every message -/
theorem hmac_sha384_noninterference (key key' : Bytes) (chunks chunks' : List Bytes) (n : Nat)
    (hk : key.length = key'.length) (hc : chunks.map List.length = chunks'.map List.length) :
    (hmacLegacyL sha384Ctx sha384CtxL key chunks n).tr = (hmacLegacyL sha384Ctx sha384CtxL key' chunks' n).tr :=
  hmac_noninterference sha384Leak _ key key' chunks chunks' n hk hc

/-- … with `result()` instead of `raw_result` -/
theorem hmac_sha384_result_noninterference (key key' : Bytes) (chunks chunks' : List Bytes)
    (hk : key.length = key'.length) (hc : chunks.map List.length = chunks'.map List.length) :
    (hmacLegacyResultL sha384Ctx sha384CtxL key chunks).tr = (hmacLegacyResultL sha384Ctx sha384CtxL key' chunks').tr :=
  hmac_result_noninterference sha384Leak _ key key' chunks chunks' hk hc

/-- … and whether the computation is refused is decided by the lengths -/
theorem hmac_sha384_panics_are_public (key key' : Bytes) (chunks chunks' : List Bytes) (n : Nat)
    (hk : key.length = key'.length) (hc : chunks.map List.length = chunks'.map List.length) :
    (hmacLegacy sha384Ctx key chunks n).isSome = (hmacLegacy sha384Ctx key' chunks' n).isSome :=
  hmac_panics_are_public sha384Leak _ key key' chunks chunks' n hk hc

/-- erasure, HMAC-SHA-512: `Hmac::new(Sha512::new(), key)`, `input` per chunk, `raw_result(&mut [0; n])`, instrumented, computes
    the plain model (the call sequence of `Props.C08.hmac_sha512`) -/
theorem hmac_sha512_erasure (key : Bytes) (chunks : List Bytes) (n : Nat) :
    (hmacLegacyL sha512Ctx sha512CtxL key chunks n).val = hmacLegacy sha512Ctx key chunks n :=
  hmacChunksL_val sha512Leak _ key chunks n

/-- **C19, HMAC-SHA-512, unconditional**: for a fixed key LENGTH and fixed chunk LENGTHS the trace of `new`, `input` per
    chunk, `raw_result` is the same for every key and every message -/
theorem hmac_sha512_noninterference (key key' : Bytes) (chunks chunks' : List Bytes) (n : Nat)
    (hk : key.length = key'.length) (hc : chunks.map List.length = chunks'.map List.length) :
    (hmacLegacyL sha512Ctx sha512CtxL key chunks n).tr = (hmacLegacyL sha512Ctx sha512CtxL key' chunks' n).tr :=
  hmac_noninterference sha512Leak _ key key' chunks chunks' n hk hc

/-- … with `result()` instead of `raw_result` -/
theorem hmac_sha512_result_noninterference (key key' : Bytes) (chunks chunks' : List Bytes)
    (hk : key.length = key'.length) (hc : chunks.map List.length = chunks'.map List.length) :
    (hmacLegacyResultL sha512Ctx sha512CtxL key chunks).tr = (hmacLegacyResultL sha512Ctx sha512CtxL key' chunks').tr :=
  hmac_result_noninterference sha512Leak _ key key' chunks chunks' hk hc

/-- … and whether the computation is refused is decided by the lengths -/
theorem hmac_sha512_panics_are_public (key key' : Bytes) (chunks chunks' : List Bytes) (n : Nat)
    (hk : key.length = key'.length) (hc : chunks.map List.length = chunks'.map List.length) :
    (hmacLegacy sha512Ctx key chunks n).isSome = (hmacLegacy sha512Ctx key' chunks' n).isSome :=
  hmac_panics_are_public sha512Leak _ key key' chunks chunks' n hk hc

/-- erasure, HMAC-SHA-512/224: `Hmac::new(Sha512Trunc224::new(), key)`, `input` per chunk, `raw_result(&mut [0; n])`, instrumented, computes
    the plain model (the call sequence of `Props.C08.hmac_sha512_224`) -/
theorem hmac_sha512_224_erasure (key : Bytes) (chunks : List Bytes) (n : Nat) :
    (hmacLegacyL sha512_224Ctx sha512_224CtxL key chunks n).val = hmacLegacy sha512_224Ctx key chunks n :=
  hmacChunksL_val sha512_224Leak _ key chunks n

/-- **C19, HMAC-SHA-512/224, unconditional**: for a fixed key LENGTH and fixed chunk LENGTHS the trace of `new`, `input` per
    chunk, `raw_result` is the same for every key and every message -/
theorem hmac_sha512_224_noninterference (key key' : Bytes) (chunks chunks' : List Bytes) (n : Nat)
    (hk : key.length = key'.length) (hc : chunks.map List.length = chunks'.map List.length) :
    (hmacLegacyL sha512_224Ctx sha512_224CtxL key chunks n).tr = (hmacLegacyL sha512_224Ctx sha512_224CtxL key' chunks' n).tr :=
  hmac_noninterference sha512_224Leak _ key key' chunks chunks' n hk hc

/-- … with `result()` instead of `raw_result` -/
theorem hmac_sha512_224_result_noninterference (key key' : Bytes) (chunks chunks' : List Bytes)
    (hk : key.length = key'.length) (hc : chunks.map List.length = chunks'.map List.length) :
    (hmacLegacyResultL sha512_224Ctx sha512_224CtxL key chunks).tr = (hmacLegacyResultL sha512_224Ctx sha512_224CtxL key' chunks').tr :=
  hmac_result_noninterference sha512_224Leak _ key key' chunks chunks' hk hc

/-- … and whether the computation is refused is decided by the lengths -/
theorem hmac_sha512_224_panics_are_public (key key' : Bytes) (chunks chunks' : List Bytes) (n : Nat)
    (hk : key.length = key'.length) (hc : chunks.map List.length = chunks'.map List.length) :
    (hmacLegacy sha512_224Ctx key chunks n).isSome = (hmacLegacy sha512_224Ctx key' chunks' n).isSome :=
  hmac_panics_are_public sha512_224Leak _ key key' chunks chunks' n hk hc

/-- erasure, HMAC-SHA-512/256: `Hmac::new(Sha512Trunc256::new(), key)`, `input` per chunk, `raw_result(&mut [0; n])`, instrumented, computes
    the plain model (the call sequence of `Props.C08.hmac_sha512_256`) -/
theorem hmac_sha512_256_erasure (key : Bytes) (chunks : List Bytes) (n : Nat) :
    (hmacLegacyL sha512_256Ctx sha512_256CtxL key chunks n).val = hmacLegacy sha512_256Ctx key chunks n :=
  hmacChunksL_val sha512_256Leak _ key chunks n

/-- **C19, HMAC-SHA-512/256, unconditional**: for a fixed key LENGTH and fixed chunk LENGTHS the trace of `new`, `input` per
    chunk, `raw_result` is the same for every key and every message -/
theorem hmac_sha512_256_noninterference (key key' : Bytes) (chunks chunks' : List Bytes) (n : Nat)
    (hk : key.length = key'.length) (hc : chunks.map List.length = chunks'.map List.length) :
    (hmacLegacyL sha512_256Ctx sha512_256CtxL key chunks n).tr = (hmacLegacyL sha512_256Ctx sha512_256CtxL key' chunks' n).tr :=
  hmac_noninterference sha512_256Leak _ key key' chunks chunks' n hk hc

/-- … with `result()` instead of `raw_result` -/
theorem hmac_sha512_256_result_noninterference (key key' : Bytes) (chunks chunks' : List Bytes)
    (hk : key.length = key'.length) (hc : chunks.map List.length = chunks'.map List.length) :
    (hmacLegacyResultL sha512_256Ctx sha512_256CtxL key chunks).tr = (hmacLegacyResultL sha512_256Ctx sha512_256CtxL key' chunks').tr :=
  hmac_result_noninterference sha512_256Leak _ key key' chunks chunks' hk hc

/-- … and whether the computation is refused is decided by the lengths -/
theorem hmac_sha512_256_panics_are_public (key key' : Bytes) (chunks chunks' : List Bytes) (n : Nat)
    (hk : key.length = key'.length) (hc : chunks.map List.length = chunks'.map List.length) :
    (hmacLegacy sha512_256Ctx key chunks n).isSome = (hmacLegacy sha512_256Ctx key' chunks' n).isSome :=
  hmac_panics_are_public sha512_256Leak _ key key' chunks chunks' n hk hc

/-- erasure, HMAC-SHA-1: `Hmac::new(Sha1::new(), key)`, `input` per chunk, `raw_result(&mut [0; n])`, instrumented, computes
    the plain model (the call sequence of `Props.C08.hmac_sha1`) -/
theorem hmac_sha1_erasure (key : Bytes) (chunks : List Bytes) (n : Nat) :
    (hmacLegacyL sha1Ctx sha1CtxL key chunks n).val = hmacLegacy sha1Ctx key chunks n :=
  hmacChunksL_val sha1Leak _ key chunks n

/-- **C19, HMAC-SHA-1, unconditional**: for a fixed key LENGTH and fixed chunk LENGTHS the trace of `new`, `input` per
    chunk, `raw_result` is the same for every key and every message -/
theorem hmac_sha1_noninterference (key key' : Bytes) (chunks chunks' : List Bytes) (n : Nat)
    (hk : key.length = key'.length) (hc : chunks.map List.length = chunks'.map List.length) :
    (hmacLegacyL sha1Ctx sha1CtxL key chunks n).tr = (hmacLegacyL sha1Ctx sha1CtxL key' chunks' n).tr :=
  hmac_noninterference sha1Leak _ key key' chunks chunks' n hk hc

/-- … with `result()` instead of `raw_result` -/
theorem hmac_sha1_result_noninterference (key key' : Bytes) (chunks chunks' : List Bytes)
    (hk : key.length = key'.length) (hc : chunks.map List.length = chunks'.map List.length) :
    (hmacLegacyResultL sha1Ctx sha1CtxL key chunks).tr = (hmacLegacyResultL sha1Ctx sha1CtxL key' chunks').tr :=
  hmac_result_noninterference sha1Leak _ key key' chunks chunks' hk hc

/-- … and whether the computation is refused is decided by the lengths -/
theorem hmac_sha1_panics_are_public (key key' : Bytes) (chunks chunks' : List Bytes) (n : Nat)
    (hk : key.length = key'.length) (hc : chunks.map List.length = chunks'.map List.length) :
    (hmacLegacy sha1Ctx key chunks n).isSome = (hmacLegacy sha1Ctx key' chunks' n).isSome :=
  hmac_panics_are_public sha1Leak _ key key' chunks chunks' n hk hc

/-- erasure, HMAC-RIPEMD-160: `Hmac::new(Ripemd160::new(), key)`, `input` per chunk, `raw_result(&mut [0; n])`, instrumented, computes
    the plain model (the call sequence of `Props.C08.hmac_ripemd160`) -/
theorem hmac_ripemd160_erasure (key : Bytes) (chunks : List Bytes) (n : Nat) :
    (hmacLegacyL ripemd160Ctx ripemd160CtxL key chunks n).val = hmacLegacy ripemd160Ctx key chunks n :=
  hmacChunksL_val ripemd160Leak _ key chunks n

/-- **C19, HMAC-RIPEMD-160, unconditional**: for a fixed key LENGTH and fixed chunk LENGTHS the trace of `new`, `input` per
    chunk, `raw_result` is the same for every key and every message -/
theorem hmac_ripemd160_noninterference (key key' : Bytes) (chunks chunks' : List Bytes) (n : Nat)
    (hk : key.length = key'.length) (hc : chunks.map List.length = chunks'.map List.length) :
    (hmacLegacyL ripemd160Ctx ripemd160CtxL key chunks n).tr = (hmacLegacyL ripemd160Ctx ripemd160CtxL key' chunks' n).tr :=
  hmac_noninterference ripemd160Leak _ key key' chunks chunks' n hk hc

/-- … with `result()` instead of `raw_result` -/
theorem hmac_ripemd160_result_noninterference (key key' : Bytes) (chunks chunks' : List Bytes)
    (hk : key.length = key'.length) (hc : chunks.map List.length = chunks'.map List.length) :
    (hmacLegacyResultL ripemd160Ctx ripemd160CtxL key chunks).tr = (hmacLegacyResultL ripemd160Ctx ripemd160CtxL key' chunks').tr :=
  hmac_result_noninterference ripemd160Leak _ key key' chunks chunks' hk hc

/-- … and whether the computation is refused is decided by the lengths -/
theorem hmac_ripemd160_panics_are_public (key key' : Bytes) (chunks chunks' : List Bytes) (n : Nat)
    (hk : key.length = key'.length) (hc : chunks.map List.length = chunks'.map List.length) :
    (hmacLegacy ripemd160Ctx key chunks n).isSome = (hmacLegacy ripemd160Ctx key' chunks' n).isSome :=
  hmac_panics_are_public ripemd160Leak _ key key' chunks chunks' n hk hc

/-- erasure, HMAC-SHA3-224: `Hmac::new(Sha3_224::new(), key)`, `input` per chunk, `raw_result(&mut [0; n])`, instrumented, computes
    the plain model (the call sequence of `Props.C08.hmac_sha3_224`) -/
theorem hmac_sha3_224_erasure (key : Bytes) (chunks : List Bytes) (n : Nat) :
    (hmacLegacyL sha3_224Ctx sha3_224CtxL key chunks n).val = hmacLegacy sha3_224Ctx key chunks n :=
  hmacChunksL_val sha3_224Leak _ key chunks n

/-- **C19, HMAC-SHA3-224, unconditional**: for a fixed key LENGTH and fixed chunk LENGTHS the trace of `new`, `input` per
    chunk, `raw_result` is the same for every key and every message -/
theorem hmac_sha3_224_noninterference (key key' : Bytes) (chunks chunks' : List Bytes) (n : Nat)
    (hk : key.length = key'.length) (hc : chunks.map List.length = chunks'.map List.length) :
    (hmacLegacyL sha3_224Ctx sha3_224CtxL key chunks n).tr = (hmacLegacyL sha3_224Ctx sha3_224CtxL key' chunks' n).tr :=
  hmac_noninterference sha3_224Leak _ key key' chunks chunks' n hk hc

/-- … with `result()` instead of `raw_result` -/
theorem hmac_sha3_224_result_noninterference (key key' : Bytes) (chunks chunks' : List Bytes)
    (hk : key.length = key'.length) (hc : chunks.map List.length = chunks'.map List.length) :
    (hmacLegacyResultL sha3_224Ctx sha3_224CtxL key chunks).tr = (hmacLegacyResultL sha3_224Ctx sha3_224CtxL key' chunks').tr :=
  hmac_result_noninterference sha3_224Leak _ key key' chunks chunks' hk hc

/-- … and whether the computation is refused is decided by the lengths -/
theorem hmac_sha3_224_panics_are_public (key key' : Bytes) (chunks chunks' : List Bytes) (n : Nat)
    (hk : key.length = key'.length) (hc : chunks.map List.length = chunks'.map List.length) :
    (hmacLegacy sha3_224Ctx key chunks n).isSome = (hmacLegacy sha3_224Ctx key' chunks' n).isSome :=
  hmac_panics_are_public sha3_224Leak _ key key' chunks chunks' n hk hc

/-- erasure, HMAC-SHA3-256: `Hmac::new(Sha3_256::new(), key)`, `input` per chunk, `raw_result(&mut [0; n])`, instrumented, computes
    the plain model (the call sequence of `Props.C08.hmac_sha3_256`) -/
theorem hmac_sha3_256_erasure (key : Bytes) (chunks : List Bytes) (n : Nat) :
    (hmacLegacyL sha3_256Ctx sha3_256CtxL key chunks n).val = hmacLegacy sha3_256Ctx key chunks n :=
  hmacChunksL_val sha3_256Leak _ key chunks n

/-- **C19, HMAC-SHA3-256, unconditional**: for a fixed key LENGTH and fixed chunk LENGTHS the trace of `new`, `input` per
    chunk, `raw_result` is the same for every key and every message -/
theorem hmac_sha3_256_noninterference (key key' : Bytes) (chunks chunks' : List Bytes) (n : Nat)
    (hk : key.length = key'.length) (hc : chunks.map List.length = chunks'.map List.length) :
    (hmacLegacyL sha3_256Ctx sha3_256CtxL key chunks n).tr = (hmacLegacyL sha3_256Ctx sha3_256CtxL key' chunks' n).tr :=
  hmac_noninterference sha3_256Leak _ key key' chunks chunks' n hk hc

/-- … with `result()` instead of `raw_result` -/
theorem hmac_sha3_256_result_noninterference (key key' : Bytes) (chunks chunks' : List Bytes)
    (hk : key.length = key'.length) (hc : chunks.map List.length = chunks'.map List.length) :
    (hmacLegacyResultL sha3_256Ctx sha3_256CtxL key chunks).tr = (hmacLegacyResultL sha3_256Ctx sha3_256CtxL key' chunks').tr :=
  hmac_result_noninterference sha3_256Leak _ key key' chunks chunks' hk hc

/-- … and whether the computation is refused is decided by the lengths -/
theorem hmac_sha3_256_panics_are_public (key key' : Bytes) (chunks chunks' : List Bytes) (n : Nat)
    (hk : key.length = key'.length) (hc : chunks.map List.length = chunks'.map List.length) :
    (hmacLegacy sha3_256Ctx key chunks n).isSome = (hmacLegacy sha3_256Ctx key' chunks' n).isSome :=
  hmac_panics_are_public sha3_256Leak _ key key' chunks chunks' n hk hc

/-- erasure, HMAC-SHA3-384: `Hmac::new(Sha3_384::new(), key)`, `input` per chunk, `raw_result(&mut [0; n])`, instrumented, computes
    the plain model (the call sequence of `Props.C08.hmac_sha3_384`) -/
theorem hmac_sha3_384_erasure (key : Bytes) (chunks : List Bytes) (n : Nat) :
    (hmacLegacyL sha3_384Ctx sha3_384CtxL key chunks n).val = hmacLegacy sha3_384Ctx key chunks n :=
  hmacChunksL_val sha3_384Leak _ key chunks n

/-- **C19, HMAC-SHA3-384, unconditional**: for a fixed key LENGTH and fixed chunk LENGTHS the trace of `new`, `input` per
    chunk, `raw_result` is the same for every key and every message -/
theorem hmac_sha3_384_noninterference (key key' : Bytes) (chunks chunks' : List Bytes) (n : Nat)
    (hk : key.length = key'.length) (hc : chunks.map List.length = chunks'.map List.length) :
    (hmacLegacyL sha3_384Ctx sha3_384CtxL key chunks n).tr = (hmacLegacyL sha3_384Ctx sha3_384CtxL key' chunks' n).tr :=
  hmac_noninterference sha3_384Leak _ key key' chunks chunks' n hk hc

/-- … with `result()` instead of `raw_result` -/
theorem hmac_sha3_384_result_noninterference (key key' : Bytes) (chunks chunks' : List Bytes)
    (hk : key.length = key'.length) (hc : chunks.map List.length = chunks'.map List.length) :
    (hmacLegacyResultL sha3_384Ctx sha3_384CtxL key chunks).tr = (hmacLegacyResultL sha3_384Ctx sha3_384CtxL key' chunks').tr :=
  hmac_result_noninterference sha3_384Leak _ key key' chunks chunks' hk hc

/-- … and whether the computation is refused is decided by the lengths -/
theorem hmac_sha3_384_panics_are_public (key key' : Bytes) (chunks chunks' : List Bytes) (n : Nat)
    (hk : key.length = key'.length) (hc : chunks.map List.length = chunks'.map List.length) :
    (hmacLegacy sha3_384Ctx key chunks n).isSome = (hmacLegacy sha3_384Ctx key' chunks' n).isSome :=
  hmac_panics_are_public sha3_384Leak _ key key' chunks chunks' n hk hc

/-- erasure, HMAC-SHA3-512: `Hmac::new(Sha3_512::new(), key)`, `input` per chunk, `raw_result(&mut [0; n])`, instrumented, computes
    the plain model (the call sequence of `Props.C08.hmac_sha3_512`) -/
theorem hmac_sha3_512_erasure (key : Bytes) (chunks : List Bytes) (n : Nat) :
    (hmacLegacyL sha3_512Ctx sha3_512CtxL key chunks n).val = hmacLegacy sha3_512Ctx key chunks n :=
  hmacChunksL_val sha3_512Leak _ key chunks n

/-- **C19, HMAC-SHA3-512, unconditional**: for a fixed key LENGTH and fixed chunk LENGTHS the trace of `new`, `input` per
    chunk, `raw_result` is the same for every key and every message -/
theorem hmac_sha3_512_noninterference (key key' : Bytes) (chunks chunks' : List Bytes) (n : Nat)
    (hk : key.length = key'.length) (hc : chunks.map List.length = chunks'.map List.length) :
    (hmacLegacyL sha3_512Ctx sha3_512CtxL key chunks n).tr = (hmacLegacyL sha3_512Ctx sha3_512CtxL key' chunks' n).tr :=
  hmac_noninterference sha3_512Leak _ key key' chunks chunks' n hk hc

/-- … with `result()` instead of `raw_result` -/
theorem hmac_sha3_512_result_noninterference (key key' : Bytes) (chunks chunks' : List Bytes)
    (hk : key.length = key'.length) (hc : chunks.map List.length = chunks'.map List.length) :
    (hmacLegacyResultL sha3_512Ctx sha3_512CtxL key chunks).tr = (hmacLegacyResultL sha3_512Ctx sha3_512CtxL key' chunks').tr :=
  hmac_result_noninterference sha3_512Leak _ key key' chunks chunks' hk hc

/-- … and whether the computation is refused is decided by the lengths -/
theorem hmac_sha3_512_panics_are_public (key key' : Bytes) (chunks chunks' : List Bytes) (n : Nat)
    (hk : key.length = key'.length) (hc : chunks.map List.length = chunks'.map List.length) :
    (hmacLegacy sha3_512Ctx key chunks n).isSome = (hmacLegacy sha3_512Ctx key' chunks' n).isSome :=
  hmac_panics_are_public sha3_512Leak _ key key' chunks chunks' n hk hc

/-- erasure, HMAC-Keccak-224: `Hmac::new(Keccak224::new(), key)`, `input` per chunk, `raw_result(&mut [0; n])`, instrumented, computes
    the plain model (the call sequence of `Props.C08.hmac_keccak224`) -/
theorem hmac_keccak224_erasure (key : Bytes) (chunks : List Bytes) (n : Nat) :
    (hmacLegacyL keccak224Ctx keccak224CtxL key chunks n).val = hmacLegacy keccak224Ctx key chunks n :=
  hmacChunksL_val keccak224Leak _ key chunks n

/-- **C19, HMAC-Keccak-224, unconditional**: for a fixed key LENGTH and fixed chunk LENGTHS the trace of `new`, `input` per
    chunk, `raw_result` is the same for every key and every message -/
theorem hmac_keccak224_noninterference (key key' : Bytes) (chunks chunks' : List Bytes) (n : Nat)
    (hk : key.length = key'.length) (hc : chunks.map List.length = chunks'.map List.length) :
    (hmacLegacyL keccak224Ctx keccak224CtxL key chunks n).tr = (hmacLegacyL keccak224Ctx keccak224CtxL key' chunks' n).tr :=
  hmac_noninterference keccak224Leak _ key key' chunks chunks' n hk hc

/-- … with `result()` instead of `raw_result` -/
theorem hmac_keccak224_result_noninterference (key key' : Bytes) (chunks chunks' : List Bytes)
    (hk : key.length = key'.length) (hc : chunks.map List.length = chunks'.map List.length) :
    (hmacLegacyResultL keccak224Ctx keccak224CtxL key chunks).tr = (hmacLegacyResultL keccak224Ctx keccak224CtxL key' chunks').tr :=
  hmac_result_noninterference keccak224Leak _ key key' chunks chunks' hk hc

/-- … and whether the computation is refused is decided by the lengths -/
theorem hmac_keccak224_panics_are_public (key key' : Bytes) (chunks chunks' : List Bytes) (n : Nat)
    (hk : key.length = key'.length) (hc : chunks.map List.length = chunks'.map List.length) :
    (hmacLegacy keccak224Ctx key chunks n).isSome = (hmacLegacy keccak224Ctx key' chunks' n).isSome :=
  hmac_panics_are_public keccak224Leak _ key key' chunks chunks' n hk hc

/-- erasure, HMAC-Keccak-256: `Hmac::new(Keccak256::new(), key)`, `input` per chunk, `raw_result(&mut [0; n])`, instrumented, computes
    the plain model (the call sequence of `Props.C08.hmac_keccak256`) -/
theorem hmac_keccak256_erasure (key : Bytes) (chunks : List Bytes) (n : Nat) :
    (hmacLegacyL keccak256Ctx keccak256CtxL key chunks n).val = hmacLegacy keccak256Ctx key chunks n :=
  hmacChunksL_val keccak256Leak _ key chunks n

/-- **C19, HMAC-Keccak-256, unconditional**: for a fixed key LENGTH and fixed chunk LENGTHS the trace of `new`, `input` per
    chunk, `raw_result` is the same for every key and every message -/
theorem hmac_keccak256_noninterference (key key' : Bytes) (chunks chunks' : List Bytes) (n : Nat)
    (hk : key.length = key'.length) (hc : chunks.map List.length = chunks'.map List.length) :
    (hmacLegacyL keccak256Ctx keccak256CtxL key chunks n).tr = (hmacLegacyL keccak256Ctx keccak256CtxL key' chunks' n).tr :=
  hmac_noninterference keccak256Leak _ key key' chunks chunks' n hk hc

/-- … with `result()` instead of `raw_result` -/
theorem hmac_keccak256_result_noninterference (key key' : Bytes) (chunks chunks' : List Bytes)
    (hk : key.length = key'.length) (hc : chunks.map List.length = chunks'.map List.length) :
    (hmacLegacyResultL keccak256Ctx keccak256CtxL key chunks).tr = (hmacLegacyResultL keccak256Ctx keccak256CtxL key' chunks').tr :=
  hmac_result_noninterference keccak256Leak _ key key' chunks chunks' hk hc

/-- … and whether the computation is refused is decided by the lengths -/
theorem hmac_keccak256_panics_are_public (key key' : Bytes) (chunks chunks' : List Bytes) (n : Nat)
    (hk : key.length = key'.length) (hc : chunks.map List.length = chunks'.map List.length) :
    (hmacLegacy keccak256Ctx key chunks n).isSome = (hmacLegacy keccak256Ctx key' chunks' n).isSome :=
  hmac_panics_are_public keccak256Leak _ key key' chunks chunks' n hk hc

/-- erasure, HMAC-Keccak-384: `Hmac::new(Keccak384::new(), key)`, `input` per chunk, `raw_result(&mut [0; n])`, instrumented, computes
    the plain model (the call sequence of `Props.C08.hmac_keccak384`) -/
theorem hmac_keccak384_erasure (key : Bytes) (chunks : List Bytes) (n : Nat) :
    (hmacLegacyL keccak384Ctx keccak384CtxL key chunks n).val = hmacLegacy keccak384Ctx key chunks n :=
  hmacChunksL_val keccak384Leak _ key chunks n

/-- **C19, HMAC-Keccak-384, unconditional**: for a fixed key LENGTH and fixed chunk LENGTHS the trace of `new`, `input` per
    chunk, `raw_result` is the same for every key and every message -/
theorem hmac_keccak384_noninterference (key key' : Bytes) (chunks chunks' : List Bytes) (n : Nat)
    (hk : key.length = key'.length) (hc : chunks.map List.length = chunks'.map List.length) :
    (hmacLegacyL keccak384Ctx keccak384CtxL key chunks n).tr = (hmacLegacyL keccak384Ctx keccak384CtxL key' chunks' n).tr :=
  hmac_noninterference keccak384Leak _ key key' chunks chunks' n hk hc

/-- … with `result()` instead of `raw_result` -/
theorem hmac_keccak384_result_noninterference (key key' : Bytes) (chunks chunks' : List Bytes)
    (hk : key.length = key'.length) (hc : chunks.map List.length = chunks'.map List.length) :
    (hmacLegacyResultL keccak384Ctx keccak384CtxL key chunks).tr = (hmacLegacyResultL keccak384Ctx keccak384CtxL key' chunks').tr :=
  hmac_result_noninterference keccak384Leak _ key key' chunks chunks' hk hc

/-- … and whether the computation is refused is decided by the lengths -/
theorem hmac_keccak384_panics_are_public (key key' : Bytes) (chunks chunks' : List Bytes) (n : Nat)
    (hk : key.length = key'.length) (hc : chunks.map List.length = chunks'.map List.length) :
    (hmacLegacy keccak384Ctx key chunks n).isSome = (hmacLegacy keccak384Ctx key' chunks' n).isSome :=
  hmac_panics_are_public keccak384Leak _ key key' chunks chunks' n hk hc

/-- erasure, HMAC-Keccak-512: `Hmac::new(Keccak512::new(), key)`, `input` per chunk, `raw_result(&mut [0; n])`, instrumented, computes
    the plain model (the call sequence of `Props.C08.hmac_keccak512`) -/
theorem hmac_keccak512_erasure (key : Bytes) (chunks : List Bytes) (n : Nat) :
    (hmacLegacyL keccak512Ctx keccak512CtxL key chunks n).val = hmacLegacy keccak512Ctx key chunks n :=
  hmacChunksL_val keccak512Leak _ key chunks n

/-- **C19, HMAC-Keccak-512, unconditional**: for a fixed key LENGTH and fixed chunk LENGTHS the trace of `new`, `input` per
    chunk, `raw_result` is the same for every key and every message -/
theorem hmac_keccak512_noninterference (key key' : Bytes) (chunks chunks' : List Bytes) (n : Nat)
    (hk : key.length = key'.length) (hc : chunks.map List.length = chunks'.map List.length) :
    (hmacLegacyL keccak512Ctx keccak512CtxL key chunks n).tr = (hmacLegacyL keccak512Ctx keccak512CtxL key' chunks' n).tr :=
  hmac_noninterference keccak512Leak _ key key' chunks chunks' n hk hc

/-- … with `result()` instead of `raw_result` -/
theorem hmac_keccak512_result_noninterference (key key' : Bytes) (chunks chunks' : List Bytes)
    (hk : key.length = key'.length) (hc : chunks.map List.length = chunks'.map List.length) :
    (hmacLegacyResultL keccak512Ctx keccak512CtxL key chunks).tr = (hmacLegacyResultL keccak512Ctx keccak512CtxL key' chunks').tr :=
  hmac_result_noninterference keccak512Leak _ key key' chunks chunks' hk hc

/-- … and whether the computation is refused is decided by the lengths -/
theorem hmac_keccak512_panics_are_public (key key' : Bytes) (chunks chunks' : List Bytes) (n : Nat)
    (hk : key.length = key'.length) (hc : chunks.map List.length = chunks'.map List.length) :
    (hmacLegacy keccak512Ctx key chunks n).isSome = (hmacLegacy keccak512Ctx key' chunks' n).isSome :=
  hmac_panics_are_public keccak512Leak _ key key' chunks chunks' n hk hc

/-- erasure, HMAC over the legacy `Blake2b` object `d` (e.g. `Blake2b::new(nn)`; C08: `hmac_blake2b`) -/
theorem hmac_blake2b_erasure (d : Blake2 UInt64) (key : Bytes) (chunks : List Bytes) (n : Nat) :
    (hmacChunksL (blake2bDigest codeVariant) (blake2bDigestL codeVariant) d key chunks n).val =
      hmacChunks (blake2bDigest codeVariant) d key chunks n := hmacChunksL_val (blake2bLeak codeVariant) d key chunks n

/-- **C19, HMAC-BLAKE2b, unconditional**: for every digest object `d` (any output length, any state), a fixed key LENGTH
    and fixed chunk LENGTHS give the same trace for every key and every message -/
theorem hmac_blake2b_noninterference (d : Blake2 UInt64) (key key' : Bytes) (chunks chunks' : List Bytes) (n : Nat)
    (hk : key.length = key'.length) (hc : chunks.map List.length = chunks'.map List.length) :
    (hmacChunksL (blake2bDigest codeVariant) (blake2bDigestL codeVariant) d key chunks n).tr =
      (hmacChunksL (blake2bDigest codeVariant) (blake2bDigestL codeVariant) d key' chunks' n).tr :=
  hmac_noninterference (blake2bLeak codeVariant) d key key' chunks chunks' n hk hc

theorem hmac_blake2b_result_noninterference (d : Blake2 UInt64) (key key' : Bytes) (chunks chunks' : List Bytes)
    (hk : key.length = key'.length) (hc : chunks.map List.length = chunks'.map List.length) :
    (hmacChunksResultL (blake2bDigest codeVariant) (blake2bDigestL codeVariant) d key chunks).tr =
      (hmacChunksResultL (blake2bDigest codeVariant) (blake2bDigestL codeVariant) d key' chunks').tr :=
  hmac_result_noninterference (blake2bLeak codeVariant) d key key' chunks chunks' hk hc

theorem hmac_blake2b_panics_are_public (d : Blake2 UInt64) (key key' : Bytes) (chunks chunks' : List Bytes) (n : Nat)
    (hk : key.length = key'.length) (hc : chunks.map List.length = chunks'.map List.length) :
    (hmacChunks (blake2bDigest codeVariant) d key chunks n).isSome =
      (hmacChunks (blake2bDigest codeVariant) d key' chunks' n).isSome :=
  hmac_panics_are_public (blake2bLeak codeVariant) d key key' chunks chunks' n hk hc

/-- erasure, HMAC over the legacy `Blake2s` object `d` -/
theorem hmac_blake2s_erasure (d : Blake2 UInt32) (key : Bytes) (chunks : List Bytes) (n : Nat) :
    (hmacChunksL (blake2sDigest codeVariant) (blake2sDigestL codeVariant) d key chunks n).val =
      hmacChunks (blake2sDigest codeVariant) d key chunks n := hmacChunksL_val (blake2sLeak codeVariant) d key chunks n

/-- **C19, HMAC-BLAKE2s, unconditional** -/
theorem hmac_blake2s_noninterference (d : Blake2 UInt32) (key key' : Bytes) (chunks chunks' : List Bytes) (n : Nat)
    (hk : key.length = key'.length) (hc : chunks.map List.length = chunks'.map List.length) :
    (hmacChunksL (blake2sDigest codeVariant) (blake2sDigestL codeVariant) d key chunks n).tr =
      (hmacChunksL (blake2sDigest codeVariant) (blake2sDigestL codeVariant) d key' chunks' n).tr :=
  hmac_noninterference (blake2sLeak codeVariant) d key key' chunks chunks' n hk hc

theorem hmac_blake2s_result_noninterference (d : Blake2 UInt32) (key key' : Bytes) (chunks chunks' : List Bytes)
    (hk : key.length = key'.length) (hc : chunks.map List.length = chunks'.map List.length) :
    (hmacChunksResultL (blake2sDigest codeVariant) (blake2sDigestL codeVariant) d key chunks).tr =
      (hmacChunksResultL (blake2sDigest codeVariant) (blake2sDigestL codeVariant) d key' chunks').tr :=
  hmac_result_noninterference (blake2sLeak codeVariant) d key key' chunks chunks' hk hc

theorem hmac_blake2s_panics_are_public (d : Blake2 UInt32) (key key' : Bytes) (chunks chunks' : List Bytes) (n : Nat)
    (hk : key.length = key'.length) (hc : chunks.map List.length = chunks'.map List.length) :
    (hmacChunks (blake2sDigest codeVariant) d key chunks n).isSome =
      (hmacChunks (blake2sDigest codeVariant) d key' chunks' n).isSome :=
  hmac_panics_are_public (blake2sLeak codeVariant) d key key' chunks chunks' n hk hc

/-- non-vacuity: the fresh objects `Blake2b::new(64)` / `Blake2s::new(32)` exist -/
example : (Blake2.new Impl.Blake2.b 64).isSome ∧ (Blake2.new Impl.Blake2.s 32).isSome := by decide

/-- the instrumented HMAC-SHA-256 run returns the RFC 2104 tag (C08), for every key inside SHA-256's domain and every
    message shorter than 2^61 − 64 bytes, whatever its split into `input` calls -/
theorem hmac_sha256_instrumented_value (key : Bytes) (chunks : List Bytes) (hk : key.length < 2 ^ 61)
    (hm : chunks.flatten.length + 64 < 2 ^ 61) :
    (hmacLegacyResultL sha256Ctx sha256CtxL key chunks).val =
      some (Spec.Hmac.hmac Spec.Sha2.sha256 64 key chunks.flatten) :=
  hmac_instrumented_value (sha2Ctx256Leak Sha2.Sha256 2 outLen_sha256) Cx.Props.C08.hmac_sha256 key chunks (Or.inr hk)
    (hmac_sha256_guards key _ hm).1 (hmac_sha256_guards key _ hm).2

/-- non-vacuity of the hypotheses: two different keys / chunk lists of the same lengths, inside the domain -/
example : ([1, 2, 3] : Bytes).length = ([7, 7, 7] : Bytes).length ∧
    ([[1], [2, 3]] : List Bytes).map List.length = ([[9], [8, 8]] : List Bytes).map List.length ∧
    ([1, 2, 3] : Bytes).length < 2 ^ 61 ∧ ([[1], [2, 3]] : List Bytes).flatten.length + 64 < 2 ^ 61 := by decide

/-- test (evaluation): the trace of HMAC-SHA-256 with a 3-byte key and the chunks of 2 and 1 bytes has 73 events and
    begins with `expand_key` (the block-size vector, `key.len() <= bs`, the copy) and the two `derive_key` loops -/
example : (hmacLegacyL sha256Ctx sha256CtxL [1, 2, 3] [[4, 5], [6]] 32).tr.length = 73 ∧
    (hmacLegacyL sha256Ctx sha256CtxL [1, 2, 3] [[4, 5], [6]] 32).tr.take 6 =
      [.length 64, .branch true, .length 3, .length 64, .loopBound 64, .loopBound 64] := by decide +kernel

/-- test (evaluation): a 100-byte key is hashed first (`key.len() <= bs` is false) — a different, but again
    length-determined trace -/
example : (hmacLegacyL sha256Ctx sha256CtxL (List.replicate 100 7) [[4, 5], [6]] 32).tr.take 2 =
    [.length 64, .branch false] := by decide +kernel

/-- NEGATIVE CONTROL (test by evaluation): over a digest whose `input` tests the first byte of its argument, HMAC is NOT
    non-interferent — the keys `[0x36]` and `[0x37]` (first byte of `key ⊕ ipad` zero / non-zero) give different traces.
    The instrumentation sees a leaking digest; `DigestLeak` is a real requirement. -/
theorem hmac_over_leaky_digest_leaks :
    ¬ (∀ key key' : Bytes, key.length = key'.length →
        (hmacChunksL toyDigest leakyDigestL [] key [] 32).tr = (hmacChunksL toyDigest leakyDigestL [] key' [] 32).tr) := by
  intro h
  exact absurd (h [0x36] [0x37] rfl) (by decide +kernel)

/-! ## (n) the ChaCha20-Poly1305 AEAD: incremental `Context` / `ContextEncryption` / `ContextDecryption`, one-shot object

  public: the LENGTHS of key, AAD chunks, plaintext / ciphertext chunks, output buffers and of the expected tag; the
  position in the keystream block and in the Poly1305 block; the two length counters; the `finished` flag; for
  `decrypt`, the VERDICT (it is the result of the call).  secret: key, nonce, keystream, the one-time Poly1305 key, the
  accumulator, AAD / plaintext / ciphertext bytes, the computed and the expected tag.
  Generic in the ChaCha engine (`BlockGenLeak`: portable and SSE2, Proofs/LeakModelSym.lean).

  `NIE m m' R` (Proofs/LeakModelHashAead.lean): same trace, the two runs fail together, results related by `R`;
  `LowA L c c'`: the two contexts are indistinguishable (cipher contexts `LowEq`; both MAC objects in the absorbing
  state of C05 — under ANY two keys — with the same number of buffered bytes; equal length counters). -/

section Aead
open Cx.Impl.Aead Cx.Impl.LeakModel.AeadL Cx.Impl.StreamCtx
variable {σ : Type} {G : BlockGenL σ}

theorem aead_add_data_erasure (c : Context σ) (aad : Bytes) : (add_dataL c aad).val = Context.add_data c aad :=
  add_dataL_val c aad
theorem aead_to_encryption_erasure (c : Context σ) : (to_encryptionL c).val = Context.to_encryption c :=
  to_encryptionL_val c
theorem aead_to_decryption_erasure (c : Context σ) : (to_decryptionL c).val = Context.to_decryption c :=
  to_decryptionL_val c
theorem aead_encrypt_erasure (E : ChaCha.Engine σ) (R : Nat) (L : BlockGenLeak (ChaCha.ChaCha.gen E R) G) (c : Context σ)
    (input : Bytes) (n : Nat) : (encryptL G c input n).val = ContextEncryption.encrypt E R c input n :=
  encryptL_val E R L c input n
theorem aead_encrypt_mut_erasure (E : ChaCha.Engine σ) (R : Nat) (L : BlockGenLeak (ChaCha.ChaCha.gen E R) G)
    (c : Context σ) (buf : Bytes) : (encrypt_mutL G c buf).val = ContextEncryption.encrypt_mut E R c buf :=
  encrypt_mutL_val E R L c buf
theorem aead_decrypt_erasure (E : ChaCha.Engine σ) (R : Nat) (L : BlockGenLeak (ChaCha.ChaCha.gen E R) G) (c : Context σ)
    (input : Bytes) (n : Nat) : (decryptL G c input n).val = ContextDecryption.decrypt E R c input n :=
  decryptL_val E R L c input n
theorem aead_decrypt_mut_erasure (E : ChaCha.Engine σ) (R : Nat) (L : BlockGenLeak (ChaCha.ChaCha.gen E R) G)
    (c : Context σ) (buf : Bytes) : (decrypt_mutL G c buf).val = ContextDecryption.decrypt_mut E R c buf :=
  decrypt_mutL_val E R L c buf
theorem aead_enc_finalize_erasure (c : Context σ) : (enc_finalizeL c).val = ContextEncryption.finalize c :=
  enc_finalizeL_val c
theorem aead_dec_finalize_erasure (c : Context σ) (tag : Bytes) :
    (dec_finalizeL c tag).val = ContextDecryption.finalize c tag := dec_finalizeL_val c tag
theorem aead_new_erasure (E : ChaCha.Engine σ) (R : Nat) (L : BlockGenLeak (ChaCha.ChaCha.gen E R) G) (key nonce : Bytes) :
    (newL E R G key nonce).val = Context.new E R key nonce := newL_val E R L key nonce
theorem aead_oneshot_new_erasure (E : ChaCha.Engine σ) (R : Nat) (L : BlockGenLeak (ChaCha.ChaCha.gen E R) G)
    (key nonce aad : Bytes) : (oneShotNewL E R G key nonce aad).val = ChaChaPoly1305.new E R key nonce aad :=
  oneShotNewL_val E R L key nonce aad
theorem aead_oneshot_encrypt_erasure (E : ChaCha.Engine σ) (R : Nat) (L : BlockGenLeak (ChaCha.ChaCha.gen E R) G)
    (o : ChaChaPoly1305 σ) (input : Bytes) (n t : Nat) :
    (oneShotEncryptL G o input n t).val = ChaChaPoly1305.encrypt E R o input n t := oneShotEncryptL_val E R L o input n t
theorem aead_oneshot_decrypt_erasure (E : ChaCha.Engine σ) (R : Nat) (L : BlockGenLeak (ChaCha.ChaCha.gen E R) G)
    (o : ChaChaPoly1305 σ) (input : Bytes) (n : Nat) (tag : Bytes) :
    (oneShotDecryptL G o input n tag).val = ChaChaPoly1305.decrypt E R o input n tag :=
  oneShotDecryptL_val E R L o input n tag

variable {g : BlockGen σ}

/-- `add_data`: indistinguishable contexts and AAD of the same LENGTH: same trace, fail together (the u64 counter
    overflow), stay indistinguishable -/
theorem aead_add_data_noninterference (L : BlockGenLeak g G) (c c' : Context σ) (a a' : Bytes) (hc : LowA L c c')
    (ha : a.length = a'.length) : NIE (add_dataL c a) (add_dataL c' a') (LowA L) := add_dataL_nie L c c' a a' hc ha

/-- `to_encryption` / `to_decryption` (`pad16`: a branch on `aad_len % 16`) -/
theorem aead_to_encryption_noninterference (L : BlockGenLeak g G) (c c' : Context σ) (hc : LowA L c c') :
    NIE (to_encryptionL c) (to_encryptionL c') (LowA L) := to_encryptionL_nie L c c' hc
theorem aead_to_decryption_noninterference (L : BlockGenLeak g G) (c c' : Context σ) (hc : LowA L c c') :
    NIE (to_decryptionL c) (to_decryptionL c') (LowA L) := to_decryptionL_nie L c c' hc

/-- `encrypt` / `encrypt_mut`: inputs of the same LENGTH -/
theorem aead_encrypt_noninterference (L : BlockGenLeak g G) (c c' : Context σ) (i i' : Bytes) (n : Nat) (hc : LowA L c c')
    (hi : i.length = i'.length) : NIE (encryptL G c i n) (encryptL G c' i' n) (LowAO L) := encryptL_nie L c c' i i' n hc hi
theorem aead_encrypt_mut_noninterference (L : BlockGenLeak g G) (c c' : Context σ) (b b' : Bytes) (hc : LowA L c c')
    (hb : b.length = b'.length) : NIE (encrypt_mutL G c b) (encrypt_mutL G c' b') (LowAO L) :=
  encrypt_mutL_nie L c c' b b' hc hb

/-- `decrypt` / `decrypt_mut` -/
theorem aead_decrypt_noninterference (L : BlockGenLeak g G) (c c' : Context σ) (i i' : Bytes) (n : Nat) (hc : LowA L c c')
    (hi : i.length = i'.length) : NIE (decryptL G c i n) (decryptL G c' i' n) (LowAO L) := decryptL_nie L c c' i i' n hc hi
theorem aead_decrypt_mut_noninterference (L : BlockGenLeak g G) (c c' : Context σ) (b b' : Bytes) (hc : LowA L c c')
    (hb : b.length = b'.length) : NIE (decrypt_mutL G c b) (decrypt_mutL G c' b') (LowAO L) :=
  decrypt_mutL_nie L c c' b b' hc hb

/-- `ContextEncryption::finalize` (`pad16`, the length block, `raw_result`): the trace does not depend on the tag -/
theorem aead_enc_finalize_noninterference (L : BlockGenLeak g G) (c c' : Context σ) (hc : LowA L c c') :
    (enc_finalizeL c).tr = (enc_finalizeL c').tr := (enc_finalizeL_nie L c c' hc).tr

/-- **`ContextDecryption::finalize`**: the trace is the same for every computed tag and every expected tag (hence for
    every position of the first mismatching byte): the comparison is the constant-time `Tag ==` of §(f) -/
theorem aead_dec_finalize_noninterference (L : BlockGenLeak g G) (c c' : Context σ) (t t' : Bytes) (hc : LowA L c c')
    (ht : t.length = t'.length) : (dec_finalizeL c t).tr = (dec_finalizeL c' t').tr := (dec_finalizeL_nie L c c' t t' hc ht).tr

/-- `Context::new` under two keys of the same length and any two nonces: same trace, and the two fresh contexts are
    indistinguishable.  `hc`, `hc'`: the key setup succeeds (admissible lengths and round count); `hp`: the fresh engine
    states have the same public part (`rfl` for the IETF ChaCha engines) -/
theorem aead_new_noninterference (E : ChaCha.Engine σ) (R : Nat) (L : BlockGenLeak (ChaCha.ChaCha.gen E R) G)
    (key key' nonce nonce' : Bytes) (s s' : σ) (hk : key.length = key'.length) (hn : nonce.length = nonce'.length)
    (hc : ChaCha.ChaCha.new E R key nonce = .ok (StreamCtx.mk s))
    (hc' : ChaCha.ChaCha.new E R key' nonce' = .ok (StreamCtx.mk s')) (hp : L.pub s = L.pub s') :
    NIE (newL E R G key nonce) (newL E R G key' nonce') (LowA L) := newL_nie E R L key key' nonce nonce' s s' hk hn hc hc' hp

end Aead

section AeadOneShot
open Cx.Impl.Aead Cx.Impl.LeakModel.AeadL Cx.Impl.ChaCha

/-- **C19 (ChaCha20-Poly1305, one-shot object, portable engine), unconditional**: two objects created from keys, nonces
    and AADs of the same LENGTHS, encrypting inputs of the same LENGTH: creation and encryption have the same traces,
    whatever the key, nonce, AAD and plaintext bytes -/
theorem chacha20poly1305_encrypt_noninterference (R : Nat) (key key' nonce nonce' aad aad' i i' : Bytes) (n t : Nat)
    (o o' : ChaChaPoly1305 W16) (hk : key.length = key'.length) (hn : nonce.length = nonce'.length)
    (ha : aad.length = aad'.length) (hi : i.length = i'.length)
    (h : ChaChaPoly1305.new referenceEngine R key nonce aad = .ok o)
    (h' : ChaChaPoly1305.new referenceEngine R key' nonce' aad' = .ok o') :
    (oneShotNewL referenceEngine R (ChaChaL.refGenL R) key nonce aad).tr =
        (oneShotNewL referenceEngine R (ChaChaL.refGenL R) key' nonce' aad').tr ∧
      (oneShotEncryptL (ChaChaL.refGenL R) o i n t).tr = (oneShotEncryptL (ChaChaL.refGenL R) o' i' n t).tr := by
  obtain ⟨s, hs⟩ := oneShot_new_ok _ _ _ _ _ _ h
  obtain ⟨s', hs'⟩ := oneShot_new_ok _ _ _ _ _ _ h'
  have hnew := oneShotNewL_nie referenceEngine R (refLeak R) key key' nonce nonce' aad aad' s s' hk hn ha hs hs' rfl
  have hlow := hnew.rel_of_ok ((oneShotNewL_val _ _ (refLeak R) _ _ _).trans h) ((oneShotNewL_val _ _ (refLeak R) _ _ _).trans h')
  exact ⟨hnew.tr, (oneShotEncryptL_nie (refLeak R) o o' i i' n t hlow hi).tr⟩

/-- **… decryption**: additionally for every expected tag — the trace does not tell whether, or where, the tag differs -/
theorem chacha20poly1305_decrypt_noninterference (R : Nat) (key key' nonce nonce' aad aad' i i' tag tag' : Bytes) (n : Nat)
    (o o' : ChaChaPoly1305 W16) (hk : key.length = key'.length) (hn : nonce.length = nonce'.length)
    (ha : aad.length = aad'.length) (hi : i.length = i'.length) (ht : tag.length = tag'.length)
    (h : ChaChaPoly1305.new referenceEngine R key nonce aad = .ok o)
    (h' : ChaChaPoly1305.new referenceEngine R key' nonce' aad' = .ok o') :
    (oneShotDecryptL (ChaChaL.refGenL R) o i n tag).tr = (oneShotDecryptL (ChaChaL.refGenL R) o' i' n tag').tr := by
  obtain ⟨s, hs⟩ := oneShot_new_ok _ _ _ _ _ _ h
  obtain ⟨s', hs'⟩ := oneShot_new_ok _ _ _ _ _ _ h'
  have hnew := oneShotNewL_nie referenceEngine R (refLeak R) key key' nonce nonce' aad aad' s s' hk hn ha hs hs' rfl
  have hlow := hnew.rel_of_ok ((oneShotNewL_val _ _ (refLeak R) _ _ _).trans h) ((oneShotNewL_val _ _ (refLeak R) _ _ _).trans h')
  exact (oneShotDecryptL_nie (refLeak R) o o' i i' n tag tag' hlow hi ht).tr

/-- the same on the SSE2 engine -/
theorem chacha20poly1305_sse2_encrypt_noninterference (R : Nat) (key key' nonce nonce' aad aad' i i' : Bytes) (n t : Nat)
    (o o' : ChaChaPoly1305 Sse2.State) (hk : key.length = key'.length) (hn : nonce.length = nonce'.length)
    (ha : aad.length = aad'.length) (hi : i.length = i'.length)
    (h : ChaChaPoly1305.new sse2Engine R key nonce aad = .ok o)
    (h' : ChaChaPoly1305.new sse2Engine R key' nonce' aad' = .ok o') :
    (oneShotEncryptL (ChaChaL.sse2GenL R) o i n t).tr = (oneShotEncryptL (ChaChaL.sse2GenL R) o' i' n t).tr := by
  obtain ⟨s, hs⟩ := oneShot_new_ok _ _ _ _ _ _ h
  obtain ⟨s', hs'⟩ := oneShot_new_ok _ _ _ _ _ _ h'
  have hnew := oneShotNewL_nie sse2Engine R (sse2Leak R) key key' nonce nonce' aad aad' s s' hk hn ha hs hs' rfl
  have hlow := hnew.rel_of_ok ((oneShotNewL_val _ _ (sse2Leak R) _ _ _).trans h) ((oneShotNewL_val _ _ (sse2Leak R) _ _ _).trans h')
  exact (oneShotEncryptL_nie (sse2Leak R) o o' i i' n t hlow hi).tr

/-- non-vacuity of the hypotheses: a concrete key / nonce / AAD gives an object -/
example : (match ChaChaPoly1305.new referenceEngine 20 (List.replicate 32 7) (List.replicate 12 1) [1, 2, 3] with
    | .ok _ => true
    | .error _ => false) = true := by decide +kernel

end AeadOneShot

/-! ## Not covered

  * The compression functions themselves are embedded as primitives that emit nothing (straight-line word arithmetic,
    constant loop bounds, constant rotation counts, loop-counter indices into constant tables): this is read off the
    source, not proved; only their refusal behaviour (length assertions) is proved to depend on lengths.
  * The SIMD back ends (`avx`, `sse41`, `aarch64` of impl256 / impl512 / blake2) and the CPU-feature dispatch: the models
    follow the portable `reference` path.
  * Overflow of the byte counters (`processed_bytes += input.len()` panics in an overflow-checked build after 2^64 /
    2^128 bytes): modelled wrapping, as in Impl.Sha2 / Impl.Sha1; the count is a function of the input LENGTHS anyway.
  * AEAD: the theorems about `Context::new` / the one-shot object assume that the two creations succeed (admissible key
    length and round count — decided by public data) instead of deriving it; `LowA` asks both MAC objects to be in the
    absorbing state of C05 (true for every object reachable through the API, `aead_new_noninterference` +
    preservation by every call).
  * `Hmac::reset`, the `Mac::result` comparison (`MacResult ==` is LeakReal §(f)), HKDF / PBKDF2 on top of HMAC.
  * The optimising compiler may re-introduce branches: these theorems speak for the source (see Props/C19/LeakReal.lean).
-/

end Cx.Props.C19
