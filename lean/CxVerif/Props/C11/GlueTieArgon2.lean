/-
  Props.C11.GlueTieArgon2 — the translator tie for src/kdf/argon2.rs ABOVE the compression core.

  `Extracted/GlueArgon2.lean` is regenerated from /repo/src/kdf/argon2.rs on every run by tools/ktx_glue_kdf.py (specs:
  tools/kernels/glue_argon2.py): a statement-by-statement translation of
      the `Params` builder (def, argon2d/argon2i/argon2id, memory_kb, parallelism, iterations, version and the u32 geometry of
      parallelism_override_memory), `Block::new`, `BitXorAssign`, `Memory` (stride, new, block_index, block_index64, the
      `&mut`-returning accessors mut_block_index / mut_block_at as getter + setter), `H0::new`, `hprime` (the `while bytes > 64`
      loop), `hprime_block_init` (the `for _ in 0..29` loop), `next_addresses`, `fill_segment` (the addressing predicate, the
      input block, the prologue, the block loop with the address refresh, the offsets, `with_xor`), `process` (first two blocks of
      every lane, the three nested loops, the final xor and H'), `argon2_at`, `argon2::<T>`.
  The compression core (`fill_block`) and `index_alpha` are used through the model's functions, which Props/C11/KernelTie.lean ties
  to the source; BLAKE2b through the context model of Impl/Blake2.lean (C02).  Constants (`SYNC_POINTS`, `BLOCK_SIZE_U64`) are
  re-read from the source.  The theorems below, re-checked by the kernel on every build, say that the hand model of
  Impl/Argon2.lean — about which C11 is proved (Props/C11/Argon2.lean, Argon2Full.lean) — computes exactly what the source says
  NOW, for ALL parameter sets, memories and inputs.  u32/u64/usize arithmetic is the overflow-CHECKED one (`add32`, `mul64`, …:
  `none` = the panic of an overflow-checked build), as in the model.

  Abstractions (each explicit in the statement):
    * out-parameters: `hprime(output, …)`, `hprime_block_init(output, …)`, `argon2_at(…, tag)` write into the caller's buffer; the
      models take its LENGTH and start from zeros — the theorems hold for EVERY previous content (every byte is overwritten;
      Proofs/GlueArgon2Hash.lean: the part of the buffer below `pos` determines the result, the last write ends at the end);
      `hprime_block_init` takes `&mut [u8; 1024]`: hypothesis `output.length = 1024`;
    * `memory.mut_block_at(lane, c).as_u8_mut()` as an out-parameter: the current block is read through the getter, its byte view
      (`Block.as_u8`, 1024 bytes) is handed to `hprime_block_init`, the result is written back through the setter; the getter
      succeeds exactly when the setter does (`mut_block_at_get_isSome`);
    * `fill_segment`'s loop carries `position` (its `index` is assigned in every iteration); the model keeps the segment's
      position and sets `index` locally — the loop theorem is stated for every carried `position` that agrees with the segment's
      position on pass / lane / slice;
    * `process` returns `(memory, out)` at source level (both are `&mut`), the model only `out`.
-/
import CxVerif.Proofs.GlueArgon2Process
namespace Cx.Props.C11.GlueTieArgon2
open Cx Cx.Impl.Argon2 Cx.Extracted.GlueArgon2 Cx.Proofs.GlueArgon2
open Cx.Spec.Argon2 (Block)

/-! ## Params -/

theorem Params_def_src_eq_model (t : Type') : Params.def_src t = Params.def t := rfl
theorem Params_argon2d_src_eq_model : Params.argon2d_src = Params.argon2d := rfl
theorem Params_argon2i_src_eq_model : Params.argon2i_src = Params.argon2i := rfl
theorem Params_argon2id_src_eq_model : Params.argon2id_src = Params.argon2id := rfl

/-- the geometry: `memory_blocks = max(memory_kb, 8p)` (and `memory_kb` overridden), segment_length, memory_blocks, lane_length -/
theorem parallelism_override_memory_src_eq_model (self : Params) :
    Params.parallelism_override_memory_src self = Params.parallelism_override_memory self :=
  parallelism_override_memory_src_eq self

theorem memory_kb_src_eq_model (self : Params) (memory_kb : Nat) : Params.memory_kb_src self memory_kb = self.memory_kb' memory_kb :=
  memory_kb_src_eq self memory_kb

/-- `parallelism`: `>= 0x1000000` → `ParallelismTooHigh`, `0` → `ParallelismZero`, then the geometry -/
theorem parallelism_src_eq_model (self : Params) (parallelism : Nat) :
    Params.parallelism_src self parallelism = self.parallelism' parallelism := parallelism_src_eq self parallelism

theorem iterations_src_eq_model (self : Params) (iterations : Nat) :
    some (Params.iterations_src self iterations) = self.iterations' iterations := iterations_src_eq self iterations

theorem version_src_eq_model (self : Params) (version : Nat) : some (Params.version_src self version) = self.version' version :=
  version_src_eq self version

/-! ## Block, Memory -/

theorem Block_new_src_eq_model : Block.new_src = Block.new := rfl
theorem Block_bitxor_assign_src_eq_model (a b : Block) : Block.bitxor_assign_src a b = Block.bitxor_assign a b := rfl
theorem Memory_stride_src_eq_model (m : Memory) : Memory.stride_src m = m.stride := rfl
theorem Memory_new_src_eq_model (params : Params) : Memory.new_src params = Memory.new params := memory_new_src_eq params
theorem Memory_block_index_src_eq_model (m : Memory) (i : Nat) : Memory.block_index_src m i = m.block_index i := rfl
theorem Memory_block_index64_src_eq_model (m : Memory) (i : Nat) : Memory.block_index64_src m i = m.block_index64 i := rfl
theorem Memory_mut_block_index_get_src_eq_model (m : Memory) (i : Nat) : Memory.mut_block_index_get_src m i = m.block_index i := rfl
theorem Memory_mut_block_index_set_src_eq_model (m : Memory) (i : Nat) (b : Block) :
    Memory.mut_block_index_set_src m i b = m.set_block_index i b := mut_block_index_set_src_eq m i b
theorem Memory_mut_block_at_set_src_eq_model (m : Memory) (row col : Nat) (b : Block) :
    Memory.mut_block_at_set_src m row col b = m.set_block_at row col b := mut_block_at_set_src_eq m row col b
/-- the value behind `mut_block_at(row, col)` exists exactly when an assignment through it succeeds -/
theorem Memory_mut_block_at_get_defined (m : Memory) (row col : Nat) (b : Block) :
    (Memory.mut_block_at_get_src m row col).isSome = (m.set_block_at row col b).isSome := mut_block_at_get_isSome m row col b

/-! ## H0, H' -/

/-- `H0::new`: the 14 `update`s in order (field order, `len as u32` prefixes), `finalize` -/
theorem H0_new_src_eq_model (params : Params) (password salt key aad : Bytes) (tag_length : Nat) :
    H0.new_src params password salt key aad tag_length = H0.new params password salt key aad tag_length :=
  H0_new_src_eq params password salt key aad tag_length

/-- the `while bytes > 64` loop of `hprime` (state components permuted), for every buffer and loop state -/
theorem hprime_loop_src_eq_model (fuel : Nat) (output : Bytes) (bytes pos : Nat) (v : Bytes) (hf : bytes ≤ fuel) :
    (hprime_loop1_src (fuel + 1) output bytes pos v).map (fun r => (r.1, r.2.2.2, r.2.1, r.2.2.1)) = hprime_loop fuel output v bytes pos :=
  hprime_loop1_eq fuel output bytes pos v hf

/-- running out of fuel is a FAILURE of the generated loop (audit 3, F11), never a success value -/
theorem hprime_loop_src_fuel_exhausted (output : Bytes) (bytes pos : Nat) (v : Bytes) :
    hprime_loop1_src 0 output bytes pos v = none := rfl

/-- `hprime` for EVERY output buffer (any length — incl. 0, ≤ 64, > 64 — and any previous contents) -/
theorem hprime_src_eq_model (output input : Bytes) : hprime_src output input = hprime output.length input :=
  hprime_src_eq output input

/-- the `for _ in 0..29` loop of `hprime_block_init` on a 1024-byte buffer -/
theorem hprime_block_init_loop_src_eq_model (cnt : Nat) (output : Bytes) (pos : Nat) (v : Bytes) (h : output.length = 1024) :
    (hprime_block_init_loop1_src cnt output pos v).map (fun r => (r.1, r.2.2, r.2.1)) = hprime_block_init_loop cnt output v pos :=
  hprime_block_init_loop1_eq cnt output pos v h

/-- `hprime_block_init` for EVERY 1024-byte output buffer -/
theorem hprime_block_init_src_eq_model (output h0 : Bytes) (col lane : Nat) (h : output.length = 1024) :
    hprime_block_init_src output h0 col lane = hprime_block_init h0 col lane := hprime_block_init_src_eq output h0 col lane h

example : (zeros 1024).length = 1024 := length_zeros 1024

/-! ## segments -/

/-- `next_addresses`: the checked `input_block[6] += 1`, two `fill_block`s -/
theorem next_addresses_src_eq_model (address_block input_block zero_block : Block) :
    next_addresses_src address_block input_block zero_block = next_addresses address_block input_block zero_block :=
  next_addresses_src_eq address_block input_block zero_block

/-- one iteration of `for i in starting_index..params.segment_length`: rotation of `prev_offset`, the pseudo-random word (address
    block refreshed when `i % 128 == 0`, or word 0 of the previous block), the reference lane, `index_alpha`, the three block
    reads, `with_xor`, `fill_block`, the write, the two offsets -/
theorem fill_segment_step_src_eq_model (params : Params) (pos0 position : BlockPos) (dia : Bool) (zb : Block) (i : Nat)
    (rest : List Nat) (mem : Memory) (ib ab : Block) (co po : Nat) (h1 : position.pass = pos0.pass) (h2 : position.lane = pos0.lane)
    (h3 : position.slice = pos0.slice) :
    fill_segment_loop1_src params dia zb (i :: rest) position mem ib ab co po =
      match fill_segment_body params pos0 dia zb ⟨mem, ib, ab, co, po⟩ i with
      | none => none
      | some st => fill_segment_loop1_src params dia zb rest { position with index := i } st.memory st.input_block st.address_block
          st.curr_offset st.prev_offset :=
  fill_segment_step params pos0 position dia zb i rest mem ib ab co po h1 h2 h3

theorem fill_segment_loop_src_eq_model (params : Params) (pos0 : BlockPos) (dia : Bool) (zb : Block) (is : List Nat)
    (position : BlockPos) (mem : Memory) (ib ab : Block) (co po : Nat) (h1 : position.pass = pos0.pass)
    (h2 : position.lane = pos0.lane) (h3 : position.slice = pos0.slice) :
    (fill_segment_loop1_src params dia zb is position mem ib ab co po).map (fun r => r.2.1)
      = (fill_segment_loop params pos0 dia zb is ⟨mem, ib, ab, co, po⟩).map (fun st => st.memory) :=
  fill_segment_loop1_eq params pos0 dia zb is position mem ib ab co po h1 h2 h3

/-- the addressing predicate as the source writes it (`a || (b && c) && d`) -/
theorem data_independent_addressing_src_eq_model (params : Params) (position : BlockPos) :
    decide ((params.hash_type = Type'.Argon2i) ∨ (((params.hash_type = Type'.Argon2id) ∧ (position.pass = 0)) ∧ (position.slice < 2)))
      = data_independent_addressing params position := dia_eq params position

/-- `fill_segment` for EVERY parameter set, position and memory -/
theorem fill_segment_src_eq_model (params : Params) (position : BlockPos) (memory : Memory) :
    fill_segment_src params position memory = fill_segment params position memory := fill_segment_src_eq params position memory

/-! ## process, entry points -/

theorem process_init_src_eq_model (h0 : Bytes) (lanes : List Nat) (memory : Memory) :
    process_loop1_src h0 lanes memory = process_init h0 lanes memory := process_loop1_eq h0 lanes memory

/-- the three nested loops `for pass { for slice { for lane { fill_segment } } }` = the model's fold over `process_positions` -/
theorem process_fill_src_eq_model (params : Params) (memory : Memory) :
    process_loop2_src params (List.range params.iterations) memory = process_fill params (process_positions params) memory := by
  rw [process_loop2_eq]; rfl

theorem process_final_src_eq_model (memory : Memory) (ls : List Nat) (blockhash : Block) :
    process_loop5_src memory ls blockhash = process_final memory ls blockhash := process_loop5_eq memory ls blockhash

theorem process_src_eq_model (params : Params) (h0 : Bytes) (memory : Memory) (out : Bytes) :
    (process_src params h0 memory out).map (·.2) = process params h0 memory out.length := process_src_eq params h0 memory out

/-- `argon2_at` for EVERY tag buffer (any length, any previous contents) -/
theorem argon2_at_src_eq_model (params : Params) (password salt key aad tag : Bytes) :
    argon2_at_src params password salt key aad tag = argon2_at params password salt key aad tag.length :=
  argon2_at_src_eq params password salt key aad tag

/-- `argon2::<T>` for every `T` -/
theorem argon2_src_eq_model (T : Nat) (params : Params) (password salt key aad : Bytes) :
    argon2_src T params password salt key aad = argon2 T params password salt key aad :=
  argon2_src_eq T params password salt key aad

end Cx.Props.C11.GlueTieArgon2
