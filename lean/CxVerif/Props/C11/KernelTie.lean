/-
  Props.C11.KernelTie — the translator tie for the Argon2 compression core (src/kdf/argon2.rs).
  `Extracted/KernelsArgon2.lean` is regenerated from the CURRENT Rust source on every run by tools/ktx_misc.py
  (kernel specs tools/kernels/argon2.py): `add_and_mul`, `gb`, the permutation `p`, the bodies of the two
  `for i in 0..8` loops of `fill_block` (row-wise / column-wise index patterns), `fill_block` itself, and the index
  arithmetic of `index_alpha` (u32 / u64, every checked operation a bind), translated statement by statement.  The theorems say that the hand-written models `Impl.Argon2.*` (shared with the Spec as
  `…_core_shared`, so far tied to the code by the correspondence only) compute exactly what the source says now,
  for ALL inputs: a changed rotation, mask, word index or loop stride in the source breaks a proof obligation.
-/
import CxVerif.Extracted.KernelsArgon2
import CxVerif.Impl.Argon2
import CxVerif.Proofs.BindWalk
namespace Cx.Props.C11.KernelTie
open Cx Cx.Impl.Argon2 Cx.Extracted.KernelsArgon2
open Cx.Spec.Argon2 (Block)

theorem add_and_mul_src_eq_model (x y : UInt64) : add_and_mul_src x y = add_and_mul x y := rfl
theorem gb_src_eq_model (a b c d : UInt64) : gb_src a b c d = gb a b c d := rfl
theorem p_src_eq_model (v : V16) : p_src v = p v := rfl
theorem fill_block_row_src_eq_model (block_r : Block) (i : Fin 8) : fill_block_row_src block_r i = fill_block_row block_r i := rfl
theorem fill_block_col_src_eq_model (block_r : Block) (i : Fin 8) : fill_block_col_src block_r i = fill_block_col block_r i := rfl
theorem fill_block_src_eq_model (prev_block ref_block next_block : Block) (with_xor : Bool) :
    fill_block_src prev_block ref_block next_block with_xor = fill_block prev_block ref_block next_block with_xor := by
  have hr : fill_block_row_src = fill_block_row := funext fun b => funext fun i => fill_block_row_src_eq_model b i
  have hc : fill_block_col_src = fill_block_col := funext fun b => funext fun i => fill_block_col_src_eq_model b i
  unfold fill_block_src fill_block
  rw [hr, hc]
  cases with_xor <;> rfl

/-! ### `index_alpha` (RFC 9106 3.4.2): reference area size, the u64 mapping, start position, absolute position.
The translation branches where the source branches (7 × 3 cases, the continuation duplicated) and keeps the Rust evaluation
order (`reference_area_size - 1` BEFORE `reference_area_size * relative_position`); the model computes the two `if`
blocks first and has the product before the subtraction.  Both are programs in the Option monad, so the order of two
independent checked operations is immaterial (`bind_comm_opt`). -/
private theorem bind_comm_opt {α β γ : Type} (x : Option α) (y : Option β) (f : α → β → Option γ) :
    (x.bind fun a => y.bind fun b => f a b) = (y.bind fun b => x.bind fun a => f a b) := by
  cases x <;> cases y <;> rfl

theorem index_alpha_src_eq_model (params : Params) (position : BlockPos) (pseudo_rand : Nat) (same_lane : Bool) :
    index_alpha_src params position pseudo_rand same_lane = index_alpha params position pseudo_rand same_lane := by
  unfold index_alpha_src index_alpha index_alpha.reference_area_size index_alpha.start_position
  have hs : SYNC_POINTS - 1 = 3 := rfl      -- `SYNC_POINTS` is re-read from the source by the translator (constant-folded to 3)
  simp only [hs]
  have e1 := Classical.em (position.pass = 0)
  have e2 := Classical.em (position.slice = 0)
  have e3 := Classical.em (same_lane = true)
  have e4 := Classical.em (position.index = 0)
  have e5 := Classical.em (position.slice = 3)
  rcases e1 with h1 | h1 <;> rcases e2 with h2 | h2 <;> rcases e3 with h3 | h3 <;> rcases e4 with h4 | h4 <;>
    rcases e5 with h5 | h5 <;>
    (first | (have h1 := eq_false h1) | (have h1 := eq_true h1)) <;>
    (first | (have h2 := eq_false h2) | (have h2 := eq_true h2)) <;>
    (first | (have h3 := eq_false h3) | (have h3 := eq_true h3)) <;>
    (first | (have h4 := eq_false h4) | (have h4 := eq_true h4)) <;>
    (first | (have h5 := eq_false h5) | (have h5 := eq_true h5)) <;>
    simp only [h1, h2, h3, h4, h5, if_true, if_false, ne_eq, not_true_eq_false, not_false_eq_true, Option.bind_eq_bind,
      Option.pure_def, Option.bind_assoc, Option.bind_some] <;>
    (repeat (first | rfl | refine Cx.Proofs.BindWalk.bcongr _ _ _ _ rfl (fun _ => ?_) | exact bind_comm_opt _ _ _))

end Cx.Props.C11.KernelTie
