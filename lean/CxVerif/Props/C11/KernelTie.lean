/-
  Props.C11.KernelTie — the translator tie for the Argon2 compression core (src/kdf/argon2.rs).
  `Extracted/KernelsArgon2.lean` is regenerated from the CURRENT Rust source on every run by tools/ktx_misc.py
  (kernel specs tools/kernels/argon2.py): `add_and_mul`, `gb`, the permutation `p`, the bodies of the two
  `for i in 0..8` loops of `fill_block` (row-wise / column-wise index patterns) and `fill_block` itself, translated
  statement by statement.  The theorems say that the hand-written models `Impl.Argon2.*` (shared with the Spec as
  `…_core_shared`, so far tied to the code by the correspondence only) compute exactly what the source says now,
  for ALL inputs: a changed rotation, mask, word index or loop stride in the source breaks a proof obligation.
-/
import CxVerif.Extracted.KernelsArgon2
import CxVerif.Impl.Argon2
namespace Cx.Props.C11.KernelTie
open Cx Cx.Impl.Argon2 Cx.Extracted.KernelsArgon2
open Cx.Spec.Argon2 (Block)

theorem add_and_mul_src_eq_model (x y : UInt64) : add_and_mul_src x y = add_and_mul x y := rfl
theorem gb_src_eq_model (a b c d : UInt64) : gb_src a b c d = gb a b c d := rfl
theorem p_src_eq_model (v : V16) : p_src v = p v := rfl
theorem fill_block_row_src_eq_model (block_r : Block) (i : Fin 8) : fill_block_row_src block_r i = fill_block_row block_r i := rfl
theorem fill_block_col_src_eq_model (block_r : Block) (i : Fin 8) : fill_block_col_src block_r i = fill_block_col block_r i := rfl
theorem fill_block_src_eq_model (prev_block ref_block next_block : Block) (with_xor : Bool) :
    fill_block_src prev_block ref_block next_block with_xor = fill_block prev_block ref_block next_block with_xor := by
  have hr : fill_block_row_src = fill_block_row := funext fun b => funext fun i => fill_block_row_src_eq_model b i
  have hc : fill_block_col_src = fill_block_col := funext fun b => funext fun i => fill_block_col_src_eq_model b i
  unfold fill_block_src fill_block
  rw [hr, hc]
  cases with_xor <;> rfl

end Cx.Props.C11.KernelTie
