/-
  Props.C11.Argon2 — C11: Argon2d/i/id of the code-shaped model (Impl.Argon2 = /repo/src/kdf/argon2.rs) equal
  RFC 9106 (Spec.Argon2) — component theorems, each for ALL inputs in the stated domain, and the assembled statement.

  Proved here (helpers in Proofs/Argon2Block, Argon2Index, Argon2Hash, Argon2Segment):
    H0 field layout · hprime = H' for every T (and the T = 0 refusal) · hprime_block_init = H'^1024 ·
    geometry of the Params builder = m', q, segment length, for all p ≥ 1, m (with the silent raise to 8p) ·
    addressing predicate · next_addresses = the RFC's address-block formula (refresh) ·
    W of 3.4.2 is a cyclic window, `index_alpha` = "zz-th element of W" with NO u32/u64 overflow ·
    add_and_mul = a + b + 2·lo(a)·lo(b) mod 2^64 without overflow of the plain `*` · gb/p = GB/P ·
    fill_block = G (row/column index sets) with / without XOR.
  The assembled theorem `argon2_eq_rfc` is proved in Props/C11/Argon2Full.lean (see section 7 at the end).
  Spec-vs-world: the three RFC 9106 section 5 vectors are evaluated by the correspondence run (`cxdrv spec`), not
  by the kernel (a 32-KiB Argon2 is too slow for `decide`); there is no independent Argon2 oracle in the sandbox.
-/
import CxVerif.Proofs.Argon2Block
import CxVerif.Proofs.Argon2Index
import CxVerif.Proofs.Argon2Hash
import CxVerif.Proofs.Argon2Segment
namespace Cx.Props.C11
open Cx Cx.Proofs.Argon2
open Cx.Spec.Argon2 (Ty Block)

/-! ### 1. H_0 -/

/-- `H0::new` = RFC 9106 3.2 step 1 (`LE32(p) || LE32(T) || LE32(m) || LE32(t) || LE32(v) || LE32(y) ||
    LE32(|P|) || P || LE32(|S|) || S || LE32(|K|) || K || LE32(|X|) || X` under `H^64`), for all inputs whose
    lengths fit the RFC's 32-bit length fields -/
theorem H0_layout (params : Impl.Argon2.Params) (c : Spec.Argon2.Params) (hc : Corr params c)
    (pwd salt key aad : Bytes) (hP : pwd.length < 2 ^ 32) (hS : salt.length < 2 ^ 32) (hK : key.length < 2 ^ 32)
    (hX : aad.length < 2 ^ 32) (hT : c.T < 2 ^ 32) :
    Impl.Argon2.H0.new params pwd salt key aad (c.T % 2 ^ 32) = some (Spec.Argon2.H0 c pwd salt key aad) := by
  rw [H0_new_eq, hc.p, hc.t, hc.m, hc.v, hc.y, Nat.mod_eq_of_lt hP, Nat.mod_eq_of_lt hS, Nat.mod_eq_of_lt hK,
    Nat.mod_eq_of_lt hX, Nat.mod_eq_of_lt hT]
  have : (tyOf c.y).toNat = c.y.y := by cases c.y <;> rfl
  rw [this]
  rfl

/-! ### 2. H' -/

/-- `hprime` = `H'^T` for every output length `1 ≤ T < 2^32`: direct BLAKE2b for T ≤ 64, else 32-byte strides of the
    64-byte hash chain and a final `H^(T−32r)`, `r = ⌈T/32⌉ − 2`; no slice operation goes out of range -/
theorem hprime_eq_rfc (T : Nat) (A : Bytes) (hT : 1 ≤ T) (hT2 : T < 2 ^ 32) :
    Impl.Argon2.hprime T A = some (Spec.Argon2.Hprime T A) := hprime_eq T A hT hT2

example : (1 ≤ 300 ∧ 300 < 2 ^ 32) := by decide

/-- an empty output slice is refused (panic inside BLAKE2b), never answered -/
theorem hprime_refuses_zero (A : Bytes) : Impl.Argon2.hprime 0 A = none := hprime_zero A

/-- `hprime_block_init` = `H'^1024(H_0 || LE32(col) || LE32(lane))` (3.2 steps 3, 4) for all arguments -/
theorem hprime_block_init_eq_rfc (h0 : Bytes) (col lane : Nat) :
    Impl.Argon2.hprime_block_init h0 col lane =
      some (Spec.Argon2.Hprime 1024 (h0 ++ Spec.Argon2.LE32 col ++ Spec.Argon2.LE32 lane)) :=
  hprime_block_init_eq h0 col lane

/-! ### 3. geometry -/

/-- RFC 9106 3.2 step 2: for every p ≥ 1 the column count is `q = 4 ⌊m/4p⌋`, the segment length `⌊m/4p⌋`,
    `m' = p·q ≤ m`; for m ≥ 8p every segment has at least two blocks -/
theorem geometry_rfc (c : Spec.Argon2.Params) (hp : 1 ≤ c.p) :
    Spec.Argon2.q c = 4 * (c.m / (4 * c.p)) ∧ Spec.Argon2.segLen c = c.m / (4 * c.p) ∧
    Spec.Argon2.mPrime c = c.p * Spec.Argon2.q c ∧ Spec.Argon2.mPrime c ≤ c.m ∧
    (8 * c.p ≤ c.m → 2 ≤ Spec.Argon2.segLen c) :=
  ⟨(geometry c hp).1, (geometry c hp).2.1, (geometry c hp).2.2, mPrime_le c, segLen_ge c hp⟩

/-- the builder chain `Params::argon2x().memory_kb(m).iterations(t).parallelism(p).version(v)` succeeds for every
    `1 ≤ p < 2^24`, `1 ≤ t`, `m < 2^32`, `v ∈ {0x13, 0x10}` without u32 overflow, and leaves exactly
    `memory_kb = max(m, 8p)` and the lane / segment / block counts derived from it -/
theorem builder_geometry (y : Ty) (v t m p : Nat) (hv : v = 0x13 ∨ v = 0x10) (ht : 1 ≤ t) (hp : 1 ≤ p)
    (hp2 : p < 2 ^ 24) (hm : m < 2 ^ 32) :
    (Impl.Argon2.Params.def (tyOf y)).build v t m p = some (.ok (builtParams y v t m p)) :=
  build_ok y v t m p hv ht hp hp2 hm

/-- on the RFC's domain (m ≥ 8p) the built `Params` hold the RFC parameters and the RFC's geometry
    (`memory_blocks = m'`, `lane_length = q`, `segment_length = q/4`) -/
theorem builder_corr (y : Ty) (v t m p T : Nat) (hp : 1 ≤ p) (hm : 8 * p ≤ m) :
    Corr (builtParams y v t m p) { y := y, v := v, t := t, m := m, p := p, T := T } := by
  have h := built_corr y v t m p hp hm
  exact ⟨h.p, h.t, h.m, h.v, h.y, h.blocks, h.seg, h.lane⟩

example : (19 = 0x13 ∨ 19 = 0x10) ∧ 1 ≤ 3 ∧ 1 ≤ 4 ∧ 4 < 2 ^ 24 ∧ 32 < 2 ^ 32 ∧ 8 * 4 ≤ 32 := by decide

/-! ### 4. addressing -/

/-- data-independent addressing exactly for Argon2i, and for Argon2id in pass 0, slices 0 and 1 (3.4.1.3) -/
theorem addressing_predicate (params : Impl.Argon2.Params) (y : Ty) (hy : params.hash_type = tyOf y)
    (pass lane slice index : Nat) :
    Impl.Argon2.data_independent_addressing params ⟨pass, lane, slice, index⟩ = Spec.Argon2.dataIndependent y pass slice := by
  unfold Impl.Argon2.data_independent_addressing Spec.Argon2.dataIndependent Impl.Argon2.SYNC_POINTS
  rw [hy]
  cases y
  · simp [tyOf]
  · simp [tyOf]
  · have hne : (Impl.Argon2.Type'.Argon2id == Impl.Argon2.Type'.Argon2i) = false := by decide
    have hsl : decide (slice < 2) = (slice == 0 || slice == 1) := by
      by_cases h1 : slice = 0
      · simp [h1]
      · by_cases h2 : slice = 1
        · simp [h2]
        · have : ¬ slice < 2 := by omega
          simp [h1, h2, this]
    have heq : (Impl.Argon2.Type'.Argon2id == Impl.Argon2.Type'.Argon2id) = true := by decide
    simp only [tyOf, hne, hsl, heq, Bool.false_or, Bool.true_and]

/-- RFC 9106 3.4.2: the reference set W (built in the Spec as the list of finished segments plus the current
    segment's blocks, minus the excluded ones) is the window of `areaSize` consecutive columns of the cyclic column
    order starting at `startPos`, for every in-range position -/
theorem refSet_window (c : Spec.Argon2.Params) (hp : 1 ≤ c.p) (r sl k : Nat) (same : Bool)
    (h : InRange (Spec.Argon2.segLen c) r sl k same) :
    Spec.Argon2.refSet c r sl k same =
      (List.range (areaSize (Spec.Argon2.segLen c) r sl k same)).map
        (fun n => (startPos (Spec.Argon2.segLen c) r sl + n) % Spec.Argon2.q c) :=
  refSet_eq c (q_eq c hp) h.seg2 r sl k same h.sl4 h.kseg (fun hh => ⟨(h.first hh).1, by have := (h.first hh).2; omega⟩)

/-- `index_alpha` = the RFC's mapping: it returns the `zz`-th element of W, `zz = |W| − 1 − (|W|·(J_1²/2^32))/2^32`
    (which exists: W is not empty and zz < |W|), for EVERY in-range position (slice < 4, index inside the segment,
    not one of the two H'-initialised blocks), every lane relation and every J_1 < 2^32; the `some` says that no
    u32 / u64 addition, subtraction, multiplication or remainder in it overflows, underflows or divides by zero, and
    that the final `as u32` is lossless -/
theorem index_alpha_eq_rfc (c : Spec.Argon2.Params) (params : Impl.Argon2.Params) (hc : Corr params c) (hp : 1 ≤ c.p)
    (r lane sl k J1 : Nat) (same : Bool) (h : InRange (Spec.Argon2.segLen c) r sl k same) (hJ : J1 < 2 ^ 32) :
    Impl.Argon2.index_alpha params ⟨r, lane, sl, k⟩ J1 same = some (Spec.Argon2.refCol c r sl k same J1) ∧
    (Spec.Argon2.refSet c r sl k same)[Spec.Argon2.mapJ1 J1 (Spec.Argon2.refSet c r sl k same).length]? =
      some (Spec.Argon2.refCol c r sl k same J1) := by
  have hq := q_eq c hp
  refine ⟨index_alpha_eq_refCol c params hq hc.seg hc.lane r lane sl k J1 same h hJ, ?_⟩
  rw [refCol_window c hq r sl k J1 same h]
  unfold Spec.Argon2.refCol
  simp only []
  rw [List.getD_eq_getElem?_getD, refCol_window c hq r sl k J1 same h]
  rfl

/-- the hypotheses are met by a concrete long-segment position: m = 4·1·130 (segment length 130), pass 1, slice 2,
    index 129, other lane -/
example : InRange 130 1 2 129 false := ⟨by decide, by decide, by decide, by decide, by simp⟩

/-! ### 5. GB, P, G -/

/-- `add_and_mul(x, y) = x + y + 2·lo(x)·lo(y) mod 2^64` (RFC 9106 3.6), and the plain u64 `*` inside it cannot
    overflow -/
theorem add_and_mul_formula (x y : UInt64) :
    (Impl.Argon2.add_and_mul x y).toNat = (x.toNat + y.toNat + 2 * (x.toNat % 2 ^ 32) * (y.toNat % 2 ^ 32)) % 2 ^ 64 ∧
    (x &&& 0xffffffff).toNat * (y &&& 0xffffffff).toNat < 2 ^ 64 :=
  ⟨add_and_mul_toNat x y, add_and_mul_no_overflow x y⟩

/-- the Spec's GB addition read on naturals is the RFC formula -/
theorem fBlaMka_formula (a b : UInt64) :
    (Spec.Argon2.fBlaMka a b).toNat = (a.toNat + b.toNat + 2 * (a.toNat % 2 ^ 32) * (b.toNat % 2 ^ 32)) % 2 ^ 64 :=
  fBlaMka_toNat a b

/-- the code's `p` (16 scalars through 8 `gb` calls, rotations 32/24/16/63 by `rotate_right`) is the RFC's P on the
    4×4 word matrix -/
theorem p_eq_P (v : Vector UInt64 16) : Spec.Argon2.P v = toVec (Impl.Argon2.p (ofVec v)) := P_eq v

/-- `fill_block(prev, ref, next, with_xor = false)` = `G(prev, ref)`: the first unrolled loop applies P to the rows
    (registers 8i..8i+7 = words 16i..16i+15), the second to the columns (registers i, i+8, …, i+56 = words
    2i + {0,1,16,17,…,112,113}); `next` is overwritten (pass 0, and every pass of version 0x10) -/
theorem fill_block_eq_G (prev ref next : Block) :
    Impl.Argon2.fill_block prev ref next false = Spec.Argon2.G prev ref :=
  Proofs.Argon2.fill_block_eq_G prev ref next

/-- with `with_xor = true` (version 0x13, passes > 0): `G(prev, ref) xor next` (3.2 step 6) -/
theorem fill_block_xor_eq_G (prev ref next : Block) :
    Impl.Argon2.fill_block prev ref next true = Spec.Argon2.xorBlock (Spec.Argon2.G prev ref) next :=
  Proofs.Argon2.fill_block_xor_eq_G prev ref next

/-! ### 6. address blocks, one loop iteration, the segment loop -/

/-- data-independent addressing: when the code's `input_block` holds `Z || LE64(n) || ZERO(968)`
    (`Z = LE64(r) || LE64(l) || LE64(sl) || LE64(m') || LE64(t) || LE64(y)`, RFC 9106 3.4.1.2), `next_addresses` returns
    the RFC's `(n+1)`-th 1024-byte address value `G(ZERO, G(ZERO, Z || LE64(n+1) || ZERO(968)))` and leaves the
    counter at `n + 1`; the u64 `+= 1` cannot overflow for n + 1 < 2^64 -/
theorem next_addresses_eq_rfc (c : Spec.Argon2.Params) (r l sl n : Nat) (hn : n + 1 < 2 ^ 64) (address : Block) :
    Impl.Argon2.next_addresses address (Spec.Argon2.addrInput c r l sl n) Impl.Argon2.Block.new =
      some (Spec.Argon2.addrBlock c r l sl (n + 1), Spec.Argon2.addrInput c r l sl (n + 1)) :=
  next_addresses_eq c r l sl n hn address

/-- the six words the code writes into `input_block` (then counter word 0) are the RFC's byte string
    `Z || LE64(i) || ZERO(968)` -/
theorem input_block_eq_rfc (c : Spec.Argon2.Params) (r l sl i : Nat) :
    Spec.Argon2.addrInput c r l sl i =
      inputWords (UInt64.ofNat r) (UInt64.ofNat l) (UInt64.ofNat sl) (UInt64.ofNat (Spec.Argon2.mPrime c))
        (UInt64.ofNat c.t) (UInt64.ofNat c.y.y) (UInt64.ofNat i) :=
  addrInput_eq c r l sl i

/-- ONE ITERATION of the `fill_segment` loop = RFC 9106 3.2 steps 5/6 for block `B[i][sl·segLen + k]`, for every
    valid parameter set (p ≥ 1, 8p ≤ m < 2^32), every pass r, lane i < p, slice sl < 4, index k inside the segment
    (k ≥ 2 in the first slice of the first pass), all three types and both versions, under the loop invariant
    `SegInv` (memory contents, `curr_offset`, the `prev_offset` rule, address block = the `(⌊k/128⌋+1)`-th address
    value unless a refresh is due, counter word) — and the invariant holds again for `k + 1`.  In particular:
    the address block is refreshed exactly when `k mod 128 = 0`, J_1/J_2 are the low/high halves of the right word,
    the reference lane/column are the RFC's, all block indices are in range, no u32/u64 operation overflows, and the
    XOR-into-existing-block happens exactly for version ≠ 0x10 on passes > 0. -/
theorem fill_segment_step_eq_rfc (c : Spec.Argon2.Params) (params : Impl.Argon2.Params) (hc : Corr params c)
    (r i sl k idx : Nat) (hpos : Pos c r i sl k) (st : Impl.Argon2.SegState) (B : Spec.Argon2.Memory)
    (inv : SegInv c r i sl k (Spec.Argon2.dataIndependent c.y r sl) st B) :
    ∃ st', Impl.Argon2.fill_segment_body params ⟨r, i, sl, idx⟩ (Spec.Argon2.dataIndependent c.y r sl)
        Impl.Argon2.Block.new st k = some st' ∧
      SegInv c r i sl (k + 1) (Spec.Argon2.dataIndependent c.y r sl) st'
        (Spec.Argon2.fillBlock c r sl i
          (if Spec.Argon2.dataIndependent c.y r sl then Spec.Argon2.addrBlocks c r i sl else #[]) B k) :=
  body_eq c params hc r i sl k idx hpos st B inv

/-- THE WHOLE LOOP `for i in starting_index..segment_length` from any index `k` on = the RFC's steps for the blocks
    `k … segLen−1` of the segment in order (by induction on the number of remaining iterations) -/
theorem fill_segment_loop_eq_rfc (c : Spec.Argon2.Params) (params : Impl.Argon2.Params) (hc : Corr params c)
    (r i sl idx : Nat) (hp : 1 ≤ c.p) (hm : 8 * c.p ≤ c.m) (hm2 : c.m < 2 ^ 32) (hi : i < c.p) (hsl : sl < 4)
    (n k : Nat) (st : Impl.Argon2.SegState) (B : Spec.Argon2.Memory) (hkn : k + n = Spec.Argon2.segLen c)
    (h0 : r = 0 ∧ sl = 0 → 2 ≤ k) (inv : SegInv c r i sl k (Spec.Argon2.dataIndependent c.y r sl) st B) :
    ∃ st', Impl.Argon2.fill_segment_loop params ⟨r, i, sl, idx⟩ (Spec.Argon2.dataIndependent c.y r sl)
        Impl.Argon2.Block.new (List.range' k n) st = some st' ∧
      SegInv c r i sl (Spec.Argon2.segLen c) (Spec.Argon2.dataIndependent c.y r sl) st'
        ((List.range' k n).foldl
          (Spec.Argon2.fillBlock c r sl i
            (if Spec.Argon2.dataIndependent c.y r sl then Spec.Argon2.addrBlocks c r i sl else #[])) B) :=
  loop_eq c params hc r i sl idx hp hm hm2 hi hsl n k st B hkn h0 inv

/-- the hypotheses of the step theorem are met by a concrete non-trivial position: m = 520, p = 1 (segment length
    130), pass 1, lane 0, slice 2, index 128 (an address-block refresh index) -/
example : Pos { y := .id, v := 0x13, t := 2, m := 520, p := 1, T := 32 } 1 0 2 128 :=
  ⟨by decide, by decide, by decide, by decide, by decide, by decide, by simp⟩

/-! ### 7. the assembled statement

FULL STATEMENT (C11, model level) — PROVED in Props/C11/Argon2Full.lean (`argon2_eq_rfc`, and
`argon2_builder_eq_rfc` for the `Params` the builder chain returns):

    theorem argon2_eq_rfc (c : Spec.Argon2.Params) (pwd salt key aad : Bytes)
        (hv : Spec.Argon2.valid c pwd salt key aad = true) (params : Impl.Argon2.Params) (hc : Corr params c) :
        Impl.Argon2.argon2_at params pwd salt key aad c.T = some (Spec.Argon2.argon2 c pwd salt key aad) ∧
        Impl.Argon2.argon2 c.T params pwd salt key aad = some (Spec.Argon2.argon2 c pwd salt key aad)

It chains the component theorems of this file (`H0_layout`, `hprime_eq_rfc`, `hprime_block_init_eq_rfc`, the geometry
and the builder, the addressing predicate, W and `index_alpha`, GB/P/G, the address blocks, one loop iteration and the
segment loop under the invariant) through the plumbing links
  (a) `fill_segment` prologue + the Spec's skip of k = 0, 1 in pass 0 / slice 0: `fill_segment = Spec.fillSegment`
      (Proofs/Argon2Prologue.lean, `fill_segment_eq`);
  (b) `process_init` = `Spec.firstBlocks`;  (c) `process_fill` over `process_positions` = `Spec.fillMemory`, carrying
      `blocks.size = p·q` and `lane_length = q`;  (d) `process_final` = `Spec.finalBlock`;
  (e) `Memory::new` = m' zero blocks, `process` = steps 3–8 (Proofs/Argon2Assemble.lean).
The correspondence run (code = Impl = Spec on the C11 grid) ties the model to /repo/src/kdf/argon2.rs. -/

/-- `argon2::<T>` and `argon2_at` with a T-byte slice are the same computation (identical bodies) -/
theorem entry_points_agree (T : Nat) (params : Impl.Argon2.Params) (pwd salt key aad : Bytes) :
    Impl.Argon2.argon2 T params pwd salt key aad = Impl.Argon2.argon2_at params pwd salt key aad T := rfl

end Cx.Props.C11
