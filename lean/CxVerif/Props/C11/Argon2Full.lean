/-
  Props.C11.Argon2Full — C11, the assembled theorem: the code-shaped model of `argon2_at` / `argon2::<T>`
  (Impl.Argon2 = /repo/src/kdf/argon2.rs) returns, without any panic (no u32/u64 overflow, no out-of-range block or
  slice index, no refused BLAKE2b call), exactly the RFC 9106 tag `Spec.Argon2.argon2`, for EVERY parameter set and
  input in the RFC's domain (`Spec.Argon2.valid`: 1 ≤ p < 2^24, 4 ≤ T < 2^32, 8p ≤ m < 2^32, 1 ≤ t < 2^32,
  v ∈ {0x13, 0x10}, all four byte strings shorter than 2^32), all three types.

  The component theorems are in Props/C11/Argon2.lean; the plumbing (links (a)–(e) listed there) is in
  Proofs/Argon2Prologue.lean ((a) `fill_segment_eq`) and Proofs/Argon2Assemble.lean ((b) `process_init_eq`,
  (c) `process_fill_eq`, (d) `final_eq`, (e) `memory_new_eq`, `process_eq`).
-/
import CxVerif.Props.C11.Argon2
import CxVerif.Proofs.Argon2Assemble
namespace Cx.Props.C11
open Cx Cx.Proofs.Argon2
open Cx.Spec.Argon2 (Ty Block)

/-! ### the links, for all inputs of their domains -/

/-- (a) ONE SEGMENT: `fill_segment(params, position, memory)` = RFC 9106 3.2 steps 5/6 for the blocks of segment
    (pass r, lane i, slice sl), in order, for every valid geometry (p ≥ 1, 8p ≤ m < 2^32), every pass r, lane i < p,
    slice sl < 4, every memory of `p·q` blocks, all three types and both versions: the prologue (parameter words of
    `input_block`, the extra address block of pass 0 / slice 0, `curr_offset`, `prev_offset` with its wrap to the end of
    the lane) never overflows, the loop starts at 2 exactly where the RFC's blocks 0, 1 are the H'-initialised ones,
    and the memory keeps its size.  (`mk c B` = the code's `Memory { lane_length: q, blocks: B }`.) -/
theorem fill_segment_eq_rfc (c : Spec.Argon2.Params) (params : Impl.Argon2.Params) (hc : Corr params c)
    (r i sl idx : Nat) (hp : 1 ≤ c.p) (hm : 8 * c.p ≤ c.m) (hm2 : c.m < 2 ^ 32) (hi : i < c.p) (hsl : sl < 4)
    (B : Spec.Argon2.Memory) (hB : B.size = c.p * Spec.Argon2.q c) :
    Impl.Argon2.fill_segment params ⟨r, i, sl, idx⟩ (mk c B) = some (mk c (Spec.Argon2.fillSegment c r sl B i)) ∧
    (Spec.Argon2.fillSegment c r sl B i).size = c.p * Spec.Argon2.q c :=
  fill_segment_eq c params hc r i sl idx hp hm hm2 hi hsl B hB

/-- (b) the first loop of `process` = steps 3, 4 (`B[i][0]`, `B[i][1]` for every lane) on the zeroed memory -/
theorem process_init_eq_rfc (c : Spec.Argon2.Params) (hp : 1 ≤ c.p) (hm : 8 * c.p ≤ c.m) (hm2 : c.m < 2 ^ 32)
    (h0 : Bytes) :
    Impl.Argon2.process_init h0 (List.range c.p) (mk c (Array.replicate (Spec.Argon2.mPrime c) Spec.Argon2.zeroBlock)) =
      some (mk c (Spec.Argon2.firstBlocks c h0)) := by
  have hsz : (Array.replicate (Spec.Argon2.mPrime c) Spec.Argon2.zeroBlock).size = c.p * Spec.Argon2.q c := by
    rw [Array.size_replicate, (geometry c hp).2.2]
  exact (process_init_eq c ⟨hp, hm, hm2⟩ h0 (List.range c.p) _ (fun l h => List.mem_range.mp h) hsz).1

/-- (c) the three nested loops of `process` (pass, slice, lane) = steps 5, 6 over the whole memory -/
theorem process_fill_eq_rfc (c : Spec.Argon2.Params) (params : Impl.Argon2.Params) (hc : Corr params c)
    (hp : 1 ≤ c.p) (hm : 8 * c.p ≤ c.m) (hm2 : c.m < 2 ^ 32) (B : Spec.Argon2.Memory)
    (hB : B.size = c.p * Spec.Argon2.q c) :
    Impl.Argon2.process_fill params (Impl.Argon2.process_positions params) (mk c B) =
      some (mk c (Spec.Argon2.fillMemory c B)) :=
  (process_fill_eq c params hc ⟨hp, hm, hm2⟩ B hB).1

/-- (d) `blockhash = last block of lane 0`, then the XOR loop over lanes 1..p−1 = step 7 -/
theorem process_final_eq_rfc (c : Spec.Argon2.Params) (hp : 1 ≤ c.p) (hm : 8 * c.p ≤ c.m) (hm2 : c.m < 2 ^ 32)
    (B : Spec.Argon2.Memory) (hB : B.size = c.p * Spec.Argon2.q c) :
    ((Impl.Argon2.subU (mk c B).stride 1).bind (mk c B).block_index).bind
        (Impl.Argon2.process_final (mk c B) (List.range' 1 (c.p - 1))) = some (Spec.Argon2.finalBlock c B) :=
  final_eq c ⟨hp, hm, hm2⟩ B hB

/-! ### the assembled theorem -/

/-- C11 (model level), FULL STATEMENT: for every parameter set and input in the RFC's domain and every code
    `Params` holding those parameters and the derived geometry, both entry points return the RFC 9106 tag — in
    particular they do not panic. -/
theorem argon2_eq_rfc (c : Spec.Argon2.Params) (pwd salt key aad : Bytes)
    (hv : Spec.Argon2.valid c pwd salt key aad = true) (params : Impl.Argon2.Params) (hc : Corr params c) :
    Impl.Argon2.argon2_at params pwd salt key aad c.T = some (Spec.Argon2.argon2 c pwd salt key aad) ∧
    Impl.Argon2.argon2 c.T params pwd salt key aad = some (Spec.Argon2.argon2 c pwd salt key aad) := by
  have hd := of_decide_eq_true hv
  obtain ⟨hp, _, hT, hT2, hm, hm2, _, _, _, hP, hS, hK, hX⟩ := hd
  have main : Impl.Argon2.argon2_at params pwd salt key aad c.T = some (Spec.Argon2.argon2 c pwd salt key aad) := by
    unfold Impl.Argon2.argon2_at
    rw [H0_layout params c hc pwd salt key aad hP hS hK hX hT2]
    simp only []
    rw [memory_new_eq c params hc ⟨hp, hm, hm2⟩]
    simp only []
    rw [process_eq c params hc ⟨hp, hm, hm2⟩ _ c.T (by omega) hT2]
    rfl
  exact ⟨main, (entry_points_agree c.T params pwd salt key aad).trans main⟩

/-- the domain guard is met by the parameter set of the RFC 9106 section 5 test vectors (Argon2id, v = 0x13, t = 3,
    m = 32, p = 4, T = 32, 32-byte password, 16-byte salt, 8-byte secret, 12-byte associated data) -/
example : Spec.Argon2.valid { y := .id, v := 0x13, t := 3, m := 32, p := 4, T := 32 }
    (List.replicate 32 1) (List.replicate 16 2) (List.replicate 8 3) (List.replicate 12 4) = true := by decide

/-- … and `Corr` by the `Params` the builder produces for it -/
example : Corr (builtParams .id 0x13 3 32 4) { y := .id, v := 0x13, t := 3, m := 32, p := 4, T := 32 } :=
  builder_corr .id 0x13 3 32 4 32 (by decide) (by decide)

/-- COROLLARY for the public API: for every type y, v ∈ {0x13, 0x10}, 1 ≤ t < 2^32, 1 ≤ p < 2^24, 8p ≤ m < 2^32,
    4 ≤ T < 2^32 and byte strings shorter than 2^32, the builder chain
    `Params::argon2{d,i,id}().memory_kb(m).iterations(t).parallelism(p).version(v)` returns `Ok(params)` without
    panic, and `argon2_at(&params, …)` with a T-byte tag buffer / `argon2::<T>(&params, …)` return the RFC 9106 tag. -/
theorem argon2_builder_eq_rfc (y : Ty) (v t m p T : Nat) (pwd salt key aad : Bytes)
    (hv : Spec.Argon2.valid { y := y, v := v, t := t, m := m, p := p, T := T } pwd salt key aad = true) :
    ∃ params, (Impl.Argon2.Params.def (tyOf y)).build v t m p = some (.ok params) ∧
      Impl.Argon2.argon2_at params pwd salt key aad T =
        some (Spec.Argon2.argon2 { y := y, v := v, t := t, m := m, p := p, T := T } pwd salt key aad) ∧
      Impl.Argon2.argon2 T params pwd salt key aad =
        some (Spec.Argon2.argon2 { y := y, v := v, t := t, m := m, p := p, T := T } pwd salt key aad) := by
  have hd := of_decide_eq_true hv
  simp only [] at hd
  obtain ⟨hp, hp2, _, _, hm, hm2, ht, _, hvv, _⟩ := hd
  exact ⟨builtParams y v t m p, builder_geometry y v t m p hvv ht hp hp2 hm2,
    argon2_eq_rfc { y := y, v := v, t := t, m := m, p := p, T := T } pwd salt key aad hv _
      (builder_corr y v t m p T hp hm)⟩

end Cx.Props.C11
