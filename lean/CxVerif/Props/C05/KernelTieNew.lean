/-
  Props.C05.KernelTieNew — the translator tie for `Poly1305::new` (src/poly1305.rs): the key clamp (r limbs from the
  overlapping 32-bit loads at offsets 0, 3, 6, 9, 12 with the masks 0x3ffffff, 0x3ffff03, 0x3ffc0ff, 0x3f03fff, 0x00fffff),
  the four pad words and the zero-initialised state.  `Extracted/KernelsPoly1305New.lean` is regenerated from the CURRENT
  Rust source on every run by tools/ktx_misc.py (kernel spec tools/kernels/poly1305_new.py); a changed mask, shift or key
  offset breaks this obligation.  (`block` / `finish`: Props/C05/KernelTie.lean.)
-/
import CxVerif.Extracted.KernelsPoly1305New
import CxVerif.Impl.Poly1305
namespace Cx.Props.C05
open Cx Cx.Impl.Poly1305 Cx.Extracted.KernelsPoly1305New

theorem new_src_eq_model (key : Bytes) : new_src key = new key := rfl

end Cx.Props.C05
