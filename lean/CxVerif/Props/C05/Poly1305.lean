/-
  Props.C05.Poly1305 — C05: "Poly1305 returns the specified tag for every key and message".

  Spec = RFC 8439 §2.5 on Nat (Spec/Poly1305.lean). Impl = the u32/u64 limb code of src/poly1305.rs
  (Impl/Poly1305.lean), every checked operation guarded, so each theorem below also states that the checked
  build does not panic (the overflow-freedom part of C20 for this file).
  Helper lemmas: Proofs/Poly1305{Arith,Finish,Bytes,Stream}.lean.
-/
import CxVerif.Proofs.Poly1305Stream
import CxVerif.Extracted.Poly1305
namespace Cx.Props.C05
open Cx Cx.Impl.Poly1305 Cx.Proofs.Poly1305
open Cx.Spec.Poly1305 (p)

/-! ## (a) `new`: clamping and 26-bit split -/

/-- For EVERY key (clamped or not) the five `r` limbs are the 26-bit split of
    `le(key[0..16]) & 0x0ffffffc0ffffffc0ffffffc0fffffff`, they obey the mask bounds `RInv`, `val r` is the clamped
    `r` of RFC 8439, and `pad` holds `s = le(key[16..32])` as four u32. -/
theorem new_clamps_and_splits (key : Bytes) :
    ((new key).r.l0 = Spec.Poly1305.rOf key % 2^26 ∧
     (new key).r.l1 = (Spec.Poly1305.rOf key / 2^26) % 2^26 ∧
     (new key).r.l2 = (Spec.Poly1305.rOf key / 2^52) % 2^26 ∧
     (new key).r.l3 = (Spec.Poly1305.rOf key / 2^78) % 2^26 ∧
     (new key).r.l4 = Spec.Poly1305.rOf key / 2^104) ∧
    RInv (new key).r ∧ val (new key).r = Spec.Poly1305.rOf key ∧
    PadInv (new key).pad ∧ val4 (new key).pad = Spec.Poly1305.sOf key :=
  new_spec key

/-- the constants of `new`/`block`/`finish` re-extracted from src/poly1305.rs on every run are the ones the
    model uses (offsets, shifts, masks of the limb loads; hibit; the `* 5`; carry shift and mask; `1 << 26`;
    the packing shifts) -/
theorem extracted_constants :
    Cx.Extracted.Poly1305.R_LOADS = [[0, 0, 0x3ffffff], [3, 2, 0x3ffff03], [6, 4, 0x3ffc0ff], [9, 6, 0x3f03fff], [12, 8, 0x00fffff]] ∧
    Cx.Extracted.Poly1305.PAD_OFFSETS = [16, 20, 24, 28] ∧
    Cx.Extracted.Poly1305.M_LOADS = [[0, 0, 0x3ffffff], [3, 2, 0x3ffffff], [6, 4, 0x3ffffff], [9, 6, 0x3ffffff], [12, 8, -1]] ∧
    Cx.Extracted.Poly1305.HIBIT = [0, 0x1000000] ∧
    Cx.Extracted.Poly1305.S_MULT = [5, 5, 5, 5] ∧
    Cx.Extracted.Poly1305.CARRY = [[26], [0x3ffffff], [5]] ∧
    Cx.Extracted.Poly1305.FINISH = [[6, 12, 18, 26], [0x3ffffff, 0xffffffff], [5], [5], [0x4000000], [31],
      [0, 26, 6, 20, 12, 14, 18, 8]] := by
  decide

/-- a limb load described by an extracted triple -/
def limbOf (m : Bytes) : List Int → Nat
  | [off, sh, mask] => (rd32 m off.toNat >>> sh.toNat) &&& mask.toNat
  | _ => 0

/-- `new` computes its limbs with exactly the (offset, shift, mask) triples found in the source -/
theorem new_uses_extracted (key : Bytes) :
    [(new key).r.l0, (new key).r.l1, (new key).r.l2, (new key).r.l3, (new key).r.l4]
      = Cx.Extracted.Poly1305.R_LOADS.map (limbOf key) ∧
    [(new key).pad.w0, (new key).pad.w1, (new key).pad.w2, (new key).pad.w3]
      = Cx.Extracted.Poly1305.PAD_OFFSETS.map (fun o => rd32 key o.toNat) := by
  constructor <;> rfl

/-! ## (b) `block` -/

/-- **block arithmetic.** Under the TRUE limb bounds — `r` within the clamp masks, accumulator limbs
    `h0,h2,h3,h4 < 2^26`, `h1 < 2^26 + 64`, message limbs `< 2^26` (`t4 < 2^25` with the hibit) — none of the
    21 checked u32/u64 operations of `block` overflows, the output satisfies the accumulator invariant again, and
    `val h' ≡ (val h + val t) · val r (mod 2^130 − 5)`. -/
theorem block_arith (r h t : L5) (hr : RInv r) (hh : Inv h) (ht : TInv t) :
    (blockArith r h t).Ok ∧ Inv (blockArith r h t).out ∧
    val (blockArith r h t).out % p = ((val h + val t) * val r) % p :=
  blockArith_spec r h t hr hh ht

/-- non-vacuity: the bounds are met by the all-maximal limbs (r = the clamp mask, h at the top of the invariant,
    t = ff…ff with hibit), and the theorem's conclusion is then a concrete computation -/
example : RInv ⟨0x3ffffff, 0x3ffff03, 0x3ffc0ff, 0x3f03fff, 0x00fffff⟩ ∧
    Inv ⟨0x3ffffff, 0x3ffffff + 64, 0x3ffffff, 0x3ffffff, 0x3ffffff⟩ ∧
    TInv ⟨0x3ffffff, 0x3ffffff, 0x3ffffff, 0x3ffffff, 0x1ffffff⟩ := by decide

/-- the bound on `h1` cannot be dropped: with `h1` near 2^32 the checked build panics (so `Inv` is needed) -/
example : ¬ (blockArith ⟨0x3ffffff, 0x3ffff03, 0x3ffc0ff, 0x3f03fff, 0x00fffff⟩ ⟨0, 0xffffffff, 0, 0, 0⟩
    ⟨0x3ffffff, 0x3ffffff, 0x3ffffff, 0x3ffffff, 0x1ffffff⟩).Ok := by decide

/-- **block on states**: with a clamped `r`, an accumulator inside the invariant and a 16-byte slice, `block`
    does not panic, changes only `h`, keeps the invariant, and
    `val h' ≡ (val h + le(m) + hibit·2^128) · r (mod 2^130 − 5)` where hibit = 0 iff `finalized`. -/
theorem block_state (st : State) (m : Bytes) (hr : RInv st.r) (hh : Inv st.h) (hm : m.length = 16) :
    ∃ h', block st m = .ok { st with h := h' } ∧ Inv h' ∧
      val h' % p = ((val st.h + (leNat m + (if st.finalized then 0 else 2 ^ 128))) * val st.r) % p :=
  block_spec st m hr hh hm

example : RInv (new (List.replicate 32 0xff)).r ∧ Inv (new (List.replicate 32 0xff)).h ∧
    (List.replicate 16 (0xff : UInt8)).length = 16 := by decide

/-! ## (c) `finish` -/

/-- **finish arithmetic.** For EVERY accumulator satisfying the invariant — including all values in
    `[2^130 − 5, 2^130)` and the non-canonical `h1 ≥ 2^26` — none of the 10 checked operations overflows and the four
    output words are `((val h mod (2^130 − 5)) + pad) mod 2^128` (full carry, `g = h + 5 − 2^130`, mask select,
    packing, 128-bit addition). -/
theorem finish_arith (h : L5) (pad : L4) (hh : Inv h) (hp : PadInv pad) :
    (finishArith h pad).Ok ∧
    (finishArith h pad).out.w0 < 2^32 ∧ (finishArith h pad).out.w1 < 2^32 ∧
    (finishArith h pad).out.w2 < 2^32 ∧ (finishArith h pad).out.w3 < 2^32 ∧
    val4 (finishArith h pad).out = (val h % p + val4 pad) % 2^128 :=
  finishArith_spec h pad hh hp

/-- non-vacuity at the wrap-around: `h = 2^130 − 1 ∈ [p, 2^130)` satisfies the invariant; the result is 4 -/
example : Inv ⟨0x3ffffff, 0x3ffffff, 0x3ffffff, 0x3ffffff, 0x3ffffff⟩ ∧ PadInv ⟨0, 0, 0, 0⟩ ∧
    p ≤ val ⟨0x3ffffff, 0x3ffffff, 0x3ffffff, 0x3ffffff, 0x3ffffff⟩ ∧
    (finishArith ⟨0x3ffffff, 0x3ffffff, 0x3ffffff, 0x3ffffff, 0x3ffffff⟩ ⟨0, 0, 0, 0⟩).out = ⟨4, 0, 0, 0⟩ := by decide

/-- `finish` on states: no panic, the RFC tag of the whole message in `h[0..4]`; the last partial block gets the
    0x01 marker and no hibit; `finalized` afterwards = (a partial block was pending) ∨ repaired variant. -/
theorem finish_state (v : Variant) (key : Bytes) (st : State) (msg : Bytes) (h : Absorbing key st msg) :
    ∃ st', finish v st = .ok st' ∧ Static key st' ∧ tagBytes st'.h = Spec.Poly1305.mac key msg ∧
      st'.finalized = (decide (st.leftover > 0) || decide (v = .repaired)) :=
  finish_spec v key st msg h

/-! ## (d) staging -/

/-- **any split yields the same block sequence.** `Absorbing key st msg` says: `st` has processed a whole number
    of 16-byte blocks `pre` of `msg` (accumulator ≡ the RFC polynomial of `pre`), the rest of `msg` (< 16 bytes) is
    staged in `buffer[..leftover]`. One `input` call — whatever is staged, whatever the length of `data`, empty
    included — does not panic and leads to `Absorbing key st' (msg ++ data)`. -/
theorem input_any_split (key : Bytes) (st : State) (msg data : Bytes) (h : Absorbing key st msg) :
    ∃ st', input st data = .ok st' ∧ Absorbing key st' (msg ++ data) :=
  input_spec key st msg data h

/-- non-vacuity: a fresh context is absorbing (for every key) -/
example (key : Bytes) : Absorbing key (new key) [] := new_absorbing key

/-- two chunkings of the same bytes give the same tag -/
theorem chunking_irrelevant (v : Variant) (key : Bytes) (c1 c2 : List Bytes) (h : c1.flatten = c2.flatten) :
    Impl.Poly1305.mac v key c1 = Impl.Poly1305.mac v key c2 := by
  rw [mac_eq, mac_eq, h]

/-! ## (e) top level -/

/-- **C05.** For ALL keys, ALL messages and ALL splits into `input` calls (empty pieces, partial-then-partial, …),
    in BOTH variants of `finish`, `new; input…; raw_result` does not panic (no overflow in a checked build, no
    failed assert, no index out of range) and returns exactly the RFC 8439 tag of the concatenated message. -/
theorem poly1305_mac_eq_spec (v : Variant) (key : Bytes) (chunks : List Bytes) :
    Impl.Poly1305.mac v key chunks = .ok (Spec.Poly1305.mac key chunks.flatten) :=
  mac_eq v key chunks

/-- the same for the code as it is now, in the shape the AEAD unit consumes -/
theorem mac_eq_codeVariant (key : Bytes) (chunks : List Bytes) (_hk : key.length = 32) :
    Impl.Poly1305.mac codeVariant key chunks = .ok (Spec.Poly1305.mac key chunks.flatten) :=
  mac_eq codeVariant key chunks

/-- test (labelled as such): RFC 8439 §2.5.2 vector evaluated by the kernel through Spec and Impl -/
example : Spec.Poly1305.mac
    [0x85, 0xd6, 0xbe, 0x78, 0x57, 0x55, 0x6d, 0x33, 0x7f, 0x44, 0x52, 0xfe, 0x42, 0xd5, 0x06, 0xa8,
     0x01, 0x03, 0x80, 0x8a, 0xfb, 0x0d, 0xb2, 0xfd, 0x4a, 0xbf, 0xf6, 0xaf, 0x41, 0x49, 0xf5, 0x1b]
    "Cryptographic Forum Research Group".toUTF8.toList
    = [0xa8, 0x06, 0x1d, 0xc1, 0x30, 0x51, 0x36, 0xc6, 0xc2, 0x2b, 0x8b, 0xaf, 0x0c, 0x01, 0x27, 0xa9] := by
  decide +kernel

end Cx.Props.C05
