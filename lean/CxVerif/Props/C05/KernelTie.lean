/-
  Props.C05.KernelTie — the translator tie for the Poly1305 limb kernels.
  `Extracted/KernelsPoly1305.lean` is regenerated from /repo/src/poly1305.rs on every run by
  tools/kernel_translate.py (a statement-by-statement translation of `fn block` and `fn finish`).
  These theorems, re-checked by the kernel on every build, say that the hand-written arithmetic models
  `blockArith` / `finishArith` (about which the C05 refinement theorems are proved) compute exactly what the
  source says now, for ALL limb values — so a changed carry, mask, shift or constant in the source breaks a proof
  obligation even when no sampled input reaches it.
-/
import CxVerif.Extracted.KernelsPoly1305
namespace Cx.Props.C05
open Cx Cx.Impl.Poly1305 Cx.Extracted.KernelsPoly1305

/-- `fn block` as written in the source = the model's `blockArith` on the loaded message limbs -/
theorem block_src_eq_model (r h : L5) (m : Bytes) (hibit : Nat) :
    block_src r h m hibit = (blockArith r h (loadBlock m hibit)).out := by
  rfl

/-- `fn finish` (from `// fully carry h` on) as written in the source = the model's `finishArith` -/
theorem finish_src_eq_model (h : L5) (pad : L4) :
    finish_src h pad = (finishArith h pad).out := by
  rfl

end Cx.Props.C05
