/-
  Props.C05.GlueTieMac — the translator tie for the STATEFUL GLUE of the MAC objects.

  `Extracted/GlueMac.lean` is regenerated from /repo/src/poly1305.rs, /repo/src/hmac.rs and /repo/src/mac.rs on every
  run by tools/ktx_glue_mac.py (specs: tools/kernels/glue_mac.py): a statement-by-statement translation of
      Poly1305::new / block (choice of hibit) / finish (final partial block, 0x01 marker, `finalized`) and
      `impl Mac for Poly1305` (input: staging buffer, top-up branch, whole-block loop, tail; reset; raw_result; result;
      output_bytes),
      derive_key / expand_key / create_keys / Hmac::new and `impl Mac for Hmac<D>`,
      MacResult (structure generated from the declaration), MacResult::new / new_from_owned / code / eq.
  The theorems below, re-checked by the kernel on every build, say that the hand models of Impl/Poly1305.lean,
  Impl/Hmac.lean and Impl/ConstantTime.lean (`macResultEq`) — about which C05–C10 are proved — compute exactly what
  the source says NOW, for ALL states satisfying the stated data-structure invariant and ALL inputs of every length.
  A semantic change of the glue (an offset, a flag, a split point, a comparison, a loop bound) changes the generated
  definition and breaks one of these proofs even when no sampled input reaches it.

  Invariants / abstractions (each explicit in the statement):
    * `st.buffer.length = 16`: the Rust field is `buffer: [u8; 16]` (the translator takes the 16 of its bounds checks from
      that declaration; the model uses `buffer.length`); established by `new`, preserved by every operation (`wf_*`);
    * out-parameters: the model's `raw_result` takes `output.len()` and answers the first 16 bytes; the source-level
      function takes and returns the whole `output` — related by `withRest` (tag ++ untouched rest);
    * `result()` returns a `MacResult` whose `code` is the model's byte string (`asMacResult`, `asMacResultO`);
    * HMAC is generic in the digest: `ResultLen D` (a `&mut [u8]` handed to `Digest::result` keeps its length) is the one
      fact about the dictionary `D : DigestModel δ` that is needed; the wrapper digests satisfy it (`legacy_resultLen`);
    * the `while` loop of `input` runs on fuel `m.len()`: `input_loop_fuel_adequate` shows the loop ends because its
      condition is false, never because the fuel ran out.
-/
import CxVerif.Proofs.GlueMac
import CxVerif.Props.C05.Poly1305
import CxVerif.Proofs.MacHmac
namespace Cx.Props.C05.GlueTieMac
open Cx Cx.Impl.Poly1305 Cx.Extracted.GlueMac Cx.Proofs.GlueMac

/-! ## src/poly1305.rs -/

/-- `Poly1305::new` (clamp, limb split, pad words, empty buffer) -/
theorem new_src_eq_model (key : Bytes) : Poly1305.new_src key = new key := rfl

/-- `Poly1305::block`: hibit from the `finalized` flag, then the limb kernel (KernelTie), `h` stored -/
theorem block_src_eq_model (st : State) (m : Bytes) : Poly1305.block_src st m = block st m := block_src_eq st m

/-- `Poly1305::finish`: the final partial block (0x01 marker, zero fill, `finalized` before `block`), `finalized` set in BOTH
    branches, then the limb kernel -/
theorem finish_src_eq_model (st : State) (hb : st.buffer.length = 16) :
    Poly1305.finish_src st = finish codeVariant st := finish_src_eq st hb

/-- `input`: `assert!(!finalized)`, the top-up of a partial staging buffer (`want = min(16 - leftover, len)`, copy, split at
    `want`, early return, flush), the whole-block loop, the tail copy and `leftover` — for every state and every `data` -/
theorem input_src_eq_model (st : State) (data : Bytes) (hb : st.buffer.length = 16) :
    Poly1305.input_src st data = input st data := input_src_eq st data hb

/-- the pieces of `input` separately: whole-block loop = `blocks`, continuation = `inputTail`, top-up loop = `copyInto` -/
theorem input_loop_src_eq_model (fuel : Nat) (st : State) (m : Bytes) (hf : m.length ≤ fuel) :
    Poly1305.input_loop1_src (fuel + 1) st m = blocks fuel st m := input_loop1_eq fuel st m hf

/-- running out of fuel is a FAILURE of the generated loop (audit 3, F11), never a success value -/
theorem input_loop_src_fuel_exhausted (st : State) (m : Bytes) :
    Poly1305.input_loop1_src 0 st m = .error .diverge := input_loop1_zero st m

theorem input_tail_src_eq_model (st : State) (m : Bytes) (hb : st.buffer.length = 16) :
    Poly1305.input_k1_src st m = inputTail st m := input_k1_eq st m hb

/-- fuel adequacy of the `while m.len() >= 16` loop: started with the fuel the generated code passes (`m.len() + 1`) it never ends in
    `.diverge`, and when it returns it stops with fewer than 16 bytes left -/
theorem input_loop_fuel_adequate (st st' : State) (m m' : Bytes)
    (h : Poly1305.input_loop1_src (m.length + 1) st m = .ok (st', m')) : m'.length < 16 := by
  rw [input_loop1_eq m.length st m (Nat.le_refl _)] at h
  exact blocks_exit m.length st st' m m' (Nat.le_refl _) h

theorem input_loop_never_diverges (st : State) (m : Bytes) :
    Poly1305.input_loop1_src (m.length + 1) st m ≠ .error .diverge := by
  rw [input_loop1_eq m.length st m (Nat.le_refl _)]
  exact blocks_ne_diverge m.length st m

/-- `reset` -/
theorem reset_src_eq_model (st : State) : Poly1305.reset_src st = reset st := rfl

/-- `raw_result(&mut output)`: the assertion on `output.len()`, `finish` unless already finalized, the four stores; the
    bytes of `output` beyond the first 16 are untouched -/
theorem raw_result_src_eq_model (st : State) (output : Bytes) (hb : st.buffer.length = 16) :
    Poly1305.raw_result_src st output = withRest output (raw_result codeVariant st output.length) :=
  raw_result_src_eq st output hb

/-- `result()`: a 16-byte buffer through `raw_result`, wrapped by `MacResult::new` -/
theorem result_src_eq_model (st : State) (hb : st.buffer.length = 16) :
    Poly1305.result_src st = asMacResult (result codeVariant st) := result_src_eq st hb

/-- `output_bytes` -/
theorem output_bytes_src_eq_model (st : State) : Poly1305.output_bytes_src st = output_bytes st := rfl

/-- the invariant is established by `new` and preserved by every operation of the object -/
theorem wf_new (key : Bytes) : (new key).buffer.length = 16 := new_wf key

theorem wf_preserved (st : State) (hb : st.buffer.length = 16) :
    (reset st).buffer.length = 16 ∧
    (∀ data st', input st data = .ok st' → st'.buffer.length = 16) ∧
    (∀ v n st' tag, raw_result v st n = .ok (st', tag) → st'.buffer.length = 16) ∧
    (∀ v st' tag, result v st = .ok (st', tag) → st'.buffer.length = 16) :=
  ⟨reset_wf st hb, fun _ _ h => input_wf hb h, fun _ _ _ _ h => raw_result_wf hb h,
    fun _ _ _ h => raw_result_wf hb h⟩

/-- the hypothesis is met by a non-trivial state: a fresh object after absorbing 21 bytes -/
example : ∃ st, input (new (zeros 32)) (zeros 21) = .ok st ∧ st.buffer.length = 16 ∧ st.leftover = 5 := by
  refine ⟨_, rfl, ?_, ?_⟩ <;> decide

/-- **End to end, through the GENERATED functions only**: for ALL keys, ALL messages, ALL splits into `input` calls and
    every output buffer of at least 16 bytes, the object API as the source says it now (`Poly1305::new`, one `input` per
    chunk, `raw_result(&mut output)`) does not panic and writes the RFC 8439 tag of the concatenated message into
    `output[..16]`, leaving the rest of `output` untouched.  (The hand model is only the intermediate of the proof:
    tie theorems above + `Props.C05.poly1305_mac_eq_spec`.) -/
theorem poly1305_src_mac_eq_spec (key : Bytes) (chunks : List Bytes) (output : Bytes) (ho : 16 ≤ output.length) :
    macSrc key chunks output = .ok (Spec.Poly1305.mac key chunks.flatten ++ output.drop 16) := by
  rw [macSrc_eq key chunks output ho, Cx.Props.C05.poly1305_mac_eq_spec]

/-- the hypothesis is met, e.g., by the 16-byte buffer of `result()` -/
example : 16 ≤ (zeros 16).length := by decide

/-! ## src/mac.rs -/

theorem MacResult_new_src_eq_model (code : Bytes) : (MacResult.new_src code).code = code := rfl
theorem MacResult_new_from_owned_src_eq_model (code : Bytes) : (MacResult.new_from_owned_src code).code = code := rfl
theorem MacResult_code_src_eq_model (r : MacResult) : MacResult.code_src r = r.code := rfl

/-- `impl PartialEq for MacResult`: the length test, then the constant-time comparison (which cannot hit its own
    `assert_eq!` on the lengths) -/
theorem MacResult_eq_src_eq_model (a b : MacResult) :
    MacResult.eq_src a b = some (Impl.CT.macResultEq a.code b.code) := macResult_eq_src a b

/-! ## src/hmac.rs -/

section hmac
open Cx.Impl.Digest Cx.Impl.Hmac
variable {δ : Type} (D : DigestModel δ)

theorem derive_key_src_eq_model (key : Bytes) (mask : UInt8) : Hmac.derive_key_src D key mask = derive_key key mask := rfl

/-- `expand_key`: `key.len() <= block_size` → zero padded copy; otherwise hashed into the front of the zero block -/
theorem expand_key_src_eq_model (hD : ResultLen D) (digest : δ) (key : Bytes) :
    Hmac.expand_key_src D digest key = expand_key D digest key := hmac_expand_key_eq D hD digest key

theorem create_keys_src_eq_model (hD : ResultLen D) (digest : δ) (key : Bytes) :
    Hmac.create_keys_src D digest key = create_keys D digest key := hmac_create_keys_eq D hD digest key

theorem hmac_new_src_eq_model (hD : ResultLen D) (digest : δ) (key : Bytes) :
    Hmac.new_src D digest key = Hmac.new D digest key := hmac_new_eq D hD digest key

theorem hmac_input_src_eq_model (self : Hmac δ) (data : Bytes) :
    Hmac.input_src D self data = Hmac.input D self data := rfl

theorem hmac_reset_src_eq_model (self : Hmac δ) : Hmac.reset_src D self = Hmac.reset D self := hmac_reset_eq D self

theorem hmac_raw_result_src_eq_model (hD : ResultLen D) (self : Hmac δ) (output : Bytes) :
    Hmac.raw_result_src D self output = Hmac.raw_result D self output.length := hmac_raw_result_eq D hD self output

theorem hmac_result_src_eq_model (hD : ResultLen D) (self : Hmac δ) :
    Hmac.result_src D self = asMacResultO (Hmac.result D self) := hmac_result_eq D hD self

theorem hmac_output_bytes_src_eq_model (self : Hmac δ) :
    Hmac.output_bytes_src D self = Hmac.output_bytes D self := rfl

/-- **End to end, through the GENERATED functions only** (generic in the digest): if the digest object satisfies the
    digest-object contract of Proofs.MacObj for the hash function `H` (block size `B`, output `L ≤ B` bytes), then
    `Hmac::new(d0, key)`, one `input` per chunk, `result()` — as the source says them now — return the RFC 2104
    `HMAC_H(key, concatenation)` for EVERY key length and EVERY chunking.  Both hypotheses on `D` are discharged for the 16
    macro-generated digest wrappers: the contract in Props/C08/Hmac.lean (`hmac_legacy`, `hmac_sha256`, …), `ResultLen` by
    `legacy_resultLen` (examples below). -/
theorem hmac_src_rfc2104 (hL : ResultLen D) (H : Proofs.MacObj.Fn) (B : Nat) (key : Bytes)
    (RelD : δ → Proofs.MacObj.Fn → Bytes → Prop) (FinD : δ → Proofs.MacObj.Fn → Prop)
    {L bits : Nat} {okD : Proofs.MacObj.Fn → Bytes → Prop}
    (hD : Proofs.MacObj.Contract (digestFam D) L [L, bits, B] (fun _ => none) okD RelD FinD) (hLB : L ≤ B)
    (d0 : δ) (h0 : RelD d0 H []) (chunks : List Bytes) (hk : key.length ≤ B ∨ okD H key)
    (hok : Proofs.MacHmac.okH H B key okD (Spec.Hmac.hmac H B key) chunks.flatten) :
    ∃ h h' h'', Hmac.new_src D d0 key = some h ∧ chunks.foldlM (Hmac.input_src D) h = some h' ∧
      Hmac.result_src D h' = some (h'', ⟨Spec.Hmac.hmac H B key chunks.flatten⟩) := by
  obtain ⟨h, h', h'', e1, e2, e3, _⟩ :=
    Proofs.MacHmac.hmac_rfc2104 D H B key RelD FinD hD hLB d0 h0 chunks hk hok
  refine ⟨h, h', h'', ?_, ?_, ?_⟩
  · rw [hmac_new_eq D hL]; exact e1
  · exact e2
  · rw [hmac_result_eq D hL, e3]; rfl

/-- the hypothesis `ResultLen` holds for the digest objects HMAC is used with (all 16 macro-generated wrappers) -/
example : ResultLen (legacyDigest sha256Ctx) := legacy_resultLen _
example : ResultLen (legacyDigest sha3_512Ctx) := legacy_resultLen _

end hmac

end Cx.Props.C05.GlueTieMac
