/-
  Props.C02.Blake2 — C02 for the BLAKE2b / BLAKE2s contexts (Context<BITS> and ContextDyn share the model
  `Impl.Blake2.Ctx`; the const generic / stored output length is the parameter `outlen`).

  Refinement to the abstract state (key, bytes since last reset): EVERY history over
  {update, update_mut, reset, reset_with_key, finalize_reset, finalize_reset_with_key, finalize, clone, swap}
  emits exactly the RFC 7693 digests of the concatenations, and panics exactly where the abstract machine refuses
  (a rekey with a key longer than the maximum).  `clone`/`swap` model forking: a stack of context values, each
  continued independently (the model's values are immutable; that the two Rust copies do not alias is a
  correspondence obligation — hctx `c`/`x` ops).  State equalities: `reset_with_key k` = `new_keyed k`,
  `reset` = `new`, for every reachable context.  The lazy last block (strict `>`: a full block stays buffered
  until more input or finalisation) is the lemma `Proofs.Blake2.update_mut_spec`.
  Helpers and the two state machines (`stepC`, `stepA`, `runC`, `runA`): Proofs/Blake2Hist.lean.
-/
import CxVerif.Proofs.Blake2Hist
namespace Cx.Props.C02
open Cx Cx.Proofs.Blake2
open Cx.Impl.Blake2 (Ctx Profile)
open Cx.Spec.Blake2 (Word Params)

/-- generic form: from `new_keyed(outlen, key)`, any history gives on the code-shaped model the same digests, in
    the same order, as the abstract machine whose digests are `Spec.blake2 outlen key (bytes since reset)`; one side
    panics iff the other refuses -/
theorem history_generic {W : Type} [Word W] (P : Params W) (g : Good P) (outlen : Nat) (key : Bytes) (ops : List Op)
    (ho : 0 < outlen ∧ outlen ≤ P.maxOut) (hk : key.length ≤ P.maxKey) :
    ∃ c0, Ctx.new_keyed P outlen key = some c0 ∧
      (runC P .wrapping outlen (c0, []) ops []).map (·.2) = (runA P outlen ((key, []), []) ops []).map (·.2) := by
  refine ⟨newState P outlen key, new_keyed_eq P outlen key ho hk, ?_⟩
  have hr : RelSt P outlen (newState P outlen key, []) ((key, []), []) :=
    ⟨newState_relA P g outlen ho.2 key hk, trivial⟩
  have h := runC_sim P g outlen ho ops _ _ [] hr
  revert h
  cases runC P .wrapping outlen (newState P outlen key, []) ops [] with
  | none =>
    cases runA P outlen ((key, []), []) ops [] with
    | none => intro _; rfl
    | some y => intro h; exact absurd h (by simp [Agree])
  | some x =>
    cases runA P outlen ((key, []), []) ops [] with
    | none => intro h; exact absurd h (by simp [Agree])
    | some y => intro h; simp only [Option.map]; rw [h.1]

/-- BLAKE2b contexts: every history, 1 ≤ outlen ≤ 64, keylen ≤ 64 -/
theorem blake2b_history (outlen : Nat) (key : Bytes) (ops : List Op) (ho : 0 < outlen ∧ outlen ≤ 64) (hk : key.length ≤ 64) :
    ∃ c0, Ctx.new_keyed Impl.Blake2.b outlen key = some c0 ∧
      (runC Impl.Blake2.b .wrapping outlen (c0, []) ops []).map (·.2)
        = (runA Spec.Blake2.b outlen ((key, []), []) ops []).map (·.2) := by
  rw [impl_b_eq_spec_b]; exact history_generic Spec.Blake2.b good_b outlen key ops ho hk

/-- BLAKE2s contexts: every history, 1 ≤ outlen ≤ 32, keylen ≤ 32 -/
theorem blake2s_history (outlen : Nat) (key : Bytes) (ops : List Op) (ho : 0 < outlen ∧ outlen ≤ 32) (hk : key.length ≤ 32) :
    ∃ c0, Ctx.new_keyed Impl.Blake2.s outlen key = some c0 ∧
      (runC Impl.Blake2.s .wrapping outlen (c0, []) ops []).map (·.2)
        = (runA Spec.Blake2.s outlen ((key, []), []) ops []).map (·.2) := by
  rw [impl_s_eq_spec_s]; exact history_generic Spec.Blake2.s good_s outlen key ops ho hk

/-- a non-trivial history satisfying the hypotheses: keyed, split over a block boundary, fork, rekey, reuse -/
example : (0 < 32 ∧ 32 ≤ 64) ∧ ([1, 2, 3] : Bytes).length ≤ 64 ∧
    [Op.update (List.replicate 128 7), .clone, .update_mut [1], .finalize, .swap, .finalize_reset,
      .reset_with_key [9], .update [], .finalize].length = 9 := by decide

/-- the abstract machine really is "digest of the concatenation since the last reset": any split into pieces
    (empty pieces included, consuming or in-place updates) followed by `finalize` emits the one-shot digest -/
theorem runA_updates {W : Type} [Word W] (P : Params W) (outlen : Nat) (key : Bytes) (chunks : List Bytes) :
    ∀ (m : Bytes) (st : List AVal) (outs : List Bytes),
      runA P outlen ((key, m), st) (chunks.map Op.update ++ [Op.finalize]) outs
        = some (((key, m ++ chunks.flatten), st), outs ++ [Spec.Blake2.blake2 P outlen key (m ++ chunks.flatten)]) := by
  induction chunks with
  | nil => intro m st outs; simp [runA, stepA, addOut]
  | cons d ds ih =>
    intro m st outs
    simp only [List.map_cons, List.cons_append, runA, stepA, addOut, List.flatten_cons]
    rw [ih (m ++ d) st outs, List.append_assoc]

/-- split independence for BLAKE2b: `new_keyed(key).update(c₁)…update(cₙ).finalize()` = `blake2b(c₁ ++ … ++ cₙ)` -/
theorem blake2b_split_independent (outlen : Nat) (key : Bytes) (chunks : List Bytes)
    (ho : 0 < outlen ∧ outlen ≤ 64) (hk : key.length ≤ 64) :
    ∃ c0, Ctx.new_keyed Impl.Blake2.b outlen key = some c0 ∧
      (runC Impl.Blake2.b .wrapping outlen (c0, []) (chunks.map Op.update ++ [Op.finalize]) []).map (·.2)
        = some [Spec.Blake2.blake2b outlen key chunks.flatten] := by
  obtain ⟨c0, h0, h1⟩ := blake2b_history outlen key (chunks.map Op.update ++ [Op.finalize]) ho hk
  refine ⟨c0, h0, ?_⟩
  rw [h1, runA_updates Spec.Blake2.b outlen key chunks [] [] []]
  rfl

theorem blake2s_split_independent (outlen : Nat) (key : Bytes) (chunks : List Bytes)
    (ho : 0 < outlen ∧ outlen ≤ 32) (hk : key.length ≤ 32) :
    ∃ c0, Ctx.new_keyed Impl.Blake2.s outlen key = some c0 ∧
      (runC Impl.Blake2.s .wrapping outlen (c0, []) (chunks.map Op.update ++ [Op.finalize]) []).map (·.2)
        = some [Spec.Blake2.blake2s outlen key chunks.flatten] := by
  obtain ⟨c0, h0, h1⟩ := blake2s_history outlen key (chunks.map Op.update ++ [Op.finalize]) ho hk
  refine ⟨c0, h0, ?_⟩
  rw [h1, runA_updates Spec.Blake2.s outlen key chunks [] [] []]
  rfl

/-- every context reachable by a history satisfies the buffer invariant (`buf` is the whole block array and
    `buflen ≤ BLOCK_BYTES`): the slice operations of update_mut / internal_final never go out of bounds -/
theorem reachable_inv {W : Type} [Word W] (P : Params W) (g : Good P) (outlen : Nat) (key : Bytes) (ops : List Op)
    (ho : 0 < outlen ∧ outlen ≤ P.maxOut) (hk : key.length ≤ P.maxKey) (s : CSt W) (outs : List Bytes)
    (h : runC P .wrapping outlen (newState P outlen key, []) ops [] = some (s, outs)) : Inv P s.1 := by
  have hr : RelSt P outlen (newState P outlen key, []) ((key, []), []) :=
    ⟨newState_relA P g outlen ho.2 key hk, trivial⟩
  have h2 := runC_sim P g outlen ho ops _ _ [] hr
  rw [h] at h2
  cases hA : runA P outlen ((key, []), []) ops [] with
  | none => rw [hA] at h2; exact absurd h2 (by simp [Agree])
  | some y => rw [hA] at h2; exact h2.2.1.2.1

/-- `reset_with_key k` ≈ `new_keyed k` as a STATE EQUALITY (engine, whole buffer, buffer length), on every context
    satisfying the invariant (all reachable ones), including the refusal of a long key -/
theorem reset_with_key_eq_new_keyed {W : Type} [Word W] (P : Params W) (c : Ctx W) (hi : Inv P c) (outlen : Nat) (k : Bytes)
    (ho : 0 < outlen ∧ outlen ≤ P.maxOut) : Ctx.reset_with_key P c outlen k = Ctx.new_keyed P outlen k := by
  by_cases hk : k.length ≤ P.maxKey
  · rw [reset_with_key_eq P c hi outlen k hk, new_keyed_eq P outlen k ho hk]
  · rw [reset_with_key_none P c outlen k hk, new_keyed_none P outlen k (fun h => hk h.2.2)]

/-- `reset` ≈ `new` as a state equality -/
theorem reset_eq_new {W : Type} [Word W] (P : Params W) (c : Ctx W) (hi : Inv P c) (outlen : Nat)
    (ho : 0 < outlen ∧ outlen ≤ P.maxOut) : some (Ctx.reset P c outlen) = Ctx.new_keyed P outlen [] := by
  rw [reset_eq P c hi outlen, new_keyed_eq P outlen [] ho (Nat.zero_le _)]

/-- `finalize_reset` leaves the state of `new` (the modern API resets to the UNKEYED state, as documented) -/
theorem finalize_reset_state {W : Type} [Word W] (P : Params W) (g : Good P) (pr : Profile) (c : Ctx W) (outlen : Nat)
    (c' : Ctx W) (out : Bytes) (hi : Inv P c)
    (h : Ctx.finalize_reset_at P pr c outlen outlen = some (c', out)) : c' = newState P outlen [] := by
  unfold Ctx.finalize_reset_at at h
  rw [if_neg (by simp)] at h
  cases h0 : Ctx.internal_final P pr c with
  | none => rw [h0] at h; cases h
  | some cf =>
    rw [h0] at h
    have hinv : Inv P cf := by
      unfold Ctx.internal_final at h0
      cases h1 : c.eng.increment_counter pr (c.buflen % 2 ^ Word.bits W) with
      | none => rw [h1] at h0; cases h0
      | some e1 =>
        rw [h1] at h0
        cases h0
        refine ⟨?_, hi.2⟩
        have hz : (Impl.Blake2.zeroFrom c.buf c.buflen).length = P.bb := by
          rw [zeroFrom_length _ _ (by rw [hi.1]; exact hi.2)]; exact hi.1
        simp only []
        rw [setSlice_length _ _ _ (by rw [hbytes_length, hz]; have := g.bb_ge; omega)]; exact hz
    cases h
    exact reset_eq P cf hinv outlen

end Cx.Props.C02
