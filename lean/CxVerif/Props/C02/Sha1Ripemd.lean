/-
  Props.C02 (unit sha1ripemd) — SHA-1 and RIPEMD-160 contexts: any split, clone, reset or reuse gives the one-shot digest.

  The theorems are about `Cx.HashProg.runProg`, the very function the driver ops `hctx.sha1` / `hctx.ripemd160` run
  on the code-shaped contexts (`Impl.Sha1.fam`, `Impl.Ripemd160.fam`): for EVERY operation history over
      {update(c), update_mut(c), clone-push, swap-with-clone, reset, finalize_reset, finalize-of-a-clone}
  — every chunk content and length, empty chunks included, any nesting of clones — the emitted digests are those of
  the abstract machine whose state is "the bytes since creation / the last reset" hashed with the standard function,
  and nothing panics.  Domain guard (`Guard ok`): at each finalisation the bytes since the last reset are < 2^61.

  `clone` is the identity on immutable model values: that the two Rust copies do not alias is a correspondence
  obligation (checked by the `c`/`x` ops of the harness), not a theorem.
  Only property theorems (+ tiny local defs) here; helpers in Proofs/{HashProg,Sha1Stream,Ripemd160Stream}.
-/
import CxVerif.Proofs.HashProg
import CxVerif.Proofs.Sha1Stream
import CxVerif.Proofs.Ripemd160Stream
namespace Cx.Props.C02.Sha1Ripemd
open Cx Cx.HashProg Cx.Proofs.HashProg

/-- the domain guard as a predicate on "bytes since the last reset" -/
def ok (m : Bytes) : Prop := m.length < 2 ^ 61

/-! ### the refinement (induction over arbitrary op lists inside `runProg_sim`) -/

theorem sha1_refines : Refines Impl.Sha1.fam Spec.Sha1.sha1 Cx.Proofs.Sha1Stream.Abs ok :=
  Cx.Proofs.Sha1Stream.refines

theorem ripemd160_refines : Refines Impl.Ripemd160.fam Spec.Ripemd160.ripemd160 Cx.Proofs.Ripemd160Stream.Abs ok :=
  Cx.Proofs.Ripemd160Stream.refines

/-! ### every history -/

/-- **sha1::Context**: for every operation history starting from `Context::new()`, the digests emitted (by
    `finalize_reset` and by `finalize` of a clone) are the SHA-1 digests of the bytes fed since the last reset —
    whatever the splitting, cloning, swapping and resetting in between — and no call panics. -/
theorem sha1_every_history (ops : List Op) (hG : Guard ok ops [] []) :
    runProg Impl.Sha1.fam ops Impl.Sha1.Context.new [] [] = runProg (famSpec Spec.Sha1.sha1) ops [] [] [] :=
  runProg_new sha1_refines ops hG

/-- **ripemd160::Context**: the same -/
theorem ripemd160_every_history (ops : List Op) (hG : Guard ok ops [] []) :
    runProg Impl.Ripemd160.fam ops Impl.Ripemd160.Context.new [] []
      = runProg (famSpec Spec.Ripemd160.ripemd160) ops [] [] [] :=
  runProg_new ripemd160_refines ops hG

/-- a non-trivial history satisfying the guard: split across a block boundary, fork, diverge, reset, reuse -/
example : Guard ok
    [Op.update (List.replicate 63 1), Op.clone, Op.update_mut (List.replicate 130 2), Op.finalize, Op.swap,
     Op.update [], Op.finalize_reset, Op.update [3], Op.reset, Op.finalize] [] [] := by
  simp only [Guard, ok, List.append_nil, List.nil_append, List.length_append, List.length_replicate,
    List.length_nil, and_true]
  omega

/-- … from ANY reachable state and clone stack, not only from `new` -/
theorem sha1_every_history_from (ops : List Op) (cur : Impl.Sha1.Context) (stack : List Impl.Sha1.Context)
    (out : List Bytes) (m : Bytes) (ms : List Bytes) (hR : Cx.Proofs.Sha1Stream.Abs cur m)
    (hS : StackRel Cx.Proofs.Sha1Stream.Abs stack ms) (hG : Guard ok ops m ms) :
    runProg Impl.Sha1.fam ops cur stack out = runProg (famSpec Spec.Sha1.sha1) ops m ms out :=
  runProg_sim sha1_refines ops cur stack out m ms hR hS hG

theorem ripemd160_every_history_from (ops : List Op) (cur : Impl.Ripemd160.Context)
    (stack : List Impl.Ripemd160.Context) (out : List Bytes) (m : Bytes) (ms : List Bytes)
    (hR : Cx.Proofs.Ripemd160Stream.Abs cur m) (hS : StackRel Cx.Proofs.Ripemd160Stream.Abs stack ms)
    (hG : Guard ok ops m ms) :
    runProg Impl.Ripemd160.fam ops cur stack out = runProg (famSpec Spec.Ripemd160.ripemd160) ops m ms out :=
  runProg_sim ripemd160_refines ops cur stack out m ms hR hS hG

example : Cx.Proofs.Sha1Stream.Abs Impl.Sha1.Context.new [] := Cx.Proofs.Sha1Stream.abs_new
example : Cx.Proofs.Ripemd160Stream.Abs Impl.Ripemd160.Context.new [] := Cx.Proofs.Ripemd160Stream.abs_new

/-! ### corollaries the property names -/

/-- split independence: any sequence of `update` / `update_mut` calls with arbitrary (also empty) pieces, then
    `finalize`, gives the one-shot digest of the concatenation -/
theorem sha1_split_independence (cs : List (Bool × Bytes)) (h : (chunkBytes cs).length < 2 ^ 61) :
    runProg Impl.Sha1.fam (cs.map chunkOp ++ [Op.finalize]) Impl.Sha1.Context.new [] []
      = some [Spec.Sha1.sha1 (chunkBytes cs)] :=
  split_independence sha1_refines cs h

theorem ripemd160_split_independence (cs : List (Bool × Bytes)) (h : (chunkBytes cs).length < 2 ^ 61) :
    runProg Impl.Ripemd160.fam (cs.map chunkOp ++ [Op.finalize]) Impl.Ripemd160.Context.new [] []
      = some [Spec.Ripemd160.ripemd160 (chunkBytes cs)] :=
  split_independence ripemd160_refines cs h

example : (chunkBytes [(false, [1, 2]), (true, []), (true, List.replicate 70 9)]).length < 2 ^ 61 := by
  have : (chunkBytes [(false, [1, 2]), (true, []), (true, List.replicate 70 9)]).length = 72 := by
    simp [chunkBytes]
  omega

/-- the readable state of a context: everything but the dead bytes of the buffer array beyond `buffer_idx` -/
def view1 (c : Impl.Sha1.Context) : Spec.Sha1.Hash × UInt64 × Nat × Bytes :=
  (c.h, c.processed_bytes, c.buffer.buffer_idx, c.buffer.data)
def viewR (c : Impl.Ripemd160.Context) : Spec.Ripemd160.Hash × UInt64 × Nat × Bytes :=
  (c.h, c.processed_bytes, c.buffer.buffer_idx, c.buffer.data)

/-- `reset` ≈ `new`, as equality of the readable state, from ANY context; and the reset context is in the
    abstraction relation with the empty message, so by `sha1_every_history_from` it has the futures of `new` -/
theorem sha1_reset_is_new (c : Impl.Sha1.Context) :
    view1 c.reset = view1 Impl.Sha1.Context.new
    ∧ (c.buffer.buffer.length = 64 → Cx.Proofs.Sha1Stream.Abs c.reset []) := by
  refine ⟨?_, Cx.Proofs.Sha1Stream.abs_reset c⟩
  simp [view1, Impl.Sha1.Context.reset, Impl.Sha1.Context.new, Impl.FixedBuffer.reset, Impl.FixedBuffer.new,
    Impl.FixedBuffer.data]

theorem ripemd160_reset_is_new (c : Impl.Ripemd160.Context) :
    viewR c.reset = viewR Impl.Ripemd160.Context.new
    ∧ (c.buffer.buffer.length = 64 → Cx.Proofs.Ripemd160Stream.Abs c.reset []) := by
  refine ⟨?_, Cx.Proofs.Ripemd160Stream.abs_reset c⟩
  simp [viewR, Impl.Ripemd160.Context.reset, Impl.Ripemd160.Context.new, Impl.FixedBuffer.reset,
    Impl.FixedBuffer.new, Impl.FixedBuffer.data]

example : (Impl.Sha1.Context.new).buffer.buffer.length = 64 := by decide

/-- reuse after `reset`: from any reachable context, `reset` followed by ANY history emits what the same history
    emits from `new` -/
theorem sha1_reset_then_history (c : Impl.Sha1.Context) (m : Bytes) (h : Cx.Proofs.Sha1Stream.Abs c m)
    (ops : List Op) (hG : Guard ok ops [] []) :
    runProg Impl.Sha1.fam (Op.reset :: ops) c [] [] = runProg Impl.Sha1.fam ops Impl.Sha1.Context.new [] [] := by
  rw [sha1_every_history ops hG]
  exact sha1_every_history_from (Op.reset :: ops) c [] [] m [] h trivial hG

theorem ripemd160_reset_then_history (c : Impl.Ripemd160.Context) (m : Bytes)
    (h : Cx.Proofs.Ripemd160Stream.Abs c m) (ops : List Op) (hG : Guard ok ops [] []) :
    runProg Impl.Ripemd160.fam (Op.reset :: ops) c [] []
      = runProg Impl.Ripemd160.fam ops Impl.Ripemd160.Context.new [] [] := by
  rw [ripemd160_every_history ops hG]
  exact ripemd160_every_history_from (Op.reset :: ops) c [] [] m [] h trivial hG

/-- `finalize_reset` returns the digest of what was absorbed and leaves the readable state of `new` -/
theorem sha1_finalize_reset_leaves_fresh (c : Impl.Sha1.Context) (m : Bytes)
    (h : Cx.Proofs.Sha1Stream.Abs c m) (hm : m.length < 2 ^ 61) :
    ∃ c', c.finalize_reset = some (c', Spec.Sha1.sha1 m) ∧ view1 c' = view1 Impl.Sha1.Context.new
      ∧ Cx.Proofs.Sha1Stream.Abs c' [] := by
  obtain ⟨c1, he, hl⟩ := Cx.Proofs.Sha1Stream.abs_mk_result c m h hm
  refine ⟨c1.reset, by simp [Impl.Sha1.Context.finalize_reset, he], (sha1_reset_is_new c1).1,
    Cx.Proofs.Sha1Stream.abs_reset c1 hl⟩

theorem ripemd160_finalize_reset_leaves_fresh (c : Impl.Ripemd160.Context) (m : Bytes)
    (h : Cx.Proofs.Ripemd160Stream.Abs c m) (hm : m.length < 2 ^ 61) :
    ∃ c', c.finalize_reset = some (c', Spec.Ripemd160.ripemd160 m) ∧ viewR c' = viewR Impl.Ripemd160.Context.new
      ∧ Cx.Proofs.Ripemd160Stream.Abs c' [] := by
  obtain ⟨c', he, hA⟩ := Cx.Proofs.Ripemd160Stream.abs_finalize_reset c m h hm
  refine ⟨c', he, ?_, hA⟩
  obtain ⟨hp, hw, hd, hs⟩ := hA
  have hidx : c'.buffer.buffer_idx = 0 := by
    have := Cx.Proofs.FB.data_length hw
    rw [hd] at this
    simpa [blockTail] using this.symm
  have hpb : c'.processed_bytes = 0 := by
    apply UInt64.toNat_inj.mp
    simpa using hp
  simp [viewR, hs, hidx, hpb, Impl.Ripemd160.Context.new, Impl.FixedBuffer.new, Impl.FixedBuffer.data,
    fullBlocks, takeBlocks, Cx.Proofs.Ripemd160.H_eq]

end Cx.Props.C02.Sha1Ripemd
