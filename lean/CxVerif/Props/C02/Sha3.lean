/-
  Props.C02.Sha3 — C02 for the sha3 unit: for the SHA-3 / Keccak contexts the digest depends only on the bytes fed
  since creation or the last reset, for EVERY operation history.
  Only property theorems live here; the proofs are in Proofs/Sponge*.lean.

  Abstraction.  `engine_of r m` (Proofs.SpongeAbsorb) is the engine state determined by the byte string m:
  sponge state after the full blocks of m, XOR the partial block, `offset = |m| mod r`, both flags set.  The
  refinement is functional: every reachable context IS `engine_of r (bytes since last reset)` (state equality).
  `clone` is the identity on model values; the independence of the two Rust copies is a correspondence obligation
  (hctx ops `c`/`x`), not a theorem.
-/
import CxVerif.Proofs.SpongeCtx
namespace Cx.Props.C02
open Cx Cx.Proofs.Sponge Cx.Impl.Sha3

/-- absorb-offset abstraction lemma: `update`/`update_mut` (= `Engine::process`) on the state that represents m
    gives the state that represents m ++ data — for every m, every data (also empty), and it never panics -/
theorem update_refines (dl r : Nat) (hrate : rate dl = some r) (hr : 0 < r) (m data : Bytes) :
    Context.update_mut dl (engine_of r m) data = some (engine_of r (m ++ data)) ∧
    Context.update dl (engine_of r m) data = some (engine_of r (m ++ data)) :=
  ⟨process_spec dl r hrate hr m data, process_spec dl r hrate hr m data⟩

example : rate 32 = some 136 ∧ 0 < 136 := by decide

/-- a new context represents the empty string -/
theorem new_refines (r : Nat) (hr : 0 < r) : Context.new = engine_of r [] := (engine_of_nil r hr).symm

/-- `reset` ≈ `new` as STATE EQUALITY, from every reachable state -/
theorem reset_is_new (r : Nat) (m : Bytes) : Context.reset (engine_of r m) = Context.new := reset_engine_of r m

/-- `finalize_reset` emits the one-shot digest of the bytes since the last reset and leaves exactly `new()` -/
theorem finalize_reset_fresh (dl ds r : Nat) (sfx : List Bool) (hv : Variant dl ds r sfx) (m : Bytes) :
    Context.finalize_reset dl ds (engine_of r m) = some (Context.new, Spec.Keccak.sponge r m sfx dl) :=
  finalize_reset_spec hv m

/-- `finalize` emits the one-shot digest of the bytes since the last reset -/
theorem finalize_refines (dl ds r : Nat) (sfx : List Bool) (hv : Variant dl ds r sfx) (m : Bytes) :
    Context.finalize dl ds (engine_of r m) = some (Spec.Keccak.sponge r m sfx dl) := finalize_spec' hv m

/-- split independence: feeding any list of pieces (any sizes, empty ones included) and finalizing gives the
    one-shot digest of the concatenation -/
theorem split_independent (dl ds r : Nat) (sfx : List Bool) (hv : Variant dl ds r sfx) (chunks : List Bytes) :
    (chunks.foldlM (Context.update_mut dl) Context.new).bind (Context.finalize dl ds)
      = Impl.Sha3.hash dl ds chunks.flatten := by
  rw [show Context.new = engine_of r [] from (engine_of_nil r hv.r_pos).symm,
    feed_chunks hv.hrate hv.r_pos chunks [], Option.bind_some, List.nil_append, finalize_spec' hv, hash_spec hv]

example : Variant 28 2 144 [false, true] := variant_sha3_224

/-- the refinement lifted over ARBITRARY operation histories, for all eight algorithms: running any program of
    {update, update_mut, clone (push), swap, reset, finalize_reset, finalize-of-clone} from `new()` on the
    code-shaped model never panics and emits exactly the Spec digests of "bytes since the last reset" at every
    finalisation (the abstract machine `runSpec` keeps only byte strings) -/
theorem history_refines (a : Cx.Driver.Sha3.Alg) (ha : a ∈ Cx.Driver.Sha3.algs) (ops : List Cx.Driver.Sha3.Op) :
    Cx.Driver.Sha3.runImpl a ops Context.new [] [] = some (Cx.Driver.Sha3.runSpec a ops [] [] []) :=
  run_from_new a ha ops

/-- the invariant behind `history_refines`: from ANY configuration whose current context and stacked clones
    represent byte strings, every program continues to do so -/
theorem history_refines_from (a : Cx.Driver.Sha3.Alg) (r : Nat) (sfx : List Bool) (ok : AlgOk a r sfx)
    (ops : List Cx.Driver.Sha3.Op) (cur : Bytes) (st out : List Bytes) :
    Cx.Driver.Sha3.runImpl a ops (engine_of r cur) (st.map (engine_of r)) out
      = some (Cx.Driver.Sha3.runSpec a ops cur st out) := run_refines ok ops cur st out

/-- protocol level: for each of the eight algorithms and EVERY request line `hctx.<alg> <program>` the code-shaped
    model and the abstract machine over "bytes since last reset" give the same answer line -/
theorem hctx_lines_agree (a : Cx.Driver.Sha3.Alg) (ha : a ∈ Cx.Driver.Sha3.algs) (args : List String) :
    Cx.Driver.Sha3.hctxImpl a args = Cx.Driver.Sha3.hctxSpec a args := driver_hctx_agree a ha args

end Cx.Props.C02
