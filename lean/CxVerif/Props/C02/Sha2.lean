/-
  Props.C02 (unit sha2) — SHA-2 contexts: any split, clone, reset or reuse gives the one-shot digest.

  The theorems are about `Cx.HashProg.runProg`, the very function the driver op `hctx.<alg>` runs on the code-shaped
  contexts (`Impl.Sha2.fam256 A`, `fam512 A`): for EVERY operation history over
      {update(c), update_mut(c), clone-push, swap-with-clone, reset, finalize_reset, finalize-of-a-clone}
  — every chunk content and length, empty chunks included, any nesting of clones — the emitted digests are those of
  the abstract machine whose state is "the bytes since creation / the last reset" hashed with the FIPS function, and
  nothing panics.  Domain guard (`Guard`): at each finalisation the bytes since the last reset are < 2^61 (2^125).

  `clone` is the identity on immutable model values: that the two Rust copies do not alias is a correspondence
  obligation (checked by the `c`/`x` ops of the harness), not a theorem.  The `finished` flag of Engine256 is never
  set in a reachable context (`Abs256` keeps it false; `finalize(self)` consumes, `finalize_reset` resets it).
-/
import CxVerif.Proofs.HashProg
import CxVerif.Proofs.Sha2Engine
namespace Cx.Props.C02.Sha2
open Cx Cx.HashProg Cx.Proofs.HashProg Cx.Proofs.Sha2Engine Cx.Impl.Sha2

/-- the domain guards as predicates on "bytes since the last reset" -/
def ok256 (m : Bytes) : Prop := m.length < 2 ^ 61
def ok512 (m : Bytes) : Prop := m.length < 2 ^ 125

/-! ### the refinement (one per context type; induction over arbitrary op lists inside `runProg_sim`) -/

theorem sha256_refines : Refines (fam256 Sha256) Spec.Sha2.sha256 (fun c m => Abs256 Sha256.state c.engine m) ok256 := by
  have h := refines256 Sha256 id outOK_sha256
  have e : specDigest256 Sha256 id = Spec.Sha2.sha256 := funext specDigest256_sha256
  rw [e] at h; exact h

theorem sha224_refines : Refines (fam256 Sha224) Spec.Sha2.sha224 (fun c m => Abs256 Sha224.state c.engine m) ok256 := by
  have h := refines256 Sha224 (List.take 28) outOK_sha224
  have e : specDigest256 Sha224 (List.take 28) = Spec.Sha2.sha224 := funext specDigest256_sha224
  rw [e] at h; exact h

theorem sha512_refines : Refines (fam512 Sha512) Spec.Sha2.sha512 (fun c m => Abs512 Sha512.state c.engine m) ok512 := by
  have h := refines512 compress512_ok Sha512 64 outOK_sha512
  have e : specDigest512 Sha512 64 = Spec.Sha2.sha512 := funext specDigest512_sha512
  rw [e] at h; exact h

theorem sha384_refines : Refines (fam512 Sha384) Spec.Sha2.sha384 (fun c m => Abs512 Sha384.state c.engine m) ok512 := by
  have h := refines512 compress512_ok Sha384 48 outOK_sha384
  have e : specDigest512 Sha384 48 = Spec.Sha2.sha384 := funext specDigest512_sha384
  rw [e] at h; exact h

theorem sha512_224_refines :
    Refines (fam512 Sha512Trunc224) Spec.Sha2.sha512_224 (fun c m => Abs512 Sha512Trunc224.state c.engine m) ok512 := by
  have h := refines512 compress512_ok Sha512Trunc224 28 outOK_sha512_224
  have e : specDigest512 Sha512Trunc224 28 = Spec.Sha2.sha512_224 := funext specDigest512_sha512_224
  rw [e] at h; exact h

theorem sha512_256_refines :
    Refines (fam512 Sha512Trunc256) Spec.Sha2.sha512_256 (fun c m => Abs512 Sha512Trunc256.state c.engine m) ok512 := by
  have h := refines512 compress512_ok Sha512Trunc256 32 outOK_sha512_256
  have e : specDigest512 Sha512Trunc256 32 = Spec.Sha2.sha512_256 := funext specDigest512_sha512_256
  rw [e] at h; exact h

/-! ### every history -/

/-- **Context256**: for every operation history starting from `Context256::new()`, the digests emitted (by
    `finalize_reset` and by `finalize` of a clone) are the SHA-256 digests of the bytes fed since the last reset —
    whatever the splitting, cloning, swapping and resetting in between — and no call panics. -/
theorem sha256_every_history (ops : List Op) (hG : Guard ok256 ops [] []) :
    runProg (fam256 Sha256) ops (Ctx256.new Sha256) [] [] = runProg (famSpec Spec.Sha2.sha256) ops [] [] [] :=
  runProg_new sha256_refines ops hG

theorem sha224_every_history (ops : List Op) (hG : Guard ok256 ops [] []) :
    runProg (fam256 Sha224) ops (Ctx256.new Sha224) [] [] = runProg (famSpec Spec.Sha2.sha224) ops [] [] [] :=
  runProg_new sha224_refines ops hG

theorem sha512_every_history (ops : List Op) (hG : Guard ok512 ops [] []) :
    runProg (fam512 Sha512) ops (Ctx512.new Sha512) [] [] = runProg (famSpec Spec.Sha2.sha512) ops [] [] [] :=
  runProg_new sha512_refines ops hG

theorem sha384_every_history (ops : List Op) (hG : Guard ok512 ops [] []) :
    runProg (fam512 Sha384) ops (Ctx512.new Sha384) [] [] = runProg (famSpec Spec.Sha2.sha384) ops [] [] [] :=
  runProg_new sha384_refines ops hG

theorem sha512_224_every_history (ops : List Op) (hG : Guard ok512 ops [] []) :
    runProg (fam512 Sha512Trunc224) ops (Ctx512.new Sha512Trunc224) [] []
      = runProg (famSpec Spec.Sha2.sha512_224) ops [] [] [] :=
  runProg_new sha512_224_refines ops hG

theorem sha512_256_every_history (ops : List Op) (hG : Guard ok512 ops [] []) :
    runProg (fam512 Sha512Trunc256) ops (Ctx512.new Sha512Trunc256) [] []
      = runProg (famSpec Spec.Sha2.sha512_256) ops [] [] [] :=
  runProg_new sha512_256_refines ops hG

/-- a non-trivial history satisfying the guard: split across a block boundary, fork, diverge, reset, reuse -/
example : Guard ok256
    [Op.update (List.replicate 63 1), Op.clone, Op.update_mut (List.replicate 130 2), Op.finalize, Op.swap,
     Op.update [], Op.finalize_reset, Op.update [3], Op.reset, Op.finalize] [] [] := by
  simp only [Guard, ok256, List.append_nil, List.nil_append, List.length_append, List.length_replicate,
    List.length_nil, and_true]
  omega

/-- … from ANY reachable state and clone stack, not only from `new` (Context256; the others are the same instance
    of `runProg_sim`) -/
theorem sha256_every_history_from (ops : List Op) (cur : Ctx256) (stack : List Ctx256) (out : List Bytes)
    (m : Bytes) (ms : List Bytes) (hR : Abs256 Sha256.state cur.engine m)
    (hS : StackRel (fun c m => Abs256 Sha256.state c.engine m) stack ms) (hG : Guard ok256 ops m ms) :
    runProg (fam256 Sha256) ops cur stack out = runProg (famSpec Spec.Sha2.sha256) ops m ms out :=
  runProg_sim sha256_refines ops cur stack out m ms hR hS hG

example : Abs256 Sha256.state (Ctx256.new Sha256).engine [] := abs256_new _

/-! ### corollaries the property names -/

/-- split independence: any sequence of `update` / `update_mut` calls with arbitrary (also empty) pieces, then
    `finalize`, gives the one-shot digest of the concatenation -/
theorem sha256_split_independence (cs : List (Bool × Bytes)) (h : (chunkBytes cs).length < 2 ^ 61) :
    runProg (fam256 Sha256) (cs.map chunkOp ++ [Op.finalize]) (Ctx256.new Sha256) [] []
      = some [Spec.Sha2.sha256 (chunkBytes cs)] :=
  split_independence sha256_refines cs h

theorem sha512_split_independence (cs : List (Bool × Bytes)) (h : (chunkBytes cs).length < 2 ^ 125) :
    runProg (fam512 Sha512) (cs.map chunkOp ++ [Op.finalize]) (Ctx512.new Sha512) [] []
      = some [Spec.Sha2.sha512 (chunkBytes cs)] :=
  split_independence sha512_refines cs h

example : (chunkBytes [(false, [1, 2]), (true, []), (true, List.replicate 70 9)]).length < 2 ^ 61 := by
  have : (chunkBytes [(false, [1, 2]), (true, []), (true, List.replicate 70 9)]).length = 72 := by
    simp [chunkBytes]
  omega

/-- `reset` ≈ `new`, as equality of the readable state (everything but dead buffer bytes), from any reachable
    context; by `abs256_of_view_eq` + `sha256_every_history_from` equal views have equal futures -/
theorem reset_is_new_256 (A : Alg256) (c : Ctx256) (m : Bytes) (h : Abs256 A.state c.engine m) :
    view256 (Ctx256.reset A c).engine = view256 (Ctx256.new A).engine
    ∧ Abs256 A.state (Ctx256.reset A c).engine [] :=
  ⟨reset256_view A.state c.engine h.2.1.1, abs256_reset A.state c.engine h.2.1.1⟩

theorem reset_is_new_512 (A : Alg512) (c : Ctx512) (m : Bytes) (h : Abs512 A.state c.engine m) :
    view512 (Ctx512.reset A c).engine = view512 (Ctx512.new A).engine
    ∧ Abs512 A.state (Ctx512.reset A c).engine [] :=
  ⟨reset512_view A.state c.engine h.2.1.1, abs512_reset A.state c.engine h.2.1.1⟩

/-- `finalize_reset` leaves a fresh state (and returns the digest of what was absorbed) -/
theorem finalize_reset_leaves_fresh_256 (c : Ctx256) (m : Bytes) (h : Abs256 Sha256.state c.engine m)
    (hm : m.length < 2 ^ 61) :
    ∃ c', Ctx256.finalize_reset Sha256 c = some (c', Spec.Sha2.sha256 m)
      ∧ view256 c'.engine = view256 (Ctx256.new Sha256).engine := by
  obtain ⟨c', e, hA⟩ := sha256_refines.finalize_reset c m h hm
  exact ⟨c', e, abs256_nil_view _ _ hA⟩

theorem finalize_reset_leaves_fresh_512 (c : Ctx512) (m : Bytes) (h : Abs512 Sha512.state c.engine m)
    (hm : m.length < 2 ^ 125) :
    ∃ c', Ctx512.finalize_reset Sha512 c = some (c', Spec.Sha2.sha512 m)
      ∧ view512 c'.engine = view512 (Ctx512.new Sha512).engine := by
  obtain ⟨c', e, hA⟩ := sha512_refines.finalize_reset c m h hm
  exact ⟨c', e, abs512_nil_view _ _ hA⟩

end Cx.Props.C02.Sha2
