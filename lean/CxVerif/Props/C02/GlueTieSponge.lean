/-
  Props.C02.GlueTieSponge — the translator tie for the STATEFUL GLUE of the sponge (src/hashing/sha3.rs `Engine`, the
  `sha3_impl!` contexts) and of the BLAKE2 engines/contexts (src/hashing/blake2/mod.rs, blake2b.rs, blake2s.rs).

  `Extracted/GlueSponge.lean` is regenerated from the CURRENT Rust source on every run by tools/ktx_glue_sponge.py, a
  generic imperative -> `Option`-monad translation (checked `usize` arithmetic, bounds-checked indexing / slicing,
  `assert!`/`panic!` = `none`, `for`/`while` loops as structural recursion, `&mut self` = returned new state).  The
  theorems below prove every generated definition `<fn>_src` equal to the hand model of Impl/Sha3.lean / Impl/Blake2.lean —
  the definitions the property theorems of C01, C02, C08, C09, C11, C20 are about — for ALL states (also the ones in which
  the code panics) and ALL inputs of every length.  A semantic change of the glue (an offset, a flag, a loop bound, a
  `>` turned `>=`, a skipped wipe …) changes the generated definition and the corresponding theorem stops checking, even
  if no sampled input reaches the change.

  Hypotheses.  `….length < 2 ^ 64` only: every Rust slice is shorter than `isize::MAX` while `Bytes` is unbounded, and the
  translation keeps the overflow checks (`in_pos + nread`, `self.offset + nread`, …) that the hand model leaves out; so
  the theorems also say that those checks never fire.  `output` is stated for an arbitrary caller buffer through
  `Proofs.GlueSponge.outputOn` (the text of the hand model `Engine.output` with `out` in place of `zeros out_len`) and, for
  the fresh buffers all callers in the crate pass, for the hand model itself.
  Proofs: lean/CxVerif/Proofs/GlueSponge.lean.
-/
import CxVerif.Extracted.GlueSponge
import CxVerif.Proofs.GlueSponge
namespace Cx.Props.C02.GlueTieSponge
open Cx

/-! ## SHA-3 / Keccak sponge `Engine<DIGESTLEN, DSLEN>` (src/hashing/sha3.rs) -/
namespace Sha3
open Cx.Impl.Sha3 Cx.Extracted.GlueSponge Cx.Extracted.GlueSponge.Sha3 Cx.Proofs.GlueSponge

/-- the struct definitions the state mapping of the translation was written for are token-identical in the source
    (otherwise the generated constants are failure stubs of another type and this does not typecheck) -/
theorem structs_checked : Engine_struct_src = () ∧ Context_struct_src = () := ⟨rfl, rfl⟩

/-- `fn rate(&self)`: the checked `DIGESTLEN * 2` and `B - …` fail exactly when the model's guard does -/
theorem Engine.rate_src_eq_model (dl ds : Nat) (e : Engine) : Engine.rate_src dl ds e = rate dl :=
  Proofs.GlueSponge.rate_src_eq_model dl ds e

/-- `const fn new()` -/
theorem Engine.new_src_eq_model (dl ds : Nat) : Engine.new_src dl ds = some Engine.new :=
  Proofs.GlueSponge.new_src_eq_model dl ds

/-- nested `fn set_domain_sep` of `finalize` -/
theorem set_domain_sep_src_eq_model (n : Nat) (buf : Bytes) : set_domain_sep_src n buf = set_domain_sep n buf :=
  Proofs.GlueSponge.set_domain_sep_src_eq_model n buf

/-- nested `fn pad_len::<DSLEN>`: the `i64` arithmetic with every overflow check -/
theorem pad_len_src_eq_model (ds offset rate : Nat) : pad_len_src ds offset rate = pad_len ds offset rate :=
  Proofs.GlueSponge.pad_len_src_eq_model ds offset rate

/-- nested `fn set_pad::<DSLEN>`: `|=` of the first pad bit, the `for i in (offset % 8) + 1..8` loop (`clear_bits`), the
    `iter_mut` wipe of the tail (`take ++ zeros`), `|= 0x80` on the last byte -/
theorem set_pad_src_eq_model (ds : Nat) (buf : Bytes) (hb : buf.length < 2 ^ 64) : set_pad_src ds buf = set_pad ds buf :=
  Proofs.GlueSponge.set_pad_src_eq_model ds buf hb

/-- `fn process` (absorb): the byte-wise `for` loop is `xor_in`, the `while in_pos < in_len` loop with `offset`, `break`
    and `keccak_f` is `absorb_loop` — for every engine state and every input -/
theorem Engine.process_src_eq_model (dl ds : Nat) (e : Engine) (data : Bytes) (hd : data.length < 2 ^ 64) :
    Engine.process_src dl ds e data = e.process dl data :=
  Proofs.GlueSponge.process_src_eq_model dl ds e data hd

/-- `fn finalize`: `pad_len`, the zeroed pad vector, the domain separation bits, `set_pad`, absorbing the pad, `can_absorb = false` -/
theorem Engine.finalize_src_eq_model (dl ds : Nat) (e : Engine) : Engine.finalize_src dl ds e = e.finalize dl ds :=
  Proofs.GlueSponge.finalize_src_eq_model dl ds e

/-- `fn reset`: both flags, the offset, the wipe of the whole state -/
theorem Engine.reset_src_eq_model (dl ds : Nat) (e : Engine) : Engine.reset_src dl ds e = some e.reset :=
  Proofs.GlueSponge.reset_src_eq_model dl ds e

/-- `fn output` (squeeze) into an arbitrary caller buffer: `can_squeeze`, the implicit `finalize`, the asserts, the
    `while` loop with `offset % r`, the `DIGESTLEN` cap, `copy_from_slice`, `keccak_f`, the final `can_squeeze = false` -/
theorem Engine.output_src_eq_model_on (dl ds : Nat) (e : Engine) (out : Bytes) (ho : out.length < 2 ^ 64) :
    Engine.output_src dl ds e out = outputOn dl ds e out :=
  Proofs.GlueSponge.output_src_eq_outputOn dl ds e out ho

/-- the hand model `Engine.output` is `outputOn` on a zeroed buffer -/
theorem Engine.output_model_eq_on (dl ds : Nat) (e : Engine) (n : Nat) : e.output dl ds n = outputOn dl ds e (zeros n) :=
  Proofs.GlueSponge.output_eq_outputOn dl ds e n

/-- `fn output` on a fresh buffer `[0; n]` (what every caller in the crate passes) = the hand model -/
theorem Engine.output_src_eq_model (dl ds : Nat) (e : Engine) (n : Nat) (hn : n < 2 ^ 64) :
    Engine.output_src dl ds e (zeros n) = e.output dl ds n :=
  Proofs.GlueSponge.output_src_zeros dl ds e n hn

/-! ### the contexts generated by `sha3_impl!` (`struct $context(Engine<$digestlength, 2>)`) -/

theorem Context.new_src_eq_model (dl : Nat) : Context.new_src dl = some Context.new :=
  Proofs.GlueSponge.ctx_new_src_eq_model dl

theorem Context.update_mut_src_eq_model (dl : Nat) (c : Context) (data : Bytes) (hd : data.length < 2 ^ 64) :
    Context.update_mut_src dl c data = Context.update_mut dl c data :=
  Proofs.GlueSponge.ctx_update_mut_src_eq_model dl c data hd

theorem Context.update_src_eq_model (dl : Nat) (c : Context) (data : Bytes) (hd : data.length < 2 ^ 64) :
    Context.update_src dl c data = Context.update dl c data :=
  Proofs.GlueSponge.ctx_update_src_eq_model dl c data hd

/-- `finalize_reset`: `out = [0; $digestlength]`, `output`, `reset` — unconditional (a digest length that does not fit
    `usize` makes `rate` panic first, in the source and in the model) -/
theorem Context.finalize_reset_src_eq_model (dl : Nat) (c : Context) :
    Context.finalize_reset_src dl c = Context.finalize_reset dl 2 c :=
  Proofs.GlueSponge.ctx_finalize_reset_src_eq_model dl c

theorem Context.finalize_src_eq_model (dl : Nat) (c : Context) : Context.finalize_src dl c = Context.finalize dl 2 c :=
  Proofs.GlueSponge.ctx_finalize_src_eq_model dl c

theorem Context.reset_src_eq_model (dl : Nat) (c : Context) : Context.reset_src dl c = some (Context.reset c) :=
  Proofs.GlueSponge.ctx_reset_src_eq_model dl c

/-- test (not a theorem about all inputs): the translated source computes SHA3-256("abc") -/
example : ((Context.new_src 32).bind fun c => (Context.update_src 32 c [0x61, 0x62, 0x63]).bind (Context.finalize_src 32)).map
    (fun d => d.take 4) = some [0x3a, 0x98, 0x5d, 0xa7] := by decide +kernel

end Sha3
end Cx.Props.C02.GlueTieSponge
