/-
  Props.C02.GlueTieSponge — the translator tie for the STATEFUL GLUE of the sponge (src/hashing/sha3.rs `Engine`, the
  `sha3_impl!` contexts) and of the BLAKE2 engines/contexts (src/hashing/blake2/mod.rs, blake2b.rs, blake2s.rs).

  `Extracted/GlueSponge.lean` is regenerated from the CURRENT Rust source on every run by tools/ktx_glue_sponge.py, a
  generic imperative -> `Option`-monad translation (checked `usize` arithmetic, bounds-checked indexing / slicing,
  `assert!`/`panic!` = `none`, `for`/`while` loops as structural recursion, `&mut self` = returned new state).  The
  theorems below prove every generated definition `<fn>_src` equal to the hand model of Impl/Sha3.lean / Impl/Blake2.lean —
  the definitions the property theorems of C01, C02, C08, C09, C11, C20 are about — for ALL states (also the ones in which
  the code panics) and ALL inputs of every length.  A semantic change of the glue (an offset, a flag, a loop bound, a
  `>` turned `>=`, a skipped wipe …) changes the generated definition and the corresponding theorem stops checking, even
  if no sampled input reaches the change.

  Hypotheses.  `….length < 2 ^ 64` only: every Rust slice is shorter than `isize::MAX` while `Bytes` is unbounded, and the
  translation keeps the overflow checks (`in_pos + nread`, `self.offset + nread`, …) that the hand model leaves out; so
  the theorems also say that those checks never fire.  `output` is stated for an arbitrary caller buffer through
  `Proofs.GlueSponge.outputOn` (the text of the hand model `Engine.output` with `out` in place of `zeros out_len`) and, for
  the fresh buffers all callers in the crate pass, for the hand model itself.
  Proofs: lean/CxVerif/Proofs/GlueSponge.lean.
-/
import CxVerif.Extracted.GlueSponge
import CxVerif.Proofs.GlueSponge
namespace Cx.Props.C02.GlueTieSponge
open Cx

/-! ## SHA-3 / Keccak sponge `Engine<DIGESTLEN, DSLEN>` (src/hashing/sha3.rs) -/
namespace Sha3
open Cx.Impl.Sha3 Cx.Extracted.GlueSponge Cx.Extracted.GlueSponge.Sha3 Cx.Proofs.GlueSponge

/-- the struct definitions the state mapping of the translation was written for are token-identical in the source
    (otherwise the generated constants are failure stubs of another type and this does not typecheck) -/
theorem structs_checked : Engine_struct_src = () ∧ Context_struct_src = () ∧ Imports_src = () := ⟨rfl, rfl, rfl⟩

/-- `fn rate(&self)`: the checked `DIGESTLEN * 2` and `B - …` fail exactly when the model's guard does -/
theorem Engine.rate_src_eq_model (dl ds : Nat) (e : Engine) : Engine.rate_src dl ds e = rate dl :=
  Proofs.GlueSponge.rate_src_eq_model dl ds e

/-- `const fn new()` -/
theorem Engine.new_src_eq_model (dl ds : Nat) : Engine.new_src dl ds = some Engine.new :=
  Proofs.GlueSponge.new_src_eq_model dl ds

/-- nested `fn set_domain_sep` of `finalize` -/
theorem set_domain_sep_src_eq_model (n : Nat) (buf : Bytes) : set_domain_sep_src n buf = set_domain_sep n buf :=
  Proofs.GlueSponge.set_domain_sep_src_eq_model n buf

/-- nested `fn pad_len::<DSLEN>`: the `i64` arithmetic with every overflow check -/
theorem pad_len_src_eq_model (ds offset rate : Nat) : pad_len_src ds offset rate = pad_len ds offset rate :=
  Proofs.GlueSponge.pad_len_src_eq_model ds offset rate

/-- nested `fn set_pad::<DSLEN>`: `|=` of the first pad bit, the `for i in (offset % 8) + 1..8` loop (`clear_bits`), the
    `iter_mut` wipe of the tail (`take ++ zeros`), `|= 0x80` on the last byte -/
theorem set_pad_src_eq_model (ds : Nat) (buf : Bytes) (hb : buf.length < 2 ^ 64) : set_pad_src ds buf = set_pad ds buf :=
  Proofs.GlueSponge.set_pad_src_eq_model ds buf hb

/-- `fn process` (absorb): the byte-wise `for` loop is `xor_in`, the `while in_pos < in_len` loop with `offset`, `break`
    and `keccak_f` is `absorb_loop` — for every engine state and every input -/
theorem Engine.process_src_eq_model (dl ds : Nat) (e : Engine) (data : Bytes) (hd : data.length < 2 ^ 64) :
    Engine.process_src dl ds e data = e.process dl data :=
  Proofs.GlueSponge.process_src_eq_model dl ds e data hd

/-- `fn finalize`: `pad_len`, the zeroed pad vector, the domain separation bits, `set_pad`, absorbing the pad, `can_absorb = false` -/
theorem Engine.finalize_src_eq_model (dl ds : Nat) (e : Engine) : Engine.finalize_src dl ds e = e.finalize dl ds :=
  Proofs.GlueSponge.finalize_src_eq_model dl ds e

/-- `fn reset`: both flags, the offset, the wipe of the whole state -/
theorem Engine.reset_src_eq_model (dl ds : Nat) (e : Engine) : Engine.reset_src dl ds e = some e.reset :=
  Proofs.GlueSponge.reset_src_eq_model dl ds e

/-- `fn output` (squeeze) into an arbitrary caller buffer: `can_squeeze`, the implicit `finalize`, the asserts, the
    `while` loop with `offset % r`, the `DIGESTLEN` cap, `copy_from_slice`, `keccak_f`, the final `can_squeeze = false` -/
theorem Engine.output_src_eq_model_on (dl ds : Nat) (e : Engine) (out : Bytes) (ho : out.length < 2 ^ 64) :
    Engine.output_src dl ds e out = outputOn dl ds e out :=
  Proofs.GlueSponge.output_src_eq_outputOn dl ds e out ho

/-- the hand model `Engine.output` is `outputOn` on a zeroed buffer -/
theorem Engine.output_model_eq_on (dl ds : Nat) (e : Engine) (n : Nat) : e.output dl ds n = outputOn dl ds e (zeros n) :=
  Proofs.GlueSponge.output_eq_outputOn dl ds e n

/-- `fn output` on a fresh buffer `[0; n]` (what every caller in the crate passes) = the hand model -/
theorem Engine.output_src_eq_model (dl ds : Nat) (e : Engine) (n : Nat) (hn : n < 2 ^ 64) :
    Engine.output_src dl ds e (zeros n) = e.output dl ds n :=
  Proofs.GlueSponge.output_src_zeros dl ds e n hn

/-! ### the contexts generated by `sha3_impl!` (`struct $context(Engine<$digestlength, 2>)`) -/

theorem Context.new_src_eq_model (dl : Nat) : Context.new_src dl = some Context.new :=
  Proofs.GlueSponge.ctx_new_src_eq_model dl

theorem Context.update_mut_src_eq_model (dl : Nat) (c : Context) (data : Bytes) (hd : data.length < 2 ^ 64) :
    Context.update_mut_src dl c data = Context.update_mut dl c data :=
  Proofs.GlueSponge.ctx_update_mut_src_eq_model dl c data hd

theorem Context.update_src_eq_model (dl : Nat) (c : Context) (data : Bytes) (hd : data.length < 2 ^ 64) :
    Context.update_src dl c data = Context.update dl c data :=
  Proofs.GlueSponge.ctx_update_src_eq_model dl c data hd

/-- `finalize_reset`: `out = [0; $digestlength]`, `output`, `reset` — unconditional (a digest length that does not fit
    `usize` makes `rate` panic first, in the source and in the model) -/
theorem Context.finalize_reset_src_eq_model (dl : Nat) (c : Context) :
    Context.finalize_reset_src dl c = Context.finalize_reset dl 2 c :=
  Proofs.GlueSponge.ctx_finalize_reset_src_eq_model dl c

theorem Context.finalize_src_eq_model (dl : Nat) (c : Context) : Context.finalize_src dl c = Context.finalize dl 2 c :=
  Proofs.GlueSponge.ctx_finalize_src_eq_model dl c

theorem Context.reset_src_eq_model (dl : Nat) (c : Context) : Context.reset_src dl c = some (Context.reset c) :=
  Proofs.GlueSponge.ctx_reset_src_eq_model dl c

/-- `impl $C { pub fn new() }` (the marker types `Sha3_224` … `Sha3_512`) -/
theorem Algorithm.new_src_eq_model (dl : Nat) : Algorithm.new_src dl = some Context.new :=
  Proofs.GlueSponge.alg_new_src_eq_model dl

/-- test (not a theorem about all inputs): the translated source computes SHA3-256("abc") -/
example : ((Context.new_src 32).bind fun c => (Context.update_src 32 c [0x61, 0x62, 0x63]).bind (Context.finalize_src 32)).map
    (fun d => d.take 4) = some [0x3a, 0x98, 0x5d, 0xa7] := by decide +kernel

end Sha3

/-! ## BLAKE2b: `EngineB` (src/hashing/blake2/mod.rs), `Context<BITS>` / `ContextDyn` / `context_finalize!` (src/hashing/blake2b.rs)

  The hand model (Impl/Blake2.lean, generic over `P : Params W`, here `P = b`, `W = UInt64`, profile `.wrapping` = the
  code as it is) does not check the slice bounds that hold by the buffer invariant
  `Inv b c := c.buf.length = BLOCK_BYTES ∧ c.buflen ≤ BLOCK_BYTES` (Proofs/Blake2.lean); the translation does.  So the ties of
  the functions that touch the buffer are stated for all states satisfying `Inv` (`DynInv` = `Inv` + `outlen ≤ MAX_OUTLEN`
  for `ContextDyn`), and the invariant is proved to be established by `new_keyed` and preserved by every operation
  (`…_inv` below; Props/C02/Blake2.lean proves it for every reachable state of an operation history).  `Context<BITS>`
  theorems about `finalize*` carry the type-level fact `(BITS + 7) / 8 ≤ MAX_OUTLEN` asserted by `new`/`new_keyed`. -/
namespace Blake2b
open Cx.Impl.Blake2 Cx.Extracted.GlueSponge Cx.Extracted.GlueSponge.Blake2b Cx.Proofs.GlueSponge
open Cx.Proofs.Blake2 (Inv)
open Cx.Proofs.GlueSponge.B (DynInv)

/-- the struct definitions (and the `use … EngineB as Engine`) the state mapping was written for are unchanged -/
theorem structs_checked : Engine_struct_src = () ∧ Context_struct_src = () ∧ ContextDyn_struct_src = () ∧ Engine_alias_src = () ∧
    Imports_src = () := ⟨rfl, rfl, rfl, rfl, rfl⟩

/-- the associated constants of `EngineB` -/
theorem Engine.consts_src_eq_model : Engine.BLOCK_BYTES_src = b.bb ∧ Engine.MAX_OUTLEN_src = b.maxOut ∧
    Engine.MAX_KEYLEN_src = b.maxKey ∧ Engine.BLOCK_BYTES_NATIVE_src = b.bb := B.consts_src_eq_model

/-- `EngineB::new`: the two asserts, `h = IV; h[0] ^= 0x01010000 ^ (keylen << 8) ^ outlen`, `t = [0, 0]` -/
theorem Engine.new_src_eq_model (outlen keylen : Nat) : Engine.new_src outlen keylen = Engine.new b outlen keylen :=
  B.engine_new_src_eq_model outlen keylen

theorem Engine.reset_src_eq_model (e : Engine UInt64) (outlen keylen : Nat) :
    Engine.reset_src e outlen keylen = some (Engine.reset b e outlen keylen) := B.engine_reset_src_eq_model e outlen keylen

/-- `increment_counter`: `wrapping_add` on `t[0]`, the carry `if t[0] < inc` into `t[1]` -/
theorem Engine.increment_counter_src_eq_model (e : Engine UInt64) (inc : Nat) :
    Engine.increment_counter_src e inc = Engine.increment_counter .wrapping e inc := B.engine_increment_counter_src_eq_model e inc

/-! ### `Context<BITS>` -/

theorem Context.new_keyed_src_eq_model (BITS : Nat) (key : Bytes) : Context.new_keyed_src BITS key = Context.new_keyed b BITS key :=
  B.ctx_new_keyed_src_eq_model BITS key

theorem Context.new_src_eq_model (BITS : Nat) : Context.new_src BITS = Context.new b BITS := B.ctx_new_src_eq_model BITS

/-- the marker type `Blake2b<BITS>`: `new()`, `new_keyed(key)` -/
theorem Algorithm.new_src_eq_model (BITS : Nat) : Algorithm.new_src BITS = Context.new b BITS := B.alg_new_src_eq_model BITS
theorem Algorithm.new_keyed_src_eq_model (BITS : Nat) (key : Bytes) : Algorithm.new_keyed_src BITS key = Context.new_keyed b BITS key :=
  B.alg_new_keyed_src_eq_model BITS key

/-- `update_mut`: the empty-input return, `fill`, the STRICT `>` (a full block stays buffered), the first block through the
    buffer, the `while input.len() > BLOCK_BYTES` loop, the final copy and `buflen +=` — every input length -/
theorem Context.update_mut_src_eq_model (BITS : Nat) (c : Ctx UInt64) (input : Bytes) (hi : Inv b c) :
    Context.update_mut_src BITS c input = Context.update_mut b .wrapping c input := B.ctx_update_mut_src_eq_model BITS c input hi

theorem Context.update_src_eq_model (BITS : Nat) (c : Ctx UInt64) (input : Bytes) (hi : Inv b c) :
    Context.update_src BITS c input = Context.update b .wrapping c input := B.ctx_update_src_eq_model BITS c input hi

/-- `internal_final`: counter += buflen, wipe of `buf[buflen..]`, last-block compression, all 8 words of `h` written to `buf[0..64]` -/
theorem Context.internal_final_src_eq_model (BITS : Nat) (c : Ctx UInt64) (hi : Inv b c) :
    Context.internal_final_src BITS c = Ctx.internal_final b .wrapping c := B.ctx_internal_final_src_eq_model BITS c hi

theorem Context.reset_src_eq_model (BITS : Nat) (c : Ctx UInt64) (hB : BITS + 7 < 2 ^ 64) :
    Context.reset_src BITS c = some (Context.reset b BITS c) := B.ctx_reset_src_eq_model BITS c hB

/-- `reset_with_key`: the assert, engine reset with the key length, wipe of the WHOLE buffer, key block or empty buffer -/
theorem Context.reset_with_key_src_eq_model (BITS : Nat) (c : Ctx UInt64) (key : Bytes) (hi : Inv b c) (hB : BITS + 7 < 2 ^ 64) :
    Context.reset_with_key_src BITS c key = Context.reset_with_key b BITS c key := B.ctx_reset_with_key_src_eq_model BITS c key hi hB

/-- `finalize_at(out)`: only `out.len()` matters (the whole of `out` is overwritten) -/
theorem Context.finalize_at_src_eq_model (BITS : Nat) (c : Ctx UInt64) (out : Bytes) (hi : Inv b c) (hB : (BITS + 7) / 8 ≤ b.maxOut) :
    Context.finalize_at_src BITS c out = Context.finalize_at b .wrapping BITS c out.length := B.ctx_finalize_at_src_eq_model BITS c out hi hB

theorem Context.finalize_reset_at_src_eq_model (BITS : Nat) (c : Ctx UInt64) (out : Bytes) (hi : Inv b c)
    (hB : (BITS + 7) / 8 ≤ b.maxOut) :
    Context.finalize_reset_at_src BITS c out = Context.finalize_reset_at b .wrapping BITS c out.length :=
  B.ctx_finalize_reset_at_src_eq_model BITS c out hi hB

theorem Context.finalize_reset_with_key_at_src_eq_model (BITS : Nat) (c : Ctx UInt64) (key out : Bytes) (hi : Inv b c)
    (hB : (BITS + 7) / 8 ≤ b.maxOut) :
    Context.finalize_reset_with_key_at_src BITS c key out = Context.finalize_reset_with_key_at b .wrapping BITS c key out.length :=
  B.ctx_finalize_reset_with_key_at_src_eq_model BITS c key out hi hB

/-- `context_finalize!($size)`: `out = [0; $size / 8]` -/
theorem Context.finalize_src_eq_model (BITS : Nat) (c : Ctx UInt64) (hi : Inv b c) (hB : (BITS + 7) / 8 ≤ b.maxOut) :
    Context.finalize_src BITS c = Context.finalize b .wrapping BITS c := B.ctx_finalize_src_eq_model BITS c hi hB

theorem Context.finalize_reset_src_eq_model (BITS : Nat) (c : Ctx UInt64) (hi : Inv b c) (hB : (BITS + 7) / 8 ≤ b.maxOut) :
    Context.finalize_reset_src BITS c = Context.finalize_reset b .wrapping BITS c := B.ctx_finalize_reset_src_eq_model BITS c hi hB

theorem Context.finalize_reset_with_key_src_eq_model (BITS : Nat) (c : Ctx UInt64) (key : Bytes) (hi : Inv b c)
    (hB : (BITS + 7) / 8 ≤ b.maxOut) :
    Context.finalize_reset_with_key_src BITS c key = Context.finalize_reset_with_key b .wrapping BITS c key :=
  B.ctx_finalize_reset_with_key_src_eq_model BITS c key hi hB

/-! ### the invariant: established by `new_keyed`, preserved by every operation -/

theorem Context.new_keyed_inv (n : Nat) (key : Bytes) (c : Ctx UInt64) (h : Ctx.new_keyed b n key = some c) : Inv b c :=
  B.ctx_new_keyed_inv n key c h
theorem Context.update_mut_inv (c c' : Ctx UInt64) (input : Bytes) (hi : Inv b c) (h : Ctx.update_mut b .wrapping c input = some c') :
    Inv b c' := B.ctx_update_mut_inv c c' input hi h
theorem Context.internal_final_inv (c c' : Ctx UInt64) (hi : Inv b c) (h : Ctx.internal_final b .wrapping c = some c') : Inv b c' :=
  B.internal_final_shape c c' hi h
theorem Context.reset_inv (c : Ctx UInt64) (n : Nat) (hi : Inv b c) : Inv b (Ctx.reset b c n) := B.ctx_reset_inv c n hi
theorem Context.reset_with_key_inv (c c' : Ctx UInt64) (n : Nat) (key : Bytes) (hi : Inv b c)
    (h : Ctx.reset_with_key b c n key = some c') : Inv b c' := B.ctx_reset_with_key_inv c c' n key hi h

/-- the hypotheses are satisfiable by a non-trivial state (5 pending bytes) -/
example : Inv b ({ eng := { h := b.iv, t0 := 128, t1 := 0 }, buf := [1, 2, 3, 4, 5] ++ zeros 123, buflen := 5 } : Ctx UInt64) :=
  ⟨by simp [zeros]; rfl, by show 5 ≤ b.bb; decide⟩

/-! ### `ContextDyn` -/

theorem ContextDyn.new_keyed_src_eq_model (n : Nat) (key : Bytes) : ContextDyn.new_keyed_src n key = ContextDyn.new_keyed b n key :=
  B.dyn_new_keyed_src_eq_model n key

theorem ContextDyn.new_src_eq_model (n : Nat) : ContextDyn.new_src n = ContextDyn.new b n := B.dyn_new_src_eq_model n

theorem ContextDyn.update_mut_src_eq_model (d : ContextDyn UInt64) (input : Bytes) (hi : DynInv d) :
    ContextDyn.update_mut_src d input = ContextDyn.update_mut b .wrapping d input := B.dyn_update_mut_src_eq_model d input hi

theorem ContextDyn.update_src_eq_model (d : ContextDyn UInt64) (input : Bytes) (hi : DynInv d) :
    ContextDyn.update_src d input = ContextDyn.update b .wrapping d input := B.dyn_update_src_eq_model d input hi

/-- `internal_final` (the model has one `Ctx.internal_final` for both context types) -/
theorem ContextDyn.internal_final_src_eq_model (d : ContextDyn UInt64) (hi : DynInv d) :
    ContextDyn.internal_final_src d = (Ctx.internal_final b .wrapping d.ctx).bind fun x => some { d with ctx := x } :=
  B.dyn_internal_final_src_eq_model d hi

theorem ContextDyn.reset_src_eq_model (d : ContextDyn UInt64) : ContextDyn.reset_src d = some (ContextDyn.reset b d) :=
  B.dyn_reset_src_eq_model d

theorem ContextDyn.reset_with_key_src_eq_model (d : ContextDyn UInt64) (key : Bytes) (hi : DynInv d) :
    ContextDyn.reset_with_key_src d key = ContextDyn.reset_with_key b d key := B.dyn_reset_with_key_src_eq_model d key hi

theorem ContextDyn.finalize_at_src_eq_model (d : ContextDyn UInt64) (out : Bytes) (hi : DynInv d) :
    ContextDyn.finalize_at_src d out = ContextDyn.finalize_at b .wrapping d out.length := B.dyn_finalize_at_src_eq_model d out hi

theorem ContextDyn.finalize_reset_at_src_eq_model (d : ContextDyn UInt64) (out : Bytes) (hi : DynInv d) :
    ContextDyn.finalize_reset_at_src d out = ContextDyn.finalize_reset_at b .wrapping d out.length :=
  B.dyn_finalize_reset_at_src_eq_model d out hi

theorem ContextDyn.finalize_reset_with_key_at_src_eq_model (d : ContextDyn UInt64) (key out : Bytes) (hi : DynInv d) :
    ContextDyn.finalize_reset_with_key_at_src d key out = ContextDyn.finalize_reset_with_key_at b .wrapping d key out.length :=
  B.dyn_finalize_reset_with_key_at_src_eq_model d key out hi

theorem ContextDyn.output_bits_src_eq_model (d : ContextDyn UInt64) (hi : DynInv d) :
    ContextDyn.output_bits_src d = some (ContextDyn.output_bits d) := B.dyn_output_bits_src_eq_model d hi

theorem ContextDyn.new_keyed_inv (n : Nat) (key : Bytes) (d : ContextDyn UInt64) (h : ContextDyn.new_keyed b n key = some d) : DynInv d :=
  B.dyn_new_keyed_inv n key d h
theorem ContextDyn.update_mut_inv (d d' : ContextDyn UInt64) (input : Bytes) (hi : DynInv d)
    (h : ContextDyn.update_mut b .wrapping d input = some d') : DynInv d' := B.dyn_update_mut_inv d d' input hi h
theorem ContextDyn.reset_inv (d : ContextDyn UInt64) (hi : DynInv d) : DynInv (ContextDyn.reset b d) := B.dyn_reset_inv d hi
theorem ContextDyn.reset_with_key_inv (d d' : ContextDyn UInt64) (key : Bytes) (hi : DynInv d)
    (h : ContextDyn.reset_with_key b d key = some d') : DynInv d' := B.dyn_reset_with_key_inv d d' key hi h

end Blake2b

/-! ## BLAKE2s: `EngineS` (src/hashing/blake2/mod.rs), `Context<BITS>` / `ContextDyn` / `context_finalize!` (src/hashing/blake2s.rs)

  The hand model (Impl/Blake2.lean, generic over `P : Params W`, here `P = s`, `W = UInt32`, profile `.wrapping` = the
  code as it is) does not check the slice bounds that hold by the buffer invariant
  `Inv s c := c.buf.length = BLOCK_BYTES ∧ c.buflen ≤ BLOCK_BYTES` (Proofs/Blake2.lean); the translation does.  So the ties of
  the functions that touch the buffer are stated for all states satisfying `Inv` (`DynInv` = `Inv` + `outlen ≤ MAX_OUTLEN`
  for `ContextDyn`), and the invariant is proved to be established by `new_keyed` and preserved by every operation
  (`…_inv` below; Props/C02/Blake2.lean proves it for every reachable state of an operation history).  `Context<BITS>`
  theorems about `finalize*` carry the type-level fact `(BITS + 7) / 8 ≤ MAX_OUTLEN` asserted by `new`/`new_keyed`. -/
namespace Blake2s
open Cx.Impl.Blake2 Cx.Extracted.GlueSponge Cx.Extracted.GlueSponge.Blake2s Cx.Proofs.GlueSponge
open Cx.Proofs.Blake2 (Inv)
open Cx.Proofs.GlueSponge.S (DynInv)

/-- the struct definitions (and the `use … EngineS as Engine`) the state mapping was written for are unchanged -/
theorem structs_checked : Engine_struct_src = () ∧ Context_struct_src = () ∧ ContextDyn_struct_src = () ∧ Engine_alias_src = () ∧
    Imports_src = () := ⟨rfl, rfl, rfl, rfl, rfl⟩

/-- the associated constants of `EngineS` -/
theorem Engine.consts_src_eq_model : Engine.BLOCK_BYTES_src = s.bb ∧ Engine.MAX_OUTLEN_src = s.maxOut ∧
    Engine.MAX_KEYLEN_src = s.maxKey ∧ Engine.BLOCK_BYTES_NATIVE_src = s.bb := S.consts_src_eq_model

/-- `EngineS::new`: the two asserts, `h = IV; h[0] ^= 0x01010000 ^ (keylen << 8) ^ outlen`, `t = [0, 0]` -/
theorem Engine.new_src_eq_model (outlen keylen : Nat) : Engine.new_src outlen keylen = Engine.new s outlen keylen :=
  S.engine_new_src_eq_model outlen keylen

theorem Engine.reset_src_eq_model (e : Engine UInt32) (outlen keylen : Nat) :
    Engine.reset_src e outlen keylen = some (Engine.reset s e outlen keylen) := S.engine_reset_src_eq_model e outlen keylen

/-- `increment_counter`: `wrapping_add` on `t[0]`, the carry `if t[0] < inc` into `t[1]` -/
theorem Engine.increment_counter_src_eq_model (e : Engine UInt32) (inc : Nat) :
    Engine.increment_counter_src e inc = Engine.increment_counter .wrapping e inc := S.engine_increment_counter_src_eq_model e inc

/-! ### `Context<BITS>` -/

theorem Context.new_keyed_src_eq_model (BITS : Nat) (key : Bytes) : Context.new_keyed_src BITS key = Context.new_keyed s BITS key :=
  S.ctx_new_keyed_src_eq_model BITS key

theorem Context.new_src_eq_model (BITS : Nat) : Context.new_src BITS = Context.new s BITS := S.ctx_new_src_eq_model BITS

/-- the marker type `Blake2s<BITS>`: `new()`, `new_keyed(key)` -/
theorem Algorithm.new_src_eq_model (BITS : Nat) : Algorithm.new_src BITS = Context.new s BITS := S.alg_new_src_eq_model BITS
theorem Algorithm.new_keyed_src_eq_model (BITS : Nat) (key : Bytes) : Algorithm.new_keyed_src BITS key = Context.new_keyed s BITS key :=
  S.alg_new_keyed_src_eq_model BITS key

/-- `update_mut`: the empty-input return, `fill`, the STRICT `>` (a full block stays buffered), the first block through the
    buffer, the `while input.len() > BLOCK_BYTES` loop, the final copy and `buflen +=` — every input length -/
theorem Context.update_mut_src_eq_model (BITS : Nat) (c : Ctx UInt32) (input : Bytes) (hi : Inv s c) :
    Context.update_mut_src BITS c input = Context.update_mut s .wrapping c input := S.ctx_update_mut_src_eq_model BITS c input hi

theorem Context.update_src_eq_model (BITS : Nat) (c : Ctx UInt32) (input : Bytes) (hi : Inv s c) :
    Context.update_src BITS c input = Context.update s .wrapping c input := S.ctx_update_src_eq_model BITS c input hi

/-- `internal_final`: counter += buflen, wipe of `buf[buflen..]`, last-block compression, all 8 words of `h` written to `buf[0..32]` -/
theorem Context.internal_final_src_eq_model (BITS : Nat) (c : Ctx UInt32) (hi : Inv s c) :
    Context.internal_final_src BITS c = Ctx.internal_final s .wrapping c := S.ctx_internal_final_src_eq_model BITS c hi

theorem Context.reset_src_eq_model (BITS : Nat) (c : Ctx UInt32) (hB : BITS + 7 < 2 ^ 64) :
    Context.reset_src BITS c = some (Context.reset s BITS c) := S.ctx_reset_src_eq_model BITS c hB

/-- `reset_with_key`: the assert, engine reset with the key length, wipe of the WHOLE buffer, key block or empty buffer -/
theorem Context.reset_with_key_src_eq_model (BITS : Nat) (c : Ctx UInt32) (key : Bytes) (hi : Inv s c) (hB : BITS + 7 < 2 ^ 64) :
    Context.reset_with_key_src BITS c key = Context.reset_with_key s BITS c key := S.ctx_reset_with_key_src_eq_model BITS c key hi hB

/-- `finalize_at(out)`: only `out.len()` matters (the whole of `out` is overwritten) -/
theorem Context.finalize_at_src_eq_model (BITS : Nat) (c : Ctx UInt32) (out : Bytes) (hi : Inv s c) (hB : (BITS + 7) / 8 ≤ s.maxOut) :
    Context.finalize_at_src BITS c out = Context.finalize_at s .wrapping BITS c out.length := S.ctx_finalize_at_src_eq_model BITS c out hi hB

theorem Context.finalize_reset_at_src_eq_model (BITS : Nat) (c : Ctx UInt32) (out : Bytes) (hi : Inv s c)
    (hB : (BITS + 7) / 8 ≤ s.maxOut) :
    Context.finalize_reset_at_src BITS c out = Context.finalize_reset_at s .wrapping BITS c out.length :=
  S.ctx_finalize_reset_at_src_eq_model BITS c out hi hB

theorem Context.finalize_reset_with_key_at_src_eq_model (BITS : Nat) (c : Ctx UInt32) (key out : Bytes) (hi : Inv s c)
    (hB : (BITS + 7) / 8 ≤ s.maxOut) :
    Context.finalize_reset_with_key_at_src BITS c key out = Context.finalize_reset_with_key_at s .wrapping BITS c key out.length :=
  S.ctx_finalize_reset_with_key_at_src_eq_model BITS c key out hi hB

/-- `context_finalize!($size)`: `out = [0; $size / 8]` -/
theorem Context.finalize_src_eq_model (BITS : Nat) (c : Ctx UInt32) (hi : Inv s c) (hB : (BITS + 7) / 8 ≤ s.maxOut) :
    Context.finalize_src BITS c = Context.finalize s .wrapping BITS c := S.ctx_finalize_src_eq_model BITS c hi hB

theorem Context.finalize_reset_src_eq_model (BITS : Nat) (c : Ctx UInt32) (hi : Inv s c) (hB : (BITS + 7) / 8 ≤ s.maxOut) :
    Context.finalize_reset_src BITS c = Context.finalize_reset s .wrapping BITS c := S.ctx_finalize_reset_src_eq_model BITS c hi hB

theorem Context.finalize_reset_with_key_src_eq_model (BITS : Nat) (c : Ctx UInt32) (key : Bytes) (hi : Inv s c)
    (hB : (BITS + 7) / 8 ≤ s.maxOut) :
    Context.finalize_reset_with_key_src BITS c key = Context.finalize_reset_with_key s .wrapping BITS c key :=
  S.ctx_finalize_reset_with_key_src_eq_model BITS c key hi hB

/-! ### the invariant: established by `new_keyed`, preserved by every operation -/

theorem Context.new_keyed_inv (n : Nat) (key : Bytes) (c : Ctx UInt32) (h : Ctx.new_keyed s n key = some c) : Inv s c :=
  S.ctx_new_keyed_inv n key c h
theorem Context.update_mut_inv (c c' : Ctx UInt32) (input : Bytes) (hi : Inv s c) (h : Ctx.update_mut s .wrapping c input = some c') :
    Inv s c' := S.ctx_update_mut_inv c c' input hi h
theorem Context.internal_final_inv (c c' : Ctx UInt32) (hi : Inv s c) (h : Ctx.internal_final s .wrapping c = some c') : Inv s c' :=
  S.internal_final_shape c c' hi h
theorem Context.reset_inv (c : Ctx UInt32) (n : Nat) (hi : Inv s c) : Inv s (Ctx.reset s c n) := S.ctx_reset_inv c n hi
theorem Context.reset_with_key_inv (c c' : Ctx UInt32) (n : Nat) (key : Bytes) (hi : Inv s c)
    (h : Ctx.reset_with_key s c n key = some c') : Inv s c' := S.ctx_reset_with_key_inv c c' n key hi h

/-- the hypotheses are satisfiable by a non-trivial state (5 pending bytes) -/
example : Inv s ({ eng := { h := s.iv, t0 := 64, t1 := 0 }, buf := [1, 2, 3, 4, 5] ++ zeros 59, buflen := 5 } : Ctx UInt32) :=
  ⟨by simp [zeros]; rfl, by show 5 ≤ s.bb; decide⟩

/-! ### `ContextDyn` -/

theorem ContextDyn.new_keyed_src_eq_model (n : Nat) (key : Bytes) : ContextDyn.new_keyed_src n key = ContextDyn.new_keyed s n key :=
  S.dyn_new_keyed_src_eq_model n key

theorem ContextDyn.new_src_eq_model (n : Nat) : ContextDyn.new_src n = ContextDyn.new s n := S.dyn_new_src_eq_model n

theorem ContextDyn.update_mut_src_eq_model (d : ContextDyn UInt32) (input : Bytes) (hi : DynInv d) :
    ContextDyn.update_mut_src d input = ContextDyn.update_mut s .wrapping d input := S.dyn_update_mut_src_eq_model d input hi

theorem ContextDyn.update_src_eq_model (d : ContextDyn UInt32) (input : Bytes) (hi : DynInv d) :
    ContextDyn.update_src d input = ContextDyn.update s .wrapping d input := S.dyn_update_src_eq_model d input hi

/-- `internal_final` (the model has one `Ctx.internal_final` for both context types) -/
theorem ContextDyn.internal_final_src_eq_model (d : ContextDyn UInt32) (hi : DynInv d) :
    ContextDyn.internal_final_src d = (Ctx.internal_final s .wrapping d.ctx).bind fun x => some { d with ctx := x } :=
  S.dyn_internal_final_src_eq_model d hi

theorem ContextDyn.reset_src_eq_model (d : ContextDyn UInt32) : ContextDyn.reset_src d = some (ContextDyn.reset s d) :=
  S.dyn_reset_src_eq_model d

theorem ContextDyn.reset_with_key_src_eq_model (d : ContextDyn UInt32) (key : Bytes) (hi : DynInv d) :
    ContextDyn.reset_with_key_src d key = ContextDyn.reset_with_key s d key := S.dyn_reset_with_key_src_eq_model d key hi

theorem ContextDyn.finalize_at_src_eq_model (d : ContextDyn UInt32) (out : Bytes) (hi : DynInv d) :
    ContextDyn.finalize_at_src d out = ContextDyn.finalize_at s .wrapping d out.length := S.dyn_finalize_at_src_eq_model d out hi

theorem ContextDyn.finalize_reset_at_src_eq_model (d : ContextDyn UInt32) (out : Bytes) (hi : DynInv d) :
    ContextDyn.finalize_reset_at_src d out = ContextDyn.finalize_reset_at s .wrapping d out.length :=
  S.dyn_finalize_reset_at_src_eq_model d out hi

theorem ContextDyn.finalize_reset_with_key_at_src_eq_model (d : ContextDyn UInt32) (key out : Bytes) (hi : DynInv d) :
    ContextDyn.finalize_reset_with_key_at_src d key out = ContextDyn.finalize_reset_with_key_at s .wrapping d key out.length :=
  S.dyn_finalize_reset_with_key_at_src_eq_model d key out hi

theorem ContextDyn.output_bits_src_eq_model (d : ContextDyn UInt32) (hi : DynInv d) :
    ContextDyn.output_bits_src d = some (ContextDyn.output_bits d) := S.dyn_output_bits_src_eq_model d hi

theorem ContextDyn.new_keyed_inv (n : Nat) (key : Bytes) (d : ContextDyn UInt32) (h : ContextDyn.new_keyed s n key = some d) : DynInv d :=
  S.dyn_new_keyed_inv n key d h
theorem ContextDyn.update_mut_inv (d d' : ContextDyn UInt32) (input : Bytes) (hi : DynInv d)
    (h : ContextDyn.update_mut s .wrapping d input = some d') : DynInv d' := S.dyn_update_mut_inv d d' input hi h
theorem ContextDyn.reset_inv (d : ContextDyn UInt32) (hi : DynInv d) : DynInv (ContextDyn.reset s d) := S.dyn_reset_inv d hi
theorem ContextDyn.reset_with_key_inv (d d' : ContextDyn UInt32) (key : Bytes) (hi : DynInv d)
    (h : ContextDyn.reset_with_key s d key = some d') : DynInv d' := S.dyn_reset_with_key_inv d d' key hi h

end Blake2s

end Cx.Props.C02.GlueTieSponge
