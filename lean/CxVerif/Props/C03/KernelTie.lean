/-
  Props.C03.KernelTie — the translator tie for the portable ChaCha engine (src/chacha/reference.rs) and the Salsa20
  core (src/salsa20.rs).  `Extracted/KernelsChaChaRef.lean` / `Extracted/KernelsSalsa.lean` are regenerated from the
  CURRENT Rust sources on every run by tools/ktx_misc.py (kernel specs tools/kernels/chacha_ref.py, salsa.py): the
  `QR!` macros, one loop iteration of `rounds`, `rounds`, the counter functions, `add_back`, and the key / nonce
  layout of `init`, translated statement by statement.  The theorems below (re-checked by the kernel on every build)
  say that the hand-written models `Impl.ChaCha.Reference.*` / `Impl.Salsa.*`, which the C03/C04/C06/C16 theorems are
  about, compute exactly what the source says now, for ALL inputs: a changed rotation constant, operand, word index or
  key offset in the source breaks a proof obligation even if no sampled input reaches it.
-/
import CxVerif.Extracted.KernelsChaChaRef
import CxVerif.Extracted.KernelsSalsa
import CxVerif.Impl.ChaCha
import CxVerif.Impl.Salsa
namespace Cx.Props.C03
open Cx Cx.Impl

namespace ChaChaRef
open Cx.Impl.ChaCha.Reference Cx.Extracted.KernelsChaChaRef

theorem QR_src_eq_model (a b c d : UInt32) : QR_src a b c d = QR a b c d := rfl
theorem doubleRound_src_eq_model (w : W16) : doubleRound_src w = doubleRound w := rfl
theorem rounds_src_eq_model (R : Nat) (w : W16) : rounds_src R w = rounds R w := by
  have h : doubleRound_src = doubleRound := funext doubleRound_src_eq_model
  unfold rounds_src rounds
  rw [h]
theorem set_counter_src_eq_model (w : W16) (counter : UInt32) : set_counter_src w counter = set_counter w counter := rfl
theorem increment_src_eq_model (w : W16) : increment_src w = increment w := rfl
theorem verif_set_counter64_src_eq_model (w : W16) (counter : UInt64) :
    verif_set_counter64_src w counter = verif_set_counter64 w counter := rfl
theorem increment64_src_eq_model (w : W16) : increment64_src w = increment64 w := rfl
theorem add_back_src_eq_model (s initial : W16) : add_back_src s initial = add_back s initial := rfl
/-- the key / nonce layout of `State::init` (after the repair of defect a: 16-byte keys are loaded twice) -/
theorem init_src_eq_model (key nonce : Bytes) : init_src key nonce = init key nonce := by
  unfold init_src init initNonce
  split
  · split
    · rfl
    · split
      · rfl
      · split <;> rfl
  · split
    · split
      · rfl
      · split
        · rfl
        · split <;> rfl
    · rfl

end ChaChaRef

namespace Salsa
open Cx.Impl.Salsa Cx.Extracted.KernelsSalsa

theorem QR_src_eq_model (a b c d : UInt32) : QR_src a b c d = QR a b c d := rfl
theorem doubleRound_src_eq_model (w : W16) : doubleRound_src w = doubleRound w := rfl
theorem rounds_src_eq_model (R : Nat) (w : W16) : rounds_src R w = rounds R w := by
  have h : doubleRound_src = doubleRound := funext doubleRound_src_eq_model
  unfold rounds_src rounds
  rw [h]
theorem add_back_src_eq_model (s initial : W16) : add_back_src s initial = add_back s initial := rfl
theorem verif_set_counter64_src_eq_model (w : W16) (counter : UInt64) :
    verif_set_counter64_src w counter = verif_set_counter64 w counter := rfl
theorem increment_src_eq_model (w : W16) : increment_src w = increment w := rfl
/-- HSalsa20 output selection (words 0, 5, 10, 15, 6, 7, 8, 9) -/
theorem output_ad_bytes_src_eq_model (w : W16) : output_ad_bytes_src w = output_ad_bytes w := rfl
/-- constant / key / nonce layout of `State::init`, including every panic path (slices beyond the length,
    `unreachable!()` key lengths): the translation branches as the source does, the model tests the lengths first -/
theorem init_src_eq_model (key nonce : Bytes) : init_src key nonce = init key nonce := by
  unfold init_src init
  by_cases h16 : key.length = 16 <;> by_cases h32 : key.length = 32 <;> by_cases hn : nonce.length = 16 <;>
    by_cases h8 : 8 ≤ nonce.length <;> simp [h16, h32, hn, h8] <;> omega

end Salsa
end Cx.Props.C03
