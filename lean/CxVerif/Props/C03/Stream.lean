/-
  Props.C03 (stream unit) — ChaCha and Salsa families produce exactly the specified keystream.
  Only property theorems; helpers in Proofs.Stream*.  `E`/`α`/`S : EngineSim E α` ranges over the engine
  models; `referenceSim` (portable) and `sse2Sim` (SSE2 rows) are its two instances, so every theorem stated
  with `S` holds for both engines.  All statements are for ALL keys/nonces/data/counters; the hypotheses are
  the domain guards of the standards (key 16|32 bytes, R ∈ {8,12,20}, the nonce length of the variant).
-/
import CxVerif.Proofs.StreamSalsa
import CxVerif.Proofs.StreamFast
namespace Cx.Props.C03
open Cx Cx.Impl Cx.Impl.ChaCha Cx.Impl.StreamCtx Cx.Spec.Stream Cx.Proofs.Stream Cx.Proofs.ChaCha
set_option linter.unusedSimpArgs false
set_option linter.unusedVariables false

variable {σ : Type} {E : Engine σ} {α : σ → W16}

/-! ## (i) both engine models satisfy the engine interface the theorems below are stated for -/

theorem portable_engine_sim : EngineSim referenceEngine id := referenceSim
theorem sse2_engine_sim : EngineSim sse2Engine toRef := sse2Sim

/-! ## (ii) constant tables extracted from /repo = words of "expand 32-byte k" / "expand 16-byte k" -/

theorem chacha_constants :
    Reference.CST32 = (word Spec.ChaCha.sigma 0, word Spec.ChaCha.sigma 1, word Spec.ChaCha.sigma 2, word Spec.ChaCha.sigma 3) ∧
    Reference.CST16 = (word Spec.ChaCha.tau 0, word Spec.ChaCha.tau 1, word Spec.ChaCha.tau 2, word Spec.ChaCha.tau 3) ∧
    Sse2.CST32 = Reference.CST32 ∧ Sse2.CST16 = Reference.CST16 :=
  ⟨cst32_reference, cst16_reference, by rw [cst32_sse2, cst32_reference], by rw [cst16_sse2, cst16_reference]⟩

theorem salsa_constants :
    Cx.Extracted.Stream.SALSA_CST16 = Spec.Salsa.tau ∧ Cx.Extracted.Stream.SALSA_CST32 = Spec.Salsa.sigma :=
  ⟨Cx.Proofs.Salsa.cst16, Cx.Proofs.Salsa.cst32⟩

/-! ## (iii) state layout: `init` = the Spec's initial state, every (engine, key length, nonce length) -/

theorem chacha_init_layout (S : EngineSim E α) (key nonce : Bytes) (hk : Spec.ChaCha.validKey key) (hn : validNonce nonce) :
    (E.init key nonce).map (fun s => toVec (α s)) = .ok (Spec.ChaCha.layoutState key nonce) :=
  S.init key nonce hk hn

example : Spec.ChaCha.validKey (List.replicate 16 (7 : UInt8)) ∧ validNonce (List.replicate 12 (1 : UInt8)) := by
  constructor <;> simp [Spec.ChaCha.validKey, validNonce]

theorem salsa_init_layout (key nonce : Bytes) (hk : Spec.ChaCha.validKey key) (hn : Cx.Proofs.Salsa.validNonce nonce) :
    (Impl.Salsa.init key nonce).map toVec = .ok (Cx.Proofs.Salsa.layoutState key nonce) :=
  Cx.Proofs.Salsa.init_layout key nonce hk hn

/-- WITNESS of defect (a) on the pre-repair portable `init` (kept as documentation; /repo be8904e repaired it):
    for EVERY 16-byte key the key words state[4..12] stayed 0 … -/
theorem portable_initOld_key16_zero (key nonce : Bytes) (hk : key.length = 16) (hn : nonce.length = 12) :
    ∃ w, Reference.initOld key nonce = .ok w ∧ w.x4 = 0 ∧ w.x5 = 0 ∧ w.x6 = 0 ∧ w.x7 = 0 ∧
      w.x8 = 0 ∧ w.x9 = 0 ∧ w.x10 = 0 ∧ w.x11 = 0 := by
  simp only [Reference.initOld, Reference.initNonce, hk, hn, if_true, show ¬ ((12 : Nat) = 16) by decide, if_false]
  exact ⟨_, rfl, by simp [W16.zero]⟩

/-- … so it disagreed with the Spec layout, e.g. for key 01 01 … 01 -/
theorem portable_initOld_defect :
    ∃ key nonce, Spec.ChaCha.validKey key ∧ nonce.length = 12 ∧
      ∀ w, Reference.initOld key nonce = .ok w → toVec w ≠ Spec.ChaCha.layoutState key nonce := by
  refine ⟨List.replicate 16 1, zeros 12, Or.inl rfl, rfl, ?_⟩
  intro w hw heq
  obtain ⟨w', h1, h4, _⟩ := portable_initOld_key16_zero (List.replicate 16 1) (zeros 12) rfl rfl
  rw [hw] at h1
  cases h1
  have : (toVec w)[4] = 0 := by cases w; exact h4
  rw [heq] at this
  revert this
  decide

/-! ## (iv) rounds: the code's loop = R/2 double rounds of the standard, every state, every R -/

theorem chacha_rounds_spec (S : EngineSim E α) (R : Nat) (s : σ) :
    toVec (α (E.rounds R s)) = Spec.ChaCha.rounds R (toVec (α s)) := by rw [S.rounds, rounds_eq]

theorem chacha_block_spec (S : EngineSim E α) (R : Nat) (s : σ) :
    E.block R s = Spec.ChaCha.blockOfState R (toVec (α s)) := block_eq S R s

theorem salsa_rounds_spec (R : Nat) (w : W16) : toVec (Impl.Salsa.rounds R w) = Spec.Salsa.rounds R (toVec w) :=
  Cx.Proofs.Salsa.rounds_eq R w

theorem salsa_block_spec (R : Nat) (w : W16) : Impl.Salsa.block R w = Spec.Salsa.hash R (toVec w) :=
  Cx.Proofs.Salsa.block_eq R w

/-! ## (v) counters: 32-bit wrap, 64-bit carry, for ALL counter values -/

/-- the 64-bit block counter of a ChaCha state as a number -/
def ctr64 (w : W16) : Nat := w.x12.toNat + 2 ^ 32 * w.x13.toNat
/-- the 64-bit block counter of a Salsa state -/
def salsaCtr64 (w : W16) : Nat := w.x8.toNat + 2 ^ 32 * w.x9.toNat

theorem chacha_increment_wraps (S : EngineSim E α) (s : σ) :
    (α (E.increment s)).x12.toNat = ((α s).x12.toNat + 1) % 2 ^ 32 ∧ (α (E.increment s)).x13 = (α s).x13 := by
  rw [S.increment]; simp [Reference.increment]

theorem chacha_increment64_carries (S : EngineSim E α) (s : σ) :
    ctr64 (α (E.increment64 s)) = (ctr64 (α s) + 1) % 2 ^ 64 := by
  rw [S.increment64]
  have h1 := (α s).x12.toNat_lt
  have h2 := (α s).x13.toNat_lt
  unfold ctr64 Reference.increment64
  by_cases h : (α s).x12 + 1 = 0
  · have e := (u32_succ_eq_zero _).1 h
    simp only [h, if_true, UInt32.toNat_add]
    rw [e] at h1 ⊢; simp; omega
  · have e : (α s).x12.toNat ≠ 2 ^ 32 - 1 := by
      intro e; apply h; apply (u32_succ_eq_zero _).2; apply UInt32.toNat.inj; rw [e]; rfl
    simp only [h, if_false, UInt32.toNat_add]
    simp; omega

theorem salsa_increment_carries (w : W16) :
    salsaCtr64 (Impl.Salsa.increment w) = (salsaCtr64 w + 1) % 2 ^ 64 := by
  have h1 := w.x8.toNat_lt
  have h2 := w.x9.toNat_lt
  unfold salsaCtr64 Impl.Salsa.increment
  by_cases h : w.x8 + 1 = 0
  · have e := (u32_succ_eq_zero _).1 h
    simp only [h, if_true, UInt32.toNat_add]
    rw [e] at h1 ⊢; simp; omega
  · have e : w.x8.toNat ≠ 2 ^ 32 - 1 := by
      intro e; apply h; apply (u32_succ_eq_zero _).2; apply UInt32.toNat.inj; rw [e]; rfl
    simp only [h, if_false, UInt32.toNat_add]
    simp; omega

/-! ## (vi) `update` = block(counter) then increment; the engine state of block n -/

/-- IETF: after `new`, the engine state with counter n produces RFC 8439 block n (n mod 2^32) and `increment`
    leads to the state of block n+1 -/
theorem chacha_update_spec (S : EngineSim E α) (R : Nat) (key nonce : Bytes) (hk : Spec.ChaCha.validKey key)
    (hn : nonce.length = 12) (hR : Spec.ChaCha.validRounds R) :
    ∃ s0, ChaCha.ChaCha.new E R key nonce = .ok (Impl.StreamCtx.mk s0) ∧ ∀ n : Nat,
      (update (ChaCha.ChaCha.gen E R) ⟨mk32 E s0 n, zeros 64, 64⟩) =
        ⟨mk32 E s0 (n + 1), Spec.ChaCha.block R key nonce (UInt32.ofNat n), 0⟩ := by
  obtain ⟨s0, h1, h2, _⟩ := chacha_new S R key nonce hk hn hR
  have M := chacha_refines S R key nonce hn s0 h2
  refine ⟨s0, h1, fun n => ?_⟩
  have hi := M.gen.inc n
  have hb := M.gen.block_eq n
  simp only [update]
  congr 1

theorem chachaorig_update_spec (S : EngineSim E α) (R : Nat) (key nonce : Bytes) (hk : Spec.ChaCha.validKey key)
    (hn : nonce.length = 8) (hR : Spec.ChaCha.validRounds R) :
    ∃ s0, ChaCha.ChaChaOriginal.new E R key nonce = .ok (Impl.StreamCtx.mk s0) ∧ ∀ n : Nat,
      (update (ChaCha.ChaChaOriginal.gen E R) ⟨mk64 E s0 n, zeros 64, 64⟩) =
        ⟨mk64 E s0 (n + 1), Spec.ChaCha.blockOrig R key nonce (UInt64.ofNat n), 0⟩ := by
  obtain ⟨s0, h1, h2, _⟩ := chachaorig_new S R key nonce hk hn hR
  have M := chachaorig_refines S R key nonce hn s0 h2
  refine ⟨s0, h1, fun n => ?_⟩
  have hi := M.gen.inc n
  have hb := M.gen.block_eq n
  simp only [update]
  congr 1

theorem salsa_update_spec (R : Nat) (key nonce : Bytes) (hk : Spec.ChaCha.validKey key)
    (hn : nonce.length = 8) (hR : Spec.ChaCha.validRounds R) :
    ∃ s0, Impl.Salsa.Salsa.new R key nonce = .ok (Impl.StreamCtx.mk s0) ∧ ∀ n : Nat,
      (update (Impl.Salsa.gen R) ⟨Cx.Proofs.Salsa.mkS s0 n, zeros 64, 64⟩) =
        ⟨Cx.Proofs.Salsa.mkS s0 (n + 1), Spec.Salsa.block R key nonce (UInt64.ofNat n), 0⟩ := by
  obtain ⟨s0, h1, h2, _⟩ := Cx.Proofs.Salsa.salsa_new R key nonce hk hn hR
  have M := Cx.Proofs.Salsa.salsa_refines R key nonce hn s0 h2
  refine ⟨s0, h1, fun n => ?_⟩
  have hi := M.gen.inc n
  have hb := M.gen.block_eq n
  simp only [update]
  congr 1

/-! ## (vii) the output of `process`/`process_mut` = data ⊕ specified keystream from the positioned block -/

theorem chacha_process_spec (S : EngineSim E α) (R : Nat) (key nonce : Bytes) (hk : Spec.ChaCha.validKey key)
    (hn : nonce.length = 12) (hR : Spec.ChaCha.validRounds R) (n : UInt32) (data : Bytes) :
    ∃ c0 st, ChaCha.ChaCha.new E R key nonce = .ok c0 ∧
      run (ChaCha.ChaCha.methods E R) (c0, []) [.seek n, .processMut data] =
        .ok (st, [Spec.ChaCha.encrypt R key nonce (64 * n.toNat) data]) := by
  obtain ⟨s0, h1, h2, h3⟩ := chacha_new S R key nonce hk hn hR
  have M := chacha_refines S R key nonce hn s0 h2
  have := run_refines M [.seek n, .processMut data] (Impl.StreamCtx.mk s0, []) (0, []) ⟨h3, trivial⟩
  obtain ⟨st, h4, _⟩ := this
  exact ⟨_, st, h1, h4⟩

theorem xchacha_process_spec (S : EngineSim E α) (R : Nat) (key nonce : Bytes) (hk : key.length = 32)
    (hn : nonce.length = 24) (hR : Spec.ChaCha.validRounds R) (n : UInt32) (data : Bytes) :
    ∃ c0 st, ChaCha.XChaCha.new E R key nonce = .ok c0 ∧
      run (ChaCha.XChaCha.methods E R) (c0, []) [.seek n, .processMut data] =
        .ok (st, [Spec.ChaCha.encryptX R key nonce (64 * n.toNat) data]) := by
  obtain ⟨s0, h1, h2, h3⟩ := xchacha_new S R key nonce hk hn hR
  have M := xchacha_refines S R key nonce hn s0 h2
  have := run_refines M [.seek n, .processMut data] (Impl.StreamCtx.mk s0, []) (0, []) ⟨h3, trivial⟩
  obtain ⟨st, h4, _⟩ := this
  exact ⟨_, st, h1, h4⟩

theorem chachaorig_process_spec (S : EngineSim E α) (R : Nat) (key nonce : Bytes) (hk : Spec.ChaCha.validKey key)
    (hn : nonce.length = 8) (hR : Spec.ChaCha.validRounds R) (n : UInt64) (data : Bytes) :
    ∃ c0 st, ChaCha.ChaChaOriginal.new E R key nonce = .ok c0 ∧
      run (ChaCha.ChaChaOriginal.methods E R) (c0, []) [.setCounter64 n, .processMut data] =
        .ok (st, [Spec.ChaCha.encryptOrig R key nonce (64 * n.toNat) data]) := by
  obtain ⟨s0, h1, h2, h3⟩ := chachaorig_new S R key nonce hk hn hR
  have M := chachaorig_refines S R key nonce hn s0 h2
  have := run_refines M [.setCounter64 n, .processMut data] (Impl.StreamCtx.mk s0, []) (0, []) ⟨h3, trivial⟩
  obtain ⟨st, h4, _⟩ := this
  exact ⟨_, st, h1, h4⟩

theorem salsa_process_spec (R : Nat) (key nonce : Bytes) (hk : Spec.ChaCha.validKey key)
    (hn : nonce.length = 8) (hR : Spec.ChaCha.validRounds R) (n : UInt64) (data : Bytes) :
    ∃ c0 st, Impl.Salsa.Salsa.new R key nonce = .ok c0 ∧
      run (Impl.Salsa.methods R) (c0, []) [.setCounter64 n, .processMut data] =
        .ok (st, [Spec.Salsa.encrypt R key nonce (64 * n.toNat) data]) := by
  obtain ⟨s0, h1, h2, h3⟩ := Cx.Proofs.Salsa.salsa_new R key nonce hk hn hR
  have M := Cx.Proofs.Salsa.salsa_refines R key nonce hn s0 h2
  have := run_refines M [.setCounter64 n, .processMut data] (Impl.StreamCtx.mk s0, []) (0, []) ⟨h3, trivial⟩
  obtain ⟨st, h4, _⟩ := this
  exact ⟨_, st, h1, h4⟩

theorem xsalsa_process_spec (R : Nat) (key nonce : Bytes) (hk : key.length = 32)
    (hn : nonce.length = 24) (hR : Spec.ChaCha.validRounds R) (n : UInt64) (data : Bytes) :
    ∃ c0 st, Impl.Salsa.XSalsa.new R key nonce = .ok c0 ∧
      run (Impl.Salsa.methods R) (c0, []) [.setCounter64 n, .processMut data] =
        .ok (st, [Spec.Salsa.encryptX R key nonce (64 * n.toNat) data]) := by
  obtain ⟨s0, h1, h2, h3⟩ := Cx.Proofs.Salsa.xsalsa_new R key nonce hk hn hR
  have M := Cx.Proofs.Salsa.xsalsa_refines R key nonce hn s0 h2
  have := run_refines M [.setCounter64 n, .processMut data] (Impl.StreamCtx.mk s0, []) (0, []) ⟨h3, trivial⟩
  obtain ⟨st, h4, _⟩ := this
  exact ⟨_, st, h1, h4⟩

example : Spec.ChaCha.validKey (zeros 32) ∧ (zeros 12).length = 12 ∧ Spec.ChaCha.validRounds 20 := by
  refine ⟨Or.inr rfl, rfl, Or.inr (Or.inr rfl)⟩

/-! ## (viii) HChaCha / HSalsa: word selection, no feed-forward -/

/-- `rounds(); output_ad_bytes()` on the state initialised with a 16-byte nonce = HChaCha(key, nonce) -/
theorem hchacha_spec (S : EngineSim E α) (R : Nat) (key nonce16 : Bytes) (hk : Spec.ChaCha.validKey key)
    (hn : nonce16.length = 16) :
    ∃ h, E.init key nonce16 = .ok h ∧ E.hblock R h = Spec.ChaCha.hchacha R key nonce16 := by
  obtain ⟨h, hi, hv⟩ := map_ok (S.init key nonce16 hk (Or.inr (Or.inr hn)))
  refine ⟨h, hi, ?_⟩
  rw [hblock_eq S, hv]
  simp only [Spec.ChaCha.hchacha, Spec.ChaCha.layoutState, hn, if_true]

theorem hsalsa_spec (R : Nat) (key nonce16 : Bytes) (hk : Spec.ChaCha.validKey key) (hn : nonce16.length = 16) :
    ∃ h, Impl.Salsa.init key nonce16 = .ok h ∧
      Impl.Salsa.output_ad_bytes (Impl.Salsa.rounds R h) = Spec.Salsa.hsalsa R key nonce16 := by
  obtain ⟨h, hi, hv⟩ := map_ok (Cx.Proofs.Salsa.init_layout key nonce16 hk (Or.inr hn))
  refine ⟨h, hi, ?_⟩
  rw [Cx.Proofs.Salsa.output_ad_bytes_eq, Cx.Proofs.Salsa.rounds_eq, hv]
  simp only [Spec.Salsa.hsalsa, Cx.Proofs.Salsa.layoutState, hn, if_true]

/-- every specified block has 64 bytes (so `ksByte` never takes its default) -/
theorem block_lengths (R : Nat) (key nonce : Bytes) (n : Nat) :
    (Spec.ChaCha.blockAt R key nonce n).length = 64 ∧ (Spec.ChaCha.blockAtOrig R key nonce n).length = 64 ∧
    (Spec.ChaCha.blockAtX R key nonce n).length = 64 ∧ (Spec.Salsa.blockAt R key nonce n).length = 64 ∧
    (Spec.Salsa.blockAtX R key nonce n).length = 64 :=
  ⟨block_length _ _ _ _, blockOrig_length _ _ _ _, blockAtX_length _ _ _ _, Cx.Proofs.Salsa.block_length _ _ _ _,
   Cx.Proofs.Salsa.blockAtX_length _ _ _ _⟩

/-- the blockwise evaluation exported for long messages (AEAD unit) is the same function -/
theorem chacha_encryptFast_eq (R : Nat) (key nonce : Bytes) (pos : Nat) (data : Bytes) :
    Spec.ChaCha.encryptFast R key nonce pos data = Spec.ChaCha.encrypt R key nonce pos data :=
  encryptFast_eq _ (fun n => block_length _ _ _ _) pos data

/-! ## tests (labelled as tests): published vectors evaluated on the Spec -/

/-- RFC 8439 §2.3.2 (first 16 bytes of the block) -/
example : (Spec.ChaCha.block 20 ((List.range 32).map UInt8.ofNat)
    [0,0,0,9,0,0,0,0x4a,0,0,0,0] 1).take 16 =
    [0x10,0xf1,0xe7,0xe4,0xd1,0x3b,0x59,0x15,0x50,0x0f,0xdd,0x1f,0xa3,0x20,0x71,0xc4] := by decide +kernel

end Cx.Props.C03
