/-
  Props.C04.GlueTieStream — the translator tie for the STATEFUL GLUE of the stream ciphers, the DRG and the AEAD objects.

  `Extracted/GlueStream.lean` is regenerated from the CURRENT Rust sources on every run by tools/ktx_glue_stream.py (kernel
  specs tools/kernels/glue_stream.py): `new`, `update`, `process_mut`, `process`, `seek` / `verif_set_counter64` of the five
  context types of chacha20.rs / salsa20.rs (each of the five textual copies separately), `cryptoutil::xor_keystream_mut`
  (raw-pointer loop), `drg::chacha::Drg`, and everything of chacha20poly1305.rs (`Context`, `ContextEncryption`,
  `ContextDecryption`, `pad16`, `finalize_raw`, `Tag ==`, the one-shot `ChaChaPoly1305`), translated statement by statement:
  struct fields, offsets, flags, length bookkeeping, the data-dependent loops, every bounds test and checked addition.
  The theorems below prove each generated definition `f_src` equal to the hand model `Impl.….f` that the C03/C04/C06/C07/C20
  theorems are about, for ALL states and ALL inputs (no invariant is needed: the models and the code agree also on contexts with
  an out-of-range offset or a cached block of the wrong length, where both panic).  The only hypotheses are the domain guards of
  the Rust types: a buffer length is a `usize` (`< 2^64`; `xor_keystream_mut` casts it to `isize`: `< 2^63`).
  A semantic change of this glue code changes the generated definition and breaks one of these proof obligations even if no
  sampled input reaches it.

  The engine functions (`E.init`, `E.rounds`, … / `Salsa.init`, … / `Poly1305.input`, `raw_result`, `CT.array_u8_ct_eq`) are the
  MODEL's functions, tied to the code by Props/C03/KernelTie*.lean, Props/C05/KernelTie.lean, Props/C18 (KernelsCT).
-/
import CxVerif.Extracted.GlueStream
import CxVerif.Proofs.GlueStream
import CxVerif.Impl.Drg
import CxVerif.Impl.Aead
namespace Cx.Props.C04.GlueTieStream
open Cx Cx.Impl Cx.Impl.StreamCtx Cx.Extracted.GlueStream Cx.Proofs.GlueStream

variable {σ : Type}

/-- `cryptoutil::xor_keystream_mut`: the `unsafe` index loop is `zipWith xor` under the `assert!`; no access leaves the buffers
    (no `"UB"` result).  `buf.len() as isize` needs `buf.len() ≤ isize::MAX` (true of every Rust slice). -/
theorem xor_keystream_mut_src_eq_model (buf keystream : Bytes) (h : buf.length < 2 ^ 63) :
    xor_keystream_mut_src buf keystream = StreamCtx.xor_keystream_mut buf keystream :=
  xor_keystream_mut_src_eq buf keystream h

example : xor_keystream_mut_src [1, 2, 3] [7, 7, 7, 7] = .ok [6, 5, 4] := by rfl

theorem roundsOk_iff (R : Nat) : ((R = 8 ∨ R = 12) ∨ R = 20) ↔ Cx.Impl.ChaCha.roundsOk R = true := by
  simp [Cx.Impl.ChaCha.roundsOk, or_assoc]

theorem roundsOk_iff_salsa (R : Nat) : ((R = 8 ∨ R = 12) ∨ R = 20) ↔ Cx.Impl.Salsa.roundsOk R = true := by
  simp [Cx.Impl.Salsa.roundsOk, or_assoc]

/-! ### `ChaCha<ROUNDS>` -/
namespace ChaCha
open Cx.Impl.ChaCha

theorem update_src_eq_model (E : Engine σ) (R : Nat) (c : Ctx σ) :
    ChaCha.update_src E R c = StreamCtx.update (ChaCha.gen E R) c := rfl
theorem seek_src_eq_model (E : Engine σ) (c : Ctx σ) (position : UInt32) :
    ChaCha.seek_src E c position = ChaCha.seek E c position := rfl
theorem loop_body_src_eq (E : Engine σ) (R len : Nat) :
    ChaCha.process_mut_loop1_body_src E R len = bodyG (StreamCtx.update (ChaCha.gen E R)) len := rfl
theorem loop_cond_src_eq (len : Nat) : ChaCha.process_mut_loop1_cond_src (σ := σ) len = condG len := rfl
theorem process_mut_src_eq_model (E : Engine σ) (R : Nat) (c : Ctx σ) (data : Bytes) (h : data.length < 2 ^ 64) :
    ChaCha.process_mut_src E R c data = ChaCha.process_mut E R c data := by
  simp only [ChaCha.process_mut_src, loop_body_src_eq, loop_cond_src_eq]
  rw [loop0 _ c data h]
  show _ = StreamCtx.process_mut (ChaCha.gen E R) c data
  cases StreamCtx.process_mut (ChaCha.gen E R) c data with
  | error e => rfl
  | ok r => rfl
theorem process_src_eq_model (E : Engine σ) (R : Nat) (c : Ctx σ) (input output : Bytes) (h : input.length < 2 ^ 64) :
    ChaCha.process_src E R c input output = ChaCha.process E R c input output.length := by
  simp only [ChaCha.process_src, ChaCha.process, StreamCtx.process]
  by_cases hl : input.length = output.length
  · rw [if_neg (by simpa using hl), if_neg (by simpa using hl.symm), if_pos hl, process_mut_src_eq_model E R c input h]
    simp only [ChaCha.process_mut]
    cases StreamCtx.process_mut (ChaCha.gen E R) c input with
    | error e => rfl
    | ok r => rfl
  · rw [if_pos hl, if_neg hl]
theorem new_src_eq_model (E : Engine σ) (R : Nat) (key nonce : Bytes) :
    ChaCha.new_src E R key nonce = ChaCha.new E R key nonce := by
  unfold ChaCha.new_src ChaCha.new
  simp only [roundsOk_iff]
  split
  · rfl
  · split
    · rfl
    · split
      · rfl
      · cases E.init key nonce <;> rfl
end ChaCha

/-! ### `XChaCha<ROUNDS>` -/
namespace XChaCha
open Cx.Impl.ChaCha

theorem update_src_eq_model (E : Engine σ) (R : Nat) (c : Ctx σ) :
    XChaCha.update_src E R c = StreamCtx.update (XChaCha.gen E R) c := rfl
theorem seek_src_eq_model (E : Engine σ) (c : Ctx σ) (position : UInt32) :
    XChaCha.seek_src E c position = XChaCha.seek E c position := rfl
theorem loop_body_src_eq (E : Engine σ) (R len : Nat) :
    XChaCha.process_mut_loop1_body_src E R len = bodyG (StreamCtx.update (XChaCha.gen E R)) len := rfl
theorem loop_cond_src_eq (len : Nat) : XChaCha.process_mut_loop1_cond_src (σ := σ) len = condG len := rfl
theorem process_mut_src_eq_model (E : Engine σ) (R : Nat) (c : Ctx σ) (data : Bytes) (h : data.length < 2 ^ 64) :
    XChaCha.process_mut_src E R c data = XChaCha.process_mut E R c data := by
  simp only [XChaCha.process_mut_src, loop_body_src_eq, loop_cond_src_eq]
  rw [loop0 _ c data h]
  show _ = StreamCtx.process_mut (XChaCha.gen E R) c data
  cases StreamCtx.process_mut (XChaCha.gen E R) c data with
  | error e => rfl
  | ok r => rfl
theorem process_src_eq_model (E : Engine σ) (R : Nat) (c : Ctx σ) (input output : Bytes) (h : input.length < 2 ^ 64) :
    XChaCha.process_src E R c input output = XChaCha.process E R c input output.length := by
  simp only [XChaCha.process_src, XChaCha.process, StreamCtx.process]
  by_cases hl : input.length = output.length
  · rw [if_neg (by simpa using hl), if_neg (by simpa using hl.symm), if_pos hl, process_mut_src_eq_model E R c input h]
    simp only [XChaCha.process_mut]
    cases StreamCtx.process_mut (XChaCha.gen E R) c input with
    | error e => rfl
    | ok r => rfl
  · rw [if_pos hl, if_neg hl]
theorem new_src_eq_model (E : Engine σ) (R : Nat) (key nonce : Bytes) :
    XChaCha.new_src E R key nonce = XChaCha.new E R key nonce := by
  unfold XChaCha.new_src XChaCha.new
  simp only [roundsOk_iff]
  split
  · rfl
  · split
    · rfl
    · cases E.init key (nonce.take 16) with
      | error e => rfl
      | ok hchacha =>
        simp only [Engine.hblock]
        cases E.init (E.output_ad_bytes (E.rounds R hchacha)) ((nonce.drop 16).take 8) <;> rfl
end XChaCha

/-! ### `ChaChaOriginal<ROUNDS>` -/
namespace ChaChaOriginal
open Cx.Impl.ChaCha

theorem update_src_eq_model (E : Engine σ) (R : Nat) (c : Ctx σ) :
    ChaChaOriginal.update_src E R c = StreamCtx.update (ChaChaOriginal.gen E R) c := rfl
theorem verif_set_counter64_src_eq_model (E : Engine σ) (c : Ctx σ) (counter : UInt64) :
    ChaChaOriginal.verif_set_counter64_src E c counter = ChaChaOriginal.verif_set_counter64 E c counter := rfl
theorem loop_body_src_eq (E : Engine σ) (R len : Nat) :
    ChaChaOriginal.process_mut_loop1_body_src E R len = bodyG (StreamCtx.update (ChaChaOriginal.gen E R)) len := rfl
theorem loop_cond_src_eq (len : Nat) : ChaChaOriginal.process_mut_loop1_cond_src (σ := σ) len = condG len := rfl
theorem process_mut_src_eq_model (E : Engine σ) (R : Nat) (c : Ctx σ) (data : Bytes) (h : data.length < 2 ^ 64) :
    ChaChaOriginal.process_mut_src E R c data = ChaChaOriginal.process_mut E R c data := by
  simp only [ChaChaOriginal.process_mut_src, loop_body_src_eq, loop_cond_src_eq]
  rw [loop0 _ c data h]
  show _ = StreamCtx.process_mut (ChaChaOriginal.gen E R) c data
  cases StreamCtx.process_mut (ChaChaOriginal.gen E R) c data with
  | error e => rfl
  | ok r => rfl
theorem process_src_eq_model (E : Engine σ) (R : Nat) (c : Ctx σ) (input output : Bytes) (h : input.length < 2 ^ 64) :
    ChaChaOriginal.process_src E R c input output = ChaChaOriginal.process E R c input output.length := by
  simp only [ChaChaOriginal.process_src, ChaChaOriginal.process, StreamCtx.process]
  by_cases hl : input.length = output.length
  · rw [if_neg (by simpa using hl), if_neg (by simpa using hl.symm), if_pos hl, process_mut_src_eq_model E R c input h]
    simp only [ChaChaOriginal.process_mut]
    cases StreamCtx.process_mut (ChaChaOriginal.gen E R) c input with
    | error e => rfl
    | ok r => rfl
  · rw [if_pos hl, if_neg hl]
theorem new_src_eq_model (E : Engine σ) (R : Nat) (key nonce : Bytes) :
    ChaChaOriginal.new_src E R key nonce = ChaChaOriginal.new E R key nonce := by
  unfold ChaChaOriginal.new_src ChaChaOriginal.new
  simp only [roundsOk_iff]
  split
  · rfl
  · split
    · rfl
    · split
      · rfl
      · cases E.init key nonce <;> rfl
end ChaChaOriginal

/-! ### `Salsa<ROUNDS>` (salsa20.rs) -/
namespace Salsa
open Cx.Impl.Salsa

theorem update_src_eq_model (R : Nat) (c : Ctx W16) :
    Salsa.update_src R c = StreamCtx.update (Cx.Impl.Salsa.gen R) c := rfl
theorem verif_set_counter64_src_eq_model (c : Ctx W16) (counter : UInt64) :
    Salsa.verif_set_counter64_src c counter = Salsa.verif_set_counter64 c counter := rfl
theorem loop_body_src_eq (R len : Nat) :
    Salsa.process_mut_loop1_body_src R len = bodyG (StreamCtx.update (Cx.Impl.Salsa.gen R)) len := rfl
theorem loop_cond_src_eq (len : Nat) : Salsa.process_mut_loop1_cond_src len = condG (σ := W16) len := rfl
theorem process_mut_src_eq_model (R : Nat) (c : Ctx W16) (data : Bytes) (h : data.length < 2 ^ 64) :
    Salsa.process_mut_src R c data = Salsa.process_mut R c data := by
  simp only [Salsa.process_mut_src, loop_body_src_eq, loop_cond_src_eq]
  rw [loop0 _ c data h]
  show _ = StreamCtx.process_mut (Cx.Impl.Salsa.gen R) c data
  cases StreamCtx.process_mut (Cx.Impl.Salsa.gen R) c data with
  | error e => rfl
  | ok r => rfl
theorem process_src_eq_model (R : Nat) (c : Ctx W16) (input output : Bytes) (h : input.length < 2 ^ 64) :
    Salsa.process_src R c input output = Salsa.process R c input output.length := by
  simp only [Salsa.process_src, Salsa.process, StreamCtx.process]
  by_cases hl : input.length = output.length
  · rw [if_neg (by simpa using hl), if_neg (by simpa using hl.symm), if_pos hl, process_mut_src_eq_model R c input h]
    simp only [Salsa.process_mut]
    cases StreamCtx.process_mut (Cx.Impl.Salsa.gen R) c input with
    | error e => rfl
    | ok r => rfl
  · rw [if_pos hl, if_neg hl]
theorem new_src_eq_model (R : Nat) (key nonce : Bytes) :
    Salsa.new_src R key nonce = Salsa.new R key nonce := by
  unfold Salsa.new_src Salsa.new
  simp only [roundsOk_iff_salsa]
  split
  · rfl
  · split
    · rfl
    · split
      · rfl
      · cases Cx.Impl.Salsa.init key nonce <;> rfl
end Salsa

/-! ### `XSalsa<ROUNDS>` (salsa20.rs) -/
namespace XSalsa
open Cx.Impl.Salsa

theorem update_src_eq_model (R : Nat) (c : Ctx W16) :
    XSalsa.update_src R c = StreamCtx.update (Cx.Impl.Salsa.gen R) c := rfl
theorem verif_set_counter64_src_eq_model (c : Ctx W16) (counter : UInt64) :
    XSalsa.verif_set_counter64_src c counter = XSalsa.verif_set_counter64 c counter := rfl
theorem loop_body_src_eq (R len : Nat) :
    XSalsa.process_mut_loop1_body_src R len = bodyG (StreamCtx.update (Cx.Impl.Salsa.gen R)) len := rfl
theorem loop_cond_src_eq (len : Nat) : XSalsa.process_mut_loop1_cond_src len = condG (σ := W16) len := rfl
theorem process_mut_src_eq_model (R : Nat) (c : Ctx W16) (data : Bytes) (h : data.length < 2 ^ 64) :
    XSalsa.process_mut_src R c data = XSalsa.process_mut R c data := by
  simp only [XSalsa.process_mut_src, loop_body_src_eq, loop_cond_src_eq]
  rw [loop0 _ c data h]
  show _ = StreamCtx.process_mut (Cx.Impl.Salsa.gen R) c data
  cases StreamCtx.process_mut (Cx.Impl.Salsa.gen R) c data with
  | error e => rfl
  | ok r => rfl
theorem process_src_eq_model (R : Nat) (c : Ctx W16) (input output : Bytes) (h : input.length < 2 ^ 64) :
    XSalsa.process_src R c input output = XSalsa.process R c input output.length := by
  simp only [XSalsa.process_src, XSalsa.process, StreamCtx.process]
  by_cases hl : input.length = output.length
  · rw [if_neg (by simpa using hl), if_neg (by simpa using hl.symm), if_pos hl, process_mut_src_eq_model R c input h]
    simp only [XSalsa.process_mut]
    cases StreamCtx.process_mut (Cx.Impl.Salsa.gen R) c input with
    | error e => rfl
    | ok r => rfl
  · rw [if_pos hl, if_neg hl]
theorem new_src_eq_model (R : Nat) (key nonce : Bytes) :
    XSalsa.new_src R key nonce = XSalsa.new R key nonce := by
  unfold XSalsa.new_src XSalsa.new
  simp only [roundsOk_iff_salsa]
  split
  · rfl
  · split
    · rfl
    · cases Cx.Impl.Salsa.init key (nonce.take 16) with
      | error e => rfl
      | ok hsalsa =>
        simp only []
        cases Cx.Impl.Salsa.init (output_ad_bytes (rounds R hsalsa)) ((nonce.drop 16).take 8) <;> rfl
end XSalsa

/-! ### `Drg<ROUNDS>` (drg/chacha.rs) -/
namespace Drg
open Cx.Impl.ChaCha

theorem new_src_eq_model (E : Engine σ) (R : Nat) (seed : Bytes) : Drg.new_src E R seed = Cx.Impl.Drg.new E R seed := by
  unfold Drg.new_src Cx.Impl.Drg.new
  split
  · rfl
  · rw [ChaCha.new_src_eq_model]; split <;> simp_all
theorem bytes_src_eq_model (E : Engine σ) (R : Nat) (c : Ctx σ) (N : Nat) (h : N < 2 ^ 64) :
    Drg.bytes_src E R c N = Cx.Impl.Drg.bytes E R c N := by
  simp only [Drg.bytes_src, Cx.Impl.Drg.bytes]
  rw [ChaCha.process_mut_src_eq_model E R c (zeros N) (by simpa [zeros] using h)]
  split <;> simp_all
theorem fill_bytes_src_eq_model (E : Engine σ) (R : Nat) (c : Ctx σ) (out : Bytes) (h : out.length < 2 ^ 64) :
    Drg.fill_bytes_src E R c out = Cx.Impl.Drg.fill_bytes E R c out := by
  simp only [Drg.fill_bytes_src, Cx.Impl.Drg.fill_bytes]
  rw [ChaCha.process_mut_src_eq_model E R c (zeros out.length) (by simpa [zeros] using h)]
  split <;> simp_all
theorem fill_slice_src_eq_model (E : Engine σ) (R : Nat) (c : Ctx σ) (out : Bytes) (h : out.length < 2 ^ 64) :
    Drg.fill_slice_src E R c out = Cx.Impl.Drg.fill_slice E R c out := by
  simp only [Drg.fill_slice_src, Cx.Impl.Drg.fill_slice]
  rw [ChaCha.process_mut_src_eq_model E R c (zeros out.length) (by simpa [zeros] using h)]
  split <;> simp_all
theorem u64_src_eq_model (E : Engine σ) (R : Nat) (c : Ctx σ) : Drg.u64_src E R c = Cx.Impl.Drg.u64 E R c := by
  unfold Drg.u64_src Cx.Impl.Drg.u64
  rw [bytes_src_eq_model E R c 8 (by decide)]
  cases Cx.Impl.Drg.bytes E R c 8 with
  | error e => rfl
  | ok r => rfl
theorem u32_src_eq_model (E : Engine σ) (R : Nat) (c : Ctx σ) : Drg.u32_src E R c = Cx.Impl.Drg.u32 E R c := by
  unfold Drg.u32_src Cx.Impl.Drg.u32
  rw [bytes_src_eq_model E R c 4 (by decide)]
  cases Cx.Impl.Drg.bytes E R c 4 with
  | error e => rfl
  | ok r => rfl
end Drg

/-! ### chacha20poly1305.rs -/
namespace Aead
open Cx.Impl.ChaCha Cx.Impl.Aead

/-- `pad16`: the branch on `len % 16`, `16 - len % 16` (no underflow), `&padding[0..sz]` (in bounds) -/
theorem pad16_src_eq_model (mac : Poly1305.State) (len : Nat) : Aead.pad16_src mac len = pad16 mac len := by
  unfold Aead.pad16_src pad16
  by_cases h : len % 16 ≠ 0
  · have h1 : len % 16 ≤ 16 := by omega
    have h2 : 16 - len % 16 ≤ 15 := by omega
    rw [if_pos h, if_pos h]
    simp only [subChk, h1, if_true, guard_pos h2]
    cases liftP (Poly1305.input mac (List.take (16 - len % 16) (zeros 15))) <;> rfl
  · rw [if_neg h, if_neg h]

theorem add_encrypted_src_eq_model (c : Context σ) (encrypted : Bytes) :
    Aead.Context.add_encrypted_src c encrypted = Context.add_encrypted c encrypted := by
  unfold Aead.Context.add_encrypted_src Context.add_encrypted
  cases liftP (Poly1305.input c.mac encrypted) with
  | error e => rfl
  | ok mac =>
    simp only [addChk, addU64]
    by_cases hlt : c.data_len + encrypted.length < 2 ^ 64
    · simp only [hlt, if_true]
    · simp only [hlt, if_false]

/-- `add_data`: `aad_len` is ACCUMULATED (checked `+=`), then the data goes to the MAC -/
theorem add_data_src_eq_model (c : Context σ) (aad : Bytes) :
    Aead.Context.add_data_src c aad = Context.add_data c aad := by
  unfold Aead.Context.add_data_src Context.add_data
  simp only [addChk, addU64]
  by_cases hlt : c.aad_len + aad.length < 2 ^ 64
  · simp only [hlt, if_true]
    cases liftP (Poly1305.input c.mac aad) <;> rfl
  · simp only [hlt, if_false]

theorem to_encryption_src_eq_model (c : Context σ) : Aead.Context.to_encryption_src c = Context.to_encryption c := by
  unfold Aead.Context.to_encryption_src Context.to_encryption
  rw [pad16_src_eq_model]
  cases pad16 c.mac c.aad_len <;> rfl

theorem to_decryption_src_eq_model (c : Context σ) : Aead.Context.to_decryption_src c = Context.to_decryption c := by
  unfold Aead.Context.to_decryption_src Context.to_decryption
  rw [pad16_src_eq_model]
  cases pad16 c.mac c.aad_len <;> rfl

/-- `Context::new`: key-length assert, the one-time key = first 32 bytes of keystream block 0 (the cipher then stands at block 1) -/
theorem new_src_eq_model (E : Engine σ) (R : Nat) (key nonce : Bytes) :
    Aead.Context.new_src E R key nonce = Context.new E R key nonce := by
  unfold Aead.Context.new_src Context.new
  split
  · rfl
  · split
    · rfl
    · rw [ChaCha.new_src_eq_model]
      cases ChaCha.new E R key nonce with
      | error e => rfl
      | ok cipher =>
        simp only []
        rw [ChaCha.process_src_eq_model E R cipher (zeros 64) (zeros 64) (by simp [zeros])]
        have : (zeros 64).length = 64 := by simp [zeros]
        rw [this]
        cases ChaCha.process E R cipher (zeros 64) 64 with
        | error e => rfl
        | ok r => rfl

/-- `finalize_raw`: pad16 of the data, the length block `aad_len ‖ data_len` (little endian u64), the raw tag -/
theorem finalize_raw_src_eq_model (c : Context σ) : Aead.finalize_raw_src c = finalize_raw c := by
  unfold Aead.finalize_raw_src finalize_raw
  rw [pad16_src_eq_model]
  cases pad16 c.mac c.data_len with
  | error e => rfl
  | ok mac =>
    simp only [len_block]
    cases liftP (Poly1305.input mac (natToLE 8 c.aad_len ++ natToLE 8 c.data_len)) with
    | error e => rfl
    | ok mac2 =>
      simp only []
      cases liftP (Poly1305.raw_result Poly1305.codeVariant mac2 16) with
      | error e => rfl
      | ok r => rfl

theorem encrypt_mut_src_eq_model (E : Engine σ) (R : Nat) (c : Context σ) (buf : Bytes) (h : buf.length < 2 ^ 64) :
    Aead.ContextEncryption.encrypt_mut_src E R c buf = ContextEncryption.encrypt_mut E R c buf := by
  unfold Aead.ContextEncryption.encrypt_mut_src ContextEncryption.encrypt_mut
  rw [ChaCha.process_mut_src_eq_model E R c.cipher buf h]
  cases ChaCha.process_mut E R c.cipher buf with
  | error e => rfl
  | ok r =>
    simp only [add_encrypted_src_eq_model]
    cases Context.add_encrypted { c with cipher := r.1 } r.2 <;> rfl

theorem encrypt_src_eq_model (E : Engine σ) (R : Nat) (c : Context σ) (input output : Bytes) (h : input.length < 2 ^ 64) :
    Aead.ContextEncryption.encrypt_src E R c input output = ContextEncryption.encrypt E R c input output.length := by
  unfold Aead.ContextEncryption.encrypt_src ContextEncryption.encrypt
  by_cases hl : input.length = output.length
  · rw [guard_pos hl, if_neg (show ¬ (input.length ≠ output.length) from not_not_intro hl),
      ChaCha.process_src_eq_model E R c.cipher input output h]
    cases ChaCha.process E R c.cipher input output.length with
    | error e => rfl
    | ok r =>
      simp only [add_encrypted_src_eq_model]
      cases Context.add_encrypted { c with cipher := r.1 } r.2 <;> rfl
  · rw [guard_neg hl, if_pos hl]

theorem enc_finalize_src_eq_model (c : Context σ) : Aead.ContextEncryption.finalize_src c = ContextEncryption.finalize c := by
  unfold Aead.ContextEncryption.finalize_src ContextEncryption.finalize
  rw [finalize_raw_src_eq_model]
  cases finalize_raw c with
  | error e => rfl
  | ok r => rfl

/-- `Tag ==` goes through the constant-time `ct_eq` of `[u8; 16]` -/
theorem tag_ct_eq_src_eq_model (a b : Bytes) : Aead.Tag.ct_eq_src a b = CT.array_u8_ct_eq a b := rfl
theorem tag_eq_src_eq_model (a b : Bytes) : Aead.Tag.eq_src a b = Tag.eq a b := rfl

theorem decrypt_mut_src_eq_model (E : Engine σ) (R : Nat) (c : Context σ) (buf : Bytes) (h : buf.length < 2 ^ 64) :
    Aead.ContextDecryption.decrypt_mut_src E R c buf = ContextDecryption.decrypt_mut E R c buf := by
  unfold Aead.ContextDecryption.decrypt_mut_src ContextDecryption.decrypt_mut
  rw [add_encrypted_src_eq_model]
  cases Context.add_encrypted c buf with
  | error e => rfl
  | ok c2 =>
    simp only []
    rw [ChaCha.process_mut_src_eq_model E R c2.cipher buf h]
    cases ChaCha.process_mut E R c2.cipher buf with
    | error e => rfl
    | ok r => rfl

theorem decrypt_src_eq_model (E : Engine σ) (R : Nat) (c : Context σ) (input output : Bytes) (h : input.length < 2 ^ 64) :
    Aead.ContextDecryption.decrypt_src E R c input output = ContextDecryption.decrypt E R c input output.length := by
  unfold Aead.ContextDecryption.decrypt_src ContextDecryption.decrypt
  by_cases hl : input.length = output.length
  · rw [guard_pos hl, if_neg (show ¬ (input.length ≠ output.length) from not_not_intro hl), add_encrypted_src_eq_model]
    cases Context.add_encrypted c input with
    | error e => rfl
    | ok c2 =>
      simp only []
      rw [ChaCha.process_src_eq_model E R c2.cipher input output h]
      cases ChaCha.process E R c2.cipher input output.length with
      | error e => rfl
      | ok r => rfl
  · rw [guard_neg hl, if_pos hl]

/-- `ContextDecryption::finalize`: the verdict is `Tag ==` of the computed and the expected tag -/
theorem dec_finalize_src_eq_model (c : Context σ) (expected_tag : Bytes) :
    Aead.ContextDecryption.finalize_src c expected_tag = ContextDecryption.finalize c expected_tag := by
  unfold Aead.ContextDecryption.finalize_src ContextDecryption.finalize
  split
  · rfl
  · rw [finalize_raw_src_eq_model]
    cases finalize_raw c with
    | error e => rfl
    | ok r =>
      simp only [tag_eq_src_eq_model]
      exact congrArg _ (ite_bool_id _)

/-! #### the one-shot object -/

theorem oneshot_new_src_eq_model (E : Engine σ) (R : Nat) (key nonce aad : Bytes) :
    Aead.ChaChaPoly1305.new_src E R key nonce aad = ChaChaPoly1305.new E R key nonce aad := by
  unfold Aead.ChaChaPoly1305.new_src ChaChaPoly1305.new
  rw [new_src_eq_model]
  split
  · rename_i h
    rw [Context.new, if_pos h]
  · cases Context.new E R key nonce with
    | error e => rfl
    | ok ctx =>
      simp only [add_data_src_eq_model]
      cases Context.add_data ctx aad <;> rfl

/-- one-shot `encrypt`: the three asserts in source order, `finished` set BEFORE the work, tag copied out -/
theorem oneshot_encrypt_src_eq_model (E : Engine σ) (R : Nat) (s : ChaChaPoly1305 σ) (input output out_tag : Bytes)
    (h : input.length < 2 ^ 64) :
    Aead.ChaChaPoly1305.encrypt_src E R s input output out_tag
      = ChaChaPoly1305.encrypt E R s input output.length out_tag.length := by
  unfold Aead.ChaChaPoly1305.encrypt_src ChaChaPoly1305.encrypt
  by_cases h1 : input.length = output.length
  · rw [guard_pos h1, if_neg (show ¬ (input.length ≠ output.length) from not_not_intro h1)]
    by_cases h2 : s.finished = true
    · rw [guard_neg (not_not_intro h2), if_pos h2]
    · rw [guard_pos h2, if_neg h2]
      by_cases h3 : out_tag.length = 16
      · rw [guard_pos h3, if_neg (show ¬ (out_tag.length ≠ 16) from not_not_intro h3)]
        simp only [to_encryption_src_eq_model]
        cases Context.to_encryption s.context with
        | error e => rfl
        | ok ctx =>
          simp only []
          rw [encrypt_src_eq_model E R ctx input output h]
          cases ContextEncryption.encrypt E R ctx input output.length with
          | error e => rfl
          | ok r =>
            simp only [enc_finalize_src_eq_model]
            cases ContextEncryption.finalize r.1 with
            | error e => rfl
            | ok tag => simp only [guard_pos h3]
      · rw [guard_neg h3, if_pos h3]
  · rw [guard_neg h1, if_pos h1]

/-- one-shot `decrypt`: asserts in source order (tag length first), `finished` set before the check, verdict = tag comparison -/
theorem oneshot_decrypt_src_eq_model (E : Engine σ) (R : Nat) (s : ChaChaPoly1305 σ) (input output tag : Bytes)
    (h : input.length < 2 ^ 64) :
    Aead.ChaChaPoly1305.decrypt_src E R s input output tag
      = ChaChaPoly1305.decrypt E R s input output.length tag := by
  unfold Aead.ChaChaPoly1305.decrypt_src ChaChaPoly1305.decrypt
  by_cases h0 : tag.length = 16
  · rw [guard_pos h0, if_neg (show ¬ (tag.length ≠ 16) from not_not_intro h0)]
    by_cases h1 : input.length = output.length
    · rw [guard_pos h1, if_neg (show ¬ (input.length ≠ output.length) from not_not_intro h1)]
      by_cases h2 : s.finished = true
      · rw [guard_neg (not_not_intro h2), if_pos h2]
      · rw [guard_pos h2, if_neg h2]
        simp only [guard_pos h0.symm, to_decryption_src_eq_model]
        cases Context.to_decryption s.context with
        | error e => rfl
        | ok ctx =>
          simp only []
          rw [decrypt_src_eq_model E R ctx input output h]
          cases ContextDecryption.decrypt E R ctx input output.length with
          | error e => rfl
          | ok r =>
            simp only [dec_finalize_src_eq_model]
            cases ContextDecryption.finalize r.1 tag with
            | error e => rfl
            | ok v => simp only [decide_eq_true_id]
    · rw [guard_neg h1, if_pos h1]
  · rw [guard_neg h0, if_pos h0]

end Aead

end Cx.Props.C04.GlueTieStream
