/-
  Props.C04 (stream unit) — stream position semantics: every history of {process, process_mut, seek /
  verif_set_counter64, clone, swap} on every cipher context refines the abstract state "absolute keystream
  position" (induction over the history); corollaries: partition independence, involution, seek from mid-block,
  a clone continues identically.  DRG: every request sequence returns the successive keystream bytes,
  independent of request sizing and of prior buffer contents; witness of the pre-repair `fill_*` behaviour.

  `absRun KS hasSeek hasSet64 (pos, stack) ops` (Proofs.StreamCtx) is the abstract machine: process/process_mut
  emit `data ⊕ KS[pos, pos+len)` and advance pos, seek n sets pos := 64·n, clone pushes pos, swap exchanges.
  `Agrees` = same refusal, or same emitted bytes and related final states.
  `S : EngineSim E α` ranges over both engine models (`referenceSim`, `sse2Sim`).
  Clone is the identity on the immutable model values; that the two Rust copies are independent objects is a
  correspondence obligation (ops `c`/`x` of the line protocol), not a theorem.
-/
import CxVerif.Proofs.StreamSalsa
import CxVerif.Proofs.StreamDrg
namespace Cx.Props.C04
open Cx Cx.Impl Cx.Impl.ChaCha Cx.Impl.StreamCtx Cx.Spec.Stream Cx.Proofs.Stream Cx.Proofs.ChaCha
set_option linter.unusedSimpArgs false
set_option linter.unusedVariables false

variable {σ : Type} {E : Engine σ} {α : σ → W16}

/-! ## every history refines the absolute position -/

theorem chacha_history (S : EngineSim E α) (R : Nat) (key nonce : Bytes) (hk : Spec.ChaCha.validKey key)
    (hn : nonce.length = 12) (hR : Spec.ChaCha.validRounds R) (ops : List Op) :
    ∃ c0 s0, ChaCha.ChaCha.new E R key nonce = .ok c0 ∧
      Agrees (mk32 E s0) (Spec.ChaCha.blockAt R key nonce) (run (ChaCha.ChaCha.methods E R) (c0, []) ops)
        (absRun (Spec.ChaCha.blockAt R key nonce) true false (0, []) ops) := by
  obtain ⟨s0, h1, h2, h3⟩ := chacha_new S R key nonce hk hn hR
  exact ⟨_, s0, h1, run_refines (chacha_refines S R key nonce hn s0 h2) ops _ _ ⟨h3, trivial⟩⟩

theorem xchacha_history (S : EngineSim E α) (R : Nat) (key nonce : Bytes) (hk : key.length = 32)
    (hn : nonce.length = 24) (hR : Spec.ChaCha.validRounds R) (ops : List Op) :
    ∃ c0 s0, ChaCha.XChaCha.new E R key nonce = .ok c0 ∧
      Agrees (mk32 E s0) (Spec.ChaCha.blockAtX R key nonce) (run (ChaCha.XChaCha.methods E R) (c0, []) ops)
        (absRun (Spec.ChaCha.blockAtX R key nonce) true false (0, []) ops) := by
  obtain ⟨s0, h1, h2, h3⟩ := xchacha_new S R key nonce hk hn hR
  exact ⟨_, s0, h1, run_refines (xchacha_refines S R key nonce hn s0 h2) ops _ _ ⟨h3, trivial⟩⟩

theorem chachaorig_history (S : EngineSim E α) (R : Nat) (key nonce : Bytes) (hk : Spec.ChaCha.validKey key)
    (hn : nonce.length = 8) (hR : Spec.ChaCha.validRounds R) (ops : List Op) :
    ∃ c0 s0, ChaCha.ChaChaOriginal.new E R key nonce = .ok c0 ∧
      Agrees (mk64 E s0) (Spec.ChaCha.blockAtOrig R key nonce) (run (ChaCha.ChaChaOriginal.methods E R) (c0, []) ops)
        (absRun (Spec.ChaCha.blockAtOrig R key nonce) false true (0, []) ops) := by
  obtain ⟨s0, h1, h2, h3⟩ := chachaorig_new S R key nonce hk hn hR
  exact ⟨_, s0, h1, run_refines (chachaorig_refines S R key nonce hn s0 h2) ops _ _ ⟨h3, trivial⟩⟩

theorem salsa_history (R : Nat) (key nonce : Bytes) (hk : Spec.ChaCha.validKey key)
    (hn : nonce.length = 8) (hR : Spec.ChaCha.validRounds R) (ops : List Op) :
    ∃ c0 s0, Impl.Salsa.Salsa.new R key nonce = .ok c0 ∧
      Agrees (Cx.Proofs.Salsa.mkS s0) (Spec.Salsa.blockAt R key nonce) (run (Impl.Salsa.methods R) (c0, []) ops)
        (absRun (Spec.Salsa.blockAt R key nonce) false true (0, []) ops) := by
  obtain ⟨s0, h1, h2, h3⟩ := Cx.Proofs.Salsa.salsa_new R key nonce hk hn hR
  exact ⟨_, s0, h1, run_refines (Cx.Proofs.Salsa.salsa_refines R key nonce hn s0 h2) ops _ _ ⟨h3, trivial⟩⟩

theorem xsalsa_history (R : Nat) (key nonce : Bytes) (hk : key.length = 32)
    (hn : nonce.length = 24) (hR : Spec.ChaCha.validRounds R) (ops : List Op) :
    ∃ c0 s0, Impl.Salsa.XSalsa.new R key nonce = .ok c0 ∧
      Agrees (Cx.Proofs.Salsa.mkS s0) (Spec.Salsa.blockAtX R key nonce) (run (Impl.Salsa.methods R) (c0, []) ops)
        (absRun (Spec.Salsa.blockAtX R key nonce) false true (0, []) ops) := by
  obtain ⟨s0, h1, h2, h3⟩ := Cx.Proofs.Salsa.xsalsa_new R key nonce hk hn hR
  exact ⟨_, s0, h1, run_refines (Cx.Proofs.Salsa.xsalsa_refines R key nonce hn s0 h2) ops _ _ ⟨h3, trivial⟩⟩

example : Spec.ChaCha.validKey (zeros 16) ∧ (zeros 8).length = 8 ∧ Spec.ChaCha.validRounds 8 :=
  ⟨Or.inl rfl, rfl, Or.inl rfl⟩

/-! ## the single calls, for ANY context standing at ANY position (generic in the context type:
    `Rf : Refines g mk KS` is provided by `chacha_refines`, `xchacha_refines`, `chachaorig_refines`,
    `salsa_refines`, `xsalsa_refines` — `.gen` of each) -/

/-- each call returns input ⊕ KS[pos, pos+len) and advances the position by len -/
theorem process_mut_at {g : BlockGen σ} {mk : Nat → σ} {KS : Nat → Bytes} (Rf : Refines g mk KS)
    (c : Ctx σ) (pos : Nat) (data : Bytes) (h : Abs mk KS c pos) :
    ∃ c', process_mut g c data = .ok (c', encrypt KS pos data) ∧ Abs mk KS c' (pos + data.length) :=
  process_mut_refines Rf c pos data h

theorem process_at {g : BlockGen σ} {mk : Nat → σ} {KS : Nat → Bytes} (Rf : Refines g mk KS)
    (c : Ctx σ) (pos : Nat) (data : Bytes) (h : Abs mk KS c pos) :
    ∃ c', process g c data data.length = .ok (c', encrypt KS pos data) ∧ Abs mk KS c' (pos + data.length) :=
  process_refines Rf c pos data h

/-- `process` into an output buffer of another length is refused -/
theorem process_len_mismatch (g : BlockGen σ) (c : Ctx σ) (data : Bytes) (n : Nat) (h : data.length ≠ n) :
    process g c data n = .error "PANIC" := by simp [process, h]

/-- partition independence: two successive calls = one call on the concatenation (same bytes, same final
    position) — from any position, any offset inside a block, any piece lengths (also empty pieces) -/
theorem partition_independence {g : BlockGen σ} {mk : Nat → σ} {KS : Nat → Bytes} (Rf : Refines g mk KS)
    (c : Ctx σ) (pos : Nat) (d1 d2 : Bytes) (h : Abs mk KS c pos) :
    ∃ c1 c2 c12 o1 o2, process_mut g c d1 = .ok (c1, o1) ∧ process_mut g c1 d2 = .ok (c2, o2) ∧
      process_mut g c (d1 ++ d2) = .ok (c12, o1 ++ o2) ∧
      Abs mk KS c2 (pos + (d1 ++ d2).length) ∧ Abs mk KS c12 (pos + (d1 ++ d2).length) := by
  obtain ⟨c1, h1, a1⟩ := process_mut_refines Rf c pos d1 h
  obtain ⟨c2, h2, a2⟩ := process_mut_refines Rf c1 _ d2 a1
  obtain ⟨c12, h3, a3⟩ := process_mut_refines Rf c pos (d1 ++ d2) h
  refine ⟨c1, c2, c12, _, _, h1, h2, ?_, ?_, a3⟩
  · rw [h3, encrypt_append]
  · rw [List.length_append, ← Nat.add_assoc]; exact a2

/-- the same for any number of pieces, at the level of the emitted bytes -/
theorem partition_independence_pieces (KS : Nat → Bytes) (pieces : List Bytes) (pos : Nat) :
    encrypt KS pos pieces.flatten =
      (pieces.foldl (fun (acc : Bytes × Nat) d => (acc.1 ++ encrypt KS acc.2 d, acc.2 + d.length)) ([], pos)).1 :=
  encrypt_pieces KS pieces pos

/-- involution: a context at the same position (e.g. a clone taken before the call) maps the output back to the
    input -/
theorem involution {g : BlockGen σ} {mk : Nat → σ} {KS : Nat → Bytes} (Rf : Refines g mk KS)
    (c : Ctx σ) (pos : Nat) (data : Bytes) (h : Abs mk KS c pos) :
    ∃ c1 out, process_mut g c data = .ok (c1, out) ∧ ∃ c2, process_mut g c out = .ok (c2, data) := by
  obtain ⟨c1, h1, _⟩ := process_mut_refines Rf c pos data h
  obtain ⟨c2, h2, _⟩ := process_mut_refines Rf c pos (encrypt KS pos data) h
  rw [encrypt_invol] at h2
  exact ⟨c1, _, h1, c2, h2⟩

/-- seek from ANY position (also mid-block): the next byte is the first byte of block n -/
theorem seek_from_anywhere {τ : Type} {g : BlockGen σ} {mk : Nat → σ} {KS : Nat → Bytes} (Rf : Refines g mk KS)
    (setCounter : σ → τ → σ) (toBlock : τ → Nat) (hset : ∀ n t, setCounter (mk n) t = mk (toBlock t))
    (c : Ctx σ) (pos : Nat) (t : τ) (data : Bytes) (h : Abs mk KS c pos) :
    ∃ c', process_mut g (seek setCounter c t) data = .ok (c', encrypt KS (64 * toBlock t) data) :=
  let ⟨c', h1, _⟩ := process_mut_refines Rf _ _ data (seek_abs mk KS setCounter toBlock hset c pos t h)
  ⟨c', h1⟩

/-- two contexts at the same position (a context and its clone) produce the same bytes for the same input -/
theorem clone_continues_identically {g : BlockGen σ} {mk : Nat → σ} {KS : Nat → Bytes} (Rf : Refines g mk KS)
    (c c' : Ctx σ) (pos : Nat) (data : Bytes) (h : Abs mk KS c pos) (h' : Abs mk KS c' pos) :
    ∃ c1 c1' out, process_mut g c data = .ok (c1, out) ∧ process_mut g c' data = .ok (c1', out) := by
  obtain ⟨c1, h1, _⟩ := process_mut_refines Rf c pos data h
  obtain ⟨c1', h1', _⟩ := process_mut_refines Rf c' pos data h'
  exact ⟨c1, c1', _, h1, h1'⟩

/-! ## DRG -/
open Cx.Impl.Drg Cx.Proofs.Drg

/-- every request sequence over {bytes⟨N⟩, fill_bytes, fill_slice, u32, u64} returns the successive bytes of the
    ChaCha<R> keystream of (seed, nonce 0) — buffers as they are, integers big-endian — whatever the
    destination buffers held before (`specOuts` does not look at the prior contents) -/
theorem drg_requests (S : EngineSim E α) (R : Nat) (seed : Bytes) (hs : seed.length = 32)
    (hR : Spec.ChaCha.validRounds R) (reqs : List Req) :
    ∃ c0 c', Drg.new E R seed = .ok c0 ∧
      Drg.run E R false c0 reqs = .ok (c', specOuts (Spec.ChaCha.blockAt R seed (zeros 12)) 0 reqs) := by
  obtain ⟨s0, h1, h2, h3⟩ := chacha_new S R seed (zeros 12) (Or.inr hs) rfl hR
  have M := chacha_refines S R seed (zeros 12) rfl s0 h2
  obtain ⟨c', h4, _⟩ := run_spec M.gen reqs _ 0 h3
  exact ⟨_, c', by simp [Drg.new, hs, h1], h4⟩

/-- what the caller sees = the successive keystream chunks, decoded by request kind -/
theorem drg_outputs_are_chunks (KS : Nat → Bytes) (reqs : List Req) (pos : Nat) :
    specOuts KS pos reqs = List.zipWith decode reqs (Cx.Proofs.Drg.chunks KS pos reqs) := specOuts_eq KS reqs pos

/-- independence of request sizing: the byte chunks handed out concatenate to ONE keystream segment, so two
    request sequences of the same total length draw the same bytes -/
theorem drg_sizing (KS : Nat → Bytes) (pos : Nat) (reqs reqs' : List Req) (h : total reqs = total reqs') :
    (Cx.Proofs.Drg.chunks KS pos reqs).flatten = (Cx.Proofs.Drg.chunks KS pos reqs').flatten ∧
    (Cx.Proofs.Drg.chunks KS pos reqs).flatten = keystream KS pos (total reqs) := by
  refine ⟨?_, chunks_flatten KS reqs pos⟩
  rw [chunks_flatten, chunks_flatten, h]

/-- independence of prior buffer contents (repaired `fill_*`): two buffers of the same length get the same bytes -/
theorem drg_fill_independent (S : EngineSim E α) (R : Nat) (seed : Bytes) (hs : seed.length = 32)
    (hR : Spec.ChaCha.validRounds R) (pre : List Req) (p1 p2 : Bytes) (hl : p1.length = p2.length) :
    ∃ c0 c1 c2 o, Drg.new E R seed = .ok c0 ∧
      Drg.run E R false c0 (pre ++ [.fillBytes p1]) = .ok (c1, o) ∧
      Drg.run E R false c0 (pre ++ [.fillBytes p2]) = .ok (c2, o) := by
  obtain ⟨c0, c1, h0, h1⟩ := drg_requests S R seed hs hR (pre ++ [.fillBytes p1])
  obtain ⟨c0', c2, h0', h2⟩ := drg_requests S R seed hs hR (pre ++ [.fillBytes p2])
  rw [h0] at h0'; cases h0'
  refine ⟨c0, c1, c2, _, h0, h1, ?_⟩
  rw [h2]
  congr 2
  have gen : ∀ (pre : List Req) (p : Nat),
      specOuts (Spec.ChaCha.blockAt R seed (zeros 12)) p (pre ++ [.fillBytes p2]) =
      specOuts (Spec.ChaCha.blockAt R seed (zeros 12)) p (pre ++ [.fillBytes p1]) := by
    intro pre
    induction pre with
    | nil => intro p; simp [specOuts, reqLen, decode, hl]
    | cons r rs ih => intro p; simp [specOuts, ih]
  exact gen pre 0

/-- WITNESS of defect (b) on the pre-repair `fill_bytes` (kept as documentation; /repo 1b3253e repaired it):
    on a fresh generator, for every seed, a buffer holding ff and a buffer holding 00 received DIFFERENT bytes -/
theorem drg_fillOld_depends_on_prior (S : EngineSim E α) (R : Nat) (seed : Bytes) (hs : seed.length = 32)
    (hR : Spec.ChaCha.validRounds R) :
    ∃ c0 c1 c2 o1 o2, Drg.new E R seed = .ok c0 ∧ Drg.fill_bytesOld E R c0 [0xff] = .ok (c1, o1) ∧
      Drg.fill_bytesOld E R c0 [0x00] = .ok (c2, o2) ∧ o1 ≠ o2 := by
  obtain ⟨s0, h1, h2, h3⟩ := chacha_new S R seed (zeros 12) (Or.inr hs) rfl hR
  have M := chacha_refines S R seed (zeros 12) rfl s0 h2
  obtain ⟨c1, e1⟩ := fillOld_spec M.gen _ 0 h3 [0xff]
  obtain ⟨c2, e2⟩ := fillOld_spec M.gen _ 0 h3 [0x00]
  refine ⟨_, c1, c2, _, _, by simp [Drg.new, hs, h1], e1, e2, ?_⟩
  intro heq
  have := congrArg (encrypt (Spec.ChaCha.blockAt R seed (zeros 12)) 0) heq
  rw [encrypt_invol, encrypt_invol] at this
  exact absurd this (by decide)

end Cx.Props.C04
