/-
  Props.C18 — constant-time predicates and selectors return the ordinary answer.
  Only property theorems live here; helpers are in Proofs.ConstantTime.
  Every statement is for ALL operands (no bound on array lengths).
-/
import CxVerif.Proofs.ConstantTime
namespace Cx.Props.C18
open Cx.Impl.CT Cx.Proofs.CT
set_option linter.unusedSimpArgs false

/-! ## integers -/

theorem u64_ct_zero_spec (x : UInt64) : u64_ct_zero x = ⟨if x = 0 then 1 else 0⟩ := by
  unfold u64_ct_zero; rw [nz_val]; by_cases h : x = 0 <;> simp [h]

theorem u64_ct_nonzero_spec (x : UInt64) : u64_ct_nonzero x = ⟨if x = 0 then 0 else 1⟩ := by
  unfold u64_ct_nonzero; rw [nz_val]

theorem u64_ct_eq_spec (a b : UInt64) : u64_ct_eq a b = ⟨if a = b then 1 else 0⟩ := by
  unfold u64_ct_eq; rw [u64_ct_zero_spec]; simp [UInt64.xor_eq_zero_iff]

theorem u64_ct_ne_spec (a b : UInt64) : u64_ct_ne a b = ⟨if a = b then 0 else 1⟩ := by
  unfold u64_ct_ne; rw [u64_ct_nonzero_spec]; simp [UInt64.xor_eq_zero_iff]

theorem u8_ct_zero_spec (x : UInt8) : u8_ct_zero x = ⟨if x = 0 then 1 else 0⟩ := by
  unfold u8_ct_zero; rw [u64_ct_zero_spec]
  have : x.toUInt64 = 0 ↔ x = 0 := by
    rw [show (0 : UInt64) = (0 : UInt8).toUInt64 from rfl]; exact UInt8.toUInt64_inj
  simp [this]

theorem u8_ct_nonzero_spec (x : UInt8) : u8_ct_nonzero x = ⟨if x = 0 then 0 else 1⟩ := by
  unfold u8_ct_nonzero; rw [u64_ct_nonzero_spec]
  have : x.toUInt64 = 0 ↔ x = 0 := by
    rw [show (0 : UInt64) = (0 : UInt8).toUInt64 from rfl]; exact UInt8.toUInt64_inj
  simp [this]

theorem u8_ct_eq_spec (a b : UInt8) : u8_ct_eq a b = ⟨if a = b then 1 else 0⟩ := by
  unfold u8_ct_eq; rw [u64_ct_eq_spec]; simp [UInt8.toUInt64_inj]

theorem u8_ct_ne_spec (a b : UInt8) : u8_ct_ne a b = ⟨if a = b then 0 else 1⟩ := by
  unfold u8_ct_ne; rw [u64_ct_ne_spec]; simp [UInt8.toUInt64_inj]

theorem u64_ct_lt_spec (a b : UInt64) : u64_ct_lt a b = ⟨if a < b then 1 else 0⟩ := by
  unfold u64_ct_lt; rw [lt_val]

theorem u64_ct_gt_spec (a b : UInt64) : u64_ct_gt a b = ⟨if a > b then 1 else 0⟩ := by
  unfold u64_ct_gt; rw [u64_ct_lt_spec]

/-- `ct_le` (negated strict comparison, as in the repaired source) is `≤` -/
theorem u64_ct_le_spec (a b : UInt64) : u64_ct_le a b = ⟨if a ≤ b then 1 else 0⟩ := by
  unfold u64_ct_le; rw [u64_ct_gt_spec]
  by_cases h : a ≤ b
  · have : ¬ a > b := UInt64.not_lt.mpr h
    simp [h, this, Choice.negate]
  · have : a > b := UInt64.not_le.mp h
    simp [h, this, Choice.negate]

theorem u64_ct_ge_spec (a b : UInt64) : u64_ct_ge a b = ⟨if a ≥ b then 1 else 0⟩ := by
  unfold u64_ct_ge; rw [u64_ct_lt_spec]
  by_cases h : a ≥ b
  · have : ¬ a < b := UInt64.not_lt.mpr h
    simp [h, this, Choice.negate]
  · have : a < b := UInt64.not_le.mp h
    simp [h, this, Choice.negate]

/-- Witness of defect (j): the trait defaults as originally written (`ct_le(a,b) = ct_gt(b,a)`,
    `ct_ge(a,b) = ct_lt(b,a)`) answer `false` on equal operands. -/
theorem u64_ct_le_swapped_wrong : (u64_ct_le_swapped 5 5).isTrue = false ∧ (5 : UInt64) ≤ 5 := by
  decide
theorem u64_ct_ge_swapped_wrong : (u64_ct_ge_swapped 5 5).isTrue = false ∧ (5 : UInt64) ≥ 5 := by
  decide

/-! ## the Choice algebra on {0,1}, and CtOption -/

def Choice.ofBool (b : Bool) : Choice := ⟨if b then 1 else 0⟩

theorem choice_isTrue_ofBool (b : Bool) : (Choice.ofBool b).isTrue = b := by cases b <;> decide
theorem choice_isFalse_ofBool (b : Bool) : (Choice.ofBool b).isFalse = !b := by cases b <;> decide
theorem choice_negate (b : Bool) : (Choice.ofBool b).negate = Choice.ofBool (!b) := by
  cases b <;> decide
theorem choice_and (a b : Bool) : (Choice.ofBool a).and (Choice.ofBool b) = Choice.ofBool (a && b) := by
  cases a <;> cases b <;> decide
theorem choice_or (a b : Bool) : (Choice.ofBool a).or (Choice.ofBool b) = Choice.ofBool (a || b) := by
  cases a <;> cases b <;> decide
theorem choice_xor (a b : Bool) : (Choice.ofBool a).xor (Choice.ofBool b) = Choice.ofBool (a ^^ b) := by
  cases a <;> cases b <;> decide
theorem ctOption_spec {α} (b : Bool) (t : α) :
    ctOptionInto (Choice.ofBool b) t = if b then some t else none := by
  cases b <;> simp [ctOptionInto, Choice.ofBool, Choice.isTrue]

/-! ## arrays and slices, every length -/

theorem foldl_or_eq_zero {α} (f : α → UInt64) (l : List α) (init : UInt64) :
    l.foldl (fun acc p => acc ||| f p) init = 0 ↔ init = 0 ∧ ∀ p ∈ l, f p = 0 := by
  induction l generalizing init with
  | nil => simp
  | cons x xs ih =>
    simp only [List.foldl_cons, ih, UInt64.or_eq_zero_iff, List.mem_cons, forall_eq_or_imp]
    constructor
    · rintro ⟨⟨a, b⟩, c⟩; exact ⟨a, b, c⟩
    · rintro ⟨a, b, c⟩; exact ⟨⟨a, b⟩, c⟩

theorem accBytes_eq_zero (l : List UInt8) : accBytes l = 0 ↔ ∀ b ∈ l, b = 0 := by
  unfold accBytes
  rw [foldl_or_eq_zero (fun b : UInt8 => b.toUInt64)]
  have : ∀ x : UInt8, x.toUInt64 = 0 ↔ x = 0 := fun x => by
    rw [show (0 : UInt64) = (0 : UInt8).toUInt64 from rfl]; exact UInt8.toUInt64_inj
  simp [this]

theorem bytes_ct_zero_spec (l : List UInt8) :
    (bytes_ct_zero l).isTrue = decide (∀ b ∈ l, b = 0) := by
  unfold bytes_ct_zero; rw [u64_ct_zero_spec]
  by_cases h : accBytes l = 0
  · have := (accBytes_eq_zero l).mp h; simp [h, Choice.isTrue]; exact this
  · have : ¬ ∀ b ∈ l, b = 0 := fun x => h ((accBytes_eq_zero l).mpr x)
    simp only [h, if_false, Choice.isTrue, this, decide_false]; decide

theorem bytes_ct_nonzero_spec (l : List UInt8) :
    (bytes_ct_nonzero l).isTrue = decide (∃ b ∈ l, b ≠ 0) := by
  unfold bytes_ct_nonzero; rw [u64_ct_nonzero_spec]
  by_cases h : accBytes l = 0
  · have := (accBytes_eq_zero l).mp h
    have n : ¬ ∃ b ∈ l, b ≠ 0 := by rintro ⟨b, hb, hn⟩; exact hn (this b hb)
    simp only [h, if_true, Choice.isTrue, n, decide_false]; decide
  · have : ¬ ∀ b ∈ l, b = 0 := fun x => h ((accBytes_eq_zero l).mpr x)
    have n : ∃ b ∈ l, b ≠ 0 := by
      apply Classical.byContradiction; intro hn; apply this; intro b hb
      apply Classical.byContradiction; intro hb0; exact hn ⟨b, hb, hb0⟩
    simp only [h, if_false, Choice.isTrue, n, decide_true]; decide

theorem words_ct_zero_spec (l : List UInt64) :
    (words_ct_zero l).isTrue = decide (∀ b ∈ l, b = 0) := by
  unfold words_ct_zero accWords; rw [u64_ct_zero_spec]
  have e := foldl_or_eq_zero (fun b : UInt64 => b) l 0
  by_cases h : l.foldl (fun acc b => acc ||| b) 0 = 0
  · have := (e.mp h).2; simp [h, Choice.isTrue]; exact this
  · have : ¬ ∀ b ∈ l, b = 0 := fun x => h (e.mpr ⟨rfl, x⟩)
    simp only [h, if_false, Choice.isTrue, this, decide_false]; decide

theorem zip_all_eq {α} (a b : List α) (hl : a.length = b.length) :
    (∀ p ∈ a.zip b, p.1 = p.2) ↔ a = b := by
  induction a generalizing b with
  | nil => cases b <;> simp_all
  | cons x xs ih =>
    cases b with
    | nil => simp at hl
    | cons y ys =>
      simp only [List.length_cons, Nat.add_right_cancel_iff] at hl
      have := ih ys hl
      simp only [Prod.forall] at this
      simp [this]

theorem accXorBytes_eq_zero (a b : List UInt8) (hl : a.length = b.length) :
    accXorBytes a b = 0 ↔ a = b := by
  unfold accXorBytes
  rw [foldl_or_eq_zero (fun p : UInt8 × UInt8 => p.1.toUInt64 ^^^ p.2.toUInt64)]
  simp only [true_and, UInt64.xor_eq_zero_iff, UInt8.toUInt64_inj]
  exact zip_all_eq a b hl

theorem accXorWords_eq_zero (a b : List UInt64) (hl : a.length = b.length) :
    accXorWords a b = 0 ↔ a = b := by
  unfold accXorWords
  rw [foldl_or_eq_zero (fun p : UInt64 × UInt64 => p.1 ^^^ p.2)]
  simp only [true_and, UInt64.xor_eq_zero_iff]
  exact zip_all_eq a b hl

theorem array_u8_ct_eq_val (a b : List UInt8) (hl : a.length = b.length) :
    array_u8_ct_eq a b = Choice.ofBool (decide (a = b)) := by
  unfold array_u8_ct_eq; rw [u64_ct_zero_spec]
  by_cases h : a = b
  · subst h
    have z := (accXorBytes_eq_zero a a rfl).mpr rfl
    simp [z, Choice.ofBool]
  · have : accXorBytes a b ≠ 0 := fun x => h ((accXorBytes_eq_zero a b hl).mp x)
    simp [this, h, Choice.ofBool]

theorem array_u64_ct_eq_val (a b : List UInt64) (hl : a.length = b.length) :
    array_u64_ct_eq a b = Choice.ofBool (decide (a = b)) := by
  unfold array_u64_ct_eq; rw [u64_ct_zero_spec]
  by_cases h : a = b
  · subst h
    have z := (accXorWords_eq_zero a a rfl).mpr rfl
    simp [z, Choice.ofBool]
  · have : accXorWords a b ≠ 0 := fun x => h ((accXorWords_eq_zero a b hl).mp x)
    simp [this, h, Choice.ofBool]

/-- `[u8; N]` equality: true exactly when all bytes match, for every N -/
theorem array_u8_ct_eq_spec (a b : List UInt8) (hl : a.length = b.length) :
    (array_u8_ct_eq a b).isTrue = decide (a = b) := by
  rw [array_u8_ct_eq_val a b hl, choice_isTrue_ofBool]

theorem array_u8_ct_ne_spec (a b : List UInt8) (hl : a.length = b.length) :
    (array_u8_ct_ne a b).isTrue = decide (a ≠ b) := by
  unfold array_u8_ct_ne
  rw [array_u8_ct_eq_val a b hl, choice_negate, choice_isTrue_ofBool]; simp

theorem array_u64_ct_eq_spec (a b : List UInt64) (hl : a.length = b.length) :
    (array_u64_ct_eq a b).isTrue = decide (a = b) := by
  rw [array_u64_ct_eq_val a b hl, choice_isTrue_ofBool]

theorem array_u64_ct_ne_spec (a b : List UInt64) (hl : a.length = b.length) :
    (array_u64_ct_ne a b).isTrue = decide (a ≠ b) := by
  unfold array_u64_ct_ne
  rw [array_u64_ct_eq_val a b hl, choice_negate, choice_isTrue_ofBool]; simp

/-- slices: refused (assert) when lengths differ, otherwise plain equality -/
theorem slice_u8_ct_eq_spec (a b : List UInt8) :
    slice_u8_ct_eq a b = if a.length = b.length then some (Choice.ofBool (decide (a = b))) else none := by
  unfold slice_u8_ct_eq
  by_cases hl : a.length = b.length
  · simp only [hl, if_true]; rw [array_u8_ct_eq_val a b hl]
  · simp [hl]

theorem slice_u64_ct_eq_spec (a b : List UInt64) :
    slice_u64_ct_eq a b = if a.length = b.length then some (Choice.ofBool (decide (a = b))) else none := by
  unfold slice_u64_ct_eq
  by_cases hl : a.length = b.length
  · simp only [hl, if_true]; rw [array_u64_ct_eq_val a b hl]
  · simp [hl]

/-- `MacResult ==` / `Tag ==`: true exactly when lengths and all bytes match -/
theorem macResultEq_spec (a b : List UInt8) : macResultEq a b = decide (a = b) := by
  unfold macResultEq
  by_cases hl : a.length = b.length
  · simp only [hl, if_true]; exact array_u8_ct_eq_spec a b hl
  · have : a ≠ b := fun h => hl (by rw [h])
    simp [hl, this]

/-! ## big-endian `<` on byte arrays -/

/-- the `i16`/`i8` intermediates of one borrow step stay in range (no wrap is lost by
    modelling them in `Int`) -/
theorem borrowStep_i16_range (bo x y : UInt8) (hb : bo.toNat ≤ 1) :
    -32768 ≤ borrowX1 bo x y ∧ borrowX1 bo x y ≤ 32767 ∧
    -128 ≤ borrowX1 bo x y / 256 ∧ borrowX1 bo x y / 256 ≤ 127 := by
  have hx := x.toNat_lt; have hy := y.toNat_lt
  unfold borrowX1; omega

theorem borrowStep_spec (bo x y : UInt8) (hb : bo.toNat ≤ 1) :
    (borrowStep bo x y).toNat = if x.toNat < y.toNat + bo.toNat then 1 else 0 := by
  have hx := x.toNat_lt; have hy := y.toNat_lt
  unfold borrowStep borrowX1
  simp only [UInt8.toNat_ofNat']
  split <;> omega

/-- little-endian borrow chain = comparison of little-endian values -/
theorem borrow_chain (l : List (UInt8 × UInt8)) (bo : UInt8) (hb : bo.toNat ≤ 1) :
    let r := l.foldl (fun bo p => borrowStep bo p.1 p.2) bo
    r.toNat ≤ 1 ∧
    (r.toNat = 1 ↔ Cx.leNat (l.map (·.1)) < Cx.leNat (l.map (·.2)) + bo.toNat) := by
  induction l generalizing bo with
  | nil => simp [Cx.leNat]; omega
  | cons p ps ih =>
    have hs := borrowStep_spec bo p.1 p.2 hb
    have hb' : (borrowStep bo p.1 p.2).toNat ≤ 1 := by rw [hs]; split <;> omega
    have := ih (borrowStep bo p.1 p.2) hb'
    simp only [List.foldl_cons, List.map_cons, Cx.leNat]
    refine ⟨this.1, ?_⟩
    rw [this.2, hs]
    have h1 := p.1.toNat_lt; have h2 := p.2.toNat_lt
    split <;> omega

theorem leNat_reverse (l : List UInt8) : Cx.leNat l.reverse = Cx.beNat l := by
  unfold Cx.beNat
  suffices ∀ (l : List UInt8) acc, Cx.leNat l.reverse + acc * 256 ^ l.length =
      l.foldl (fun acc b => acc * 256 + b.toNat) acc by simpa using this l 0
  intro l
  induction l with
  | nil => simp [Cx.leNat]
  | cons x xs ih =>
    intro acc
    simp only [List.reverse_cons, List.foldl_cons, List.length_cons]
    rw [← ih]
    have : ∀ (a : List UInt8) (b : UInt8), Cx.leNat (a ++ [b]) = Cx.leNat a + b.toNat * 256 ^ a.length := by
      intro a b; induction a with
      | nil => simp [Cx.leNat]
      | cons y ys ih2 =>
        simp only [List.cons_append, Cx.leNat, ih2, List.length_cons, Nat.pow_succ]
        generalize 256 ^ ys.length = q
        rw [Nat.mul_add, ← Nat.mul_assoc b.toNat q 256, Nat.mul_comm (b.toNat * q) 256]; omega
    rw [this, List.length_reverse]
    simp only [Nat.pow_succ, Nat.add_mul]
    generalize 256 ^ xs.length = q
    rw [← Nat.mul_assoc acc q 256, Nat.mul_comm (acc * q) 256, Nat.mul_assoc acc 256 q,
      Nat.mul_comm acc (256 * q), Nat.mul_assoc 256 q acc, Nat.mul_comm q acc]; omega

/-- `<&[u8; N]>::ct_lt(a, b)` is `<` on the big-endian values, for every N -/
theorem array_u8_ct_lt_spec (a b : List UInt8) (hl : a.length = b.length) :
    array_u8_ct_lt a b = Choice.ofBool (decide (Cx.beNat a < Cx.beNat b)) := by
  unfold array_u8_ct_lt
  have hc := borrow_chain (a.reverse.zip b.reverse) 0 (by decide)
  simp only at hc
  have hl' : a.reverse.length = b.reverse.length := by simp [hl]
  have m1 : (a.reverse.zip b.reverse).map (·.1) = a.reverse := by
    rw [← List.unzip_fst]; simp [List.unzip_zip hl']
  have m2 : (a.reverse.zip b.reverse).map (·.2) = b.reverse := by
    rw [← List.unzip_snd]; simp [List.unzip_zip hl']
  rw [m1, m2, leNat_reverse, leNat_reverse] at hc
  generalize (a.reverse.zip b.reverse).foldl (fun bo p => borrowStep bo p.1 p.2) 0 = r at hc
  simp only [show ((0 : UInt8).toNat) = 0 from rfl, Nat.add_zero] at hc
  show (⟨(r.toUInt64 ||| wneg r.toUInt64) >>> 63⟩ : Choice) = _
  rw [nz_val]
  have rz : r.toUInt64 = 0 ↔ r = 0 := by
    rw [show (0 : UInt64) = (0 : UInt8).toUInt64 from rfl]; exact UInt8.toUInt64_inj
  by_cases h : Cx.beNat a < Cx.beNat b
  · have : r.toNat = 1 := hc.2.mpr h
    have rn : ¬ r = 0 := by intro h0; subst h0; simp at this
    simp [h, rz, rn, Choice.ofBool]
  · have : r.toNat ≠ 1 := fun x => h (hc.2.mp x)
    have : r.toNat = 0 := by omega
    have r0 : r = 0 := UInt8.toNat_inj.mp (by simpa using this)
    simp [h, rz, r0, Choice.ofBool]

/-! ## conditional swap / assign of limb arrays -/

theorem mask_true : maskOf ⟨1⟩ = 0xFFFFFFFFFFFFFFFF := by decide
theorem mask_false : maskOf ⟨0⟩ = 0 := by decide

theorem xor_sel_true (x y : UInt64) : x ^^^ ((x ^^^ y) &&& 0xFFFFFFFFFFFFFFFF) = y := by
  rw [show (0xFFFFFFFFFFFFFFFF : UInt64) = -1 from by decide, UInt64.and_neg_one,
    ← UInt64.xor_assoc, UInt64.xor_self, UInt64.zero_xor]
theorem xor_sel_false (x y : UInt64) : x ^^^ ((x ^^^ y) &&& 0) = x := by simp

theorem zipWith_self_left {α} (f : α → α → α) (a b : List α) (hl : a.length = b.length)
    (h : ∀ x y, f x y = x) : List.zipWith f a b = a := by
  induction a generalizing b with
  | nil => simp
  | cons x xs ih => cases b with
    | nil => simp at hl
    | cons y ys => simp [h, ih ys (by simpa using hl)]
theorem zipWith_self_right {α} (f : α → α → α) (a b : List α) (hl : a.length = b.length)
    (h : ∀ x y, f x y = y) : List.zipWith f a b = b := by
  induction a generalizing b with
  | nil => cases b <;> simp_all
  | cons x xs ih => cases b with
    | nil => simp at hl
    | cons y ys => simp [h, ih ys (by simpa using hl)]

theorem zipWith_zipWith_left {α} (f g : α → α → α) (a b : List α) :
    List.zipWith f a (List.zipWith g a b) = List.zipWith (fun x y => f x (g x y)) a b := by
  induction a generalizing b with
  | nil => simp
  | cons x xs ih => cases b with
    | nil => simp
    | cons y ys => simp [ih]
theorem zipWith_zipWith_right {α} (f g : α → α → α) (a b : List α) :
    List.zipWith f b (List.zipWith g a b) = List.zipWith (fun x y => f y (g x y)) a b := by
  induction a generalizing b with
  | nil => simp
  | cons x xs ih => cases b with
    | nil => simp
    | cons y ys => simp [ih]

/-- masked swap of `[u64; N]`: exchanges the arrays iff the choice is true -/
theorem ct_array64_maybe_swap_spec (a b : List UInt64) (hl : a.length = b.length) (c : Bool) :
    ct_array64_maybe_swap_with a b (Choice.ofBool c) = if c then (b, a) else (a, b) := by
  unfold ct_array64_maybe_swap_with
  simp only [zipWith_zipWith_left, zipWith_zipWith_right]
  cases c
  · simp only [Choice.ofBool, mask_false, Bool.false_eq_true, if_false]
    rw [zipWith_self_left _ a b hl (fun x y => by simp),
        zipWith_self_right _ a b hl (fun x y => by simp)]
  · simp only [Choice.ofBool, mask_true, if_true]
    rw [zipWith_self_right _ a b hl (fun x y => xor_sel_true x y),
        zipWith_self_left _ a b hl (fun x y => by
          rw [UInt64.xor_comm x y]; exact xor_sel_true y x)]

theorem ct_array64_maybe_set_spec (a b : List UInt64) (hl : a.length = b.length) (c : Bool) :
    ct_array64_maybe_set a b (Choice.ofBool c) = if c then b else a := by
  unfold ct_array64_maybe_set
  simp only [zipWith_zipWith_left]
  cases c
  · simp only [Choice.ofBool, mask_false, Bool.false_eq_true, if_false]
    rw [zipWith_self_left _ a b hl (fun x y => by simp)]
  · simp only [Choice.ofBool, mask_true, if_true]
    rw [zipWith_self_right _ a b hl (fun x y => xor_sel_true x y)]

theorem mask32_true : maskOf32 ⟨1⟩ = 0xFFFFFFFF := by decide
theorem mask32_false : maskOf32 ⟨0⟩ = 0 := by decide
theorem xor_sel32_true (x y : UInt32) : x ^^^ ((x ^^^ y) &&& 0xFFFFFFFF) = y := by
  rw [show (0xFFFFFFFF : UInt32) = -1 from by decide, UInt32.and_neg_one,
    ← UInt32.xor_assoc, UInt32.xor_self, UInt32.zero_xor]

theorem ct_array32_maybe_swap_spec (a b : List UInt32) (hl : a.length = b.length) (c : Bool) :
    ct_array32_maybe_swap_with a b (Choice.ofBool c) = if c then (b, a) else (a, b) := by
  unfold ct_array32_maybe_swap_with
  simp only [zipWith_zipWith_left, zipWith_zipWith_right]
  cases c
  · simp only [Choice.ofBool, mask32_false, Bool.false_eq_true, if_false]
    rw [zipWith_self_left _ a b hl (fun x y => by simp),
        zipWith_self_right _ a b hl (fun x y => by simp)]
  · simp only [Choice.ofBool, mask32_true, if_true]
    rw [zipWith_self_right _ a b hl (fun x y => xor_sel32_true x y),
        zipWith_self_left _ a b hl (fun x y => by
          rw [UInt32.xor_comm x y]; exact xor_sel32_true y x)]

theorem ct_array32_maybe_set_spec (a b : List UInt32) (hl : a.length = b.length) (c : Bool) :
    ct_array32_maybe_set a b (Choice.ofBool c) = if c then b else a := by
  unfold ct_array32_maybe_set
  simp only [zipWith_zipWith_left]
  cases c
  · simp only [Choice.ofBool, mask32_false, Bool.false_eq_true, if_false]
    rw [zipWith_self_left _ a b hl (fun x y => by simp)]
  · simp only [Choice.ofBool, mask32_true, if_true]
    rw [zipWith_self_right _ a b hl (fun x y => xor_sel32_true x y)]

/-! ## non-vacuity: the hypotheses are met by concrete non-trivial operands -/
example : ([1, 2, 3] : List UInt8).length = ([1, 2, 4] : List UInt8).length := rfl
example : array_u8_ct_lt [0, 255, 3] [1, 0, 0] = ⟨1⟩ := by decide
example : (array_u8_ct_eq [1, 2, 3] [1, 2, 4]).isTrue = false := by decide
example : (1 : UInt8).toNat ≤ 1 := by decide

end Cx.Props.C18
