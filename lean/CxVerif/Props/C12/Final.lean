/-
  Props.C12.Final — the Diffie–Hellman symmetry clause of C12 with NO remaining hypothesis.
  Props/C12/Symmetry.lean proves `LadderComm` from the group law of the Montgomery curve (Mathlib's Weierstrass group on
  v² = u³ + 486662u² + u) under `[Fact (Nat.Prime p)]`; `Cx.Proofs.Prime25519` proves that 2^255 − 19 is prime.
-/
import CxVerif.Props.C12.Symmetry
import CxVerif.Proofs.Prime25519
namespace Cx.Props.C12
open Cx Cx.Spec

/-- the ladder commutes — formerly the explicit hypothesis of `exchange_symmetric_partial` -/
theorem ladder_commutes : LadderComm := ladderComm

/-- **C12 (both parties derive the same secret)**, Spec level, for ALL byte strings a, b (no length hypothesis):
    X25519(a, X25519(b, 9)) = X25519(b, X25519(a, 9)) -/
theorem x25519_symmetric_unconditional (a b : Bytes) :
    X25519.x25519 a (X25519.x25519Base b) = X25519.x25519 b (X25519.x25519Base a) :=
  x25519_symmetric a b

/-- **C12 (both parties derive the same secret)**, code-shaped model: the instantiated `exchange_symmetric_partial` -/
theorem exchange_symmetric_final (a b : Bytes) (ha : a.length = 32) (hb : b.length = 32) :
    ∃ pa pb ha' hb', Impl.X25519.curve25519_base a ha = some pa ∧ Impl.X25519.curve25519_base b hb = some pb ∧
      Impl.X25519.curve25519 a pb ha hb' = Impl.X25519.curve25519 b pa hb ha' :=
  exchange_symmetric a b ha hb

/-- the same through the wrapper API `base` / `dh` -/
theorem dh_symmetric_final (a b : Bytes) (ha : a.length = 32) (hb : b.length = 32) :
    ∃ pa pb ha' hb', Impl.X25519.base a ha = some pa ∧ Impl.X25519.base b hb = some pb ∧
      Impl.X25519.dh a pb ha hb' = Impl.X25519.dh b pa hb ha' :=
  dh_symmetric a b ha hb

end Cx.Props.C12
