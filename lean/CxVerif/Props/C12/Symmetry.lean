/-
  Props.C12.Symmetry — Diffie–Hellman symmetry of X25519, the last clause of C12, with the curve fact
  `LadderComm` of Props/C12/X25519.lean now PROVED (Proofs/Montgomery{Curve,XArith,Ladder}.lean):
  the RFC 7748 ladder computes x([k mod 2^255]·Q) for every point Q of Curve25519
  (v² = u³ + 486662u² + u over GF(2^255 − 19), Mathlib's Weierstrass group law), every degenerate case
  included (infinity, the 2-torsion point (0,0), P' = ±P), and scalar multiplication commutes.
  Only assumption: primality of p = 2^255 − 19, as an instance argument (`Fact (Nat.Prime p)`, delivered
  by Proofs/Prime25519.lean).  Only property theorems here.
-/
import CxVerif.Props.C12.X25519
import CxVerif.Proofs.MontgomeryLadder
namespace Cx.Props.C12
open Cx Cx.Spec Cx.Impl.X25519
open Cx.Spec.Field25519 (p)

/-- the curve fact that `exchange_symmetric_partial` assumed: `X(a, X(b, 9)) = X(b, X(a, 9))` for the RFC
    function — here for ALL byte strings (the length hypotheses of `LadderComm` are not even needed) -/
theorem ladderComm [Fact (Nat.Prime p)] : LadderComm :=
  fun a b _ _ => Cx.Proofs.Montgomery.x25519_comm a b

/-- the RFC 7748 function itself: `X25519(a, X25519(b, 9)) = X25519(b, X25519(a, 9))`, all `a`, `b` -/
theorem x25519_symmetric [Fact (Nat.Prime p)] (a b : Bytes) :
    X25519.x25519 a (X25519.x25519Base b) = X25519.x25519 b (X25519.x25519Base a) :=
  Cx.Proofs.Montgomery.x25519_comm a b

/-- **C12, key agreement.** For all 32-byte private keys `a`, `b`: the code computes both public keys
    (`curve25519_base`, no overflow), and `curve25519(a, pub_b) = curve25519(b, pub_a)` — both parties
    derive the same shared secret (in particular neither call overflows). -/
theorem exchange_symmetric [Fact (Nat.Prime p)] (a b : Bytes) (ha : a.length = 32) (hb : b.length = 32) :
    ∃ pa pb ha' hb', curve25519_base a ha = some pa ∧ curve25519_base b hb = some pb ∧
      curve25519 a pb ha hb' = curve25519 b pa hb ha' :=
  exchange_symmetric_partial ladderComm a b ha hb

/-- the same through the wrapper API of x25519.rs (`base`, `dh`) -/
theorem dh_symmetric [Fact (Nat.Prime p)] (a b : Bytes) (ha : a.length = 32) (hb : b.length = 32) :
    ∃ pa pb ha' hb', base a ha = some pa ∧ base b hb = some pb ∧
      dh a pb ha hb' = dh b pa hb ha' :=
  exchange_symmetric a b ha hb

/-- what the function computes (the reason for the symmetry): for every point `Q` of Curve25519 whose
    x-coordinate is the decoded `u` (`Q` may be the point at infinity or `(0,0)` for `u ≡ 0`), the output
    decodes to the x-coordinate of `[k]Q`, `k` the clamped scalar (`0` encodes the point at infinity) -/
theorem x25519_scalar_mult [Fact (Nat.Prime p)] (n u : Bytes) (Q : Cx.Proofs.Montgomery.Pt)
    (hQ : ((X25519.decodeUCoordinate u : Nat) : Cx.Proofs.EdField.Fp) = Cx.Proofs.Montgomery.xenc Q) :
    ((X25519.decodeUCoordinate (X25519.x25519 n u) : Nat) : Cx.Proofs.EdField.Fp)
      = Cx.Proofs.Montgomery.xenc ((X25519.decodeScalar25519 n % 2 ^ 255) • Q) := by
  unfold X25519.x25519
  rw [Cx.Proofs.Montgomery.decode_encode, Cx.Proofs.EdField.cast_mod]
  exact Cx.Proofs.Montgomery.ladder_eq Q _ _ hQ

/-! ## tests (labelled: evaluations, not theorems) -/

/-- RFC 7748 §6.1 (Alice `a`, Bob `b`, shared secret `K`), evaluated through the Spec in both orders -/
example :
    let a : Bytes := [0x77, 0x07, 0x6d, 0x0a, 0x73, 0x18, 0xa5, 0x7d, 0x3c, 0x16, 0xc1, 0x72, 0x51, 0xb2, 0x66, 0x45,
     0xdf, 0x4c, 0x2f, 0x87, 0xeb, 0xc0, 0x99, 0x2a, 0xb1, 0x77, 0xfb, 0xa5, 0x1d, 0xb9, 0x2c, 0x2a]
    let b : Bytes := [0x5d, 0xab, 0x08, 0x7e, 0x62, 0x4a, 0x8a, 0x4b, 0x79, 0xe1, 0x7f, 0x8b, 0x83, 0x80, 0x0e, 0xe6,
     0x6f, 0x3b, 0xb1, 0x29, 0x26, 0x18, 0xb6, 0xfd, 0x1c, 0x2f, 0x8b, 0x27, 0xff, 0x88, 0xe0, 0xeb]
    let K : Bytes := [0x4a, 0x5d, 0x9d, 0x5b, 0xa4, 0xce, 0x2d, 0xe1, 0x72, 0x8e, 0x3b, 0xf4, 0x80, 0x35, 0x0f, 0x25,
     0xe0, 0x7e, 0x21, 0xc9, 0x47, 0xd1, 0x9e, 0x33, 0x76, 0xf0, 0x9b, 0x3c, 0x1e, 0x16, 0x17, 0x42]
    X25519.x25519 a (X25519.x25519Base b) = K ∧ X25519.x25519 b (X25519.x25519Base a) = K := by
  decide +kernel

/-- non-vacuity of the hypotheses -/
example : (List.replicate 32 (0xff : UInt8)).length = 32 := by decide

end Cx.Props.C12
