/-
  Props.C12.X25519 — X25519 of /repo (64-bit backend) equals the RFC 7748 function, for EVERY 32-byte
  scalar and EVERY 32-byte u-coordinate (non-canonical, bit 255 set, zero, small order: no case split
  exists in code or proof).  Only property theorems; helpers in Proofs/X25519*.lean, Proofs/Fe64*.lean.

  Model: Impl.X25519 (code-shaped, checked u64/u128 arithmetic, `none` = overflow panic).
  Spec:  Spec.X25519 (RFC 7748 §5 on Nat mod p, a24 = 121665, cswap, x_2 · z_2^(p−2)).
-/
import CxVerif.Proofs.X25519Ladder
namespace Cx.Props.C12
open Cx Cx.Spec Cx.Impl.X25519 Cx.Proofs.Fe64 Cx.Proofs.X25519

/-! ## constants re-extracted from the source -/

/-- `mul_small::<121666>` in both ladders is `a24 + 1`, `mul_small::<9>` is the base point -/
theorem extracted_a24 : A24P1 = X25519.a24 + 1 ∧ A24P1_BASE = X25519.a24 + 1 ∧ NINE = 9 := by decide
/-- `const BASE` is the RFC's base point `u = 9` -/
theorem extracted_BASE : BASE = X25519.basePoint := by decide

/-! ## the Diffie-Hellman function -/

/-- **C12 main theorem.** For all 32-byte `n`, `p`: `curve25519(n, p)` does not overflow (`some`) and
    returns exactly `X25519(n, p)` of RFC 7748 (clamping, masking of bit 255 of `u`, reduction of
    non-canonical `u`, 255 ladder steps with conditional swaps, final swap, inversion, canonical encoding). -/
theorem curve25519_eq_x25519 (n u : Bytes) (hn : n.length = 32) (hu : u.length = 32) :
    curve25519 n u hn hu = some (X25519.x25519 n u) := by
  unfold curve25519
  simp only []
  have hz : Z5Ok (.mulX1 (Impl.Fe64.from_bytes u hu)) (eval (Impl.Fe64.from_bytes u hu)) :=
    ⟨from_bytes_tight u hu, rfl⟩
  rw [A24P1_eq, ladderMain_spec n hn _ (from_bytes_tight u hu) _ hz, from_bytes_eval]
  rfl

/-- the fixed-base function (its own copy of the ladder, `z5 = t2.mul_small::<9>()`) is X25519(n, 9) -/
theorem curve25519_base_eq_x25519 (n : Bytes) (hn : n.length = 32) :
    curve25519_base n hn = some (X25519.x25519Base n) := by
  unfold curve25519_base
  simp only []
  have h9 : eval (Impl.Fe64.from_bytes BASE BASE_length) = 9 := by
    rw [from_bytes_eval]; decide
  have hz : Z5Ok (.small 9) (eval (Impl.Fe64.from_bytes BASE BASE_length)) := ⟨by decide, h9⟩
  rw [A24P1_BASE_eq, NINE_eq, ladderMain_spec n hn _ (from_bytes_tight BASE BASE_length) _ hz, h9]
  unfold X25519.x25519Base X25519.x25519 X25519.decodeUCoordinate
  have : Field25519.decode X25519.basePoint = 9 := by decide
  rw [this]

/-- `curve25519_base(n) = curve25519(n, BASE)` -/
theorem curve25519_base_eq_curve25519 (n : Bytes) (hn : n.length = 32) :
    curve25519_base n hn = curve25519 n BASE hn BASE_length := by
  rw [curve25519_base_eq_x25519, curve25519_eq_x25519, extracted_BASE]; rfl

/-- the wrapper API of x25519.rs -/
theorem dh_eq_x25519 (n u : Bytes) (hn : n.length = 32) (hu : u.length = 32) :
    dh n u hn hu = some (X25519.x25519 n u) := curve25519_eq_x25519 n u hn hu
theorem base_eq_x25519 (n : Bytes) (hn : n.length = 32) :
    base n hn = some (X25519.x25519Base n) := curve25519_base_eq_x25519 n hn

/-- no `u64`/`u128` overflow anywhere in `curve25519` / `curve25519_base` (C20, overflow part):
    the checked model never answers `none` -/
theorem curve25519_no_overflow (n u : Bytes) (hn : n.length = 32) (hu : u.length = 32) :
    (curve25519 n u hn hu).isSome ∧ (curve25519_base n hn).isSome := by
  rw [curve25519_eq_x25519, curve25519_base_eq_x25519]; exact ⟨rfl, rfl⟩

/-- the result is always 32 bytes -/
theorem x25519_length (n u : Bytes) : (X25519.x25519 n u).length = 32 := natToLE_length 32 _
theorem x25519Base_length (n : Bytes) : (X25519.x25519Base n).length = 32 := natToLE_length 32 _

/-! ## both parties derive the same secret

  `X(a, X(b, 9)) = X(b, X(a, 9))` is a fact about the Montgomery curve (commutativity of scalar
  multiplication on x-coordinates), not about this code.  It is stated for the CODE as a corollary of
  the refinement under the explicit hypothesis that the RFC function has it; the hypothesis itself is
  sampled by the correspondence run (`x25519.sym`).  FULL STATEMENT (not proved here):
  `∀ a b, X25519.x25519 a (X25519.x25519Base b) = X25519.x25519 b (X25519.x25519Base a)`. -/

/-- the curve fact, as a hypothesis -/
def LadderComm : Prop :=
  ∀ a b : Bytes, a.length = 32 → b.length = 32 →
    X25519.x25519 a (X25519.x25519Base b) = X25519.x25519 b (X25519.x25519Base a)

theorem exchange_symmetric_partial (hC : LadderComm) (a b : Bytes) (ha : a.length = 32) (hb : b.length = 32) :
    ∃ pa pb ha' hb', curve25519_base a ha = some pa ∧ curve25519_base b hb = some pb ∧
      curve25519 a pb ha hb' = curve25519 b pa hb ha' := by
  refine ⟨X25519.x25519Base a, X25519.x25519Base b, x25519Base_length _, x25519Base_length _,
    curve25519_base_eq_x25519 a ha, curve25519_base_eq_x25519 b hb, ?_⟩
  rw [curve25519_eq_x25519, curve25519_eq_x25519, hC a b ha hb]

/-! ## tests (labelled: evaluations, not theorems) -/

/-- RFC 7748 §5.2 first vector, evaluated through the Spec -/
example : X25519.x25519
    [0xa5, 0x46, 0xe3, 0x6b, 0xf0, 0x52, 0x7c, 0x9d, 0x3b, 0x16, 0x15, 0x4b, 0x82, 0x46, 0x5e, 0xdd,
     0x62, 0x14, 0x4c, 0x0a, 0xc1, 0xfc, 0x5a, 0x18, 0x50, 0x6a, 0x22, 0x44, 0xba, 0x44, 0x9a, 0xc4]
    [0xe6, 0xdb, 0x68, 0x67, 0x58, 0x30, 0x30, 0xdb, 0x35, 0x94, 0xc1, 0xa4, 0x24, 0xb1, 0x5f, 0x7c,
     0x72, 0x66, 0x24, 0xec, 0x26, 0xb3, 0x35, 0x3b, 0x10, 0xa9, 0x03, 0xa6, 0xd0, 0xab, 0x1c, 0x4c]
  = [0xc3, 0xda, 0x55, 0x37, 0x9d, 0xe9, 0xc6, 0x90, 0x8e, 0x94, 0xea, 0x4d, 0xf2, 0x8d, 0x08, 0x4f,
     0x32, 0xec, 0xcf, 0x03, 0x49, 0x1c, 0x71, 0xf7, 0x54, 0xb4, 0x07, 0x55, 0x77, 0xa2, 0x85, 0x52] := by
  decide +kernel

/-- non-vacuity of the hypotheses `n.length = 32`, `u.length = 32` -/
example : (List.replicate 32 (0xff : UInt8)).length = 32 := by decide

end Cx.Props.C12
