/-
  Props.C16 (ChaCha part, DESIGN C16(i)) — the SSE2-style row model (rows a,b,c,d of four 32-bit lanes; `round!`,
  `swizzle!` = lane rotations; counters through `Align128`) and the portable engine model agree on every state,
  every R, every key/nonce length and every counter operation.  `toRef` views the rows as the sixteen words.
  What is NOT a theorem here (partial, by nature): that the compiled binary really executes these lane
  operations — that is observed by the correspondence ops `stream.eng2` (Portable vs Native on identical inputs).
-/
import CxVerif.Proofs.StreamEngine
namespace Cx.Props.C16
open Cx Cx.Impl Cx.Impl.ChaCha Cx.Proofs.ChaCha
set_option linter.unusedSimpArgs false

/-- `(c << d) ^ (c >> (32 − d))` of `add_rotate_xor!` is `rotate_left(d)` of `QR!`, every word, every 0 < d < 32 -/
theorem chacha_sse2_rotation (x : UInt32) (d : Nat) (h0 : 0 < d) (h : d < 32) :
    Sse2.shl x d ^^^ Sse2.shr x (32 - d) = rotl32 x d := rot_xor_or x d h0 h

/-- `round!` on the rows = the four column quarter rounds -/
theorem chacha_sse2_round (s : Sse2.State) : toRef (Sse2.round s) = colR (toRef s) := round_eq s

/-- one loop iteration: round, swizzle(b,c,d), round, swizzle(d,c,b) = columns then diagonals of the portable code -/
theorem chacha_sse2_doubleRound (s : Sse2.State) :
    toRef (Sse2.doubleRound s) = Reference.doubleRound (toRef s) := sse2_doubleRound s

/-- **rounds agree for every state and every R** -/
theorem chacha_sse2_rounds (R : Nat) (s : Sse2.State) : toRef (Sse2.rounds R s) = Reference.rounds R (toRef s) :=
  sse2_rounds R s

/-- feed-forward, serialisation, HChaCha output, counters -/
theorem chacha_sse2_rest (s i : Sse2.State) (c : UInt32) (c64 : UInt64) :
    toRef (Sse2.add_back s i) = Reference.add_back (toRef s) (toRef i) ∧
    Sse2.output_bytes s = Reference.output_bytes (toRef s) ∧
    Sse2.output_ad_bytes s = Reference.output_ad_bytes (toRef s) ∧
    toRef (Sse2.set_counter s c) = Reference.set_counter (toRef s) c ∧
    toRef (Sse2.verif_set_counter64 s c64) = Reference.verif_set_counter64 (toRef s) c64 ∧
    toRef (Sse2.increment s) = Reference.increment (toRef s) ∧
    toRef (Sse2.increment64 s) = Reference.increment64 (toRef s) :=
  ⟨rfl, rfl, rfl, rfl, rfl, rfl, sse2_increment64 s⟩

/-- **the block and the HChaCha output agree** for every state and every R -/
theorem chacha_sse2_block (R : Nat) (s : Sse2.State) :
    sse2Engine.block R s = referenceEngine.block R (toRef s) ∧
    sse2Engine.hblock R s = referenceEngine.hblock R (toRef s) := by
  constructor
  · show Sse2.output_bytes (Sse2.add_back (Sse2.rounds R s) s) = _
    rw [sse2_output_bytes, sse2_add_back, sse2_rounds]; rfl
  · show Sse2.output_ad_bytes (Sse2.rounds R s) = _
    rw [sse2_output_ad_bytes, sse2_rounds]; rfl

/-- **`key16`/`key32`/`nonce` lane loading = portable `init`** (after the repair of defect a), every key length and
    every nonce length; both are the Spec layout -/
theorem chacha_sse2_init (key nonce : Bytes) (hk : Spec.ChaCha.validKey key) (hn : validNonce nonce) :
    (Sse2.init key nonce).map (fun s => toVec (toRef s)) = (Reference.init key nonce).map toVec ∧
    (Reference.init key nonce).map toVec = .ok (Spec.ChaCha.layoutState key nonce) :=
  ⟨sse2_init_eq_reference key nonce hk hn, reference_init key nonce hk hn⟩

example : Spec.ChaCha.validKey (List.replicate 16 (0x80 : UInt8)) ∧ validNonce (List.replicate 8 (3 : UInt8)) := by
  constructor <;> simp [Spec.ChaCha.validKey, validNonce]

/-- WITNESS of defect (a) as a C16 disagreement (pre-repair portable `init`, kept as documentation): for a
    16-byte key the SSE2 model and the old portable model differ, e.g. key 01…01, zero nonce -/
theorem chacha_sse2_vs_portableOld_key16 :
    (Sse2.init (List.replicate 16 1) (zeros 12)).map (fun s => (toRef s).x4) = .ok 0x01010101 ∧
    (Reference.initOld (List.replicate 16 1) (zeros 12)).map (fun w => w.x4) = .ok 0 := by
  constructor <;> rfl

/-- for 32-byte keys the old portable `init` already agreed -/
theorem chacha_sse2_vs_portableOld_key32 (key nonce : Bytes) (hk : key.length = 32) (hn : validNonce nonce) :
    (Sse2.init key nonce).map (fun s => toVec (toRef s)) = (Reference.initOld key nonce).map toVec := by
  rw [sse2_init key nonce (Or.inr hk) hn, referenceOld_init_32 key nonce hk hn]

end Cx.Props.C16
