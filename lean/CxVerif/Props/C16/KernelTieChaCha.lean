/-
  Props.C16.KernelTieChaCha — the translator tie for the SSE2 ChaCha engine (src/chacha/sse2.rs).
  `Extracted/KernelsChaChaSse2.lean` is regenerated from the CURRENT Rust source on every run by tools/ktx_misc.py
  (kernel specs tools/kernels/chacha_sse2.py): the macros `add_rotate_xor!`, `round!`, `swizzle!`, one iteration of
  the loop of `rounds`, `rounds`, the `Align128` counter functions and `add_back`, translated statement by statement
  into the lane-wise intrinsics of `Impl.ChaCha.Sse2`.  The theorems say that the hand-written row model (about which
  the C16 theorems `chacha_sse2_*` are proved) is exactly that sequence of vector operations, for ALL states: a changed
  rotation count, shuffle immediate, row order or counter lane in the source breaks a proof obligation.
  (What an `_mm_*` instruction does on the real machine stays an observation of C16's correspondence.)
-/
import CxVerif.Extracted.KernelsChaChaSse2
import CxVerif.Impl.ChaCha
namespace Cx.Props.C16.KernelTie
open Cx Cx.Impl Cx.Impl.ChaCha.Sse2 Cx.Extracted.KernelsChaChaSse2

theorem add_rotate_xor_src_eq_model (a b c : M128) (d : Nat) : add_rotate_xor_src a b c d = add_rotate_xor a b c d := rfl

/-- `round!` takes the four rows; the model takes the state -/
theorem round_src_eq_model (s : State) :
    round_src s.a s.b s.c s.d = ((round s).a, (round s).b, (round s).c, (round s).d) := rfl

theorem swizzle_src_eq_model (b c d : M128) : swizzle_src b c d = swizzle b c d := rfl
theorem doubleRound_src_eq_model (s : State) : doubleRound_src s = doubleRound s := rfl
theorem rounds_src_eq_model (R : Nat) (s : State) : rounds_src R s = rounds R s := by
  have h : doubleRound_src = doubleRound := funext doubleRound_src_eq_model
  unfold rounds_src rounds
  rw [h]
theorem set_counter_src_eq_model (s : State) (counter : UInt32) : set_counter_src s counter = set_counter s counter := rfl
theorem verif_set_counter64_src_eq_model (s : State) (counter : UInt64) :
    verif_set_counter64_src s counter = verif_set_counter64 s counter := rfl
theorem increment_src_eq_model (s : State) : increment_src s = increment s := rfl
/-- `overflowing_add(1)`: the translator writes the overflow flag as "the 33-bit sum reaches 2^32", the model as
    `lane0 = 0xFFFFFFFF` -/
theorem increment64_src_eq_model (s : State) : increment64_src s = increment64 s := by
  unfold increment64_src increment64
  have h : (decide (2 ^ 32 ≤ s.d.l0.toNat + (1 : UInt32).toNat) = true) ↔ s.d.l0 = 0xFFFFFFFF := by
    rw [decide_eq_true_iff, ← UInt32.toNat_inj]
    have := s.d.l0.toNat_lt
    show 2 ^ 32 ≤ s.d.l0.toNat + 1 ↔ s.d.l0.toNat = 4294967295
    omega
  by_cases h1 : s.d.l0 = 0xFFFFFFFF
  · rw [if_pos (h.mpr h1), if_pos h1]
  · rw [if_neg (fun hh => h1 (h.mp hh)), if_neg h1]
theorem add_back_src_eq_model (s initial : State) : add_back_src s initial = add_back s initial := rfl

end Cx.Props.C16.KernelTie
