/-
  Props.C16.GlueTieSimdSha — the translator tie for the VECTORISED SHA-256 block functions (family (b) of the SIMD glue):
  src/hashing/sha2/impl256/sse41.rs (generated namespace `Sha256Sse41`) and avx.rs (`Sha256Avx`).

  `Extracted/GlueSimd.lean` is regenerated from the CURRENT Rust source on every run by tools/ktx_glue_simd.py: `gather` (raw
  `ptr::read` through `*const i32`, `_mm_cvtsi32_si128`/`_mm_insert_epi32`, `_mm256_castsi128_si256`/`_mm256_insert_epi32`),
  `sigma0`/`sigma1`, the macros `SCHEDULE_ROUND!`/`SCHEDULE_ROUND_INC!`, `message_schedule_4ways/8ways` (sixteen gathers,
  `pshufb` byte swap, the `while i < 32` loop, the sixteen tail rounds with their `schedule[k] = …` stores), `compress_4ways/8ways`
  (the local macros `round!`, `compress_once!(j)` with `_mm_extract_epi32(*schedule.get_unchecked(i), j)`, the `while i != 64` loop),
  `digest_block` (the batch loop and the fall-through to the narrower engine) — all in the intrinsic definitions of
  Util/Intrinsics.lean.  The theorems prove every generated function equal to the hand lane model `Impl.SimdSha256` (an interpreter
  of the re-extracted macro tables, about which Props/C16/Sha256.lean proves "= portable reference for every input"), for ALL states
  and ALL inputs.  `toL4`/`toL8` view a generated `M128i`/`M256i` as the model's `Lanes 4`/`Lanes 8`.

  How the straight-line generated code meets the table interpreter: Proofs/GlueSimdSha.lean.  In short: the generated loop body /
  tail / loads ARE (`kernel_rfl`) the model's interpreter, written in continuation-passing style over the generated step functions,
  run on the extracted tables; a simulation lemma and the register-algebra-generic schedule theorem of Proofs/SimdSha256Sched.lean
  give `schedule[k] = W_k + K32[k]` lane-wise for ANY initial contents of the 64-entry array (the code re-uses it across batches).

  Failure: the generated functions return `Except String`: `"UB"` for a raw read outside the message (`gather` on fewer than 256 / 512
  bytes) or `get_unchecked` outside the array, `"PANIC"` for the checked `schedule[i]`, `K32[i]`, slice operations, `"DIVERGE"` for a
  loop outliving its fuel.  The theorems show that `digest_block` hits none of them except exactly the panic of
  `reference::digest_block` on a trailing partial block (`toOption` forgets the message).
-/
import CxVerif.Proofs.GlueSimdShaAvx
import CxVerif.Props.C16.Sha256
namespace Cx.Props.C16.GlueTieSimdSha
open Cx Cx.Intrinsics Cx.Impl Cx.Impl.Simd Cx.Impl.SimdSha256 Cx.Impl.Sha2 Cx.Spec.Sha2 Cx.Proofs.SimdSha256 Cx.Proofs.GlueSimdSha
open Cx.Extracted.GlueSimd Cx.Proofs.GlueSimdSha.Sse41I Cx.Proofs.GlueSimdSha.AvxI

/-! ## sse41.rs -/
namespace Sse41
open Sha256Sse41

/-- `const K32: [u32; 64] = reference::K32;` -/
theorem K32_src_eq_model : Sha256Sse41.K32 = Impl256.K32 := K32_sse41

/-- `gather(message.add(off))` inside the message: the four unaligned little-endian words at distance 64 bytes -/
theorem gather_src_eq (msg : Bytes) (off : Nat) (h : off + 196 ≤ msg.length) :
    gather_src msg off = .ok ⟨ld32 msg off, ld32 msg (off + 64), ld32 msg (off + 128), ld32 msg (off + 192)⟩ := gather_ok msg off h

/-- `sigma0` / `sigma1`: the five-shift xor trees = the model's trees over the intrinsic algebra, lane-wise = FIPS σ0 / σ1 -/
theorem sigma_src_eq_model (v : M128i) :
    sigma0 A4 Sse41.cfg v = some (sigma0_src v) ∧ sigma1 A4 Sse41.cfg v = some (sigma1_src v) ∧
    sigma0_src v = v.map smallSigma0_256 ∧ sigma1_src v = v.map smallSigma1_256 :=
  ⟨sigma0_sse41 v, sigma1_sse41 v, sigma0_lanes v, sigma1_lanes v⟩

/-- `SCHEDULE_ROUND!` / `SCHEDULE_ROUND_INC!` = one round of the model's interpreter (closed forms of the generated macro functions) -/
theorem SCHEDULE_ROUND_src_eq_model :
    StepOk A4 Sse41.cfg sigma0_src sigma1_src Sha256Sse41.K32 SCHEDULE_ROUND_INC_src SCHEDULE_ROUND_src := stepOk_sse41

/-- the generated `while i < 32` loop IS the model's interpreter over the extracted `SSE41_LOOP_BODY` (in CPS over the generated macro function) -/
theorem message_schedule_loop_src_eq (fuel : Nat) (st : St18 M128i) : message_schedule_4ways_loop1_src (fuel + 1) st
    = if (toSched st).i < Sse41.cfg.loopBound then
        bodyK SCHEDULE_ROUND_INC_src (toSched st) Sse41.cfg.loopBody (fun s => back s (message_schedule_4ways_loop1_src fuel))
      else .ok st := loopS_sse41 fuel st

/-- **`message_schedule_4ways`**: ANY 64-entry array, any message holding a batch: the model's schedule, no UB / panic -/
theorem message_schedule_4ways_src_eq_model (sched : List M128i) (msg : Bytes) (hs : sched.length = 64) (hm : 256 ≤ msg.length) :
    ∃ out, message_schedule_4ways_src sched msg = .ok out ∧ out.length = 64 ∧
      message_schedule Sse41.cfg msg = some (out.map toL4) := message_schedule_src_eq_model sched msg hs hm

example : (List.replicate 64 (_mm_set1_epi32 0)).length = 64 ∧ 256 ≤ (List.replicate 300 (7 : UInt8)).length :=
  ⟨List.length_replicate, by rw [List.length_replicate]; decide⟩

/-- **`compress_4ways`** on a 64-entry schedule = the model's `compress_nways` over the extracted lane list -/
theorem compress_4ways_src_eq_model (state : W8 UInt32) (sched : List M128i) (hl : sched.length = 64) :
    ∃ r, compress_nways (sched.map toL4) state Sse41.cfg.compressLanes = some r ∧ compress_4ways_src state sched = .ok r :=
  compress_src_spec state sched hl

/-- **`sse41::digest_block`** = the model, every state, every input (any length) -/
theorem digest_block_src_eq_model (state : W8 UInt32) (block : Bytes) :
    (digest_block_src state block).toOption = SimdSha256.Sse41.digest_block state block :=
  Sse41I.digest_block_src_eq_model state block

/-- capstone: the TRANSLATED `sse41::digest_block` is `reference::digest_block` on every input (Props/C16/Sha256.lean), in particular the
    fold of the FIPS compression over any number of whole blocks -/
theorem digest_block_src_eq_reference (state : W8 UInt32) (block : Bytes) :
    (digest_block_src state block).toOption = Impl256.digest_block state block := by
  rw [digest_block_src_eq_model]; exact (Cx.Props.C16.sha256_simd_drivers_eq_reference state block).1

theorem digest_block_src_eq_fold (state : W8 UInt32) (blocks : List Bytes) (h : ∀ b ∈ blocks, b.length = 64) :
    digest_block_src state blocks.flatten = .ok (blocks.foldl compress256 state) := by
  have := digest_block_src_eq_model state blocks.flatten
  rw [(Cx.Props.C16.sse41_digest_block_eq_fold state blocks h).2] at this
  cases hh : digest_block_src state blocks.flatten with
  | error e => rw [hh] at this; cases this
  | ok r => rw [hh] at this; cases this; rfl

end Sse41

/-! ## avx.rs -/
namespace Avx
open Sha256Avx

theorem K32_src_eq_model : Sha256Avx.K32 = Impl256.K32 := K32_avx

theorem gather_src_eq (msg : Bytes) (off : Nat) (h : off + 452 ≤ msg.length) :
    gather_src msg off = .ok ⟨⟨ld32 msg off, ld32 msg (off + 64), ld32 msg (off + 128), ld32 msg (off + 192)⟩,
      ⟨ld32 msg (off + 256), ld32 msg (off + 320), ld32 msg (off + 384), ld32 msg (off + 448)⟩⟩ := gather_ok8 msg off h

theorem sigma_src_eq_model (v : M256i) :
    sigma0 A8 Avx.cfg v = some (sigma0_src v) ∧ sigma1 A8 Avx.cfg v = some (sigma1_src v) ∧
    sigma0_src v = map256 smallSigma0_256 v ∧ sigma1_src v = map256 smallSigma1_256 v :=
  ⟨sigma0_avx v, sigma1_avx v, sigma0_lanes8 v, sigma1_lanes8 v⟩

theorem SCHEDULE_ROUND_src_eq_model :
    StepOk A8 Avx.cfg sigma0_src sigma1_src Sha256Avx.K32 SCHEDULE_ROUND_INC_src SCHEDULE_ROUND_src := stepOk_avx

theorem message_schedule_loop_src_eq (fuel : Nat) (st : St18 M256i) : message_schedule_8ways_loop1_src (fuel + 1) st
    = if (toSched st).i < Avx.cfg.loopBound then
        bodyK SCHEDULE_ROUND_INC_src (toSched st) Avx.cfg.loopBody (fun s => back s (message_schedule_8ways_loop1_src fuel))
      else .ok st := loopS_avx fuel st

/-- **`message_schedule_8ways`** -/
theorem message_schedule_8ways_src_eq_model (sched : List M256i) (msg : Bytes) (hs : sched.length = 64) (hm : 512 ≤ msg.length) :
    ∃ out, message_schedule_8ways_src sched msg = .ok out ∧ out.length = 64 ∧
      message_schedule Avx.cfg msg = some (out.map toL8) := message_schedule_src_eq_model8 sched msg hs hm

/-- **`compress_8ways`** -/
theorem compress_8ways_src_eq_model (state : W8 UInt32) (sched : List M256i) (hl : sched.length = 64) :
    ∃ r, compress_nways (sched.map toL8) state Avx.cfg.compressLanes = some r ∧ compress_8ways_src state sched = .ok r :=
  compress_src_spec8 state sched hl

/-- **`avx::digest_block`** (eight-way batches, then the TRANSLATED `sse41::digest_block` on the rest) = the model, every input -/
theorem digest_block_src_eq_model (state : W8 UInt32) (block : Bytes) :
    (digest_block_src state block).toOption = SimdSha256.Avx.digest_block state block :=
  digest_block_src_eq_model8 state block

theorem digest_block_src_eq_reference (state : W8 UInt32) (block : Bytes) :
    (digest_block_src state block).toOption = Impl256.digest_block state block := by
  rw [digest_block_src_eq_model]; exact (Cx.Props.C16.sha256_simd_drivers_eq_reference state block).2

theorem digest_block_src_eq_fold (state : W8 UInt32) (blocks : List Bytes) (h : ∀ b ∈ blocks, b.length = 64) :
    digest_block_src state blocks.flatten = .ok (blocks.foldl compress256 state) := by
  have := digest_block_src_eq_model state blocks.flatten
  rw [(Cx.Props.C16.avx_digest_block_eq_fold state blocks h).2] at this
  cases hh : digest_block_src state blocks.flatten with
  | error e => rw [hh] at this; cases this
  | ok r => rw [hh] at this; cases this; rfl

end Avx

end Cx.Props.C16.GlueTieSimdSha
