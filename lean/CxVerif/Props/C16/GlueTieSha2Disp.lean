/-
  Props.C16.GlueTieSha2Disp — the translator tie for the cfg DISPATCHERS that reach vectorised code (audit 3, finding F1).

  `Extracted/GlueSha2Disp.lean` is regenerated on every run by tools/ktx_glue.py (kernel specs tools/kernels/sha2_dispatch.py; the `#[cfg]`
  attributes are evaluated by the spec's `resolve_cfg` with one truth table per cfg set: x86_64 and {baseline, +sse4.1, +avx (⇒ sse4.1),
  +avx2 (⇒ avx)}) from the CURRENT text of
    src/hashing/sha2/impl256/mod.rs  `digest_block`: `if HAS_AVX { return avx::digest_block(..) }`, `if HAS_SSE41 { return sse41::… }`, else
                                     `reference::digest_block(..)`                       (cfg sets sse41, avx, avx2; baseline: GlueSha2Drv)
    src/hashing/blake2/mod.rs        `EngineB::compress` (avx2, then avx, else reference), `EngineS::compress` (avx, else reference), and the
                                     declarations of `EngineB` / `EngineS`                                      (all four cfg sets).
  The dispatch TARGETS are generated definitions as well: `avx::digest_block`, `sse41::digest_block`, `avx::compress_b/s`, `avx2::compress_b`
  (Extracted/GlueSimd.lean, tied by Props/C16/GlueTieSimdSha.lean / GlueTieSimdBlake2.lean) and `reference::digest_block`
  (Extracted/GlueSha2Drv.lean, tied by Props/C01/GlueTieSha2Drv.lean); `reference::compress_b/s` is the model `reference_compress`
  (tied to reference.rs by Props/C01/KernelTieBlake2.lean) behind its length assertion.

  For every cfg set the theorems give (a) the PATH — which target the source selects, as a definitional equality on the generated code — and
  (b) the VALUE — equality with the model's dispatch (`Impl/SimdSha256.lean` `digest_block ft`, `Impl/SimdBlake2.lean`
  `EngineB/S.compress ft`, whose table is pinned by `sha256_dispatch_table` / `blake2_dispatch_table`) for the corresponding feature set,
  for ALL states, counters, flags and inputs of the stated domain.  Exchanging two targets, or two `if` blocks, in the source changes a
  generated definition and breaks (a).

  Domain of the BLAKE2 theorems: `h`, `t` are the 8- / 2-element arrays of the Rust types; `buf` is one block (`BLOCK_BYTES`: what every
  caller passes; the vectorised targets read the first block of a longer slice where `reference::compress_*` panics — `…_avx_longer`).

  Axioms: propext, Classical.choice, Quot.sound.
-/
import CxVerif.Extracted.GlueSha2Disp
import CxVerif.Props.C01.GlueTieSha2Drv
import CxVerif.Props.C16.GlueTieSimdSha
import CxVerif.Props.C16.GlueTieSimdBlake2
namespace Cx.Props.C16.GlueTieSha2Disp
open Cx Cx.Impl Cx.Impl.Simd Cx.Impl.Sha2 Cx.Spec.Sha2
open Cx.Extracted Cx.Extracted.GlueSha2Disp
open Cx.Impl.Blake2 (LastBlock reference_compress Engine)

/-! ## impl256::digest_block -/

/-- (a) PATH: what the source selects under each cfg set -/
theorem digest_block256_path (state : W8 UInt32) (block : Bytes) :
    Impl256.digest_block_sse41_src state block = (GlueSimd.Sha256Sse41.digest_block_src state block).toOption ∧
    Impl256.digest_block_avx_src state block = (GlueSimd.Sha256Avx.digest_block_src state block).toOption ∧
    Impl256.digest_block_avx2_src state block = (GlueSimd.Sha256Avx.digest_block_src state block).toOption ∧
    GlueSha2Drv.Impl256.digest_block_baseline_src state block = GlueSha2Drv.Impl256.reference_digest_block_src state block :=
  ⟨rfl, rfl, rfl, rfl⟩

/-- … and the paths of the model's table for the four builds: 1 = sse41, 2 = avx, 0 = reference -/
theorem digest_block256_model_path :
    selectPath Features.none Extracted.Simd.DISPATCH_SHA256 = 0 ∧ selectPath Features.sse41Only Extracted.Simd.DISPATCH_SHA256 = 1 ∧
    selectPath Features.avxOnly Extracted.Simd.DISPATCH_SHA256 = 2 ∧ selectPath Features.avx2All Extracted.Simd.DISPATCH_SHA256 = 2 := by
  decide

/-- (b) VALUE: **each generated dispatcher variant = the model's dispatch for that feature set**, every state, every byte string -/
theorem digest_block256_baseline_src_eq_model (state : W8 UInt32) (block : Bytes) :
    GlueSha2Drv.Impl256.digest_block_baseline_src state block = SimdSha256.digest_block Features.none state block :=
  Cx.Props.C01.GlueTieSha2Drv.digest_block256_baseline_src_eq_model state block

theorem digest_block256_sse41_src_eq_model (state : W8 UInt32) (block : Bytes) :
    Impl256.digest_block_sse41_src state block = SimdSha256.digest_block Features.sse41Only state block :=
  Cx.Props.C16.GlueTieSimdSha.Sse41.digest_block_src_eq_model state block

theorem digest_block256_avx_src_eq_model (state : W8 UInt32) (block : Bytes) :
    Impl256.digest_block_avx_src state block = SimdSha256.digest_block Features.avxOnly state block :=
  Cx.Props.C16.GlueTieSimdSha.Avx.digest_block_src_eq_model state block

theorem digest_block256_avx2_src_eq_model (state : W8 UInt32) (block : Bytes) :
    Impl256.digest_block_avx2_src state block = SimdSha256.digest_block Features.avx2All state block :=
  Cx.Props.C16.GlueTieSimdSha.Avx.digest_block_src_eq_model state block

/-- all four generated variants compute the (generated) reference driver — including the panic on a ragged length -/
theorem digest_block256_all_cfgs_agree (state : W8 UInt32) (block : Bytes) :
    Impl256.digest_block_sse41_src state block = GlueSha2Drv.Impl256.reference_digest_block_src state block ∧
    Impl256.digest_block_avx_src state block = GlueSha2Drv.Impl256.reference_digest_block_src state block ∧
    Impl256.digest_block_avx2_src state block = GlueSha2Drv.Impl256.reference_digest_block_src state block ∧
    GlueSha2Drv.Impl256.digest_block_baseline_src state block = GlueSha2Drv.Impl256.reference_digest_block_src state block := by
  have hr := Cx.Props.C01.GlueTieSha2Drv.reference_digest_block256_src_eq_model state block
  refine ⟨?_, ?_, ?_, rfl⟩
  · rw [hr]; exact Cx.Props.C16.GlueTieSimdSha.Sse41.digest_block_src_eq_reference state block
  · rw [hr]; exact Cx.Props.C16.GlueTieSimdSha.Avx.digest_block_src_eq_reference state block
  · rw [hr]; exact Cx.Props.C16.GlueTieSimdSha.Avx.digest_block_src_eq_reference state block

/-! ## BLAKE2: the engine declarations and `compress` -/

theorem EngineB_mk_src_eq (h t : List UInt64) : EngineB.mk_src h t = ⟨h, t⟩ := rfl
theorem EngineS_mk_src_eq (h t : List UInt32) : EngineS.mk_src h t = ⟨h, t⟩ := rfl

/-- the Rust view of a model engine: `h: [u64; 8]`, `t: [u64; 2]` -/
def rawB (e : Engine UInt64) : EngineBRaw := ⟨e.h.toList, [UInt64.ofNat e.t0, UInt64.ofNat e.t1]⟩
def rawS (e : Engine UInt32) : EngineSRaw := ⟨e.h.toList, [UInt32.ofNat e.t0, UInt32.ofNat e.t1]⟩

/-- (a) PATH, BLAKE2b: reference under baseline / +sse4.1, `avx::compress_b` under +avx, `avx2::compress_b` under +avx2 -/
theorem EngineB_compress_path (e : EngineBRaw) (buf : Bytes) (last : LastBlock) :
    EngineB.compress_baseline_src e buf last = (reference_compress_b e.h e.t buf last).map (fun r => ⟨r.1, r.2⟩) ∧
    EngineB.compress_sse41_src e buf last = (reference_compress_b e.h e.t buf last).map (fun r => ⟨r.1, r.2⟩) ∧
    EngineB.compress_avx_src e buf last = ((GlueSimd.Blake2Avx.compress_b_src e.h e.t buf last).toOption).map (fun r => ⟨r.1, r.2⟩) ∧
    EngineB.compress_avx2_src e buf last = ((GlueSimd.Blake2Avx2.compress_b_src e.h e.t buf last).toOption).map (fun r => ⟨r.1, r.2⟩) := by
  refine ⟨?_, ?_, ?_, ?_⟩
  · unfold EngineB.compress_baseline_src; cases reference_compress_b e.h e.t buf last <;> rfl
  · unfold EngineB.compress_sse41_src; cases reference_compress_b e.h e.t buf last <;> rfl
  · unfold EngineB.compress_avx_src; dsimp only; rw [if_pos rfl]
    cases (GlueSimd.Blake2Avx.compress_b_src e.h e.t buf last).toOption <;> rfl
  · unfold EngineB.compress_avx2_src; dsimp only; rw [if_pos rfl]
    cases (GlueSimd.Blake2Avx2.compress_b_src e.h e.t buf last).toOption <;> rfl

/-- (a) PATH, BLAKE2s: reference under baseline / +sse4.1, `avx::compress_s` under +avx / +avx2 (`t` is only read there) -/
theorem EngineS_compress_path (e : EngineSRaw) (buf : Bytes) (last : LastBlock) :
    EngineS.compress_baseline_src e buf last = (reference_compress_s e.h e.t buf last).map (fun r => ⟨r.1, r.2⟩) ∧
    EngineS.compress_sse41_src e buf last = (reference_compress_s e.h e.t buf last).map (fun r => ⟨r.1, r.2⟩) ∧
    EngineS.compress_avx_src e buf last = ((GlueSimd.Blake2Avx.compress_s_src e.h e.t buf last).toOption).map (fun h => ⟨h, e.t⟩) ∧
    EngineS.compress_avx2_src e buf last = ((GlueSimd.Blake2Avx.compress_s_src e.h e.t buf last).toOption).map (fun h => ⟨h, e.t⟩) := by
  refine ⟨?_, ?_, ?_, ?_⟩
  · unfold EngineS.compress_baseline_src; cases reference_compress_s e.h e.t buf last <;> rfl
  · unfold EngineS.compress_sse41_src; cases reference_compress_s e.h e.t buf last <;> rfl
  · unfold EngineS.compress_avx_src; dsimp only; rw [if_pos rfl]
    cases (GlueSimd.Blake2Avx.compress_s_src e.h e.t buf last).toOption <;> rfl
  · unfold EngineS.compress_avx2_src; dsimp only; rw [if_pos rfl]
    cases (GlueSimd.Blake2Avx.compress_s_src e.h e.t buf last).toOption <;> rfl

theorem blake2_model_path :
    (Features.builds.map (fun ft => selectPath ft Extracted.Simd.DISPATCH_BLAKE2B)) = [0, 0, 2, 3] ∧
    (Features.builds.map (fun ft => selectPath ft Extracted.Simd.DISPATCH_BLAKE2S)) = [0, 0, 2, 2] := by decide

/-- (b) VALUE, BLAKE2b, on the arrays: under every cfg set the generated `compress` stores the portable compression into `h` and leaves `t` -/
theorem EngineB_compress_src_eq_reference (h0 h1 h2 h3 h4 h5 h6 h7 t0 t1 : UInt64) (buf : Bytes) (hb : buf.length = 128) (last : LastBlock) :
    let r : Option EngineBRaw :=
      some ⟨(reference_compress Impl.Blake2.b #v[h0, h1, h2, h3, h4, h5, h6, h7] t0.toNat t1.toNat buf last).toList, [t0, t1]⟩
    EngineB.compress_baseline_src ⟨[h0, h1, h2, h3, h4, h5, h6, h7], [t0, t1]⟩ buf last = r ∧
    EngineB.compress_sse41_src ⟨[h0, h1, h2, h3, h4, h5, h6, h7], [t0, t1]⟩ buf last = r ∧
    EngineB.compress_avx_src ⟨[h0, h1, h2, h3, h4, h5, h6, h7], [t0, t1]⟩ buf last = r ∧
    EngineB.compress_avx2_src ⟨[h0, h1, h2, h3, h4, h5, h6, h7], [t0, t1]⟩ buf last = r := by
  intro r
  obtain ⟨p0, p1, p2, p3⟩ := EngineB_compress_path ⟨[h0, h1, h2, h3, h4, h5, h6, h7], [t0, t1]⟩ buf last
  have hge : 128 ≤ buf.length := by omega
  have href : reference_compress_b [h0, h1, h2, h3, h4, h5, h6, h7] [t0, t1] buf last
      = some ((reference_compress Impl.Blake2.b #v[h0, h1, h2, h3, h4, h5, h6, h7] t0.toNat t1.toNat buf last).toList, [t0, t1]) := by
    simp [reference_compress_b, hb]
  refine ⟨?_, ?_, ?_, ?_⟩
  · rw [p0]; dsimp only; rw [href]; rfl
  · rw [p1]; dsimp only; rw [href]; rfl
  · rw [p2]; dsimp only
    rw [Cx.Props.C16.GlueTieSimdBlake2.AvxB.compress_b_src_eq_reference h0 h1 h2 h3 h4 h5 h6 h7 t0 t1 buf hge last]; rfl
  · rw [p3]; dsimp only
    rw [Cx.Props.C16.GlueTieSimdBlake2.Avx2B.compress_b_src_eq_reference h0 h1 h2 h3 h4 h5 h6 h7 t0 t1 buf hge last]; rfl

example : (List.replicate 128 (0x61 : UInt8)).length = 128 := by rw [List.length_replicate]

/-- (b) VALUE, BLAKE2s -/
theorem EngineS_compress_src_eq_reference (h0 h1 h2 h3 h4 h5 h6 h7 t0 t1 : UInt32) (buf : Bytes) (hb : buf.length = 64) (last : LastBlock) :
    let r : Option EngineSRaw :=
      some ⟨(reference_compress Impl.Blake2.s #v[h0, h1, h2, h3, h4, h5, h6, h7] t0.toNat t1.toNat buf last).toList, [t0, t1]⟩
    EngineS.compress_baseline_src ⟨[h0, h1, h2, h3, h4, h5, h6, h7], [t0, t1]⟩ buf last = r ∧
    EngineS.compress_sse41_src ⟨[h0, h1, h2, h3, h4, h5, h6, h7], [t0, t1]⟩ buf last = r ∧
    EngineS.compress_avx_src ⟨[h0, h1, h2, h3, h4, h5, h6, h7], [t0, t1]⟩ buf last = r ∧
    EngineS.compress_avx2_src ⟨[h0, h1, h2, h3, h4, h5, h6, h7], [t0, t1]⟩ buf last = r := by
  intro r
  obtain ⟨p0, p1, p2, p3⟩ := EngineS_compress_path ⟨[h0, h1, h2, h3, h4, h5, h6, h7], [t0, t1]⟩ buf last
  have hge : 64 ≤ buf.length := by omega
  have href : reference_compress_s [h0, h1, h2, h3, h4, h5, h6, h7] [t0, t1] buf last
      = some ((reference_compress Impl.Blake2.s #v[h0, h1, h2, h3, h4, h5, h6, h7] t0.toNat t1.toNat buf last).toList, [t0, t1]) := by
    simp [reference_compress_s, hb]
  refine ⟨?_, ?_, ?_, ?_⟩
  · rw [p0]; dsimp only; rw [href]; rfl
  · rw [p1]; dsimp only; rw [href]; rfl
  · rw [p2]; dsimp only
    rw [Cx.Props.C16.GlueTieSimdBlake2.AvxS.compress_s_src_eq_reference h0 h1 h2 h3 h4 h5 h6 h7 t0 t1 buf hge last]; rfl
  · rw [p3]; dsimp only
    rw [Cx.Props.C16.GlueTieSimdBlake2.AvxS.compress_s_src_eq_reference h0 h1 h2 h3 h4 h5 h6 h7 t0 t1 buf hge last]; rfl

example : (List.replicate 64 (0x61 : UInt8)).length = 64 := by rw [List.length_replicate]

/-- the vectorised targets accept a LONGER slice (they read its first block) where `reference::compress_b` panics on the length assertion:
    the only observable difference between the cfg sets, outside the domain the callers use -/
theorem EngineB_compress_avx_longer (h0 h1 h2 h3 h4 h5 h6 h7 t0 t1 : UInt64) (buf : Bytes) (hb : 128 < buf.length) (last : LastBlock) :
    EngineB.compress_baseline_src ⟨[h0, h1, h2, h3, h4, h5, h6, h7], [t0, t1]⟩ buf last = none ∧
    EngineB.compress_avx2_src ⟨[h0, h1, h2, h3, h4, h5, h6, h7], [t0, t1]⟩ buf last
      = some ⟨(reference_compress Impl.Blake2.b #v[h0, h1, h2, h3, h4, h5, h6, h7] t0.toNat t1.toNat buf last).toList, [t0, t1]⟩ := by
  obtain ⟨p0, _, _, p3⟩ := EngineB_compress_path ⟨[h0, h1, h2, h3, h4, h5, h6, h7], [t0, t1]⟩ buf last
  refine ⟨?_, ?_⟩
  · rw [p0]; dsimp only
    have : reference_compress_b [h0, h1, h2, h3, h4, h5, h6, h7] [t0, t1] buf last = none := by
      simp [reference_compress_b]; omega
    rw [this]; rfl
  · rw [p3]; dsimp only
    rw [Cx.Props.C16.GlueTieSimdBlake2.Avx2B.compress_b_src_eq_reference h0 h1 h2 h3 h4 h5 h6 h7 t0 t1 buf (by omega) last]; rfl

/-- (b) VALUE against the MODEL's dispatch (`Impl/SimdBlake2.lean`), BLAKE2b: for each of the four builds the generated `compress` on the Rust
    view of a model engine is the model's `Engine.compress_with (EngineB.compress ft)`, for every engine with counter words < 2^64 -/
theorem EngineB_compress_src_eq_model (e : Engine UInt64) (h0 : e.t0 < 2 ^ 64) (h1 : e.t1 < 2 ^ 64) (buf : Bytes) (hb : buf.length = 128)
    (last : LastBlock) :
    EngineB.compress_baseline_src (rawB e) buf last = (SimdBlake2.Engine.compress_with (SimdBlake2.EngineB.compress Features.none) e buf last).map rawB ∧
    EngineB.compress_sse41_src (rawB e) buf last = (SimdBlake2.Engine.compress_with (SimdBlake2.EngineB.compress Features.sse41Only) e buf last).map rawB ∧
    EngineB.compress_avx_src (rawB e) buf last = (SimdBlake2.Engine.compress_with (SimdBlake2.EngineB.compress Features.avxOnly) e buf last).map rawB ∧
    EngineB.compress_avx2_src (rawB e) buf last = (SimdBlake2.Engine.compress_with (SimdBlake2.EngineB.compress Features.avx2All) e buf last).map rawB := by
  obtain ⟨h, t0, t1⟩ := e
  obtain ⟨a0, a1, a2, a3, a4, a5, a6, a7, rfl⟩ := Cx.Proofs.KernelTieWords.vec8 h
  have e0 : (UInt64.ofNat t0).toNat = t0 := by rw [UInt64.toNat_ofNat']; exact Nat.mod_eq_of_lt h0
  have e1 : (UInt64.ofNat t1).toNat = t1 := by rw [UInt64.toNat_ofNat']; exact Nat.mod_eq_of_lt h1
  have key := EngineB_compress_src_eq_reference a0 a1 a2 a3 a4 a5 a6 a7 (UInt64.ofNat t0) (UInt64.ofNat t1) buf hb last
  rw [e0, e1] at key
  have hm : ∀ ft, (SimdBlake2.Engine.compress_with (SimdBlake2.EngineB.compress ft) ⟨#v[a0, a1, a2, a3, a4, a5, a6, a7], t0, t1⟩ buf last).map rawB
      = some ⟨(reference_compress Impl.Blake2.b #v[a0, a1, a2, a3, a4, a5, a6, a7] t0 t1 buf last).toList, [UInt64.ofNat t0, UInt64.ofNat t1]⟩ := by
    intro ft
    unfold SimdBlake2.Engine.compress_with
    rw [Cx.Props.C16.blake2b_engine_compress ft]; rfl
  simp only [hm]
  exact key

/-- (b) VALUE against the MODEL's dispatch, BLAKE2s -/
theorem EngineS_compress_src_eq_model (e : Engine UInt32) (h0 : e.t0 < 2 ^ 32) (h1 : e.t1 < 2 ^ 32) (buf : Bytes) (hb : buf.length = 64)
    (last : LastBlock) :
    EngineS.compress_baseline_src (rawS e) buf last = (SimdBlake2.Engine.compress_with (SimdBlake2.EngineS.compress Features.none) e buf last).map rawS ∧
    EngineS.compress_sse41_src (rawS e) buf last = (SimdBlake2.Engine.compress_with (SimdBlake2.EngineS.compress Features.sse41Only) e buf last).map rawS ∧
    EngineS.compress_avx_src (rawS e) buf last = (SimdBlake2.Engine.compress_with (SimdBlake2.EngineS.compress Features.avxOnly) e buf last).map rawS ∧
    EngineS.compress_avx2_src (rawS e) buf last = (SimdBlake2.Engine.compress_with (SimdBlake2.EngineS.compress Features.avx2All) e buf last).map rawS := by
  obtain ⟨h, t0, t1⟩ := e
  obtain ⟨a0, a1, a2, a3, a4, a5, a6, a7, rfl⟩ := Cx.Proofs.KernelTieWords.vec8 h
  have e0 : (UInt32.ofNat t0).toNat = t0 := by rw [UInt32.toNat_ofNat']; exact Nat.mod_eq_of_lt h0
  have e1 : (UInt32.ofNat t1).toNat = t1 := by rw [UInt32.toNat_ofNat']; exact Nat.mod_eq_of_lt h1
  have key := EngineS_compress_src_eq_reference a0 a1 a2 a3 a4 a5 a6 a7 (UInt32.ofNat t0) (UInt32.ofNat t1) buf hb last
  rw [e0, e1] at key
  have hm : ∀ ft, (SimdBlake2.Engine.compress_with (SimdBlake2.EngineS.compress ft) ⟨#v[a0, a1, a2, a3, a4, a5, a6, a7], t0, t1⟩ buf last).map rawS
      = some ⟨(reference_compress Impl.Blake2.s #v[a0, a1, a2, a3, a4, a5, a6, a7] t0 t1 buf last).toList, [UInt32.ofNat t0, UInt32.ofNat t1]⟩ := by
    intro ft
    unfold SimdBlake2.Engine.compress_with
    rw [Cx.Props.C16.blake2s_engine_compress ft]; rfl
  simp only [hm]
  exact key

/-- the hypotheses are met by a fresh engine and a one-block buffer -/
example : (⟨Impl.Blake2.b.iv, 128, 0⟩ : Engine UInt64).t0 < 2 ^ 64 ∧ (⟨Impl.Blake2.b.iv, 128, 0⟩ : Engine UInt64).t1 < 2 ^ 64 := by decide

end Cx.Props.C16.GlueTieSha2Disp
