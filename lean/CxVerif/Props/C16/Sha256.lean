/-
  Props.C16 (SHA-256 part, DESIGN C16 (ii)) — the SSE4.1 and AVX SHA-256 block functions agree with the portable
  reference code on every chaining state, every message and every number of consecutive blocks.

  Models: Impl.SimdSha256 (lane model of impl256/sse41.rs and avx.rs; the gather offsets, the pshufb byte-swap masks,
  the shift amounts of sigma0/sigma1, the register arguments of every `SCHEDULE_ROUND[_INC]!` of the loop and of the
  tail with its `schedule[k] = …` stores, the loop bound, the `compress_once!(j)` lanes, the batch sizes and the
  `[feature, module]` table of mod.rs are EXTRACTED from the source on every run) against Impl.Sha2.Impl256
  (`reference::digest_block_u32` / `reference::digest_block`, = FIPS 180-4 §6.2.2 by Props/C01/Sha2.lean).
  All statements are for EVERY state and EVERY input, by induction on the number of batches / blocks (no bound).

  How the Rust chooses batches and tails (read off sse41.rs / avx.rs, modelled literally):
    sse41::digest_block   `while block.len() >= 256 { message_schedule_4ways; compress_4ways; block = &block[256..] }`
                          then `if block.len() > 0 { reference::digest_block(state, block) }`  (0..3 blocks, scalar)
    avx::digest_block     `while block.len() >= 512 { message_schedule_8ways; compress_8ways; block = &block[512..] }`
                          then `sse41::digest_block(state, block)`  (at most one 4-block batch, then 0..3 scalar blocks)
  Only the message schedule is vectorised (N-way transposed loads, σ0/σ1 as five shifts xor-ed, adds, `+ K` broadcast);
  the 64 rounds run on the ALU with `kwi = extract_epi32(schedule[i], j)` — there are no vector Σ/Ch/Maj in this code:
  the model's `round` uses the scalar `e0`/`e1` of reference.rs, as the source does.

  What is NOT a theorem (partial by nature): that a `-C target-feature` build executes these lane operations, that
  `core::ptr::read` on the (in general unaligned) `*const i32` behaves as a little-endian 4-byte read, and which `cfg`
  blocks the compiler keeps — observed by the ops `simd.sha256/sha224` through the four harness builds.
  Helpers: Proofs/SimdSha256Sched.lean, SimdSha256Lanes.lean, SimdSha256Batch.lean.
-/
import CxVerif.Proofs.SimdSha256Batch
import CxVerif.Props.C01.Sha2
namespace Cx.Props.C16
open Cx Cx.Impl.Simd Cx.Impl.SimdSha256 Cx.Proofs.SimdSha256
open Cx.Spec.Sha2 (W8 compress256 schedule256 smallSigma0_256 smallSigma1_256)
open Cx.Impl.Sha2 (Impl256.digest_block_u32 Impl256.digest_block Impl256.K32)

/-! ### (1) lane algebra -/

/-- every vector operation of the model is the scalar operation on each lane, for every lane count:
    `_mm_add_epi32`, `_mm_xor_si128`, or, `_mm_srli_epi32`, `_mm_slli_epi32` (counts ≥ 32 give 0), `_mm_set1_epi32` -/
theorem sha256_lane_ops {n : Nat} (a b : Lanes n) (x : UInt32) (k j : Nat) (h : j < n) :
    (Lanes.add a b)[j] = a[j] + b[j] ∧ (Lanes.xor a b)[j] = a[j] ^^^ b[j] ∧ (Lanes.or a b)[j] = a[j] ||| b[j] ∧
    (Lanes.srli a k)[j] = (if k ≥ 32 then 0 else a[j] >>> UInt32.ofNat k) ∧
    (Lanes.slli a k)[j] = (if k ≥ 32 then 0 else a[j] <<< UInt32.ofNat k) ∧ (Lanes.set1 x : Lanes n)[j] = x :=
  ⟨getElem_add a b j h, getElem_xor a b j h, getElem_or a b j h, getElem_srli a k j h, getElem_slli a k j h,
   getElem_set1 x j h⟩

/-- `sigma0` / `sigma1` of both files (five shifts `srli 7, srli 18, srli 3, slli 25, slli 14` resp.
    `srli 17, srli 10, srli 19, slli 15, slli 13`, xor-ed: "rotate" = two shifts) are FIPS σ0 / σ1 on every lane -/
theorem sha256_sigma_lanewise (v4 : Lanes 4) (v8 : Lanes 8) :
    sigma0 (lanesAlg 4) Sse41.cfg v4 = some (v4.map smallSigma0_256) ∧
    sigma1 (lanesAlg 4) Sse41.cfg v4 = some (v4.map smallSigma1_256) ∧
    sigma0 (lanesAlg 8) Avx.cfg v8 = some (v8.map smallSigma0_256) ∧
    sigma1 (lanesAlg 8) Avx.cfg v8 = some (v8.map smallSigma1_256) :=
  ⟨lanes_sigma0 good_sse41 v4, lanes_sigma1 good_sse41 v4, lanes_sigma0 good_avx v8, lanes_sigma1 good_avx v8⟩

/-- the byte-swap shuffles: `_mm_shuffle_epi8(w, bswap_mask)` and `_mm256_shuffle_epi8(w, bswap_mask)` (selectors
    16…31 of the upper 128-bit half act inside that half) swap the four bytes of every lane; and the little-endian
    `read(p as *const i32)` followed by that swap is the big-endian word at `p` -/
theorem sha256_bswap_shuffles (v4 : Lanes 4) (v8 : Lanes 8) (bs : Bytes) (h : 4 ≤ bs.length) :
    Lanes.shuffle_epi8 v4 Sse41.cfg.bswapMask = v4.map bswap32 ∧
    Lanes.shuffle_epi8 v8 Avx.cfg.bswapMask = v8.map bswap32 ∧
    bswap32 (ofBytes32 (bs.take 4)) = beU32 bs :=
  ⟨shuffle_bswap4 v4, shuffle_bswap8 v8, bswap32_read bs h⟩

example : 4 ≤ ([1, 2, 3, 4, 5] : Bytes).length := by decide

/-- the transposing loads (16 × `gather` + shuffle) of a slice holding at least one batch: lane `j` of register
    `wK` is big-endian word `K` of block `j` (`laneW … K` for `K < 16`); no read outside the slice -/
theorem sse41_loads_transpose (message : Bytes) (hm : 256 ≤ message.length) :
    loadRegs Sse41.cfg message = some ((List.range 16).map (laneW Sse41.cfg message)) ∧
    ∀ (k : Nat), k < 16 → ∀ (j : Nat) (hj : j < 4),
      (wordsBE32 (blockAt message j))[k]? = some ((laneW Sse41.cfg message k)[j]'hj) := by
  refine ⟨loadRegs_eq good_sse41 message (by exact hm), ?_⟩
  intro k hk j hj
  have hb : (blockAt message j).length = 64 := blockAt_length (by omega)
  have hw : k < (wordsBE32 (blockAt message j)).length := by rw [Cx.Proofs.Sha2Compress.wordsBE32_length, hb]; omega
  simp [laneW, Wf_lt _ hk, List.getD_eq_getElem?_getD, List.getElem?_eq_getElem hw]

theorem avx_loads_transpose (message : Bytes) (hm : 512 ≤ message.length) :
    loadRegs Avx.cfg message = some ((List.range 16).map (laneW Avx.cfg message)) ∧
    ∀ (k : Nat), k < 16 → ∀ (j : Nat) (hj : j < 8),
      (wordsBE32 (blockAt message j))[k]? = some ((laneW Avx.cfg message k)[j]'hj) := by
  refine ⟨loadRegs_eq good_avx message (by exact hm), ?_⟩
  intro k hk j hj
  have hb : (blockAt message j).length = 64 := blockAt_length (by omega)
  have hw : k < (wordsBE32 (blockAt message j)).length := by rw [Cx.Proofs.Sha2Compress.wordsBE32_length, hb]; omega
  simp [laneW, Wf_lt _ hk, List.getD_eq_getElem?_getD, List.getElem?_eq_getElem hw]

example : 256 ≤ (List.replicate 300 (7 : UInt8)).length ∧ 512 ≤ (List.replicate 600 (7 : UInt8)).length := by
  rw [List.length_replicate, List.length_replicate]; omega

/-- per-block view: the `SCHEDULE_ROUND!` program of either file (register rotation over `w0 … w15`, `while i < 32`,
    sixteen tail rounds with explicit stores) run on SINGLE WORDS is the FIPS message schedule plus K:
    `schedule[k] = W_k + K32[k]` for all 64 entries, for every sixteen block words; no `schedule[$i]` / `K32[$i]` panic -/
theorem sha256_schedule_on_words (m : List UInt32) (hm : m.length = 16) :
    (∃ sch, scheduleFromRegs wordRegAlg Sse41.cfg m = some sch ∧ sch.length = 64 ∧
      ∀ (k : Nat) (kk w : UInt32), Impl256.K32[k]? = some kk → (schedule256 m)[k]? = some w → sch[k]? = some (w + kk)) ∧
    (∃ sch, scheduleFromRegs wordRegAlg Avx.cfg m = some sch ∧ sch.length = 64 ∧
      ∀ (k : Nat) (kk w : UInt32), Impl256.K32[k]? = some kk → (schedule256 m)[k]? = some w → sch[k]? = some (w + kk)) :=
  ⟨word_schedule good_sse41 m hm, word_schedule good_avx m hm⟩

example : ((List.range 16).map UInt32.ofNat).length = 16 := by decide

/-- **`message_schedule_4ways`** on a slice of at least 256 bytes = FOUR independent scalar schedules, K added per
    lane: it does not panic, fills 64 vectors, and lane `j` of `schedule[k]` is `W_k(block j) + K32[k]` -/
theorem sse41_schedule_is_4_scalar_schedules (message : Bytes) (hm : 256 ≤ message.length) :
    ∃ sch, message_schedule Sse41.cfg message = some sch ∧ sch.length = 64 ∧
      ∀ (k : Nat) (kk w : UInt32) (j : Nat) (hj : j < 4), Impl256.K32[k]? = some kk →
        (schedule256 (wordsBE32 (blockAt message j)))[k]? = some w → ∃ v : Lanes 4, sch[k]? = some v ∧ v[j] = w + kk :=
  message_schedule_lanes good_sse41 message (by exact hm)

/-- **`message_schedule_8ways`** on a slice of at least 512 bytes = EIGHT independent scalar schedules -/
theorem avx_schedule_is_8_scalar_schedules (message : Bytes) (hm : 512 ≤ message.length) :
    ∃ sch, message_schedule Avx.cfg message = some sch ∧ sch.length = 64 ∧
      ∀ (k : Nat) (kk w : UInt32) (j : Nat) (hj : j < 8), Impl256.K32[k]? = some kk →
        (schedule256 (wordsBE32 (blockAt message j)))[k]? = some w → ∃ v : Lanes 8, sch[k]? = some v ∧ v[j] = w + kk :=
  message_schedule_lanes good_avx message (by exact hm)

/-! ### (2) one batch -/

/-- **one sse41 batch**: `message_schedule_4ways(&mut schedule, block); compress_4ways(state, &schedule)` on a slice
    of ≥ 256 bytes = the reference single-block function folded over its first four blocks, in order (which never
    panics there and is the fold of the FIPS compression) -/
theorem sse41_one_batch (state : W8 UInt32) (message : Bytes) (hm : 256 ≤ message.length) :
    ∃ sch, message_schedule Sse41.cfg message = some sch ∧
      compress_nways sch state Sse41.cfg.compressLanes = (takeBlocks 64 4 message).foldlM Impl256.digest_block_u32 state ∧
      compress_nways sch state Sse41.cfg.compressLanes = some ((takeBlocks 64 4 message).foldl compress256 state) := by
  obtain ⟨sch, h1, h2⟩ := batch_eq good_sse41 message (by exact hm) state
  refine ⟨sch, h1, ?_, h2⟩
  rw [h2, foldlM_digest_block_u32 _ _ (Cx.Proofs.FB.takeBlocks_all_len 4 message (by omega))]
  rfl

/-- **one avx batch**: eight blocks -/
theorem avx_one_batch (state : W8 UInt32) (message : Bytes) (hm : 512 ≤ message.length) :
    ∃ sch, message_schedule Avx.cfg message = some sch ∧
      compress_nways sch state Avx.cfg.compressLanes = (takeBlocks 64 8 message).foldlM Impl256.digest_block_u32 state ∧
      compress_nways sch state Avx.cfg.compressLanes = some ((takeBlocks 64 8 message).foldl compress256 state) := by
  obtain ⟨sch, h1, h2⟩ := batch_eq good_avx message (by exact hm) state
  refine ⟨sch, h1, ?_, h2⟩
  rw [h2, foldlM_digest_block_u32 _ _ (Cx.Proofs.FB.takeBlocks_all_len 8 message (by omega))]
  rfl

/-! ### (3) the driver loops: any number of blocks -/

/-- the batch loops take as many full batches as fit: after `while block.len() >= 256` (resp. `>= 512`) the state has
    absorbed the first `4·⌊len/256⌋` (resp. `8·⌊len/512⌋`) blocks and the remaining slice (< one batch) starts right
    behind them — for every slice, of any length -/
theorem sha256_batch_loops (state : W8 UInt32) (block : Bytes) :
    batch_loop Sse41.cfg block.length state block
      = some ((takeBlocks 64 (4 * (block.length / 256)) block).foldl compress256 state, block.drop (256 * (block.length / 256))) ∧
    batch_loop Avx.cfg block.length state block
      = some ((takeBlocks 64 (8 * (block.length / 512)) block).foldl compress256 state, block.drop (512 * (block.length / 512))) :=
  ⟨batch_loop_full good_sse41 state block, batch_loop_full good_avx state block⟩

/-- **sse41::digest_block on ANY number of consecutive 64-byte blocks** (n = 0, n < 4, any n: ⌊n/4⌋ four-way batches,
    then 0..3 blocks through `reference::digest_block`) = the reference single-block function folded over all blocks -/
theorem sse41_digest_block_eq_fold (state : W8 UInt32) (blocks : List Bytes) (h : ∀ b ∈ blocks, b.length = 64) :
    Sse41.digest_block state blocks.flatten = blocks.foldlM Impl256.digest_block_u32 state ∧
    Sse41.digest_block state blocks.flatten = some (blocks.foldl compress256 state) := by
  obtain ⟨hf, hl⟩ := fullBlocks_flatten blocks h
  have : Sse41.digest_block state blocks.flatten = some (blocks.foldl compress256 state) := by
    rw [sse41_eq_reference, reference_digest_block_eq _ _ hl, hf]
  exact ⟨by rw [this, foldlM_digest_block_u32 _ _ h], this⟩

/-- **avx::digest_block on ANY number of consecutive 64-byte blocks** (⌊n/8⌋ eight-way batches, then
    `sse41::digest_block` on the remaining 0..7 blocks: at most one four-way batch and 0..3 scalar blocks) -/
theorem avx_digest_block_eq_fold (state : W8 UInt32) (blocks : List Bytes) (h : ∀ b ∈ blocks, b.length = 64) :
    Avx.digest_block state blocks.flatten = blocks.foldlM Impl256.digest_block_u32 state ∧
    Avx.digest_block state blocks.flatten = some (blocks.foldl compress256 state) := by
  obtain ⟨hf, hl⟩ := fullBlocks_flatten blocks h
  have : Avx.digest_block state blocks.flatten = some (blocks.foldl compress256 state) := by
    rw [avx_eq_reference, reference_digest_block_eq _ _ hl, hf]
  exact ⟨by rw [this, foldlM_digest_block_u32 _ _ h], this⟩

/-- the hypothesis is met by 0, 3 (below a batch), 13 (three sse41 batches + 1; one avx batch + one sse41 batch + 1) blocks -/
example : (∀ b ∈ ([] : List Bytes), b.length = 64) ∧ (∀ b ∈ List.replicate 3 (List.replicate 64 (1 : UInt8)), b.length = 64) ∧
    (∀ b ∈ List.replicate 13 (List.replicate 64 (1 : UInt8)), b.length = 64) := by
  refine ⟨by simp, ?_, ?_⟩ <;> (intro b hb; rw [List.eq_of_mem_replicate hb]; simp)

/-- stronger, on arbitrary byte strings: both vectorised drivers ARE `reference::digest_block`, including the
    panic (`none`) when the slice is not a whole number of blocks -/
theorem sha256_simd_drivers_eq_reference (state : W8 UInt32) (block : Bytes) :
    Sse41.digest_block state block = Impl256.digest_block state block ∧
    Avx.digest_block state block = Impl256.digest_block state block :=
  ⟨sse41_eq_reference state block, avx_eq_reference state block⟩

/-! ### (4) dispatch (mod.rs) -/

/-- TABLE: the extracted `[feature, module]` blocks of `impl256::digest_block`: avx first, then sse4.1, else reference -/
theorem sha256_dispatch_table (ft : Features) :
    selectPath ft Extracted.Simd.DISPATCH_SHA256 = (if ft.avx then 2 else if ft.sse41 then 1 else 0) :=
  dispatch_table ft

/-- **all paths agree**: whatever the `cfg`-selected implementation (the table selects one of reference = 0,
    sse41 = 1, avx = 2 — never the refused code), `impl256::digest_block` is `reference::digest_block` on every state
    and every byte string; hence any two feature sets compute the same function, and on `n` whole blocks it is the fold
    of the single-block compression -/
theorem sha256_all_paths_agree (ft ft' : Features) (state : W8 UInt32) (block : Bytes) :
    selectPath ft Extracted.Simd.DISPATCH_SHA256 ∈ [0, 1, 2] ∧
    digest_block ft state block = Impl256.digest_block state block ∧
    digest_block ft state block = digest_block ft' state block ∧
    (block.length % 64 = 0 → digest_block ft state block = some ((fullBlocks 64 block).foldl compress256 state)) := by
  refine ⟨?_, digest_block_eq_reference ft state block, ?_, ?_⟩
  · rw [dispatch_table]; cases ft.avx <;> cases ft.sse41 <;> simp
  · rw [digest_block_eq_reference, digest_block_eq_reference]
  · intro h; rw [digest_block_eq_reference, reference_digest_block_eq _ _ h]

example : (List.replicate 320 (9 : UInt8)).length % 64 = 0 := by rw [List.length_replicate]

/-! ### composite: digests do not depend on the selected path -/

/-- `Engine::blocks` over the dispatched block function is the portable `Engine::blocks` (as functions) -/
theorem sha256_engine_blocks (ft : Features) : Engine.blocks ft = Impl.Sha2.Eng256.Engine.blocks := blocks_eq ft

/-- **whole histories** (`Sha256::new()`, any sequence of `update_mut`, `finalize()` — what op `simd.sha256` runs):
    the result (digest or panic) does not depend on the feature set; no hypothesis -/
theorem sha256_features_irrelevant (ft ft' : Features) (pieces : List Bytes) :
    sha256_with ft pieces = sha256_with ft' pieces ∧ sha224_with ft pieces = sha224_with ft' pieces := by
  simp only [sha256_with, sha224_with, blocks_eq, and_self]

/-- **every build computes FIPS 180-4**: for every feature set, every split of the message into `update` pieces and
    every message in the standard's length domain, the digests are SHA-256 / SHA-224 of the concatenation -/
theorem sha256_simd_eq_spec (ft : Features) (pieces : List Bytes) (h : pieces.flatten.length < 2 ^ 61) :
    sha256_with ft pieces = some (Spec.Sha2.sha256 pieces.flatten) ∧
    sha224_with ft pieces = some (Spec.Sha2.sha224 pieces.flatten) := by
  constructor
  · rw [← Cx.Proofs.Sha2Engine.specDigest256_sha256]
    exact hash_with_eq_spec ft _ _ Cx.Proofs.Sha2Engine.outOK_sha256 pieces h
  · rw [← Cx.Proofs.Sha2Engine.specDigest256_sha224]
    exact hash_with_eq_spec ft _ _ Cx.Proofs.Sha2Engine.outOK_sha224 pieces h

example : ([List.replicate 700 (7 : UInt8), [], List.replicate 65 (1 : UInt8)] : List Bytes).flatten.length < 2 ^ 61 := by
  simp only [List.flatten_cons, List.flatten_nil, List.length_append, List.length_replicate, List.length_nil]; omega

end Cx.Props.C16
