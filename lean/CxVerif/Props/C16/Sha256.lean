import CxVerif.Impl.SimdSha256
namespace Cx.Props.C16
end Cx.Props.C16
