/-
  Props.C16.GlueTieSimdBlake2 — the translator tie for the VECTORISED BLAKE2 compressions (family (c) of the SIMD glue):
  src/hashing/blake2/avx.rs (`compress_b`/`compress_b_avx`, `compress_s`/`compress_s_avx`; generated namespace `Blake2Avx`) and
  avx2.rs (`compress_b`/`compress_b_avx2`; `Blake2Avx2`).

  `Extracted/GlueSimd.lean` is regenerated from the CURRENT Rust source on every run by tools/ktx_glue_simd.py: the eight rotation
  helpers (`pshufb` masks, `pshufd` immediates, shift pairs), the local macros `G!`/`G1!`/`G2!`, `DIAGONALIZE!`/`UNDIAGONALIZE!`,
  `ROUND!`, the ten message-gathering macros `load0! … load9!` of each function (unpack / alignr / blend / shuffle / byte-shift
  intrinsics with their immediates; `blend!`, `lo_lo!` … in avx2.rs), the raw loads of the block / `h` / `IV` / `t` through
  `*const __m128i` / `*const __m256i`, the counter-and-flag vectors (`_mm_set_epi64x(0, -1i64)`, `_mm_set_epi32(0, -1i32, t[1] as i32,
  t[0] as i32)`, `_mm256_set_epi64x(..)`), the final xors and the stores into `h` — all in the intrinsic definitions of
  Util/Intrinsics.lean.  The theorems prove the generated functions equal to the hand lane models of Impl/SimdBlake2.lean
  (`avx_compress_b`, `avx_compress_s`, `avx2_compress_b`: interpreters of the re-extracted gather programs, proved equal to the
  portable `reference_compress` for every input in Props/C16/Blake2.lean), for ALL chaining values, counters, flags and blocks.
  `to2`/`to4`/`toQ` view a generated `M128i`/`M256i` as the model's `V2x64`/`V4x32`/`V4x64` (Proofs/GlueSimdBlake2*.lean).

  Domain: `h`, `t` are the `[u64; 8]`/`[u32; 8]`, `[u64; 2]`/`[u32; 2]` arrays of the Rust signatures (explicit 8- / 2-element
  lists); `buf` holds at least one block (the callers in blake2b.rs / blake2s.rs pass exactly `BLOCK_BYTES`; a shorter slice is a
  raw out-of-bounds load: the generated function returns `.error "UB"`, see the examples).  The aligned loads of `h`
  (`_mm_load_si128`, `_mm256_load_si256`) are at offsets 0, 16, 32, 48 / 0, 32 of `h`, whose 32-byte alignment is promised by
  `#[repr(align(32))]` on `EngineB`/`EngineS` (mod.rs; outside the translated files — an assumption of this tie, observed by C16's
  correspondence).
-/
import CxVerif.Proofs.GlueSimdBlake2AvxS
import CxVerif.Proofs.GlueSimdBlake2Avx2
import CxVerif.Props.C16.Blake2
namespace Cx.Props.C16.GlueTieSimdBlake2
open Cx Cx.Intrinsics Cx.Impl Cx.Impl.Simd Cx.Impl.SimdBlake2 Cx.Proofs.SimdBlake2 Cx.Proofs.GlueSimdBlake2
open Cx.Extracted.GlueSimd
open Cx.Impl.Blake2 (LastBlock reference_compress)

/-! ## avx.rs — BLAKE2b -/
namespace AvxB
open Blake2Avx Cx.Proofs.GlueSimdBlake2.AvxBI

/-- `b::IV` -/
theorem b_IV_src_eq_model : Blake2Avx.b_IV = Impl.Blake2.b.iv.toList := by decide

/-- the four rotations: `pshufb` byte permutations, `pshufd` dword swap, shift-xor -/
theorem rotate_src_eq_model (r : M128i) :
    to2 (rotate16_epi64_src r) = AvxB.rotate16_epi64 (to2 r) ∧ to2 (rotate24_epi64_src r) = AvxB.rotate24_epi64 (to2 r) ∧
    to2 (rotate32_epi64_src r) = AvxB.rotate32_epi64 (to2 r) ∧ AvxB.rotate63_epi64 (to2 r) = some (to2 (rotate63_epi64_src r)) := by
  refine ⟨to2_rotate16 r, to2_rotate24 r, to2_rotate32 r, ?_⟩
  rw [to2_rotate63, avxbRot63_eq, avxb_rotate63]

/-- `G1!`, `G2!`, `DIAGONALIZE!`, `UNDIAGONALIZE!`, `ROUND!` on the eight half rows -/
theorem G1_src_eq_model (b0 b1 r1l r1h r2l r2h r3l r3h r4l r4h : M128i) :
    toRows (compress_b_avx_G1_src b0 b1 r1l r1h r2l r2h r3l r3h r4l r4h)
      = AvxB.G1 (toRows (r1l, r1h, r2l, r2h, r3l, r3h, r4l, r4h)) (to2 b0) (to2 b1) := G1_tie b0 b1 r1l r1h r2l r2h r3l r3h r4l r4h
theorem G2_src_eq_model (b0 b1 r1l r1h r2l r2h r3l r3h r4l r4h : M128i) :
    toRows (compress_b_avx_G2_src b0 b1 r1l r1h r2l r2h r3l r3h r4l r4h)
      = AvxB.G2 avxbRot63 (toRows (r1l, r1h, r2l, r2h, r3l, r3h, r4l, r4h)) (to2 b0) (to2 b1) := G2_tie b0 b1 r1l r1h r2l r2h r3l r3h r4l r4h
theorem ROUND_src_eq_model (ld rows : R8) :
    AvxB.ROUND avxbRot63 (toRows rows) (toL ld) =
      some (toRows (match rows with
        | (r1l, r1h, r2l, r2h, r3l, r3h, r4l, r4h) => compress_b_avx_ROUND_src ld r1l r1h r2l r2h r3l r3h r4l r4h)) := ROUND_tie ld rows

/-- the ten message-gathering macros = the model's extracted programs `B_AVX_LOADS[r]`, and the source's round order = `B_AVX_ROUNDS` -/
theorem loads_src_eq_model : (∀ p ∈ loadsB, LoadTie p.1 p.2) ∧ loadsB.map Prod.snd = Extracted.Simd.B_AVX_ROUNDS :=
  ⟨loadsB_tie, loadsB_rounds⟩

/-- **`compress_b_avx`** -/
theorem compress_b_avx_src_eq_model (h0 h1 h2 h3 h4 h5 h6 h7 i0 i1 i2 i3 i4 i5 i6 i7 t0 t1 : UInt64) (block : Bytes)
    (hb : 128 ≤ block.length) (f : M128i) :
    ∃ out : Vector UInt64 8,
      AvxB.compress_b_avx #v[h0, h1, h2, h3, h4, h5, h6, h7] block #v[i0, i1, i2, i3, i4, i5, i6, i7] ⟨t0, t1⟩ (to2 f) = some out ∧
      compress_b_avx_src [h0, h1, h2, h3, h4, h5, h6, h7] 0 block 0 [i0, i1, i2, i3, i4, i5, i6, i7] 0 [t0, t1] 0 f = .ok out.toList :=
  AvxBI.compress_b_avx_src_eq_model h0 h1 h2 h3 h4 h5 h6 h7 i0 i1 i2 i3 i4 i5 i6 i7 t0 t1 block hb f

/-- **`avx::compress_b`** = the model, hence (Props/C16/Blake2.lean) the portable `reference::compress_b`, for every chaining
    value, counter, flag and block -/
theorem compress_b_src_eq_model (h0 h1 h2 h3 h4 h5 h6 h7 t0 t1 : UInt64) (buf : Bytes) (hb : 128 ≤ buf.length) (last : LastBlock) :
    ∃ out : Vector UInt64 8, avx_compress_b #v[h0, h1, h2, h3, h4, h5, h6, h7] t0.toNat t1.toNat buf last = some out ∧
      compress_b_src [h0, h1, h2, h3, h4, h5, h6, h7] [t0, t1] buf last = .ok (out.toList, [t0, t1]) :=
  AvxBI.compress_b_src_eq_model h0 h1 h2 h3 h4 h5 h6 h7 t0 t1 buf hb last

theorem compress_b_src_eq_reference (h0 h1 h2 h3 h4 h5 h6 h7 t0 t1 : UInt64) (buf : Bytes) (hb : 128 ≤ buf.length) (last : LastBlock) :
    compress_b_src [h0, h1, h2, h3, h4, h5, h6, h7] [t0, t1] buf last
      = .ok ((reference_compress Impl.Blake2.b #v[h0, h1, h2, h3, h4, h5, h6, h7] t0.toNat t1.toNat buf last).toList, [t0, t1]) := by
  obtain ⟨out, hm, hs⟩ := compress_b_src_eq_model h0 h1 h2 h3 h4 h5 h6 h7 t0 t1 buf hb last
  rw [Cx.Props.C16.blake2b_avx_compress] at hm
  cases hm
  exact hs

example : 128 ≤ (List.replicate 128 (0x61 : UInt8)).length := by rw [List.length_replicate]
-- a block shorter than 128 bytes is a raw out-of-bounds load
open Cx.Proofs.Keccak in
example : compress_b_src [1, 2, 3, 4, 5, 6, 7, 8] [0, 0] (List.replicate 127 0) .No = .error "UB" := by kernel_rfl

end AvxB

/-! ## avx.rs — BLAKE2s -/
namespace AvxS
open Blake2Avx Cx.Proofs.GlueSimdBlake2.AvxSI

theorem s_IV_src_eq_model : Blake2Avx.s_IV = Impl.Blake2.s.iv.toList := by decide

theorem rotate_src_eq_model (r : M128i) :
    to4 (rotate16_epi32_src r) = AvxS.rotate16_epi32 (to4 r) ∧ to4 (rotate8_epi32_src r) = AvxS.rotate8_epi32 (to4 r) ∧
    AvxS.rotate12_epi32 (to4 r) = some (to4 (rotate12_epi32_src r)) ∧ AvxS.rotate7_epi32 (to4 r) = some (to4 (rotate7_epi32_src r)) := by
  refine ⟨to4_rotate16 r, to4_rotate8 r, ?_, ?_⟩
  · rw [to4_rotate12, avxsRot12_eq, avxs_rotate12]
  · rw [to4_rotate7, avxsRot7_eq, avxs_rotate7]

theorem ROUND_src_eq_model (ld rows : R4) :
    AvxS.ROUND avxsRots (toRows rows) (toL ld) =
      some (toRows (match rows with | (r1, r2, r3, r4) => compress_s_avx_ROUND_src ld r1 r2 r3 r4)) := ROUND_tie ld rows

theorem loads_src_eq_model : (∀ p ∈ loadsS, LoadTie p.1 p.2) ∧ loadsS.map Prod.snd = Extracted.Simd.S_AVX_ROUNDS :=
  ⟨loadsS_tie, loadsS_rounds⟩

/-- **`compress_s_avx`** -/
theorem compress_s_avx_src_eq_model (h0 h1 h2 h3 h4 h5 h6 h7 i0 i1 i2 i3 i4 i5 i6 i7 : UInt32) (block : Bytes)
    (hb : 64 ≤ block.length) (t : M128i) :
    ∃ out : Vector UInt32 8,
      AvxS.compress_s_avx #v[h0, h1, h2, h3, h4, h5, h6, h7] block #v[i0, i1, i2, i3, i4, i5, i6, i7] (to4 t) = some out ∧
      compress_s_avx_src [h0, h1, h2, h3, h4, h5, h6, h7] 0 block 0 [i0, i1, i2, i3, i4, i5, i6, i7] 0 t = .ok out.toList :=
  AvxSI.compress_s_avx_src_eq_model h0 h1 h2 h3 h4 h5 h6 h7 i0 i1 i2 i3 i4 i5 i6 i7 block hb t

/-- **`avx::compress_s`** -/
theorem compress_s_src_eq_model (h0 h1 h2 h3 h4 h5 h6 h7 t0 t1 : UInt32) (buf : Bytes) (hb : 64 ≤ buf.length) (last : LastBlock) :
    ∃ out : Vector UInt32 8, avx_compress_s #v[h0, h1, h2, h3, h4, h5, h6, h7] t0.toNat t1.toNat buf last = some out ∧
      compress_s_src [h0, h1, h2, h3, h4, h5, h6, h7] [t0, t1] buf last = .ok out.toList :=
  AvxSI.compress_s_src_eq_model h0 h1 h2 h3 h4 h5 h6 h7 t0 t1 buf hb last

theorem compress_s_src_eq_reference (h0 h1 h2 h3 h4 h5 h6 h7 t0 t1 : UInt32) (buf : Bytes) (hb : 64 ≤ buf.length) (last : LastBlock) :
    compress_s_src [h0, h1, h2, h3, h4, h5, h6, h7] [t0, t1] buf last
      = .ok (reference_compress Impl.Blake2.s #v[h0, h1, h2, h3, h4, h5, h6, h7] t0.toNat t1.toNat buf last).toList := by
  obtain ⟨out, hm, hs⟩ := compress_s_src_eq_model h0 h1 h2 h3 h4 h5 h6 h7 t0 t1 buf hb last
  rw [Cx.Props.C16.blake2s_avx_compress] at hm
  cases hm
  exact hs

end AvxS

/-! ## avx2.rs — BLAKE2b -/
namespace Avx2B
open Blake2Avx2 Cx.Proofs.GlueSimdBlake2.Avx2I

theorem b_IV_src_eq_model : Blake2Avx2.b_IV = Impl.Blake2.b.iv.toList := by decide

theorem rot_src_eq_model (v : M256i) :
    toQ (rot16_src v) = Avx2B.rot16 (toQ v) ∧ toQ (rot24_src v) = Avx2B.rot24 (toQ v) ∧ toQ (rot32_src v) = Avx2B.rot32 (toQ v) ∧
    Avx2B.rot63 (toQ v) = some (toQ (rot63_src v)) := by
  refine ⟨q_rot16 v, q_rot24 v, q_rot32 v, ?_⟩
  rw [q_rot63, avx2Rot63_eq, avx2_rot63]

theorem ROUND_src_eq_model (ld rows : R4) :
    Avx2B.ROUND avx2Rot63 (toRows rows) (toL ld) =
      some (toRows (match rows with | (r1, r2, r3, r4) => compress_b_avx2_ROUND_src ld r1 r2 r3 r4)) := ROUND_tie ld rows

theorem loads_src_eq_model : (∀ p ∈ loads2, LoadTie p.1 p.2) ∧ loads2.map Prod.snd = Extracted.Simd.B_AVX2_ROUNDS :=
  ⟨loads2_tie, loads2_rounds⟩

/-- **`compress_b_avx2`** -/
theorem compress_b_avx2_src_eq_model (h0 h1 h2 h3 h4 h5 h6 h7 i0 i1 i2 i3 i4 i5 i6 i7 : UInt64) (block : Bytes)
    (hb : 128 ≤ block.length) (ft : M256i) :
    ∃ out : Vector UInt64 8,
      Avx2B.compress_b_avx2 #v[h0, h1, h2, h3, h4, h5, h6, h7] block #v[i0, i1, i2, i3, i4, i5, i6, i7] (toQ ft) = some out ∧
      compress_b_avx2_src [h0, h1, h2, h3, h4, h5, h6, h7] 0 block 0 [i0, i1, i2, i3, i4, i5, i6, i7] 0 ft = .ok out.toList :=
  Avx2I.compress_b_avx2_src_eq_model h0 h1 h2 h3 h4 h5 h6 h7 i0 i1 i2 i3 i4 i5 i6 i7 block hb ft

/-- **`avx2::compress_b`** -/
theorem compress_b_src_eq_model (h0 h1 h2 h3 h4 h5 h6 h7 t0 t1 : UInt64) (buf : Bytes) (hb : 128 ≤ buf.length) (last : LastBlock) :
    ∃ out : Vector UInt64 8, avx2_compress_b #v[h0, h1, h2, h3, h4, h5, h6, h7] t0.toNat t1.toNat buf last = some out ∧
      Blake2Avx2.compress_b_src [h0, h1, h2, h3, h4, h5, h6, h7] [t0, t1] buf last = .ok (out.toList, [t0, t1]) :=
  compress_b_src_eq_model2 h0 h1 h2 h3 h4 h5 h6 h7 t0 t1 buf hb last

theorem compress_b_src_eq_reference (h0 h1 h2 h3 h4 h5 h6 h7 t0 t1 : UInt64) (buf : Bytes) (hb : 128 ≤ buf.length) (last : LastBlock) :
    Blake2Avx2.compress_b_src [h0, h1, h2, h3, h4, h5, h6, h7] [t0, t1] buf last
      = .ok ((reference_compress Impl.Blake2.b #v[h0, h1, h2, h3, h4, h5, h6, h7] t0.toNat t1.toNat buf last).toList, [t0, t1]) := by
  obtain ⟨out, hm, hs⟩ := compress_b_src_eq_model h0 h1 h2 h3 h4 h5 h6 h7 t0 t1 buf hb last
  rw [Cx.Props.C16.blake2b_avx2_compress] at hm
  cases hm
  exact hs

end Avx2B

end Cx.Props.C16.GlueTieSimdBlake2
