import CxVerif.Impl.SimdBlake2
namespace Cx.Props.C16
end Cx.Props.C16
