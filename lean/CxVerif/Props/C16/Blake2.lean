/-
  Props.C16 (BLAKE2 part, DESIGN C16 (iii)) — the vectorised BLAKE2 compressions agree with the portable reference.

  Models: Impl.SimdBlake2 (lane models of avx.rs `compress_b`/`compress_s` and avx2.rs `compress_b`; the pshufb
  masks, shuffle immediates, shift amounts, DIAGONALIZE immediates, the message-gathering macros and the `ROUND!`
  sequence are EXTRACTED from the source on every run) against Impl.Blake2.reference_compress (= RFC 7693 `F`,
  Props/C01/Blake2.lean).  All statements are for EVERY chaining value, EVERY pair of counter words, EVERY block and
  both values of the last-block flag; no hypothesis.

  What is NOT a theorem (partial by nature): that a `-C target-feature` build executes these lane operations, that
  the aligned loads `_mm_load_si128(h)` / `_mm256_load_si256(h)` never fault (alignment promised by
  `#[repr(align(32))]`), and which `cfg` blocks the compiler keeps — observed by the ops `simd.blake2b/s` through the
  four harness builds.  The dispatch theorems are about the extracted `[feature, module]` tables of mod.rs.
-/
import CxVerif.Proofs.SimdBlake2Compress
import CxVerif.Proofs.SimdBlake2Ctx
import CxVerif.Props.C01.Blake2
namespace Cx.Props.C16
open Cx Cx.Impl.Simd Cx.Impl.SimdBlake2 Cx.Proofs.SimdBlake2
open Cx.Spec.Blake2 (msel)
open Cx.Impl.Blake2 (sigmaRow LastBlock reference_compress)

/-! ### (1) every rotation implementation is the rotation by the RFC amount -/

/-- avx.rs BLAKE2b: pshufb masks `r16`, `r24`, `_mm_shuffle_epi32(_, _MM_SHUFFLE(2,3,0,1))`, `srli 63 ^ slli 1`
    = rotate right by 16, 24, 32, 63 on both lanes, every register value -/
theorem blake2b_avx_rotations (r : V2x64) :
    AvxB.rotate32_epi64 r = ⟨rotr64 r.l0 32, rotr64 r.l1 32⟩ ∧
    AvxB.rotate24_epi64 r = ⟨rotr64 r.l0 24, rotr64 r.l1 24⟩ ∧
    AvxB.rotate16_epi64 r = ⟨rotr64 r.l0 16, rotr64 r.l1 16⟩ ∧
    AvxB.rotate63_epi64 r = some ⟨rotr64 r.l0 63, rotr64 r.l1 63⟩ :=
  ⟨avxb_rotate32 r, avxb_rotate24 r, avxb_rotate16 r, avxb_rotate63 r⟩

/-- avx.rs BLAKE2s: pshufb masks `r16`, `r8`, `srli 12 ^ slli 20`, `srli 7 ^ slli 25` = rotate right by 16, 12, 8, 7 -/
theorem blake2s_avx_rotations (r : V4x32) :
    AvxS.rotate16_epi32 r = ⟨rotr32 r.l0 16, rotr32 r.l1 16, rotr32 r.l2 16, rotr32 r.l3 16⟩ ∧
    AvxS.rotate12_epi32 r = some ⟨rotr32 r.l0 12, rotr32 r.l1 12, rotr32 r.l2 12, rotr32 r.l3 12⟩ ∧
    AvxS.rotate8_epi32 r = ⟨rotr32 r.l0 8, rotr32 r.l1 8, rotr32 r.l2 8, rotr32 r.l3 8⟩ ∧
    AvxS.rotate7_epi32 r = some ⟨rotr32 r.l0 7, rotr32 r.l1 7, rotr32 r.l2 7, rotr32 r.l3 7⟩ :=
  ⟨avxs_rotate16 r, avxs_rotate12 r, avxs_rotate8 r, avxs_rotate7 r⟩

/-- avx2.rs: `rot32` (dword shuffle), `rot24`, `rot16` (32-byte pshufb masks, per 128-bit half), `rot63` (`srli 63 | (v + v)`) -/
theorem blake2b_avx2_rotations (v : V4x64) :
    Avx2B.rot32 v = ⟨rotr64 v.l0 32, rotr64 v.l1 32, rotr64 v.l2 32, rotr64 v.l3 32⟩ ∧
    Avx2B.rot24 v = ⟨rotr64 v.l0 24, rotr64 v.l1 24, rotr64 v.l2 24, rotr64 v.l3 24⟩ ∧
    Avx2B.rot16 v = ⟨rotr64 v.l0 16, rotr64 v.l1 16, rotr64 v.l2 16, rotr64 v.l3 16⟩ ∧
    Avx2B.rot63 v = some ⟨rotr64 v.l0 63, rotr64 v.l1 63, rotr64 v.l2 63, rotr64 v.l3 63⟩ :=
  ⟨avx2_rot32 v, avx2_rot24 v, avx2_rot16 v, avx2_rot63 v⟩

/-! ### (2) message gathering = m[SIGMA[r][i]]  (table theorems over the extracted shuffle programs) -/

/-- `load0! … load9!` of `compress_b_avx`: for every message and every r < 10 the eight gathered vectors are
    `(m[σ0], m[σ2]) (m[σ4], m[σ6]) (m[σ1], m[σ3]) (m[σ5], m[σ7]) (m[σ8], m[σ10]) (m[σ12], m[σ14]) (m[σ9], m[σ11]) (m[σ13], m[σ15])`, σ = SIGMA[r] -/
theorem blake2b_avx_loads_eq_sigma (w : Vector UInt64 16) (r : Nat) (h : r < 10) :
    AvxB.load (AvxB.msgVecs w) r = some (avxbExpected w (sigmaRow r)) := avxb_loads_eq_sigma w r h

/-- `load0! … load9!` of `compress_s_avx` (blend / byte-shift / unpack / shuffle chains):
    `(m[σ0], m[σ2], m[σ4], m[σ6]) (m[σ1], m[σ3], m[σ5], m[σ7]) (m[σ8], m[σ10], m[σ12], m[σ14]) (m[σ9], m[σ11], m[σ13], m[σ15])` -/
theorem blake2s_avx_loads_eq_sigma (w : Vector UInt32 16) (r : Nat) (h : r < 10) :
    AvxS.load (AvxS.msgVecs w) r = some (avxsExpected w (sigmaRow r)) := avxs_loads_eq_sigma w r h

/-- `load0! … load9!` of `compress_b_avx2`: the diagonal halves come in the lane order 7, 4, 5, 6 of the a-rotating
    DIAGONALIZE: `(σ0, σ2, σ4, σ6) (σ1, σ3, σ5, σ7) (σ14, σ8, σ10, σ12) (σ15, σ9, σ11, σ13)` -/
theorem blake2b_avx2_loads_eq_sigma (w : Vector UInt64 16) (r : Nat) (h : r < 10) :
    Avx2B.load (Avx2B.msgVecs w) r = some (avx2Expected w (sigmaRow r)) := avx2_loads_eq_sigma w r h

/-- the `ROUND!` sequences use rows 0..9 (0..9, 0, 1 for BLAKE2b) = the rows of the reference `compressbody!` -/
theorem blake2_simd_round_sequence :
    Extracted.Simd.B_AVX_ROUNDS.map sigmaRow = Impl.Blake2.compressRows Impl.Blake2.b ∧
    Extracted.Simd.B_AVX2_ROUNDS.map sigmaRow = Impl.Blake2.compressRows Impl.Blake2.b ∧
    Extracted.Simd.S_AVX_ROUNDS.map sigmaRow = Impl.Blake2.compressRows Impl.Blake2.s := ⟨b_rows, b2_rows, s_rows⟩

/-! ### (3) one vector round = one reference round (G on rows + DIAGONALIZE/UNDIAGONALIZE = G on columns and diagonals) -/

theorem blake2b_avx_round (s : AvxB.Rows) (w : Vector UInt64 16) (σ : List Nat) :
    ∃ s', AvxB.ROUND avxbRot63 s (avxbExpected w σ) = some s' ∧
      avxbV16 s' = Spec.Blake2.round 32 24 16 63 w (avxbV16 s) σ := avxb_ROUND s w σ

theorem blake2s_avx_round (s : AvxS.Rows) (w : Vector UInt32 16) (σ : List Nat) :
    ∃ s', AvxS.ROUND avxsRots s (avxsExpected w σ) = some s' ∧
      avxsV16 s' = Spec.Blake2.round 16 12 8 7 w (avxsV16 s) σ := avxs_ROUND s w σ

theorem blake2b_avx2_round (s : Avx2B.Rows) (w : Vector UInt64 16) (σ : List Nat) :
    ∃ s', Avx2B.ROUND avx2Rot63 s (avx2Expected w σ) = some s' ∧
      avx2V16 s' = Spec.Blake2.round 32 24 16 63 w (avx2V16 s) σ := avx2_ROUND s w σ

/-! ### (4) the compressions, including the counter / flag vector and the feed-forward -/

/-- **avx::compress_b = reference::compress_b** for every chaining value, counter words `t0 t1` (as the code holds
    them: `[u64; 2]` loaded as one register), block and flag (`_mm_set_epi64x(0, -1)`) -/
theorem blake2b_avx_compress (h : Vector UInt64 8) (t0 t1 : Nat) (buf : Bytes) (last : LastBlock) :
    avx_compress_b h t0 t1 buf last = some (reference_compress Impl.Blake2.b h t0 t1 buf last) :=
  avx_compress_b_eq h t0 t1 buf last

/-- **avx::compress_s = reference::compress_s**; counter/flag vector `_mm_set_epi32(0, -1|0, t[1], t[0])` -/
theorem blake2s_avx_compress (h : Vector UInt32 8) (t0 t1 : Nat) (buf : Bytes) (last : LastBlock) :
    avx_compress_s h t0 t1 buf last = some (reference_compress Impl.Blake2.s h t0 t1 buf last) :=
  avx_compress_s_eq h t0 t1 buf last

/-- **avx2::compress_b = reference::compress_b**; counter/flag vector `_mm256_set_epi64x(0, -1|0, t[1], t[0])` -/
theorem blake2b_avx2_compress (h : Vector UInt64 8) (t0 t1 : Nat) (buf : Bytes) (last : LastBlock) :
    avx2_compress_b h t0 t1 buf last = some (reference_compress Impl.Blake2.b h t0 t1 buf last) :=
  avx2_compress_b_eq h t0 t1 buf last

/-- non-vacuity / test: a concrete counter at the lane boundary, last block, evaluated -/
example : avx_compress_s Impl.Blake2.s.iv (2 ^ 32 - 1) (2 ^ 31) (List.replicate 64 0x61) .Yes
    = some (reference_compress Impl.Blake2.s Impl.Blake2.s.iv (2 ^ 32 - 1) (2 ^ 31) (List.replicate 64 0x61) .Yes) := by decide +kernel

/-! ### (5) dispatch (mod.rs): the extracted `[feature, module]` tables, and every feature set computes the portable function -/

/-- TABLE: `EngineB::compress` tries avx2 first, then avx; `EngineS::compress` only avx; otherwise `reference` -/
theorem blake2_dispatch_table (ft : Features) :
    selectPath ft Extracted.Simd.DISPATCH_BLAKE2B = (if ft.avx2 then 3 else if ft.avx then 2 else 0) ∧
    selectPath ft Extracted.Simd.DISPATCH_BLAKE2S = (if ft.avx then 2 else 0) := by
  obtain ⟨a, b, c⟩ := ft
  cases a <;> cases b <;> cases c <;> decide

/-- **for every feature set the engine's compression is the portable compression** -/
theorem blake2b_engine_compress (ft : Features) : IsReference Impl.Blake2.b (EngineB.compress ft) := by
  intro h t0 t1 buf last
  unfold EngineB.compress
  rw [(blake2_dispatch_table ft).1]
  cases h2 : ft.avx2
  · cases h1 : ft.avx
    · rfl
    · exact avx_compress_b_eq h t0 t1 buf last
  · exact avx2_compress_b_eq h t0 t1 buf last

theorem blake2s_engine_compress (ft : Features) : IsReference Impl.Blake2.s (EngineS.compress ft) := by
  intro h t0 t1 buf last
  unfold EngineS.compress
  rw [(blake2_dispatch_table ft).2]
  cases h1 : ft.avx
  · rfl
  · exact avx_compress_s_eq h t0 t1 buf last

/-- **whole histories**: construction (keyed or not), optional counter preset, any sequence of updates, finalisation —
    the digest does not depend on the feature set (this is what op `simd.blake2b` runs) -/
theorem blake2b_features_irrelevant (ft ft' : Features) (outlen : Nat) (key : Bytes) (counter : Option (Nat × Nat))
    (pieces : List Bytes) :
    blake2b_with ft outlen key counter pieces = blake2b_with ft' outlen key counter pieces :=
  hash_with_congr _ _ _ (blake2b_engine_compress ft) (blake2b_engine_compress ft') outlen key counter pieces

theorem blake2s_features_irrelevant (ft ft' : Features) (outlen : Nat) (key : Bytes) (counter : Option (Nat × Nat))
    (pieces : List Bytes) :
    blake2s_with ft outlen key counter pieces = blake2s_with ft' outlen key counter pieces :=
  hash_with_congr _ _ _ (blake2s_engine_compress ft) (blake2s_engine_compress ft') outlen key counter pieces

/-- **every build computes RFC 7693**: with the C01 theorem of unit blake2, for every feature set, every message,
    every valid output length and key -/
theorem blake2b_simd_eq_spec (ft : Features) (outlen : Nat) (key msg : Bytes) (ho : 1 ≤ outlen ∧ outlen ≤ 64)
    (hk : key.length ≤ 64) :
    blake2b_with ft outlen key none [msg] = some (Spec.Blake2.blake2b outlen key msg) := by
  unfold blake2b_with
  rw [hash_with_one _ _ (blake2b_engine_compress ft)]
  exact Cx.Props.C01.blake2b_eq_spec outlen key msg ho hk

theorem blake2s_simd_eq_spec (ft : Features) (outlen : Nat) (key msg : Bytes) (ho : 1 ≤ outlen ∧ outlen ≤ 32)
    (hk : key.length ≤ 32) :
    blake2s_with ft outlen key none [msg] = some (Spec.Blake2.blake2s outlen key msg) := by
  unfold blake2s_with
  rw [hash_with_one _ _ (blake2s_engine_compress ft)]
  exact Cx.Props.C01.blake2s_eq_spec outlen key msg ho hk

example : (1 ≤ 32 ∧ 32 ≤ 64) ∧ ([1, 2, 3] : Bytes).length ≤ 64 := by decide

end Cx.Props.C16
