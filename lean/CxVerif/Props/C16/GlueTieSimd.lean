/-
  Props.C16.GlueTieSimd — the translator tie for the VECTORISED code of src/chacha/sse2.rs (family (a) of the SIMD glue).

  `Extracted/GlueSimd.lean` is regenerated from the CURRENT Rust source on every run by tools/ktx_glue_simd.py (kernel specs
  tools/kernels/glue_simd.py): the intrinsic code itself — `_mm_add_epi32`, `_mm_shuffle_epi32`, `_mm_slli_epi32`, raw-pointer
  loads / stores through `as_ptr()`/`.add(k)`, the `Align128` detour of the counter functions, the `macro_rules!` rows — is
  translated statement by statement into the intrinsic definitions of Util/Intrinsics.lean (Intel's pseudo-code, unit-tested
  against the real instructions: Util/IntrinsicsHwTest.lean).  The theorems below prove every generated function equal to the
  hand-written SSE2 row model `Impl.ChaCha.Sse2` — about which Props/C16/ChaCha.lean proves "= portable reference for every
  input" — for ALL states and ALL inputs of every length.  `toM`/`toS` are the structure isomorphisms between a generated
  `M128i`/`State` and the model's `M128`/`State` (four 32-bit lanes each).

  What the generated functions say in addition to the model: where the code would commit UNDEFINED BEHAVIOUR (a raw 16-byte
  load/store outside the slice: `key32` on a key shorter than 32 bytes, `output_bytes` on a buffer shorter than 64) the
  generated function is `.error "UB"`; the theorems state the exact domain, and `init` — which tests the lengths first — is
  proved free of it.  The `Align128` functions can fail in the translation (bounds of `[u32; 4]`, alignment of the offset):
  the theorems show they never do.
-/
import CxVerif.Extracted.GlueSimd
import CxVerif.Proofs.GlueSimd
import CxVerif.Impl.ChaCha
namespace Cx.Props.C16.GlueTieSimd
open Cx Cx.Intrinsics Cx.Impl Cx.Impl.ChaCha Cx.Proofs.GlueSimd Cx.Extracted.GlueSimd.ChaChaSse2
set_option linter.unusedSimpArgs false

/-! ### constants and the `Align128` helper -/

theorem CST16_src_eq_model : CST16 = [Sse2.CST16.1, Sse2.CST16.2.1, Sse2.CST16.2.2.1, Sse2.CST16.2.2.2] := by decide
theorem CST32_src_eq_model : CST32 = [Sse2.CST32.1, Sse2.CST32.2.1, Sse2.CST32.2.2.1, Sse2.CST32.2.2.2] := by decide
theorem constant16_src_eq_model : constant16_src = .ok (ofM Sse2.constant16) := rfl
theorem constant32_src_eq_model : constant32_src = .ok (ofM Sse2.constant32) := rfl

/-- `Align128::zero()` is four zero words; `from_m128i` overwrites all four, `to_m128i` reads them back: neither the bounds
    nor the (offset) alignment check of the aligned `movdqa` forms can fail -/
theorem Align128_zero_src_eq : Align128_zero_src = [0, 0, 0, 0] := rfl
theorem Align128_from_m128i_src_eq (x0 x1 x2 x3 : UInt32) (v : M128i) :
    Align128_from_m128i_src [x0, x1, x2, x3] v = .ok [v.d0, v.d1, v.d2, v.d3] := rfl
theorem Align128_to_m128i_src_eq (x0 x1 x2 x3 : UInt32) : Align128_to_m128i_src [x0, x1, x2, x3] = .ok ⟨x0, x1, x2, x3⟩ := rfl

/-! ### the row macros and `rounds` -/

theorem add_rotate_xor_16_src_eq_model (a b c : M128i) :
    (toM (add_rotate_xor_16_src a b c).1, toM (add_rotate_xor_16_src a b c).2) = Sse2.add_rotate_xor (toM a) (toM b) (toM c) 16 := rfl
theorem add_rotate_xor_12_src_eq_model (a b c : M128i) :
    (toM (add_rotate_xor_12_src a b c).1, toM (add_rotate_xor_12_src a b c).2) = Sse2.add_rotate_xor (toM a) (toM b) (toM c) 12 := rfl
theorem add_rotate_xor_8_src_eq_model (a b c : M128i) :
    (toM (add_rotate_xor_8_src a b c).1, toM (add_rotate_xor_8_src a b c).2) = Sse2.add_rotate_xor (toM a) (toM b) (toM c) 8 := rfl
theorem add_rotate_xor_7_src_eq_model (a b c : M128i) :
    (toM (add_rotate_xor_7_src a b c).1, toM (add_rotate_xor_7_src a b c).2) = Sse2.add_rotate_xor (toM a) (toM b) (toM c) 7 := rfl

/-- `round!` takes and returns the four rows; the model takes the state -/
theorem round_src_eq_model (s : State) :
    (match round_src s.a s.b s.c s.d with | (a, b, c, d) => (⟨toM a, toM b, toM c, toM d⟩ : Sse2.State)) = Sse2.round (toS s) := rfl

theorem swizzle_src_eq_model (b c d : M128i) :
    (match swizzle_src b c d with | (x, y, z) => (toM x, toM y, toM z)) = Sse2.swizzle (toM b) (toM c) (toM d) := rfl

/-- one iteration of the loop of `rounds` -/
theorem rounds_loop1_src_step (n : Nat) (s : State) :
    rounds_loop1_src (n + 1) s = rounds_loop1_src n (ofS (Sse2.doubleRound (toS s))) := rfl

theorem rounds_loop1_src_eq_model (n : Nat) (s : State) : toS (rounds_loop1_src n s) = Sse2.loop Sse2.doubleRound n (toS s) := by
  induction n generalizing s with
  | zero => rfl
  | succ n ih => rw [rounds_loop1_src_step, ih]; rfl

/-- **`State::rounds`**, every `ROUNDS`, every state -/
theorem rounds_src_eq_model (R : Nat) (s : State) : toS (rounds_src R s) = Sse2.rounds R (toS s) :=
  rounds_loop1_src_eq_model (R / 2) s

/-! ### counters and feed-forward -/

theorem set_counter_src_eq_model (s : State) (counter : UInt32) :
    set_counter_src s counter = .ok (ofS (Sse2.set_counter (toS s) counter)) := rfl
theorem verif_set_counter64_src_eq_model (s : State) (counter : UInt64) :
    verif_set_counter64_src s counter = .ok (ofS (Sse2.verif_set_counter64 (toS s) counter)) := rfl
theorem increment_src_eq_model (s : State) : increment_src s = .ok (ofS (Sse2.increment (toS s))) := rfl

/-- `overflowing_add(1)`: the translator writes the flag as "the 33-bit sum reaches 2^32", the model as `lane0 = 0xFFFFFFFF` -/
theorem increment64_src_eq_model (s : State) : increment64_src s = .ok (ofS (Sse2.increment64 (toS s))) := by
  rcases s with ⟨a, b, c, ⟨d0, d1, d2, d3⟩⟩
  have h : (2 ^ 32 ≤ d0.toNat + (1 : UInt32).toNat) ↔ d0 = 0xFFFFFFFF := by
    rw [← UInt32.toNat_inj]
    have := d0.toNat_lt
    show 2 ^ 32 ≤ d0.toNat + 1 ↔ d0.toNat = 4294967295
    omega
  by_cases h1 : d0 = 0xFFFFFFFF
  · subst h1; rfl
  · have h2 : decide (2 ^ 32 ≤ d0.toNat + (1 : UInt32).toNat) = false := by
      rw [decide_eq_false_iff_not]; exact fun hh => h1 (h.mp hh)
    unfold increment64_src Sse2.increment64
    simp only [Align128_zero_src, Glue.fill, List.replicate, Align128_from_m128i_src, _mm_store_si128_u32, _mm_storeu_si128_u32, Glue.index]
    have h3 : ¬ 4294967295 ≤ d0.toNat := by
      intro hh; apply h1; apply UInt32.toNat_inj.mp
      have := d0.toNat_lt
      show d0.toNat = 4294967295
      omega
    simp [h3, h1, toS, toM]
    rfl

theorem add_back_src_eq_model (s initial : State) : toS (add_back_src s initial) = Sse2.add_back (toS s) (toS initial) := rfl

/-! ### key / nonce loading and `init` -/

/-- `key32`: two raw 16-byte loads; UB exactly when the key is shorter than 32 bytes -/
theorem key32_src_eq_model (key : Bytes) :
    key32_src key = if 32 ≤ key.length then .ok (ofM3 (Sse2.key32 key)) else .error "UB" := by
  unfold key32_src
  rw [constant32_src_eq_model]
  simp only [loadu_eq]
  by_cases h16 : 0 + 16 ≤ key.length <;> by_cases h32 : 16 + 16 ≤ key.length
  · rw [if_pos h16, if_pos h32, if_pos (by omega)]; rfl
  · rw [if_pos h16, if_neg h32, if_neg (by omega)]
  · omega
  · rw [if_neg h16, if_neg h32, if_neg (show ¬ 32 ≤ key.length by omega)]

/-- `key16`: one raw 16-byte load; UB exactly when the key is shorter than 16 bytes -/
theorem key16_src_eq_model (key : Bytes) :
    key16_src key = if 16 ≤ key.length then .ok (ofM3 (Sse2.key16 key)) else .error "UB" := by
  unfold key16_src
  rw [constant16_src_eq_model]
  simp only [loadu_eq]
  by_cases h16 : 0 + 16 ≤ key.length
  · rw [if_pos h16, if_pos (by omega)]; rfl
  · rw [if_neg h16, if_neg (by omega)]

/-- **`nonce`**, every length: 16 → the load, 12 / 8 → the words placed through `Align128`, anything else `unreachable!()` -/
theorem nonce_src_eq_model (nonce : Bytes) : nonce_src nonce = (Sse2.nonce nonce).map ofM := by
  unfold nonce_src Sse2.nonce
  by_cases h16 : nonce.length = 16
  · rw [if_pos h16, if_pos h16, loadu_eq, if_pos (by omega)]; rfl
  · rw [if_neg h16, if_neg h16]
    by_cases h12 : nonce.length = 12
    · simp only [h12, Glue.slice]
      rfl
    · by_cases h8 : nonce.length = 8
      · simp only [h8, Glue.slice]
        rfl
      · simp only [if_neg h12, if_neg h8]; rfl

/-- **`State::init`** = the model's `init` for EVERY key and nonce (of any length): the length tests of `init` keep the raw
    loads of `key32`/`key16`/`nonce` inside the slices — no `"UB"` result is possible -/
theorem init_src_eq_model (key nonce : Bytes) : init_src key nonce = (Sse2.init key nonce).map ofS := by
  unfold init_src Sse2.init
  by_cases h32 : key.length = 32
  · rw [if_pos h32, if_pos h32, key32_src_eq_model, if_pos (by omega), nonce_src_eq_model]
    cases Sse2.nonce nonce <;> rfl
  · rw [if_neg h32, if_neg h32]
    by_cases h16 : key.length = 16
    · rw [if_pos h16, if_pos h16, key16_src_eq_model, if_pos (by omega), nonce_src_eq_model]
      cases Sse2.nonce nonce <;> rfl
    · rw [if_neg h16, if_neg h16]; rfl

/-! ### serialisation -/

/-- **`output_bytes`**: four raw 16-byte stores overwrite the first 64 bytes of `output` with the model's serialisation; UB
    exactly when the buffer is shorter than 64 bytes (the callers in chacha20.rs pass `&mut [u8; 64]` / a 64-byte array) -/
theorem output_bytes_src_eq_model (s : State) (output : Bytes) :
    output_bytes_src s output =
      if 64 ≤ output.length then .ok (Sse2.output_bytes (toS s) ++ output.drop 64) else .error "UB" := by
  unfold output_bytes_src
  by_cases h : 64 ≤ output.length
  · rw [if_pos h]
    have e0 := storeu_append [] output 0 s.a rfl (by omega)
    rw [List.nil_append] at e0
    rw [e0]; dsimp only
    have e1 := storeu_append ([] ++ s.a.bytes) (output.drop 16) 16 s.b rfl (by rw [List.length_drop]; omega)
    rw [e1]; dsimp only
    have e2 := storeu_append ([] ++ s.a.bytes ++ s.b.bytes) ((output.drop 16).drop 16) 32 s.c rfl (by simp only [List.length_drop]; omega)
    rw [e2]; dsimp only
    have e3 := storeu_append ([] ++ s.a.bytes ++ s.b.bytes ++ s.c.bytes) (((output.drop 16).drop 16).drop 16) 48 s.d rfl
      (by simp only [List.length_drop]; omega)
    rw [e3]; dsimp only
    simp only [List.nil_append, List.drop_drop, bytes_eq_storeu, Sse2.output_bytes, List.append_assoc]
    rfl
  · rw [if_neg h]
    by_cases h0 : 0 + 16 ≤ output.length
    · have e0 := storeu_append [] output 0 s.a rfl (by omega)
      rw [List.nil_append] at e0
      rw [e0]; dsimp only
      by_cases h1 : 16 ≤ (output.drop 16).length
      · have e1 := storeu_append ([] ++ s.a.bytes) (output.drop 16) 16 s.b rfl h1
        rw [e1]; dsimp only
        by_cases h2 : 16 ≤ ((output.drop 16).drop 16).length
        · have e2 := storeu_append ([] ++ s.a.bytes ++ s.b.bytes) ((output.drop 16).drop 16) 32 s.c rfl h2
          rw [e2]; dsimp only
          rw [storeu_fail]
          simp only [List.length_append, List.length_drop, bytes_length, List.length_nil] at h2 ⊢
          omega
        · rw [storeu_fail]
          simp only [List.length_append, List.length_drop, bytes_length, List.length_nil] at h2 ⊢
          omega
      · rw [storeu_fail]
        simp only [List.length_append, List.length_drop, bytes_length, List.length_nil] at h1 ⊢
        omega
    · rw [storeu_fail _ _ _ h0]

/-- **`output_ad_bytes`** (`output: &mut [u8; 32]`): rows a and d -/
theorem output_ad_bytes_src_eq_model (s : State) (output : Bytes) :
    output_ad_bytes_src s output =
      if 32 ≤ output.length then .ok (Sse2.output_ad_bytes (toS s) ++ output.drop 32) else .error "UB" := by
  unfold output_ad_bytes_src
  by_cases h : 32 ≤ output.length
  · rw [if_pos h]
    have e0 := storeu_append [] output 0 s.a rfl (by omega)
    rw [List.nil_append] at e0
    rw [e0]; dsimp only
    have e1 := storeu_append ([] ++ s.a.bytes) (output.drop 16) 16 s.d rfl (by rw [List.length_drop]; omega)
    rw [e1]; dsimp only
    simp only [List.nil_append, List.drop_drop, bytes_eq_storeu, Sse2.output_ad_bytes, List.append_assoc]
    rfl
  · rw [if_neg h]
    by_cases h0 : 0 + 16 ≤ output.length
    · have e0 := storeu_append [] output 0 s.a rfl (by omega)
      rw [List.nil_append] at e0
      rw [e0]; dsimp only
      rw [storeu_fail]
      simp only [List.length_append, List.length_drop, bytes_length, List.length_nil] at ⊢
      omega
    · rw [storeu_fail _ _ _ h0]

/-! ### capstone: the block function of the translated source is the portable reference -/

/-- the keystream block computed by the TRANSLATED `rounds`, `add_back`, `output_bytes` (what `ChaCha::update` runs on an
    x86-64 build) is the model's `sse2Engine.block`, for every state and every round count; Props/C16/ChaCha.lean
    (`chacha_sse2_block`) then equates it with the portable engine -/
theorem block_src_eq_model (R : Nat) (s : State) (out : Bytes) (h : out.length = 64) :
    output_bytes_src (add_back_src (rounds_src R s) s) out = .ok (sse2Engine.block R (toS s)) := by
  rw [output_bytes_src_eq_model, if_pos (by omega), add_back_src_eq_model, rounds_src_eq_model]
  have : out.drop 64 = [] := List.drop_eq_nil_of_le (by omega)
  rw [this, List.append_nil]
  rfl

end Cx.Props.C16.GlueTieSimd
