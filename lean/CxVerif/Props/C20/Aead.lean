/-
  Props.C20.Aead — C20, AEAD part (src/chacha20poly1305.rs, model Impl.Aead): misuse is refused loudly, valid input
  never panics.

  (i)   valid input never panics — the `= .ok …` of every C06/C07 theorem (Props.C06.Aead `aead_oneshot_encrypt`,
        `aead_oneshot_decrypt`, `aead_streamed_encrypt`, `aead_streamed_decrypt`): for key lengths 16/32, 12-byte nonce,
        R ∈ {8,12,20}, AAD and data below 2^64 bytes and ANY partition, no assert, no checked-arithmetic overflow
        (`aad_len += …`, `data_len += …` on u64, `16 - len % 16`) and no panic of the ChaCha / Poly1305 layers is reached.
        The u64 `+=` can overflow only beyond 2^64 bytes of AAD or data; so the value returned cannot depend on the
        overflow-check profile inside the domain.
  (ii)  refusals, stated outright below: reuse of a finished one-shot object (after encrypt AND after decrypt, whatever
        the verdict), wrong output / tag buffer lengths (one-shot and incremental), wrong key length, refused round
        count.  Wrong nonce length and a `Tag` of another length are refused by the Rust type system
        (`&[u8; 12]`, `Tag([u8; 16])`): model answer `bad-args`, not a run-time behaviour.
-/
import CxVerif.Proofs.AeadOneShot
import CxVerif.Proofs.AeadDeps
namespace Cx.Props.C20.Aead
open Cx Cx.Impl Cx.Impl.Aead Cx.Proofs.Aead
set_option linter.unusedSimpArgs false
set_option linter.unusedVariables false

variable {σ : Type}
variable {E : ChaCha.Engine σ} {R : Nat} {key nonce : Bytes}

/-- a successful `encrypt` finishes the object; every later `encrypt` or `decrypt` on it panics -/
theorem reuse_after_encrypt_refused (o o' : ChaChaPoly1305 σ) (pt ct tag : Bytes) (n l : Nat)
    (h : ChaChaPoly1305.encrypt E R o pt n l = .ok (o', ct, tag)) :
    o'.finished = true ∧
    (∀ input n' l', ChaChaPoly1305.encrypt E R o' input n' l' = .error "PANIC") ∧
    (∀ input n' t, ChaChaPoly1305.decrypt E R o' input n' t = .error "PANIC") := by
  have hf : o'.finished = true := by
    unfold ChaChaPoly1305.encrypt at h
    split at h
    · cases h
    · split at h
      · cases h
      · split at h
        · cases h
        · simp only at h
          split at h
          · cases h
          · split at h
            · cases h
            · split at h
              · cases h
              · simp only [Except.ok.injEq, Prod.mk.injEq] at h
                rw [← h.1]
  exact ⟨hf, fun i n' l' => oneshot_finished_refuses_encrypt o' hf i n' l',
    fun i n' t => oneshot_finished_refuses_decrypt o' hf i n' t⟩

/-- a `decrypt` that returned (whatever its verdict) finishes the object as well -/
theorem reuse_after_decrypt_refused (o o' : ChaChaPoly1305 σ) (ct out tag : Bytes) (n : Nat) (v : Bool)
    (h : ChaChaPoly1305.decrypt E R o ct n tag = .ok (o', out, v)) :
    o'.finished = true ∧
    (∀ input n' l', ChaChaPoly1305.encrypt E R o' input n' l' = .error "PANIC") ∧
    (∀ input n' t, ChaChaPoly1305.decrypt E R o' input n' t = .error "PANIC") := by
  have hf : o'.finished = true := by
    unfold ChaChaPoly1305.decrypt at h
    split at h
    · cases h
    · split at h
      · cases h
      · split at h
        · cases h
        · simp only at h
          split at h
          · cases h
          · split at h
            · cases h
            · split at h
              · cases h
              · simp only [Except.ok.injEq, Prod.mk.injEq] at h
                rw [← h.1]
  exact ⟨hf, fun i n' l' => oneshot_finished_refuses_encrypt o' hf i n' l',
    fun i n' t => oneshot_finished_refuses_decrypt o' hf i n' t⟩

/-- one-shot `encrypt`: output buffer of another length than the input, or tag buffer not 16 bytes: panic -/
theorem oneshot_encrypt_bad_lengths (o : ChaChaPoly1305 σ) (input : Bytes) (n l : Nat)
    (h : input.length ≠ n ∨ l ≠ 16) : ChaChaPoly1305.encrypt E R o input n l = .error "PANIC" :=
  oneshot_encrypt_refuses_lengths o input n l h

/-- one-shot `decrypt`: output buffer of another length, or tag not 16 bytes: panic -/
theorem oneshot_decrypt_bad_lengths (o : ChaChaPoly1305 σ) (input : Bytes) (n : Nat) (tag : Bytes)
    (h : input.length ≠ n ∨ tag.length ≠ 16) : ChaChaPoly1305.decrypt E R o input n tag = .error "PANIC" :=
  oneshot_decrypt_refuses_lengths o input n tag h

/-- incremental `encrypt` / `decrypt` into an output buffer of another length: panic (`assert_eq!`) -/
theorem incremental_bad_output_length (c : Context σ) (input : Bytes) (n : Nat) (h : input.length ≠ n) :
    ContextEncryption.encrypt E R c input n = .error "PANIC" ∧
    ContextDecryption.decrypt E R c input n = .error "PANIC" := by
  simp [ContextEncryption.encrypt, ContextDecryption.decrypt, h]

/-- a key that is neither 16 nor 32 bytes is refused by `Context::new` and by `ChaChaPoly1305::new` -/
theorem new_refuses_key_length (hn : nonce.length = 12) (hk : ¬ (key.length = 16 ∨ key.length = 32)) (aad : Bytes) :
    (∃ e, Context.new E R key nonce = .error e ∧ e = "PANIC") ∧
    (∃ e, ChaChaPoly1305.new E R key nonce aad = .error e ∧ e = "PANIC") := by
  have h1 : Context.new E R key nonce = .error "PANIC" := by simp [Context.new, hn, hk]
  exact ⟨⟨_, h1, rfl⟩, ⟨_, by simp [ChaChaPoly1305.new, h1], rfl⟩⟩

/-- a round count other than 8, 12, 20 is refused (by the `assert!` of `ChaCha::new`) -/
theorem new_refuses_rounds (hn : nonce.length = 12) (hk : key.length = 16 ∨ key.length = 32)
    (hR : ¬ (R = 8 ∨ R = 12 ∨ R = 20)) : Context.new E R key nonce = .error "PANIC" := by
  have : ChaCha.roundsOk R = false := by
    simp only [ChaCha.roundsOk, Bool.or_eq_false_iff, beq_eq_false_iff_ne, ne_eq]
    exact ⟨⟨fun h => hR (Or.inl h), fun h => hR (Or.inr (Or.inl h))⟩, fun h => hR (Or.inr (Or.inr h))⟩
  simp [Context.new, ChaCha.ChaCha.new, hn, hk, this]

/-- every call of the incremental interface that the abstract machine (Proofs.AeadHist `absStep`: typing by phase,
    equal buffer lengths, 16-byte tag) does not allow is refused by the model -/
theorem incremental_step_refused (st : Phase × Context σ) (a : AbsSt) (op : Op)
    (hph : st.1 = a.phase) (h : absStep R key nonce a op = none) : ∃ e, step E R st op = .error e :=
  step_refuses E R key nonce st a op hph h

/-- non-vacuity: a 24-byte key and R = 10 are such inputs -/
example : ¬ ((List.replicate 24 (0 : UInt8)).length = 16 ∨ (List.replicate 24 (0 : UInt8)).length = 32) := by decide
example : ¬ ((10 : Nat) = 8 ∨ (10 : Nat) = 12 ∨ (10 : Nat) = 20) := by decide

end Cx.Props.C20.Aead
