/-
  Props.C20.Refusal — C20, second half: "Arguments the API defines as invalid … are refused by a deterministic panic
  or error and never by truncating, reading out of bounds or returning a value."

  THE REFUSAL MATRIX of the public API, one row per entry point.  Every row is a decision theorem
        f args refuses  ↔  ¬ Valid args            (…_refused_iff / …_none_iff / …_panic_iff / …_err_iff)
        Valid args  →  ∃ v, f args = value v       (…_ok)
  about the code-shaped model of the entry point (`Except.error "PANIC"` / `none` = the Rust code panics,
  `Err(_)` = it returns an error; the glue-tie theorems `Props/**/GlueTie*.lean` prove the models equal to what the
  translators generate from the CURRENT source, the correspondence run compares them with the real crate in three
  build profiles).  `Valid…` is the DOCUMENTED domain, written out as a decidable predicate on lengths / parameters and
  quoted from the crate's doc comments and asserts in `Proofs/Refusal*.lean` (where the proofs are); each is restated
  here by an `Iff.rfl` example, with one argument inside and one outside it.

    entry point                                  Valid                          theorems
    ChaCha::<R>::new(key, &[u8;12])              ValidChaChaNew R key nonce     chacha_new_refused_iff / _panic_iff / _ok
    ChaChaOriginal::<R>::new(key, &[u8;8])       ValidNew8 R key nonce          chachaorig_new_…
    XChaCha::<R>::new(&[u8;32], &[u8;24])        ValidNewX R key nonce          xchacha_new_…
    Salsa::<R>::new(key, &[u8;8])                ValidNew8                      salsa_new_…
    XSalsa::<R>::new(&[u8;32], &[u8;24])         ValidNewX                      xsalsa_new_…
    Drg::<R>::new(&[u8;32])                      ValidDrgNew R seed             drg_new_panic_iff / drg_new_ok
    process(input, output)                       input.len() = output.len()     stream_process_panic_iff / stream_process_ok
    process_mut(data), seek(u32)                 (no invalid argument)          stream_process_mut_ok, stream_seek_total
    Poly1305::new(&[u8;32])                      (length is a type)             —
    Poly1305 input / raw_result(out) / result    ValidPolyOp finished op        poly1305_refused_iff / _refusal_is_assertion / _valid_ok,
                                                                                poly1305_second_result_same
    Digest objects (16 wrappers) input/result    ValidCall outBytes ⊥ finished  legacy_digest_matrix, legacy_digest_instances
    Hmac<D> input / result / raw_result(out)     ValidCall outBytes ⊥ finished  hmac_matrix
    Blake2b/Blake2s (legacy) new / new_keyed     outlen, key limits             legacy_blake2b_new_none_iff, …_new_keyed_none_iff (b, s)
      … input / result / reset_with_key          ValidCall outlen (≤ maxKey)    legacy_blake2_matrix, legacy_blake2_new_keyed_reachable
    blake2b/s Context::<BITS>::new / new_keyed   ValidBlake2Bits 64|32 …        blake2b_context_new_keyed_none_iff, blake2s_…
    blake2b/s ContextDyn::new / new_keyed        ValidBlake2Dyn 64|32 …         blake2b_contextdyn_new_keyed_none_iff, blake2s_…
      finalize_at / finalize_reset_at(out)       out.len() = outlen             blake2_finalize_at_none_iff, blake2_finalize_reset_at_none_iff
      reset_with_key / finalize_reset_with_key   key.len() ≤ MAX_KEYLEN         blake2_reset_with_key_none_iff, blake2_finalize_reset_with_key_at_none_iff
      update / update_mut                        (no invalid argument)          blake2_update_mut_ok
    sha3 / keccak contexts                       (no refusal reachable)         sha3_engine_refusals, sha3_public_api_never_reaches_them
    hkdf_extract(.., prk)                        ValidHkdfExtract HashLen n     hkdf_extract_none_iff / _ok
    hkdf_expand(.., prk, .., okm)                ValidHkdfExpand HashLen |prk| L  hkdf_expand_none_iff / _none_iff_lengths / _ok,
                                                                                hkdf_expand_old_accepts_short_prk (witness, defect (m))
    pbkdf2(mac, salt, c, out)                    ValidPbkdf2 hLen c dkLen       pbkdf2_none_iff, pbkdf2_c0_refused
    ScryptParams::new(log_n, r, p)               ValidScryptParams log_n r p    scrypt_params_none_iff / _ok, scrypt_params_accepts_iff (re-export)
    scrypt(.., params, out)                      ValidScryptOut dkLen           scrypt_none_iff, scrypt_out_refused
    argon2::Params::parallelism / iterations /   ValidArgon2Parallelism / …     argon2_parallelism_err_iff / _iterations_ / _version_,
      version / memory_kb, builder chain         ValidArgon2Build v t p         argon2_memory_kb_never_refuses, argon2_build_err_iff / _ok
    argon2_at(.., tag) / argon2::<T>             tag.len() ≠ 0                  argon2_at_none_iff, argon2_at_zero_refused
    x25519 TryFrom<&[u8]>                        len = 32                       x25519_tryfrom_none_iff / _ok
    ed25519 keypair / signature / verify         (lengths are types)            ed25519_no_refusal_needed
    AEAD (one-shot and incremental)              see Props/C20/Aead.lean        re-exported at the end

  Round counts: `ChaCha::<R>` &c. compile for every `usize` R; the constructors panic at run time for every R other
  than 8, 12, 20 (`assert!(ROUNDS == 8 || ROUNDS == 12 || ROUNDS == 20)`), before the key is read.
  BLAKE2 `BITS`: every 1 ≤ BITS ≤ 512 (256 for BLAKE2s) is accepted, multiples of 8 or not; the digest has ⌈BITS/8⌉
  bytes.  BITS = 0 and BITS > 512 (256) panic in `new` / `new_keyed`.

  WHERE CODE AND DOCUMENTATION DISAGREE (the `Valid` predicates follow the asserts; the documentation is quoted):
    * `Digest::result` (digest.rs): "This method may be called multiple times." and "out … Must be large enough to
      contain output_bits()."  Every implementation panics on the second call without `reset`
      (`assert!(!self.computed, …)`) and on a buffer LONGER than the digest (`copy_from_slice`): theorems
      `digest_doc_second_result_refused`, `digest_doc_longer_buffer_refused`.  Loud, never a wrong value.
    * `scrypt` asserts `output.len() / 32 <= 0xffffffff`, which lets (2^32−1)·32 < dkLen ≤ (2^32−1)·32+31 pass; those
      lengths are refused by the PBKDF2 block counter instead (`scrypt_none_iff`): no value is returned.
    * Argon2: `memory_kb` below 8·parallelism is raised silently, tag lengths 1..3 and short salts are accepted —
      the ranges property C20 names as documented-unchecked.
-/
import CxVerif.Proofs.RefusalStream
import CxVerif.Proofs.RefusalMac
import CxVerif.Proofs.RefusalHash
import CxVerif.Proofs.RefusalKdf
import CxVerif.Proofs.RefusalArgon2
import CxVerif.Props.C09.MacDigest
import CxVerif.Props.C13.Final
import CxVerif.Props.C14.Final
import CxVerif.Props.C20.Aead
namespace Cx.Props.C20.Refusal
open Cx Cx.Impl Cx.Proofs.Refusal
set_option linter.unusedSimpArgs false
set_option linter.unusedVariables false

/-! ## 1. stream ciphers -/
section stream
open Cx.Impl.StreamCtx Cx.Proofs.Stream Cx.Proofs.ChaCha
variable {σ : Type} {E : ChaCha.Engine σ} {α : σ → W16}

example (R : Nat) (key nonce : Bytes) : ValidChaChaNew R key nonce ↔
    ((key.length = 16 ∨ key.length = 32) ∧ nonce.length = 12 ∧ (R = 8 ∨ R = 12 ∨ R = 20)) := Iff.rfl
example (R : Nat) (key nonce : Bytes) : ValidNew8 R key nonce ↔
    ((key.length = 16 ∨ key.length = 32) ∧ nonce.length = 8 ∧ (R = 8 ∨ R = 12 ∨ R = 20)) := Iff.rfl
example (R : Nat) (key nonce : Bytes) : ValidNewX R key nonce ↔
    (key.length = 32 ∧ nonce.length = 24 ∧ (R = 8 ∨ R = 12 ∨ R = 20)) := Iff.rfl
example (R : Nat) (seed : Bytes) : ValidDrgNew R seed ↔ (seed.length = 32 ∧ (R = 8 ∨ R = 12 ∨ R = 20)) := Iff.rfl

example : ValidChaChaNew 20 (List.replicate 32 7) (List.replicate 12 1) := by decide
example : ¬ ValidChaChaNew 20 (List.replicate 31 7) (List.replicate 12 1) := by decide
example : ¬ ValidChaChaNew 10 (List.replicate 32 7) (List.replicate 12 1) := by decide
example : ValidNew8 8 (List.replicate 16 7) (List.replicate 8 1) := by decide
example : ¬ ValidNew8 8 (List.replicate 17 7) (List.replicate 8 1) := by decide
example : ValidNewX 12 (List.replicate 32 7) (List.replicate 24 1) := by decide
example : ¬ ValidNewX 13 (List.replicate 32 7) (List.replicate 24 1) := by decide
example : ValidDrgNew 8 (List.replicate 32 7) ∧ ¬ ValidDrgNew 0 (List.replicate 32 7) := by decide

/-- the two engines the crate has (portable, SSE2) satisfy the hypothesis `EngineSim` of the rows below -/
example : EngineSim ChaCha.referenceEngine id := referenceSim
example : EngineSim ChaCha.sse2Engine toRef := sse2Sim

/-- `ChaCha::<R>::new`: no context is returned iff the arguments are outside the documented domain -/
theorem chacha_new_refused_iff (S : EngineSim E α) (R : Nat) (key nonce : Bytes) :
    Refused (ChaCha.ChaCha.new E R key nonce) ↔ ¬ ValidChaChaNew R key nonce :=
  Cx.Proofs.Refusal.chacha_new_refused_iff S R key nonce
/-- … and, the nonce length being a type, what a caller can provoke is exactly the run-time panic -/
theorem chacha_new_panic_iff (S : EngineSim E α) (R : Nat) (key nonce : Bytes) (hn : nonce.length = 12) :
    ChaCha.ChaCha.new E R key nonce = .error "PANIC" ↔ ¬ (ValidKey1632 key ∧ ValidRounds R) :=
  Cx.Proofs.Refusal.chacha_new_panic_iff S R key nonce hn
theorem chacha_new_ok (S : EngineSim E α) (R : Nat) (key nonce : Bytes) (h : ValidChaChaNew R key nonce) :
    ∃ c, ChaCha.ChaCha.new E R key nonce = .ok c := Cx.Proofs.Refusal.chacha_new_ok S R key nonce h

theorem chachaorig_new_refused_iff (S : EngineSim E α) (R : Nat) (key nonce : Bytes) :
    Refused (ChaCha.ChaChaOriginal.new E R key nonce) ↔ ¬ ValidNew8 R key nonce :=
  Cx.Proofs.Refusal.chachaorig_new_refused_iff S R key nonce
theorem chachaorig_new_panic_iff (S : EngineSim E α) (R : Nat) (key nonce : Bytes) (hn : nonce.length = 8) :
    ChaCha.ChaChaOriginal.new E R key nonce = .error "PANIC" ↔ ¬ (ValidKey1632 key ∧ ValidRounds R) :=
  Cx.Proofs.Refusal.chachaorig_new_panic_iff S R key nonce hn
theorem chachaorig_new_ok (S : EngineSim E α) (R : Nat) (key nonce : Bytes) (h : ValidNew8 R key nonce) :
    ∃ c, ChaCha.ChaChaOriginal.new E R key nonce = .ok c := Cx.Proofs.Refusal.chachaorig_new_ok S R key nonce h

theorem xchacha_new_refused_iff (S : EngineSim E α) (R : Nat) (key nonce : Bytes) :
    Refused (ChaCha.XChaCha.new E R key nonce) ↔ ¬ ValidNewX R key nonce :=
  Cx.Proofs.Refusal.xchacha_new_refused_iff S R key nonce
theorem xchacha_new_panic_iff (S : EngineSim E α) (R : Nat) (key nonce : Bytes) (hk : key.length = 32)
    (hn : nonce.length = 24) : ChaCha.XChaCha.new E R key nonce = .error "PANIC" ↔ ¬ ValidRounds R :=
  Cx.Proofs.Refusal.xchacha_new_panic_iff S R key nonce hk hn
theorem xchacha_new_ok (S : EngineSim E α) (R : Nat) (key nonce : Bytes) (h : ValidNewX R key nonce) :
    ∃ c, ChaCha.XChaCha.new E R key nonce = .ok c := Cx.Proofs.Refusal.xchacha_new_ok S R key nonce h

theorem salsa_new_refused_iff (R : Nat) (key nonce : Bytes) :
    Refused (Salsa.Salsa.new R key nonce) ↔ ¬ ValidNew8 R key nonce :=
  Cx.Proofs.Refusal.salsa_new_refused_iff R key nonce
theorem salsa_new_panic_iff (R : Nat) (key nonce : Bytes) (hn : nonce.length = 8) :
    Salsa.Salsa.new R key nonce = .error "PANIC" ↔ ¬ (ValidKey1632 key ∧ ValidRounds R) :=
  Cx.Proofs.Refusal.salsa_new_panic_iff R key nonce hn
theorem salsa_new_ok (R : Nat) (key nonce : Bytes) (h : ValidNew8 R key nonce) :
    ∃ c, Salsa.Salsa.new R key nonce = .ok c := Cx.Proofs.Refusal.salsa_new_ok R key nonce h

theorem xsalsa_new_refused_iff (R : Nat) (key nonce : Bytes) :
    Refused (Salsa.XSalsa.new R key nonce) ↔ ¬ ValidNewX R key nonce :=
  Cx.Proofs.Refusal.xsalsa_new_refused_iff R key nonce
theorem xsalsa_new_panic_iff (R : Nat) (key nonce : Bytes) (hk : key.length = 32) (hn : nonce.length = 24) :
    Salsa.XSalsa.new R key nonce = .error "PANIC" ↔ ¬ ValidRounds R :=
  Cx.Proofs.Refusal.xsalsa_new_panic_iff R key nonce hk hn
theorem xsalsa_new_ok (R : Nat) (key nonce : Bytes) (h : ValidNewX R key nonce) :
    ∃ c, Salsa.XSalsa.new R key nonce = .ok c := Cx.Proofs.Refusal.xsalsa_new_ok R key nonce h

theorem drg_new_panic_iff (S : EngineSim E α) (R : Nat) (seed : Bytes) (hs : seed.length = 32) :
    Drg.new E R seed = .error "PANIC" ↔ ¬ ValidRounds R := Cx.Proofs.Refusal.drg_new_panic_iff S R seed hs
theorem drg_new_ok (S : EngineSim E α) (R : Nat) (seed : Bytes) (h : ValidDrgNew R seed) :
    ∃ c, Drg.new E R seed = .ok c := Cx.Proofs.Refusal.drg_new_ok S R seed h

/-- `process(input, output)` on every reachable context of all five types (`Abs` = the invariant of Props/C04:
    `new` establishes it — `chacha_new` &c. — and every method preserves it): refused iff the lengths differ -/
theorem stream_process_panic_iff {g : BlockGen σ} {mk : Nat → σ} {KS : Nat → Bytes} (Rf : Refines g mk KS)
    (c : Ctx σ) (p : Nat) (h : Abs mk KS c p) (input : Bytes) (n : Nat) :
    process g c input n = .error "PANIC" ↔ input.length ≠ n := process_panic_iff Rf c p h input n
theorem stream_process_ok {g : BlockGen σ} {mk : Nat → σ} {KS : Nat → Bytes} (Rf : Refines g mk KS)
    (c : Ctx σ) (p : Nat) (h : Abs mk KS c p) (input : Bytes) :
    ∃ c' out, process g c input input.length = .ok (c', out) ∧ Abs mk KS c' (p + input.length) :=
  process_ok Rf c p h input
/-- `process_mut` and `seek` have no invalid argument and never refuse -/
theorem stream_process_mut_ok {g : BlockGen σ} {mk : Nat → σ} {KS : Nat → Bytes} (Rf : Refines g mk KS)
    (c : Ctx σ) (p : Nat) (h : Abs mk KS c p) (data : Bytes) :
    ∃ c' out, process_mut g c data = .ok (c', out) ∧ Abs mk KS c' (p + data.length) := process_mut_ok Rf c p h data
theorem stream_seek_total {τ : Type} (mk : Nat → σ) (KS : Nat → Bytes) (setCounter : σ → τ → σ) (toBlock : τ → Nat)
    (hset : ∀ n t, setCounter (mk n) t = mk (toBlock t)) (c : Ctx σ) (p : Nat) (t : τ) (h : Abs mk KS c p) :
    Abs mk KS (seek setCounter c t) (64 * toBlock t) := seek_total mk KS setCounter toBlock hset c p t h

end stream

/-! ## 2. Poly1305 -/
section poly
open Cx.Impl.Poly1305 Cx.Proofs.Poly1305

example (fin : Bool) (d : Bytes) : ValidPolyOp fin (.input d) ↔ fin = false := Iff.rfl
example (fin : Bool) (n : Nat) : ValidPolyOp fin (.rawResult n) ↔ 16 ≤ n := Iff.rfl
example (fin : Bool) : ValidPolyOp fin .result ∧ ValidPolyOp fin .reset := ⟨trivial, trivial⟩
example : ValidPolyOp false (.rawResult 16) ∧ ¬ ValidPolyOp false (.rawResult 15) ∧ ¬ ValidPolyOp true (.input [1]) := by decide

/-- a fresh `Poly1305::new(key)` is a reachable object, and so is every successor (`poly1305_step_bisim`, C09) -/
example (key : Bytes) : Sim key (new key) ⟨[], false⟩ := new_sim key

theorem poly1305_refused_iff (key : Bytes) (st : State) (a : Abs) (op : Op) (h : Sim key st a) :
    (∃ e, stepOp .repaired st op = .error e) ↔ ¬ ValidPolyOp a.fin op :=
  Cx.Proofs.Refusal.poly1305_refused_iff key st a op h
theorem poly1305_refusal_is_assertion (key : Bytes) (st : State) (a : Abs) (op : Op) (h : Sim key st a)
    (hv : ¬ ValidPolyOp a.fin op) : stepOp .repaired st op = .error .assertion :=
  Cx.Proofs.Refusal.poly1305_refusal_is_assertion key st a op h hv
theorem poly1305_valid_ok (key : Bytes) (st : State) (a : Abs) (op : Op) (h : Sim key st a)
    (hv : ValidPolyOp a.fin op) : ∃ st' out, stepOp .repaired st op = .ok (st', out) :=
  Cx.Proofs.Refusal.poly1305_valid_ok key st a op h hv
/-- after a result: every `input` panics, a second `result` is NOT refused and returns the same tag -/
theorem poly1305_second_result_same (key : Bytes) (st : State) (a : Abs) (h : Sim key st a) (n : Nat) (hn : 16 ≤ n) :
    ∃ st' t, stepOp .repaired st (.rawResult n) = .ok (st', some t) ∧
      (∀ d, stepOp .repaired st' (.input d) = .error .assertion) ∧
      stepOp .repaired st' .result = .ok (st', some t) := poly1305_input_after_result key st a h n hn

end poly

/-! ## 3. Digest / Mac objects -/
section objects
open Cx.Impl.Digest Cx.Impl.Hmac Cx.Proofs.MacObj Cx.Proofs.MacLegacy Cx.Proofs.MacHmac Cx.Spec.MacObj
open Cx.Props.C09 (Refined legacy_wrappers_refine)

example (L : Nat) (keyOk : Bytes → Prop) (fin : Bool) (b : Bytes) : ValidCall L keyOk fin (.input b) ↔ fin = false := Iff.rfl
example (L : Nat) (keyOk : Bytes → Prop) (fin : Bool) : ValidCall L keyOk fin .result ↔ fin = false := Iff.rfl
example (L : Nat) (keyOk : Bytes → Prop) (fin : Bool) (n : Nat) :
    ValidCall L keyOk fin (.rawResult n) ↔ (fin = false ∧ n = L) := Iff.rfl
example (L : Nat) (keyOk : Bytes → Prop) (fin : Bool) (k : Bytes) : ValidCall L keyOk fin (.resetWithKey k) ↔ keyOk k := Iff.rfl
example : ValidCall 32 (fun _ => False) false (.rawResult 32) ∧ ¬ ValidCall 32 (fun _ => False) false (.rawResult 31) ∧
    ¬ ValidCall 32 (fun _ => False) false (.rawResult 33) ∧ ¬ ValidCall 32 (fun _ => False) true .result :=
  ⟨⟨rfl, rfl⟩, by simp [ValidCall], by simp [ValidCall], by simp [ValidCall]⟩

/-- **one legacy wrapper type** `X` (`digest!`-generated; `M` its context model, `H` its hash, `ok` the length domain
    of `H`): `X::new()` is a reachable object; on every reachable object every call of `trait Digest` panics iff it is
    outside `ValidCall`; a returned value is `H(bytes since reset)` in full length; the successor is reachable again. -/
theorem legacy_digest_matrix {γ : Type} (M : CtxModel γ) (H : Fn) (ok : Bytes → Prop) (hR : Refined M H ok) :
    ∃ R, Cx.Proofs.MacObj.Sim (outBytes M) (RelL H R) (FinL H R) (Legacy.new M) (fresh H (outBytes M)) ∧
      ∀ (s : Legacy γ) (a : Abs), Cx.Proofs.MacObj.Sim (outBytes M) (RelL H R) (FinL H R) s a → (a.finished = false → ok a.data) →
        ∀ c : Call,
          (runCall (digestFam (legacyDigest M)) s c = none ↔ ¬ ValidCall (outBytes M) (fun _ => False) a.finished c) ∧
          (∀ s' v, runCall (digestFam (legacyDigest M)) s c = some (s', some v) → v = a.f a.data ∧ v.length = outBytes M) ∧
          (∀ s' out, runCall (digestFam (legacyDigest M)) s c = some (s', out) →
            ∃ a', Cx.Proofs.MacObj.Sim (outBytes M) (RelL H R) (FinL H R) s' a') := by
  obtain ⟨R, hc⟩ := hR
  refine ⟨R, legacy_new_sim M H R ok hc, fun s a hS hok c => ⟨legacy_refused_iff M H R ok hc s a hS hok c, ?_, ?_⟩⟩
  · intro s' v hr
    have := obj_value (legacy_contract M H R hc) s a hS hok c s' v hr
    exact ⟨this.1, this.2.1⟩
  · intro s' out hr
    obtain ⟨a', _, hS'⟩ := obj_step_sim (legacy_contract M H R hc) s a hS hok c s' out hr
    exact ⟨a', hS'⟩

/-- the 16 wrappers are such types (`Props.C09.legacy_wrappers_refine`), with these output lengths -/
theorem legacy_digest_instances :
    (outBytes sha1Ctx = 20 ∧ outBytes ripemd160Ctx = 20 ∧ outBytes sha224Ctx = 28 ∧ outBytes sha256Ctx = 32 ∧
     outBytes sha384Ctx = 48 ∧ outBytes sha512Ctx = 64 ∧ outBytes sha512_224Ctx = 28 ∧ outBytes sha512_256Ctx = 32 ∧
     outBytes sha3_224Ctx = 28 ∧ outBytes sha3_256Ctx = 32 ∧ outBytes sha3_384Ctx = 48 ∧ outBytes sha3_512Ctx = 64 ∧
     outBytes keccak224Ctx = 28 ∧ outBytes keccak256Ctx = 32 ∧ outBytes keccak384Ctx = 48 ∧ outBytes keccak512Ctx = 64) ∧
    (Refined sha1Ctx Spec.Sha1.sha1 Cx.Props.C02.Sha1Ripemd.ok ∧
     Refined ripemd160Ctx Spec.Ripemd160.ripemd160 Cx.Props.C02.Sha1Ripemd.ok ∧
     Refined sha224Ctx Spec.Sha2.sha224 Cx.Props.C02.Sha2.ok256 ∧ Refined sha256Ctx Spec.Sha2.sha256 Cx.Props.C02.Sha2.ok256 ∧
     Refined sha384Ctx Spec.Sha2.sha384 Cx.Props.C02.Sha2.ok512 ∧ Refined sha512Ctx Spec.Sha2.sha512 Cx.Props.C02.Sha2.ok512 ∧
     Refined sha512_224Ctx Spec.Sha2.sha512_224 Cx.Props.C02.Sha2.ok512 ∧
     Refined sha512_256Ctx Spec.Sha2.sha512_256 Cx.Props.C02.Sha2.ok512 ∧
     Refined sha3_224Ctx Spec.Keccak.sha3_224 (fun _ => True) ∧ Refined sha3_256Ctx Spec.Keccak.sha3_256 (fun _ => True) ∧
     Refined sha3_384Ctx Spec.Keccak.sha3_384 (fun _ => True) ∧ Refined sha3_512Ctx Spec.Keccak.sha3_512 (fun _ => True) ∧
     Refined keccak224Ctx Spec.Keccak.keccak224 (fun _ => True) ∧ Refined keccak256Ctx Spec.Keccak.keccak256 (fun _ => True) ∧
     Refined keccak384Ctx Spec.Keccak.keccak384 (fun _ => True) ∧ Refined keccak512Ctx Spec.Keccak.keccak512 (fun _ => True)) :=
  ⟨by decide, legacy_wrappers_refine⟩

/-- CODE vs TRAIT DOCUMENTATION ("This method may be called multiple times."): the second `result` without `reset`
    panics, for every wrapper -/
theorem digest_doc_second_result_refused {γ : Type} (M : CtxModel γ) (H : Fn) (R : γ → Bytes → Prop) (ok : Bytes → Prop)
    (hc : CtxContract M H R ok) (s : Legacy γ) (a : Abs) (hS : Cx.Proofs.MacObj.Sim (outBytes M) (RelL H R) (FinL H R) s a)
    (hf : a.finished = true) (n : Nat) :
    runCall (digestFam (legacyDigest M)) s .result = none ∧ runCall (digestFam (legacyDigest M)) s (.rawResult n) = none := by
  constructor
  · exact (legacy_refused_iff M H R ok hc s a hS (by simp [hf]) .result).mpr (by simp [ValidCall, hf])
  · exact (legacy_refused_iff M H R ok hc s a hS (by simp [hf]) (.rawResult n)).mpr (by simp [ValidCall, hf])

/-- CODE vs TRAIT DOCUMENTATION ("Must be large enough to contain output_bits()"): a buffer LONGER than the digest
    panics as well (`copy_from_slice` demands equal lengths) -/
theorem digest_doc_longer_buffer_refused {γ : Type} (M : CtxModel γ) (H : Fn) (R : γ → Bytes → Prop) (ok : Bytes → Prop)
    (hc : CtxContract M H R ok) (s : Legacy γ) (a : Abs) (hS : Cx.Proofs.MacObj.Sim (outBytes M) (RelL H R) (FinL H R) s a)
    (hok : a.finished = false → ok a.data) (n : Nat) (hn : outBytes M < n) :
    runCall (digestFam (legacyDigest M)) s (.rawResult n) = none :=
  (legacy_refused_iff M H R ok hc s a hS hok (.rawResult n)).mpr (by simp [ValidCall]; omega)

/-- **`Hmac<D>`** over any digest object type satisfying the object contract (in particular the 16 wrappers:
    `hmac_legacy_every_history`): `Hmac::new(d0, key)` is reachable, every call of `trait Mac` panics iff outside
    `ValidCall` (input / result / raw_result after a result; a `raw_result` buffer of any length other than the MAC's) -/
theorem hmac_matrix {δ : Type} (D : DigestModel δ) (H : Fn) (B L bits : Nat) (okD : Fn → Bytes → Prop)
    (RelD : δ → Fn → Bytes → Prop) (FinD : δ → Fn → Prop)
    (hD : Contract (digestFam D) L [L, bits, B] (fun _ => none) okD RelD FinD) (hLB : L ≤ B)
    (d0 : δ) (h0 : RelD d0 H []) (key : Bytes) (hk : key.length ≤ B ∨ okD H key) :
    (∃ h, Hmac.new D d0 key = some h ∧
      Cx.Proofs.MacObj.Sim L (RelH H B key RelD) (FinH H B key FinD) h (fresh (Spec.Hmac.hmac H B key) L)) ∧
    ∀ (s : Hmac δ) (a : Abs), Cx.Proofs.MacObj.Sim L (RelH H B key RelD) (FinH H B key FinD) s a →
      (a.finished = false → okH H B key okD a.f a.data) → ∀ c : Call,
        (runCall (macFam (hmacMac D)) s c = none ↔ ¬ ValidCall L (fun _ => False) a.finished c) ∧
        (∀ s' v, runCall (macFam (hmacMac D)) s c = some (s', some v) → v = a.f a.data ∧ v.length = L) ∧
        (∀ s' out, runCall (macFam (hmacMac D)) s c = some (s', out) →
          ∃ a', Cx.Proofs.MacObj.Sim L (RelH H B key RelD) (FinH H B key FinD) s' a') := by
  constructor
  · obtain ⟨h, e, hr⟩ := hmac_new D H B key RelD FinD hD hLB d0 h0 hk
    exact ⟨h, e, rfl, by simpa [fresh] using hr⟩
  · intro s a hS hok c
    refine ⟨hmac_refused_iff D H B L bits key okD RelD FinD hD s a hS hok c, ?_, ?_⟩
    · intro s' v hr
      have := obj_value (hmac_contract D H B key RelD FinD hD) s a hS hok c s' v hr
      exact ⟨this.1, this.2.1⟩
    · intro s' out hr
      obtain ⟨a', _, hS'⟩ := obj_step_sim (hmac_contract D H B key RelD FinD hD) s a hS hok c s' out hr
      exact ⟨a', hS'⟩

/-! ### the legacy BLAKE2 objects -/
open Cx.Proofs.MacBlake2 Cx.Proofs.Blake2

/-- `Blake2b::new(outlen)` / `Blake2s::new(outlen)` -/
theorem legacy_blake2b_new_none_iff (outlen : Nat) :
    Impl.Digest.Blake2.new Impl.Blake2.b outlen = none ↔ ¬ (0 < outlen ∧ outlen ≤ 64) := by
  rw [impl_b_eq_spec_b]; exact blake2_new_none_iff Spec.Blake2.b good_b outlen
theorem legacy_blake2s_new_none_iff (outlen : Nat) :
    Impl.Digest.Blake2.new Impl.Blake2.s outlen = none ↔ ¬ (0 < outlen ∧ outlen ≤ 32) := by
  rw [impl_s_eq_spec_s]; exact blake2_new_none_iff Spec.Blake2.s good_s outlen

/-- `Blake2b::new_keyed(outlen, key)`: outlen 1..=64, key at most 64 bytes -/
theorem legacy_blake2b_new_keyed_none_iff (outlen : Nat) (key : Bytes) :
    Impl.Digest.Blake2.new_keyed Impl.Blake2.b bKeyAssert outlen key = none ↔
      ¬ (0 < outlen ∧ outlen ≤ 64 ∧ key.length ≤ 64) := by
  rw [impl_b_eq_spec_b, blake2_new_keyed_none_iff Spec.Blake2.b good_b, bKeyAssert_eq]
  show ¬ (0 < outlen ∧ outlen ≤ 64 ∧ key.length ≤ 64 ∧ key.length ≤ 64) ↔ _
  constructor <;> intro h hv <;> exact h (by omega)
/-- `Blake2s::new_keyed(outlen, key)`: the wrapper's own `assert!(key.len() <= 64)` is weaker than the algorithm's
    limit; keys of 33..64 bytes are refused by `ContextDyn::new_keyed` (`MAX_KEYLEN` = 32) -/
theorem legacy_blake2s_new_keyed_none_iff (outlen : Nat) (key : Bytes) :
    Impl.Digest.Blake2.new_keyed Impl.Blake2.s sKeyAssert outlen key = none ↔
      ¬ (0 < outlen ∧ outlen ≤ 32 ∧ key.length ≤ 32) := by
  rw [impl_s_eq_spec_s, blake2_new_keyed_none_iff Spec.Blake2.s good_s, sKeyAssert_eq]
  show ¬ (0 < outlen ∧ outlen ≤ 32 ∧ key.length ≤ 32 ∧ key.length ≤ 64) ↔ _
  constructor <;> intro h hv <;> exact h (by omega)

example : (0 < 64 ∧ 64 ≤ 64 ∧ (List.replicate 64 (1 : UInt8)).length ≤ 64) ∧
    ¬ (0 < 65 ∧ 65 ≤ 64 ∧ ([] : Bytes).length ≤ 64) ∧ ¬ (0 < 0 ∧ 0 ≤ 64 ∧ ([] : Bytes).length ≤ 64) ∧
    ¬ (0 < 32 ∧ 32 ≤ 32 ∧ (List.replicate 33 (1 : UInt8)).length ≤ 32) := by decide

/-- every call on a reachable `Blake2b` / `Blake2s` object through `Mac` / `Digest` / `reset_with_key`
    (`P` = the algorithm's parameters, `nn` the object's output length) -/
theorem legacy_blake2_matrix {W : Type} [Spec.Blake2.Word W] (P : Spec.Blake2.Params W) (g : Good P) (nn : Nat)
    (hn : 0 < nn ∧ nn ≤ P.maxOut) (s : Impl.Digest.Blake2 W) (a : Abs)
    (hS : Cx.Proofs.MacObj.Sim nn (RelB P nn) (FinB P nn) s a) (c : Call) :
    (runCall (famB .repaired P) s c = none ↔ ¬ ValidCall nn (fun k => k.length ≤ P.maxKey) a.finished c) ∧
    (∀ s' out, runCall (famB .repaired P) s c = some (s', out) → ∃ a', Cx.Proofs.MacObj.Sim nn (RelB P nn) (FinB P nn) s' a') := by
  refine ⟨blake2_refused_iff P g nn hn s a hS c, ?_⟩
  intro s' out hr
  obtain ⟨a', _, hS'⟩ := obj_step_sim (blake2_contract P g nn hn) s a hS (fun _ => trivial) c s' out hr
  exact ⟨a', hS'⟩

/-- `Blake2x::new_keyed(outlen, key)` with admissible arguments IS such a reachable object (key = [] included) -/
theorem legacy_blake2_new_keyed_reachable {W : Type} [Spec.Blake2.Word W] (P : Spec.Blake2.Params W) (g : Good P) (nn : Nat)
    (hn : 0 < nn ∧ nn ≤ P.maxOut) (key : Bytes) (hk : key.length ≤ P.maxKey) (keyAssert : Nat) (hka : key.length ≤ keyAssert) :
    ∃ o, Impl.Digest.Blake2.new_keyed P keyAssert nn key = some o ∧
      Cx.Proofs.MacObj.Sim nn (RelB P nn) (FinB P nn) o (fresh (Spec.Blake2.blake2 P nn key) nn) := by
  obtain ⟨o, e, hr⟩ := new_keyed_rel P g nn hn key hk keyAssert hka
  exact ⟨o, e, rfl, by simpa [fresh] using hr⟩

end objects

/-! ## 4. BLAKE2 contexts of `hashing`, SHA-3 -/
section hashing
open Cx.Impl.Blake2 Cx.Proofs.Blake2
open Cx.Spec.Blake2 (Word Params)

example (maxOut maxKey BITS : Nat) (key : Bytes) : ValidBlake2Bits maxOut maxKey BITS key ↔
    (1 ≤ BITS ∧ BITS ≤ 8 * maxOut ∧ key.length ≤ maxKey) := Iff.rfl
example (maxOut maxKey outlen : Nat) (key : Bytes) : ValidBlake2Dyn maxOut maxKey outlen key ↔
    (0 < outlen ∧ outlen ≤ maxOut ∧ key.length ≤ maxKey) := Iff.rfl
example : ValidBlake2Bits 64 64 512 (List.replicate 64 1) ∧ ValidBlake2Bits 64 64 505 [] ∧ ValidBlake2Bits 64 64 1 [] ∧
    ¬ ValidBlake2Bits 64 64 0 [] ∧ ¬ ValidBlake2Bits 64 64 513 [] ∧ ¬ ValidBlake2Bits 64 64 256 (List.replicate 65 1) ∧
    ValidBlake2Bits 32 32 256 [] ∧ ¬ ValidBlake2Bits 32 32 257 [] := by decide
example : ValidBlake2Dyn 64 64 64 [] ∧ ¬ ValidBlake2Dyn 64 64 65 [] ∧ ¬ ValidBlake2Dyn 64 64 0 [] ∧
    ¬ ValidBlake2Dyn 32 32 32 (List.replicate 33 1) := by decide

theorem blake2b_context_new_keyed_none_iff (BITS : Nat) (key : Bytes) :
    Context.new_keyed Impl.Blake2.b BITS key = none ↔ ¬ ValidBlake2Bits 64 64 BITS key := by
  have := context_new_keyed_none_iff Impl.Blake2.b BITS key
  rwa [b_maxOut, b_maxKey] at this
theorem blake2b_context_new_none_iff (BITS : Nat) :
    Context.new Impl.Blake2.b BITS = none ↔ ¬ ValidBlake2Bits 64 64 BITS [] := by
  have := context_new_none_iff Impl.Blake2.b BITS
  rwa [b_maxOut, b_maxKey] at this
theorem blake2s_context_new_keyed_none_iff (BITS : Nat) (key : Bytes) :
    Context.new_keyed Impl.Blake2.s BITS key = none ↔ ¬ ValidBlake2Bits 32 32 BITS key := by
  have := context_new_keyed_none_iff Impl.Blake2.s BITS key
  rwa [s_maxOut, s_maxKey] at this
theorem blake2s_context_new_none_iff (BITS : Nat) :
    Context.new Impl.Blake2.s BITS = none ↔ ¬ ValidBlake2Bits 32 32 BITS [] := by
  have := context_new_none_iff Impl.Blake2.s BITS
  rwa [s_maxOut, s_maxKey] at this
theorem blake2b_contextdyn_new_keyed_none_iff (outlen : Nat) (key : Bytes) :
    ContextDyn.new_keyed Impl.Blake2.b outlen key = none ↔ ¬ ValidBlake2Dyn 64 64 outlen key := by
  have := contextdyn_new_keyed_none_iff Impl.Blake2.b outlen key
  rwa [b_maxOut, b_maxKey] at this
theorem blake2b_contextdyn_new_none_iff (outlen : Nat) :
    ContextDyn.new Impl.Blake2.b outlen = none ↔ ¬ ValidBlake2Dyn 64 64 outlen [] := by
  have := contextdyn_new_none_iff Impl.Blake2.b outlen
  rwa [b_maxOut, b_maxKey] at this
theorem blake2s_contextdyn_new_keyed_none_iff (outlen : Nat) (key : Bytes) :
    ContextDyn.new_keyed Impl.Blake2.s outlen key = none ↔ ¬ ValidBlake2Dyn 32 32 outlen key := by
  have := contextdyn_new_keyed_none_iff Impl.Blake2.s outlen key
  rwa [s_maxOut, s_maxKey] at this
theorem blake2s_contextdyn_new_none_iff (outlen : Nat) :
    ContextDyn.new Impl.Blake2.s outlen = none ↔ ¬ ValidBlake2Dyn 32 32 outlen [] := by
  have := contextdyn_new_none_iff Impl.Blake2.s outlen
  rwa [s_maxOut, s_maxKey] at this

/-- `finalize_at(out)` (both context types, both algorithms; `outlen` = ⌈BITS/8⌉ resp. `self.outlen`): refused iff
    the buffer has another length — for EVERY context state, the finalisation itself cannot fail -/
theorem blake2_finalize_at_none_iff {W : Type} [Word W] (P : Params W) (c : Ctx W) (outlen outLen : Nat) :
    Ctx.finalize_at P .wrapping c outlen outLen = none ↔ outLen ≠ outlen := finalize_at_none_iff P c outlen outLen
theorem blake2_finalize_reset_at_none_iff {W : Type} [Word W] (P : Params W) (c : Ctx W) (outlen outLen : Nat) :
    Ctx.finalize_reset_at P .wrapping c outlen outLen = none ↔ outLen ≠ outlen :=
  finalize_reset_at_none_iff P c outlen outLen
theorem blake2_reset_with_key_none_iff {W : Type} [Word W] (P : Params W) (c : Ctx W) (outlen : Nat) (key : Bytes) :
    Ctx.reset_with_key P c outlen key = none ↔ ¬ key.length ≤ P.maxKey := reset_with_key_none_iff P c outlen key
theorem blake2_finalize_reset_with_key_at_none_iff {W : Type} [Word W] (P : Params W) (c : Ctx W) (outlen : Nat)
    (key : Bytes) (outLen : Nat) :
    Ctx.finalize_reset_with_key_at P .wrapping c outlen key outLen = none ↔ (outLen ≠ outlen ∨ ¬ key.length ≤ P.maxKey) :=
  finalize_reset_with_key_at_none_iff P c outlen key outLen
/-- `update` / `update_mut` never refuse (wrapping byte counter: Props/C20/Blake2.lean) -/
theorem blake2_update_mut_ok {W : Type} [Word W] (P : Params W) (c : Ctx W) (input : Bytes) :
    ∃ c', Ctx.update_mut P .wrapping c input = some c' := update_mut_wrapping P c input

/-- the sponge engine refuses absorbing after finalisation and squeezing when nothing is left … -/
theorem sha3_engine_refusals (dl ds : Nat) (e : Sha3.Engine) (d : Bytes) (n : Nat) :
    (e.can_absorb = false → Sha3.Engine.process dl e d = none ∧ Sha3.Engine.finalize dl ds e = none) ∧
    (e.can_squeeze = false → Sha3.Engine.output dl ds e n = none) :=
  ⟨fun h => ⟨sha3_process_refused dl e d h, sha3_finalize_refused dl ds e h⟩, fun h => sha3_output_refused dl ds e n h⟩

/-- … and no public method of the eight context types leaves an engine in such a state (`finalize` consumes the
    context by value): the refusals are unreachable through `hashing::sha3` / `hashing::keccak`; that the usable
    states never panic is `Proofs.Sponge.run_from_new` (C02) -/
theorem sha3_public_api_never_reaches_them (dl ds : Nat) :
    Sha3Usable Sha3.Context.new ∧ (∀ c, Sha3Usable (Sha3.Context.reset c)) ∧
    (∀ c c' d, Sha3Usable c → Sha3.Context.update_mut dl c d = some c' → Sha3Usable c') ∧
    (∀ c c' out, Sha3.Context.finalize_reset dl ds c = some (c', out) → Sha3Usable c') :=
  ⟨sha3_new_usable, sha3_reset_usable, fun c c' d hc h => sha3_update_usable dl c c' d hc h,
   fun c c' out h => sha3_finalize_reset_usable dl ds c c' out h⟩

end hashing

/-! ## 5. KDFs -/
section kdf
open Cx.Impl.Digest Cx.Impl.Hmac Cx.Impl.Kdf Cx.Proofs.MacObj Cx.Proofs.MacHmac Cx.Props.C10

example (L n : Nat) : ValidHkdfExtract L n ↔ n = L := Iff.rfl
example (L k n : Nat) : ValidHkdfExpand L k n ↔ (L ≤ k ∧ n ≤ 255 * L) := Iff.rfl
example (L k n : Nat) : ¬ ValidHkdfExpand L k n ↔ (k < L ∨ 255 * L < n) := by unfold ValidHkdfExpand; omega
example (L c n : Nat) : ValidPbkdf2 L c n ↔ (0 < c ∧ n ≤ (2 ^ 32 - 1) * L) := Iff.rfl
example (log_n r p : Nat) : ValidScryptParams log_n r p ↔
    (0 < r ∧ 0 < p ∧ 0 < log_n ∧ log_n < 64 ∧ log_n < 16 * r ∧ r * p < 2 ^ 30 ∧
      128 * r * 2 ^ log_n < 2 ^ 64 ∧ 128 * r * p < 2 ^ 64) := Iff.rfl
example (n : Nat) : ValidScryptOut n ↔ (0 < n ∧ n ≤ (2 ^ 32 - 1) * 32) := Iff.rfl
example : ValidHkdfExtract 32 32 ∧ ¬ ValidHkdfExtract 32 31 ∧ ¬ ValidHkdfExtract 32 33 := by decide
example : ValidHkdfExpand 32 32 8160 ∧ ¬ ValidHkdfExpand 32 32 8161 ∧ ¬ ValidHkdfExpand 32 31 1 ∧ ¬ ValidHkdfExpand 32 0 0 ∧
    ¬ ValidHkdfExpand 32 1 33 ∧ ValidHkdfExpand 32 33 0 ∧ ValidHkdfExpand 32 64 1 := by decide
example : ValidPbkdf2 20 1 45 ∧ ¬ ValidPbkdf2 20 0 45 ∧ ¬ ValidPbkdf2 20 1 ((2 ^ 32 - 1) * 20 + 1) := by decide
example : ValidScryptParams 10 8 16 ∧ ¬ ValidScryptParams 16 1 1 ∧ ¬ ValidScryptParams 0 1 1 ∧ ¬ ValidScryptParams 4 0 1 ∧
    ¬ ValidScryptParams 4 1 0 ∧ ¬ ValidScryptParams 1 (2 ^ 15) (2 ^ 15) ∧ ¬ ValidScryptParams 64 8 1 := by decide
example : ValidScryptOut 64 ∧ ¬ ValidScryptOut 0 ∧ ¬ ValidScryptOut ((2 ^ 32 - 1) * 32 + 1) := by decide

theorem hkdf_extract_none_iff {γ : Type} (M : CtxModel γ) (H : Fn) (B L : Nat) (ok : Bytes → Prop)
    (hC : HkdfCorrect M H B L ok) (salt ikm : Bytes) (prkLen : Nat) (hk : salt.length ≤ B ∨ ok salt)
    (h1 : ok (ikey H B salt ++ ikm)) (h2 : ok (okey H B salt ++ H (ikey H B salt ++ ikm))) :
    hkdf_extract (legacyDigest M) (Legacy.new M) salt ikm prkLen = none ↔ ¬ ValidHkdfExtract L prkLen :=
  Cx.Proofs.Refusal.hkdf_extract_none_iff M H B L ok hC salt ikm prkLen hk h1 h2
theorem hkdf_extract_ok {γ : Type} (M : CtxModel γ) (H : Fn) (B L : Nat) (ok : Bytes → Prop)
    (hC : HkdfCorrect M H B L ok) (salt ikm : Bytes) (prkLen : Nat) (hk : salt.length ≤ B ∨ ok salt)
    (h1 : ok (ikey H B salt ++ ikm)) (h2 : ok (okey H B salt ++ H (ikey H B salt ++ ikm)))
    (hv : ValidHkdfExtract L prkLen) :
    hkdf_extract (legacyDigest M) (Legacy.new M) salt ikm prkLen = some (Spec.Kdf.hkdfExtract H B salt ikm) :=
  Cx.Proofs.Refusal.hkdf_extract_ok M H B L ok hC salt ikm prkLen hk h1 h2 hv
/-- `hkdf_expand` refuses (panics: `assert!(prk.len() >= digest.output_bytes())` / the `checked_add` of the one-byte block
    counter) exactly the calls outside the documented domain: a PRK shorter than HashLen, an output longer than 255·HashLen -/
theorem hkdf_expand_none_iff {γ : Type} (M : CtxModel γ) (H : Fn) (B L : Nat) (ok : Bytes → Prop)
    (hC : HkdfCorrect M H B L ok) (prk info : Bytes) (okmLen : Nat) (hk : prk.length ≤ B ∨ ok prk)
    (hok : ∀ x : Bytes, x.length ≤ L + info.length + 1 →
      ok (ikey H B prk ++ x) ∧ ok (okey H B prk ++ H (ikey H B prk ++ x))) :
    hkdf_expand (legacyDigest M) (Legacy.new M) prk info okmLen = none ↔ ¬ ValidHkdfExpand L prk.length okmLen :=
  Cx.Proofs.Refusal.hkdf_expand_none_iff M H B L ok hC prk info okmLen hk hok
/-- … with the two refused length classes spelled out -/
theorem hkdf_expand_none_iff_lengths {γ : Type} (M : CtxModel γ) (H : Fn) (B L : Nat) (ok : Bytes → Prop)
    (hC : HkdfCorrect M H B L ok) (prk info : Bytes) (okmLen : Nat) (hk : prk.length ≤ B ∨ ok prk)
    (hok : ∀ x : Bytes, x.length ≤ L + info.length + 1 →
      ok (ikey H B prk ++ x) ∧ ok (okey H B prk ++ H (ikey H B prk ++ x))) :
    hkdf_expand (legacyDigest M) (Legacy.new M) prk info okmLen = none ↔ (prk.length < L ∨ 255 * L < okmLen) :=
  Cx.Proofs.Refusal.hkdf_expand_none_iff_lengths M H B L ok hC prk info okmLen hk hok
/-- inside the domain the value is RFC 5869 §2.3's: the first L octets of T(1) ‖ T(2) ‖ … -/
theorem hkdf_expand_ok {γ : Type} (M : CtxModel γ) (H : Fn) (B L : Nat) (ok : Bytes → Prop)
    (hC : HkdfCorrect M H B L ok) (prk info : Bytes) (okmLen : Nat) (hk : prk.length ≤ B ∨ ok prk)
    (hok : ∀ x : Bytes, x.length ≤ L + info.length + 1 →
      ok (ikey H B prk ++ x) ∧ ok (okey H B prk ++ H (ikey H B prk ++ x)))
    (hv : ValidHkdfExpand L prk.length okmLen) :
    hkdf_expand (legacyDigest M) (Legacy.new M) prk info okmLen
      = some (Spec.Kdf.hkdfOkm (Spec.Hmac.hmac H B) L prk info okmLen) :=
  Cx.Proofs.Refusal.hkdf_expand_ok M H B L ok hC prk info okmLen hk hok hv
/-- WITNESS of the repaired defect (m) (the correspondence line `kdf.hkdf_expand sha256 0b 696e666f 33`): before
    `assert!(prk.len() >= digest.output_bytes())` was added, `hkdf_expand` answered a call with a ONE-byte PRK — outside the
    domain its documentation states ("prk - The pseudorandom key of at least `digest.output_bytes()` octets") — with 33 bytes
    of output; the repaired function refuses it.  (`hkdf_expand_old` = the function without the assert, Impl/Kdf.lean;
    generic form: `Props.C10.hkdf_expand_old_generic`.) -/
theorem hkdf_expand_old_accepts_short_prk :
    ¬ ValidHkdfExpand 32 ([0x0b] : Bytes).length 33 ∧
    (∃ okm : Bytes, okm.length = 33 ∧
      hkdf_expand_old (legacyDigest sha256Ctx) (Legacy.new sha256Ctx) [0x0b] [0x69, 0x6e, 0x66, 0x6f] 33 = some okm) ∧
    hkdf_expand (legacyDigest sha256Ctx) (Legacy.new sha256Ctx) [0x0b] [0x69, 0x6e, 0x66, 0x6f] 33 = none :=
  Cx.Proofs.Refusal.hkdf_expand_old_short_prk
/-- the hypothesis `HkdfCorrect` holds for the wrappers (here the six spelled out in Props/C10) -/
example : HkdfCorrect sha256Ctx Spec.Sha2.sha256 64 32 Cx.Props.C02.Sha2.ok256 := hkdf_sha256
example : HkdfCorrect sha1Ctx Spec.Sha1.sha1 64 20 Cx.Props.C02.Sha1Ripemd.ok := hkdf_sha1
example : HkdfCorrect sha512Ctx Spec.Sha2.sha512 128 64 Cx.Props.C02.Sha2.ok512 := hkdf_sha512

theorem pbkdf2_none_iff {γ : Type} (M : CtxModel γ) (H : Fn) (B L : Nat) (ok : Bytes → Prop)
    (hC : Pbkdf2HmacCorrect M H B L ok) (pwd salt : Bytes) (c dkLen : Nat) (hk : pwd.length ≤ B ∨ ok pwd)
    (hok : ∀ x : Bytes, (x.length = L ∨ ∃ i, x = salt ++ natToBE 4 i) →
      ok (ikey H B pwd ++ x) ∧ ok (okey H B pwd ++ H (ikey H B pwd ++ x))) :
    ∃ mac, Hmac.new (legacyDigest M) (Legacy.new M) pwd = some mac ∧
      (pbkdf2 (hmacMac (legacyDigest M)) mac salt c dkLen = none ↔ ¬ ValidPbkdf2 L c dkLen) :=
  Cx.Proofs.Refusal.pbkdf2_none_iff M H B L ok hC pwd salt c dkLen hk hok
theorem pbkdf2_c0_refused {μ : Type} (Mm : MacModel μ) (mac : μ) (salt : Bytes) (dkLen : Nat) :
    pbkdf2 Mm mac salt 0 dkLen = none := Cx.Proofs.Refusal.pbkdf2_c0_refused Mm mac salt dkLen
example : Pbkdf2HmacCorrect sha256Ctx Spec.Sha2.sha256 64 32 Cx.Props.C02.Sha2.ok256 := pbkdf2_hmac_sha256

theorem scrypt_params_none_iff (log_n r p : Nat) :
    ScryptParams.new log_n r p = none ↔ ¬ ValidScryptParams log_n r p :=
  Cx.Proofs.Refusal.scrypt_params_none_iff log_n r p
theorem scrypt_params_ok (log_n r p : Nat) (hv : ValidScryptParams log_n r p) :
    ∃ params, ScryptParams.new log_n r p = some params := Cx.Proofs.Refusal.scrypt_params_ok log_n r p hv
/-- re-export: the same decision against the RFC's own formulation `Spec.Kdf.scryptValid` -/
theorem scrypt_params_accepts_iff (log_n r p : Nat) :
    (ScryptParams.new log_n r p).isSome ↔
      (Spec.Kdf.scryptValid (2 ^ log_n) r p 1 = true ∧
        log_n < 64 ∧ 128 * r * 2 ^ log_n < 2 ^ 64 ∧ 128 * r * p < 2 ^ 64) :=
  Cx.Props.C10.scrypt_params_accepts_iff log_n r p
theorem scrypt_out_refused (P S : Bytes) (params : ScryptParams) (dkLen : Nat)
    (h : dkLen = 0 ∨ (2 ^ 32 - 1) * 32 + 31 < dkLen) : scrypt P S params dkLen = none :=
  Cx.Proofs.Refusal.scrypt_out_refused P S params dkLen h
theorem scrypt_none_iff (P S : Bytes) (log_n r p dkLen : Nat) (hlog : log_n ≤ 32) (hmem : 128 * r * 2 ^ log_n < 2 ^ 64)
    (hP : P.length < 2 ^ 61) (hS : S.length + 68 < 2 ^ 61) :
    (ScryptParams.new log_n r p).bind (fun params => scrypt P S params dkLen) = none ↔
      ¬ (ValidScryptParams log_n r p ∧ ValidScryptOut dkLen) :=
  Cx.Proofs.Refusal.scrypt_none_iff P S log_n r p dkLen hlog hmem hP hS
example : (10 ≤ 32) ∧ 128 * 8 * 2 ^ 10 < 2 ^ 64 ∧ ([112, 97, 115, 115] : Bytes).length < 2 ^ 61 ∧
    ([78, 97, 67, 108] : Bytes).length + 68 < 2 ^ 61 := by decide

end kdf

/-! ## 6. Argon2 -/
section argon2
open Cx.Impl.Argon2 Cx.Proofs.Argon2
open Cx.Spec.Argon2 (Ty)

example (p : Nat) : ValidArgon2Parallelism p ↔ (1 ≤ p ∧ p < 2 ^ 24) := Iff.rfl
example (t : Nat) : ValidArgon2Iterations t ↔ 1 ≤ t := Iff.rfl
example (v : Nat) : ValidArgon2Version v ↔ (v = 0x13 ∨ v = 0x10) := Iff.rfl
example (v t p : Nat) : ValidArgon2Build v t p ↔
    ((v = 0x13 ∨ v = 0x10) ∧ 1 ≤ t ∧ (1 ≤ p ∧ p < 2 ^ 24)) := Iff.rfl
example : ValidArgon2Build 0x13 3 4 ∧ ¬ ValidArgon2Build 0x11 3 4 ∧ ¬ ValidArgon2Build 0x13 0 4 ∧
    ¬ ValidArgon2Build 0x13 3 0 ∧ ¬ ValidArgon2Build 0x10 3 (2 ^ 24) ∧ ValidArgon2Build 0x10 1 (2 ^ 24 - 1) := by decide

theorem argon2_parallelism_err_iff (s : Params) (p : Nat) (hs : s.memory_kb < 2 ^ 32) :
    IsErr (s.parallelism' p) ↔ ¬ ValidArgon2Parallelism p := Cx.Proofs.Refusal.argon2_parallelism_err_iff s p hs
theorem argon2_parallelism_error_kind (s : Params) (p : Nat) (h : ¬ ValidArgon2Parallelism p) :
    s.parallelism' p = some (.error (if p = 0 then .ParallelismZero else .ParallelismTooHigh)) :=
  Cx.Proofs.Refusal.argon2_parallelism_error_kind s p h
theorem argon2_iterations_err_iff (s : Params) (t : Nat) : IsErr (s.iterations' t) ↔ ¬ ValidArgon2Iterations t :=
  Cx.Proofs.Refusal.argon2_iterations_err_iff s t
theorem argon2_version_err_iff (s : Params) (v : Nat) : IsErr (s.version' v) ↔ ¬ ValidArgon2Version v :=
  Cx.Proofs.Refusal.argon2_version_err_iff s v
/-- `memory_kb` has no refusal: below 8·parallelism the value is raised (documented-unchecked range of C20) -/
theorem argon2_memory_kb_never_refuses (s : Params) (m : Nat) (hs : ParamsInv s) (hm : m < 2 ^ 32) :
    ∃ s', s.memory_kb' m = some (.ok s') ∧ s'.memory_kb = max m (8 * s.parallelism) ∧ ParamsInv s' :=
  Cx.Proofs.Refusal.argon2_memory_kb_never_refuses s m hs hm
theorem argon2_build_err_iff (y : Ty) (v t m p : Nat) (hm : m < 2 ^ 32) :
    IsErr ((Params.def (tyOf y)).build v t m p) ↔ ¬ ValidArgon2Build v t p :=
  Cx.Proofs.Refusal.argon2_build_err_iff y v t m p hm
theorem argon2_build_ok (y : Ty) (v t m p : Nat) (hm : m < 2 ^ 32) (h : ValidArgon2Build v t p) :
    (Params.def (tyOf y)).build v t m p = some (.ok (builtParams y v t m p)) :=
  Cx.Proofs.Refusal.argon2_build_ok y v t m p hm h

theorem argon2_at_zero_refused (params : Params) (pwd salt key aad : Bytes) :
    argon2_at params pwd salt key aad 0 = none ∧ argon2 0 params pwd salt key aad = none :=
  ⟨Cx.Proofs.Refusal.argon2_at_zero_refused params pwd salt key aad,
   Cx.Proofs.Refusal.argon2_at_zero_refused params pwd salt key aad⟩
/-- tag length: refused iff 0; 1..3 are accepted (documented-unchecked), ≥ 4 is RFC 9106 (`argon2_eq_rfc`) -/
theorem argon2_at_none_iff (c : Spec.Argon2.Params) (params : Params) (hc : Corr params c)
    (hp : 1 ≤ c.p) (hm : 8 * c.p ≤ c.m) (hm2 : c.m < 2 ^ 32) (hT2 : c.T < 2 ^ 32)
    (pwd salt key aad : Bytes) (hP : pwd.length < 2 ^ 32) (hS : salt.length < 2 ^ 32) (hK : key.length < 2 ^ 32)
    (hX : aad.length < 2 ^ 32) : argon2_at params pwd salt key aad c.T = none ↔ c.T = 0 :=
  Cx.Proofs.Refusal.argon2_at_none_iff c params hc hp hm hm2 hT2 pwd salt key aad hP hS hK hX
example : Corr (builtParams .id 0x13 3 32 4) { y := .id, v := 0x13, t := 3, m := 32, p := 4, T := 2 } :=
  Cx.Props.C11.builder_corr .id 0x13 3 32 4 2 (by decide) (by decide)

end argon2

/-! ## 7. X25519 / Ed25519 -/

theorem x25519_tryfrom_none_iff (v : Bytes) : Impl.X25519.tryFrom v = none ↔ v.length ≠ 32 :=
  Cx.Proofs.Refusal.x25519_tryfrom_none_iff v
theorem x25519_tryfrom_ok (v : Bytes) (h : v.length = 32) : Impl.X25519.tryFrom v = some v :=
  Cx.Proofs.Refusal.x25519_tryfrom_ok v h
example : Impl.X25519.tryFrom (List.replicate 32 5) = some (List.replicate 32 5) ∧
    Impl.X25519.tryFrom (List.replicate 31 5) = none ∧ Impl.X25519.tryFrom (List.replicate 33 5) = none ∧
    Impl.X25519.tryFrom [] = none := by decide

/-- `ed25519::keypair(&[u8;32])`, `signature(msg, &[u8;64])`, `verify(msg, &[u8;32], &[u8;64])`: every length is an
    array type, so no length refusal exists and none is needed: inside the types the functions are total
    (`verify` answers `false`, never panics) -/
theorem ed25519_no_refusal_needed (seed msg pk sig : Bytes) (hs : seed.length = 32) (hm : msg.length < 2 ^ 124)
    (hpk : pk.length = 32) (hsig : sig.length = 64) :
    (∃ kp, Impl.Ed25519.keypair seed = some kp) ∧
    (∃ s, Impl.Ed25519.signature msg (Spec.Ed25519.keypair seed).1 = some s) ∧
    (∃ b, Impl.Ed25519.verify msg pk sig = some b) :=
  ⟨⟨_, Cx.Props.C13.keypair_is_rfc8032 seed hs⟩, ⟨_, Cx.Props.C13.signature_is_rfc8032 seed msg hs hm⟩,
   ⟨_, Cx.Props.C14.verify_is_spec_predicate msg pk sig hpk hsig hm⟩⟩

/-! ## 8. AEAD (re-export of Props/C20/Aead.lean, so that this file lists the whole matrix) -/
section aead
open Cx.Impl.Aead Cx.Proofs.Aead
variable {σ : Type} {E : ChaCha.Engine σ} {R : Nat} {key nonce : Bytes}

theorem aead_reuse_after_encrypt_refused (o o' : ChaChaPoly1305 σ) (pt ct tag : Bytes) (n l : Nat)
    (h : ChaChaPoly1305.encrypt E R o pt n l = .ok (o', ct, tag)) :
    o'.finished = true ∧
    (∀ input n' l', ChaChaPoly1305.encrypt E R o' input n' l' = .error "PANIC") ∧
    (∀ input n' t, ChaChaPoly1305.decrypt E R o' input n' t = .error "PANIC") :=
  Cx.Props.C20.Aead.reuse_after_encrypt_refused o o' pt ct tag n l h
theorem aead_reuse_after_decrypt_refused (o o' : ChaChaPoly1305 σ) (ct out tag : Bytes) (n : Nat) (v : Bool)
    (h : ChaChaPoly1305.decrypt E R o ct n tag = .ok (o', out, v)) :
    o'.finished = true ∧
    (∀ input n' l', ChaChaPoly1305.encrypt E R o' input n' l' = .error "PANIC") ∧
    (∀ input n' t, ChaChaPoly1305.decrypt E R o' input n' t = .error "PANIC") :=
  Cx.Props.C20.Aead.reuse_after_decrypt_refused o o' ct out tag n v h
theorem aead_oneshot_encrypt_bad_lengths (o : ChaChaPoly1305 σ) (input : Bytes) (n l : Nat)
    (h : input.length ≠ n ∨ l ≠ 16) : ChaChaPoly1305.encrypt E R o input n l = .error "PANIC" :=
  Cx.Props.C20.Aead.oneshot_encrypt_bad_lengths o input n l h
theorem aead_oneshot_decrypt_bad_lengths (o : ChaChaPoly1305 σ) (input : Bytes) (n : Nat) (tag : Bytes)
    (h : input.length ≠ n ∨ tag.length ≠ 16) : ChaChaPoly1305.decrypt E R o input n tag = .error "PANIC" :=
  Cx.Props.C20.Aead.oneshot_decrypt_bad_lengths o input n tag h
theorem aead_incremental_bad_output_length (c : Context σ) (input : Bytes) (n : Nat) (h : input.length ≠ n) :
    ContextEncryption.encrypt E R c input n = .error "PANIC" ∧
    ContextDecryption.decrypt E R c input n = .error "PANIC" :=
  Cx.Props.C20.Aead.incremental_bad_output_length c input n h
theorem aead_new_refuses_key_length (hn : nonce.length = 12) (hk : ¬ (key.length = 16 ∨ key.length = 32)) (aad : Bytes) :
    (∃ e, Context.new E R key nonce = .error e ∧ e = "PANIC") ∧
    (∃ e, ChaChaPoly1305.new E R key nonce aad = .error e ∧ e = "PANIC") :=
  Cx.Props.C20.Aead.new_refuses_key_length hn hk aad
theorem aead_new_refuses_rounds (hn : nonce.length = 12) (hk : key.length = 16 ∨ key.length = 32)
    (hR : ¬ (R = 8 ∨ R = 12 ∨ R = 20)) : Context.new E R key nonce = .error "PANIC" :=
  Cx.Props.C20.Aead.new_refuses_rounds hn hk hR
theorem aead_incremental_step_refused (st : Phase × Context σ) (a : AbsSt) (op : Op)
    (hph : st.1 = a.phase) (h : absStep R key nonce a op = none) : ∃ e, step E R st op = .error e :=
  Cx.Props.C20.Aead.incremental_step_refused st a op hph h

end aead

end Cx.Props.C20.Refusal
