/-
  Props.C20.GlueTieRest — the translator tie for the LEFTOVER glue (tools/ktx_glue_rest.py, kernel specs tools/kernels/glue_rest.py).
  `Extracted/GlueRest.lean` is regenerated from the CURRENT Rust source on every run; every theorem `<f>_src_eq_model` proves the
  generated definition equal to the hand model (or driver op) the other theorems and the differential harness are about, for ALL
  states and inputs.  A semantic change of one of these functions changes the generated definition and breaks its theorem.
-/
import CxVerif.Proofs.GlueRest
import CxVerif.Proofs.GlueRestMuladd
import CxVerif.Impl.HashLen
import CxVerif.Driver.KTie
import CxVerif.Proofs.ConstantTime
import CxVerif.Proofs.Argon2Segment
import CxVerif.Props.C02.GlueTieSponge
namespace Cx.Props.C20.GlueTieRest
open Cx Cx.Extracted.GlueRest Cx.Proofs.GlueRest

/-! ## (f) the `#[cfg(cryptoxide_verif)]` hooks: they preset exactly what the model's driver op presets -/

namespace Blake2b
open Cx.Impl.Blake2 Cx.Extracted.GlueRest.Blake2b
theorem structs_checked : Engine_struct_src = () ∧ Context_struct_src = () ∧ ContextDyn_struct_src = () ∧ Engine_alias_src = () :=
  ⟨rfl, rfl, rfl, rfl⟩
/-- hook `Context::verif_set_counter(t0, t1)`: the model's `T<t0>:<t1>` op (`Ctx.verif_set_counter`) on the same two words -/
theorem Context.verif_set_counter_src_eq_model (c : Ctx UInt64) (t0 t1 : UInt64) :
    Context.verif_set_counter_src c t0 t1 = Ctx.verif_set_counter c t0.toNat t1.toNat := by
  have h0 : t0.toNat % 2 ^ 64 = t0.toNat := Nat.mod_eq_of_lt (UInt64.toNat_lt _)
  have h1 : t1.toNat % 2 ^ 64 = t1.toNat := Nat.mod_eq_of_lt (UInt64.toNat_lt _)
  simp [Context.verif_set_counter_src, Ctx.verif_set_counter, Spec.Blake2.Word.bits, h0, h1]
/-- the same hook on `ContextDyn` (the model keeps the shared fields in `ctx`) -/
theorem ContextDyn.verif_set_counter_src_eq_model (d : ContextDyn UInt64) (t0 t1 : UInt64) :
    ContextDyn.verif_set_counter_src d t0 t1 = { d with ctx := Ctx.verif_set_counter d.ctx t0.toNat t1.toNat } := by
  have h0 : t0.toNat % 2 ^ 64 = t0.toNat := Nat.mod_eq_of_lt (UInt64.toNat_lt _)
  have h1 : t1.toNat % 2 ^ 64 = t1.toNat := Nat.mod_eq_of_lt (UInt64.toNat_lt _)
  simp [ContextDyn.verif_set_counter_src, Ctx.verif_set_counter, Spec.Blake2.Word.bits, h0, h1]
end Blake2b

namespace Blake2s
open Cx.Impl.Blake2 Cx.Extracted.GlueRest.Blake2s
theorem structs_checked : Engine_struct_src = () ∧ Context_struct_src = () ∧ ContextDyn_struct_src = () ∧ Engine_alias_src = () :=
  ⟨rfl, rfl, rfl, rfl⟩
/-- hook `Context::verif_set_counter(t0, t1)`: the model's `T<t0>:<t1>` op (`Ctx.verif_set_counter`) on the same two words -/
theorem Context.verif_set_counter_src_eq_model (c : Ctx UInt32) (t0 t1 : UInt32) :
    Context.verif_set_counter_src c t0 t1 = Ctx.verif_set_counter c t0.toNat t1.toNat := by
  have h0 : t0.toNat % 2 ^ 32 = t0.toNat := Nat.mod_eq_of_lt (UInt32.toNat_lt _)
  have h1 : t1.toNat % 2 ^ 32 = t1.toNat := Nat.mod_eq_of_lt (UInt32.toNat_lt _)
  simp [Context.verif_set_counter_src, Ctx.verif_set_counter, Spec.Blake2.Word.bits, h0, h1]
/-- the same hook on `ContextDyn` (the model keeps the shared fields in `ctx`) -/
theorem ContextDyn.verif_set_counter_src_eq_model (d : ContextDyn UInt32) (t0 t1 : UInt32) :
    ContextDyn.verif_set_counter_src d t0 t1 = { d with ctx := Ctx.verif_set_counter d.ctx t0.toNat t1.toNat } := by
  have h0 : t0.toNat % 2 ^ 32 = t0.toNat := Nat.mod_eq_of_lt (UInt32.toNat_lt _)
  have h1 : t1.toNat % 2 ^ 32 = t1.toNat := Nat.mod_eq_of_lt (UInt32.toNat_lt _)
  simp [ContextDyn.verif_set_counter_src, Ctx.verif_set_counter, Spec.Blake2.Word.bits, h0, h1]
end Blake2s

namespace MdHooks
open Cx.Impl Cx.Impl.HashLen
theorem structs_checked : Sha1.Context_struct_src = () ∧ Ripemd160.Context_struct_src = () ∧ Sha2.Engine512_struct_src = () ∧
    Sha2.Engine256_struct_src = () ∧ Sha2.Context512_struct_src = () ∧ Sha2.Context384_struct_src = () ∧ Sha2.Context512_256_struct_src = () ∧
    Sha2.Context512_224_struct_src = () ∧ Sha2.Context256_struct_src = () ∧ Sha2.Context224_struct_src = () :=
  ⟨rfl, rfl, rfl, rfl, rfl, rfl, rfl, rfl, rfl, rfl⟩
theorem Sha1.verif_set_processed_bytes_src_eq_model (c : Impl.Sha1.Context) (n : UInt64) :
    Sha1.Context.verif_set_processed_bytes_src c n = Sha1Ctx.verif_set_processed_bytes c n := rfl
theorem Ripemd160.verif_set_processed_bytes_src_eq_model (c : Impl.Ripemd160.Context) (n : UInt64) :
    Ripemd160.Context.verif_set_processed_bytes_src c n = RipemdCtx.verif_set_processed_bytes c n := rfl
/-- the four `digest!(512 …)` contexts: `n as _` is the identity on `u128` (`n < 2^128` is the range of the parameter type) -/
theorem Sha2.verif_set_processed_bytes_512_src_eq_model (c : Impl.Sha2.Ctx512) (n : Nat) (hn : n < 2 ^ 128) :
    Sha2.Context512.verif_set_processed_bytes_src c n = Ctx512.verif_set_processed_bytes c n ∧
    Sha2.Context384.verif_set_processed_bytes_src c n = Ctx512.verif_set_processed_bytes c n ∧
    Sha2.Context512_256.verif_set_processed_bytes_src c n = Ctx512.verif_set_processed_bytes c n ∧
    Sha2.Context512_224.verif_set_processed_bytes_src c n = Ctx512.verif_set_processed_bytes c n := by
  simp [Sha2.Context512.verif_set_processed_bytes_src, Sha2.Context384.verif_set_processed_bytes_src,
    Sha2.Context512_256.verif_set_processed_bytes_src, Sha2.Context512_224.verif_set_processed_bytes_src,
    Ctx512.verif_set_processed_bytes, Nat.mod_eq_of_lt hn]
/-- the two `digest!(256 …)` contexts: `n as _` truncates the `u128` to the `u64` field -/
theorem Sha2.verif_set_processed_bytes_256_src_eq_model (c : Impl.Sha2.Ctx256) (n : Nat) :
    Sha2.Context256.verif_set_processed_bytes_src c n = Ctx256.verif_set_processed_bytes c n ∧
    Sha2.Context224.verif_set_processed_bytes_src c n = Ctx256.verif_set_processed_bytes c n := by
  have h : n % 2 ^ 128 % 2 ^ 64 = n % 2 ^ 64 := Nat.mod_mod_of_dvd n (by decide : 2 ^ 64 ∣ 2 ^ 128)
  simp [Sha2.Context256.verif_set_processed_bytes_src, Sha2.Context224.verif_set_processed_bytes_src,
    Ctx256.verif_set_processed_bytes, h]
end MdHooks

namespace Poly1305
open Cx.Impl.Poly1305 Cx.Extracted.GlueRest.Poly1305
theorem structs_checked : Poly1305_struct_src = () := rfl
/-- hook `Poly1305::verif_from_state(r, h, pad)` builds exactly the state the `ktie.poly.*` driver ops start from -/
theorem verif_from_state_src_eq_model (r h : L5) (pad : L4) : verif_from_state_src r h pad = Driver.KTie.polyState r h pad := rfl
/-- hook `verif_h`: the accumulator limbs the `ktie.poly.block` op prints -/
theorem verif_h_src_eq_model (s : State) : verif_h_src s = s.h := rfl
/-- `mul64(a, b) = a as u64 * b as u64` never overflows: the product the limb kernels (Props/C05/KernelTie) use -/
theorem mul64_src_eq_model (a b : Nat) (ha : a < 2 ^ 32) (hb : b < 2 ^ 32) : mul64_src a b = some (a * b) := by
  have : a * b < 2 ^ 64 := by
    calc a * b < 2 ^ 32 * 2 ^ 32 := Nat.mul_lt_mul'' ha hb
      _ = 2 ^ 64 := by decide
  simp [mul64_src, chk_of_lt this]
end Poly1305


/-! ## (b) constant_time.rs leftovers and `<&Tag as CtEqual>::ct_ne` -/

namespace CT
open Cx.Impl.CT Cx.Extracted.GlueRest.CT
theorem structs_checked : CtOption_struct_src = () := rfl
/-- `impl From<Choice> for bool` (the `ct.choice.bool` op) -/
theorem bool_from_choice_src_eq_model (c : Choice) : bool_from_choice_src c = c.isTrue := rfl
/-- `CtOption::from((c, t)).into_option()` is the model's `ctOptionInto c t` (the `ct.option` op), for every payload type -/
theorem CtOption.into_option_from_src_eq_model {T : Type} (c : Choice) (t : T) :
    CtOption.into_option_src (CtOption.from_src (c, t)) = ctOptionInto c t := rfl
theorem CtOption.from_src_fields {T : Type} (c : Choice) (t : T) :
    (CtOption.from_src (c, t)).present = c ∧ (CtOption.from_src (c, t)).t = t := ⟨rfl, rfl⟩
theorem CtOption.into_option_src_eq_model {T : Type} (o : CtOption T) : CtOption.into_option_src o = ctOptionInto o.present o.t := rfl
/-- the `verif` wrappers hand their arguments to the crate-private functions unchanged (ops `ct.swap64/32`, `ct.set64/32`) -/
theorem verif.array64_maybe_swap_with_src_eq_model (a b : List UInt64) (swap : Choice) :
    verif.array64_maybe_swap_with_src a b swap = ct_array64_maybe_swap_with a b swap := rfl
theorem verif.array32_maybe_swap_with_src_eq_model (a b : List UInt32) (swap : Choice) :
    verif.array32_maybe_swap_with_src a b swap = ct_array32_maybe_swap_with a b swap := rfl
theorem verif.array64_maybe_set_src_eq_model (a b : List UInt64) (swap : Choice) :
    verif.array64_maybe_set_src a b swap = ct_array64_maybe_set a b swap := rfl
theorem verif.array32_maybe_set_src_eq_model (a b : List UInt32) (swap : Choice) :
    verif.array32_maybe_set_src a b swap = ct_array32_maybe_set a b swap := rfl
end CT

namespace Tag
open Cx.Impl.CT Cx.Extracted.GlueRest.Tag
theorem structs_checked : Tag_struct_src = () := rfl
theorem ct_eq_src_eq_model (a b : Bytes) : ct_eq_src a b = array_u8_ct_eq a b := rfl
theorem ct_ne_src_eq_model (a b : Bytes) : ct_ne_src a b = array_u8_ct_ne a b := rfl
/-- the verdict of the `ct.tag.ne` op: `!macResultEq` on two 16-byte tags -/
theorem ct_ne_src_isTrue (a b : Bytes) (h : a.length = b.length) : (ct_ne_src a b).isTrue = !macResultEq a b := by
  have hz : ∀ x : UInt64, (u64_ct_zero x).negate.isTrue = !(u64_ct_zero x).isTrue := by
    intro x
    simp only [u64_ct_zero, Choice.negate, Choice.isTrue]
    have h2 : ((x ||| wneg x) >>> 63) = 0 ∨ ((x ||| wneg x) >>> 63) = 1 := by
      rw [Cx.Proofs.CT.nz_val]; split <;> simp
    rcases h2 with h2 | h2 <;> simp [h2]
  simp only [ct_ne_src, ct_eq_src, macResultEq, h, if_true, array_u8_ct_eq]
  exact hz _
end Tag

/-! ## (a) src/chacha/mod.rs: the `chacha::verif` engine wrappers and the cfg dispatch -/

namespace ChaChaMod
open Cx.Impl.ChaCha Cx.Extracted.GlueRest.ChaChaMod
/-- for the harness target `ChaChaEngine<R>` (= `verif::Native`) is the SSE2 engine, `reference_verif` (= `verif::Portable`) is
    reference.rs compiled next to it: the engines the `stream.eng native|portable` ops run (`sse2Engine` / `referenceEngine`) -/
theorem cfg_dispatch :
    ChaChaEngine_cfg_src = some "pub(crate) type ChaChaEngine<const R: usize> = sse2::State<R>;" ∧
    reference_verif_cfg_src = some "#[path = 'reference.rs'] #[allow(dead_code)] mod reference_verif;" ∧
    engine_mod_cfg_src = some "mod sse2;" := ⟨rfl, rfl, rfl⟩
theorem structs_checked : wrapper_struct_src = () ∧ Portable_invocation_src = () ∧ Native_invocation_src = () := ⟨rfl, rfl, rfl⟩

section
variable {σ : Type} (E : Engine σ) (R : Nat)
theorem Portable.init_src_eq_model (key nonce : Bytes) : Portable.init_src E R key nonce = (E.init key nonce).toOption := by
  simp [Portable.init_src]
theorem Portable.state_bytes_src_eq_model (s : σ) : Portable.state_bytes_src E R s = E.output_bytes s := rfl
theorem Portable.block_src_eq_model (s : σ) : Portable.block_src E R s = E.block R s := rfl
theorem Portable.hblock_src_eq_model (s : σ) : Portable.hblock_src E R s = E.hblock R s := rfl
theorem Portable.set_counter_src_eq_model (s : σ) (c : UInt32) : Portable.set_counter_src E R s c = E.set_counter s c := rfl
theorem Portable.set_counter64_src_eq_model (s : σ) (c : UInt64) : Portable.set_counter64_src E R s c = E.verif_set_counter64 s c := rfl
theorem Portable.increment_src_eq_model (s : σ) : Portable.increment_src E R s = E.increment s := rfl
theorem Portable.increment64_src_eq_model (s : σ) : Portable.increment64_src E R s = E.increment64 s := rfl
theorem Native.init_src_eq_model (key nonce : Bytes) : Native.init_src E R key nonce = (E.init key nonce).toOption := by
  simp [Native.init_src]
theorem Native.state_bytes_src_eq_model (s : σ) : Native.state_bytes_src E R s = E.output_bytes s := rfl
theorem Native.block_src_eq_model (s : σ) : Native.block_src E R s = E.block R s := rfl
theorem Native.hblock_src_eq_model (s : σ) : Native.hblock_src E R s = E.hblock R s := rfl
theorem Native.set_counter_src_eq_model (s : σ) (c : UInt32) : Native.set_counter_src E R s c = E.set_counter s c := rfl
theorem Native.set_counter64_src_eq_model (s : σ) (c : UInt64) : Native.set_counter64_src E R s c = E.verif_set_counter64 s c := rfl
theorem Native.increment_src_eq_model (s : σ) : Native.increment_src E R s = E.increment s := rfl
theorem Native.increment64_src_eq_model (s : σ) : Native.increment64_src E R s = E.increment64 s := rfl
end
end ChaChaMod

/-! ## (e) the `keccak_impl!` contexts (`Engine<DIGESTLEN, 0>`) above the sponge engine GENERATED from sha3.rs -/

namespace Keccak
open Cx.Impl.Sha3 Cx.Extracted.GlueRest.Keccak
open Cx.Props.C02.GlueTieSponge
theorem structs_checked : Context_struct_src = () ∧ Imports_src = () := ⟨rfl, rfl⟩
theorem Context.new_src_eq_model (dl : Nat) : Context.new_src dl = some Impl.Sha3.Context.new := by
  simp [Context.new_src, Sha3.Engine.new_src_eq_model, Impl.Sha3.Context.new]
theorem Context.update_mut_src_eq_model (dl : Nat) (c : Impl.Sha3.Context) (data : Bytes) (hd : data.length < 2 ^ 64) :
    Context.update_mut_src dl c data = Impl.Sha3.Context.update_mut dl c data := by
  unfold Context.update_mut_src Impl.Sha3.Context.update_mut
  rw [Sha3.Engine.process_src_eq_model dl 0 c data hd]
  cases Engine.process dl c data <;> rfl
theorem Context.update_src_eq_model (dl : Nat) (c : Impl.Sha3.Context) (data : Bytes) (hd : data.length < 2 ^ 64) :
    Context.update_src dl c data = Impl.Sha3.Context.update dl c data := by
  unfold Context.update_src Impl.Sha3.Context.update
  rw [Sha3.Engine.process_src_eq_model dl 0 c data hd]
  cases Engine.process dl c data <;> rfl
/-- `finalize_reset` with the Keccak domain separation length 0 (unconditional, as for the SHA-3 contexts) -/
theorem Context.finalize_reset_src_eq_model (dl : Nat) (c : Impl.Sha3.Context) :
    Context.finalize_reset_src dl c = Impl.Sha3.Context.finalize_reset dl 0 c := by
  unfold Context.finalize_reset_src Impl.Sha3.Context.finalize_reset
  show (Cx.Extracted.GlueSponge.Sha3.Engine.output_src dl 0 c (zeros dl)).bind _ = _
  rw [Cx.Proofs.GlueSponge.output_src_digest]
  cases Engine.output dl 0 c dl with
  | none => rfl
  | some p => simp [Sha3.Engine.reset_src_eq_model]
theorem Context.finalize_src_eq_model (dl : Nat) (c : Impl.Sha3.Context) :
    Context.finalize_src dl c = Impl.Sha3.Context.finalize dl 0 c := by
  unfold Context.finalize_src Impl.Sha3.Context.finalize
  show (Cx.Extracted.GlueSponge.Sha3.Engine.output_src dl 0 c (zeros dl)).bind _ = _
  rw [Cx.Proofs.GlueSponge.output_src_digest]
  cases Engine.output dl 0 c dl with
  | none => rfl
  | some p => rfl
theorem Context.reset_src_eq_model (dl : Nat) (c : Impl.Sha3.Context) : Context.reset_src dl c = some (Impl.Sha3.Context.reset c) := by
  simp [Context.reset_src, Sha3.Engine.reset_src_eq_model, Impl.Sha3.Context.reset]
theorem Algorithm.new_src_eq_model (dl : Nat) : Algorithm.new_src dl = some Impl.Sha3.Context.new := by
  simp [Algorithm.new_src, Context.new_src_eq_model]
/-- capstone on GENERATED definitions only: `Keccak::new().update(msg).finalize()` as the source says it now is the model's
    one-shot `hash dl 0` (= `keccak224 … keccak512` for dl = 28, 32, 48, 64; `= Spec` by Props/C01) -/
theorem keccak_src_eq_hash (dl : Nat) (msg : Bytes) (hm : msg.length < 2 ^ 64) :
    ((Algorithm.new_src dl).bind fun c => (Context.update_src dl c msg).bind fun c => Context.finalize_src dl c) = hash dl 0 msg := by
  rw [Algorithm.new_src_eq_model]
  simp only [Option.bind_some, Context.update_src_eq_model dl _ msg hm, Impl.Sha3.hash]
  cases Impl.Sha3.Context.update dl Impl.Sha3.Context.new msg with
  | none => rfl
  | some c => simp [Context.finalize_src_eq_model]
end Keccak

/-! ## (c) src/curve25519/fe/load.rs, scalar/scalar32.rs (small functions), fe/fe32/mod.rs (compositions) -/

namespace Load
open Cx.Extracted.GlueRest.Load
/-- `load_3u` / `load_4u`: the OR of the shifted bytes (a slice shorter than 3 / 4 bytes panics: `none`) -/
theorem load_3u_src_eq (a b c : UInt8) (rest : Bytes) :
    load_3u_src (a :: b :: c :: rest) = some (a.toUInt64 ||| (b.toUInt64 <<< (8 : UInt64)) ||| (c.toUInt64 <<< (16 : UInt64))) :=
  load_3u_src_cons a b c rest
theorem load_4u_src_eq (a b c d : UInt8) (rest : Bytes) :
    load_4u_src (a :: b :: c :: d :: rest) =
      some (a.toUInt64 ||| (b.toUInt64 <<< (8 : UInt64)) ||| (c.toUInt64 <<< (16 : UInt64)) ||| (d.toUInt64 <<< (24 : UInt64))) :=
  load_4u_src_cons a b c d rest
theorem load_short (s : Bytes) : (s.length < 3 → load_3u_src s = none ∧ load_3i_src s = none) ∧
    (s.length < 4 → load_4u_src s = none ∧ load_4i_src s = none) := by
  constructor <;> intro h
  · match s, h with
    | [], _ => exact ⟨rfl, rfl⟩
    | [_], _ => exact ⟨rfl, rfl⟩
    | [_, _], _ => exact ⟨rfl, rfl⟩
  · match s, h with
    | [], _ => exact ⟨rfl, rfl⟩
    | [_], _ => exact ⟨rfl, rfl⟩
    | [_, _], _ => exact ⟨rfl, rfl⟩
    | [_, _, _], _ => exact ⟨rfl, rfl⟩
/-- `load_3i(&b[i..i+3])` / `load_4i(&b[i..i+4])` are the loads of the fe32 model (`Impl.Fe32.from_bytes`) -/
theorem load_3i_src_eq_model_fe32 (b : Bytes) (h : b.length = 32) (i : Nat) (hi : i + 2 < 32) :
    load_3i_src ((b.drop i).take 3) = some (Impl.Fe32.load_3i b h i hi) := by
  rw [load_3i_src_window b i (by omega)]; rfl
theorem load_4i_src_eq_model_fe32 (b : Bytes) (h : b.length = 32) (i : Nat) (hi : i + 3 < 32) :
    load_4i_src ((b.drop i).take 4) = some (Impl.Fe32.load_4i b h i hi) := by
  rw [load_4i_src_window b i (by omega)]; rfl
/-- … and the loads of the scalar32 model (`reduce_from_wide_bytes`, `muladd`), on a window and on the whole array (`load_3i(s)`) -/
theorem load_3i_src_eq_model_sc32 {n : Nat} (s : Vector UInt8 n) (o : Nat) (ho : o + 2 < n) :
    load_3i_src ((s.toList.drop o).take 3) = some (Impl.Scalar32.load_3 s o) := by
  rw [load_3i_src_window s.toList o (by simpa using ho)]
  simp [Impl.Scalar32.load_3, List.getD_eq_getElem?_getD, show o < n by omega, show o + 1 < n by omega, ho]
theorem load_4i_src_eq_model_sc32 {n : Nat} (s : Vector UInt8 n) (o : Nat) (ho : o + 3 < n) :
    load_4i_src ((s.toList.drop o).take 4) = some (Impl.Scalar32.load_4 s o) := by
  rw [load_4i_src_window s.toList o (by simpa using ho)]
  simp [Impl.Scalar32.load_4, List.getD_eq_getElem?_getD, show o < n by omega, show o + 1 < n by omega, show o + 2 < n by omega, ho]
theorem load_3i_src_whole_eq_model_sc32 {n : Nat} (s : Vector UInt8 n) (hn : 2 < n) :
    load_3i_src s.toList = some (Impl.Scalar32.load_3 s 0) := by
  have h := drop_eq_cons3 s.toList 0 (by simpa using hn)
  rw [List.drop_zero] at h
  rw [h, load_3i_src_cons]
  simp [Impl.Scalar32.load_3, List.getD_eq_getElem?_getD, show 0 < n by omega, show 1 < n by omega, hn]
end Load

namespace Scalar32
open Cx.Impl.Scalar32 Cx.Extracted.GlueRest.Scalar32
theorem structs_checked : Scalar_struct_src = () := rfl
theorem from_bytes_src_eq_model (b : Vector UInt8 32) : from_bytes_src b = from_bytes b := rfl
theorem to_bytes_src_eq_model (s : Scalar) : (to_bytes_src s).toList = to_bytes s := rfl
/-- the nested `fn check_s_lt_l`: the `loop` from i = 31 down to 0 with its `break` is the model's fold over the reversed bytes; the checked
    `i32` subtractions never overflow; the fuel 32 is never exhausted — for EVERY 32-byte string (`L` is the re-extracted constant) -/
theorem check_s_lt_l_src_eq_model (s : Vector UInt8 32) : check_s_lt_l_src s = some (check_s_lt_l s) :=
  sc32_check_s_lt_l_src_eq_model s
theorem from_bytes_canonical_src_eq_model (b : Vector UInt8 32) : from_bytes_canonical_src b = some (from_bytes_canonical b) := by
  simp [from_bytes_canonical_src, check_s_lt_l_src_eq_model, from_bytes_canonical, from_bytes_src_eq_model]
/-- `bits`: no index of the `for i in 0..256` loop is out of range, no shift amount ≥ 8; the 256 digits are the model's -/
theorem bits_src_eq_model (s : Scalar) : bits_src s = some (bits s) := sc32_bits_src_eq_model s
/-- `nibbles`: `2 * i + 0`, `2 * i + 1` never overflow / leave `[i8; 64]`; the 64 digits are the model's -/
theorem nibbles_src_eq_model (s : Scalar) : nibbles_src s = some (nibbles s) := sc32_nibbles_src_eq_model s
end Scalar32

namespace Scalar32Muladd
open Cx.Impl.Scalar32 Cx.Extracted.GlueRest.Scalar32Muladd
/-- `scalar32::muladd` (sc_muladd): the three generated stages (loads + column sums, rounded carries, reduction by L + output bytes —
    a partition of the statements of the function, re-checked on every run) compose to the hand model, for ALL inputs, INCLUDING where an
    overflow-checked build would panic (`none`): about 1000 checked i64 operations compared one by one.  (`Props/C17/Sc32.lean` proves
    that model equal to `(a·b + c) mod L` with no overflow.) -/
theorem muladd_src_eq_model (a b c : Scalar) : muladd_src a b c = muladd a b c := Cx.Proofs.GlueRestMuladd.muladd_src_eq a b c
/-- the reduction tail of `muladd` is the reduction of `reduce_from_wide_bytes` (`reduce_limbs`) followed by the packing -/
theorem muladd_tail_src_eq_model (s0 s1 s2 s3 s4 s5 s6 s7 s8 s9 s10 s11 s12 s13 s14 s15 s16 s17 s18 s19 s20 s21 s22 s23 : Int) :
    muladd_tail_src s0 s1 s2 s3 s4 s5 s6 s7 s8 s9 s10 s11 s12 s13 s14 s15 s16 s17 s18 s19 s20 s21 s22 s23 =
      (reduce_limbs s0 s1 s2 s3 s4 s5 s6 s7 s8 s9 s10 s11 s12 s13 s14 s15 s16 s17 s18 s19 s20 s21 s22 s23).bind fun t => some (pack t) :=
  Cx.Proofs.GlueRestMuladd.tail_src_eq _ _ _ _ _ _ _ _ _ _ _ _ _ _ _ _ _ _ _ _ _ _ _ _
end Scalar32Muladd

namespace Fe32
open Cx.Impl.Fe32 Cx.Extracted.GlueRest.Fe32
theorem structs_checked : Fe_struct_src = () := rfl
theorem ct_eq_src_eq_model (f g : Fe) : ct_eq_src f g = ct_eq f g := fe32_ct_eq_src_eq_model f g
theorem ct_ne_src_eq_model (f g : Fe) : ct_ne_src f g = (ct_eq f g).map Impl.CT.Choice.negate := fe32_ct_ne_src_eq_model f g
theorem eq_src_eq_model (f g : Fe) : eq_src f g = eq f g := fe32_eq_src_eq_model f g
theorem maybe_swap_with_src_eq_model (f g : Fe) (c : Impl.CT.Choice) : maybe_swap_with_src f g c = maybe_swap_with f g c :=
  fe32_maybe_swap_with_src_eq_model f g c
theorem maybe_set_src_eq_model (f g : Fe) (c : Impl.CT.Choice) : maybe_set_src f g c = maybe_set f g c := fe32_maybe_set_src_eq_model f g c
/-- `square_repeatdly`: the `for _ in 0..n` loop is the model's recursion, for every `n` (in particular `n = 0` squares nothing: defect k) -/
theorem square_repeatdly_src_eq_model (f : Fe) (n : Nat) : square_repeatdly_src f n = square_repeatdly f n :=
  fe32_square_repeatdly_src_eq_model f n
/-- `emul(a, b)`: the exact product of two `i32` never overflows `i64` (the `emul` the limb kernels of Props/C17/KernelTieB32 use) -/
theorem emul_src_eq_model (a b : Int) (ha : -2 ^ 31 ≤ a ∧ a < 2 ^ 31) (hb : -2 ^ 31 ≤ b ∧ b < 2 ^ 31) : emul_src a b = some (emul a b) :=
  fe32_emul_src_eq_model a b ha hb
theorem is_nonzero_src_eq_model (f : Fe) : is_nonzero_src f = is_nonzero f := fe32_is_nonzero_src_eq_model f
theorem is_negative_src_eq_model (f : Fe) : is_negative_src f = is_negative f := fe32_is_negative_src_eq_model f
end Fe32

/-! ## (d) scrypt.rs `salsa20_8`, argon2.rs `Block` views / indexing, cryptoutil.rs `xor_array64_mut` -/

namespace Scrypt
open Cx.Impl.Kdf Cx.Extracted.GlueRest.Scrypt
/-- one iteration of `for _ in 0..rounds / 2`: the 32 statements EXPANDED from `run_round!` and its invocation as the source has them now
    are the model's fold over the re-extracted row table (checked by the kernel on symbolic words) -/
theorem run_round_src_eq_model (i : Nat) (x : Vector UInt32 16) : salsa20_8_src_for1 i x = run_round x := salsa_for1_eq i x
/-- `salsa20_8(input, output)`: the length test of `read_u32v_le`, the word loading, `rounds / 2` double rounds, the feed-forward written
    word by word into `output[4i..4i+4]` — for EVERY input (a length ≠ 64 panics) and every output buffer of at least 64 bytes
    (bytes beyond 64 are kept); no index computation overflows, no slice is out of range -/
theorem salsa20_8_src_eq_model_on (input output : Bytes) (ho : 64 ≤ output.length) :
    salsa20_8_src input output = (salsa20_8 input).map (· ++ output.drop 64) := scrypt_salsa20_8_src_eq input output ho
/-- … on the 64-byte buffer every caller passes (`scrypt_block_mix`): exactly the model's function -/
theorem salsa20_8_src_eq_model (input output : Bytes) (ho : output.length = 64) : salsa20_8_src input output = salsa20_8 input := by
  rw [salsa20_8_src_eq_model_on input output (by omega), List.drop_eq_nil_of_le (by omega)]
  cases salsa20_8 input <;> simp
end Scrypt

namespace Argon2Block
open Cx.Impl.Argon2 Cx.Spec.Argon2 Cx.Extracted.GlueRest.Argon2Block Cx.Extracted.GlueRest.CryptoUtil
theorem structs_checked : Block_struct_src = () := rfl
/-- THE VIEW LEMMA: the `unsafe` casts `&[u64; 128] -> &[u8; 1024]` of `as_u8` / `as_u8_mut` are defined (sizes agree: `BLOCK_SIZE = 8 *
    BLOCK_SIZE_U64`, read from the source) and are the little-endian byte view `Block.as_u8` of the model (x86-64 and every little-endian target) -/
theorem as_u8_src_eq_model (b : Block) : as_u8_src b = some (Block.as_u8 b) := block_as_u8_src_eq_model b
theorem as_u8_mut_get_src_eq_model (b : Block) : as_u8_mut_get_src b = some (Block.as_u8 b) := block_as_u8_mut_get_src_eq_model b
/-- storing 1024 bytes through the `&mut` view gives the model's `Block.of_u8` (another length cannot be stored: the view has type `[u8; 1024]`) -/
theorem as_u8_mut_set_src_eq_model (b : Block) (v : Bytes) (hv : v.length = 1024) : as_u8_mut_set_src b v = some (Block.of_u8 v) :=
  block_as_u8_mut_set_src_eq_model b v hv
/-- the two views are inverse to each other: writing back what was read changes nothing -/
theorem of_u8_as_u8 (b : Block) : Block.of_u8 (Block.as_u8 b) = b := Cx.Proofs.Argon2.blockOfBytes_bytesOfBlock b
/-- `impl Index<usize> / IndexMut<usize> for Block`: bounds-checked access to the 128 words -/
theorem index_src_eq_model (b : Block) (i : Nat) : index_src b i = b[i]? := block_index_src_eq_model b i
theorem index_mut_get_src_eq_model (b : Block) (i : Nat) : index_mut_get_src b i = b[i]? := block_index_mut_get_src_eq_model b i
theorem index_mut_set_src_eq_model (b : Block) (i : Nat) (v : UInt64) :
    index_mut_set_src b i v = if h : i < 128 then some (b.set i v h) else none := block_index_mut_set_src_eq_model b i v
/-- `cryptoutil::xor_array64_mut` (both arrays of the static length N) and its use in `impl BitXorAssign<&Block> for Block` -/
theorem xor_array64_mut_src_eq_model (a b : List UInt64) : xor_array64_mut_src a b = List.zipWith (· ^^^ ·) a b := rfl
theorem bitxor_assign_eq_src (a b : Block) : (Block.bitxor_assign a b).toList = xor_array64_mut_src a.toList b.toList :=
  block_bitxor_assign_eq_src a b
end Argon2Block

/-! ## further leftovers of tools/tie_coverage.py: chacha/reference.rs `output_ad_bytes`, simd.rs, the `sigma0/1` of the SHA-512 schedule -/

namespace ChaChaRef
open Cx.Extracted.GlueRest.ChaChaRef
theorem structs_checked : State_struct_src = () := rfl
/-- `reference::State::output_ad_bytes` into its 32-byte buffer: words 0..4 and 12..16, little-endian (no slice out of range, both
    `write_u32v_le` length tests hold) = the model's `Reference.output_ad_bytes` (HChaCha) -/
theorem output_ad_bytes_src_eq_model (w : Impl.W16) (output : Bytes) (ho : output.length = 32) :
    output_ad_bytes_src w output = some (Impl.ChaCha.Reference.output_ad_bytes w) := ref_output_ad_bytes_src_eq_model w output ho
end ChaChaRef

namespace Simd
open Cx.Extracted.GlueRest.Simd
open Cx.Impl.Sha1 (u32x4)
open Cx.Impl.Sha2.Impl512 (u64x2)
/-- the operators of the portable `simd::fake` module the hash cores use are the model's instances -/
theorem u32x4.add_src_eq_model (a b : u32x4) : u32x4.add_src a b = a + b := rfl
theorem u32x4.bitxor_src_eq_model (a b : u32x4) : u32x4.bitxor_src a b = a ^^^ b := rfl
theorem u64x2.add_src_eq_model (a b : u64x2) : u64x2.add_src a b = a + b := rfl
/-- the remaining operators (not used by any caller in the crate; the models have no counterpart): lane-wise, as written -/
theorem u32x4.sub_src_lanes (a b : u32x4) : u32x4.sub_src a b = ⟨a.x0 - b.x0, a.x1 - b.x1, a.x2 - b.x2, a.x3 - b.x3⟩ := rfl
theorem u32x4.bitand_src_lanes (a b : u32x4) : u32x4.bitand_src a b = ⟨a.x0 &&& b.x0, a.x1 &&& b.x1, a.x2 &&& b.x2, a.x3 &&& b.x3⟩ := rfl
theorem u32x4.bitor_src_lanes (a b : u32x4) : u32x4.bitor_src a b = ⟨a.x0 ||| b.x0, a.x1 ||| b.x1, a.x2 ||| b.x2, a.x3 ||| b.x3⟩ := rfl
/-- shifts: defined exactly for amounts below 32 (an overflow-checked build panics otherwise) -/
theorem u32x4.shl_usize_src_eq (a : u32x4) (n : Nat) (hn : n < 32) :
    u32x4.shl_usize_src a n = some ⟨a.x0 <<< UInt32.ofNat n, a.x1 <<< UInt32.ofNat n, a.x2 <<< UInt32.ofNat n, a.x3 <<< UInt32.ofNat n⟩ := by
  simp [u32x4.shl_usize_src, shlW32, hn]
theorem u32x4.shr_usize_src_eq (a : u32x4) (n : Nat) (hn : n < 32) :
    u32x4.shr_usize_src a n = some ⟨a.x0 >>> UInt32.ofNat n, a.x1 >>> UInt32.ofNat n, a.x2 >>> UInt32.ofNat n, a.x3 >>> UInt32.ofNat n⟩ := by
  simp [u32x4.shr_usize_src, shrW32, hn]
theorem u32x4.shl_lanes_src_eq (a b : u32x4) (h : b.x0.toNat < 32 ∧ b.x1.toNat < 32 ∧ b.x2.toNat < 32 ∧ b.x3.toNat < 32) :
    u32x4.shl_lanes_src a b = some ⟨a.x0 <<< b.x0, a.x1 <<< b.x1, a.x2 <<< b.x2, a.x3 <<< b.x3⟩ := by
  simp [u32x4.shl_lanes_src, shlW32, h.1, h.2.1, h.2.2.1, h.2.2.2]
theorem u32x4.shr_lanes_src_eq (a b : u32x4) (h : b.x0.toNat < 32 ∧ b.x1.toNat < 32 ∧ b.x2.toNat < 32 ∧ b.x3.toNat < 32) :
    u32x4.shr_lanes_src a b = some ⟨a.x0 >>> b.x0, a.x1 >>> b.x1, a.x2 >>> b.x2, a.x3 >>> b.x3⟩ := by
  simp [u32x4.shr_lanes_src, shrW32, h.1, h.2.1, h.2.2.1, h.2.2.2]
end Simd

namespace Sha2Out
open Cx.Impl Cx.Impl.Sha2
/-- the `#[allow(dead_code)]` fixed-size output functions of eng256.rs / eng512.rs are the `_at` functions (tied by GlueTieMd) on a buffer of
    their static size -/
theorem structs_checked : Sha2Eng256.Engine_struct_src = () ∧ Sha2Eng256.STATE_LEN_src = () ∧ Sha2Eng512.Engine_struct_src = () ∧
    Sha2Eng512.STATE_LEN_src = () := ⟨rfl, rfl, rfl, rfl⟩
theorem eng256_output_224bits_src_eq_model (e : Eng256.Engine) (out : Bytes) (ho : out.length = 28) :
    Sha2Eng256.output_224bits_src e out = e.output_224bits_at out := by
  unfold Sha2Eng256.output_224bits_src Eng256.Engine.output_224bits_at
  simp [Impl.slice, copy_from_slice, ho, write_u32v_be, Spec.Sha2.W8.toList, u32be_len]
theorem eng256_output_256bits_src_eq_model (e : Eng256.Engine) (out : Bytes) (ho : out.length = 32) :
    Sha2Eng256.output_256bits_src e out = e.output_256bits_at out := by
  unfold Sha2Eng256.output_256bits_src Eng256.Engine.output_256bits_at
  simp [Impl.slice, copy_from_slice, ho, write_u32v_be, Spec.Sha2.W8.toList, u32be_len]
theorem eng512_output_224bits_src_eq_model (e : Eng512.Engine) (out : Bytes) (ho : out.length = 28) :
    Sha2Eng512.output_224bits_src e out = e.output_224bits_at out := by
  unfold Sha2Eng512.output_224bits_src Eng512.Engine.output_224bits_at
  simp [Impl.slice, copy_from_slice, Extracted.GlueRest.copyInto, ho, write_u64v_be, write_u32_be, idx, Spec.Sha2.W8.toList, u64be_len, u32be_len]
theorem eng512_output_nbits_src_eq_model (e : Eng512.Engine) (out : Bytes) :
    Sha2Eng512.output_256bits_src e out = e.output_256bits_at out ∧ Sha2Eng512.output_384bits_src e out = e.output_384bits_at out ∧
    Sha2Eng512.output_512bits_src e out = e.output_512bits_at out := by
  refine ⟨?_, ?_, ?_⟩
  · unfold Sha2Eng512.output_256bits_src Eng512.Engine.output_256bits_at
    simp
  · unfold Sha2Eng512.output_384bits_src Eng512.Engine.output_384bits_at
    simp
  · unfold Sha2Eng512.output_512bits_src Eng512.Engine.output_512bits_at
    simp
end Sha2Out

namespace Sha512Ref
open Cx.Extracted.GlueRest.Sha512Ref
/-- the nested `sigma0` / `sigma1` of `schedule_x2` (`rotate_left(63)` = the model's `rotate_left x 63`, i.e. a right rotation by 1, …) -/
theorem sigma0_src_eq_model (x : UInt64) : sigma0_src x = Impl.Sha2.Impl512.sigma0 x := rfl
theorem sigma1_src_eq_model (x : UInt64) : sigma1_src x = Impl.Sha2.Impl512.sigma1 x := rfl
end Sha512Ref

end Cx.Props.C20.GlueTieRest
