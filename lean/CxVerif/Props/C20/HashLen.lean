/-
  Props.C20.HashLen (unit `hashlen`) — C20, "hash length counters": the byte counters `processed_bytes` of the
  Merkle–Damgård hashes (u64: SHA-1, SHA-224/256, RIPEMD-160; u128: SHA-384/512/512-224/512-256) can neither
  overflow nor be truncated below the standards' length limits, and the digest a context produces after its counter
  was preset anywhere (hook `verif_set_processed_bytes`, block-aligned N) is the standard's chain over the padding
  for the TOTAL length.  The same theorems are the C01 statement "digest = standard function" at totals that no
  test message can reach (2^29, 2^32, 2^61 − 1, 2^64, 2^125 − 1 … bytes).

  (1) counter clause: inside the standard's domain (< 2^61 resp. < 2^125 bytes) `processed_bytes += len` does not
      overflow (checked = wrapping = mathematical sum) and `finish` from ANY well-formed state writes exactly the
      standard's length field of the bit length `8·processed_bytes`: all 64 (128) bits, nothing dropped by `<< 3`,
      no word of RIPEMD-160's `(pb << 3) as u32`, `(pb >> 29) as u32` pair lost; decoding the field returns `8·pb`.
  (2) `new(); verif_set_processed_bytes(N); update(m); finalize()` on the model = `Spec.HashLen.tailDigest alg N m`
      for EVERY block-aligned N and EVERY m (beyond the domain both sides keep the low 64 / 128 bits of the bit
      length — the model with the wrapping `+=` of the release build; overflow-checked builds panic once the byte
      counter itself passes 2^64 / 2^128, which is outside the standard's domain and outside the correspondence).
  (3) what the Spec means: inside the domain its `% 2^(8·L)` is the identity; `tailHash` started from the chaining
      value after a block-aligned prefix P finishes `Spec.MD.hash` of `P ‖ m`; `tailDigest alg 0 m` is the digest.

  Model: Impl/HashLen.lean (the hook: replaces the `processed_bytes` field) on top of Impl/{Sha2,Sha1,Ripemd160}.lean;
  tied to /repo by the `hlen.<alg>` correspondence in the debug, release+checks and plain release builds.
  Only property theorems here; helpers in Proofs/HashLen.lean (+ the C01 proof files it reuses).
-/
import CxVerif.Proofs.HashLen
namespace Cx.Props.C20.HashLen
open Cx Cx.Impl Cx.Proofs.FB Cx.Spec.HashLen

/-! ### (1) the counters cannot overflow or be truncated below the standards' limits -/

/-- `Engine256::input` (SHA-224/256): below 2^64 total the `+=` on the u64 counter is the mathematical sum, so an
    overflow-checked build does not panic and a wrapping build does not wrap — in particular below 2^61 -/
theorem engine256_counter_exact (e e' : Sha2.Engine256) (inp : Bytes) (h : e.input inp = some e')
    (hfit : e.processed_bytes + inp.length < 2 ^ 64) : e'.processed_bytes = e.processed_bytes + inp.length := by
  unfold Sha2.Engine256.input at h
  split at h
  · cases h
  · split at h
    · cases h
    · cases h; exact Nat.mod_eq_of_lt hfit

/-- `Engine512::input` (SHA-384/512/512-224/512-256): the u128 counter -/
theorem engine512_counter_exact (e e' : Sha2.Engine512) (inp : Bytes) (h : e.input inp = some e')
    (hfit : e.processed_bytes + inp.length < 2 ^ 128) : e'.processed_bytes = e.processed_bytes + inp.length := by
  unfold Sha2.Engine512.input at h
  split at h
  · cases h
  · cases h; exact Nat.mod_eq_of_lt hfit

/-- SHA-1 `update_mut`: `processed_bytes += input.len() as u64` -/
theorem sha1_counter_exact (c c' : Sha1.Context) (inp : Bytes) (h : c.update_mut inp = some c')
    (hfit : c.processed_bytes.toNat + inp.length < 2 ^ 64) :
    c'.processed_bytes.toNat = c.processed_bytes.toNat + inp.length := by
  unfold Sha1.Context.update_mut at h
  split at h
  · cases h
  · cases h
    simp only [UInt64.toNat_add, UInt64.toNat_ofNat']
    omega

/-- RIPEMD-160 `update_mut` -/
theorem ripemd160_counter_exact (c c' : Ripemd160.Context) (inp : Bytes) (h : c.update_mut inp = some c')
    (hfit : c.processed_bytes.toNat + inp.length < 2 ^ 64) :
    c'.processed_bytes.toNat = c.processed_bytes.toNat + inp.length := by
  unfold Ripemd160.Context.update_mut at h
  split at h
  · cases h
  · cases h
    simp only [UInt64.toNat_add, UInt64.toNat_ofNat']
    omega

example : (2 ^ 61 - 64 : Nat) + 63 < 2 ^ 64 ∧ (2 ^ 125 - 128 : Nat) + 127 < 2 ^ 128 := by decide

/-- the 64-bit big-endian field `(processed_bytes << 3).to_be_bytes()` (SHA-1, SHA-224/256): for a counter below
    2^61 it is the standard's encoding of `8·pb`, eight bytes, and decodes to `8·pb` — no bit is lost -/
theorem length_field_be64_exact (pb : Nat) (h : pb < 2 ^ 61) :
    len_be64 pb = Spec.MD.be64 (8 * pb) ∧ (len_be64 pb).length = 8 ∧ beNat (len_be64 pb) = 8 * pb := by
  have e : len_be64 pb = Spec.MD.be64 (8 * pb) := by
    have := len_be64_eq h; rwa [Nat.mod_eq_of_lt (by omega)] at this
  refine ⟨e, len_be64_length _, ?_⟩
  rw [e, Spec.MD.be64, Cx.Proofs.HashLen.beNat_natToBE]
  exact Nat.mod_eq_of_lt (by omega)

/-- the 128-bit big-endian field (SHA-384/512/512-224/512-256), counter below 2^125 -/
theorem length_field_be128_exact (pb : Nat) (h : pb < 2 ^ 125) :
    len_be128 pb = Spec.MD.be128 (8 * pb) ∧ (len_be128 pb).length = 16 ∧ beNat (len_be128 pb) = 8 * pb := by
  have e : len_be128 pb = Spec.MD.be128 (8 * pb) := by
    have := len_be128_eq h; rwa [Nat.mod_eq_of_lt (by omega)] at this
  refine ⟨e, len_be128_length _, ?_⟩
  rw [e, Spec.MD.be128, Cx.Proofs.HashLen.beNat_natToBE]
  exact Nat.mod_eq_of_lt (by omega)

/-- RIPEMD-160: the two little-endian words `(pb << 3) as u32`, `(pb >> 29) as u32` written one after the other are
    the 64-bit little-endian bit length and decode to `8·pb` — neither word is lost or swapped -/
theorem length_field_le64_exact (pb : Nat) (h : pb < 2 ^ 61) :
    (len_le64_split pb).1 ++ (len_le64_split pb).2 = Spec.MD.le64 (8 * pb)
    ∧ ((len_le64_split pb).1 ++ (len_le64_split pb).2).length = 8
    ∧ leNat ((len_le64_split pb).1 ++ (len_le64_split pb).2) = 8 * pb := by
  have e : (len_le64_split pb).1 ++ (len_le64_split pb).2 = Spec.MD.le64 (8 * pb) := by
    have := len_le64_split_eq h; rwa [Nat.mod_eq_of_lt (by omega)] at this
  refine ⟨e, ?_, ?_⟩
  · rw [e]; exact natToLE_length _ _
  · rw [e, Spec.MD.le64, Cx.Proofs.HashLen.leNat_natToLE]
    exact Nat.mod_eq_of_lt (by omega)

example : (2 ^ 61 - 1 : Nat) < 2 ^ 61 ∧ (2 ^ 125 - 1 : Nat) < 2 ^ 125 := by decide

open Cx.Proofs.Sha2Engine in
/-- `Engine256::finish` from ANY well-formed unfinished state whose counter is below 2^61: no panic, and the blocks
    compressed are exactly `buffered bytes ‖ 0x80 ‖ 0^z ‖ BE-64(8·processed_bytes)` (z the FIPS zero count) -/
theorem engine256_finish_writes_bit_length (e : Sha2.Engine256) (hwf : WF 64 e.buffer) (hf : e.finished = false)
    (hpb : e.processed_bytes < 2 ^ 61) :
    ∃ e', e.finish = some e' ∧ e'.processed_bytes = e.processed_bytes ∧
      e'.state = (fullBlocks 64 (e.buffer.data ++ [(0x80 : UInt8)]
        ++ zeros (Spec.MD.padZeros 64 8 e.buffer.data.length) ++ Spec.MD.be64 (8 * e.processed_bytes))).foldl
          compressE256 e.state := by
  obtain ⟨b', eq, _, _⟩ := md_finish_spec (N := 64) (rem := 8) (by decide) (by decide) e.buffer
    (len_be64 e.processed_bytes) (len_be64_length _) Sha2.Eng256.Engine.blocks compressE256 e.state hwf
    (blocks256_isBlocks.one (by decide))
  rw [finish256_eq e hf, eq, (length_field_be64_exact _ hpb).1]
  exact ⟨_, rfl, rfl, rfl⟩

open Cx.Proofs.Sha2Engine in
/-- `Engine512::finish`, counter below 2^125: `buffered ‖ 0x80 ‖ 0^z ‖ BE-128(8·processed_bytes)` -/
theorem engine512_finish_writes_bit_length (e : Sha2.Engine512) (hwf : WF 128 e.buffer)
    (hpb : e.processed_bytes < 2 ^ 125) :
    ∃ e', e.finish = some e' ∧ e'.processed_bytes = e.processed_bytes ∧
      e'.state = (fullBlocks 128 (e.buffer.data ++ [(0x80 : UInt8)]
        ++ zeros (Spec.MD.padZeros 128 16 e.buffer.data.length) ++ Spec.MD.be128 (8 * e.processed_bytes))).foldl
          compressE512 e.state := by
  obtain ⟨b', eq, _, _⟩ := md_finish_spec (N := 128) (rem := 16) (by decide) (by decide) e.buffer
    (len_be128 e.processed_bytes) (len_be128_length _) Sha2.Eng512.Engine.blocks compressE512 e.state hwf
    ((blocks512_isBlocks compress512_ok).one (by decide))
  rw [finish512_eq e, eq, (length_field_be128_exact _ hpb).1]
  exact ⟨_, rfl, rfl, rfl⟩

open Cx.Proofs.Sha1Stream in
/-- SHA-1 `mk_result` from ANY well-formed state, counter below 2^61 -/
theorem sha1_mk_result_writes_bit_length (c : Sha1.Context) (hwf : WF 64 c.buffer)
    (hpb : c.processed_bytes.toNat < 2 ^ 61) :
    ∃ c', Sha1.Context.mk_result c = some (c', ((fullBlocks 64 (c.buffer.data ++ [(0x80 : UInt8)]
        ++ zeros (Spec.MD.padZeros 64 8 c.buffer.data.length)
        ++ Spec.MD.be64 (8 * c.processed_bytes.toNat))).foldl Spec.Sha1.compressBytes c.h).toBytes) := by
  obtain ⟨b', eq, _, _⟩ := md_finish_spec (N := 64) (rem := 8) (by decide) (by decide) c.buffer
    (len_be64 c.processed_bytes.toNat) (len_be64_length _) Sha1.digest_block Spec.Sha1.compressBytes c.h hwf
    digest_block_spec
  rw [mk_result_eq, eq, (length_field_be64_exact _ hpb).1]
  exact ⟨_, rfl⟩

open Cx.Proofs.Ripemd160Stream in
/-- RIPEMD-160 `finalize_reset` from ANY well-formed state, counter below 2^61: the two `next::<4>()` writes
    together are the LE-64 bit length -/
theorem ripemd160_finalize_writes_bit_length (c : Ripemd160.Context) (hwf : WF 64 c.buffer)
    (hpb : c.processed_bytes.toNat < 2 ^ 61) :
    ∃ c', c.finalize_reset = some (c', ((fullBlocks 64 (c.buffer.data ++ [(0x80 : UInt8)]
        ++ zeros (Spec.MD.padZeros 64 8 c.buffer.data.length)
        ++ Spec.MD.le64 (8 * c.processed_bytes.toNat))).foldl Spec.Ripemd160.compressBytes c.h).toBytes) := by
  obtain ⟨b', eq, _, _⟩ := md_finish_with_spec (N := 64) (rem := 8) (by decide) (by decide) c.buffer
    (next_write_twice 4 (len_le64_split c.processed_bytes.toNat).1 (len_le64_split c.processed_bytes.toNat).2)
    ((len_le64_split c.processed_bytes.toNat).1 ++ (len_le64_split c.processed_bytes.toNat).2)
    (by simp [len_le64_split, natToLE_length])
    (next_write_twice_WritesLen 64 4 _ _ (natToLE_length _ _) (natToLE_length _ _))
    blockFn Spec.Ripemd160.compressBytes c.h hwf blockFn_spec
  rw [finalize_reset_eq, eq, (length_field_le64_exact _ hpb).1]
  exact ⟨_, rfl⟩

/-- the hypotheses are met by a fresh context whose counter was preset to the last in-domain block -/
example : WF 64 (Impl.HashLen.Ctx256.verif_set_processed_bytes (Sha2.Ctx256.new Sha2.Sha256) (2 ^ 61 - 64)).engine.buffer
    ∧ (Impl.HashLen.Ctx256.verif_set_processed_bytes (Sha2.Ctx256.new Sha2.Sha256) (2 ^ 61 - 64)).engine.finished = false
    ∧ (Impl.HashLen.Ctx256.verif_set_processed_bytes (Sha2.Ctx256.new Sha2.Sha256) (2 ^ 61 - 64)).engine.processed_bytes
        < 2 ^ 61 :=
  ⟨new_WF (by decide), rfl, by decide⟩

/-! ### (2) preset counter, update, finalize = the Spec's tail digest — every block-aligned N, every message -/

/-- **`new(); verif_set_processed_bytes(N); update(m); finalize()` = `Spec.HashLen.tailDigest alg N m`** for all
    eight algorithms, every N that is a multiple of the block size and every message; no panic.  With
    `tailDigest_in_domain_length_field` / `tailHash_is_hash_of_whole_message` below: for `N + |m|` below 2^61
    (2^125) bytes this is the FIPS 180-4 / RIPEMD-160 chain over the last blocks of an (N+|m|)-byte message. -/
theorem hlen_eq_tailDigest (alg : Alg) (N : Nat) (m : Bytes) (hN : N % alg.block = 0) :
    Impl.HashLen.hlen alg N m = some (tailDigest alg N m) := by
  open Cx.Proofs.HashLen Cx.Proofs.Sha2Engine Cx.Proofs.Sha2Tables in
  cases alg with
  | sha1 => exact hlenSha1_eq N hN m
  | ripemd160 => exact hlenRipemd160_eq N hN m
  | sha256 =>
    have := hlen256_eq Sha2.Sha256 id outOK_sha256 N hN m
    simpa [Impl.HashLen.hlen, tailDigest, Sha2.Sha256, H256_eq] using this
  | sha224 =>
    have := hlen256_eq Sha2.Sha224 (List.take 28) outOK_sha224 N hN m
    simpa [Impl.HashLen.hlen, tailDigest, Sha2.Sha224, H224_eq] using this
  | sha512 =>
    have := hlen512_eq Sha2.Sha512 64 outOK_sha512 N hN m
    have hl : (Spec.Sha2.wordsToBytes64 (tail512 Spec.Sha2.H512 N m)).length = 64 := by
      simp [wordsToBytes64_eq, u64be_length]
    simp only [Sha2.Sha512, H512_eq] at this
    rw [List.take_of_length_le (by omega)] at this
    simpa [Impl.HashLen.hlen, tailDigest, Sha2.Sha512, H512_eq] using this
  | sha384 =>
    have := hlen512_eq Sha2.Sha384 48 outOK_sha384 N hN m
    simpa [Impl.HashLen.hlen, tailDigest, Sha2.Sha384, H384_eq] using this
  | sha512_224 =>
    have := hlen512_eq Sha2.Sha512Trunc224 28 outOK_sha512_224 N hN m
    simpa [Impl.HashLen.hlen, tailDigest, Sha2.Sha512Trunc224, H512_TRUNC_224_eq] using this
  | sha512_256 =>
    have := hlen512_eq Sha2.Sha512Trunc256 32 outOK_sha512_256 N hN m
    simpa [Impl.HashLen.hlen, tailDigest, Sha2.Sha512Trunc256, H512_TRUNC_256_eq] using this

/-- block-aligned presets next to the boundaries of the bit length and of the byte counter -/
example : (2 ^ 29 - 64) % Alg.sha256.block = 0 ∧ (2 ^ 61 - 64) % Alg.ripemd160.block = 0
    ∧ (2 ^ 64) % Alg.sha512.block = 0 ∧ (2 ^ 125 - 128) % Alg.sha384.block = 0 := by decide

/-! ### (3) the Spec's tail chain is the standard's hash -/

/-- inside the standard's domain the length field of the Spec is the unreduced bit length of the total -/
theorem tailDigest_in_domain_length_field (alg : Alg) (total : Nat) (h : total < alg.maxBytes) :
    (8 * total) % 2 ^ (8 * alg.lenBytes) = 8 * total := by
  apply Nat.mod_eq_of_lt
  cases alg <;> simp only [Alg.maxBytes, Alg.lenBytes] at h ⊢ <;> omega

/-- the number of zero bytes of the Spec's tail is "the smallest non-negative solution" of FIPS 180-4 §5.1 for the
    TOTAL length -/
theorem tailPad_zero_count_is_least {B : Nat} (hB : 0 < B) (L N len : Nat) :
    (N + len + 1 + Spec.MD.padZeros B L (N + len) + L) % B = 0
    ∧ ∀ z, z < Spec.MD.padZeros B L (N + len) → (N + len + 1 + z + L) % B ≠ 0 :=
  padZeros_spec hB

/-- **`tailHash` finishes the standard hash**: from the chaining value reached after a prefix `P` of whole blocks it
    yields `Spec.MD.hash` (pad, parse, iterate) of `P ‖ m`, whenever the total bit length fits the length field -/
theorem tailHash_is_hash_of_whole_message {σ : Type} {B : Nat} (hB : 0 < B) (L : Nat) (lenEnc : Nat → Bytes)
    (compress : σ → Bytes → σ) (iv : σ) (P m : Bytes) (hP : P.length % B = 0)
    (hdom : 8 * (P.length + m.length) < 2 ^ (8 * L)) :
    tailHash B L lenEnc compress ((fullBlocks B P).foldl compress iv) P.length m
      = Spec.MD.hash B L lenEnc compress iv (P ++ m) :=
  Cx.Proofs.HashLen.tailHash_append hB L lenEnc compress iv P m hP hdom

example : (List.replicate 128 (7 : UInt8)).length % 64 = 0
    ∧ 8 * ((List.replicate 128 (7 : UInt8)).length + ([1, 2, 3] : Bytes).length) < 2 ^ (8 * 8) := by
  rw [List.length_replicate]; decide

/-- with no preset the tail digest is the digest: `tailDigest alg 0 m` = the standard function of `m` -/
theorem tailDigest_zero_is_digest (m : Bytes) :
    (m.length < 2 ^ 61 →
      tailDigest .sha1 0 m = Spec.Sha1.sha1 m ∧ tailDigest .ripemd160 0 m = Spec.Ripemd160.ripemd160 m
      ∧ tailDigest .sha256 0 m = Spec.Sha2.sha256 m ∧ tailDigest .sha224 0 m = Spec.Sha2.sha224 m)
    ∧ (m.length < 2 ^ 125 →
      tailDigest .sha512 0 m = Spec.Sha2.sha512 m ∧ tailDigest .sha384 0 m = Spec.Sha2.sha384 m
      ∧ tailDigest .sha512_224 0 m = Spec.Sha2.sha512_224 m ∧ tailDigest .sha512_256 0 m = Spec.Sha2.sha512_256 m) := by
  have k64 : ∀ {σ : Type} (lenEnc : Nat → Bytes) (compress : σ → Bytes → σ) (iv : σ), m.length < 2 ^ 61 →
      tailHash 64 8 lenEnc compress iv 0 m = Spec.MD.hash 64 8 lenEnc compress iv m := by
    intro σ lenEnc compress iv h
    have := Cx.Proofs.HashLen.tailHash_append (B := 64) (by decide) 8 lenEnc compress iv [] m rfl
      (by simp only [List.length_nil]; omega)
    simpa [fullBlocks, takeBlocks] using this
  have k128 : ∀ {σ : Type} (lenEnc : Nat → Bytes) (compress : σ → Bytes → σ) (iv : σ), m.length < 2 ^ 125 →
      tailHash 128 16 lenEnc compress iv 0 m = Spec.MD.hash 128 16 lenEnc compress iv m := by
    intro σ lenEnc compress iv h
    have := Cx.Proofs.HashLen.tailHash_append (B := 128) (by decide) 16 lenEnc compress iv [] m rfl
      (by simp only [List.length_nil]; omega)
    simpa [fullBlocks, takeBlocks] using this
  constructor
  · intro h
    refine ⟨?_, ?_, ?_, ?_⟩
    · simp only [tailDigest, k64 _ _ _ h]; rfl
    · simp only [tailDigest, k64 _ _ _ h]; rfl
    · simp only [tailDigest, tail256, k64 _ _ _ h]; rfl
    · simp only [tailDigest, tail256, k64 _ _ _ h]; rfl
  · intro h
    refine ⟨?_, ?_, ?_, ?_⟩ <;> (simp only [tailDigest, tail512, k128 _ _ _ h]; rfl)

/-! ### tests (samples, not theorems): the model at the last in-domain byte of RIPEMD-160 / SHA-256 -/

/-- both 32-bit length words of RIPEMD-160 change between a total of 2^29 − 1 and 2^29 bytes -/
example : len_le64_split (2 ^ 29 - 1) = ([0xf8, 0xff, 0xff, 0xff], [0, 0, 0, 0])
    ∧ len_le64_split (2 ^ 29) = ([0, 0, 0, 0], [1, 0, 0, 0]) := by decide

/-- the largest in-domain counters fill the fields to their top bits -/
example : len_be64 (2 ^ 61 - 1) = [0xff, 0xff, 0xff, 0xff, 0xff, 0xff, 0xff, 0xf8]
    ∧ (len_be128 (2 ^ 125 - 1)).take 2 = [0xff, 0xff] ∧ (len_be128 (2 ^ 64)).take 8 = [0, 0, 0, 0, 0, 0, 0, 8] := by
  decide

end Cx.Props.C20.HashLen
