/-
  Props.C20.Blake2 — C20, BLAKE2 part: the byte counter `t[0], t[1]`.
  (i)  `increment_counter` as the code has it now (`wrapping_add` on both words, `.wrapping`) implements ONE
       2w-bit counter for ALL word values: every carry into the high word and the wrap of both words included;
       consequently a context whose counter was preset anywhere (hook `verif_set_counter`) produces the digest of
       BLAKE2 with that start counter — in particular nothing special happens at 2^32 / 2^64 bytes;
  (ii) the former `t[0] += inc` compiled with overflow checks (`.checked`) panics as soon as the LOW word would
       pass 2^w — witness states below (defect (i), fixed in /repo by commit ca094bf) — and whenever it does not
       panic it returns exactly what the wrapping build returns (profile independence of every value returned);
  (iii) refused parameters: Props/C01/Blake2.lean `blake2?_refuses`, `blake2?_ctx_refuses`; rekey with a long key:
       `Props.C02.reset_with_key_eq_new_keyed` and the `none` cases of the history theorem.
-/
import CxVerif.Proofs.Blake2Hist
namespace Cx.Props.C20
open Cx Cx.Proofs.Blake2
open Cx.Impl.Blake2 (Ctx Engine Profile)
open Cx.Spec.Blake2 (Word Params)

/-- BLAKE2b: the two u64 words are a 128-bit counter, for all values and all increments -/
theorem increment_counter_b (e : Engine UInt64) (inc : Nat) (h0 : e.t0 < 2 ^ 64) (_h1 : e.t1 < 2 ^ 64) (hi : inc < 2 ^ 64) :
    ∃ e', e.increment_counter .wrapping inc = some e' ∧ e'.h = e.h ∧ e'.t0 < 2 ^ 64 ∧ e'.t1 < 2 ^ 64 ∧
      e'.t0 + 2 ^ 64 * e'.t1 = (e.t0 + 2 ^ 64 * e.t1 + inc) % 2 ^ 128 := by
  refine ⟨_, rfl, rfl, ?_⟩
  show (e.t0 + inc) % 2 ^ 64 < 2 ^ 64 ∧ (e.t1 + if (e.t0 + inc) % 2 ^ 64 < inc then 1 else 0) % 2 ^ 64 < 2 ^ 64 ∧
    (e.t0 + inc) % 2 ^ 64 + 2 ^ 64 * ((e.t1 + if (e.t0 + inc) % 2 ^ 64 < inc then 1 else 0) % 2 ^ 64)
      = (e.t0 + 2 ^ 64 * e.t1 + inc) % 2 ^ 128
  split <;> omega

/-- BLAKE2s: the two u32 words are a 64-bit counter -/
theorem increment_counter_s (e : Engine UInt32) (inc : Nat) (h0 : e.t0 < 2 ^ 32) (_h1 : e.t1 < 2 ^ 32) (hi : inc < 2 ^ 32) :
    ∃ e', e.increment_counter .wrapping inc = some e' ∧ e'.h = e.h ∧ e'.t0 < 2 ^ 32 ∧ e'.t1 < 2 ^ 32 ∧
      e'.t0 + 2 ^ 32 * e'.t1 = (e.t0 + 2 ^ 32 * e.t1 + inc) % 2 ^ 64 := by
  refine ⟨_, rfl, rfl, ?_⟩
  show (e.t0 + inc) % 2 ^ 32 < 2 ^ 32 ∧ (e.t1 + if (e.t0 + inc) % 2 ^ 32 < inc then 1 else 0) % 2 ^ 32 < 2 ^ 32 ∧
    (e.t0 + inc) % 2 ^ 32 + 2 ^ 32 * ((e.t1 + if (e.t0 + inc) % 2 ^ 32 < inc then 1 else 0) % 2 ^ 32)
      = (e.t0 + 2 ^ 32 * e.t1 + inc) % 2 ^ 64
  split <;> omega

example : (2 ^ 64 - 1 < 2 ^ 64 ∧ 2 ^ 64 - 1 < 2 ^ 64) ∧ 128 < 2 ^ 64 := by decide

/-- the former checked `+=`: a panic exactly when the low word would overflow (b) -/
theorem increment_counter_checked_b (e : Engine UInt64) (inc : Nat) (h1 : e.t1 < 2 ^ 64) :
    (e.increment_counter .checked inc = none ↔ 2 ^ 64 ≤ e.t0 + inc) := by
  unfold Engine.increment_counter Impl.Blake2.addAssign
  show (match (if e.t0 + inc < 2 ^ 64 then some (e.t0 + inc) else none) with
    | none => none
    | some t0 => match (if e.t1 + (if t0 < inc then 1 else 0) < 2 ^ 64 then some (e.t1 + (if t0 < inc then 1 else 0)) else none) with
      | none => none
      | some t1 => some { e with t0 := t0, t1 := t1 }) = none ↔ _
  by_cases hlt : e.t0 + inc < 2 ^ 64
  · rw [if_pos hlt]
    have h2 : ¬ (e.t0 + inc < inc) := by omega
    simp only [h2, ↓reduceIte, Nat.add_zero, h1]
    constructor
    · intro h; cases h
    · intro h; omega
  · rw [if_neg hlt]
    constructor
    · intro _; omega
    · intro _; rfl

theorem increment_counter_checked_s (e : Engine UInt32) (inc : Nat) (h1 : e.t1 < 2 ^ 32) :
    (e.increment_counter .checked inc = none ↔ 2 ^ 32 ≤ e.t0 + inc) := by
  unfold Engine.increment_counter Impl.Blake2.addAssign
  show (match (if e.t0 + inc < 2 ^ 32 then some (e.t0 + inc) else none) with
    | none => none
    | some t0 => match (if e.t1 + (if t0 < inc then 1 else 0) < 2 ^ 32 then some (e.t1 + (if t0 < inc then 1 else 0)) else none) with
      | none => none
      | some t1 => some { e with t0 := t0, t1 := t1 }) = none ↔ _
  by_cases hlt : e.t0 + inc < 2 ^ 32
  · rw [if_pos hlt]
    have h2 : ¬ (e.t0 + inc < inc) := by omega
    simp only [h2, ↓reduceIte, Nat.add_zero, h1]
    constructor
    · intro h; cases h
    · intro h; omega
  · rw [if_neg hlt]
    constructor
    · intro _; omega
    · intro _; rfl

/-- witness of defect (i) (BLAKE2s, after 2^32 − 64 bytes one more block): the checked `+=` panics, `wrapping_add`
    carries into the high word -/
example (h : Vector UInt32 8) :
    (Engine.mk h (2 ^ 32 - 64) 0).increment_counter .checked 64 = none ∧
    (Engine.mk h (2 ^ 32 - 64) 0).increment_counter .wrapping 64 = some (Engine.mk h 0 1) := by
  constructor <;> simp [Engine.increment_counter, Impl.Blake2.addAssign, Word.bits]

/-- preset counters (hook): BLAKE2b contexts hash as BLAKE2 with start counter `t0 + 2^64 t1`, ∀ words, ∀ messages -/
theorem blake2b_preset_counter (outlen : Nat) (key msg : Bytes) (t0 t1 : Nat) (ho : 0 < outlen ∧ outlen ≤ 64)
    (hk : key.length ≤ 64) (ht0 : t0 < 2 ^ 64) :
    ∃ c c', Ctx.new_keyed Impl.Blake2.b outlen key = some c ∧
      Ctx.update_mut Impl.Blake2.b .wrapping (Ctx.verif_set_counter c t0 t1) msg = some c' ∧
      Ctx.finalize_at Impl.Blake2.b .wrapping c' outlen outlen
        = some (Spec.Blake2.blake2At Spec.Blake2.b (t0 + 2 ^ 64 * t1) outlen key msg) := by
  rw [impl_b_eq_spec_b]; exact blake2_preset_eq_spec Spec.Blake2.b good_b outlen key msg t0 t1 ho hk ht0

theorem blake2s_preset_counter (outlen : Nat) (key msg : Bytes) (t0 t1 : Nat) (ho : 0 < outlen ∧ outlen ≤ 32)
    (hk : key.length ≤ 32) (ht0 : t0 < 2 ^ 32) :
    ∃ c c', Ctx.new_keyed Impl.Blake2.s outlen key = some c ∧
      Ctx.update_mut Impl.Blake2.s .wrapping (Ctx.verif_set_counter c t0 t1) msg = some c' ∧
      Ctx.finalize_at Impl.Blake2.s .wrapping c' outlen outlen
        = some (Spec.Blake2.blake2At Spec.Blake2.s (t0 + 2 ^ 32 * t1) outlen key msg) := by
  rw [impl_s_eq_spec_s]; exact blake2_preset_eq_spec Spec.Blake2.s good_s outlen key msg t0 t1 ho hk ht0

/-- profile independence of every returned value: a history on which the overflow-checked `+=` build returns
    normally returns the same contexts and digests with wrapping arithmetic (hence the Spec's digests, C02) -/
theorem checked_refines_wrapping {W : Type} [Word W] (P : Params W) (outlen : Nat) (ops : List Op) (s : CSt W)
    (outs : List Bytes) (r : CSt W × List Bytes) (h : runC P .checked outlen s ops outs = some r) :
    runC P .wrapping outlen s ops outs = some r := runC_mono P outlen ops s outs r h

/-- finalisation in the checked build panics once the low word plus the buffered bytes reach 2^w: the state-level
    form of defect (i); together with `blake2?_preset_counter` the wrapping build returns the Spec value there -/
theorem internal_final_checked_overflow {W : Type} [Word W] (P : Params W) (g : Good P) (c : Ctx W) (hb : c.buflen ≤ P.bb)
    (h : 2 ^ Word.bits W ≤ c.eng.t0 + c.buflen) : Ctx.internal_final P .checked c = none := by
  unfold Ctx.internal_final Engine.increment_counter Impl.Blake2.addAssign
  rw [buflen_mod P g c.buflen hb]
  simp only []
  rw [if_neg (by omega)]

/-- concrete witness (the replayed line `hctxdyn.blake2s 32 - T4294967295:0;u10;d`): checked panics, wrapping = Spec -/
theorem overflow_witness_s :
    ∃ c c', Ctx.new_keyed Impl.Blake2.s 32 [] = some c ∧
      Ctx.update_mut Impl.Blake2.s .checked (Ctx.verif_set_counter c (2 ^ 32 - 1) 0) [0x10] = some c' ∧
      Ctx.finalize_at Impl.Blake2.s .checked c' 32 32 = none ∧
      Ctx.update_mut Impl.Blake2.s .wrapping (Ctx.verif_set_counter c (2 ^ 32 - 1) 0) [0x10] = some c' ∧
      Ctx.finalize_at Impl.Blake2.s .wrapping c' 32 32
        = some (Spec.Blake2.blake2At Spec.Blake2.s (2 ^ 32 - 1) 32 [] [0x10]) := by
  obtain ⟨c, c', h1, h2, h3⟩ := blake2s_preset_counter 32 [] [0x10] (2 ^ 32 - 1) 0 (by decide) (by decide) (by decide)
  have hc : c = newState Spec.Blake2.s 32 [] := by
    rw [impl_s_eq_spec_s, new_keyed_eq Spec.Blake2.s 32 [] (by decide) (by decide)] at h1
    cases h1; rfl
  subst hc
  rw [impl_s_eq_spec_s] at h2 h3 ⊢
  have hupd : ∀ pr, Ctx.update_mut Spec.Blake2.s pr (Ctx.verif_set_counter (newState Spec.Blake2.s 32 []) (2 ^ 32 - 1) 0) [0x10]
      = some { Ctx.verif_set_counter (newState Spec.Blake2.s 32 []) (2 ^ 32 - 1) 0 with
               buf := Impl.Blake2.setSlice (Ctx.verif_set_counter (newState Spec.Blake2.s 32 []) (2 ^ 32 - 1) 0).buf 0 [0x10],
               buflen := 0 + 1 } := fun pr => rfl
  rw [hupd .wrapping] at h2
  cases h2
  refine ⟨_, _, new_keyed_eq Spec.Blake2.s 32 [] (by decide) (by decide), hupd .checked, ?_, hupd .wrapping, by simpa using h3⟩
  unfold Ctx.finalize_at
  rw [if_neg (by simp), internal_final_checked_overflow Spec.Blake2.s good_s _ (by decide) (by decide)]

end Cx.Props.C20
