/-
  Props.C14.Honest — C14, the positive half: EVERY HONEST SIGNATURE VERIFIES, with no hypothesis (primality of p and L, the
  Edwards group law, `[L]B = O` and the point-encoding round trip are theorems of this development).

    * `honest_signature_verifies`        `verify M (publicKey seed) (sign seed M) = some true` for the code-shaped model of
                                         `ed25519::verify` and the RFC 8032 signer/key generator (every seed, every message
                                         below 2^124 bytes);
    * `keypair_signature_verify`         the same through the MODEL's `keypair` and `signature`, as the user runs them;
    * `keypair_signature_verify_total`   … and the three calls never panic (for a 32-byte seed);
    * `honest_extended_signature_verifies`, `extended_signature_verify`   likewise for `signature_extended` /
                                         `extended_to_public` (extended secrets with scalar half below 2^255);
    * `spec_verify_sign`                 the Spec predicate accepts the Spec signature (no length bounds at all);
    * `S_change_rejected`                if `R ‖ S` is accepted then `R ‖ S'` is rejected for every 32-byte S' ≠ S
                                         (because `[S]B = [S']B` forces S ≡ S' mod L: B has order exactly L);
    * `base_point_order`                 `[n mod L]B = [n]B`, and `[m]B = [n]B → m = n` for m, n < L.
  Proofs: Proofs/Ed25519Honest.lean (group algebra), Proofs/EdRoundTrip.lean (the key decodes), Props/C13/Final.lean
  (model signer = RFC), Props/C14/Final.lean (model verifier = Spec predicate).
-/
import CxVerif.Proofs.Ed25519Honest
import CxVerif.Props.C13.Final
import CxVerif.Props.C14.Final
namespace Cx.Props.C14
open Cx Cx.Spec Cx.Impl.Ed25519 Cx.Proofs.EdSpec
open Cx.Spec.ScalarL (L)
open Cx.Proofs.Fe64 (some_bind)

set_option maxRecDepth 10000

/-- the Spec predicate of §5.1.7 accepts every signature of the Spec signer of §5.1.6 under the matching key -/
theorem spec_verify_sign (seed msg : Bytes) :
    Spec.Ed25519.verify msg (Spec.Ed25519.publicKey seed) (Spec.Ed25519.sign seed msg) = true :=
  Proofs.Ed25519Honest.verify_sign seed msg

/-- **C14 (honest signatures verify)**: the model of `ed25519::verify` returns `true` (no panic) on the RFC 8032
    signature of `msg` under the RFC 8032 public key of the same seed.  (`hs` is not needed: the Spec functions are total;
    it is kept because only 32-byte seeds are Ed25519 secret keys.) -/
theorem honest_signature_verifies (seed msg : Bytes) (_hs : seed.length = 32) (hm : msg.length < 2 ^ 124) :
    Impl.Ed25519.verify msg (Spec.Ed25519.publicKey seed) (Spec.Ed25519.sign seed msg) = some true := by
  have hpk : (Spec.Ed25519.publicKey seed).length = 32 := Proofs.Ed25519Sign.encode_length _
  have hsig : (Spec.Ed25519.sign seed msg).length = 64 := Proofs.Ed25519Honest.signWith_length _ _ _ _
  rw [verify_is_spec_predicate msg _ _ hpk hsig hm, spec_verify_sign]

/-- **as the user runs it**: whatever `keypair` and `signature` of the model return, `verify` accepts -/
theorem keypair_signature_verify (seed msg kp pk sig : Bytes) (hm : msg.length < 2 ^ 124)
    (hk : keypair seed = some (kp, pk)) (hsig : signature msg kp = some sig) : verify msg pk sig = some true := by
  have hs : seed.length = 32 := by
    by_contra hl
    unfold keypair extended_secret at hk
    rw [if_neg hl] at hk
    cases hk
  rw [Cx.Props.C13.keypair_is_rfc8032 seed hs] at hk
  have hk' : Spec.Ed25519.keypair seed = (kp, pk) := Option.some.inj hk
  have h1 : kp = (Spec.Ed25519.keypair seed).1 := by rw [hk']
  have h2 : pk = Spec.Ed25519.publicKey seed := by
    have : pk = (Spec.Ed25519.keypair seed).2 := by rw [hk']
    rw [this]; rfl
  rw [h1, Cx.Props.C13.signature_is_rfc8032 seed msg hs hm] at hsig
  rw [h2, ← Option.some.inj hsig]
  exact honest_signature_verifies seed msg hs hm

/-- … and none of the three calls panics: `keypair`, then `signature`, then `verify` returns `true` -/
theorem keypair_signature_verify_total (seed msg : Bytes) (hs : seed.length = 32) (hm : msg.length < 2 ^ 124) :
    ((keypair seed).bind fun k => (signature msg k.1).bind fun sig => verify msg k.2 sig) = some true := by
  rw [Cx.Props.C13.keypair_is_rfc8032 seed hs, Option.bind_some,
    Cx.Props.C13.signature_is_rfc8032 seed msg hs hm, Option.bind_some]
  exact honest_signature_verifies seed msg hs hm

/-- signatures made from a 64-byte extended secret verify under `extendedToPublic` -/
theorem honest_extended_signature_verifies (ext msg : Bytes) (hm : msg.length < 2 ^ 124) :
    Impl.Ed25519.verify msg (Spec.Ed25519.extendedToPublic ext) (Spec.Ed25519.signExtended ext msg) = some true := by
  have hpk : (Spec.Ed25519.extendedToPublic ext).length = 32 := Proofs.Ed25519Sign.encode_length _
  have hsig : (Spec.Ed25519.signExtended ext msg).length = 64 := Proofs.Ed25519Honest.signWith_length _ _ _ _
  rw [verify_is_spec_predicate msg _ _ hpk hsig hm, Proofs.Ed25519Honest.verify_signExtended]

/-- the model's `extended_to_public`, `signature_extended`, `verify` in a row (scalar half below 2^255) -/
theorem extended_signature_verify (ext msg : Bytes) (hl : ext.length = 64) (hlt : leNat (ext.take 32) < 2 ^ 255)
    (hm : msg.length < 2 ^ 124) :
    ((extended_to_public ext).bind fun pk => (signature_extended msg ext).bind fun sig => verify msg pk sig)
      = some true := by
  rw [Cx.Props.C13.extended_to_public_is_spec ext hl hlt, Option.bind_some,
    Cx.Props.C13.signature_extended_is_spec msg ext hl hlt hm, Option.bind_some]
  exact honest_extended_signature_verifies ext msg hm

/-- **S is not malleable**: if `R ‖ S` is accepted for `(msg, pk)` then `R ‖ S'` is rejected (not a panic: `some false`)
    for every other 32-byte string S'.  (No `< L` hypothesis is needed: S' ≥ L is rejected by the canonical-S test, and
    two canonical S, S' with `[S]B − [k]A` = `[S']B − [k]A` are equal because B has order exactly L.) -/
theorem S_change_rejected (msg pk R S S' : Bytes) (hpk : pk.length = 32) (hR : R.length = 32) (hS : S.length = 32)
    (hS' : S'.length = 32) (hm : msg.length < 2 ^ 124) (hne : S' ≠ S)
    (h : verify msg pk (R ++ S) = some true) : verify msg pk (R ++ S') = some false := by
  have hl : (R ++ S).length = 64 := by rw [List.length_append, hR, hS]
  have hl' : (R ++ S').length = 64 := by rw [List.length_append, hR, hS']
  rw [verify_is_spec_predicate msg pk _ hpk hl hm] at h
  rw [verify_is_spec_predicate msg pk _ hpk hl' hm]
  have h1 : Spec.Ed25519.verify msg pk (R ++ S) = true := Option.some.inj h
  cases h2 : Spec.Ed25519.verify msg pk (R ++ S') with
  | false => rfl
  | true => exact absurd (Proofs.Ed25519Honest.verify_S_unique msg pk R S S' hR hS hS' h1 h2).symm hne

/-- the order of the base point is exactly L: scalars act modulo L, and canonical scalars are determined by `[n]B` -/
theorem base_point_order :
    (∀ n, Edwards.smul (n % L) Edwards.B = Edwards.smul n Edwards.B) ∧
    (∀ m n, m < L → n < L → Edwards.smul m Edwards.B = Edwards.smul n Edwards.B → m = n) :=
  ⟨Proofs.Ed25519Honest.smul_mod_L, fun _ _ hm hn h => Proofs.Ed25519Honest.smulB_inj hm hn h⟩

/-- no public key derived from a secret scalar is the refused all-zero string -/
theorem public_key_ne_zeros (a : Nat) : Edwards.encode (Edwards.smul a Edwards.B) ≠ zeros 32 :=
  Proofs.Ed25519Honest.encode_smulB_ne_zeros a

/-! ### non-vacuity -/

/-- a concrete seed and message meet the hypotheses -/
example : (List.replicate 32 (7 : UInt8)).length = 32 ∧ (List.replicate 300 (1 : UInt8)).length < 2 ^ 124 := by decide

/-- the hypotheses of `S_change_rejected` are met by every honest signature: `sign seed msg = R ‖ S` with 32-byte halves -/
example (seed msg : Bytes) : ((Spec.Ed25519.sign seed msg).take 32).length = 32 ∧
    ((Spec.Ed25519.sign seed msg).drop 32).length = 32 := by
  have := Proofs.Ed25519Honest.signWith_length (Spec.Ed25519.secretScalar seed) (Spec.Ed25519.noncePrefix seed)
    (Spec.Ed25519.publicKey seed) msg
  unfold Spec.Ed25519.sign
  rw [List.length_take, List.length_drop, this]
  decide

end Cx.Props.C14
