/-
  Props.C14.Ed25519 — C14: `ed25519::verify` accepts exactly the triples satisfying the Spec predicate:
      the public key decodes (RFC 8032 §5.1.3 as implemented: y reduced mod p, x = 0 tolerated with either sign bit),
      it is not the all-zero string, le(S) < L, and  ENC([S]B − [k]A) = the 32 bytes of R,  k = H(R‖A‖M) mod L.

  The decision logic of `verify` (order of refusals, byte comparison, all-zero test, negation of A, the three-part
  hash) is PROVED; its callees enter through named interfaces, all explicit hypotheses:
    `DecodeFact`    Ge::from_bytes refines Spec.Edwards.decode             (gap: proof of the decompression chain)
    `DsmFact`       double_scalarmult_vartime(a, A, b) represents [a]A+[b]B (gap: slide recoding + window loop;
                    the BI table it uses IS proved: Props.C15.BI_is_the_odd_multiples_of_B)
    `EdwardsGroupLaw`, `[Fact (Nat.Prime p)]`
  (`ScalarFacts`/`CanonicalFact` — reduce_from_wide_bytes = le mod L, from_bytes_canonical accepts exactly < L — are
  theorems, instantiated from unit scalar64 in Proofs/Ed25519Inst.lean.)  Hence the `_partial` names.  `verifyStrict` (strict §5.1.3 decoding) implies `verify`, proved unconditionally.
-/
import CxVerif.Proofs.Ed25519Verify
import CxVerif.Proofs.Ed25519Inst
namespace Cx.Props.C14
open Cx Cx.Spec Cx.Impl.Ed25519 Cx.Proofs.EdSpec Cx.Proofs.Ed25519Sign Cx.Proofs.Ed25519Verify
open Cx.Spec.Field25519 (p)
open Cx.Spec.ScalarL (L)

set_option maxRecDepth 10000

section partials
variable [hp : Fact (Nat.Prime p)] (G : EdwardsGroupLaw) (DF : DecodeFact) (MF : DsmFact)
include G DF MF

local notation "SF" => Proofs.Ed25519Inst.scalarFacts
local notation "CF" => Proofs.Ed25519Inst.canonicalFact

/-- `verify` returns (never panics) and computes the Spec predicate, for every message below 2^124 bytes, every
    32-byte key string and every 64-byte signature string -/
theorem verify_is_spec_predicate_partial (msg pk sig : Bytes) (hpk : pk.length = 32) (hsig : sig.length = 64)
    (hm : msg.length < 2 ^ 124) :
    verify msg pk sig = some (Spec.Ed25519.verify msg pk sig) :=
  haveI : Proofs.GeComb.GroupLawFact := ⟨G⟩; verify_eq DF MF SF CF msg pk sig hpk hsig hm

/-- FULL STATEMENT (C14): verify = true ↔ A decodes ∧ A ≠ 0^32 ∧ le(S) < L ∧ ENC([S]B − [k]A) = R-bytes.
    PROVED under the interfaces named in the header. -/
theorem verify_accepts_iff_partial (msg pk sig : Bytes) (hpk : pk.length = 32) (hsig : sig.length = 64)
    (hm : msg.length < 2 ^ 124) :
    verify msg pk sig = some true ↔
      ∃ A, Edwards.decode pk = some A ∧ pk ≠ zeros 32 ∧ leNat (sig.drop 32) < L ∧
        Edwards.encode (Edwards.sub (Edwards.smul (leNat (sig.drop 32)) Edwards.B)
          (Edwards.smul (leNat (Spec.Sha2.sha512 (sig.take 32 ++ pk ++ msg)) % L) A)) = sig.take 32 := by
  rw [verify_is_spec_predicate_partial G DF MF msg pk sig hpk hsig hm]
  unfold Spec.Ed25519.verify Spec.Ed25519.verifyWith Spec.Ed25519.H Spec.Ed25519.L
  cases hd : Edwards.decode pk with
  | none => simp
  | some A =>
    simp only [Option.some.injEq]
    constructor
    · intro h
      by_cases hc : sig.length = 64 ∧ leNat (sig.drop 32) < L ∧ pk ≠ zeros 32
      · rw [if_pos hc] at h
        exact ⟨A, rfl, hc.2.2, hc.2.1, by simpa using h⟩
      · rw [if_neg hc] at h; cases h
    · rintro ⟨A', hA', hz, hS, he⟩
      cases hA'
      rw [if_pos ⟨hsig, hS, hz⟩]
      simpa using he

/-- S + k·L (k ≥ 1) is never accepted: the canonical-S test -/
theorem noncanonical_S_rejected_partial (msg pk sig : Bytes) (hpk : pk.length = 32) (hsig : sig.length = 64)
    (hm : msg.length < 2 ^ 124) (hS : L ≤ leNat (sig.drop 32)) : verify msg pk sig = some false := by
  rw [verify_is_spec_predicate_partial G DF MF msg pk sig hpk hsig hm]
  unfold Spec.Ed25519.verify Spec.Ed25519.verifyWith Spec.Ed25519.L
  cases Edwards.decode pk with
  | none => rfl
  | some A =>
    simp only
    rw [if_neg (fun h => Nat.not_lt.2 hS h.2.1)]

/-- the all-zero key is refused although it decodes (to a point of order 4) -/
theorem zero_key_rejected_partial (msg pk sig : Bytes) (hz : pk = zeros 32) (hsig : sig.length = 64)
    (hm : msg.length < 2 ^ 124) : verify msg pk sig = some false := by
  have hpk : pk.length = 32 := by rw [hz]; simp [zeros]
  rw [verify_is_spec_predicate_partial G DF MF msg pk sig hpk hsig hm]
  unfold Spec.Ed25519.verify Spec.Ed25519.verifyWith
  cases Edwards.decode pk with
  | none => rfl
  | some A =>
    simp only
    rw [if_neg (fun h => h.2.2 hz)]

end partials

/-! ### unconditional facts about the Spec predicate -/

/-- the strict RFC decoder accepts a subset of the lenient one, with the same point -/
theorem decodeStrict_implies_decode (s : Bytes) (P : Edwards.Point) (h : Edwards.decodeStrict s = some P) :
    Edwards.decode s = some P := by
  unfold Edwards.decodeStrict at h
  unfold Edwards.decode
  generalize Edwards.splitEncoding s = ys at h ⊢
  obtain ⟨y, sg⟩ := ys
  by_cases hl : s.length = 32
  · rw [if_pos hl] at h ⊢
    dsimp only at h ⊢
    by_cases hy : y < Edwards.p
    · rw [if_pos hy] at h
      rw [Nat.mod_eq_of_lt hy]
      cases hr : Edwards.recoverX y sg with
      | none => rw [hr] at h; cases h
      | some x =>
        rw [hr] at h
        dsimp only at h
        by_cases hx : (x = 0 && sg) = true
        · rw [if_pos hx] at h; cases h
        · rw [if_neg hx] at h
          rw [Option.map_some]; exact h
    · rw [if_neg hy] at h; cases h
  · rw [if_neg hl] at h; cases h

/-- whatever the strict predicate accepts, the implemented (lenient) predicate accepts -/
theorem verifyStrict_implies_verify (msg pk sig : Bytes) (h : Spec.Ed25519.verifyStrict msg pk sig = true) :
    Spec.Ed25519.verify msg pk sig = true := by
  unfold Spec.Ed25519.verifyStrict Spec.Ed25519.verifyWith at h
  unfold Spec.Ed25519.verify Spec.Ed25519.verifyWith
  cases hd : Edwards.decodeStrict pk with
  | none => rw [hd] at h; cases h
  | some A =>
    rw [hd] at h
    rw [decodeStrict_implies_decode pk A hd]
    exact h

set_option maxRecDepth 100000 in
/-- the order of the base point: `[L]B` is the neutral element (kernel evaluation of the Spec, ≈ 30 s) -/
theorem L_times_B_is_zero : Edwards.smul L Edwards.B = Edwards.zero := by decide +kernel

/-! ### non-vacuity: the all-zero key does decode (so its refusal is a real extra rule) -/
set_option maxRecDepth 100000 in
example : (Edwards.decode (zeros 32)).isSome = true := by decide +kernel

end Cx.Props.C14
