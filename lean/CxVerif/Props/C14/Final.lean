/-
  Props.C14.Final — C14 with NO remaining hypothesis: `ed25519::verify` of the code-shaped model accepts exactly the
  triples (message, 32-byte key, 64-byte signature) satisfying the Spec predicate of RFC 8032 §5.1.7 as implemented
  (cofactorless equation, canonical S, decodable non-zero key), for every message below 2^124 bytes.

  Props/C14/VerifyFull.lean proves the statements under `[Fact (Nat.Prime p)]` and `G : EdwardsGroupLaw` (the callee
  interfaces `DecodeFact`, `DsmFact` being discharged there).  Both remaining hypotheses are THEOREMS of this development:
    * `Cx.Proofs.Prime25519.prime_p`      — 2^255 − 19 is prime (instance `fact_prime_p`);
    * `Cx.Proofs.EdGroup.edwardsGroupLaw` — closure and associativity of the affine addition law.
  Here they are plugged in.  Nothing else is assumed (`#print axioms`: propext, Classical.choice, Quot.sound).
-/
import CxVerif.Props.C14.VerifyFull
import CxVerif.Proofs.Prime25519
import CxVerif.Proofs.EdwardsGroupLaw
namespace Cx.Props.C14
open Cx Cx.Spec Cx.Impl.Ed25519 Cx.Proofs.EdSpec
open Cx.Proofs.EdGroup (edwardsGroupLaw)
open Cx.Spec.ScalarL (L)

set_option maxRecDepth 10000

/-- **C14**: `verify` never panics and computes the Spec predicate -/
theorem verify_is_spec_predicate (msg pk sig : Bytes) (hpk : pk.length = 32) (hsig : sig.length = 64)
    (hm : msg.length < 2 ^ 124) :
    verify msg pk sig = some (Spec.Ed25519.verify msg pk sig) :=
  verify_is_spec_predicate_grouplaw edwardsGroupLaw msg pk sig hpk hsig hm

/-- **C14, FULL STATEMENT**: verify = true ↔ A decodes ∧ A ≠ 0^32 ∧ le(S) < L ∧ ENC([S]B − [k]A) = R-bytes,
    k = SHA-512(R ‖ A ‖ M) mod L -/
theorem verify_accepts_iff (msg pk sig : Bytes) (hpk : pk.length = 32) (hsig : sig.length = 64)
    (hm : msg.length < 2 ^ 124) :
    verify msg pk sig = some true ↔
      ∃ A, Edwards.decode pk = some A ∧ pk ≠ zeros 32 ∧ leNat (sig.drop 32) < L ∧
        Edwards.encode (Edwards.sub (Edwards.smul (leNat (sig.drop 32)) Edwards.B)
          (Edwards.smul (leNat (Spec.Sha2.sha512 (sig.take 32 ++ pk ++ msg)) % L) A)) = sig.take 32 :=
  verify_accepts_iff_grouplaw edwardsGroupLaw msg pk sig hpk hsig hm

/-- S + k·L (k ≥ 1) is never accepted: the canonical-S test -/
theorem noncanonical_S_rejected (msg pk sig : Bytes) (hpk : pk.length = 32) (hsig : sig.length = 64)
    (hm : msg.length < 2 ^ 124) (hS : L ≤ leNat (sig.drop 32)) : verify msg pk sig = some false :=
  noncanonical_S_rejected_grouplaw edwardsGroupLaw msg pk sig hpk hsig hm hS

/-- the all-zero key is refused although it decodes (to a point of order 4) -/
theorem zero_key_rejected (msg pk sig : Bytes) (hz : pk = zeros 32) (hsig : sig.length = 64)
    (hm : msg.length < 2 ^ 124) : verify msg pk sig = some false :=
  zero_key_rejected_grouplaw edwardsGroupLaw msg pk sig hz hsig hm

/-- `Ge::from_bytes` refines `Spec.Edwards.decode`, unconditionally -/
theorem from_bytes_is_decode (s : Bytes) (hs : s.length = 32) :
    match Edwards.decode s with
    | none => Impl.Ge.Ge.from_bytes s = some none
    | some P => OnCurve P ∧ ∃ g, Impl.Ge.Ge.from_bytes s = some (some g) ∧ Proofs.GeRefine.GeOk g P :=
  from_bytes_refines_decode s hs

/-- `double_scalarmult_vartime(a, A, b)` represents `[a]A + [b]B`, unconditionally -/
theorem double_scalarmult_vartime_is_spec (a b : Impl.Scalar64.Scalar) (g : Impl.Ge.Ge) (A : Edwards.Point)
    (ha : Proofs.Ed25519Sign.SInv a) (hb : Proofs.Ed25519Sign.SInv b) (hav : a.val < 2 ^ 255)
    (hbv : b.val < 2 ^ 255) (hg : Proofs.GeRefine.GeOk g A) (hA : OnCurve A) :
    ∃ r, Impl.Ge.GePartial.double_scalarmult_vartime a g b = some r ∧
      Proofs.GeRefine.PartialOk r (Edwards.add (Edwards.smul a.val A) (Edwards.smul b.val Edwards.B)) :=
  double_scalarmult_vartime_grouplaw edwardsGroupLaw a b g A ha hb hav hbv hg hA

/-- the interface hypothesis `DecodeFact` of Props/C14/Ed25519.lean is a theorem (Proofs/GeDecode.lean) -/
theorem decode_fact_proved : Proofs.Ed25519Verify.DecodeFact := Proofs.GeDecode.decodeFact

/-- the interface hypothesis `DsmFact` of Props/C14/Ed25519.lean is a theorem (Proofs/GeDsm.lean + the group law) -/
theorem dsm_fact_proved : Proofs.Ed25519Verify.DsmFact := Proofs.GeDsm.dsmFact edwardsGroupLaw

end Cx.Props.C14
