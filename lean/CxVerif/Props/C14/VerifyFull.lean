/-
  Props.C14.VerifyFull — C14 with the two callee interfaces DISCHARGED: `ed25519::verify` accepts exactly the triples
  satisfying the Spec predicate
      the public key decodes (RFC 8032 §5.1.3 as implemented: y reduced mod p, x = 0 tolerated with either sign bit),
      it is not the all-zero string, le(S) < L, and  ENC([S]B − [k]A) = the 32 bytes of R,  k = H(R‖A‖M) mod L.

  Props/C14/Ed25519.lean states these theorems under the interfaces `DecodeFact` (Ge::from_bytes refines
  Spec.Edwards.decode) and `DsmFact` (double_scalarmult_vartime(a, A, b) represents [a]A + [b]B).  Both are now
  theorems: `Proofs.GeDecode.decodeFact` (the decompression chain, needs only primality) and `Proofs.GeDsm.dsmFact`
  (slide recoding + table of odd multiples + window loop, needs primality and the group law).  What is left as
  explicit hypotheses here, exactly as in the other group-layer theorems (Props/C15/Ge.lean):
    `[Fact (Nat.Prime p)]`   primality of 2^255 − 19
    `G : EdwardsGroupLaw`    closure + associativity of the affine addition on curve points
  Hence the suffix `_grouplaw`.
-/
import CxVerif.Props.C14.Ed25519
import CxVerif.Proofs.GeDecode
import CxVerif.Proofs.GeDsm
namespace Cx.Props.C14
open Cx Cx.Spec Cx.Impl.Ed25519 Cx.Proofs.EdSpec
open Cx.Spec.Field25519 (p)
open Cx.Spec.ScalarL (L)

section grouplaw
variable [hp : Fact (Nat.Prime p)] (G : EdwardsGroupLaw)

/-- `Ge::from_bytes` refines the Spec decoder: rejects exactly the non-points (never panics), otherwise returns a
    Tight extended representation of the decoded point, which lies on the curve.  (The interface `DecodeFact`.) -/
theorem from_bytes_refines_decode (s : Bytes) (hs : s.length = 32) :
    match Edwards.decode s with
    | none => Impl.Ge.Ge.from_bytes s = some none
    | some P => OnCurve P ∧ ∃ g, Impl.Ge.Ge.from_bytes s = some (some g) ∧ Proofs.GeRefine.GeOk g P :=
  Proofs.GeDecode.decodeFact s hs

include G

/-- `double_scalarmult_vartime(a, A, b)` never panics and represents `[a]A + [b]B`, for scalars inside the limb
    invariant with values below 2^255 and a Tight representation of a curve point.  (The interface `DsmFact`.) -/
theorem double_scalarmult_vartime_grouplaw (a b : Impl.Scalar64.Scalar) (g : Impl.Ge.Ge) (A : Edwards.Point)
    (ha : Proofs.Ed25519Sign.SInv a) (hb : Proofs.Ed25519Sign.SInv b) (hav : a.val < 2 ^ 255)
    (hbv : b.val < 2 ^ 255) (hg : Proofs.GeRefine.GeOk g A) (hA : OnCurve A) :
    ∃ r, Impl.Ge.GePartial.double_scalarmult_vartime a g b = some r ∧
      Proofs.GeRefine.PartialOk r (Edwards.add (Edwards.smul a.val A) (Edwards.smul b.val Edwards.B)) :=
  Proofs.GeDsm.dsmFact G a b g A ha hb hav hbv hg hA

/-- `verify` returns (never panics) and computes the Spec predicate, for every message below 2^124 bytes, every
    32-byte key string and every 64-byte signature string -/
theorem verify_is_spec_predicate_grouplaw (msg pk sig : Bytes) (hpk : pk.length = 32) (hsig : sig.length = 64)
    (hm : msg.length < 2 ^ 124) :
    verify msg pk sig = some (Spec.Ed25519.verify msg pk sig) :=
  verify_is_spec_predicate_partial G Proofs.GeDecode.decodeFact (Proofs.GeDsm.dsmFact G) msg pk sig hpk hsig hm

/-- FULL STATEMENT (C14): verify = true ↔ A decodes ∧ A ≠ 0^32 ∧ le(S) < L ∧ ENC([S]B − [k]A) = R-bytes -/
theorem verify_accepts_iff_grouplaw (msg pk sig : Bytes) (hpk : pk.length = 32) (hsig : sig.length = 64)
    (hm : msg.length < 2 ^ 124) :
    verify msg pk sig = some true ↔
      ∃ A, Edwards.decode pk = some A ∧ pk ≠ zeros 32 ∧ leNat (sig.drop 32) < L ∧
        Edwards.encode (Edwards.sub (Edwards.smul (leNat (sig.drop 32)) Edwards.B)
          (Edwards.smul (leNat (Spec.Sha2.sha512 (sig.take 32 ++ pk ++ msg)) % L) A)) = sig.take 32 :=
  verify_accepts_iff_partial G Proofs.GeDecode.decodeFact (Proofs.GeDsm.dsmFact G) msg pk sig hpk hsig hm

/-- S + k·L (k ≥ 1) is never accepted: the canonical-S test -/
theorem noncanonical_S_rejected_grouplaw (msg pk sig : Bytes) (hpk : pk.length = 32) (hsig : sig.length = 64)
    (hm : msg.length < 2 ^ 124) (hS : L ≤ leNat (sig.drop 32)) : verify msg pk sig = some false :=
  noncanonical_S_rejected_partial G Proofs.GeDecode.decodeFact (Proofs.GeDsm.dsmFact G) msg pk sig hpk hsig hm hS

/-- the all-zero key is refused although it decodes (to a point of order 4) -/
theorem zero_key_rejected_grouplaw (msg pk sig : Bytes) (hz : pk = zeros 32) (hsig : sig.length = 64)
    (hm : msg.length < 2 ^ 124) : verify msg pk sig = some false :=
  zero_key_rejected_partial G Proofs.GeDecode.decodeFact (Proofs.GeDsm.dsmFact G) msg pk sig hz hsig hm

end grouplaw

/-! ### non-vacuity of the hypotheses of `double_scalarmult_vartime_grouplaw`: the scalar 1 and the base point -/
example : Proofs.Ed25519Sign.SInv Impl.Scalar64.ONE ∧ Impl.Scalar64.ONE.val < 2 ^ 255 := by
  unfold Proofs.Ed25519Sign.SInv; decide
example : OnCurve Edwards.B := Proofs.Ge.B_spec.1

end Cx.Props.C14
