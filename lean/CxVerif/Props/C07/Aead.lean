/-
  Props.C07.Aead — AEAD decryption (src/chacha20poly1305.rs, model Impl.Aead) reports success IF AND ONLY IF the
  supplied 16-byte tag is the RFC 8439 tag of exactly (key, nonce, aad, ciphertext); the one-shot and the
  incremental interface give the same verdict; the MAC-input encoding is injective, so re-splitting, truncating or
  extending AAD / ciphertext changes the authenticated string; every one of the 128 single-bit changes of the tag is
  rejected.  Only property theorems; helpers are in Proofs.Aead*.

  Hypotheses `D : CipherDeps …`, `M : MacDeps` = the C04 / C05 theorems of the lower layers (see Proofs.Aead).
  The last section restates the headline theorems with `D` discharged by the delivered stream-unit theorems (both
  engine models, key lengths 16 and 32, R ∈ {8,12,20}) and `M` by the poly1305 unit's C05 theorem: no hypothesis beyond
  the domain guards remains.

  STATED LIMIT.  The clause of C07 "changing any bit of the ciphertext, AAD, nonce or key makes it report failure"
  is NOT a theorem about this (or any) Poly1305-based AEAD: it holds up to a Poly1305 collision only.  What is
  proved is the exact decision (`…_verdict_iff`): a modified input is accepted iff its RFC tag happens to equal the
  supplied one; for modified (aad, ct) under the same key/nonce that is (`accept_modified_iff_collision`) a collision
  of Poly1305 under the one-time key on two DIFFERENT messages (different by `macData_injective`), which for a
  uniformly random one-time key has probability ≤ 8⌈len/16⌉ / 2^106 — a cryptographic, not a logical, fact.  Those
  clauses are therefore SAMPLED by the correspondence run (tools/gens/aead.py gen_C07: bit flips of ct / aad / key /
  nonce, boundary moves, swapped lengths, pad confusion, truncation / extension), not proved.  The tag clause is
  proved exhaustively (`tag_bitflip_rejected_*`, all 128 positions).
-/
import CxVerif.Proofs.AeadOneShot
import CxVerif.Proofs.AeadDeps
namespace Cx.Props.C07.Aead
open Cx Cx.Impl Cx.Impl.Aead Cx.Proofs.Aead
set_option linter.unusedSimpArgs false
set_option linter.unusedVariables false

variable {σ : Type}
variable {E : ChaCha.Engine σ} {R : Nat} {key nonce : Bytes} {At : StreamCtx.Ctx σ → Nat → Prop}

/-! ## `Tag ==` compares all 16 bytes -/

/-- `impl PartialEq for Tag` (through `CtEqual for &[u8; 16]`, C18) is equality of all bytes -/
theorem tag_eq_all_bytes (a b : Bytes) (ha : a.length = 16) (hb : b.length = 16) :
    Tag.eq a b = true ↔ a = b := by
  rw [tag_eq_spec a b (by rw [ha, hb])]; simp

/-! ## the decision, stated outright -/

/-- **one-shot**: `ChaChaPoly1305::new(key, nonce, aad).decrypt(ct, out, tag)` returns `true`
    iff `tag` is the RFC 8439 tag of (key, nonce, aad, ct) -/
theorem oneshot_verdict_iff (D : CipherDeps E R key nonce At) (M : MacDeps) (aad ct tag : Bytes)
    (hA : aad.length < 2 ^ 64) (hC : ct.length < 2 ^ 64) (ht : tag.length = 16) :
    ∃ o o' out v, ChaChaPoly1305.new E R key nonce aad = .ok o ∧
      ChaChaPoly1305.decrypt E R o ct ct.length tag = .ok (o', out, v) ∧
      (v = true ↔ tag = Spec.Aead.tag R key nonce aad ct) := by
  obtain ⟨o, hnew, hfin, hinv⟩ := oneshot_new D M aad hA
  exact ⟨o, _, _, _, hnew, oneshot_decrypt D M o aad ct tag hfin hinv hC ht, by simp⟩

/-- **incremental**: for ANY partition of the AAD over `add_data` calls and of the ciphertext over `decrypt` /
    `decrypt_mut` calls, `finalize(&Tag t)` answers `Match` iff `t` is the RFC 8439 tag of the concatenations -/
theorem incremental_verdict_iff (D : CipherDeps E R key nonce At) (M : MacDeps) (as : List Bytes)
    (ps : List (Bytes × Bool)) (t : Bytes) (ht : t.length = 16)
    (hA : as.flatten.length < 2 ^ 64) (hC : (ps.map (·.1)).flatten.length < 2 ^ 64) :
    ∃ outs v, runNew E R key nonce (decProg as ps t) = .ok (outs ++ [.verdict v]) ∧
      (v = true ↔ t = Spec.Aead.tag R key nonce as.flatten (ps.map (·.1)).flatten) := by
  have := Cx.Proofs.Aead.absRun_dec R key nonce as.flatten t ht ps []
  have habs : absRun R key nonce ⟨.aad, [], []⟩ (decProg as ps t) =
      some (⟨.done, as.flatten, (ps.map (·.1)).flatten⟩,
        dataOuts R key nonce 64 (ps.map (·.1)) ++
          [.verdict (decide (t = Spec.Aead.tag R key nonce as.flatten (ps.map (·.1)).flatten))]) := by
    unfold decProg
    rw [absRun_addData]
    simp only [List.nil_append, List.singleton_append, absRun, absStep]
    rw [this]
    simp
  exact ⟨_, _, runNew_refines D M _ _ _ habs ⟨hA, hC⟩, by simp⟩

/-- **both interfaces give the same verdict** on the same (aad, ciphertext, tag), however the incremental calls
    split them -/
theorem same_verdict (D : CipherDeps E R key nonce At) (M : MacDeps) (as : List Bytes)
    (ps : List (Bytes × Bool)) (t : Bytes) (ht : t.length = 16)
    (hA : as.flatten.length < 2 ^ 64) (hC : (ps.map (·.1)).flatten.length < 2 ^ 64) :
    ∃ o o' out outs v, ChaChaPoly1305.new E R key nonce as.flatten = .ok o ∧
      ChaChaPoly1305.decrypt E R o (ps.map (·.1)).flatten (ps.map (·.1)).flatten.length t = .ok (o', out, v) ∧
      runNew E R key nonce (decProg as ps t) = .ok (outs ++ [.verdict v]) := by
  obtain ⟨o, o', out, v, h1, h2, hv⟩ := oneshot_verdict_iff D M as.flatten (ps.map (·.1)).flatten t hA hC ht
  obtain ⟨outs, v', h3, hv'⟩ := incremental_verdict_iff D M as ps t ht hA hC
  have : v = v' := by
    cases v <;> cases v' <;> simp_all
  subst this
  exact ⟨o, o', out, outs, v, h1, h2, h3⟩

/-- a tag of another length is refused by the one-shot interface (the incremental `Tag([u8; 16])` cannot have one) -/
theorem oneshot_taglen_refused (o : ChaChaPoly1305 σ) (ct tag : Bytes) (n : Nat) (ht : tag.length ≠ 16) :
    ChaChaPoly1305.decrypt E R o ct n tag = .error "PANIC" :=
  oneshot_decrypt_refuses_lengths o ct n tag (Or.inr ht)

/-! ## injectivity of the MAC-input encoding -/

/-- `macData aad ct = macData aad' ct' → aad = aad' ∧ ct = ct'` (lengths < 2^64) -/
theorem macData_injective (aad ct aad' ct' : Bytes)
    (ha : aad.length < 2 ^ 64) (hc : ct.length < 2 ^ 64) (ha' : aad'.length < 2 ^ 64) (hc' : ct'.length < 2 ^ 64)
    (h : Spec.Aead.macData aad ct = Spec.Aead.macData aad' ct') : aad = aad' ∧ ct = ct' :=
  Cx.Proofs.Aead.macData_injective aad ct aad' ct' ha hc ha' hc' h

/-- re-splitting: moving bytes across the AAD / ciphertext boundary (same concatenation, different boundary)
    changes the authenticated string -/
theorem resplit_changes_macData (aad ct aad' ct' : Bytes)
    (ha : aad.length < 2 ^ 64) (hc : ct.length < 2 ^ 64) (ha' : aad'.length < 2 ^ 64) (hc' : ct'.length < 2 ^ 64)
    (hcat : aad ++ ct = aad' ++ ct') (hne : aad.length ≠ aad'.length) :
    Spec.Aead.macData aad ct ≠ Spec.Aead.macData aad' ct' := by
  intro h
  obtain ⟨e, _⟩ := macData_injective aad ct aad' ct' ha hc ha' hc' h
  exact hne (by rw [e])

/-- truncating or extending the ciphertext or the AAD (any change of a length) changes the authenticated string -/
theorem length_change_changes_macData (aad ct aad' ct' : Bytes)
    (ha : aad.length < 2 ^ 64) (hc : ct.length < 2 ^ 64) (ha' : aad'.length < 2 ^ 64) (hc' : ct'.length < 2 ^ 64)
    (hne : aad.length ≠ aad'.length ∨ ct.length ≠ ct'.length) :
    Spec.Aead.macData aad ct ≠ Spec.Aead.macData aad' ct' := by
  intro h
  obtain ⟨e1, e2⟩ := macData_injective aad ct aad' ct' ha hc ha' hc' h
  rcases hne with hne | hne
  · exact hne (by rw [e1])
  · exact hne (by rw [e2])

/-- any change of (aad, ct) changes the authenticated string -/
theorem any_change_changes_macData (aad ct aad' ct' : Bytes)
    (ha : aad.length < 2 ^ 64) (hc : ct.length < 2 ^ 64) (ha' : aad'.length < 2 ^ 64) (hc' : ct'.length < 2 ^ 64)
    (hne : aad ≠ aad' ∨ ct ≠ ct') : Spec.Aead.macData aad ct ≠ Spec.Aead.macData aad' ct' := by
  intro h
  obtain ⟨e1, e2⟩ := macData_injective aad ct aad' ct' ha hc ha' hc' h
  rcases hne with hne | hne
  · exact hne e1
  · exact hne e2

/-! ## every single-bit change of the tag is rejected (all 128 positions) -/

/-- one-shot: the valid tag with bit `i` flipped is rejected, for every `i < 128` -/
theorem tag_bitflip_rejected_oneshot (D : CipherDeps E R key nonce At) (M : MacDeps) (aad ct : Bytes)
    (hA : aad.length < 2 ^ 64) (hC : ct.length < 2 ^ 64) (i : Nat) (hi : i < 128) :
    ∃ o o' out, ChaChaPoly1305.new E R key nonce aad = .ok o ∧
      ChaChaPoly1305.decrypt E R o ct ct.length (flipBit (Spec.Aead.tag R key nonce aad ct) i) = .ok (o', out, false) := by
  have hl : (flipBit (Spec.Aead.tag R key nonce aad ct) i).length = 16 := by rw [flipBit_length, tag_length]
  obtain ⟨o, o', out, v, h1, h2, hv⟩ := oneshot_verdict_iff D M aad ct _ hA hC hl
  have hne := flipBit_ne (Spec.Aead.tag R key nonce aad ct) i (by rw [tag_length]; omega)
  have : v = false := by
    cases v
    · rfl
    · exact absurd (hv.mp rfl) hne
  subst this
  exact ⟨o, o', out, h1, h2⟩

/-- incremental: the same for any partition -/
theorem tag_bitflip_rejected_incremental (D : CipherDeps E R key nonce At) (M : MacDeps) (as : List Bytes)
    (ps : List (Bytes × Bool)) (hA : as.flatten.length < 2 ^ 64) (hC : (ps.map (·.1)).flatten.length < 2 ^ 64)
    (i : Nat) (hi : i < 128) :
    ∃ outs, runNew E R key nonce
        (decProg as ps (flipBit (Spec.Aead.tag R key nonce as.flatten (ps.map (·.1)).flatten) i)) =
      .ok (outs ++ [.verdict false]) := by
  have hl : (flipBit (Spec.Aead.tag R key nonce as.flatten (ps.map (·.1)).flatten) i).length = 16 := by
    rw [flipBit_length, tag_length]
  obtain ⟨outs, v, h1, hv⟩ := incremental_verdict_iff D M as ps _ hl hA hC
  have hne := flipBit_ne (Spec.Aead.tag R key nonce as.flatten (ps.map (·.1)).flatten) i (by rw [tag_length]; omega)
  have : v = false := by
    cases v
    · rfl
    · exact absurd (hv.mp rfl) hne
  subst this
  exact ⟨outs, h1⟩

/-- more generally: ANY tag other than the right one is rejected -/
theorem wrong_tag_rejected (D : CipherDeps E R key nonce At) (M : MacDeps) (aad ct tag : Bytes)
    (hA : aad.length < 2 ^ 64) (hC : ct.length < 2 ^ 64) (ht : tag.length = 16)
    (hne : tag ≠ Spec.Aead.tag R key nonce aad ct) :
    ∃ o o' out, ChaChaPoly1305.new E R key nonce aad = .ok o ∧
      ChaChaPoly1305.decrypt E R o ct ct.length tag = .ok (o', out, false) := by
  obtain ⟨o, o', out, v, h1, h2, hv⟩ := oneshot_verdict_iff D M aad ct tag hA hC ht
  have : v = false := by
    cases v
    · rfl
    · exact absurd (hv.mp rfl) hne
  subst this
  exact ⟨o, o', out, h1, h2⟩

/-! ## the stated limit: modified aad / ciphertext are accepted exactly on a Poly1305 collision -/

/-- Let `tag` be the valid tag of (aad, ct).  A DIFFERENT pair (aad', ct') presented with that tag under the same
    key and nonce is accepted iff Poly1305 under the one-time key collides on the two authenticated strings — which
    are different strings (injectivity).  Rejection of every such modification is therefore exactly
    collision-freeness of Poly1305 for this one-time key on this pair: not a theorem (see the header), sampled. -/
theorem accept_modified_iff_collision (D : CipherDeps E R key nonce At) (M : MacDeps) (aad ct aad' ct' : Bytes)
    (ha : aad.length < 2 ^ 64) (hc : ct.length < 2 ^ 64) (ha' : aad'.length < 2 ^ 64) (hc' : ct'.length < 2 ^ 64)
    (hne : aad ≠ aad' ∨ ct ≠ ct') :
    Spec.Aead.macData aad ct ≠ Spec.Aead.macData aad' ct' ∧
    ∃ o o' out v, ChaChaPoly1305.new E R key nonce aad' = .ok o ∧
      ChaChaPoly1305.decrypt E R o ct' ct'.length (Spec.Aead.tag R key nonce aad ct) = .ok (o', out, v) ∧
      (v = true ↔ Spec.Poly1305.mac (Spec.Aead.polyKeyGen R key nonce) (Spec.Aead.macData aad ct) =
                  Spec.Poly1305.mac (Spec.Aead.polyKeyGen R key nonce) (Spec.Aead.macData aad' ct')) := by
  refine ⟨any_change_changes_macData aad ct aad' ct' ha hc ha' hc' hne, ?_⟩
  obtain ⟨o, o', out, v, h1, h2, hv⟩ := oneshot_verdict_iff D M aad' ct' (Spec.Aead.tag R key nonce aad ct) ha' hc'
    (tag_length _ _ _ _ _)
  exact ⟨o, o', out, v, h1, h2, hv⟩

/-! ## closed over the stream unit: NO hypotheses beyond the domain guards -/

section closed
open Cx.Proofs.ChaCha
variable {α : σ → W16}

/-- **C07, one-shot: `decrypt … tag = true ↔ tag = Spec.tag key nonce aad ct`** -/
theorem aead_oneshot_verdict_iff (S : EngineSim E α) (aad ct tag : Bytes) (ht : tag.length = 16)
    (hv : Spec.Aead.Valid R key nonce aad ct) :
    ∃ o o' out v, ChaChaPoly1305.new E R key nonce aad = .ok o ∧
      ChaChaPoly1305.decrypt E R o ct ct.length tag = .ok (o', out, v) ∧
      (v = true ↔ tag = Spec.Aead.tag R key nonce aad ct) :=
  with_cipher S hv.2.1 hv.2.2.1 hv.1 fun _ D => oneshot_verdict_iff D macDeps aad ct tag hv.2.2.2.1 hv.2.2.2.2 ht

/-- **C07, incremental, any partition** -/
theorem aead_incremental_verdict_iff (S : EngineSim E α) (as : List Bytes)
    (ps : List (Bytes × Bool)) (t : Bytes) (ht : t.length = 16)
    (hv : Spec.Aead.Valid R key nonce as.flatten (ps.map (·.1)).flatten) :
    ∃ outs v, runNew E R key nonce (decProg as ps t) = .ok (outs ++ [.verdict v]) ∧
      (v = true ↔ t = Spec.Aead.tag R key nonce as.flatten (ps.map (·.1)).flatten) :=
  with_cipher S hv.2.1 hv.2.2.1 hv.1 fun _ D => incremental_verdict_iff D macDeps as ps t ht hv.2.2.2.1 hv.2.2.2.2

/-- **C07, both interfaces, same verdict** -/
theorem aead_same_verdict (S : EngineSim E α) (as : List Bytes)
    (ps : List (Bytes × Bool)) (t : Bytes) (ht : t.length = 16)
    (hv : Spec.Aead.Valid R key nonce as.flatten (ps.map (·.1)).flatten) :
    ∃ o o' out outs v, ChaChaPoly1305.new E R key nonce as.flatten = .ok o ∧
      ChaChaPoly1305.decrypt E R o (ps.map (·.1)).flatten (ps.map (·.1)).flatten.length t = .ok (o', out, v) ∧
      runNew E R key nonce (decProg as ps t) = .ok (outs ++ [.verdict v]) :=
  with_cipher S hv.2.1 hv.2.2.1 hv.1 fun _ D => same_verdict D macDeps as ps t ht hv.2.2.2.1 hv.2.2.2.2

/-- **C07, every one of the 128 tag bits**, one-shot -/
theorem aead_tag_bitflip_rejected_oneshot (S : EngineSim E α) (aad ct : Bytes)
    (hv : Spec.Aead.Valid R key nonce aad ct) (i : Nat) (hi : i < 128) :
    ∃ o o' out, ChaChaPoly1305.new E R key nonce aad = .ok o ∧
      ChaChaPoly1305.decrypt E R o ct ct.length (flipBit (Spec.Aead.tag R key nonce aad ct) i) = .ok (o', out, false) :=
  with_cipher S hv.2.1 hv.2.2.1 hv.1 fun _ D => tag_bitflip_rejected_oneshot D macDeps aad ct hv.2.2.2.1 hv.2.2.2.2 i hi

/-- **C07, every one of the 128 tag bits**, incremental, any partition -/
theorem aead_tag_bitflip_rejected_incremental (S : EngineSim E α) (as : List Bytes)
    (ps : List (Bytes × Bool)) (hv : Spec.Aead.Valid R key nonce as.flatten (ps.map (·.1)).flatten)
    (i : Nat) (hi : i < 128) :
    ∃ outs, runNew E R key nonce
        (decProg as ps (flipBit (Spec.Aead.tag R key nonce as.flatten (ps.map (·.1)).flatten) i)) =
      .ok (outs ++ [.verdict false]) :=
  with_cipher S hv.2.1 hv.2.2.1 hv.1 fun _ D =>
    tag_bitflip_rejected_incremental D macDeps as ps hv.2.2.2.1 hv.2.2.2.2 i hi

/-- **C07, any tag other than the RFC tag is rejected** -/
theorem aead_wrong_tag_rejected (S : EngineSim E α) (aad ct tag : Bytes) (ht : tag.length = 16)
    (hv : Spec.Aead.Valid R key nonce aad ct) (hne : tag ≠ Spec.Aead.tag R key nonce aad ct) :
    ∃ o o' out, ChaChaPoly1305.new E R key nonce aad = .ok o ∧
      ChaChaPoly1305.decrypt E R o ct ct.length tag = .ok (o', out, false) :=
  with_cipher S hv.2.1 hv.2.2.1 hv.1 fun _ D => wrong_tag_rejected D macDeps aad ct tag hv.2.2.2.1 hv.2.2.2.2 ht hne

/-- **C07, the stated limit**: a modified (aad', ct') with the tag of (aad, ct) is accepted iff Poly1305 collides
    under the one-time key on the two (different) authenticated strings -/
theorem aead_accept_modified_iff_collision (S : EngineSim E α) (aad ct aad' ct' : Bytes)
    (hv : Spec.Aead.Valid R key nonce aad ct) (hv' : Spec.Aead.Valid R key nonce aad' ct')
    (hne : aad ≠ aad' ∨ ct ≠ ct') :
    Spec.Aead.macData aad ct ≠ Spec.Aead.macData aad' ct' ∧
    ∃ o o' out v, ChaChaPoly1305.new E R key nonce aad' = .ok o ∧
      ChaChaPoly1305.decrypt E R o ct' ct'.length (Spec.Aead.tag R key nonce aad ct) = .ok (o', out, v) ∧
      (v = true ↔ Spec.Poly1305.mac (Spec.Aead.polyKeyGen R key nonce) (Spec.Aead.macData aad ct) =
                  Spec.Poly1305.mac (Spec.Aead.polyKeyGen R key nonce) (Spec.Aead.macData aad' ct')) :=
  with_cipher S hv.2.1 hv.2.2.1 hv.1 fun _ D =>
    accept_modified_iff_collision D macDeps aad ct aad' ct' hv.2.2.2.1 hv.2.2.2.2 hv'.2.2.2.1 hv'.2.2.2.2 hne

end closed

/-! ## non-vacuity and tests -/

section tests
def tKey : Bytes := (List.range 32).map (fun i => UInt8.ofNat (0x80 + i))
def tNonce : Bytes := [0x07, 0, 0, 0, 0x40, 0x41, 0x42, 0x43, 0x44, 0x45, 0x46, 0x47]
def tAad : Bytes := [0x50, 0x51, 0x52, 0x53, 0xc0, 0xc1, 0xc2, 0xc3, 0xc4, 0xc5, 0xc6, 0xc7]
def tCt : Bytes := [0xd3, 0x1a, 0x8d, 0x34, 0x64, 0x8e, 0x60, 0xdb, 0x7b, 0x86, 0xaf, 0xbc, 0x53, 0xef, 0x7e, 0xc2, 0xa4]
def okEq (r : Except String (List Out)) (e : List Out) : Bool :=
  match r with
  | .ok outs => decide (outs = e)
  | .error _ => false

/-- the hypotheses are satisfiable -/
example : Spec.Aead.Valid 20 tKey tNonce tAad tCt := by decide +kernel
example : (Spec.Aead.tag 20 tKey tNonce tAad tCt).length = 16 := tag_length _ _ _ _ _
/-- hypotheses of `resplit_changes_macData`: one byte moved from the ciphertext to the AAD -/
example : tAad ++ tCt = (tAad ++ tCt.take 1) ++ tCt.drop 1 ∧ tAad.length ≠ (tAad ++ tCt.take 1).length := by decide
/-- `flipBit` flips exactly the named bit -/
example : flipBit [0x00, 0xff, 0x10] 9 = [0x00, 0xfd, 0x10] := by decide
/-- the two padded strings of a "pad confusion" pair are equal, the MAC inputs are not (only the length word differs) -/
example : tAad ++ Spec.Aead.pad16 tAad = (tAad ++ [0, 0]) ++ Spec.Aead.pad16 (tAad ++ [0, 0])
    ∧ Spec.Aead.macData tAad tCt ≠ Spec.Aead.macData (tAad ++ [0, 0]) tCt := by decide

set_option maxRecDepth 100000 in
/-- TEST: on the model, incremental decryption of a 17-byte ciphertext in pieces 16+1 accepts the Spec tag and
    rejects the tag with bit 77 flipped -/
example : okEq (runNew ChaCha.sse2Engine 20 tKey tNonce
      (decProg [tAad] [(tCt.take 16, false), (tCt.drop 16, true)] (Spec.Aead.tag 20 tKey tNonce tAad tCt)))
    [.bytes ((Spec.Aead.cipherFast 20 tKey tNonce tCt).take 16), .bytes ((Spec.Aead.cipherFast 20 tKey tNonce tCt).drop 16),
     .verdict true] = true
  ∧ okEq (runNew ChaCha.sse2Engine 20 tKey tNonce
      (decProg [tAad] [(tCt, true)] (flipBit (Spec.Aead.tag 20 tKey tNonce tAad tCt) 77)))
    [.bytes (Spec.Aead.cipherFast 20 tKey tNonce tCt), .verdict false] = true := by decide +kernel
end tests

end Cx.Props.C07.Aead
