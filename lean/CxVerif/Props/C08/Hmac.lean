/-
  Props.C08 (unit mackdf) — HMAC equals RFC 2104 for every supported digest, key and message.

  * `hmac_generic`: for ANY digest type `D` whose object model satisfies the digest-object contract
    ("result after inputs = H(concatenation of the inputs since reset); reset = fresh; refuses after a result";
    `Proofs.MacObj.Contract` for `digestFam D`), `Hmac<D>` (Impl.Hmac, the model of src/hmac.rs) returns
        H((K' ⊕ opad) ‖ H((K' ⊕ ipad) ‖ message)),   K' = key zero-padded to B bytes, or H(key) zero-padded if |key| > B,
    for EVERY key (any length) and EVERY split of the message into `input` calls (any number of chunks, empty ones
    included), and reports `output_bytes()` = the digest size.  Induction over the chunk list; the key-length case
    split is `Proofs.MacHmac.hmac_new`.
  * `HmacCorrect M H B L ok`: the same statement for one legacy wrapper (`struct { ctx, computed }` over the context
    model `M`); proved for all 16 macro-generated wrappers from the hash units' context refinements
    (Props/C02: SHA-1, RIPEMD-160, SHA-224/256/384/512/512-224/512-256, SHA3-224/256/384/512, Keccak-224/256/384/512).
    Domain guards: the standards' own (`< 2^61` bytes for the 64-byte-block hashes, `< 2^125` for the 128-byte-block
    ones, none for the sponges), applied to the two strings HMAC hashes (and to the key when it is longer than B).
  * `legacy_sizes_table`: the `block_size()` / `output_bits()` the 16 wrappers report (re-extracted from /repo on every
    run) are the standard values: block 64 / 128 bytes (FIPS 180-4), rate (1600 − 2d)/8 = 144, 136, 104, 72 (FIPS 202),
    and each wrapper stores the context type of the function whose sizes it reports.
  BLAKE2b / BLAKE2s as `D` (the legacy wrappers of src/blake2b.rs / src/blake2s.rs used through `impl Digest`, fresh
  object `Blake2b::new(nn)` / `Blake2s::new(nn)`): Props/C08/HmacBlake2.lean.  `blake2b_digest_contract` /
  `blake2s_digest_contract` (proved in Proofs/MacInstBlake2.lean from the keyed-MAC contract of Proofs/MacBlake2.lean)
  are the digest-object contract for EVERY output length 1 ≤ nn ≤ 64 resp. 32 (L = nn, bits = 8·nn, B = 128 / 64, no
  length guard), and `hmac_blake2b`, `hmac_blake2s` instantiate `hmac_generic` with them: RFC 2104 with
  H = BLAKE2b-nn / BLAKE2s-nn for every key length and every chunking (`HmacCorrectObj`).  (Props/C09/MacDigest.lean
  has only the contract of the keyed `impl Mac`; there is no theorem `blake2_digest_contract` there.)
-/
import CxVerif.Proofs.MacHmac
import CxVerif.Proofs.MacInst
import CxVerif.Proofs.MacInstSha3
namespace Cx.Props.C08
open Cx Cx.Impl.Digest Cx.Impl.Hmac Cx.Proofs.MacObj Cx.Proofs.MacHmac Cx.Proofs.MacLegacy

/-- **C08, generic over the digest object.**  `d0` is a fresh digest object (`RelD d0 H []`), `L ≤ B` is RFC 2104's
    requirement on the hash.  Guards: `okD H` (the domain of `H`) holds for the two hashed strings, and for the key if
    it is longer than a block. -/
theorem hmac_generic {δ : Type} (D : DigestModel δ) (H : Fn) (B L bits : Nat) (okD : Fn → Bytes → Prop)
    (RelD : δ → Fn → Bytes → Prop) (FinD : δ → Fn → Prop)
    (hD : Contract (digestFam D) L [L, bits, B] (fun _ => none) okD RelD FinD) (hLB : L ≤ B)
    (d0 : δ) (h0 : RelD d0 H []) (key : Bytes) (chunks : List Bytes)
    (hk : key.length ≤ B ∨ okD H key)
    (h1 : okD H (ikey H B key ++ chunks.flatten))
    (h2 : okD H (okey H B key ++ H (ikey H B key ++ chunks.flatten))) :
    ∃ h h' h'', Hmac.new D d0 key = some h ∧ chunks.foldlM (Hmac.input D) h = some h' ∧
      Hmac.result D h' = some (h'', Spec.Hmac.hmac H B key chunks.flatten) ∧
      (Spec.Hmac.hmac H B key chunks.flatten).length = L ∧
      Hmac.output_bytes D h = L ∧ Hmac.output_bytes D h' = L :=
  hmac_rfc2104 D H B key RelD FinD hD hLB d0 h0 chunks hk ⟨h1, h2⟩

/-- C08 for one legacy wrapper type: `Hmac::new(X::new(), key)`, any chunking, `result()`, `output_bytes()` -/
def HmacCorrect {γ : Type} (M : CtxModel γ) (H : Fn) (B L : Nat) (ok : Bytes → Prop) : Prop :=
  ∀ (key : Bytes) (chunks : List Bytes),
    (key.length ≤ B ∨ ok key) →
    ok (ikey H B key ++ chunks.flatten) →
    ok (okey H B key ++ H (ikey H B key ++ chunks.flatten)) →
    ∃ h h' h'', Hmac.new (legacyDigest M) (Legacy.new M) key = some h ∧
      chunks.foldlM (Hmac.input (legacyDigest M)) h = some h' ∧
      Hmac.result (legacyDigest M) h' = some (h'', Spec.Hmac.hmac H B key chunks.flatten) ∧
      (Spec.Hmac.hmac H B key chunks.flatten).length = L ∧
      Hmac.output_bytes (legacyDigest M) h = L

/-- from the context contract of the wrapped context type -/
theorem hmac_legacy {γ : Type} (M : CtxModel γ) (H : Fn) (R : γ → Bytes → Prop) (ok : Bytes → Prop)
    (hc : CtxContract M H R ok) (B L : Nat) (hB : M.BLOCK_BYTES = B) (hL : (M.OUTPUT_BITS + 7) / 8 = L) (hLB : L ≤ B) :
    HmacCorrect M H B L ok := by
  intro key chunks hk h1 h2
  have hD := legacy_contract M H R hc
  rw [show sizesOf M = [L, M.OUTPUT_BITS, B] by simp [sizesOf, outBytes, hB, hL], show outBytes M = L from hL] at hD
  obtain ⟨h, h', h'', e1, e2, e3, e4, e5, _⟩ :=
    hmac_generic (legacyDigest M) H B L M.OUTPUT_BITS (fun _ m => ok m) (RelL H R) (FinL H R) hD hLB
      (Legacy.new M) (legacy_new M H R hc) key chunks hk h1 h2
  exact ⟨h, h', h'', e1, e2, e3, e4, e5⟩

/-! ### the 16 macro-generated wrappers -/

open Cx.Proofs.MacInst Cx.Proofs.MacInstSha3 Cx.Props.C02.Sha2

theorem hmac_sha1 : HmacCorrect sha1Ctx Spec.Sha1.sha1 64 20 Cx.Props.C02.Sha1Ripemd.ok :=
  hmac_legacy _ _ _ _ sha1_ctx 64 20 (by decide) (by decide) (by decide)
theorem hmac_ripemd160 : HmacCorrect ripemd160Ctx Spec.Ripemd160.ripemd160 64 20 Cx.Props.C02.Sha1Ripemd.ok :=
  hmac_legacy _ _ _ _ ripemd160_ctx 64 20 (by decide) (by decide) (by decide)
theorem hmac_sha224 : HmacCorrect sha224Ctx Spec.Sha2.sha224 64 28 ok256 :=
  hmac_legacy _ _ _ _ sha224_ctx 64 28 (by decide) (by decide) (by decide)
theorem hmac_sha256 : HmacCorrect sha256Ctx Spec.Sha2.sha256 64 32 ok256 :=
  hmac_legacy _ _ _ _ sha256_ctx 64 32 (by decide) (by decide) (by decide)
theorem hmac_sha384 : HmacCorrect sha384Ctx Spec.Sha2.sha384 128 48 ok512 :=
  hmac_legacy _ _ _ _ sha384_ctx 128 48 (by decide) (by decide) (by decide)
theorem hmac_sha512 : HmacCorrect sha512Ctx Spec.Sha2.sha512 128 64 ok512 :=
  hmac_legacy _ _ _ _ sha512_ctx 128 64 (by decide) (by decide) (by decide)
theorem hmac_sha512_224 : HmacCorrect sha512_224Ctx Spec.Sha2.sha512_224 128 28 ok512 :=
  hmac_legacy _ _ _ _ sha512_224_ctx 128 28 (by decide) (by decide) (by decide)
theorem hmac_sha512_256 : HmacCorrect sha512_256Ctx Spec.Sha2.sha512_256 128 32 ok512 :=
  hmac_legacy _ _ _ _ sha512_256_ctx 128 32 (by decide) (by decide) (by decide)
theorem hmac_sha3_224 : HmacCorrect sha3_224Ctx Spec.Keccak.sha3_224 144 28 (fun _ => True) :=
  hmac_legacy _ _ _ _ sha3_224_ctx 144 28 (by decide) (by decide) (by decide)
theorem hmac_sha3_256 : HmacCorrect sha3_256Ctx Spec.Keccak.sha3_256 136 32 (fun _ => True) :=
  hmac_legacy _ _ _ _ sha3_256_ctx 136 32 (by decide) (by decide) (by decide)
theorem hmac_sha3_384 : HmacCorrect sha3_384Ctx Spec.Keccak.sha3_384 104 48 (fun _ => True) :=
  hmac_legacy _ _ _ _ sha3_384_ctx 104 48 (by decide) (by decide) (by decide)
theorem hmac_sha3_512 : HmacCorrect sha3_512Ctx Spec.Keccak.sha3_512 72 64 (fun _ => True) :=
  hmac_legacy _ _ _ _ sha3_512_ctx 72 64 (by decide) (by decide) (by decide)
theorem hmac_keccak224 : HmacCorrect keccak224Ctx Spec.Keccak.keccak224 144 28 (fun _ => True) :=
  hmac_legacy _ _ _ _ keccak224_ctx 144 28 (by decide) (by decide) (by decide)
theorem hmac_keccak256 : HmacCorrect keccak256Ctx Spec.Keccak.keccak256 136 32 (fun _ => True) :=
  hmac_legacy _ _ _ _ keccak256_ctx 136 32 (by decide) (by decide) (by decide)
theorem hmac_keccak384 : HmacCorrect keccak384Ctx Spec.Keccak.keccak384 104 48 (fun _ => True) :=
  hmac_legacy _ _ _ _ keccak384_ctx 104 48 (by decide) (by decide) (by decide)
theorem hmac_keccak512 : HmacCorrect keccak512Ctx Spec.Keccak.keccak512 72 64 (fun _ => True) :=
  hmac_legacy _ _ _ _ keccak512_ctx 72 64 (by decide) (by decide) (by decide)

/-- the hypotheses of `hmac_sha256` are met by a non-trivial input: a 131-byte key (hashed first) and a message fed
    as three chunks, one of them empty -/
example : (131 ≤ 64 ∨ ok256 (List.replicate 131 (0xaa : UInt8))) ∧
    ok256 (ikey Spec.Sha2.sha256 64 (List.replicate 131 0xaa) ++ [[1, 2], [], [3]].flatten) := by
  refine ⟨Or.inr ?_, ?_⟩
  · show (List.replicate 131 (0xaa : UInt8)).length < 2 ^ 61
    simp
  · show (ikey Spec.Sha2.sha256 64 (List.replicate 131 0xaa) ++ [[1, 2], [], [3]].flatten).length < 2 ^ 61
    simp [ikey, Spec.Hmac.xorPad, Spec.Hmac.keyBlock, sha256_length, zeros]

/-! ### the reported sizes -/

/-- **table obligation**: the rows `[id, OUTPUT_BITS, BLOCK_BYTES, paired]` re-extracted from the wrappers of /repo
    (ids 0 sha1, 1 sha224, 2 sha256, 3 sha384, 4 sha512, 5 sha512_224, 6 sha512_256, 7–10 sha3_224/256/384/512,
    11–14 keccak224/256/384/512, 15 ripemd160) are the standard values — digest bits; block bytes 64 / 128 per
    FIPS 180-4 (and RIPEMD-160's 64), rate (1600 − 2·d)/8 per FIPS 202 — and every wrapper is paired with its own
    context type. -/
theorem legacy_sizes_table :
    Extracted.MacKdf.LEGACY_DIGESTS =
      [[0, 8 * Spec.Sha1.digestBytes, Spec.Sha1.blockBytes, 1],
       [1, 224, Spec.Sha2.blockBytes256, 1], [2, 256, Spec.Sha2.blockBytes256, 1],
       [3, 384, Spec.Sha2.blockBytes512, 1], [4, 512, Spec.Sha2.blockBytes512, 1],
       [5, 224, Spec.Sha2.blockBytes512, 1], [6, 256, Spec.Sha2.blockBytes512, 1],
       [7, 224, Spec.Keccak.rateBytes 224, 1], [8, 256, Spec.Keccak.rateBytes 256, 1],
       [9, 384, Spec.Keccak.rateBytes 384, 1], [10, 512, Spec.Keccak.rateBytes 512, 1],
       [11, 224, Spec.Keccak.rateBytes 224, 1], [12, 256, Spec.Keccak.rateBytes 256, 1],
       [13, 384, Spec.Keccak.rateBytes 384, 1], [14, 512, Spec.Keccak.rateBytes 512, 1],
       [15, 8 * Spec.Ripemd160.digestBytes, 64, 1]] := by decide

/-- the numbers, spelled out: block sizes 64, 128, 144, 136, 104, 72 -/
theorem legacy_sizes_numbers :
    Extracted.MacKdf.LEGACY_DIGESTS.map (fun row => (row.getD 1 0, row.getD 2 0)) =
      [(160, 64), (224, 64), (256, 64), (384, 128), (512, 128), (224, 128), (256, 128),
       (224, 144), (256, 136), (384, 104), (512, 72), (224, 144), (256, 136), (384, 104), (512, 72), (160, 64)] := by
  decide

/-- the BLAKE2 wrappers report the block sizes of RFC 7693 (`bb` = 128 / 64) -/
theorem blake2_block_sizes :
    Extracted.Blake2.B_BLOCK_BYTES = Spec.Blake2.b.bb ∧ Extracted.Blake2.S_BLOCK_BYTES = Spec.Blake2.s.bb := by decide

/-- the masks of `create_keys` are RFC 2104's ipad / opad -/
theorem hmac_pads_table : Extracted.MacKdf.HMAC_PADS = [Spec.Hmac.ipad.toNat, Spec.Hmac.opad.toNat] := by decide

end Cx.Props.C08
