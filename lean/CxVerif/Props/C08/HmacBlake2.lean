/-
  Props.C08.HmacBlake2 (unit mackdf) — HMAC (C08), and HKDF / PBKDF2-HMAC (C10), over the legacy BLAKE2b / BLAKE2s
  digest wrappers (`impl Digest for Blake2b / Blake2s` of src/blake2b.rs, src/blake2s.rs; model
  `Impl.Digest.blake2bDigest codeVariant` / `blake2sDigest codeVariant`, fresh object `Blake2.new Impl.Blake2.b nn` —
  exactly what the driver's `blake2b_<nn>` / `blake2s_<nn>` digest tokens run), for EVERY output length
  1 ≤ nn ≤ 64 (BLAKE2b) resp. 1 ≤ nn ≤ 32 (BLAKE2s):

  * `blake2b_digest_contract`, `blake2s_digest_contract`: the digest-object contract (`Proofs.MacObj.Contract` for
    `digestFam D`, with L = nn, bits = 8·nn, B = 128 / 64, no domain guard) — result after any inputs = RFC 7693
    BLAKE2-nn of the concatenation under the key the object retains; a second result and input after a result are
    refused; reset = fresh; — and `blake2b_new_fresh`: `Blake2b::new(nn)` is the fresh object of UNKEYED BLAKE2b-nn
    (and refuses every nn outside 1..64).  `blake2b_digest_every_history`: hence every operation history of the
    object through `trait Digest` equals the abstract object's.
  * `hmac_blake2b`, `hmac_blake2s`: `Hmac::new(Blake2b::new(nn), key)`, any chunking, `result()` = RFC 2104 with
    H = BLAKE2b-nn (B = 128, L = nn) / BLAKE2s-nn (B = 64, L = nn), for EVERY key length (≤ B zero-padded, > B hashed
    first; L < B/2 etc. are all covered — the only relation RFC 2104 needs is L ≤ B) and no length guard (the byte
    counter of the engine wraps as RFC 7693's does).
  * `hkdf_blake2b`, `hkdf_blake2s` (extract incl. the refusal of a PRK buffer ≠ L; expand as an equality of
    `Option`s incl. the refusal of a PRK shorter than L and of every length beyond 255·L), `pbkdf2_hmac_blake2b`, `pbkdf2_hmac_blake2s` (RFC 8018 §5.2 incl. the
    refusals c = 0 and dkLen > (2^32−1)·L): instances of the generic theorems of Props/C10/Kdf.lean.
  * `ResultLen` (the one fact the translator tie of src/hmac.rs needs of the digest dictionary, Proofs/GlueMac.lean):
    the unrestricted statement is FALSE for the BLAKE2 dictionaries on junk objects that no constructor builds
    (`blake2_resultLen_unrestricted_false`: `outlen` field > 64 / 32); it holds on the data-structure invariant
    `outlen ≤ MAX_OUTLEN` (`blake2_resultLen`, `blake2b_resultLen`, `blake2s_resultLen`), which `new` / `new_keyed`
    establish and every method preserves (`blake2_outlen_invariant`).  The source-level capstone does not need it as a
    hypothesis at all: `hmac_src_rfc2104_contract` derives the two uses from the digest-object contract, and
    `hmac_src_rfc2104_blake2b/s` instantiate it: the GENERATED `Hmac::new_src / input_src / result_src` over the
    BLAKE2 dictionaries return RFC 2104 HMAC-BLAKE2-nn for every key and chunking.

  Precondition on the digest object: none beyond "built by a constructor" — in the tree as it is (`.repaired`, /repo
  c8ec1e5) a keyed object handed to `Hmac::new` would simply make H the keyed BLAKE2 (contract `RelB` with the retained
  key); `Hmac::new(Blake2b::new(nn), key)` receives the unkeyed one (`blake2b_new_fresh`: `o.key = []`).
-/
import CxVerif.Proofs.MacInstBlake2
import CxVerif.Props.C08.Hmac
import CxVerif.Props.C10.Kdf
namespace Cx.Props.C08
open Cx Cx.Impl.Digest Cx.Impl.Hmac Cx.Impl.Kdf Cx.Proofs.MacObj Cx.Proofs.MacHmac Cx.Proofs.MacBlake2
open Cx.Proofs.MacInstBlake2

/-! ## 1. the digest-object contract -/

/-- `impl Digest for Blake2b`, every 1 ≤ nn ≤ 64: the shape `hmac_generic` / `hkdf_*_generic` require
    (L = nn, bits = 8·nn, B = 128; `fun _ => none`: `trait Digest` has no `reset_with_key`; guard `True`) -/
theorem blake2b_digest_contract (nn : Nat) (h : 1 ≤ nn ∧ nn ≤ 64) :
    Contract (digestFam (blake2bDigest codeVariant)) nn [nn, nn * 8, 128] (fun _ => none) (fun _ _ => True)
      (RelB Spec.Blake2.b nn) (FinB Spec.Blake2.b nn) :=
  Cx.Proofs.MacInstBlake2.blake2b_digest_contract nn h

/-- `impl Digest for Blake2s`, every 1 ≤ nn ≤ 32 (L = nn, bits = 8·nn, B = 64) -/
theorem blake2s_digest_contract (nn : Nat) (h : 1 ≤ nn ∧ nn ≤ 32) :
    Contract (digestFam (blake2sDigest codeVariant)) nn [nn, nn * 8, 64] (fun _ => none) (fun _ _ => True)
      (RelB Spec.Blake2.s nn) (FinB Spec.Blake2.s nn) :=
  Cx.Proofs.MacInstBlake2.blake2s_digest_contract nn h

/-- `Blake2b::new(nn)`: for 1 ≤ nn ≤ 64 the fresh, unkeyed object of H = BLAKE2b-nn; refused for every other nn -/
theorem blake2b_new_fresh (nn : Nat) :
    (1 ≤ nn ∧ nn ≤ 64 → ∃ o, Blake2.new Impl.Blake2.b nn = some o ∧ o.key = [] ∧
      RelB Spec.Blake2.b nn o (Spec.Blake2.blake2b nn []) []) ∧
    (¬ (1 ≤ nn ∧ nn ≤ 64) → Blake2.new Impl.Blake2.b nn = none) :=
  ⟨blake2b_new_rel nn, blake2b_new_refuses nn⟩

theorem blake2s_new_fresh (nn : Nat) :
    (1 ≤ nn ∧ nn ≤ 32 → ∃ o, Blake2.new Impl.Blake2.s nn = some o ∧ o.key = [] ∧
      RelB Spec.Blake2.s nn o (Spec.Blake2.blake2s nn []) []) ∧
    (¬ (1 ≤ nn ∧ nn ≤ 32) → Blake2.new Impl.Blake2.s nn = none) :=
  ⟨blake2s_new_rel nn, blake2s_new_refuses nn⟩

/-- **every history** of `Blake2b::new(nn)` through `trait Digest` (input, result into a buffer of any length, reset,
    clone / swap, sizes): the values are BLAKE2b-nn of the bytes since the last reset, the panics are exactly the
    abstract object's refusals (second result, input after result, wrong buffer length),
    `output_bytes / output_bits / block_size` = nn / 8·nn / 128 -/
theorem blake2b_digest_every_history (nn : Nat) (h : 1 ≤ nn ∧ nn ≤ 64) (ops : List Op) :
    ∃ o, Blake2.new Impl.Blake2.b nn = some o ∧
      runHist (digestFam (blake2bDigest codeVariant)) ops o [] []
        = runHist (absFam [nn, nn * 8, 128] (fun _ => none)) ops
            (Spec.MacObj.fresh (Spec.Blake2.blake2b nn []) nn) [] [] := by
  obtain ⟨o, e, _, hr⟩ := blake2b_new_rel nn h
  exact ⟨o, e, runHist_fresh (blake2b_digest_contract nn h) o _ hr ops (guard_trivial ops _ _)⟩

theorem blake2s_digest_every_history (nn : Nat) (h : 1 ≤ nn ∧ nn ≤ 32) (ops : List Op) :
    ∃ o, Blake2.new Impl.Blake2.s nn = some o ∧
      runHist (digestFam (blake2sDigest codeVariant)) ops o [] []
        = runHist (absFam [nn, nn * 8, 64] (fun _ => none)) ops
            (Spec.MacObj.fresh (Spec.Blake2.blake2s nn []) nn) [] [] := by
  obtain ⟨o, e, _, hr⟩ := blake2s_new_rel nn h
  exact ⟨o, e, runHist_fresh (blake2s_digest_contract nn h) o _ hr ops (guard_trivial ops _ _)⟩

/-- the hypotheses are satisfiable: BLAKE2b-160 / BLAKE2s-160 -/
example : 1 ≤ 20 ∧ 20 ≤ 64 := by decide
example : 1 ≤ 20 ∧ 20 ≤ 32 := by decide

/-! ## 2. HMAC -/

/-- C08 for a digest type given by its dictionary `D` and its constructor call `new` (an `Option`: the constructor
    may assert): `Hmac::new(new, key)`, any chunking, `result()`, `output_bytes()` — for EVERY key and chunk list;
    the shape of `HmacCorrect` (Props/C08/Hmac.lean) with the trivial domain guard -/
def HmacCorrectObj {δ : Type} (D : DigestModel δ) (new : Option δ) (H : Fn) (B L : Nat) : Prop :=
  ∃ d0, new = some d0 ∧ ∀ (key : Bytes) (chunks : List Bytes),
    ∃ h h' h'', Hmac.new D d0 key = some h ∧
      chunks.foldlM (Hmac.input D) h = some h' ∧
      Hmac.result D h' = some (h'', Spec.Hmac.hmac H B key chunks.flatten) ∧
      (Spec.Hmac.hmac H B key chunks.flatten).length = L ∧
      Hmac.output_bytes D h = L

/-- from the digest-object contract without domain guard -/
theorem hmac_obj {δ : Type} (D : DigestModel δ) (new : Option δ) (H : Fn) (B L bits : Nat)
    (RelD : δ → Fn → Bytes → Prop) (FinD : δ → Fn → Prop)
    (hD : Contract (digestFam D) L [L, bits, B] (fun _ => none) (fun _ _ => True) RelD FinD) (hLB : L ≤ B)
    (hnew : ∃ d0, new = some d0 ∧ RelD d0 H []) : HmacCorrectObj D new H B L := by
  obtain ⟨d0, e0, h0⟩ := hnew
  refine ⟨d0, e0, fun key chunks => ?_⟩
  obtain ⟨h, h', h'', e1, e2, e3, e4, e5, _⟩ :=
    hmac_generic D H B L bits (fun _ _ => True) RelD FinD hD hLB d0 h0 key chunks (Or.inr trivial) trivial trivial
  exact ⟨h, h', h'', e1, e2, e3, e4, e5⟩

/-- **HMAC-BLAKE2b-nn = RFC 2104** with H = unkeyed BLAKE2b with nn output bytes, B = 128, L = nn; every 1 ≤ nn ≤ 64,
    every key (any length), every chunking -/
theorem hmac_blake2b (nn : Nat) (h : 1 ≤ nn ∧ nn ≤ 64) :
    HmacCorrectObj (blake2bDigest codeVariant) (Blake2.new Impl.Blake2.b nn) (Spec.Blake2.blake2b nn []) 128 nn := by
  obtain ⟨o, e, _, hr⟩ := blake2b_new_rel nn h
  exact hmac_obj _ _ _ 128 nn (nn * 8) _ _ (blake2b_digest_contract nn h) (by omega) ⟨o, e, hr⟩

/-- **HMAC-BLAKE2s-nn = RFC 2104** with H = unkeyed BLAKE2s with nn output bytes, B = 64, L = nn; every 1 ≤ nn ≤ 32 -/
theorem hmac_blake2s (nn : Nat) (h : 1 ≤ nn ∧ nn ≤ 32) :
    HmacCorrectObj (blake2sDigest codeVariant) (Blake2.new Impl.Blake2.s nn) (Spec.Blake2.blake2s nn []) 64 nn := by
  obtain ⟨o, e, _, hr⟩ := blake2s_new_rel nn h
  exact hmac_obj _ _ _ 64 nn (nn * 8) _ _ (blake2s_digest_contract nn h) (by omega) ⟨o, e, hr⟩

/-- instance: HMAC-BLAKE2b-160 (L = 20 < B/2), e.g. with a 200-byte key (hashed first) and three chunks -/
example : HmacCorrectObj (blake2bDigest codeVariant) (Blake2.new Impl.Blake2.b 20) (Spec.Blake2.blake2b 20 []) 128 20 :=
  hmac_blake2b 20 (by decide)
example : HmacCorrectObj (blake2sDigest codeVariant) (Blake2.new Impl.Blake2.s 20) (Spec.Blake2.blake2s 20 []) 64 20 :=
  hmac_blake2s 20 (by decide)

/-! ## 3. HKDF and PBKDF2-HMAC (property C10) -/

/-- HKDF for a digest type (`hkdf_extract(new, …)`, `hkdf_expand(new, …)`): RFC 5869 §2.2 (refusing a PRK buffer whose
    length is not L), §2.3 as an equality of `Option`s, and the refusal exactly for a PRK shorter than L
    (`assert!(prk.len() >= digest.output_bytes())`) or an output beyond 255·L -/
def HkdfCorrectObj {δ : Type} (D : DigestModel δ) (new : Option δ) (H : Fn) (B L : Nat) : Prop :=
  ∃ d0, new = some d0 ∧
    (∀ (salt ikm : Bytes) (prkLen : Nat),
      hkdf_extract D d0 salt ikm prkLen = if prkLen = L then some (Spec.Kdf.hkdfExtract H B salt ikm) else none) ∧
    (∀ (prk info : Bytes) (okmLen : Nat),
      hkdf_expand D d0 prk info okmLen = Spec.Kdf.hkdfExpand H B L prk info okmLen) ∧
    (∀ (prk info : Bytes) (okmLen : Nat),
      hkdf_expand D d0 prk info okmLen = none ↔ (prk.length < L ∨ 255 * L < okmLen))

theorem hkdf_obj {δ : Type} (D : DigestModel δ) (new : Option δ) (H : Fn) (B L bits : Nat)
    (RelD : δ → Fn → Bytes → Prop) (FinD : δ → Fn → Prop)
    (hD : Contract (digestFam D) L [L, bits, B] (fun _ => none) (fun _ _ => True) RelD FinD) (hLB : L ≤ B) (hL : 0 < L)
    (hnew : ∃ d0, new = some d0 ∧ RelD d0 H []) : HkdfCorrectObj D new H B L := by
  obtain ⟨d0, e0, h0⟩ := hnew
  have hexp : ∀ (prk info : Bytes) (okmLen : Nat),
      hkdf_expand D d0 prk info okmLen = Spec.Kdf.hkdfExpand H B L prk info okmLen := fun prk info okmLen =>
    Cx.Props.C10.hkdf_expand_generic D H B L bits (fun _ _ => True) RelD FinD hD hLB hL d0 [] (Or.inl h0) prk info okmLen
      (Or.inr trivial) (fun _ _ => ⟨trivial, trivial⟩)
  refine ⟨d0, e0, fun salt ikm prkLen => ?_, hexp, fun prk info okmLen => ?_⟩
  · exact Cx.Props.C10.hkdf_extract_generic D H B L bits (fun _ _ => True) RelD FinD hD hLB d0 [] (Or.inl h0) salt ikm
      prkLen (Or.inr trivial) trivial trivial
  · rw [hexp]; exact Cx.Props.C10.hkdf_expand_limit H B L prk info okmLen

/-- **HKDF-BLAKE2b-nn = RFC 5869** (HashLen = nn, HMAC block 128), every 1 ≤ nn ≤ 64 -/
theorem hkdf_blake2b (nn : Nat) (h : 1 ≤ nn ∧ nn ≤ 64) :
    HkdfCorrectObj (blake2bDigest codeVariant) (Blake2.new Impl.Blake2.b nn) (Spec.Blake2.blake2b nn []) 128 nn := by
  obtain ⟨o, e, _, hr⟩ := blake2b_new_rel nn h
  exact hkdf_obj _ _ _ 128 nn (nn * 8) _ _ (blake2b_digest_contract nn h) (by omega) h.1 ⟨o, e, hr⟩

/-- **HKDF-BLAKE2s-nn = RFC 5869** (HashLen = nn, HMAC block 64), every 1 ≤ nn ≤ 32 -/
theorem hkdf_blake2s (nn : Nat) (h : 1 ≤ nn ∧ nn ≤ 32) :
    HkdfCorrectObj (blake2sDigest codeVariant) (Blake2.new Impl.Blake2.s nn) (Spec.Blake2.blake2s nn []) 64 nn := by
  obtain ⟨o, e, _, hr⟩ := blake2s_new_rel nn h
  exact hkdf_obj _ _ _ 64 nn (nn * 8) _ _ (blake2s_digest_contract nn h) (by omega) h.1 ⟨o, e, hr⟩

/-- PBKDF2 with PRF = HMAC over a digest type: `pbkdf2(&mut Hmac::new(new, pwd), salt, c, out[dkLen])` = RFC 8018 §5.2
    as an equality of `Option`s (refusal exactly for c = 0 or dkLen > (2^32 − 1)·L, `Props.C10.pbkdf2_limit`) -/
def Pbkdf2HmacCorrectObj {δ : Type} (D : DigestModel δ) (new : Option δ) (H : Fn) (B L : Nat) : Prop :=
  ∃ d0, new = some d0 ∧ ∀ (pwd salt : Bytes) (c dkLen : Nat),
    ∃ mac, Hmac.new D d0 pwd = some mac ∧
      (pbkdf2 (hmacMac D) mac salt c dkLen).map (·.2) = Spec.Kdf.pbkdf2Hmac H B L pwd salt c dkLen ∧
      ((pbkdf2 (hmacMac D) mac salt c dkLen).isNone ↔ (c = 0 ∨ (2 ^ 32 - 1) * L < dkLen))

theorem pbkdf2_hmac_obj {δ : Type} (D : DigestModel δ) (new : Option δ) (H : Fn) (B L bits : Nat)
    (RelD : δ → Fn → Bytes → Prop) (FinD : δ → Fn → Prop)
    (hD : Contract (digestFam D) L [L, bits, B] (fun _ => none) (fun _ _ => True) RelD FinD) (hLB : L ≤ B) (hL : 0 < L)
    (hnew : ∃ d0, new = some d0 ∧ RelD d0 H []) : Pbkdf2HmacCorrectObj D new H B L := by
  obtain ⟨d0, e0, h0⟩ := hnew
  refine ⟨d0, e0, fun pwd salt c dkLen => ?_⟩
  obtain ⟨mac, e, hr⟩ := hmac_new D H B pwd RelD FinD hD hLB d0 h0 (Or.inr trivial)
  have hv : (pbkdf2 (hmacMac D) mac salt c dkLen).map (·.2) = Spec.Kdf.pbkdf2Hmac H B L pwd salt c dkLen :=
    Cx.Props.C10.pbkdf2_generic (hmacMac D) L [L] (fun _ => none) _ _ _ (hmac_contract D H B pwd RelD FinD hD) hL
      (Spec.Hmac.hmac H B) pwd salt (fun _ => ⟨trivial, trivial⟩) (fun _ _ => ⟨trivial, trivial⟩) mac hr c dkLen
  refine ⟨mac, e, hv, ?_⟩
  rw [← Cx.Props.C10.pbkdf2_limit (Spec.Hmac.hmac H B) L pwd salt c dkLen]
  show _ ↔ Spec.Kdf.pbkdf2Hmac H B L pwd salt c dkLen = none
  rw [← hv]
  cases pbkdf2 (hmacMac D) mac salt c dkLen <;> simp

/-- **PBKDF2-HMAC-BLAKE2b-nn = RFC 8018 §5.2** (hLen = nn), every 1 ≤ nn ≤ 64, password, salt, c, dkLen -/
theorem pbkdf2_hmac_blake2b (nn : Nat) (h : 1 ≤ nn ∧ nn ≤ 64) :
    Pbkdf2HmacCorrectObj (blake2bDigest codeVariant) (Blake2.new Impl.Blake2.b nn) (Spec.Blake2.blake2b nn []) 128 nn := by
  obtain ⟨o, e, _, hr⟩ := blake2b_new_rel nn h
  exact pbkdf2_hmac_obj _ _ _ 128 nn (nn * 8) _ _ (blake2b_digest_contract nn h) (by omega) h.1 ⟨o, e, hr⟩

/-- **PBKDF2-HMAC-BLAKE2s-nn = RFC 8018 §5.2** (hLen = nn), every 1 ≤ nn ≤ 32 -/
theorem pbkdf2_hmac_blake2s (nn : Nat) (h : 1 ≤ nn ∧ nn ≤ 32) :
    Pbkdf2HmacCorrectObj (blake2sDigest codeVariant) (Blake2.new Impl.Blake2.s nn) (Spec.Blake2.blake2s nn []) 64 nn := by
  obtain ⟨o, e, _, hr⟩ := blake2s_new_rel nn h
  exact pbkdf2_hmac_obj _ _ _ 64 nn (nn * 8) _ _ (blake2s_digest_contract nn h) (by omega) h.1 ⟨o, e, hr⟩

/-- instances (BLAKE2b-512, BLAKE2s-256, and a short output) -/
example := hkdf_blake2b 64 (by decide)
example := hkdf_blake2s 32 (by decide)
example := pbkdf2_hmac_blake2b 20 (by decide)
example := pbkdf2_hmac_blake2s 20 (by decide)

/-! ## 4. `ResultLen` and the source-level capstone -/

section src
open Cx.Extracted.GlueMac Cx.Proofs.GlueMac Cx.Proofs.Blake2

/-- **`ResultLen` of the BLAKE2 `Digest` dictionaries** (either code variant, b or s), on the data-structure invariant
    `outlen ≤ MAX_OUTLEN`: a `&mut [u8]` handed to `Digest::result` keeps its length -/
theorem blake2_resultLen {W : Type} [Spec.Blake2.Word W] (v : CodeVariant) (P : Spec.Blake2.Params W) (g : Good P)
    (bb : Nat) : ResultLenOn (blake2Digest v P bb) (fun d => d.ctx.outlen ≤ P.maxOut) :=
  blake2_resultLenOn v P g bb

theorem blake2b_resultLen : ResultLenOn (blake2bDigest codeVariant) (fun d => d.ctx.outlen ≤ 64) := by
  have := blake2_resultLenOn codeVariant Spec.Blake2.b good_b 128
  simpa only [blake2bDigest, impl_b_eq_spec_b, b_block, b_maxOut] using this

theorem blake2s_resultLen : ResultLenOn (blake2sDigest codeVariant) (fun d => d.ctx.outlen ≤ 32) := by
  have := blake2_resultLenOn codeVariant Spec.Blake2.s good_s 64
  simpa only [blake2sDigest, impl_s_eq_spec_s, s_block, s_maxOut] using this

/-- the invariant is established by the constructor and preserved by every `Digest` method -/
theorem blake2_outlen_invariant {W : Type} [Spec.Blake2.Word W] (v : CodeVariant) (P : Spec.Blake2.Params W) (bb : Nat) :
    (∀ nn o, Blake2.new P nn = some o → o.ctx.outlen ≤ P.maxOut) ∧
    (∀ s s' b, (blake2Digest v P bb).input s b = some s' → s'.ctx.outlen = s.ctx.outlen) ∧
    (∀ s s' n out, (blake2Digest v P bb).result s n = some (s', out) → s'.ctx.outlen = s.ctx.outlen) ∧
    (∀ s s', (blake2Digest v P bb).reset s = some s' → s'.ctx.outlen = s.ctx.outlen) :=
  ⟨outlen_new P, outlen_update P, outlen_finalize P, outlen_reset v P⟩

/-- the hypothesis of `blake2b_resultLen` is met by every constructed object, e.g. `Blake2b::new(20)` -/
example : ∃ o, Blake2.new Impl.Blake2.b 20 = some o ∧ o.ctx.outlen ≤ 64 := by
  obtain ⟨o, e, _, hr⟩ := blake2b_new_rel 20 (by decide)
  exact ⟨o, e, by rw [hr.2.2.1]; decide⟩

/-- WITHOUT the invariant `ResultLen` fails: a junk object with `outlen` = 65 / 33 (which no constructor builds — both
    assert `outlen ≤ MAX_OUTLEN`) answers a 65 / 33-byte buffer with 64 / 32 bytes.  This is why
    `Props.C05.GlueTieMac.hmac_src_rfc2104` cannot be instantiated through its `ResultLen D` hypothesis. -/
theorem blake2_resultLen_unrestricted_false :
    ¬ ResultLen (blake2bDigest codeVariant) ∧ ¬ ResultLen (blake2sDigest codeVariant) :=
  ⟨resultLen_junk _ _ _, resultLen_junk _ _ _⟩

/-- **the source-level capstone from the digest-object contract alone** (no `ResultLen` hypothesis): generic in the
    digest dictionary; the GENERATED `Hmac::new_src`, `input_src` per chunk, `result_src` return RFC 2104 -/
theorem hmac_src_rfc2104_contract {δ : Type} (D : DigestModel δ) (H : Fn) (B : Nat) (key : Bytes)
    (RelD : δ → Fn → Bytes → Prop) (FinD : δ → Fn → Prop) {L bits : Nat} {okD : Fn → Bytes → Prop}
    (hD : Contract (digestFam D) L [L, bits, B] (fun _ => none) okD RelD FinD) (hLB : L ≤ B)
    (d0 : δ) (h0 : RelD d0 H []) (chunks : List Bytes) (hk : key.length ≤ B ∨ okD H key)
    (hok : okH H B key okD (Spec.Hmac.hmac H B key) chunks.flatten) :
    ∃ h h' h'', Hmac.new_src D d0 key = some h ∧ chunks.foldlM (Hmac.input_src D) h = some h' ∧
      Hmac.result_src D h' = some (h'', ⟨Spec.Hmac.hmac H B key chunks.flatten⟩) :=
  hmac_src_rfc2104_of_contract D H B key RelD FinD hD hLB d0 h0 chunks hk hok

/-- **`hmac_src_rfc2104` for BLAKE2b**: through the generated functions of src/hmac.rs over `impl Digest for Blake2b`,
    `Hmac::new(Blake2b::new(nn), key)`; one `input` per chunk; `result()` = RFC 2104 HMAC-BLAKE2b-nn (B = 128), for every
    1 ≤ nn ≤ 64, key and chunking -/
theorem hmac_src_rfc2104_blake2b (nn : Nat) (h : 1 ≤ nn ∧ nn ≤ 64) (key : Bytes) (chunks : List Bytes) :
    ∃ d0 m m' m'', Blake2.new Impl.Blake2.b nn = some d0 ∧
      Hmac.new_src (blake2bDigest codeVariant) d0 key = some m ∧
      chunks.foldlM (Hmac.input_src (blake2bDigest codeVariant)) m = some m' ∧
      Hmac.result_src (blake2bDigest codeVariant) m' =
        some (m'', ⟨Spec.Hmac.hmac (Spec.Blake2.blake2b nn []) 128 key chunks.flatten⟩) := by
  obtain ⟨o, e, _, hr⟩ := blake2b_new_rel nn h
  obtain ⟨m, m', m'', e1, e2, e3⟩ := hmac_src_rfc2104_of_contract (blake2bDigest codeVariant) (Spec.Blake2.blake2b nn [])
    128 key _ _ (blake2b_digest_contract nn h) (by omega) o hr chunks (Or.inr trivial) ⟨trivial, trivial⟩
  exact ⟨o, m, m', m'', e, e1, e2, e3⟩

/-- **`hmac_src_rfc2104` for BLAKE2s** (B = 64), every 1 ≤ nn ≤ 32 -/
theorem hmac_src_rfc2104_blake2s (nn : Nat) (h : 1 ≤ nn ∧ nn ≤ 32) (key : Bytes) (chunks : List Bytes) :
    ∃ d0 m m' m'', Blake2.new Impl.Blake2.s nn = some d0 ∧
      Hmac.new_src (blake2sDigest codeVariant) d0 key = some m ∧
      chunks.foldlM (Hmac.input_src (blake2sDigest codeVariant)) m = some m' ∧
      Hmac.result_src (blake2sDigest codeVariant) m' =
        some (m'', ⟨Spec.Hmac.hmac (Spec.Blake2.blake2s nn []) 64 key chunks.flatten⟩) := by
  obtain ⟨o, e, _, hr⟩ := blake2s_new_rel nn h
  obtain ⟨m, m', m'', e1, e2, e3⟩ := hmac_src_rfc2104_of_contract (blake2sDigest codeVariant) (Spec.Blake2.blake2s nn [])
    64 key _ _ (blake2s_digest_contract nn h) (by omega) o hr chunks (Or.inr trivial) ⟨trivial, trivial⟩
  exact ⟨o, m, m', m'', e, e1, e2, e3⟩

example := hmac_src_rfc2104_blake2b 20 (by decide) (List.replicate 200 0xaa) [[1, 2], [], [3]]

end src

end Cx.Props.C08
