/-
  Props.C01.KernelTieBlake2 — the translator tie for the portable BLAKE2b / BLAKE2s compression functions.
  `Extracted/KernelsBlake2.lean` is regenerated from /repo/src/hashing/blake2/reference.rs (macros `compressbody!`,
  `round!`, `G!`), /repo/src/hashing/blake2/mod.rs (`EngineB/EngineS::compress`, cfg dispatch evaluated for the build without AVX) and /repo/src/hashing/blake2/common.rs (`b::IV, R1..R4, ROUNDS`, `s::…`, `SIGMA`) on every run by
  tools/ktx_words.py: the macros are expanded as rustc does, `$conmod::…` constants and `SIGMA[r][2i+j]` indices are
  resolved from the source, `if $conmod::ROUNDS == 12` is decided, the run-time test `last == LastBlock::Yes` becomes an
  `if` on a `Bool`; every assignment of `G!` is one `let` on `UInt64` / `UInt32`.
  The compression core `Spec.Blake2.compressCore` (with `G`, `round`) is SHARED between Spec and Impl, so until now
  nothing but sampling tied it to the code.  The theorems below, re-checked by the kernel on every build, say that
  this shared core, as instantiated by `Impl.Blake2.reference_compress` (tables extracted from the source), computes
  exactly what `compress_b` / `compress_s` say now — for ALL chaining values, counters, blocks and both flag values.
  (`read_uNNv_le`, `rotate_right`, `wrapping_add` are primitives: `Spec.Blake2.loadWords`, `rotr64`/`rotr32`, `+`.)
-/
import CxVerif.Extracted.KernelsBlake2
import CxVerif.Impl.Blake2
import CxVerif.Proofs.KernelTieWords
import CxVerif.Proofs.KeccakTactic
namespace Cx.Props.C01.KernelTieBlake2
-- a small heartbeat budget makes a FAILING check (elaborator `rfl` or kernel) stop after seconds; a passing one needs < 1000
set_option maxHeartbeats 20000
open Cx Cx.Impl.Blake2 Cx.Extracted.KernelsBlake2 Cx.Proofs.Keccak Cx.Proofs.KernelTieWords
open Cx.Spec.Blake2 (loadWords)

/-- the `i`-th little-endian word of the block: what `read_u64v_le(&mut ms, buf)` / `read_u32v_le` puts into `ms[i]` -/
abbrev mb (buf : Bytes) (i : Fin 16) : UInt64 := (loadWords buf : Vector UInt64 16)[i]
abbrev ms (buf : Bytes) (i : Fin 16) : UInt32 := (loadWords buf : Vector UInt32 16)[i]

set_option maxRecDepth 1000000 in
/-- `compress_b` as written in the source = the shared core instantiated with the BLAKE2b parameters -/
theorem compress_b_src_eq_shared_core_words (h0 h1 h2 h3 h4 h5 h6 h7 : UInt64) (t0 t1 : Nat) (buf : Bytes) (last : LastBlock) :
    reference_compress b #v[h0, h1, h2, h3, h4, h5, h6, h7] t0 t1 buf last =
      compress_b_src h0 h1 h2 h3 h4 h5 h6 h7 (UInt64.ofNat t0) (UInt64.ofNat t1)
        (mb buf 0) (mb buf 1) (mb buf 2) (mb buf 3) (mb buf 4) (mb buf 5) (mb buf 6) (mb buf 7)
        (mb buf 8) (mb buf 9) (mb buf 10) (mb buf 11) (mb buf 12) (mb buf 13) (mb buf 14) (mb buf 15)
        (decide (last = LastBlock.Yes)) := by
  kernel_rfl

set_option maxRecDepth 1000000 in
/-- `compress_s` as written in the source = the shared core instantiated with the BLAKE2s parameters -/
theorem compress_s_src_eq_shared_core_words (h0 h1 h2 h3 h4 h5 h6 h7 : UInt32) (t0 t1 : Nat) (buf : Bytes) (last : LastBlock) :
    reference_compress s #v[h0, h1, h2, h3, h4, h5, h6, h7] t0 t1 buf last =
      compress_s_src h0 h1 h2 h3 h4 h5 h6 h7 (UInt32.ofNat t0) (UInt32.ofNat t1)
        (ms buf 0) (ms buf 1) (ms buf 2) (ms buf 3) (ms buf 4) (ms buf 5) (ms buf 6) (ms buf 7)
        (ms buf 8) (ms buf 9) (ms buf 10) (ms buf 11) (ms buf 12) (ms buf 13) (ms buf 14) (ms buf 15)
        (decide (last = LastBlock.Yes)) := by
  kernel_rfl

/-- **the tie (BLAKE2b)**: `Impl.Blake2.reference_compress b` — i.e. the shared `compressCore` with the extracted
    BLAKE2b tables — IS the translated source, for every chaining value, counter words, block and flag -/
theorem compress_b_src_eq_shared_core (h : Vector UInt64 8) (t0 t1 : Nat) (buf : Bytes) (last : LastBlock) :
    reference_compress b h t0 t1 buf last =
      compress_b_src h[0] h[1] h[2] h[3] h[4] h[5] h[6] h[7] (UInt64.ofNat t0) (UInt64.ofNat t1)
        (mb buf 0) (mb buf 1) (mb buf 2) (mb buf 3) (mb buf 4) (mb buf 5) (mb buf 6) (mb buf 7)
        (mb buf 8) (mb buf 9) (mb buf 10) (mb buf 11) (mb buf 12) (mb buf 13) (mb buf 14) (mb buf 15)
        (decide (last = LastBlock.Yes)) := by
  obtain ⟨h0, h1, h2, h3, h4, h5, h6, h7, rfl⟩ := vec8 h
  exact compress_b_src_eq_shared_core_words h0 h1 h2 h3 h4 h5 h6 h7 t0 t1 buf last

/-- **the tie (BLAKE2s)** -/
theorem compress_s_src_eq_shared_core (h : Vector UInt32 8) (t0 t1 : Nat) (buf : Bytes) (last : LastBlock) :
    reference_compress s h t0 t1 buf last =
      compress_s_src h[0] h[1] h[2] h[3] h[4] h[5] h[6] h[7] (UInt32.ofNat t0) (UInt32.ofNat t1)
        (ms buf 0) (ms buf 1) (ms buf 2) (ms buf 3) (ms buf 4) (ms buf 5) (ms buf 6) (ms buf 7)
        (ms buf 8) (ms buf 9) (ms buf 10) (ms buf 11) (ms buf 12) (ms buf 13) (ms buf 14) (ms buf 15)
        (decide (last = LastBlock.Yes)) := by
  obtain ⟨h0, h1, h2, h3, h4, h5, h6, h7, rfl⟩ := vec8 h
  exact compress_s_src_eq_shared_core_words h0 h1 h2 h3 h4 h5 h6 h7 t0 t1 buf last

/-! ### the engines' `compress` (blake2/mod.rs), build without AVX: dispatch + `reference::compress_*` inlined -/

set_option maxRecDepth 1000000 in
theorem EngineB_compress_src_eq_model_words (h0 h1 h2 h3 h4 h5 h6 h7 : UInt64) (t0 t1 : Nat) (buf : Bytes) (last : LastBlock) :
    (let e := Engine.compress b ⟨#v[h0, h1, h2, h3, h4, h5, h6, h7], t0, t1⟩ buf last
     (e.h, UInt64.ofNat e.t0, UInt64.ofNat e.t1)) =
      EngineB_compress_src h0 h1 h2 h3 h4 h5 h6 h7 (UInt64.ofNat t0) (UInt64.ofNat t1)
        (mb buf 0) (mb buf 1) (mb buf 2) (mb buf 3) (mb buf 4) (mb buf 5) (mb buf 6) (mb buf 7)
        (mb buf 8) (mb buf 9) (mb buf 10) (mb buf 11) (mb buf 12) (mb buf 13) (mb buf 14) (mb buf 15)
        (decide (last = LastBlock.Yes)) := by
  kernel_rfl

set_option maxRecDepth 1000000 in
theorem EngineS_compress_src_eq_model_words (h0 h1 h2 h3 h4 h5 h6 h7 : UInt32) (t0 t1 : Nat) (buf : Bytes) (last : LastBlock) :
    (let e := Engine.compress s ⟨#v[h0, h1, h2, h3, h4, h5, h6, h7], t0, t1⟩ buf last
     (e.h, UInt32.ofNat e.t0, UInt32.ofNat e.t1)) =
      EngineS_compress_src h0 h1 h2 h3 h4 h5 h6 h7 (UInt32.ofNat t0) (UInt32.ofNat t1)
        (ms buf 0) (ms buf 1) (ms buf 2) (ms buf 3) (ms buf 4) (ms buf 5) (ms buf 6) (ms buf 7)
        (ms buf 8) (ms buf 9) (ms buf 10) (ms buf 11) (ms buf 12) (ms buf 13) (ms buf 14) (ms buf 15)
        (decide (last = LastBlock.Yes)) := by
  kernel_rfl

/-- **the tie (EngineB::compress)**: new `h` and unchanged counter words, for every engine state, block and flag -/
theorem EngineB_compress_src_eq_model (e : Engine UInt64) (buf : Bytes) (last : LastBlock) :
    ((Engine.compress b e buf last).h, UInt64.ofNat (Engine.compress b e buf last).t0,
      UInt64.ofNat (Engine.compress b e buf last).t1) =
      EngineB_compress_src e.h[0] e.h[1] e.h[2] e.h[3] e.h[4] e.h[5] e.h[6] e.h[7] (UInt64.ofNat e.t0) (UInt64.ofNat e.t1)
        (mb buf 0) (mb buf 1) (mb buf 2) (mb buf 3) (mb buf 4) (mb buf 5) (mb buf 6) (mb buf 7)
        (mb buf 8) (mb buf 9) (mb buf 10) (mb buf 11) (mb buf 12) (mb buf 13) (mb buf 14) (mb buf 15)
        (decide (last = LastBlock.Yes)) := by
  obtain ⟨h, t0, t1⟩ := e
  obtain ⟨h0, h1, h2, h3, h4, h5, h6, h7, rfl⟩ := vec8 h
  exact EngineB_compress_src_eq_model_words h0 h1 h2 h3 h4 h5 h6 h7 t0 t1 buf last

/-- **the tie (EngineS::compress)** -/
theorem EngineS_compress_src_eq_model (e : Engine UInt32) (buf : Bytes) (last : LastBlock) :
    ((Engine.compress s e buf last).h, UInt32.ofNat (Engine.compress s e buf last).t0,
      UInt32.ofNat (Engine.compress s e buf last).t1) =
      EngineS_compress_src e.h[0] e.h[1] e.h[2] e.h[3] e.h[4] e.h[5] e.h[6] e.h[7] (UInt32.ofNat e.t0) (UInt32.ofNat e.t1)
        (ms buf 0) (ms buf 1) (ms buf 2) (ms buf 3) (ms buf 4) (ms buf 5) (ms buf 6) (ms buf 7)
        (ms buf 8) (ms buf 9) (ms buf 10) (ms buf 11) (ms buf 12) (ms buf 13) (ms buf 14) (ms buf 15)
        (decide (last = LastBlock.Yes)) := by
  obtain ⟨h, t0, t1⟩ := e
  obtain ⟨h0, h1, h2, h3, h4, h5, h6, h7, rfl⟩ := vec8 h
  exact EngineS_compress_src_eq_model_words h0 h1 h2 h3 h4 h5 h6 h7 t0 t1 buf last

end Cx.Props.C01.KernelTieBlake2
