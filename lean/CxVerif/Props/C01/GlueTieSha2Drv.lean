/-
  Props.C01.GlueTieSha2Drv — the translator tie for the SHA-2 MULTI-BLOCK DRIVERS and the cfg DISPATCHERS (audit 3, finding F1: until now
  these were hand models that no translator reached).

  `Extracted/GlueSha2Drv.lean` is regenerated on every run by tools/ktx_glue.py (kernel specs tools/kernels/sha2_drivers.py) from the
  CURRENT text of
    src/hashing/sha2/impl256/reference.rs  `digest_block`: `let mut i = 0; while i < block.len() { digest_block_u32(state, &block[i..i + 64]); i += 64; }`
    src/hashing/sha2/impl512/reference.rs  `digest_block`: `let mut block2 = [0u64; 16]; while !block.is_empty() { read_u64v_be(&mut block2[..],
                                            &block[0..128]); digest_block_u64(state, &block2); block = &block[128..]; }`  — SHA-512's only
                                            byte-to-word load and the advance of the slice
    src/hashing/sha2/impl256/mod.rs        `digest_block` (cfg dispatch) with its `#[cfg]` attributes evaluated for x86_64 WITHOUT sse4.1 / avx
    src/hashing/sha2/impl512/mod.rs        `digest_block` (cfg dispatch) under the four cfg sets {baseline, +sse4.1, +avx, +avx2}
    src/cryptoutil.rs                      `read_u64v_be` / `read_u64v_le` (the `read_array_type!` expansions the SHA-512 driver calls).
  The callees `digest_block_u32` / `digest_block_u64` are the compression functions tied by Props/C01/KernelTieSha256 / KernelTieSha512.
  `Extracted/GlueMd.lean` (`eng256::Engine::blocks`, `eng512::Engine::blocks`) and `Extracted/GlueSimd.lean` (the scalar tail of
  `sse41::digest_block`) now CALL these generated definitions (no hand model is substituted any more); their ties
  (Props/C01/GlueTieMd.lean, Props/C16/GlueTieSimdSha.lean) go through the theorems below.
  The cfg sets with SIMD and the BLAKE2 engine dispatch: Props/C16/GlueTieSha2Disp.lean.

  Every theorem holds for ALL chaining values and ALL byte strings of every length — in particular the panic (`none`) for a length that is
  not a multiple of the block size — and the `*_any_fuel` theorems show that the loop fuel the translator passes (`block.len()`) is never
  the reason for a `none`: every fuel `≥ ⌈len / block⌉` gives the same answer.

  Axioms: propext, Classical.choice, Quot.sound.
-/
import CxVerif.Proofs.GlueSha2Drv
import CxVerif.Proofs.SimdSha256Batch
import CxVerif.Proofs.GlueSha2DrvSpec
namespace Cx.Props.C01.GlueTieSha2Drv
open Cx Cx.Impl Cx.Impl.Sha2 Cx.Spec.Sha2 Cx.Proofs.GlueSha2Drv
open Cx.Extracted.GlueSha2Drv

/-! ### src/cryptoutil.rs: the readers the SHA-512 driver uses -/

/-- `read_u64v_be(dst, input)`: `assert!(dst.len() * 8 == input.len())`, then the cursor loop = the big-endian words -/
theorem read_u64v_be_src_eq_model (dst : List UInt64) (input : Bytes) :
    read_u64v_be_src dst input = read_u64v_be dst.length input :=
  Cx.Proofs.GlueSha2Drv.read_u64v_be_src_eq_model dst input

/-- `read_u64v_le` (translated so that exchanging the two readers in the driver changes a DEFINITION, not just a name): the little-endian words -/
theorem read_u64v_le_src_eq (dst : List UInt64) (input : Bytes) :
    read_u64v_le_src dst input = if dst.length * 8 ≠ input.length then none else some (wordsLE64 input) :=
  Cx.Proofs.GlueSha2Drv.read_u64v_le_src_eq dst input

/-- the two readers differ (so the tie of the SHA-512 driver pins the byte order) -/
example : read_u64v_be_src [0] [1, 0, 0, 0, 0, 0, 0, 0] ≠ read_u64v_le_src [0] [1, 0, 0, 0, 0, 0, 0, 0] := by decide

/-! ### impl256/reference.rs `digest_block` -/

/-- **the tie (SHA-256 driver)**: the translated `while` loop IS the hand model `Impl256.digest_block`, every state, every byte string -/
theorem reference_digest_block256_src_eq_model (state : W8 UInt32) (block : Bytes) :
    Impl256.reference_digest_block_src state block = Impl.Sha2.Impl256.digest_block state block :=
  reference256_eq_model state block

/-- **fuel is never the reason**: with ANY fuel of at least one unit per 64 bytes the generated loop returns the model's answer (the translator
    passes `block.len()`) -/
theorem reference_digest_block256_any_fuel (state : W8 UInt32) (block : Bytes) (fuel : Nat) (hf : block.length ≤ 64 * fuel) :
    (Impl256.reference_digest_block_src_loop1 block fuel state 0).map Prod.fst = Impl.Sha2.Impl256.digest_block state block :=
  loop256_any_fuel state block fuel hf

example : (List.replicate 130 (7 : UInt8)).length ≤ 64 * 3 := by rw [List.length_replicate]; decide

/-- whole blocks: the generated driver is the fold of the one-block compression over the 64-byte blocks -/
theorem reference_digest_block256_src_eq_fold (state : W8 UInt32) (block : Bytes) (h : block.length % 64 = 0) :
    Impl256.reference_digest_block_src state block = some ((fullBlocks 64 block).foldl compress256 state) := by
  rw [reference256_eq_model]; exact Cx.Proofs.SimdSha256.reference_digest_block_eq state block h

/-- a length that is not a multiple of 64: `&block[i..i + 64]` panics on the last, short block -/
theorem reference_digest_block256_src_ragged (state : W8 UInt32) (block : Bytes) (h : block.length % 64 ≠ 0) :
    Impl256.reference_digest_block_src state block = none := by
  rw [reference256_eq_model]; exact Cx.Proofs.SimdSha256.reference_digest_block_none state block h

example : (List.replicate 128 (7 : UInt8)).length % 64 = 0 ∧ (List.replicate 100 (7 : UInt8)).length % 64 ≠ 0 := by
  rw [List.length_replicate, List.length_replicate]; decide

/-! ### impl512/reference.rs `digest_block` -/

/-- **the tie (SHA-512 driver)**: `read_u64v_be` on `&block[0..128]` into the sixteen-word scratch array, the compression, `&block[128..]` —
    IS the hand model `Impl512.digest_block`, every state, every byte string -/
theorem reference_digest_block512_src_eq_model (state : W8 UInt64) (block : Bytes) :
    Impl512.reference_digest_block_src state block = Impl.Sha2.Impl512.digest_block state block :=
  reference512_eq_model state block

/-- **fuel is never the reason** (any fuel of at least one unit per 128 bytes; any sixteen-word scratch array) -/
theorem reference_digest_block512_any_fuel (state : W8 UInt64) (block : Bytes) (fuel : Nat) (hf : block.length ≤ 128 * fuel)
    (block2 : List UInt64) (h2 : block2.length = 16) :
    (Impl512.reference_digest_block_src_loop1 fuel block2 state block).map (fun r => r.2.1)
      = Impl.Sha2.Impl512.digest_block state block :=
  loop512_any_fuel state block fuel hf block2 h2

example : (List.replicate 300 (7 : UInt8)).length ≤ 128 * 3 ∧ (Glue.fill 16 (0 : UInt64)).length = 16 := by
  refine ⟨by rw [List.length_replicate]; decide, by simp [Glue.fill]⟩

/-- whole blocks: the fold of the one-block compression over the 128-byte blocks -/
theorem reference_digest_block512_src_eq_fold (state : W8 UInt64) (block : Bytes) (h : block.length % 128 = 0) :
    Impl512.reference_digest_block_src state block = some ((fullBlocks 128 block).foldl compress512 state) := by
  rw [reference512_eq_model]
  unfold Impl.Sha2.Impl512.digest_block
  exact Cx.Proofs.Sha2Engine.digest_block_loop512_spec Cx.Proofs.Sha2Engine.compress512_ok (block.length / 128) _ state block
    (by omega) (by omega)

/-- a length that is not a multiple of 128: `&block[0..128]` panics on the last, short block -/
theorem reference_digest_block512_src_ragged (state : W8 UInt64) (block : Bytes) (h : block.length % 128 ≠ 0) :
    Impl512.reference_digest_block_src state block = none := by
  rw [reference512_eq_model]
  unfold Impl.Sha2.Impl512.digest_block
  exact loop512_ragged (block.length / 128) _ state block (block.length % 128) (by omega) (by omega) (Nat.mod_lt _ (by decide)) (by omega)

/-! ### the cfg dispatchers that reach only the reference drivers -/

/-- `impl256::digest_block` with the `#[cfg]`s evaluated for x86_64 without sse4.1 / avx (both `if HAS_…` blocks and the aarch64 block are
    compiled out; `HAS_AVX = HAS_SSE41 = false`): the reference driver -/
theorem digest_block256_baseline_src_eq_model (state : W8 UInt32) (block : Bytes) :
    Impl256.digest_block_baseline_src state block = Impl.Sha2.Impl256.digest_block state block :=
  dispatch256_baseline_eq_model state block

/-- `impl512::digest_block`: the two cfg blocks are empty, so every cfg set gives the reference driver -/
theorem digest_block512_src_eq_model (state : W8 UInt64) (block : Bytes) :
    Impl512.digest_block_baseline_src state block = Impl.Sha2.Impl512.digest_block state block ∧
    Impl512.digest_block_sse41_src state block = Impl.Sha2.Impl512.digest_block state block ∧
    Impl512.digest_block_avx_src state block = Impl.Sha2.Impl512.digest_block state block ∧
    Impl512.digest_block_avx2_src state block = Impl.Sha2.Impl512.digest_block state block :=
  ⟨reference512_eq_model state block, reference512_eq_model state block, reference512_eq_model state block,
   reference512_eq_model state block⟩

/-! ### closing the chain: the hand models ARE the generated definitions (for readers that start from the model side) -/

theorem model_digest_block256_eq_generated (state : W8 UInt32) (block : Bytes) :
    Impl.Sha2.Impl256.digest_block state block = Impl256.digest_block_baseline_src state block :=
  (dispatch256_baseline_eq_model state block).symm

theorem model_digest_block512_eq_generated (state : W8 UInt64) (block : Bytes) :
    Impl.Sha2.Impl512.digest_block state block = Impl512.digest_block_baseline_src state block :=
  (dispatch512_baseline_eq_model state block).symm

end Cx.Props.C01.GlueTieSha2Drv
