/-
  Props.C01.KernelTieKeccak — the translator tie for `keccak_f` (SHA-3 / Keccak permutation, compact64 organisation).
  `Extracted/KernelsKeccak.lean` is regenerated from /repo/src/hashing/sha3.rs on every run by tools/ktx_words.py:
  the loops `for round in 0..NROUNDS`, `for x in 0..5`, `for y in 0..5`, `for x in 0..24` are unrolled, the index tables
  `M5`, `PIL`, the rotation offsets `ROTC` and the round constants `RC` are read from the source, every lane update is
  one `let` on `UInt64` (2040 of them).  The theorems, re-checked by the kernel on every build, say that the hand-written
  loop-shaped model `Impl.Sha3.keccak_f_lanes` (`theta`/`rho_pi`/`chi`/`iota` as `foldlM`s in the `Option` monad over an
  `Array UInt64`, about which `Proofs/KeccakF` proves equality with FIPS 202 and on which all SHA-3/Keccak variants,
  their HMACs and the sponge theorems rest) computes exactly what the source says now, for ALL 25-lane states — and in
  particular never hits an index panic.  A changed loop bound, index expression, table entry, rotation, operand or
  operator in `keccak_f` breaks a proof obligation even when no sampled input reaches it.
  (`read_u64v_le`, `write_u64v_le`, `u64::rotate_left` are primitives: the model's `read_u64v_le`/`write_u64v_le`, `rotl64`.)
-/
import CxVerif.Extracted.KernelsKeccak
import CxVerif.Impl.Sha3
import CxVerif.Proofs.KernelTieWords
import CxVerif.Proofs.KeccakTactic
namespace Cx.Props.C01.KernelTieKeccak
-- a small heartbeat budget makes a FAILING check (elaborator `rfl` or kernel) stop after seconds; a passing one needs < 1000
set_option maxHeartbeats 20000
open Cx Cx.Impl.Sha3 Cx.Extracted.KernelsKeccak Cx.Proofs.Keccak Cx.Proofs.KernelTieWords

set_option maxRecDepth 1000000 in
/-- the 24 rounds of `keccak_f` as written in the source = the model's `keccak_f_lanes`, on every 25 lanes -/
theorem keccak_f_src_eq_model_lanes
    (a0 a1 a2 a3 a4 a5 a6 a7 a8 a9 a10 a11 a12 a13 a14 a15 a16 a17 a18 a19 a20 a21 a22 a23 a24 : UInt64) :
    keccak_f_lanes #[a0, a1, a2, a3, a4, a5, a6, a7, a8, a9, a10, a11, a12, a13, a14, a15, a16, a17, a18, a19, a20, a21, a22, a23, a24]
      = some (keccak_f_src a0 a1 a2 a3 a4 a5 a6 a7 a8 a9 a10 a11 a12 a13 a14 a15 a16 a17 a18 a19 a20 a21 a22 a23 a24) := by
  kernel_rfl

theorem read_u64v_le_size {n : Nat} {input : Bytes} {s : Array UInt64} (h : read_u64v_le n input = some s) : s.size = n := by
  unfold read_u64v_le at h
  split at h
  · cases h; simp
  · cases h

/-- lanes, then `write_u64v_le` -/
theorem keccak_f_lanes_then_store (n : Nat) (s : Array UInt64) (hs : s.size = 25) :
    (keccak_f_lanes s).bind (write_u64v_le n) =
        match s.toList with
        | [a0, a1, a2, a3, a4, a5, a6, a7, a8, a9, a10, a11, a12, a13, a14, a15, a16, a17, a18, a19, a20, a21, a22, a23, a24] =>
          write_u64v_le n
            (keccak_f_src a0 a1 a2 a3 a4 a5 a6 a7 a8 a9 a10 a11 a12 a13 a14 a15 a16 a17 a18 a19 a20 a21 a22 a23 a24)
        | _ => none := by
  obtain ⟨a0, a1, a2, a3, a4, a5, a6, a7, a8, a9, a10, a11, a12, a13, a14, a15, a16, a17, a18, a19, a20, a21, a22, a23, a24, rfl⟩ :=
      array25 s hs
  rw [keccak_f_src_eq_model_lanes, Option.bind_some]

/-- **the tie**: the model function `Impl.Sha3.keccak_f` IS: load 25 lanes (`read_u64v_le`), the translated source,
    store (`write_u64v_le`) — for every byte string (`none` = the `assert!` of `read_u64v_le`, i.e. `state.len() ≠ 200`) -/
theorem keccak_f_src_eq_model (state : Bytes) :
    keccak_f state =
      match read_u64v_le 25 state with
      | none => none
      | some s =>
        match s.toList with
        | [a0, a1, a2, a3, a4, a5, a6, a7, a8, a9, a10, a11, a12, a13, a14, a15, a16, a17, a18, a19, a20, a21, a22, a23, a24] =>
          write_u64v_le state.length
            (keccak_f_src a0 a1 a2 a3 a4 a5 a6 a7 a8 a9 a10 a11 a12 a13 a14 a15 a16 a17 a18 a19 a20 a21 a22 a23 a24)
        | _ => none := by
  unfold keccak_f
  cases h : read_u64v_le 25 state with
  | none => rfl
  | some s => exact keccak_f_lanes_then_store _ s (read_u64v_le_size h)

end Cx.Props.C01.KernelTieKeccak
