/-
  Props.C01.KernelTieSha512 — the translator tie for the portable SHA-512 block function (u64x2 pair lanes).
  `Extracted/KernelsSha512.lean` is regenerated from /repo/src/hashing/sha2/impl512/reference.rs (+ the portable
  `impl Add for u64x2` of /repo/src/simd.rs) on every run by tools/ktx_words.py.  The theorems, re-checked by the
  kernel on every build, say that the hand-written model `Impl.Sha2.Impl512` (about which `Proofs/Sha2Compress512`
  proves equality with FIPS 180-4 and on which SHA-384/512/512-224/512-256, HMAC, HKDF, PBKDF2, Ed25519 rest) is exactly
  what the source says now, for ALL chaining values and ALL sixteen-word blocks.
  (`u64::rotate_left/right`, `wrapping_add` are primitives: `Impl512.rotate_left/right`, `+` on `UInt64`.)
-/
import CxVerif.Extracted.KernelsSha512
import CxVerif.Proofs.KeccakTactic
namespace Cx.Props.C01.KernelTieSha512
-- a small heartbeat budget makes a FAILING check (elaborator `rfl` or kernel) stop after seconds; a passing one needs < 1000
set_option maxHeartbeats 20000
open Cx Cx.Impl Cx.Impl.Sha2 Cx.Spec.Sha2 Cx.Extracted.KernelsSha512 Cx.Proofs.Keccak

theorem sha512load_src_eq_model (v0 v1 : Impl512.u64x2) : sha512load_src v0 v1 = Impl512.sha512load v0 v1 := rfl
theorem schedule_x2_src_eq_model (v0 v1 v4to5 v7 : Impl512.u64x2) :
    schedule_x2_src v0 v1 v4to5 v7 = Impl512.schedule_x2 v0 v1 v4to5 v7 := rfl
theorem digest_round_src_eq_model (ae bf cg dh : Impl512.u64x2) (wk0 : UInt64) :
    digest_round_src ae bf cg dh wk0 = Impl512.digest_round ae bf cg dh wk0 := rfl

/-- `digest_block_u64` as written in the source = the model, on every state and every sixteen words -/
theorem digest_block_u64_src_eq_model_words (state : W8 UInt64)
    (b0 b1 b2 b3 b4 b5 b6 b7 b8 b9 b10 b11 b12 b13 b14 b15 : UInt64) :
    Impl512.digest_block_u64 state [b0, b1, b2, b3, b4, b5, b6, b7, b8, b9, b10, b11, b12, b13, b14, b15]
      = some (digest_block_u64_src state b0 b1 b2 b3 b4 b5 b6 b7 b8 b9 b10 b11 b12 b13 b14 b15) := by
  kernel_rfl

/-- **the tie**: the model function `Impl512.digest_block_u64` IS the translated source, for every state and every
    word list (`none` = not sixteen words, which `&[u64; 16]` excludes in Rust) -/
theorem digest_block_u64_src_eq_model (state : W8 UInt64) (block : List UInt64) :
    Impl512.digest_block_u64 state block =
      match block with
      | [b0, b1, b2, b3, b4, b5, b6, b7, b8, b9, b10, b11, b12, b13, b14, b15] =>
        some (digest_block_u64_src state b0 b1 b2 b3 b4 b5 b6 b7 b8 b9 b10 b11 b12 b13 b14 b15)
      | _ => none := by
  rcases block with _ | ⟨a0, _ | ⟨a1, _ | ⟨a2, _ | ⟨a3, _ | ⟨a4, _ | ⟨a5, _ | ⟨a6, _ | ⟨a7, _ | ⟨a8, _ | ⟨a9, _ | ⟨a10,
    _ | ⟨a11, _ | ⟨a12, _ | ⟨a13, _ | ⟨a14, _ | ⟨a15, _ | ⟨a16, t⟩⟩⟩⟩⟩⟩⟩⟩⟩⟩⟩⟩⟩⟩⟩⟩⟩
  all_goals first
    | exact digest_block_u64_src_eq_model_words state a0 a1 a2 a3 a4 a5 a6 a7 a8 a9 a10 a11 a12 a13 a14 a15
    | rfl

end Cx.Props.C01.KernelTieSha512
