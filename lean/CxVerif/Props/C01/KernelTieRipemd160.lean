/-
  Props.C01.KernelTieRipemd160 — the translator tie for the RIPEMD-160 block function.
  `Extracted/KernelsRipemd160.lean` is regenerated from /repo/src/hashing/ripemd160.rs on every run by
  tools/ktx_words.py: the `process_block!` invocation (160 argument lines matched by the macro's ten `$( … )*`
  groups) and the nested `round!` invocations are expanded as rustc does and executed symbolically — 2×80 steps on
  `bb` / `bbb` and the `Combine results` block, one `let` chain on `UInt32`.
  The hand model `Impl.Ripemd160.process_block` instead INTERPRETS the extracted line tables
  (`Extracted.Sha1Ripemd.RIPEMD_LEFT/RIGHT`) with a hand-written `round`/`fnEval`; the theorems below, re-checked by the
  kernel on every build, say that this interpretation is exactly the macro expansion of the source as it is now, for
  ALL chaining values and ALL blocks: a changed `round!` body, boolean function, constant, shift, index, register
  order or combine line breaks a proof obligation even when no sampled input reaches it.
  (`read_u32v_le`, `u32::rotate_left`, `wrapping_add` are primitives: `wordsLE32`, `rotl32`, `+` on `UInt32`.)
-/
import CxVerif.Extracted.KernelsRipemd160
import CxVerif.Proofs.KernelTieWords
import CxVerif.Proofs.KeccakTactic
namespace Cx.Props.C01.KernelTieRipemd160
-- a small heartbeat budget makes a FAILING check (elaborator `rfl` or kernel) stop after seconds; a passing one needs < 1000
set_option maxHeartbeats 20000
open Cx Cx.Impl Cx.Impl.Ripemd160 Cx.Extracted.KernelsRipemd160 Cx.Proofs.Keccak Cx.Proofs.KernelTieWords
open Cx.Spec.Ripemd160 (Hash)

/-- the expansion of `process_block!(h, w[..], …)` as written in the source = the model's table interpreter, on every
    chaining value and every sixteen words -/
theorem process_msg_block_src_eq_model_words (h0 h1 h2 h3 h4 : UInt32)
    (m0 m1 m2 m3 m4 m5 m6 m7 m8 m9 m10 m11 m12 m13 m14 m15 : UInt32) :
    process_block ⟨h0, h1, h2, h3, h4⟩ [m0, m1, m2, m3, m4, m5, m6, m7, m8, m9, m10, m11, m12, m13, m14, m15]
      = some (process_msg_block_src h0 h1 h2 h3 h4 m0 m1 m2 m3 m4 m5 m6 m7 m8 m9 m10 m11 m12 m13 m14 m15) := by
  kernel_rfl

/-- **the tie**: the model function `Impl.Ripemd160.process_msg_block` IS the translated source applied to the words
    that `read_u32v_le(&mut w[0..16], data)` loads — for every chaining value and every byte string `data`
    (`none` = the `assert!` of `read_u32v_le` fails, i.e. `data.len() ≠ 64`) -/
theorem process_msg_block_src_eq_model (data : Bytes) (h : Hash) :
    process_msg_block data h =
      if data.length = 64 then
        match wordsLE32 data with
        | [m0, m1, m2, m3, m4, m5, m6, m7, m8, m9, m10, m11, m12, m13, m14, m15] =>
          some (process_msg_block_src h.a h.b h.c h.d h.e m0 m1 m2 m3 m4 m5 m6 m7 m8 m9 m10 m11 m12 m13 m14 m15)
        | _ => none
      else none := by
  unfold process_msg_block
  by_cases hl : data.length = 64
  · simp only [hl, ↓reduceIte]
    obtain ⟨m0, m1, m2, m3, m4, m5, m6, m7, m8, m9, m10, m11, m12, m13, m14, m15, hw⟩ :=
      list16 (wordsLE32 data) (by rw [wordsLE32_length, hl])
    rw [hw]
    cases h
    exact process_msg_block_src_eq_model_words _ _ _ _ _ m0 m1 m2 m3 m4 m5 m6 m7 m8 m9 m10 m11 m12 m13 m14 m15
  · simp only [hl, ↓reduceIte]

end Cx.Props.C01.KernelTieRipemd160
