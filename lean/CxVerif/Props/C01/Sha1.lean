/-
  Props.C01 (unit sha1ripemd, SHA-1) — `cryptoxide::hashing::sha1` and `sha1::Context` return the FIPS 180-4 SHA-1
  digest, for ALL messages inside the standard's length domain (len < 2^61 bytes).

  Model: Impl/Sha1.lean (SHA-NI emulation on u32x4 lanes exactly as written, `FixedBuffer<64>` = Impl/FixedBuffer.lean,
  `mk_result`), tied to /repo by the correspondence run (`hash.sha1`, `hctx.sha1`) and the re-extracted constants
  (Extracted/Sha1Ripemd.lean).  Spec: Spec/Sha1.lean + Spec/MerkleDamgard.lean, written from FIPS 180-4.
  Trusted: byte-level reading of the FIPS bit padding (Spec/MerkleDamgard.lean); `processed_bytes +=` modelled wrapping
  (overflow-checked builds panic beyond 2^64 bytes — outside every hypothesis below).
  Only property theorems here; helpers in Proofs/{Sha1,Sha1Chunks,Sha1Stream,FixedBuffer}.
-/
import CxVerif.Proofs.Sha1
import CxVerif.Proofs.Sha1Stream
namespace Cx.Props.C01.Sha1
open Cx Cx.Impl Cx.Impl.Sha1

/-! ### the compression function: SHA-NI emulation = the FIPS 80-round loop -/

/-- `digest_block_u32` — 20 emulated `sha1rnds4` (lanes), `sha1nexte` (`rotl30` of the previous first lane) and
    16 emulated `sha1msg1/sha1msg2` schedule steps — computes FIPS 180-4 §6.1.2 (W_t recurrence, f_t/K_t by round
    range, 80 iterations, final addition) for EVERY chaining value and EVERY 16-word block. -/
theorem sha1_compress_is_fips (state : Spec.Sha1.Hash) (M : List UInt32) (hM : M.length = 16) :
    digest_block_u32 state M = some (Spec.Sha1.compress state M) :=
  Cx.Proofs.Sha1.digest_block_u32_eq state M hM

example : ([0x61626380, 0, 0, 0, 0, 0, 0, 0, 0, 0, 0, 0, 0, 0, 0, 0x18] : List UInt32).length = 16 := rfl

/-- on bytes: `digest_block` never panics on a 64-byte block and is the FIPS compression of its big-endian words -/
theorem sha1_digest_block_is_fips (state : Spec.Sha1.Hash) (blk : Bytes) (h : blk.length = 64) :
    digest_block state blk = some (Spec.Sha1.compressBytes state blk) :=
  Cx.Proofs.Sha1Stream.digest_block_spec state blk h

example : (List.replicate 64 (0x5a : UInt8)).length = 64 := rfl

/-! ### the digest -/

/-- **`cryptoxide::hashing::sha1(msg)` = FIPS 180-4 SHA-1(msg)** for every message of fewer than 2^61 bytes
    (padding incl. both `standard_padding` branches, BE-64 bit length, any number of blocks); no panic. -/
theorem sha1_is_fips (msg : Bytes) (hlen : msg.length < 2 ^ 61) :
    Impl.Sha1.sha1 msg = some (Spec.Sha1.sha1 msg) :=
  Cx.Proofs.Sha1Stream.oneShot_eq msg hlen

/-- `Context::new().update(msg).finalize()` (the second answer field of the `hash.sha1` op) -/
theorem sha1_context_finalize_is_fips (msg : Bytes) (hlen : msg.length < 2 ^ 61) :
    (fam.update fam.new msg).bind fam.finalize = some (Spec.Sha1.sha1 msg) := by
  have := Cx.Proofs.Sha1Stream.oneShot_eq msg hlen
  unfold Impl.Sha1.sha1 at this
  unfold fam
  cases h : Context.new.update msg with
  | none => simp [h] at this
  | some c => simpa [h] using this

example : ([0x61, 0x62, 0x63] : Bytes).length < 2 ^ 61 := by decide

/-- the padding of the Spec is FIPS 180-4 §5.1.1 at byte granularity: the padded length is a multiple of 64 and the
    number of zero bytes is the smallest that achieves it (`ℓ + 1 + k ≡ 448 mod 512`, k least) -/
theorem sha1_padding_is_least_solution (len : Nat) :
    (len + 1 + Spec.MD.padZeros 64 8 len + 8) % 64 = 0
    ∧ ∀ z, z < Spec.MD.padZeros 64 8 len → (len + 1 + z + 8) % 64 ≠ 0 :=
  Cx.Proofs.FB.padZeros_spec (by decide)

/-- the code's length field `(processed_bytes << 3).to_be_bytes()` is the 64-bit big-endian bit length -/
theorem sha1_length_field (pb : UInt64) (len : Nat) (hpb : pb.toNat = len % 2 ^ 64) (hlen : len < 2 ^ 61) :
    u64be (pb <<< 3) = Spec.MD.be64 (8 * len) := by
  rw [Cx.Proofs.Sha1Stream.len_bytes_eq, hpb, Cx.Proofs.FB.len_be64_eq hlen]

example : (12345 : UInt64).toNat = 12345 % 2 ^ 64 ∧ 12345 < 2 ^ 61 := by decide

/-! ### constants (extracted from the source on every run) -/

/-- `K0..K3` of sha1.rs are the FIPS constants of rounds 0–19, 20–39, 40–59, 60–79 -/
theorem sha1_K_table : (K0, K1, K2, K3) = (Spec.Sha1.K 0, Spec.Sha1.K 20, Spec.Sha1.K 40, Spec.Sha1.K 60) :=
  Cx.Proofs.Sha1.K_table

/-- the FIPS constants are ⌊2^30·√2⌋, ⌊2^30·√3⌋, ⌊2^30·√5⌋, ⌊2^30·√10⌋ -/
theorem sha1_K_are_square_roots :
    (∀ c, c = (Spec.Sha1.K 0).toNat → c ^ 2 ≤ 2 * 2 ^ 60 ∧ 2 * 2 ^ 60 < (c + 1) ^ 2) ∧
    (∀ c, c = (Spec.Sha1.K 20).toNat → c ^ 2 ≤ 3 * 2 ^ 60 ∧ 3 * 2 ^ 60 < (c + 1) ^ 2) ∧
    (∀ c, c = (Spec.Sha1.K 40).toNat → c ^ 2 ≤ 5 * 2 ^ 60 ∧ 5 * 2 ^ 60 < (c + 1) ^ 2) ∧
    (∀ c, c = (Spec.Sha1.K 60).toNat → c ^ 2 ≤ 10 * 2 ^ 60 ∧ 10 * 2 ^ 60 < (c + 1) ^ 2) :=
  Cx.Proofs.Sha1.K_sqrt

/-- `H` of sha1.rs is the FIPS §5.3.1 initial hash value -/
theorem sha1_H_table : Impl.Sha1.H = Spec.Sha1.H0 := Cx.Proofs.Sha1.H_eq

/-! ### tests of the Spec transcription (kernel evaluation of published vectors; tests, not theorems) -/

/-- FIPS 180-1 appendix A: SHA-1("abc") -/
example : Spec.Sha1.sha1 [0x61, 0x62, 0x63] =
    [0xa9, 0x99, 0x3e, 0x36, 0x47, 0x06, 0x81, 0x6a, 0xba, 0x3e, 0x25, 0x71, 0x78, 0x50, 0xc2, 0x6c, 0x9c, 0xd0,
     0xd8, 0x9d] := by decide +kernel

/-- SHA-1("") -/
example : Spec.Sha1.sha1 [] =
    [0xda, 0x39, 0xa3, 0xee, 0x5e, 0x6b, 0x4b, 0x0d, 0x32, 0x55, 0xbf, 0xef, 0x95, 0x60, 0x18, 0x90, 0xaf, 0xd8,
     0x07, 0x09] := by decide +kernel

end Cx.Props.C01.Sha1
