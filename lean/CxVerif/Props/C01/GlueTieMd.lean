/-
  Props.C01.GlueTieMd — the translator tie for the STATEFUL GLUE of the Merkle–Damgård hashes.

  `Extracted/Extracted.GlueMd.lean` is regenerated on every run by tools/ktx_glue.py (kernel specs tools/kernels/glue_md.py) from
  the CURRENT text of src/cryptoutil.rs (`FixedBuffer<N>`: new / input / reset / zero_until / next / full_buffer /
  standard_padding; `zero`; the byte writers and readers) and src/hashing/sha2/{mod,eng256,eng512}.rs (`Engine256`,
  `Engine512`: new / reset / input / finish; `Engine::{new, reset, blocks, output_*bits_at}`): a statement-by-statement
  translation of the imperative Rust into the Option monad (`none` = panic), with the meaning of the slice primitives
  fixed once in Util/GlueRt.lean.

  Every theorem below says: the generated definition `<fn>_src` IS the hand model `Impl.….<fn>` the C01 / C02 / C08 / C13
  theorems are about — for ALL states (no invariant is needed: the hand models keep the whole array, stale tail
  included, and fail exactly where the code panics) and ALL inputs of every length.  So a changed comparison, bound,
  index, length field or statement order in the buffering / padding code breaks a proof obligation even if no sampled
  input reaches it.

  How each tie is proved:  rfl = the translator emits the model's shape;  proved = the shapes differ (a `return`
  continuation as a separate definition, the `zero()` call vs an inlined `zeros`, the `try_from` length test, `<< 3`
  vs `* 8`, a Rust loop vs `flatMap`/`chunks`) and the equality is a theorem (case analysis / induction).
  Where the crate has no hand-modelled counterpart as a separate definition (`zero`, the little-endian writers) the
  closed form is stated instead (`…_src_eq`).

  Axioms: propext, Classical.choice, Quot.sound (the check's audit prints them per theorem).
-/
import CxVerif.Extracted.GlueMd
import CxVerif.Proofs.GlueMd
import CxVerif.Proofs.GlueSha2Drv
namespace Cx.Props.C01.GlueTieMd
open Cx Cx.Impl Cx.Impl.Sha2 Cx.Proofs.GlueMd

/-! ### structure declarations (the generated constructors elaborate only against the same field lists) -/

theorem FixedBuffer_mk_src_eq_model (buffer : Bytes) (buffer_idx : Nat) :
    Extracted.GlueMd.FixedBuffer.mk_src buffer buffer_idx = ⟨buffer, buffer_idx⟩ := rfl
theorem Eng256_Engine_mk_src_eq_model (h : Spec.Sha2.W8 UInt32) : Extracted.GlueMd.Eng256.Engine.mk_src h = ⟨h⟩ := rfl
theorem Eng512_Engine_mk_src_eq_model (h : Spec.Sha2.W8 UInt64) : Extracted.GlueMd.Eng512.Engine.mk_src h = ⟨h⟩ := rfl
theorem Engine256_mk_src_eq_model (pb : Nat) (b : FixedBuffer) (s : Eng256.Engine) (f : Bool) :
    Extracted.GlueMd.Engine256.mk_src pb b s f = ⟨pb, b, s, f⟩ := rfl
theorem Engine512_mk_src_eq_model (pb : Nat) (b : FixedBuffer) (s : Eng512.Engine) :
    Extracted.GlueMd.Engine512.mk_src pb b s = ⟨pb, b, s⟩ := rfl

/-! ### cryptoutil.rs: `zero`, `FixedBuffer<N>` -/

/-- `zero(dst)` never fails and leaves `dst.len()` zero bytes (the hand models inline this as `zeros`) — proved -/
theorem zero_src_eq (dst : Bytes) : Extracted.GlueMd.zero_src dst = some (zeros dst.length) := by
  simp [Extracted.GlueMd.zero_src, Glue.copy_from_slice, Glue.fill, zeros]

theorem new_src_eq_model (N : Nat) : Extracted.GlueMd.FixedBuffer.new_src N = FixedBuffer.new N := rfl

/-- the continuation of `input` after the first `if` (generated as a join point because one branch `return`s) is the
    hand model's `input_rest`.  The generated text refuses `remaining / N` for `N = 0` (Rust panics on a zero divisor; audit 3, F9),
    the hand model does not mention that case: the tie holds for every instantiated buffer size (`N ≠ 0`; 64 and 128 in the crate) -/
theorem input_src_k1_eq_model {σ : Type} (N : Nat) (hN : N ≠ 0) (self : FixedBuffer) (input : Bytes)
    (func : σ → Bytes → Option σ) (st : σ) (i : Nat) :
    Extracted.GlueMd.FixedBuffer.input_src_k1 N self input func st i = FixedBuffer.input_rest N self input i func st := by
  unfold Extracted.GlueMd.FixedBuffer.input_src_k1 FixedBuffer.input_rest
  simp only [hN, if_false]
  rfl

/-- for `N = 0` the source panics as soon as it divides: the generated definition says so (the hand model is not used there) -/
theorem input_src_k1_zero {σ : Type} (self : FixedBuffer) (input : Bytes) (func : σ → Bytes → Option σ) (st : σ) (i : Nat) :
    Extracted.GlueMd.FixedBuffer.input_src_k1 0 self input func st i = none := by
  unfold Extracted.GlueMd.FixedBuffer.input_src_k1
  by_cases h : input.length < i <;> simp [h]

/-- `FixedBuffer::input`, all three regimes, any callback — proved (`0 + r = r`, `!=` vs `≠`) -/
theorem input_src_eq_model {σ : Type} (N : Nat) (hN : N ≠ 0) (self : FixedBuffer) (input : Bytes)
    (func : σ → Bytes → Option σ) (st : σ) :
    Extracted.GlueMd.FixedBuffer.input_src N self input func st = self.input N input func st := by
  unfold Extracted.GlueMd.FixedBuffer.input_src FixedBuffer.input
  simp only [input_src_k1_eq_model N hN, Nat.zero_add, bne_iff_ne, ne_eq, ite_not]
  rfl

theorem reset_src_eq_model (self : FixedBuffer) : Extracted.GlueMd.FixedBuffer.reset_src self = self.reset := rfl

/-- `zero_until`: the code slices the tail, calls `zero`, and the borrow writes it back; the model stores `zeros` — proved -/
theorem zero_until_src_eq_model (self : FixedBuffer) (idx : Nat) :
    Extracted.GlueMd.FixedBuffer.zero_until_src self idx = self.zero_until idx := by
  unfold Extracted.GlueMd.FixedBuffer.zero_until_src FixedBuffer.zero_until
  simp only [Extracted.GlueMd.zero_src, Glue.slice, Glue.copy_from_slice, Glue.fill, Cx.Impl.copy_from_slice, zeros]
  by_cases h0 : idx < self.buffer_idx
  · simp [h0]
  · have h0' : self.buffer_idx ≤ idx := by omega
    by_cases h1 : idx ≤ self.buffer.length
    · have : min (idx - self.buffer_idx) (self.buffer.length - self.buffer_idx) = idx - self.buffer_idx := by omega
      simp [h0, h0', h1, this]
    · simp [h0, h0', h1]

/-- `*self.next::<I>() = v`: index bump, range check, `try_from` length test, store — proved -/
theorem next_write_src_eq_model (I : Nat) (self : FixedBuffer) (v : Bytes) :
    Extracted.GlueMd.FixedBuffer.next_write_src I self v = self.next_write I v := by
  unfold Extracted.GlueMd.FixedBuffer.next_write_src FixedBuffer.next_write
  simp only [Glue.slice, Glue.copy_from_slice, Cx.Impl.copy_from_slice]
  by_cases h1 : self.buffer_idx + I ≤ self.buffer.length <;> by_cases h2 : v.length = I <;>
    simp [h1, h2, Nat.add_sub_cancel_left] <;> omega

theorem full_buffer_src_eq_model (N : Nat) (self : FixedBuffer) :
    Extracted.GlueMd.FixedBuffer.full_buffer_src N self = self.full_buffer N := rfl

/-- `standard_padding(rem, func)`: the 0x80 byte, the `N - idx < rem` branch, both `zero_until`s — rfl after the callee ties -/
theorem standard_padding_src_eq_model {σ : Type} (N : Nat) (self : FixedBuffer) (rem : Nat)
    (func : σ → Bytes → Option σ) (st : σ) :
    Extracted.GlueMd.FixedBuffer.standard_padding_src N self rem func st = self.standard_padding N rem func st := by
  unfold Extracted.GlueMd.FixedBuffer.standard_padding_src FixedBuffer.standard_padding
  simp only [zero_until_src_eq_model, next_write_src_eq_model, full_buffer_src_eq_model]
  rfl

/-! ### cryptoutil.rs: byte writers -/

theorem write_u32_be_src_eq_model (dst : Bytes) (x : UInt32) :
    Extracted.GlueMd.write_u32_be_src dst x = write_u32_be dst.length x := rfl
theorem write_u32_le_src_eq (dst : Bytes) (x : UInt32) :
    Extracted.GlueMd.write_u32_le_src dst x = if dst.length ≠ 4 then none else some (u32le x) := rfl
theorem write_u64_le_src_eq (dst : Bytes) (x : UInt64) :
    Extracted.GlueMd.write_u64_le_src dst x = if dst.length ≠ 8 then none else some (u64le x) := rfl

theorem u32be_length (x : UInt32) : (u32be x).length = 4 := by simp [u32be, natToBE, natToLE]
theorem u32le_length (x : UInt32) : (u32le x).length = 4 := by simp [u32le, natToLE]
theorem u64be_length (x : UInt64) : (u64be x).length = 8 := by simp [u64be, natToBE, natToLE]
theorem u64le_length (x : UInt64) : (u64le x).length = 8 := by simp [u64le, natToLE]

theorem write_u32v_be_loop (SZ : Nat) : ∀ (xs : List UInt32) (dst : Bytes) (off : Nat),
    Extracted.GlueMd.write_u32v_be_src_loop1 SZ xs dst off = writeLoop u32be SZ xs dst off := by
  intro xs; induction xs with
  | nil => intros; rfl
  | cons v r ih => intros; simp only [Extracted.GlueMd.write_u32v_be_src_loop1, writeLoop, ih]; rfl
theorem write_u32v_le_loop (SZ : Nat) : ∀ (xs : List UInt32) (dst : Bytes) (off : Nat),
    Extracted.GlueMd.write_u32v_le_src_loop1 SZ xs dst off = writeLoop u32le SZ xs dst off := by
  intro xs; induction xs with
  | nil => intros; rfl
  | cons v r ih => intros; simp only [Extracted.GlueMd.write_u32v_le_src_loop1, writeLoop, ih]; rfl
theorem write_u64v_be_loop (SZ : Nat) : ∀ (xs : List UInt64) (dst : Bytes) (off : Nat),
    Extracted.GlueMd.write_u64v_be_src_loop1 SZ xs dst off = writeLoop u64be SZ xs dst off := by
  intro xs; induction xs with
  | nil => intros; rfl
  | cons v r ih => intros; simp only [Extracted.GlueMd.write_u64v_be_src_loop1, writeLoop, ih]; rfl
theorem write_u64v_le_loop (SZ : Nat) : ∀ (xs : List UInt64) (dst : Bytes) (off : Nat),
    Extracted.GlueMd.write_u64v_le_src_loop1 SZ xs dst off = writeLoop u64le SZ xs dst off := by
  intro xs; induction xs with
  | nil => intros; rfl
  | cons v r ih => intros; simp only [Extracted.GlueMd.write_u64v_le_src_loop1, writeLoop, ih]; rfl

/-- `write_u32v_be` (`write_array_type!`): the assert + the element loop = `flatMap u32be` — proved by induction -/
theorem write_u32v_be_src_eq_model (dst : Bytes) (input : List UInt32) :
    Extracted.GlueMd.write_u32v_be_src dst input = write_u32v_be dst.length input := by
  unfold Extracted.GlueMd.write_u32v_be_src write_u32v_be
  by_cases h : dst.length = 4 * input.length
  · simp only [write_u32v_be_loop, writeLoop_full u32be 4 u32be_length input dst h, h, ne_eq, not_true_eq_false, ite_false]
  · simp only [h, ne_eq, not_false_eq_true, ite_true]
theorem write_u64v_be_src_eq_model (dst : Bytes) (input : List UInt64) :
    Extracted.GlueMd.write_u64v_be_src dst input = write_u64v_be dst.length input := by
  unfold Extracted.GlueMd.write_u64v_be_src write_u64v_be
  by_cases h : dst.length = 8 * input.length
  · simp only [write_u64v_be_loop, writeLoop_full u64be 8 u64be_length input dst h, h, ne_eq, not_true_eq_false, ite_false]
  · simp only [h, ne_eq, not_false_eq_true, ite_true]
theorem write_u32v_le_src_eq (dst : Bytes) (input : List UInt32) :
    Extracted.GlueMd.write_u32v_le_src dst input = if dst.length ≠ 4 * input.length then none else some (input.flatMap u32le) := by
  unfold Extracted.GlueMd.write_u32v_le_src
  by_cases h : dst.length = 4 * input.length
  · simp only [write_u32v_le_loop, writeLoop_full u32le 4 u32le_length input dst h, h, ne_eq, not_true_eq_false, ite_false]
  · simp only [h, ne_eq, not_false_eq_true, ite_true]
theorem write_u64v_le_src_eq (dst : Bytes) (input : List UInt64) :
    Extracted.GlueMd.write_u64v_le_src dst input = if dst.length ≠ 8 * input.length then none else some (input.flatMap u64le) := by
  unfold Extracted.GlueMd.write_u64v_le_src
  by_cases h : dst.length = 8 * input.length
  · simp only [write_u64v_le_loop, writeLoop_full u64le 8 u64le_length input dst h, h, ne_eq, not_true_eq_false, ite_false]
  · simp only [h, ne_eq, not_false_eq_true, ite_true]


/-! ### cryptoutil.rs: byte readers (`read_array_type!`: an `unsafe` pointer-cursor loop; out-of-range = failure) -/

theorem read_u32v_be_loop (input : Bytes) (SZ : Nat) : ∀ (cnt i : Nat) (dst : List UInt32) (x y : Nat),
    Extracted.GlueMd.read_u32v_be_src_loop1 input SZ cnt i dst x y = readLoop beU32 input SZ cnt i dst x y := by
  intro cnt; induction cnt with
  | zero => intros; rfl
  | succ c ih =>
    intro i dst x y
    rw [Extracted.GlueMd.read_u32v_be_src_loop1, readLoop]
    simp only [ih]
    cases Glue.slice input y (y + SZ) with
    | none => rfl
    | some t =>
      show (if (Glue.fill SZ (0 : UInt8)).length ≠ SZ then none else _) = (if (Glue.fill SZ (0 : UInt8)).length ≠ SZ then none else _)
      split
      · rfl
      · cases Glue.set_index dst x (beU32 t) <;> rfl
/-- `read_u32v_be`: the assert + the cursor loop = the big/little-endian words of the input — proved by induction -/
theorem read_u32v_be_src_eq_model (dst : List UInt32) (input : Bytes) :
    Extracted.GlueMd.read_u32v_be_src dst input = read_u32v_be dst.length input := by
  unfold Extracted.GlueMd.read_u32v_be_src read_u32v_be
  by_cases h : dst.length * 4 = input.length
  · have h' : input.length = 4 * dst.length := by omega
    simp only [read_u32v_be_loop, Nat.sub_zero, readLoop_spec beU32 input 4 dst.length 0 dst 0 0 (by omega) (by omega), h, ne_eq,
      not_true_eq_false, ite_false, wordsBE32, chunks_eq_chunkList 4 (by decide) dst.length input h']
    simp
  · simp only [h, ne_eq, not_false_eq_true, ite_true]

theorem read_u64v_be_loop (input : Bytes) (SZ : Nat) : ∀ (cnt i : Nat) (dst : List UInt64) (x y : Nat),
    Extracted.GlueMd.read_u64v_be_src_loop1 input SZ cnt i dst x y = readLoop beU64 input SZ cnt i dst x y := by
  intro cnt; induction cnt with
  | zero => intros; rfl
  | succ c ih =>
    intro i dst x y
    rw [Extracted.GlueMd.read_u64v_be_src_loop1, readLoop]
    simp only [ih]
    cases Glue.slice input y (y + SZ) with
    | none => rfl
    | some t =>
      show (if (Glue.fill SZ (0 : UInt8)).length ≠ SZ then none else _) = (if (Glue.fill SZ (0 : UInt8)).length ≠ SZ then none else _)
      split
      · rfl
      · cases Glue.set_index dst x (beU64 t) <;> rfl
/-- `read_u64v_be`: the assert + the cursor loop = the big/little-endian words of the input — proved by induction -/
theorem read_u64v_be_src_eq_model (dst : List UInt64) (input : Bytes) :
    Extracted.GlueMd.read_u64v_be_src dst input = read_u64v_be dst.length input := by
  unfold Extracted.GlueMd.read_u64v_be_src read_u64v_be
  by_cases h : dst.length * 8 = input.length
  · have h' : input.length = 8 * dst.length := by omega
    simp only [read_u64v_be_loop, Nat.sub_zero, readLoop_spec beU64 input 8 dst.length 0 dst 0 0 (by omega) (by omega), h, ne_eq,
      not_true_eq_false, ite_false, wordsBE64, chunks_eq_chunkList 8 (by decide) dst.length input h']
    simp
  · simp only [h, ne_eq, not_false_eq_true, ite_true]

theorem read_u32v_le_loop (input : Bytes) (SZ : Nat) : ∀ (cnt i : Nat) (dst : List UInt32) (x y : Nat),
    Extracted.GlueMd.read_u32v_le_src_loop1 input SZ cnt i dst x y = readLoop leU32 input SZ cnt i dst x y := by
  intro cnt; induction cnt with
  | zero => intros; rfl
  | succ c ih =>
    intro i dst x y
    rw [Extracted.GlueMd.read_u32v_le_src_loop1, readLoop]
    simp only [ih]
    cases Glue.slice input y (y + SZ) with
    | none => rfl
    | some t =>
      show (if (Glue.fill SZ (0 : UInt8)).length ≠ SZ then none else _) = (if (Glue.fill SZ (0 : UInt8)).length ≠ SZ then none else _)
      split
      · rfl
      · cases Glue.set_index dst x (leU32 t) <;> rfl
/-- `read_u32v_le`: the assert + the cursor loop = the big/little-endian words of the input — proved by induction -/
theorem read_u32v_le_src_eq (dst : List UInt32) (input : Bytes) :
    Extracted.GlueMd.read_u32v_le_src dst input = if dst.length * 4 ≠ input.length then none else some (wordsLE32 input) := by
  unfold Extracted.GlueMd.read_u32v_le_src
  by_cases h : dst.length * 4 = input.length
  · have h' : input.length = 4 * dst.length := by omega
    simp only [read_u32v_le_loop, Nat.sub_zero, readLoop_spec leU32 input 4 dst.length 0 dst 0 0 (by omega) (by omega), h, ne_eq,
      not_true_eq_false, ite_false, wordsLE32, chunks_eq_chunkList 4 (by decide) dst.length input h']
    simp
  · simp only [h, ne_eq, not_false_eq_true, ite_true]

theorem read_u64v_le_loop (input : Bytes) (SZ : Nat) : ∀ (cnt i : Nat) (dst : List UInt64) (x y : Nat),
    Extracted.GlueMd.read_u64v_le_src_loop1 input SZ cnt i dst x y = readLoop leU64 input SZ cnt i dst x y := by
  intro cnt; induction cnt with
  | zero => intros; rfl
  | succ c ih =>
    intro i dst x y
    rw [Extracted.GlueMd.read_u64v_le_src_loop1, readLoop]
    simp only [ih]
    cases Glue.slice input y (y + SZ) with
    | none => rfl
    | some t =>
      show (if (Glue.fill SZ (0 : UInt8)).length ≠ SZ then none else _) = (if (Glue.fill SZ (0 : UInt8)).length ≠ SZ then none else _)
      split
      · rfl
      · cases Glue.set_index dst x (leU64 t) <;> rfl
/-- `read_u64v_le`: the assert + the cursor loop = the big/little-endian words of the input — proved by induction -/
theorem read_u64v_le_src_eq (dst : List UInt64) (input : Bytes) :
    Extracted.GlueMd.read_u64v_le_src dst input = if dst.length * 8 ≠ input.length then none else some (wordsLE64 input) := by
  unfold Extracted.GlueMd.read_u64v_le_src
  by_cases h : dst.length * 8 = input.length
  · have h' : input.length = 8 * dst.length := by omega
    simp only [read_u64v_le_loop, Nat.sub_zero, readLoop_spec leU64 input 8 dst.length 0 dst 0 0 (by omega) (by omega), h, ne_eq,
      not_true_eq_false, ite_false, wordsLE64, chunks_eq_chunkList 8 (by decide) dst.length input h']
    simp
  · simp only [h, ne_eq, not_false_eq_true, ite_true]

theorem read_u32_le_src_eq (input : Bytes) :
    Extracted.GlueMd.read_u32_le_src input = if input.length ≠ 4 then none else some (leU32 input) := rfl


/-! ### sha2/eng256.rs -/

theorem eng256_new_src_eq_model (h : Spec.Sha2.W8 UInt32) :
    Extracted.GlueMd.Eng256.Engine.new_src h = Eng256.Engine.new h := rfl
theorem eng256_reset_src_eq_model (self : Eng256.Engine) (h : Spec.Sha2.W8 UInt32) :
    Extracted.GlueMd.Eng256.Engine.reset_src self h = self.reset h := rfl
/-- `blocks`: the `assert_eq!(len % BLOCK_LEN_BYTES, 0)` (constant re-derived from the source) + `digest_block` = the GENERATED
    dispatcher `impl256::digest_block` (baseline cfg set, Extracted/GlueSha2Drv.lean), which is the model's `Impl256.digest_block`
    by Proofs/GlueSha2Drv.lean (`dispatch256_baseline_eq_model`: generated dispatcher -> generated `while` driver -> hand model) -/
theorem eng256_blocks_src_eq_model (self : Eng256.Engine) (block : Bytes) :
    Extracted.GlueMd.Eng256.Engine.blocks_src self block = self.blocks block := by
  unfold Extracted.GlueMd.Eng256.Engine.blocks_src Eng256.Engine.blocks
  rw [Cx.Proofs.GlueSha2Drv.dispatch256_baseline_eq_model]; rfl

theorem w8_slice {α : Type} (h : Spec.Sha2.W8 α) (n : Nat) (hn : n ≤ 8) :
    Glue.slice h.toList 0 n = some (h.toList.take n) := by
  rw [slice_ok (Nat.zero_le _) (by simpa [Spec.Sha2.W8.toList] using hn)]; simp

/-- `output_224bits_at`: `write_u32v_be(&mut out[0..28], &self.h[0..7])` — proved (writer tie, `h[0..7]` in range) -/
theorem eng256_output_224bits_at_src_eq_model (self : Eng256.Engine) (out : Bytes) :
    Extracted.GlueMd.Eng256.Engine.output_224bits_at_src self out = self.output_224bits_at out := by
  unfold Extracted.GlueMd.Eng256.Engine.output_224bits_at_src Eng256.Engine.output_224bits_at
  simp only [w8_slice self.h 7 (by decide), write_u32v_be_src_eq_model]
  rfl
theorem eng256_output_256bits_at_src_eq_model (self : Eng256.Engine) (out : Bytes) :
    Extracted.GlueMd.Eng256.Engine.output_256bits_at_src self out = self.output_256bits_at out := by
  unfold Extracted.GlueMd.Eng256.Engine.output_256bits_at_src Eng256.Engine.output_256bits_at
  simp only [write_u32v_be_src_eq_model]
  rfl

/-! ### sha2/mod.rs: Engine256 -/

theorem blocks256_fun : (fun (s : Eng256.Engine) (b : Bytes) => Extracted.GlueMd.Eng256.Engine.blocks_src s b) = Eng256.Engine.blocks := by
  funext s b; exact eng256_blocks_src_eq_model s b

theorem engine256_new_src_eq_model (h : Spec.Sha2.W8 UInt32) :
    Extracted.GlueMd.Engine256.new_src h = Engine256.new h := rfl
theorem engine256_reset_src_eq_model (self : Engine256) (h : Spec.Sha2.W8 UInt32) :
    Extracted.GlueMd.Engine256.reset_src self h = self.reset h := rfl
/-- `Engine256::input`: the `finished` assert, the wrapping byte counter, `FixedBuffer::input` with the `blocks` closure -/
theorem engine256_input_src_eq_model (self : Engine256) (input : Bytes) :
    Extracted.GlueMd.Engine256.input_src self input = self.input input := by
  unfold Extracted.GlueMd.Engine256.input_src Engine256.input
  simp only [blocks256_fun, input_src_eq_model 64 (by decide)]
  rfl
/-- `(processed_bytes << 3).to_be_bytes()` for the `u64` counter is the model's `len_be64` -/
theorem len_be64_src (pb : Nat) : natToBE 8 ((pb <<< 3) % 2 ^ 64) = len_be64 pb := by
  simp only [len_be64, Nat.shiftLeft_eq]
/-- `Engine256::finish`: early return when finished, padding with 8 length bytes, the BE-64 bit length, last block — proved -/
theorem engine256_finish_src_eq_model (self : Engine256) :
    Extracted.GlueMd.Engine256.finish_src self = self.finish := by
  unfold Extracted.GlueMd.Engine256.finish_src Engine256.finish
  simp only [blocks256_fun, standard_padding_src_eq_model, next_write_src_eq_model, full_buffer_src_eq_model,
    len_be64_src]
  rfl

/-! ### sha2/eng512.rs -/

theorem eng512_new_src_eq_model (h : Spec.Sha2.W8 UInt64) :
    Extracted.GlueMd.Eng512.Engine.new_src h = Eng512.Engine.new h := rfl
theorem eng512_reset_src_eq_model (self : Eng512.Engine) (h : Spec.Sha2.W8 UInt64) :
    Extracted.GlueMd.Eng512.Engine.reset_src self h = self.reset h := rfl
theorem eng512_blocks_src_eq_model (self : Eng512.Engine) (block : Bytes) :
    Extracted.GlueMd.Eng512.Engine.blocks_src self block = self.blocks block := by
  unfold Extracted.GlueMd.Eng512.Engine.blocks_src Eng512.Engine.blocks
  rw [Cx.Proofs.GlueSha2Drv.dispatch512_baseline_eq_model]; rfl

/-- `output_224bits_at` of the 64-bit engine: three words + the high half of `h[3]` (`>> 32`, `as u32`) — proved -/
theorem eng512_output_224bits_at_src_eq_model (self : Eng512.Engine) (out : Bytes) :
    Extracted.GlueMd.Eng512.Engine.output_224bits_at_src self out = self.output_224bits_at out := by
  unfold Extracted.GlueMd.Eng512.Engine.output_224bits_at_src Eng512.Engine.output_224bits_at
  simp only [w8_slice self.h 3 (by decide), write_u64v_be_src_eq_model, write_u32_be_src_eq_model]
  rfl
theorem eng512_output_256bits_at_src_eq_model (self : Eng512.Engine) (out : Bytes) :
    Extracted.GlueMd.Eng512.Engine.output_256bits_at_src self out = self.output_256bits_at out := by
  unfold Extracted.GlueMd.Eng512.Engine.output_256bits_at_src Eng512.Engine.output_256bits_at
  simp only [w8_slice self.h 4 (by decide), write_u64v_be_src_eq_model]
theorem eng512_output_384bits_at_src_eq_model (self : Eng512.Engine) (out : Bytes) :
    Extracted.GlueMd.Eng512.Engine.output_384bits_at_src self out = self.output_384bits_at out := by
  unfold Extracted.GlueMd.Eng512.Engine.output_384bits_at_src Eng512.Engine.output_384bits_at
  simp only [w8_slice self.h 6 (by decide), write_u64v_be_src_eq_model]
theorem eng512_output_512bits_at_src_eq_model (self : Eng512.Engine) (out : Bytes) :
    Extracted.GlueMd.Eng512.Engine.output_512bits_at_src self out = self.output_512bits_at out := by
  unfold Extracted.GlueMd.Eng512.Engine.output_512bits_at_src Eng512.Engine.output_512bits_at
  simp only [w8_slice self.h 8 (by decide), write_u64v_be_src_eq_model]

/-! ### sha2/mod.rs: Engine512 -/

theorem blocks512_fun : (fun (s : Eng512.Engine) (b : Bytes) => Extracted.GlueMd.Eng512.Engine.blocks_src s b) = Eng512.Engine.blocks := by
  funext s b; exact eng512_blocks_src_eq_model s b

theorem engine512_new_src_eq_model (h : Spec.Sha2.W8 UInt64) :
    Extracted.GlueMd.Engine512.new_src h = Engine512.new h := rfl
theorem engine512_reset_src_eq_model (self : Engine512) (h : Spec.Sha2.W8 UInt64) :
    Extracted.GlueMd.Engine512.reset_src self h = self.reset h := rfl
theorem engine512_input_src_eq_model (self : Engine512) (input : Bytes) :
    Extracted.GlueMd.Engine512.input_src self input = self.input input := by
  unfold Extracted.GlueMd.Engine512.input_src Engine512.input
  simp only [blocks512_fun, input_src_eq_model 128 (by decide)]
  rfl
/-- the 128-bit length field of SHA-512 -/
theorem len_be128_src (pb : Nat) : natToBE 16 ((pb <<< 3) % 2 ^ 128) = len_be128 pb := by
  simp only [len_be128, Nat.shiftLeft_eq]
/-- `Engine512::finish`: padding that reserves 16 length bytes, the BE-128 bit length, last block — proved -/
theorem engine512_finish_src_eq_model (self : Engine512) :
    Extracted.GlueMd.Engine512.finish_src self = self.finish := by
  unfold Extracted.GlueMd.Engine512.finish_src Engine512.finish
  simp only [blocks512_fun, standard_padding_src_eq_model, next_write_src_eq_model, full_buffer_src_eq_model,
    len_be128_src]
  rfl


/-! ### sha2/mod.rs: the six contexts defined by `digest!` (the public API), each tied to the hand model's generic
    `Ctx256` / `Ctx512` at the algorithm descriptor (`Alg256` / `Alg512`: IV, output bits, output function) -/

theorem Context512_mk_src_eq_model (e : Engine512) : Extracted.GlueMd.Context512.mk_src e = ⟨e⟩ := rfl
theorem Context512_new_src_eq_model : Extracted.GlueMd.Context512.new_src = Ctx512.new Sha512 := rfl
theorem Context512_update_mut_src_eq_model (self : Ctx512) (input : Bytes) :
    Extracted.GlueMd.Context512.update_mut_src self input = self.update_mut input := by
  unfold Extracted.GlueMd.Context512.update_mut_src Ctx512.update_mut
  simp only [engine512_input_src_eq_model]; rfl
theorem Context512_update_src_eq_model (self : Ctx512) (input : Bytes) :
    Extracted.GlueMd.Context512.update_src self input = self.update input := by
  unfold Extracted.GlueMd.Context512.update_src Ctx512.update
  simp only [engine512_input_src_eq_model]; rfl
theorem Context512_reset_src_eq_model (self : Ctx512) : Extracted.GlueMd.Context512.reset_src self = Ctx512.reset Sha512 self := rfl
theorem Context512_finalize_src_eq_model (self : Ctx512) :
    Extracted.GlueMd.Context512.finalize_src self = Ctx512.finalize Sha512 self := by
  unfold Extracted.GlueMd.Context512.finalize_src Ctx512.finalize
  simp only [engine512_finish_src_eq_model, eng512_output_512bits_at_src_eq_model]; rfl
theorem Context512_finalize_reset_src_eq_model (self : Ctx512) :
    Extracted.GlueMd.Context512.finalize_reset_src self = Ctx512.finalize_reset Sha512 self := by
  unfold Extracted.GlueMd.Context512.finalize_reset_src Ctx512.finalize_reset
  simp only [engine512_finish_src_eq_model, eng512_output_512bits_at_src_eq_model, Context512_reset_src_eq_model]; rfl

theorem Context384_mk_src_eq_model (e : Engine512) : Extracted.GlueMd.Context384.mk_src e = ⟨e⟩ := rfl
theorem Context384_new_src_eq_model : Extracted.GlueMd.Context384.new_src = Ctx512.new Sha384 := rfl
theorem Context384_update_mut_src_eq_model (self : Ctx512) (input : Bytes) :
    Extracted.GlueMd.Context384.update_mut_src self input = self.update_mut input := by
  unfold Extracted.GlueMd.Context384.update_mut_src Ctx512.update_mut
  simp only [engine512_input_src_eq_model]; rfl
theorem Context384_update_src_eq_model (self : Ctx512) (input : Bytes) :
    Extracted.GlueMd.Context384.update_src self input = self.update input := by
  unfold Extracted.GlueMd.Context384.update_src Ctx512.update
  simp only [engine512_input_src_eq_model]; rfl
theorem Context384_reset_src_eq_model (self : Ctx512) : Extracted.GlueMd.Context384.reset_src self = Ctx512.reset Sha384 self := rfl
theorem Context384_finalize_src_eq_model (self : Ctx512) :
    Extracted.GlueMd.Context384.finalize_src self = Ctx512.finalize Sha384 self := by
  unfold Extracted.GlueMd.Context384.finalize_src Ctx512.finalize
  simp only [engine512_finish_src_eq_model, eng512_output_384bits_at_src_eq_model]; rfl
theorem Context384_finalize_reset_src_eq_model (self : Ctx512) :
    Extracted.GlueMd.Context384.finalize_reset_src self = Ctx512.finalize_reset Sha384 self := by
  unfold Extracted.GlueMd.Context384.finalize_reset_src Ctx512.finalize_reset
  simp only [engine512_finish_src_eq_model, eng512_output_384bits_at_src_eq_model, Context384_reset_src_eq_model]; rfl

theorem Context512_256_mk_src_eq_model (e : Engine512) : Extracted.GlueMd.Context512_256.mk_src e = ⟨e⟩ := rfl
theorem Context512_256_new_src_eq_model : Extracted.GlueMd.Context512_256.new_src = Ctx512.new Sha512Trunc256 := rfl
theorem Context512_256_update_mut_src_eq_model (self : Ctx512) (input : Bytes) :
    Extracted.GlueMd.Context512_256.update_mut_src self input = self.update_mut input := by
  unfold Extracted.GlueMd.Context512_256.update_mut_src Ctx512.update_mut
  simp only [engine512_input_src_eq_model]; rfl
theorem Context512_256_update_src_eq_model (self : Ctx512) (input : Bytes) :
    Extracted.GlueMd.Context512_256.update_src self input = self.update input := by
  unfold Extracted.GlueMd.Context512_256.update_src Ctx512.update
  simp only [engine512_input_src_eq_model]; rfl
theorem Context512_256_reset_src_eq_model (self : Ctx512) : Extracted.GlueMd.Context512_256.reset_src self = Ctx512.reset Sha512Trunc256 self := rfl
theorem Context512_256_finalize_src_eq_model (self : Ctx512) :
    Extracted.GlueMd.Context512_256.finalize_src self = Ctx512.finalize Sha512Trunc256 self := by
  unfold Extracted.GlueMd.Context512_256.finalize_src Ctx512.finalize
  simp only [engine512_finish_src_eq_model, eng512_output_256bits_at_src_eq_model]; rfl
theorem Context512_256_finalize_reset_src_eq_model (self : Ctx512) :
    Extracted.GlueMd.Context512_256.finalize_reset_src self = Ctx512.finalize_reset Sha512Trunc256 self := by
  unfold Extracted.GlueMd.Context512_256.finalize_reset_src Ctx512.finalize_reset
  simp only [engine512_finish_src_eq_model, eng512_output_256bits_at_src_eq_model, Context512_256_reset_src_eq_model]; rfl

theorem Context512_224_mk_src_eq_model (e : Engine512) : Extracted.GlueMd.Context512_224.mk_src e = ⟨e⟩ := rfl
theorem Context512_224_new_src_eq_model : Extracted.GlueMd.Context512_224.new_src = Ctx512.new Sha512Trunc224 := rfl
theorem Context512_224_update_mut_src_eq_model (self : Ctx512) (input : Bytes) :
    Extracted.GlueMd.Context512_224.update_mut_src self input = self.update_mut input := by
  unfold Extracted.GlueMd.Context512_224.update_mut_src Ctx512.update_mut
  simp only [engine512_input_src_eq_model]; rfl
theorem Context512_224_update_src_eq_model (self : Ctx512) (input : Bytes) :
    Extracted.GlueMd.Context512_224.update_src self input = self.update input := by
  unfold Extracted.GlueMd.Context512_224.update_src Ctx512.update
  simp only [engine512_input_src_eq_model]; rfl
theorem Context512_224_reset_src_eq_model (self : Ctx512) : Extracted.GlueMd.Context512_224.reset_src self = Ctx512.reset Sha512Trunc224 self := rfl
theorem Context512_224_finalize_src_eq_model (self : Ctx512) :
    Extracted.GlueMd.Context512_224.finalize_src self = Ctx512.finalize Sha512Trunc224 self := by
  unfold Extracted.GlueMd.Context512_224.finalize_src Ctx512.finalize
  simp only [engine512_finish_src_eq_model, eng512_output_224bits_at_src_eq_model]; rfl
theorem Context512_224_finalize_reset_src_eq_model (self : Ctx512) :
    Extracted.GlueMd.Context512_224.finalize_reset_src self = Ctx512.finalize_reset Sha512Trunc224 self := by
  unfold Extracted.GlueMd.Context512_224.finalize_reset_src Ctx512.finalize_reset
  simp only [engine512_finish_src_eq_model, eng512_output_224bits_at_src_eq_model, Context512_224_reset_src_eq_model]; rfl

theorem Context256_mk_src_eq_model (e : Engine256) : Extracted.GlueMd.Context256.mk_src e = ⟨e⟩ := rfl
theorem Context256_new_src_eq_model : Extracted.GlueMd.Context256.new_src = Ctx256.new Sha256 := rfl
theorem Context256_update_mut_src_eq_model (self : Ctx256) (input : Bytes) :
    Extracted.GlueMd.Context256.update_mut_src self input = self.update_mut input := by
  unfold Extracted.GlueMd.Context256.update_mut_src Ctx256.update_mut
  simp only [engine256_input_src_eq_model]; rfl
theorem Context256_update_src_eq_model (self : Ctx256) (input : Bytes) :
    Extracted.GlueMd.Context256.update_src self input = self.update input := by
  unfold Extracted.GlueMd.Context256.update_src Ctx256.update
  simp only [engine256_input_src_eq_model]; rfl
theorem Context256_reset_src_eq_model (self : Ctx256) : Extracted.GlueMd.Context256.reset_src self = Ctx256.reset Sha256 self := rfl
theorem Context256_finalize_src_eq_model (self : Ctx256) :
    Extracted.GlueMd.Context256.finalize_src self = Ctx256.finalize Sha256 self := by
  unfold Extracted.GlueMd.Context256.finalize_src Ctx256.finalize
  simp only [engine256_finish_src_eq_model, eng256_output_256bits_at_src_eq_model]; rfl
theorem Context256_finalize_reset_src_eq_model (self : Ctx256) :
    Extracted.GlueMd.Context256.finalize_reset_src self = Ctx256.finalize_reset Sha256 self := by
  unfold Extracted.GlueMd.Context256.finalize_reset_src Ctx256.finalize_reset
  simp only [engine256_finish_src_eq_model, eng256_output_256bits_at_src_eq_model, Context256_reset_src_eq_model]; rfl

theorem Context224_mk_src_eq_model (e : Engine256) : Extracted.GlueMd.Context224.mk_src e = ⟨e⟩ := rfl
theorem Context224_new_src_eq_model : Extracted.GlueMd.Context224.new_src = Ctx256.new Sha224 := rfl
theorem Context224_update_mut_src_eq_model (self : Ctx256) (input : Bytes) :
    Extracted.GlueMd.Context224.update_mut_src self input = self.update_mut input := by
  unfold Extracted.GlueMd.Context224.update_mut_src Ctx256.update_mut
  simp only [engine256_input_src_eq_model]; rfl
theorem Context224_update_src_eq_model (self : Ctx256) (input : Bytes) :
    Extracted.GlueMd.Context224.update_src self input = self.update input := by
  unfold Extracted.GlueMd.Context224.update_src Ctx256.update
  simp only [engine256_input_src_eq_model]; rfl
theorem Context224_reset_src_eq_model (self : Ctx256) : Extracted.GlueMd.Context224.reset_src self = Ctx256.reset Sha224 self := rfl
theorem Context224_finalize_src_eq_model (self : Ctx256) :
    Extracted.GlueMd.Context224.finalize_src self = Ctx256.finalize Sha224 self := by
  unfold Extracted.GlueMd.Context224.finalize_src Ctx256.finalize
  simp only [engine256_finish_src_eq_model, eng256_output_224bits_at_src_eq_model]; rfl
theorem Context224_finalize_reset_src_eq_model (self : Ctx256) :
    Extracted.GlueMd.Context224.finalize_reset_src self = Ctx256.finalize_reset Sha224 self := by
  unfold Extracted.GlueMd.Context224.finalize_reset_src Ctx256.finalize_reset
  simp only [engine256_finish_src_eq_model, eng256_output_224bits_at_src_eq_model, Context224_reset_src_eq_model]; rfl

end Cx.Props.C01.GlueTieMd
