/-
  Props.C01.Sha3 — C01 for the sha3 unit: SHA3-224/256/384/512 and Keccak-224/256/384/512 of the crate return,
  for EVERY message, the digest FIPS 202 defines (Keccak: the same sponge without the SHA-3 suffix bits).
  Only property theorems live here; the proofs are in Proofs/Keccak*.lean and Proofs/Sponge*.lean.

  What the statements mean.  `Impl.Sha3.*` is the code-shaped model of src/hashing/sha3.rs + keccak.rs (+ the one-shot
  wrappers of hashing/mod.rs); it returns `none` where the Rust code would panic.  `Spec.Keccak.*` is FIPS 202
  (lane-level step mappings θ ρ π χ ι with formula-generated constants, Algorithm 8 sponge, bit-level pad10*1).
  Every theorem is for all messages / all states — there is no length bound (FIPS 202 has none).
-/
import CxVerif.Proofs.SpongeHash
import CxVerif.Proofs.SpongeCtx
import CxVerif.Proofs.KeccakVectors
namespace Cx.Props.C01
open Cx Cx.Proofs.Sponge Cx.Proofs.Keccak

/-! ## (iii)+(v): the eight hash functions, all messages -/

theorem sha3_224_eq_spec (m : Bytes) : Impl.Sha3.sha3_224 m = some (Spec.Keccak.sha3_224 m) := hash_spec variant_sha3_224 m
theorem sha3_256_eq_spec (m : Bytes) : Impl.Sha3.sha3_256 m = some (Spec.Keccak.sha3_256 m) := hash_spec variant_sha3_256 m
theorem sha3_384_eq_spec (m : Bytes) : Impl.Sha3.sha3_384 m = some (Spec.Keccak.sha3_384 m) := hash_spec variant_sha3_384 m
theorem sha3_512_eq_spec (m : Bytes) : Impl.Sha3.sha3_512 m = some (Spec.Keccak.sha3_512 m) := hash_spec variant_sha3_512 m
theorem keccak224_eq_spec (m : Bytes) : Impl.Sha3.keccak224 m = some (Spec.Keccak.keccak224 m) := hash_spec variant_keccak224 m
theorem keccak256_eq_spec (m : Bytes) : Impl.Sha3.keccak256 m = some (Spec.Keccak.keccak256 m) := hash_spec variant_keccak256 m
theorem keccak384_eq_spec (m : Bytes) : Impl.Sha3.keccak384 m = some (Spec.Keccak.keccak384 m) := hash_spec variant_keccak384 m
theorem keccak512_eq_spec (m : Bytes) : Impl.Sha3.keccak512 m = some (Spec.Keccak.keccak512 m) := hash_spec variant_keccak512 m

/-- the same fact for every instantiation `Engine<DIGESTLEN, DSLEN>` with DSLEN ∈ {0, 2}, 0 < DIGESTLEN < rate:
    `X::new().update(m).finalize()` is SPONGE[Keccak-p[1600,24], pad10*1, 8·rate](m ‖ suffix, 8·DIGESTLEN) -/
theorem hash_eq_sponge (dl ds r : Nat) (sfx : List Bool) (hv : Variant dl ds r sfx) (m : Bytes) :
    Impl.Sha3.hash dl ds m = some (Spec.Keccak.sponge r m sfx dl) := hash_spec hv m

/-- the hypotheses of `hash_eq_sponge` are met by the instantiations of the crate (here SHA3-256, Keccak-512) -/
example : Variant 32 2 136 [false, true] ∧ Variant 64 0 72 [] := ⟨variant_sha3_256, variant_keccak512⟩

/-! ## (v): Keccak-f — the compact implementation is FIPS 202's ι∘χ∘π∘ρ∘θ, 24 rounds, on every state -/

/-- one round: θ with M5, the in-place ρπ walk with PIL/ROTC, χ with M5 and ι with RC[ir]
    equal Rnd(A, ir) = ι(χ(π(ρ(θ(A)))), ir); no index is ever out of bounds -/
theorem keccak_round_eq_fips (A : Spec.Keccak.State) (ir : Nat) (h : ir < 24) :
    Impl.Sha3.round A.toArray ir = some (Spec.Keccak.Rnd A ir).toArray := round_eq A ir h

/-- 24 rounds on lanes -/
theorem keccak_f_lanes_eq_fips (A : Spec.Keccak.State) :
    Impl.Sha3.keccak_f_lanes A.toArray = some (Spec.Keccak.keccakP A).toArray := keccak_f_lanes_eq A

/-- `keccak_f(&mut [u8; 200])` = Keccak-f[1600] on the state string, for every 200-byte state, and never panics -/
theorem keccak_f_eq_fips (st : Bytes) (h : st.length = 200) :
    Impl.Sha3.keccak_f st = some (Spec.Keccak.keccakF st) := keccak_f_eq st h

example : (zeros 200).length = 200 := zeros_length 200

/-! ## (iii): padding -/

/-- `pad_len` (i64 arithmetic, two asserts): for every byte offset o < R it returns R − o, and no intermediate
    value leaves the i64 / usize range (stated for rates up to 2^32 bytes; the crate's are ≤ 144) -/
theorem pad_len_eq_rate_minus_offset (ds o R : Nat) (hds : ds ≤ 6) (ho : o < R) (hR : R ≤ 2 ^ 32) :
    Impl.Sha3.pad_len ds (8 * o) (8 * R) = some (R - o) := pad_len_eq ds o R hds ho hR

example : Impl.Sha3.pad_len 2 (8 * 135) (8 * 136) = some 1 := pad_len_eq 2 135 136 (by omega) (by omega) (by omega)

/-- FIPS 202 at bit level → bytes: SHA-3's tail `01 ‖ pad10*1` is 0x06 0…0 0x80, or the single byte 0x86 when
    one byte is left in the block; for all rates and message lengths -/
theorem sha3_padding_bytes (r len : Nat) (hr : 0 < r) :
    Spec.Keccak.padBytes r len [false, true] =
      (if r - len % r = 1 then [(0x86 : UInt8)] else (0x06 : UInt8) :: (zeros (r - len % r - 2) ++ [(0x80 : UInt8)])) := by
  rw [padBytes_sha3 r len hr]; unfold padLit; split <;> rfl

/-- Keccak's tail `pad10*1` is 0x01 0…0 0x80, or 0x81 -/
theorem keccak_padding_bytes (r len : Nat) (hr : 0 < r) :
    Spec.Keccak.padBytes r len [] =
      (if r - len % r = 1 then [(0x81 : UInt8)] else (0x01 : UInt8) :: (zeros (r - len % r - 2) ++ [(0x80 : UInt8)])) := by
  rw [padBytes_keccak r len hr]; unfold padLit; split <;> rfl

/-- `Engine::finalize` (pad_len, vec of zeros, set_domain_sep, set_pad, process): from the state that represents the
    absorbed bytes m it reaches the state that represents m ‖ suffix ‖ pad10*1 and clears `can_absorb`; no panic -/
theorem finalize_pads_per_fips (dl ds r : Nat) (sfx : List Bool) (hv : Variant dl ds r sfx) (m : Bytes) :
    Impl.Sha3.Engine.finalize dl ds (engine_of r m)
      = some { engine_of r (m ++ Spec.Keccak.padBytes r m.length sfx) with can_absorb := false } := finalize_spec hv m

/-! ## (vi): table obligations — re-extracted from /repo/src on every run -/

/-- RC = the LFSR-generated round constants (FIPS 202 Algorithms 5, 6) -/
theorem RC_is_lfsr : Cx.Extracted.Sha3.RC.map UInt64.toNat = (List.range 24).map Spec.Keccak.RCnat := RC_table

/-- ROTC = (t+1)(t+2)/2 mod 64 along the walk -/
theorem ROTC_is_triangular :
    Cx.Extracted.Sha3.ROTC = (List.range 24).map (fun t => ((t + 1) * (t + 2) / 2) % 64) := ROTC_table

/-- PIL = the walk (x,y) ← (y, 2x+3y) from (1,0), as lane indices 5y+x, shifted by one step (= π) -/
theorem PIL_is_walk :
    Cx.Extracted.Sha3.PIL = (List.range 24).map (fun t => (Spec.Keccak.rhoWalk (t + 1)).1 + 5 * (Spec.Keccak.rhoWalk (t + 1)).2) :=
  PIL_table

theorem PIL_is_permutation : ∀ i, i < 25 → 1 ≤ i → Cx.Extracted.Sha3.PIL.count i = 1 := PIL_perm

theorem M5_is_mod5 : Cx.Extracted.Sha3.M5 = (List.range 10).map (· % 5) := M5_table

theorem B_and_NROUNDS : Cx.Extracted.Sha3.B = 200 ∧ Cx.Extracted.Sha3.NROUNDS = 24 := consts_table

/-- the macro invocations fix (bits, DIGESTLEN, DSLEN) as modelled, and each one-shot function of hashing/mod.rs
    uses the context of its own name -/
theorem variants_as_modelled :
    Cx.Extracted.Sha3.SHA3_VARIANTS = [[224, 28, 2], [256, 32, 2], [384, 48, 2], [512, 64, 2]] ∧
    Cx.Extracted.Sha3.KECCAK_VARIANTS = [[224, 28, 0], [256, 32, 0], [384, 48, 0], [512, 64, 0]] ∧
    Cx.Extracted.Sha3.ONESHOTS = [[3, 224, 28, 3, 224], [3, 256, 32, 3, 256], [3, 384, 48, 3, 384], [3, 512, 64, 3, 512],
                                  [0, 224, 28, 0, 224], [0, 256, 32, 0, 256], [0, 384, 48, 0, 384], [0, 512, 64, 0, 512]] :=
  variants_table

/-- rates (`BLOCK_BYTES`) of the eight variants -/
theorem rates : Impl.Sha3.rate 28 = some 144 ∧ Impl.Sha3.rate 32 = some 136 ∧ Impl.Sha3.rate 48 = some 104 ∧
    Impl.Sha3.rate 64 = some 72 := by decide

/-- protocol level: for each of the eight algorithms and EVERY request line `hash.<alg> …` (well-formed or not) the
    code-shaped model and the Spec give the same answer line — the model never answers PANIC -/
theorem hash_lines_agree (a : Cx.Driver.Sha3.Alg) (ha : a ∈ Cx.Driver.Sha3.algs) (args : List String) :
    Cx.Driver.Sha3.hashImpl a args = Cx.Driver.Sha3.hashSpec a args := driver_hash_agree a ha args

end Cx.Props.C01
