/-
  Props.C01.GlueTieMdSpec — capstone of the glue tie: the SHA-2 contexts AS TRANSLATED FROM THE CURRENT SOURCE
  (`Extracted/GlueMd.lean`: `digest!` contexts -> `Engine256/512` -> `FixedBuffer` -> byte writers; the compression
  function `digest_block` is tied separately by Props/C01/KernelTieSha256/512) compute the FIPS 180-4 functions:
      Context::new().update(msg).finalize()  =  SHA-2(msg)      for every message inside the standard's domain,
  and never panic.  Obtained from the C01 theorems about the hand models through the tie theorems of
  Props/C01/GlueTieMd.lean — no hand-written model occurs in the statements.
-/
import CxVerif.Props.C01.GlueTieMd
import CxVerif.Props.C01.Sha2
namespace Cx.Props.C01.GlueTieMdSpec
open Cx Cx.Impl Cx.Props.C01.GlueTieMd

/-- `Context512::new().update(msg).finalize()`, generated definitions only, is `Spec.Sha2.sha512` -/
theorem sha512_src_eq_spec (msg : Bytes) (h : msg.length < 2 ^ 125) :
    (match Extracted.GlueMd.Context512.update_src Extracted.GlueMd.Context512.new_src msg with
     | none => none
     | some c => Extracted.GlueMd.Context512.finalize_src c) = some (Spec.Sha2.sha512 msg) := by
  simp only [Context512_new_src_eq_model, Context512_update_src_eq_model, Context512_finalize_src_eq_model]
  exact Cx.Props.C01.Sha2.sha512_eq_spec msg h

/-- `Context384::new().update(msg).finalize()`, generated definitions only, is `Spec.Sha2.sha384` -/
theorem sha384_src_eq_spec (msg : Bytes) (h : msg.length < 2 ^ 125) :
    (match Extracted.GlueMd.Context384.update_src Extracted.GlueMd.Context384.new_src msg with
     | none => none
     | some c => Extracted.GlueMd.Context384.finalize_src c) = some (Spec.Sha2.sha384 msg) := by
  simp only [Context384_new_src_eq_model, Context384_update_src_eq_model, Context384_finalize_src_eq_model]
  exact Cx.Props.C01.Sha2.sha384_eq_spec msg h

/-- `Context512_256::new().update(msg).finalize()`, generated definitions only, is `Spec.Sha2.sha512_256` -/
theorem sha512_256_src_eq_spec (msg : Bytes) (h : msg.length < 2 ^ 125) :
    (match Extracted.GlueMd.Context512_256.update_src Extracted.GlueMd.Context512_256.new_src msg with
     | none => none
     | some c => Extracted.GlueMd.Context512_256.finalize_src c) = some (Spec.Sha2.sha512_256 msg) := by
  simp only [Context512_256_new_src_eq_model, Context512_256_update_src_eq_model, Context512_256_finalize_src_eq_model]
  exact Cx.Props.C01.Sha2.sha512_256_eq_spec msg h

/-- `Context512_224::new().update(msg).finalize()`, generated definitions only, is `Spec.Sha2.sha512_224` -/
theorem sha512_224_src_eq_spec (msg : Bytes) (h : msg.length < 2 ^ 125) :
    (match Extracted.GlueMd.Context512_224.update_src Extracted.GlueMd.Context512_224.new_src msg with
     | none => none
     | some c => Extracted.GlueMd.Context512_224.finalize_src c) = some (Spec.Sha2.sha512_224 msg) := by
  simp only [Context512_224_new_src_eq_model, Context512_224_update_src_eq_model, Context512_224_finalize_src_eq_model]
  exact Cx.Props.C01.Sha2.sha512_224_eq_spec msg h

/-- `Context256::new().update(msg).finalize()`, generated definitions only, is `Spec.Sha2.sha256` -/
theorem sha256_src_eq_spec (msg : Bytes) (h : msg.length < 2 ^ 61) :
    (match Extracted.GlueMd.Context256.update_src Extracted.GlueMd.Context256.new_src msg with
     | none => none
     | some c => Extracted.GlueMd.Context256.finalize_src c) = some (Spec.Sha2.sha256 msg) := by
  simp only [Context256_new_src_eq_model, Context256_update_src_eq_model, Context256_finalize_src_eq_model]
  exact Cx.Props.C01.Sha2.sha256_eq_spec msg h

/-- `Context224::new().update(msg).finalize()`, generated definitions only, is `Spec.Sha2.sha224` -/
theorem sha224_src_eq_spec (msg : Bytes) (h : msg.length < 2 ^ 61) :
    (match Extracted.GlueMd.Context224.update_src Extracted.GlueMd.Context224.new_src msg with
     | none => none
     | some c => Extracted.GlueMd.Context224.finalize_src c) = some (Spec.Sha2.sha224 msg) := by
  simp only [Context224_new_src_eq_model, Context224_update_src_eq_model, Context224_finalize_src_eq_model]
  exact Cx.Props.C01.Sha2.sha224_eq_spec msg h

/-- a 200-byte message is inside both domains -/
example : (List.replicate 200 (7 : UInt8)).length < 2 ^ 61 ∧ (List.replicate 200 (7 : UInt8)).length < 2 ^ 125 := by
  rw [List.length_replicate]; omega

end Cx.Props.C01.GlueTieMdSpec
