/-
  Props.C01.Blake2 — C01 (iv), (vi) for BLAKE2b / BLAKE2s: the one-shot digests of the code-shaped model
  (Impl.Blake2: Context<BITS> / ContextDyn, key block, lazy last block, two-word counter, last-block flag,
  parameter word, output truncation) equal RFC 7693 (Spec.Blake2) for EVERY message, every legal output length
  and every legal key; refused parameters are exactly those outside the RFC's domain; table obligations.

  `.wrapping` is the code as it is (increment_counter uses wrapping_add); the theorems for it carry NO length
  hypothesis (the model agrees with the Spec's `F`, which reduces the offset counter mod 2^(2w); the RFC's own
  domain is total length < 2^128 for b, < 2^64 for s).  `.checked` is the former `+=` in an overflow-checked
  build: equal to the Spec below 2^64 (b) / 2^32 (s) bytes, a panic from there on (C20, Props/C02/Blake2.lean).
  Helpers: Proofs/Blake2.lean, Proofs/Blake2Tables.lean.  The compression core (G, round, F skeleton) is shared
  between Spec and Impl (literal transcription in reference.rs; `compressCore_core_shared`), its instantiation
  with the extracted tables vs the RFC constants is `compress_eq_F_*` below.
-/
import CxVerif.Proofs.Blake2
namespace Cx.Props.C01
open Cx Cx.Proofs.Blake2
open Cx.Impl.Blake2 (Profile)

/-! ### digests -/

/-- BLAKE2b through `ContextDyn` = RFC 7693, ∀ msg, 1 ≤ outlen ≤ 64, keylen ≤ 64 (the code as it is) -/
theorem blake2b_eq_spec (outlen : Nat) (key msg : Bytes) (ho : 1 ≤ outlen ∧ outlen ≤ 64) (hk : key.length ≤ 64) :
    Impl.Blake2.blake2b .wrapping outlen key msg = some (Spec.Blake2.blake2b outlen key msg) := by
  unfold Impl.Blake2.blake2b
  rw [impl_b_eq_spec_b]
  exact blake2_dyn_eq_spec Spec.Blake2.b good_b .wrapping outlen key msg ho hk (fits_wrapping _ _)

/-- BLAKE2s through `ContextDyn` = RFC 7693, ∀ msg, 1 ≤ outlen ≤ 32, keylen ≤ 32 -/
theorem blake2s_eq_spec (outlen : Nat) (key msg : Bytes) (ho : 1 ≤ outlen ∧ outlen ≤ 32) (hk : key.length ≤ 32) :
    Impl.Blake2.blake2s .wrapping outlen key msg = some (Spec.Blake2.blake2s outlen key msg) := by
  unfold Impl.Blake2.blake2s
  rw [impl_s_eq_spec_s]
  exact blake2_dyn_eq_spec Spec.Blake2.s good_s .wrapping outlen key msg ho hk (fits_wrapping _ _)

/-- BLAKE2b through `Context<BITS>` (output bytes = ⌈BITS/8⌉), ∀ msg, 1 ≤ BITS, ⌈BITS/8⌉ ≤ 64, keylen ≤ 64 -/
theorem blake2b_ctx_eq_spec (BITS : Nat) (key msg : Bytes) (hb : 0 < BITS ∧ (BITS + 7) / 8 ≤ 64) (hk : key.length ≤ 64) :
    Impl.Blake2.blake2b_ctx .wrapping BITS key msg = some (Spec.Blake2.blake2b ((BITS + 7) / 8) key msg) := by
  unfold Impl.Blake2.blake2b_ctx
  rw [impl_b_eq_spec_b]
  exact blake2_ctx_eq_spec Spec.Blake2.b good_b .wrapping BITS key msg hb hk (fits_wrapping _ _)

theorem blake2s_ctx_eq_spec (BITS : Nat) (key msg : Bytes) (hb : 0 < BITS ∧ (BITS + 7) / 8 ≤ 32) (hk : key.length ≤ 32) :
    Impl.Blake2.blake2s_ctx .wrapping BITS key msg = some (Spec.Blake2.blake2s ((BITS + 7) / 8) key msg) := by
  unfold Impl.Blake2.blake2s_ctx
  rw [impl_s_eq_spec_s]
  exact blake2_ctx_eq_spec Spec.Blake2.s good_s .wrapping BITS key msg hb hk (fits_wrapping _ _)

/-- the one-shot functions `hashing::blake2b_224/256/384/512(input)` = `Blake2b::<BITS>::new().update(input).finalize()`
    = RFC 7693 unkeyed BLAKE2b with nn = BITS/8, ∀ input -/
theorem hashing_blake2b_fixed (BITS : Nat) (hB : BITS ∈ [224, 256, 384, 512]) (msg : Bytes) :
    Impl.Blake2.hashing_blake2 Impl.Blake2.b .wrapping BITS msg
      = some (Spec.Blake2.blake2b (BITS / 8) [] msg) := by
  rw [impl_b_eq_spec_b]
  have h : BITS % 8 = 0 ∧ 0 < BITS ∧ BITS / 8 ≤ 64 := by
    simp only [List.mem_cons, List.not_mem_nil, or_false] at hB
    rcases hB with h | h | h | h <;> subst h <;> decide
  unfold Spec.Blake2.blake2b
  exact blake2_fixed_eq_spec Spec.Blake2.b good_b .wrapping BITS msg h.1 h.2 (fits_wrapping _ _)

/-- `hashing::blake2s_224/256` -/
theorem hashing_blake2s_fixed (BITS : Nat) (hB : BITS ∈ [224, 256]) (msg : Bytes) :
    Impl.Blake2.hashing_blake2 Impl.Blake2.s .wrapping BITS msg
      = some (Spec.Blake2.blake2s (BITS / 8) [] msg) := by
  rw [impl_s_eq_spec_s]
  have h : BITS % 8 = 0 ∧ 0 < BITS ∧ BITS / 8 ≤ 32 := by
    simp only [List.mem_cons, List.not_mem_nil, or_false] at hB
    rcases hB with h | h <;> subst h <;> decide
  unfold Spec.Blake2.blake2s
  exact blake2_fixed_eq_spec Spec.Blake2.s good_s .wrapping BITS msg h.1 h.2 (fits_wrapping _ _)

/-- the former `+=` in an overflow-checked build: equal to RFC 7693 while the low counter word cannot overflow,
    i.e. key block + message < 2^64 bytes (BLAKE2b) -/
theorem blake2b_eq_spec_checked (outlen : Nat) (key msg : Bytes) (ho : 1 ≤ outlen ∧ outlen ≤ 64) (hk : key.length ≤ 64)
    (hlen : (if key.isEmpty then 0 else 128) + msg.length < 2 ^ 64) :
    Impl.Blake2.blake2b .checked outlen key msg = some (Spec.Blake2.blake2b outlen key msg) := by
  unfold Impl.Blake2.blake2b
  rw [impl_b_eq_spec_b]
  exact blake2_dyn_eq_spec Spec.Blake2.b good_b .checked outlen key msg ho hk
    (Or.inr (show 0 % 2 ^ 64 + ((if key.isEmpty then 0 else 128) + msg.length) < 2 ^ 64 by
      rw [Nat.zero_mod, Nat.zero_add]; exact hlen))

/-- … < 2^32 bytes (BLAKE2s) -/
theorem blake2s_eq_spec_checked (outlen : Nat) (key msg : Bytes) (ho : 1 ≤ outlen ∧ outlen ≤ 32) (hk : key.length ≤ 32)
    (hlen : (if key.isEmpty then 0 else 64) + msg.length < 2 ^ 32) :
    Impl.Blake2.blake2s .checked outlen key msg = some (Spec.Blake2.blake2s outlen key msg) := by
  unfold Impl.Blake2.blake2s
  rw [impl_s_eq_spec_s]
  exact blake2_dyn_eq_spec Spec.Blake2.s good_s .checked outlen key msg ho hk
    (Or.inr (show 0 % 2 ^ 32 + ((if key.isEmpty then 0 else 64) + msg.length) < 2 ^ 32 by
      rw [Nat.zero_mod, Nat.zero_add]; exact hlen))

/-- hypotheses are satisfiable by non-trivial inputs (keyed BLAKE2b-256 of a 3-block message) -/
example : (1 ≤ 32 ∧ 32 ≤ 64) ∧ ([7, 7, 7, 7] : Bytes).length ≤ 64 ∧
    (if ([7, 7, 7, 7] : Bytes).isEmpty then 0 else 128) + (List.replicate 300 (1 : UInt8)).length < 2 ^ 64 := by
  rw [List.length_replicate]; decide

/-- refusal (C20 part): outside `1 ≤ outlen ≤ 64 ∧ keylen ≤ 64` the constructor panics, no value is returned -/
theorem blake2b_refuses (pr : Profile) (outlen : Nat) (key msg : Bytes) (h : ¬ (0 < outlen ∧ outlen ≤ 64 ∧ key.length ≤ 64)) :
    Impl.Blake2.blake2b pr outlen key msg = none := by
  unfold Impl.Blake2.blake2b
  rw [impl_b_eq_spec_b]
  exact blake2_dyn_refuses Spec.Blake2.b pr outlen key msg h

theorem blake2s_refuses (pr : Profile) (outlen : Nat) (key msg : Bytes) (h : ¬ (0 < outlen ∧ outlen ≤ 32 ∧ key.length ≤ 32)) :
    Impl.Blake2.blake2s pr outlen key msg = none := by
  unfold Impl.Blake2.blake2s
  rw [impl_s_eq_spec_s]
  exact blake2_dyn_refuses Spec.Blake2.s pr outlen key msg h

theorem blake2b_ctx_refuses (pr : Profile) (BITS : Nat) (key msg : Bytes)
    (h : ¬ (0 < BITS ∧ (BITS + 7) / 8 ≤ 64 ∧ key.length ≤ 64)) : Impl.Blake2.blake2b_ctx pr BITS key msg = none := by
  unfold Impl.Blake2.blake2b_ctx
  rw [impl_b_eq_spec_b]
  exact blake2_ctx_refuses Spec.Blake2.b pr BITS key msg h

theorem blake2s_ctx_refuses (pr : Profile) (BITS : Nat) (key msg : Bytes)
    (h : ¬ (0 < BITS ∧ (BITS + 7) / 8 ≤ 32 ∧ key.length ≤ 32)) : Impl.Blake2.blake2s_ctx pr BITS key msg = none := by
  unfold Impl.Blake2.blake2s_ctx
  rw [impl_s_eq_spec_s]
  exact blake2_ctx_refuses Spec.Blake2.s pr BITS key msg h

/-! ### compression: the code's instantiation of the shared core = the RFC's `F` -/

/-- `reference::compress_b` (extracted IV, rotation constants, 12-row SIGMA, unrolled 10 + 2 rounds, counter words
    `t[0], t[1]`) = `F(h, m, t, f)` with `t = t0 + 2^64 t1` -/
theorem compress_eq_F_b (h : Vector UInt64 8) (t0 t1 : Nat) (h0 : t0 < 2 ^ 64) (h1 : t1 < 2 ^ 64) (blk : Bytes)
    (last : Impl.Blake2.LastBlock) :
    Impl.Blake2.reference_compress Impl.Blake2.b h t0 t1 blk last
      = Spec.Blake2.F Spec.Blake2.b h blk (t0 + 2 ^ 64 * t1) (decide (last = .Yes)) := by
  rw [impl_b_eq_spec_b]
  have hc : Counts (W := UInt64) ⟨h, t0, t1⟩ (t0 + 2 ^ 64 * t1) := by
    unfold Counts; show t0 = (t0 + 2 ^ 64 * t1) % 2 ^ 64 ∧ t1 = (t0 + 2 ^ 64 * t1) / 2 ^ 64 % 2 ^ 64; omega
  exact compress_h Spec.Blake2.b good_b ⟨h, t0, t1⟩ _ hc blk last

theorem compress_eq_F_s (h : Vector UInt32 8) (t0 t1 : Nat) (h0 : t0 < 2 ^ 32) (h1 : t1 < 2 ^ 32) (blk : Bytes)
    (last : Impl.Blake2.LastBlock) :
    Impl.Blake2.reference_compress Impl.Blake2.s h t0 t1 blk last
      = Spec.Blake2.F Spec.Blake2.s h blk (t0 + 2 ^ 32 * t1) (decide (last = .Yes)) := by
  rw [impl_s_eq_spec_s]
  have hc : Counts (W := UInt32) ⟨h, t0, t1⟩ (t0 + 2 ^ 32 * t1) := by
    unfold Counts; show t0 = (t0 + 2 ^ 32 * t1) % 2 ^ 32 ∧ t1 = (t0 + 2 ^ 32 * t1) / 2 ^ 32 % 2 ^ 32; omega
  exact compress_h Spec.Blake2.s good_s ⟨h, t0, t1⟩ _ hc blk last

/-- RFC 7693 section 3.3 (array of padded data blocks) = the streaming formulation the code follows -/
theorem blake2b_rfc_eq_streaming (outlen : Nat) (key msg : Bytes) (hk : key.length ≤ 64) :
    Spec.Blake2.blake2b outlen key msg = Spec.Blake2.blake2At Spec.Blake2.b 0 outlen key msg :=
  blake2_eq_stream Spec.Blake2.b good_b.bb_pos outlen key msg (Nat.le_trans hk (by decide))

theorem blake2s_rfc_eq_streaming (outlen : Nat) (key msg : Bytes) (hk : key.length ≤ 32) :
    Spec.Blake2.blake2s outlen key msg = Spec.Blake2.blake2At Spec.Blake2.s 0 outlen key msg :=
  blake2_eq_stream Spec.Blake2.s good_s.bb_pos outlen key msg (Nat.le_trans hk (by decide))

/-! ### table obligations (re-extracted from /repo on every run) -/

/-- IV (b) = ⌊2^64 · frac √p⌋ for the first eight primes (the SHA-512 initial values), `isqrt` certified -/
theorem table_iv_b : Extracted.Blake2.B_IV = (List.range 8).map (Spec.Blake2.ivNat 64) ∧
    ∀ p ∈ Spec.Blake2.primes8,
      Spec.Blake2.isqrt (p * 2 ^ 128) * Spec.Blake2.isqrt (p * 2 ^ 128) ≤ p * 2 ^ 128 ∧
      p * 2 ^ 128 < (Spec.Blake2.isqrt (p * 2 ^ 128) + 1) * (Spec.Blake2.isqrt (p * 2 ^ 128) + 1) :=
  ⟨iv_b_formula, fun p hp => isqrt_spec_iv 64 (by decide) p hp⟩

/-- IV (s) = ⌊2^32 · frac √p⌋ (the SHA-256 initial values) = high halves of the b IV -/
theorem table_iv_s : Extracted.Blake2.S_IV = (List.range 8).map (Spec.Blake2.ivNat 32) ∧
    Extracted.Blake2.S_IV = Extracted.Blake2.B_IV.map (· / 2 ^ 32) ∧
    ∀ p ∈ Spec.Blake2.primes8,
      Spec.Blake2.isqrt (p * 2 ^ 64) * Spec.Blake2.isqrt (p * 2 ^ 64) ≤ p * 2 ^ 64 ∧
      p * 2 ^ 64 < (Spec.Blake2.isqrt (p * 2 ^ 64) + 1) * (Spec.Blake2.isqrt (p * 2 ^ 64) + 1) :=
  ⟨iv_s_formula, iv_s_high_half, fun p hp => isqrt_spec_iv 32 (by decide) p hp⟩

/-- SIGMA: 12 rows, every row a permutation of 0..15, rows 10, 11 = rows 0, 1, row r = RFC row r mod 10 -/
theorem table_sigma : Extracted.Blake2.SIGMA.length = 12 ∧
    (∀ row ∈ Extracted.Blake2.SIGMA, row.length = 16 ∧ ∀ k < 16, k ∈ row) ∧
    (Impl.Blake2.sigmaRow 10 = Impl.Blake2.sigmaRow 0 ∧ Impl.Blake2.sigmaRow 11 = Impl.Blake2.sigmaRow 1) ∧
    (∀ r < 12, Impl.Blake2.sigmaRow r = Spec.Blake2.SIGMA.getD (r % 10) []) :=
  ⟨sigma_len, sigma_rows_perm, sigma_rows_10_11, sigma_rows_eq_spec⟩

/-- block sizes, round counts, rotation constants (32,24,16,63 / 16,12,8,7), limits; the code's parameter sets
    are the RFC's -/
theorem table_consts :
    [Extracted.Blake2.B_BLOCK_BYTES, Extracted.Blake2.B_ROUNDS, Extracted.Blake2.B_R1, Extracted.Blake2.B_R2,
      Extracted.Blake2.B_R3, Extracted.Blake2.B_R4, Extracted.Blake2.B_MAX_OUTLEN, Extracted.Blake2.B_MAX_KEYLEN]
      = [128, 12, 32, 24, 16, 63, 64, 64] ∧
    [Extracted.Blake2.S_BLOCK_BYTES, Extracted.Blake2.S_ROUNDS, Extracted.Blake2.S_R1, Extracted.Blake2.S_R2,
      Extracted.Blake2.S_R3, Extracted.Blake2.S_R4, Extracted.Blake2.S_MAX_OUTLEN, Extracted.Blake2.S_MAX_KEYLEN]
      = [64, 10, 16, 12, 8, 7, 32, 32] ∧
    Impl.Blake2.b = Spec.Blake2.b ∧ Impl.Blake2.s = Spec.Blake2.s :=
  ⟨consts_b, consts_s, impl_b_eq_spec_b, impl_s_eq_spec_s⟩

/-! ### tests (samples, not theorems): RFC 7693 appendix A / B vectors evaluated by the kernel -/

set_option maxRecDepth 100000 in
example : Hex.encode (Spec.Blake2.blake2b 64 [] [0x61, 0x62, 0x63]) =
    "ba80a53f981c4d0d6a2797b69f12f6e94c212f14685ac4b74b12bb6fdbffa2d17d87c5392aab792dc252d5de4533cc9518d38aa8dbf1925ab92386edd4009923" := by
  decide +kernel

set_option maxRecDepth 100000 in
example : Hex.encode (Spec.Blake2.blake2s 32 [] [0x61, 0x62, 0x63]) =
    "508c5e8c327c14e2e1a72ba34eeb452f37458b209ed63a294d999b4c86675982" := by
  decide +kernel

end Cx.Props.C01
