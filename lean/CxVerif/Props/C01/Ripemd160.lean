/-
  Props.C01 (unit sha1ripemd, RIPEMD-160) — `cryptoxide::hashing::ripemd160` and `ripemd160::Context` return the
  RIPEMD-160 digest of the Dobbertin–Bosselaers–Preneel paper, for ALL messages of fewer than 2^61 bytes.

  Model: Impl/Ripemd160.lean interprets the argument list of the `process_block!` invocation (160 lines, re-extracted
  on every run together with the constants and boolean functions of the macro body; the `round!` body and the combine
  block are hand-modelled and their source text is pinned by the extractor).  Spec: Spec/Ripemd160.lean (ρ, π,
  shift-by-word table, two lines, combination) + Spec/MerkleDamgard.lean.
  Trusted: the extractor's parse of the macro; `processed_bytes +=` modelled wrapping.
  Only property theorems here; helpers in Proofs/{Ripemd160,Ripemd160Stream,Sha1Chunks,FixedBuffer}.
-/
import CxVerif.Proofs.Ripemd160
import CxVerif.Proofs.Ripemd160Stream
namespace Cx.Props.C01.Ripemd160
open Cx Cx.Impl Cx.Impl.Ripemd160

/-! ### the compression function: 160 macro lines = two lines of the paper -/

/-- the expansion of `process_block!` (80 + 80 `round!` steps on `bb`/`bbb` with rotating register roles, then
    "Combine results") computes the paper's compression function for EVERY chaining value and block -/
theorem ripemd160_compress_is_paper (h : Spec.Ripemd160.Hash) (M : List UInt32) :
    process_block h M = some (Spec.Ripemd160.compress h M) :=
  Cx.Proofs.Ripemd160.process_block_eq_compress h M

/-- on bytes: `process_msg_block` never panics on a 64-byte block -/
theorem ripemd160_process_msg_block (h : Spec.Ripemd160.Hash) (blk : Bytes) (hl : blk.length = 64) :
    process_msg_block blk h = some (Spec.Ripemd160.compressBytes h blk) :=
  Cx.Proofs.Ripemd160Stream.blockFn_spec h blk hl

example : (List.replicate 64 (0x5a : UInt8)).length = 64 := rfl

/-! ### the digest -/

/-- **`cryptoxide::hashing::ripemd160(msg)` = RIPEMD-160(msg)** for every message of fewer than 2^61 bytes
    (padding, the length written as two LE 32-bit words incl. the `>> 29` high word, any number of blocks) -/
theorem ripemd160_is_paper (msg : Bytes) (hlen : msg.length < 2 ^ 61) :
    Impl.Ripemd160.ripemd160 msg = some (Spec.Ripemd160.ripemd160 msg) :=
  Cx.Proofs.Ripemd160Stream.oneShot_eq msg hlen

/-- `Context::new().update(msg).finalize()` -/
theorem ripemd160_context_finalize_is_paper (msg : Bytes) (hlen : msg.length < 2 ^ 61) :
    (fam.update fam.new msg).bind fam.finalize = some (Spec.Ripemd160.ripemd160 msg) := by
  have := Cx.Proofs.Ripemd160Stream.oneShot_eq msg hlen
  unfold Impl.Ripemd160.ripemd160 at this
  unfold fam
  cases h : Context.new.update msg with
  | none => simp [h] at this
  | some c => simpa [h] using this

example : ([0x61, 0x62, 0x63] : Bytes).length < 2 ^ 61 := by decide

/-! ### tables (extracted from the source on every run; complete, kernel-decided) -/

open Cx.Proofs.Ripemd160 in
/-- all 80 left-line rows: register roles rotate by one per step, message word r(j), shift s(j), constant K(j),
    boolean function of round j/16 -/
theorem ripemd160_left_table : leftLines = some ((List.range 80).map specLineL) := left_lines_eq

open Cx.Proofs.Ripemd160 in
/-- all 80 right-line rows: r'(j), s'(j), K'(j), boolean function of round 4 − j/16 -/
theorem ripemd160_right_table : rightLines = some ((List.range 80).map specLineR) := right_lines_eq

open Cx.Proofs.Ripemd160 in
/-- every register index of the schedule is < 5, every message-word index < 16, every shift < 32, every constant
    < 2^32, every function number < 5: no default of the model's array accessors is ever taken -/
theorem ripemd160_schedule_wellformed :
    ∀ l ∈ (List.range 80).map specLineL ++ (List.range 80).map specLineR,
      l.o0 < 5 ∧ l.o1 < 5 ∧ l.o2 < 5 ∧ l.o3 < 5 ∧ l.o4 < 5 ∧ l.data_index < 16 ∧ l.roll_shift < 32 ∧
      l.add < 2 ^ 32 ∧ l.fn < 5 := schedule_wellformed

/-- the code's two length words `(pb << 3) as u32`, `(pb >> 29) as u32`, written little-endian one after the
    other, are the 64-bit little-endian bit length -/
theorem ripemd160_length_field (pb : UInt64) (len : Nat) (hpb : pb.toNat = len % 2 ^ 64) (hlen : len < 2 ^ 61) :
    write_u32_le (pb <<< 3).toUInt32 ++ write_u32_le (pb >>> 29).toUInt32 = Spec.MD.le64 (8 * len) := by
  rw [Cx.Proofs.Ripemd160Stream.len_lo_eq, Cx.Proofs.Ripemd160Stream.len_hi_eq, hpb,
    Cx.Proofs.FB.len_le64_split_eq hlen]

example : ((2 ^ 32 + 5 : Nat).toUInt64).toNat = (2 ^ 32 + 5) % 2 ^ 64 ∧ 2 ^ 32 + 5 < 2 ^ 61 := by decide

open Cx.Proofs.Ripemd160 Cx.Spec.Ripemd160 in
/-- the Spec's tables (derived from ρ, π and the shift-by-word table) are the appendix listings of the paper -/
theorem ripemd160_tables_are_appendix :
    (List.range 80).map r = appendix_r ∧ (List.range 80).map r' = appendix_r' ∧
    (List.range 80).map s = appendix_s ∧ (List.range 80).map s' = appendix_s' := tables_eq_appendix

open Cx.Spec.Ripemd160 in
/-- left constants ⌊2^30·√n⌋ (n = 2, 3, 5, 7), right constants ⌊2^30·∛n⌋ -/
theorem ripemd160_constants_are_roots :
    (K 0 = 0 ∧
     (∀ c, c = (K 16).toNat → c ^ 2 ≤ 2 * 2 ^ 60 ∧ 2 * 2 ^ 60 < (c + 1) ^ 2) ∧
     (∀ c, c = (K 32).toNat → c ^ 2 ≤ 3 * 2 ^ 60 ∧ 3 * 2 ^ 60 < (c + 1) ^ 2) ∧
     (∀ c, c = (K 48).toNat → c ^ 2 ≤ 5 * 2 ^ 60 ∧ 5 * 2 ^ 60 < (c + 1) ^ 2) ∧
     (∀ c, c = (K 64).toNat → c ^ 2 ≤ 7 * 2 ^ 60 ∧ 7 * 2 ^ 60 < (c + 1) ^ 2)) ∧
    ((∀ c, c = (K' 0).toNat → c ^ 3 ≤ 2 * 2 ^ 90 ∧ 2 * 2 ^ 90 < (c + 1) ^ 3) ∧
     (∀ c, c = (K' 16).toNat → c ^ 3 ≤ 3 * 2 ^ 90 ∧ 3 * 2 ^ 90 < (c + 1) ^ 3) ∧
     (∀ c, c = (K' 32).toNat → c ^ 3 ≤ 5 * 2 ^ 90 ∧ 5 * 2 ^ 90 < (c + 1) ^ 3) ∧
     (∀ c, c = (K' 48).toNat → c ^ 3 ≤ 7 * 2 ^ 90 ∧ 7 * 2 ^ 90 < (c + 1) ^ 3) ∧
     K' 64 = 0) :=
  ⟨Cx.Proofs.Ripemd160.K_sqrt, Cx.Proofs.Ripemd160.K'_cbrt⟩

/-- `H` of ripemd160.rs is the paper's initial value -/
theorem ripemd160_H_table : Impl.Ripemd160.H = Spec.Ripemd160.H0 := Cx.Proofs.Ripemd160.H_eq

/-! ### tests of the Spec transcription (kernel evaluation of the paper's vectors; tests, not theorems) -/

/-- RIPEMD-160("abc") = 8eb208f7e05d987a9b044a8e98c6b087f15a0bfc -/
example : Spec.Ripemd160.ripemd160 [0x61, 0x62, 0x63] =
    [0x8e, 0xb2, 0x08, 0xf7, 0xe0, 0x5d, 0x98, 0x7a, 0x9b, 0x04, 0x4a, 0x8e, 0x98, 0xc6, 0xb0, 0x87, 0xf1, 0x5a,
     0x0b, 0xfc] := by decide +kernel

/-- RIPEMD-160("") = 9c1185a5c5e9fc54612808977ee8f548b2258d31 -/
example : Spec.Ripemd160.ripemd160 [] =
    [0x9c, 0x11, 0x85, 0xa5, 0xc5, 0xe9, 0xfc, 0x54, 0x61, 0x28, 0x08, 0x97, 0x7e, 0xe8, 0xf5, 0x48, 0xb2, 0x25,
     0x8d, 0x31] := by decide +kernel

end Cx.Props.C01.Ripemd160
