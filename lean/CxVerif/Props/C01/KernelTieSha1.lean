/-
  Props.C01.KernelTieSha1 — the translator tie for the SHA-1 block function (emulated SHA-NI intrinsics on u32x4).
  `Extracted/KernelsSha1.lean` is regenerated from /repo/src/hashing/sha1.rs (+ the portable `impl Add/BitXor for
  u32x4` of /repo/src/simd.rs) on every run by tools/ktx_words.py.  The theorems, re-checked by the kernel on every
  build, say that the hand-written model `Impl.Sha1` (helper by helper, and the whole `digest_block_u32`) is exactly
  what the source says now, for ALL states and ALL sixteen-word blocks.
  (`u32::rotate_left`, `wrapping_add` are primitives: `Impl.Sha1.rotate_left` = `rotl32`, `+` on `UInt32`.)
-/
import CxVerif.Extracted.KernelsSha1
import CxVerif.Proofs.KeccakTactic
namespace Cx.Props.C01.KernelTieSha1
-- a small heartbeat budget makes a FAILING check (elaborator `rfl` or kernel) stop after seconds; a passing one needs < 1000
set_option maxHeartbeats 20000
open Cx Cx.Impl Cx.Impl.Sha1 Cx.Extracted.KernelsSha1 Cx.Proofs.Keccak
open Cx.Spec.Sha1 (Hash)

theorem sha1_first_src_eq_model (w0 : u32x4) : sha1_first_src w0 = sha1_first w0 := rfl
theorem sha1_first_add_src_eq_model (e : UInt32) (w0 : u32x4) : sha1_first_add_src e w0 = sha1_first_add e w0 := rfl
theorem sha1msg1_src_eq_model (a b : u32x4) : sha1msg1_src a b = sha1msg1 a b := rfl
theorem sha1msg2_src_eq_model (a b : u32x4) : sha1msg2_src a b = sha1msg2 a b := rfl
theorem sha1_schedule_x4_src_eq_model (v0 v1 v2 v3 : u32x4) :
    sha1_schedule_x4_src v0 v1 v2 v3 = sha1_schedule_x4 v0 v1 v2 v3 := rfl
theorem sha1_first_half_src_eq_model (abcd msg : u32x4) : sha1_first_half_src abcd msg = sha1_first_half abcd msg := rfl
theorem sha1rnds4c_src_eq_model (abcd msg : u32x4) : sha1rnds4c_src abcd msg = sha1rnds4c abcd msg := rfl
theorem sha1rnds4p_src_eq_model (abcd msg : u32x4) : sha1rnds4p_src abcd msg = sha1rnds4p abcd msg := rfl
theorem sha1rnds4m_src_eq_model (abcd msg : u32x4) : sha1rnds4m_src abcd msg = sha1rnds4m abcd msg := rfl
/-- the four reachable arms of `match i` in `sha1_digest_round_x4` (every call site passes a literal 0..3) -/
theorem sha1_digest_round_x4_0_src_eq_model (abcd work : u32x4) :
    sha1_digest_round_x4 abcd work 0 = some (sha1_digest_round_x4_0_src abcd work) := rfl
theorem sha1_digest_round_x4_1_src_eq_model (abcd work : u32x4) :
    sha1_digest_round_x4 abcd work 1 = some (sha1_digest_round_x4_1_src abcd work) := rfl
theorem sha1_digest_round_x4_2_src_eq_model (abcd work : u32x4) :
    sha1_digest_round_x4 abcd work 2 = some (sha1_digest_round_x4_2_src abcd work) := rfl
theorem sha1_digest_round_x4_3_src_eq_model (abcd work : u32x4) :
    sha1_digest_round_x4 abcd work 3 = some (sha1_digest_round_x4_3_src abcd work) := rfl

/-- `digest_block_u32` as written in the source = the model, on every state and every sixteen words -/
theorem digest_block_u32_src_eq_model_words (state : Hash)
    (b0 b1 b2 b3 b4 b5 b6 b7 b8 b9 b10 b11 b12 b13 b14 b15 : UInt32) :
    digest_block_u32 state [b0, b1, b2, b3, b4, b5, b6, b7, b8, b9, b10, b11, b12, b13, b14, b15]
      = some (digest_block_u32_src state b0 b1 b2 b3 b4 b5 b6 b7 b8 b9 b10 b11 b12 b13 b14 b15) := by
  kernel_rfl

/-- **the tie**: the model function `Impl.Sha1.digest_block_u32` IS the translated source, for every state and every
    word list (`none` = not sixteen words, which `&[u32; 16]` excludes in Rust) -/
theorem digest_block_u32_src_eq_model (state : Hash) (block : List UInt32) :
    digest_block_u32 state block =
      match block with
      | [b0, b1, b2, b3, b4, b5, b6, b7, b8, b9, b10, b11, b12, b13, b14, b15] =>
        some (digest_block_u32_src state b0 b1 b2 b3 b4 b5 b6 b7 b8 b9 b10 b11 b12 b13 b14 b15)
      | _ => none := by
  rcases block with _ | ⟨a0, _ | ⟨a1, _ | ⟨a2, _ | ⟨a3, _ | ⟨a4, _ | ⟨a5, _ | ⟨a6, _ | ⟨a7, _ | ⟨a8, _ | ⟨a9, _ | ⟨a10,
    _ | ⟨a11, _ | ⟨a12, _ | ⟨a13, _ | ⟨a14, _ | ⟨a15, _ | ⟨a16, t⟩⟩⟩⟩⟩⟩⟩⟩⟩⟩⟩⟩⟩⟩⟩⟩⟩
  all_goals first
    | exact digest_block_u32_src_eq_model_words state a0 a1 a2 a3 a4 a5 a6 a7 a8 a9 a10 a11 a12 a13 a14 a15
    | rfl

end Cx.Props.C01.KernelTieSha1
