/-
  Props.C01.KernelTieSha256 — the translator tie for the portable SHA-256 block function.
  `Extracted/KernelsSha256.lean` is regenerated from /repo/src/hashing/sha2/impl256/reference.rs on every run by
  tools/ktx_words.py (symbolic execution of the Rust source: macros expanded, loops unrolled, helper fns inlined;
  one straight-line `let` chain on `UInt32`).  The theorems below, re-checked by the kernel on every build, say that
  the hand-written model `Impl.Sha2.Impl256` — about which the C01/C02/C08/C16 theorems are proved — and the shared
  message-schedule core `Spec.Sha2.schedule256` compute exactly what the source says now, for ALL chaining values
  and ALL blocks.  A changed rotation constant, operand, index, loop bound or `K32` entry in the source changes the
  generated definition and breaks a proof obligation here, even when no sampled input reaches it.
  (`read_u32v_be`, `u32::rotate_right`, `wrapping_add` are primitives: the hand model's `read_u32v_be`,
  `Impl256.rotate_right`, `+` on `UInt32`.)
-/
import CxVerif.Extracted.KernelsSha256
import CxVerif.Proofs.KernelTieWords
import CxVerif.Proofs.KeccakTactic
namespace Cx.Props.C01.KernelTieSha256
-- a small heartbeat budget makes a FAILING check (elaborator `rfl` or kernel) stop after seconds; a passing one needs < 1000
set_option maxHeartbeats 20000
open Cx Cx.Impl Cx.Impl.Sha2 Cx.Spec.Sha2 Cx.Extracted.KernelsSha256 Cx.Proofs.Keccak Cx.Proofs.KernelTieWords

theorem e0_src_eq_model (x : UInt32) : e0_src x = Impl256.e0 x := rfl
theorem e1_src_eq_model (x : UInt32) : e1_src x = Impl256.e1 x := rfl
theorem s0_src_eq_model (x : UInt32) : s0_src x = Impl256.s0 x := rfl
theorem s1_src_eq_model (x : UInt32) : s1_src x = Impl256.s1 x := rfl

/-- **schedule = shared core**: the loop `for i in 16..64 { w[i] = s1(w[i-2]) + w[i-7] + s0(w[i-15]) + w[i-16] }` of the
    source, on the sixteen loaded words, is `Spec.Sha2.schedule256` (the definition both Spec and Impl use) -/
theorem schedule_src_eq_shared_core (m0 m1 m2 m3 m4 m5 m6 m7 m8 m9 m10 m11 m12 m13 m14 m15 : UInt32) :
    schedule_src m0 m1 m2 m3 m4 m5 m6 m7 m8 m9 m10 m11 m12 m13 m14 m15
      = schedule256 [m0, m1, m2, m3, m4, m5, m6, m7, m8, m9, m10, m11, m12, m13, m14, m15] := by
  kernel_rfl

/-- `digest_block_u32` as written in the source (schedule, 64 `round!` steps, feed-forward) on the words of the block
    = the model's `rounds_loop` over `K32.zip (schedule256 …)` plus feed-forward, for every state and block words -/
theorem digest_block_u32_src_eq_model_words (state : W8 UInt32)
    (m0 m1 m2 m3 m4 m5 m6 m7 m8 m9 m10 m11 m12 m13 m14 m15 : UInt32) :
    (match (some [m0, m1, m2, m3, m4, m5, m6, m7, m8, m9, m10, m11, m12, m13, m14, m15] : Option (List UInt32)) with
      | none => none
      | some w16 =>
        let w := Spec.Sha2.schedule256 w16
        if Impl256.K32.length ≠ 64 ∨ w.length ≠ 64 then none else
        match Impl256.rounds_loop state (Impl256.K32.zip w) with
        | none => none
        | some r =>
          some (⟨state.a + r.a, state.b + r.b, state.c + r.c, state.d + r.d,
                 state.e + r.e, state.f + r.f, state.g + r.g, state.h + r.h⟩ : W8 UInt32))
      = some (digest_block_u32_src state m0 m1 m2 m3 m4 m5 m6 m7 m8 m9 m10 m11 m12 m13 m14 m15) := by
  kernel_rfl

/-- **the tie**: the model function `Impl256.digest_block_u32` IS the translated source applied to the words that the
    primitive `read_u32v_be(&mut w[0..16], buf)` loads — for every chaining value and every byte string `buf`
    (`none` = the `assert!` of `read_u32v_be` fails, i.e. `buf.len() ≠ 64`) -/
theorem digest_block_u32_src_eq_model (state : W8 UInt32) (buf : Bytes) :
    Impl256.digest_block_u32 state buf =
      match read_u32v_be 16 buf with
      | some [m0, m1, m2, m3, m4, m5, m6, m7, m8, m9, m10, m11, m12, m13, m14, m15] =>
        some (digest_block_u32_src state m0 m1 m2 m3 m4 m5 m6 m7 m8 m9 m10 m11 m12 m13 m14 m15)
      | _ => none := by
  unfold Impl256.digest_block_u32
  cases h : read_u32v_be 16 buf with
  | none => rfl
  | some w =>
    obtain ⟨m0, m1, m2, m3, m4, m5, m6, m7, m8, m9, m10, m11, m12, m13, m14, m15, rfl⟩ :=
      list16 w (read_u32v_be_length h)
    exact digest_block_u32_src_eq_model_words state m0 m1 m2 m3 m4 m5 m6 m7 m8 m9 m10 m11 m12 m13 m14 m15

end Cx.Props.C01.KernelTieSha256
