/-
  Props.C01 (unit sha2) — every SHA-2 digest of the crate equals its FIPS 180-4 function, for ALL messages inside the
  standard's length domain (len < 2^61 bytes for SHA-224/256, len < 2^125 bytes for SHA-384/512/512-224/512-256).

  Model: Impl/FixedBuffer.lean, Impl/MdEngine.lean, Impl/Sha2.lean (code-shaped, tied to /repo by the correspondence
  run and by the re-extracted tables).  Spec: Spec/Sha2.lean + Spec/MerkleDamgard.lean (FIPS text, constants by formula).
  Trusted: byte-level reading of the FIPS bit padding (stated in Spec/MerkleDamgard.lean); the SHA-256 message
  schedule loop is shared between Impl and Spec (literal transcription); overflow-checked builds panic instead of
  wrapping `processed_bytes` beyond 2^64 / 2^128 bytes (outside every hypothesis below).
  Only property theorems here; helpers are in Proofs/{FixedBuffer,Sha2Tables,Sha2Compress,Sha2Compress512,Sha2Engine}.
-/
import CxVerif.Proofs.FixedBuffer
import CxVerif.Proofs.Sha2Tables
import CxVerif.Proofs.Sha2Compress
import CxVerif.Proofs.Sha2Compress512
import CxVerif.Proofs.Sha2Engine
namespace Cx.Props.C01.Sha2
open Cx Cx.Impl Cx.Proofs.FB

/-! ### (i) FixedBuffer.input: any chunking -/

/-- After ANY sequence of `input` calls (every chunking, empty chunks included) on a well-formed buffer, the
    compression callback has been applied to exactly the full `N`-byte blocks of `live bytes ++ concatenation`, in
    order, and the buffer holds the remaining tail (`< N` bytes); no call panics.  Generic in the block size and the
    compression function (instantiated for SHA-2 below, for SHA-1/RIPEMD-160 by unit sha1ripemd). -/
theorem fixedbuffer_input_any_chunking {σ : Type} {N : Nat} (hN : 0 < N) (func : σ → Bytes → Option σ)
    (compress : σ → Bytes → σ) (hf : FuncIsBlocks N func compress) (chunks : List Bytes)
    (b : FixedBuffer) (st : σ) (hwf : WF N b) :
    ∃ b', inputMany N func chunks b st
        = some (b', (fullBlocks N (b.data ++ chunks.flatten)).foldl compress st)
      ∧ WF N b' ∧ b'.data = blockTail N (b.data ++ chunks.flatten) :=
  inputMany_spec hN func compress hf chunks b st hwf

/-- the hypotheses are met by the real closure of `Engine256::input` on a fresh buffer -/
example : FuncIsBlocks 64 Impl.Sha2.Eng256.Engine.blocks Cx.Proofs.Sha2Engine.compressE256 ∧ WF 64 (FixedBuffer.new 64) :=
  ⟨Cx.Proofs.Sha2Engine.blocks256_isBlocks, new_WF (by decide)⟩

/-! ### (ii) standard_padding + length field = FIPS padding, both branches -/

/-- `standard_padding(rem, f); *next::<rem>() = lenBytes; f(full_buffer())` never panics and compresses exactly
    `live ‖ 0x80 ‖ 0^z ‖ lenBytes` with `z = Spec.MD.padZeros N rem |live|`, whichever branch
    (`N − idx − 1 < rem` or not) is taken; the buffer index ends at 0. -/
theorem standard_padding_is_fips_padding {σ : Type} {N rem : Nat} (hN : 0 < N) (hrem : rem ≤ N) (b : FixedBuffer)
    (lenBytes : Bytes) (hlb : lenBytes.length = rem) (func : σ → Bytes → Option σ) (compress : σ → Bytes → σ)
    (st : σ) (hwf : WF N b) (hf : FuncOneBlock N func compress) :
    ∃ b', md_finish N rem lenBytes b func st
        = some (b', (fullBlocks N (b.data ++ [(0x80 : UInt8)] ++ zeros (Spec.MD.padZeros N rem b.data.length)
                      ++ lenBytes)).foldl compress st)
      ∧ WF N b' ∧ b'.buffer_idx = 0 :=
  md_finish_spec hN hrem b lenBytes hlb func compress st hwf hf

example : (Impl.len_be64 12345).length = 8 ∧ 8 ≤ 64 ∧ WF 64 (FixedBuffer.new 64) :=
  ⟨len_be64_length _, by decide, new_WF (by decide)⟩

/-- `padZeros` is "the smallest non-negative solution" of FIPS 180-4 §5.1.1 / §5.1.2 (byte granularity) -/
theorem padZeros_is_least_solution {B L len : Nat} (hB : 0 < B) :
    (len + 1 + Spec.MD.padZeros B L len + L) % B = 0
    ∧ ∀ z, z < Spec.MD.padZeros B L len → (len + 1 + z + L) % B ≠ 0 :=
  padZeros_spec hB

/-- Merkle–Damgård end to end, generic: fresh/reset buffer, any chunking, finish = `Spec.MD.hash` -/
theorem md_any_chunking_is_spec {σ : Type} {N rem : Nat} (hN : 0 < N) (hrem : rem ≤ N)
    (func funcFin : σ → Bytes → Option σ) (compress : σ → Bytes → σ)
    (hf : FuncIsBlocks N func compress) (hf1 : FuncOneBlock N funcFin compress)
    (lenEnc : Nat → Bytes) (wr : FixedBuffer → Option FixedBuffer)
    (chunks : List Bytes) (hlen : (lenEnc (8 * chunks.flatten.length)).length = rem)
    (hwr : WritesLen N wr (lenEnc (8 * chunks.flatten.length)))
    (b0 : FixedBuffer) (iv : σ) (hwf : WF N b0) (h0 : b0.buffer_idx = 0) :
    ∃ b1 st1 b2, inputMany N func chunks b0 iv = some (b1, st1)
      ∧ md_finish_with N rem wr b1 funcFin st1
          = some (b2, Spec.MD.hash N rem lenEnc compress iv chunks.flatten)
      ∧ WF N b2 ∧ b2.buffer_idx = 0 :=
  md_hash_spec hN hrem func funcFin compress hf hf1 lenEnc wr chunks hlen hwr b0 iv hwf h0

/-! ### one-shot digests = FIPS 180-4, all messages in the domain -/

open Cx.Proofs.Sha2Engine in
/-- `hashing::sha256(msg)` = `Sha256::new().update(msg).finalize()` = SHA-256(msg) and does not panic -/
theorem sha256_eq_spec (msg : Bytes) (h : msg.length < 2 ^ 61) :
    Impl.Sha2.sha256? msg = some (Spec.Sha2.sha256 msg) := by
  rw [← specDigest256_sha256]; exact oneShot256_eq _ _ outOK_sha256 msg h

open Cx.Proofs.Sha2Engine in
theorem sha224_eq_spec (msg : Bytes) (h : msg.length < 2 ^ 61) :
    Impl.Sha2.sha224? msg = some (Spec.Sha2.sha224 msg) := by
  rw [← specDigest256_sha224]; exact oneShot256_eq _ _ outOK_sha224 msg h

open Cx.Proofs.Sha2Engine in
theorem sha512_eq_spec (msg : Bytes) (h : msg.length < 2 ^ 125) :
    Impl.Sha2.sha512? msg = some (Spec.Sha2.sha512 msg) := by
  rw [← specDigest512_sha512]; exact oneShot512_eq compress512_ok _ _ outOK_sha512 msg h

open Cx.Proofs.Sha2Engine in
theorem sha384_eq_spec (msg : Bytes) (h : msg.length < 2 ^ 125) :
    Impl.Sha2.sha384? msg = some (Spec.Sha2.sha384 msg) := by
  rw [← specDigest512_sha384]; exact oneShot512_eq compress512_ok _ _ outOK_sha384 msg h

open Cx.Proofs.Sha2Engine in
/-- SHA-512/224, including the `(h[3] >> 32) as u32` half word -/
theorem sha512_224_eq_spec (msg : Bytes) (h : msg.length < 2 ^ 125) :
    Impl.Sha2.sha512_224? msg = some (Spec.Sha2.sha512_224 msg) := by
  rw [← specDigest512_sha512_224]; exact oneShot512_eq compress512_ok _ _ outOK_sha512_224 msg h

open Cx.Proofs.Sha2Engine in
theorem sha512_256_eq_spec (msg : Bytes) (h : msg.length < 2 ^ 125) :
    Impl.Sha2.sha512_256? msg = some (Spec.Sha2.sha512_256 msg) := by
  rw [← specDigest512_sha512_256]; exact oneShot512_eq compress512_ok _ _ outOK_sha512_256 msg h

/-- a 200-byte message is inside both domains (hypotheses are satisfiable by non-trivial, multi-block input) -/
example : (List.replicate 200 (7 : UInt8)).length < 2 ^ 61 ∧ (List.replicate 200 (7 : UInt8)).length < 2 ^ 125 := by
  rw [List.length_replicate]; omega

/-- the total forms exported to later units (HMAC, HKDF, PBKDF2, Ed25519 …) -/
theorem sha256_total (msg : Bytes) (h : msg.length < 2 ^ 61) : Impl.Sha2.sha256 msg = Spec.Sha2.sha256 msg := by
  simp [Impl.Sha2.sha256, sha256_eq_spec msg h, Impl.Sha2.orEmpty]
theorem sha224_total (msg : Bytes) (h : msg.length < 2 ^ 61) : Impl.Sha2.sha224 msg = Spec.Sha2.sha224 msg := by
  simp [Impl.Sha2.sha224, sha224_eq_spec msg h, Impl.Sha2.orEmpty]
theorem sha512_total (msg : Bytes) (h : msg.length < 2 ^ 125) : Impl.Sha2.sha512 msg = Spec.Sha2.sha512 msg := by
  simp [Impl.Sha2.sha512, sha512_eq_spec msg h, Impl.Sha2.orEmpty]
theorem sha384_total (msg : Bytes) (h : msg.length < 2 ^ 125) : Impl.Sha2.sha384 msg = Spec.Sha2.sha384 msg := by
  simp [Impl.Sha2.sha384, sha384_eq_spec msg h, Impl.Sha2.orEmpty]
theorem sha512_224_total (msg : Bytes) (h : msg.length < 2 ^ 125) :
    Impl.Sha2.sha512_224 msg = Spec.Sha2.sha512_224 msg := by
  simp [Impl.Sha2.sha512_224, sha512_224_eq_spec msg h, Impl.Sha2.orEmpty]
theorem sha512_256_total (msg : Bytes) (h : msg.length < 2 ^ 125) :
    Impl.Sha2.sha512_256 msg = Spec.Sha2.sha512_256 msg := by
  simp [Impl.Sha2.sha512_256, sha512_256_eq_spec msg h, Impl.Sha2.orEmpty]

/-! ### (v) compression functions -/

/-- SHA-256: the 8-way unrolled, register-renamed block function with `g ^ (e & (f ^ g))` and
    `(a & b) | (c & (a | b))` = FIPS 180-4 §6.2.2, every block, every chaining value; no panic -/
theorem sha256_block_function_is_fips (state : Spec.Sha2.W8 UInt32) (block : Bytes) (h : block.length = 64) :
    Impl.Sha2.Impl256.digest_block_u32 state block = some (Spec.Sha2.compress256 state block) :=
  Cx.Proofs.Sha2Compress.digest_block_u32_eq state block h

/-- SHA-512: the u64x2 pair-lane block function (fully unrolled, sliding schedule window, `K64X2`) = FIPS §6.4.2 -/
theorem sha512_block_function_is_fips (state : Spec.Sha2.W8 UInt64) (block : Bytes) (h : block.length = 128) :
    Impl.Sha2.Impl512.digest_block_u64 state (wordsBE64 block) = some (Spec.Sha2.compress512 state block) := by
  rw [Cx.Proofs.Sha2Compress512.compress512_eq_w]
  exact Cx.Proofs.Sha2Compress512.digest_block_u64_eq state _
    (by rw [Cx.Proofs.Sha2Compress.wordsBE64_length, h])

example : (List.replicate 64 (1 : UInt8)).length = 64 ∧ (List.replicate 128 (1 : UInt8)).length = 128 := by decide

/-! ### (vi) tables: re-extracted from /repo/src on every run, equal to the formula-defined constants -/

open Cx.Spec.Sha2 Cx.Proofs.Sha2Tables in
/-- every constant table of the SHA-2 source equals the FIPS constant (K by cube roots of primes, H by square roots,
    SHA-512/t IVs by the IV generation function); `K64X2` is `K64` pairwise swapped -/
theorem sha2_tables_are_fips :
    Extracted.Sha2.K32 = K256 ∧ Extracted.Sha2.K64 = K512
    ∧ Extracted.Sha2.K64X2 = swapPairs Extracted.Sha2.K64
    ∧ Impl.Sha2.H256 = H256 ∧ Impl.Sha2.H224 = H224 ∧ Impl.Sha2.H512 = H512 ∧ Impl.Sha2.H384 = H384
    ∧ Impl.Sha2.H512_TRUNC_224 = H512_224 ∧ Impl.Sha2.H512_TRUNC_256 = H512_256
    ∧ Impl.Sha2.Eng256.BLOCK_LEN_BYTES = 64 ∧ Impl.Sha2.Eng512.BLOCK_LEN_BYTES = 128 :=
  ⟨K32_eq, K64_eq, K64X2_eq, H256_eq, H224_eq, H512_eq, H384_eq, H512_TRUNC_224_eq, H512_TRUNC_256_eq,
   block_len_eq.1, block_len_eq.2⟩

open Cx.Spec.Sha2 Cx.Proofs.Sha2Tables in
/-- the Spec constants are what the standard's formulas say: `firstPrimes 80` is exactly the list of the first 80
    primes, and every root taken is the exact floor root (so `fracRoot` is the leading bits of the fractional part) -/
theorem sha2_constants_follow_the_formulas :
    ((firstPrimes 80).length = 80 ∧ strictlyIncreasing (firstPrimes 80) = true
      ∧ (∀ p ∈ firstPrimes 80, p < 410) ∧ ∀ n, n < 410 → (n ∈ firstPrimes 80 ↔ IsPrimeDef n))
    ∧ (∀ p ∈ firstPrimes 64, IsFloorRoot 3 (p * 2 ^ (3 * 32)) (iroot 3 (p * 2 ^ (3 * 32))))
    ∧ (∀ p ∈ firstPrimes 80, IsFloorRoot 3 (p * 2 ^ (3 * 64)) (iroot 3 (p * 2 ^ (3 * 64))))
    ∧ (∀ p ∈ firstPrimes 8, IsFloorRoot 2 (p * 2 ^ (2 * 32)) (iroot 2 (p * 2 ^ (2 * 32))))
    ∧ (∀ p ∈ firstPrimes 16, IsFloorRoot 2 (p * 2 ^ (2 * 64)) (iroot 2 (p * 2 ^ (2 * 64)))) :=
  ⟨firstPrimes80_spec, iroot_exact_cube32, iroot_exact_cube64, iroot_exact_sqrt32, iroot_exact_sqrt64⟩

/-! ### tests (samples, not theorems): FIPS 180-4 example "abc" through the code-shaped model -/
example : (Impl.Sha2.sha256? [0x61, 0x62, 0x63]).map Hex.encode
    = some "ba7816bf8f01cfea414140de5dae2223b00361a396177a9cb410ff61f20015ad" := by decide +kernel

end Cx.Props.C01.Sha2
