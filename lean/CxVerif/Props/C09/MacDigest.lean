/-
  Props.C09 (unit mackdf) — MAC and legacy digest objects: reset rekeys, results never silently change.
  (Poly1305 is in unit poly1305.)

  The statements are about `Impl.Digest.runHist`, the very function the driver ops `dig.obj`, `mac.hmac`,
  `mac.blake2b`, `mac.blake2s` run on the code-shaped objects: for EVERY operation history over
      { input(chunk), result, raw_result into a buffer of any length, reset, reset_with_key(k), clone-push, swap, sizes }
  the object emits exactly the values of the ABSTRACT object `Spec.MacObj.Abs` (the function under the retained key
  and parameters; the bytes fed since the last reset; finished?) and panics at exactly the op where the abstract
  object refuses (`…_every_history`).  The four clauses of the property are the laws of the abstract object:
    * `abs_result_value`   a value is returned only by an unfinished object, and it is f(bytes since the last reset);
    * `abs_after_result`   a second result without reset, and input after a result, are REFUSED
                           (the property allows "same bytes or loud failure": every object of this unit fails loudly);
    * `abs_reset_is_fresh` reset = the freshly constructed object with the same key and parameters;
    * legacy digest objects = the one-shot functions on every history: `legacy_every_history` with f = the hash.
  Domain guard (`Guard`): each result is asked for inside the domain of the underlying hash
  (bytes since reset `< 2^61` / `< 2^125`; none for the sponges and BLAKE2).

  Keyed BLAKE2b / BLAKE2s (`impl Mac`, `impl Digest` of src/blake2b.rs, src/blake2s.rs): `blake2_every_history` for
  the tree as it is (`CodeVariant.repaired`, /repo c8ec1e5); the old text (`.current`) VIOLATED the reset clause:
  `blake2_current_reset_drops_key` (for every key, reset leaves exactly the state of the unkeyed `new(outlen)`) and the
  concrete witness `blake2_current_witness` (finding (d), line `mac.blake2b 1 05 r;R`: 2e instead of 6f).
-/
import CxVerif.Proofs.MacHmac
import CxVerif.Proofs.MacInst
import CxVerif.Proofs.MacInstSha3
import CxVerif.Proofs.MacBlake2
namespace Cx.Props.C09
open Cx Cx.Impl.Digest Cx.Impl.Hmac Cx.Proofs.MacObj Cx.Proofs.MacHmac Cx.Proofs.MacLegacy Cx.Spec.MacObj

/-! ### the laws of the abstract object -/

theorem abs_result_value (a a' : Abs) (n : Nat) (v : Bytes) (h : resultN a n = some (a', v)) :
    v = a.f a.data ∧ a.finished = false ∧ n = a.outLen ∧ a'.finished = true :=
  Cx.Proofs.MacObj.abs_result_value a a' n v h

theorem abs_after_result (a a' : Abs) (n : Nat) (v : Bytes) (h : resultN a n = some (a', v)) :
    (∀ k, resultN a' k = none) ∧ result a' = none ∧ (∀ b, input a' b = none) :=
  Cx.Proofs.MacObj.abs_after_result a a' n v h

theorem abs_reset_is_fresh (a : Abs) : reset a = fresh a.f a.outLen := rfl

/-! ### legacy digest objects -/

/-- **every history of a macro-generated legacy digest object** `X::new()` (through `trait Digest`, including clones):
    the emitted digests are the one-shot function of the bytes since the last reset, `output_bytes/output_bits/
    block_size` are the reported constants, the panics are exactly the abstract object's refusals. -/
theorem legacy_every_history {γ : Type} (M : CtxModel γ) (H : Fn) (R : γ → Bytes → Prop) (ok : Bytes → Prop)
    (hc : CtxContract M H R ok) (ops : List Op)
    (hG : Guard (sizesOf M) (fun _ => none) (fun _ m => ok m) ops (fresh H (outBytes M)) []) :
    runHist (digestFam (legacyDigest M)) ops (Legacy.new M) [] []
      = runHist (absFam (sizesOf M) (fun _ => none)) ops (fresh H (outBytes M)) [] [] :=
  runHist_fresh (legacy_contract M H R hc) (Legacy.new M) H (legacy_new M H R hc) ops hG

/-- the wrapped context type refines "bytes since the last reset" for some abstraction relation -/
def Refined {γ : Type} (M : CtxModel γ) (H : Fn) (ok : Bytes → Prop) : Prop := ∃ R, CtxContract M H R ok

open Cx.Proofs.MacInst Cx.Proofs.MacInstSha3 Cx.Props.C02.Sha2 in
/-- the 16 wrappers satisfy the hypothesis of `legacy_every_history` (facts from the hash units, Props/C02) -/
theorem legacy_wrappers_refine :
    Refined sha1Ctx Spec.Sha1.sha1 Cx.Props.C02.Sha1Ripemd.ok ∧
    Refined ripemd160Ctx Spec.Ripemd160.ripemd160 Cx.Props.C02.Sha1Ripemd.ok ∧
    Refined sha224Ctx Spec.Sha2.sha224 ok256 ∧ Refined sha256Ctx Spec.Sha2.sha256 ok256 ∧
    Refined sha384Ctx Spec.Sha2.sha384 ok512 ∧ Refined sha512Ctx Spec.Sha2.sha512 ok512 ∧
    Refined sha512_224Ctx Spec.Sha2.sha512_224 ok512 ∧ Refined sha512_256Ctx Spec.Sha2.sha512_256 ok512 ∧
    Refined sha3_224Ctx Spec.Keccak.sha3_224 (fun _ => True) ∧ Refined sha3_256Ctx Spec.Keccak.sha3_256 (fun _ => True) ∧
    Refined sha3_384Ctx Spec.Keccak.sha3_384 (fun _ => True) ∧ Refined sha3_512Ctx Spec.Keccak.sha3_512 (fun _ => True) ∧
    Refined keccak224Ctx Spec.Keccak.keccak224 (fun _ => True) ∧ Refined keccak256Ctx Spec.Keccak.keccak256 (fun _ => True) ∧
    Refined keccak384Ctx Spec.Keccak.keccak384 (fun _ => True) ∧ Refined keccak512Ctx Spec.Keccak.keccak512 (fun _ => True) :=
  ⟨⟨_, sha1_ctx⟩, ⟨_, ripemd160_ctx⟩, ⟨_, sha224_ctx⟩, ⟨_, sha256_ctx⟩, ⟨_, sha384_ctx⟩, ⟨_, sha512_ctx⟩,
   ⟨_, sha512_224_ctx⟩, ⟨_, sha512_256_ctx⟩, ⟨_, sha3_224_ctx⟩, ⟨_, sha3_256_ctx⟩, ⟨_, sha3_384_ctx⟩, ⟨_, sha3_512_ctx⟩,
   ⟨_, keccak224_ctx⟩, ⟨_, keccak256_ctx⟩, ⟨_, keccak384_ctx⟩, ⟨_, keccak512_ctx⟩⟩

/-- a non-trivial history inside the guard: block-multiple message, result, second result (refused) -/
example : Guard (sizesOf sha256Ctx) (fun _ => none) (fun _ m => Cx.Props.C02.Sha2.ok256 m)
    [Op.input (List.replicate 64 1), .result, .result] (fresh Spec.Sha2.sha256 (outBytes sha256Ctx)) [] := by
  simp [Guard, Spec.MacObj.input, Spec.MacObj.result, Spec.MacObj.resultN, fresh, Cx.Props.C02.Sha2.ok256]

/-! ### HMAC objects -/

/-- **every history of `Hmac::new(d0, key)`**, generic in the digest object, for every key: the emitted values are
    RFC 2104 HMAC of the bytes since the last reset; second result / input after result are refused; reset = fresh
    with the same key (the object retains `i_key`). -/
theorem hmac_every_history {δ : Type} (D : DigestModel δ) (H : Fn) (B L bits : Nat) (okD : Fn → Bytes → Prop)
    (RelD : δ → Fn → Bytes → Prop) (FinD : δ → Fn → Prop)
    (hD : Contract (digestFam D) L [L, bits, B] (fun _ => none) okD RelD FinD) (hLB : L ≤ B)
    (d0 : δ) (h0 : RelD d0 H []) (key : Bytes) (hk : key.length ≤ B ∨ okD H key) (ops : List Op)
    (hG : Guard [L] (fun _ => none) (okH H B key okD) ops (fresh (Spec.Hmac.hmac H B key) L) []) :
    ∃ h, Hmac.new D d0 key = some h ∧
      runHist (macFam (hmacMac D)) ops h [] []
        = runHist (absFam [L] (fun _ => none)) ops (fresh (Spec.Hmac.hmac H B key) L) [] [] := by
  obtain ⟨h, e, hr⟩ := hmac_new D H B key RelD FinD hD hLB d0 h0 hk
  exact ⟨h, e, runHist_fresh (hmac_contract D H B key RelD FinD hD) h _ hr ops hG⟩

/-- HMAC over a legacy wrapper (the 16 instances follow from `legacy_wrappers_refine`) -/
theorem hmac_legacy_every_history {γ : Type} (M : CtxModel γ) (H : Fn) (R : γ → Bytes → Prop) (ok : Bytes → Prop)
    (hc : CtxContract M H R ok) (hLB : outBytes M ≤ M.BLOCK_BYTES) (key : Bytes)
    (hk : key.length ≤ M.BLOCK_BYTES ∨ ok key) (ops : List Op)
    (hG : Guard [outBytes M] (fun _ => none) (okH H M.BLOCK_BYTES key (fun _ m => ok m)) ops
      (fresh (Spec.Hmac.hmac H M.BLOCK_BYTES key) (outBytes M)) []) :
    ∃ h, Hmac.new (legacyDigest M) (Legacy.new M) key = some h ∧
      runHist (macFam (hmacMac (legacyDigest M))) ops h [] []
        = runHist (absFam [outBytes M] (fun _ => none)) ops
            (fresh (Spec.Hmac.hmac H M.BLOCK_BYTES key) (outBytes M)) [] [] :=
  hmac_every_history (legacyDigest M) H M.BLOCK_BYTES (outBytes M) M.OUTPUT_BITS (fun _ m => ok m) (RelL H R) (FinL H R)
    (legacy_contract M H R hc) hLB (Legacy.new M) (legacy_new M H R hc) key hk ops hG

/-! ### keyed BLAKE2b / BLAKE2s -/

open Cx.Proofs.MacBlake2

/-- **every history of `Blake2b::new_keyed(outlen, key)` / `Blake2s::…` through `trait Mac`** (tree as it is,
    `.repaired`): values = RFC 7693 keyed BLAKE2 of the bytes since the last reset under the CURRENT key (the one of
    `new_keyed` or of the last `reset_with_key`); reset = fresh with that key; no length guard (wrapping counter). -/
theorem blake2b_every_history (outlen : Nat) (key : Bytes) (ho : 0 < outlen ∧ outlen ≤ 64) (hk : key.length ≤ 64)
    (ops : List Op) :
    ∃ o, Blake2.new_keyed Impl.Blake2.b bKeyAssert outlen key = some o ∧
      runHist { macFam (blake2bMac .repaired) with reset_with_key := Blake2.reset_with_key Impl.Blake2.b } ops o [] []
        = runHist (absFam [outlen] (fkB Spec.Blake2.b outlen)) ops
            (fresh (Spec.Blake2.blake2 Spec.Blake2.b outlen key) outlen) [] [] :=
  blake2b_hist outlen key ho hk ops

theorem blake2s_every_history (outlen : Nat) (key : Bytes) (ho : 0 < outlen ∧ outlen ≤ 32) (hk : key.length ≤ 32)
    (ops : List Op) :
    ∃ o, Blake2.new_keyed Impl.Blake2.s sKeyAssert outlen key = some o ∧
      runHist { macFam (blake2sMac .repaired) with reset_with_key := Blake2.reset_with_key Impl.Blake2.s } ops o [] []
        = runHist (absFam [outlen] (fkB Spec.Blake2.s outlen)) ops
            (fresh (Spec.Blake2.blake2 Spec.Blake2.s outlen key) outlen) [] [] :=
  blake2s_hist outlen key ho hk ops

/-- **finding (d), the old text of `reset`** (`CodeVariant.current`): for EVERY key and output length, `reset` of
    a keyed object leaves exactly the object that the UNKEYED constructor `new(outlen)` builds (up to the ghost key
    field) — the key is gone, so every later result is the unkeyed hash. -/
theorem blake2_current_reset_drops_key (outlen : Nat) (key : Bytes) (ho : 0 < outlen ∧ outlen ≤ 64) (hk : key.length ≤ 64) :
    ∃ o o' u, Blake2.new_keyed Impl.Blake2.b bKeyAssert outlen key = some o ∧
      Blake2.reset .current Impl.Blake2.b o = some o' ∧ Blake2.new Impl.Blake2.b outlen = some u ∧
      o'.ctx = u.ctx ∧ o'.computed = u.computed :=
  current_reset_drops_key outlen key ho hk

/-- **finding (d), concrete witness** (the line `mac.blake2b 1 05 r;R` of the correspondence): with the OLD `reset`
    the keyed object `new_keyed(1, [05])` answers `2e` (= unkeyed BLAKE2b-8 of the empty string) after `reset; result`,
    while the abstract object — and the tree as it is (`.repaired`) — answer `6f` (= keyed). Kernel evaluation. -/
theorem blake2_current_witness :
    (Blake2.new_keyed Impl.Blake2.b bKeyAssert 1 [5]).map
        (fun o => runHist (famB .current Impl.Blake2.b) [.reset, .result] o [] [])
      = some ([Out.bytes [0x2e]], false) ∧
    (Blake2.new_keyed Impl.Blake2.b bKeyAssert 1 [5]).map
        (fun o => runHist (famB .repaired Impl.Blake2.b) [.reset, .result] o [] [])
      = some ([Out.bytes [0x6f]], false) ∧
    runHist (absFam [1] (fkB Spec.Blake2.b 1)) [.reset, .result]
        (fresh (Spec.Blake2.blake2 Spec.Blake2.b 1 [5]) 1) [] [] = ([Out.bytes [0x6f]], false) := by
  decide +kernel

end Cx.Props.C09
